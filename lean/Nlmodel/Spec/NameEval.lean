/-
  A resolver-INDEPENDENT definitional semantics of names (property C09) for the stage-3 fragment
  (integers, booleans, operators, variables with `stel`/assignment/shadowing, nested blocks,
  `als`/`anders`, `zolang`, `stop`/`volgende`; no functions, strings, arrays).

  It works DIRECTLY ON THE SOURCE TREE (`Expr/Stmt/Block` with names).  There is no resolver, no binder
  id and no slot anywhere in this file: the environment is a STACK OF SCOPES (innermost first), each a
  list of (name, value) with the newest declaration first.
    * `stel x = e` adds `x` to the innermost scope BEFORE `e` is evaluated (the name is in scope in its
      own initialiser; reading it there before it has a value is the unspecified behaviour U2, result
      `.unspec`), then stores the value of `e` in it;
    * a block pushes an empty scope and pops it at its end (also when it is left by `stop`/`volgende`);
    * an identifier means the first match in the innermost scope that has one; assignment updates
      exactly that binding;
    * an identifier with no binding cannot occur at run time if the static check `declared` passed; the
      evaluator answers `.unspec` for it.
  Operators are the shared `binopCore`; the register `last`, the value of blocks in value position and
  the loop's value rules are those of `Spec.evalS / evalBV / evalLoop`; fuel is spent exactly as there.
  Constructs outside the fragment evaluate to `.unspec` and are not `declared`.
-/
import Nlmodel.Spec.Eval
namespace Nl
namespace NameEval

/-- one scope: (name, value), newest first; `none` = declared, its initialiser is still running -/
abbrev Scope := List (Text × Option Spec.SVal)

structure NState where
  /-- innermost scope first -/
  scopes : List Scope := [[]]
  store : Array Spec.SCell := #[]
  /-- the register `last` -/
  last : Spec.SVal := .null
  out : List Text := []
  deriving Inhabited

/-- the name-free part of the state, in the shape the shared value operations (`view`, `box`, `tree`) take -/
def NState.mem (s : NState) : Spec.SState := { store := s.store, last := s.last, out := s.out }

inductive NRes (α : Type) where
  | val (a : α) (st : NState)
  | brk (st : NState)
  | cont (st : NState)
  | err (e : Err) (st : NState)
  | unspec (st : NState)
  | fuel

/-! ### the environment -/

def lookupScope : Scope → Text → Option (Option Spec.SVal)
  | [], _ => none
  | (m, v) :: rest, n => if m = n then some v else lookupScope rest n

/-- first match in the innermost scope that has one -/
def lookup : List Scope → Text → Option (Option Spec.SVal)
  | [], _ => none
  | sc :: scs, n =>
    match lookupScope sc n with
    | some v => some v
    | none => lookup scs n

def updateScope : Scope → Text → Spec.SVal → Option Scope
  | [], _, _ => none
  | (m, w) :: rest, n, v =>
    if m = n then some ((m, some v) :: rest)
    else
      match updateScope rest n v with
      | some rest' => some ((m, w) :: rest')
      | none => none

/-- assignment updates the binding that `lookup` finds -/
def update : List Scope → Text → Spec.SVal → Option (List Scope)
  | [], _, _ => none
  | sc :: scs, n, v =>
    match updateScope sc n v with
    | some sc' => some (sc' :: scs)
    | none =>
      match update scs n v with
      | some scs' => some (sc :: scs')
      | none => none

def NState.push (s : NState) : NState := { s with scopes := [] :: s.scopes }
def NState.pop (s : NState) : NState := { s with scopes := s.scopes.tail }

/-- `stel n`: a new binding in the innermost scope, no value yet -/
def NState.declare (s : NState) (n : Text) : NState :=
  match s.scopes with
  | [] => { s with scopes := [[(n, none)]] }
  | sc :: scs => { s with scopes := ((n, none) :: sc) :: scs }

def NState.assign (s : NState) (n : Text) (v : Spec.SVal) : Option NState :=
  match update s.scopes n v with
  | some scs => some { s with scopes := scs }
  | none => none

/-- leaving a block: whatever the outcome, the block's scope is gone -/
def popRes {α : Type} : NRes α → NRes α
  | .val a st => .val a st.pop
  | .brk st => .brk st.pop
  | .cont st => .cont st.pop
  | .err e st => .err e st.pop
  | .unspec st => .unspec st.pop
  | .fuel => .fuel

/-- the operator table (no scoping content) -/
def binOf : Op → Option BinOp
  | .add => some .add | .sub => some .sub | .mul => some .mul | .div => some .div
  | .mod => some .mod | .gt => some .gt | .gte => some .gte | .lt => some .lt | .lte => some .lte
  | .eq => some .eq | .neq => some .neq | .and => some .and | .or => some .or
  | _ => none

mutual
def evalE : Nat → Expr → NState → NRes Spec.SVal
  | 0, _, _ => .fuel
  | f + 1, e, st =>
    match e with
    | .int v => .val (.int v) st
    | .bool b => .val (.bool b) st
    | .ident n =>
      match lookup st.scopes n with
      | some (some v) => .val v st
      | some none => .unspec st        -- U2: read in its own initialiser
      | none => .unspec st             -- excluded by `declared`
    | .pre .not r =>
      match evalE f r st with
      | .val (.bool b) st1 => .val (.bool (!b)) st1
      | .val _ st1 => .err .type st1
      | o => o
    | .pre .sub r =>
      match evalE f r st with
      | .val (.int i) st1 => if inRange (-i) then .val (.int (-i)) st1 else .err .type st1
      | .val (.float x) st1 => .val (.float (F64.neg x)) st1
      | .val _ st1 => .err .type st1
      | o => o
    | .infix l op r =>
      match binOf op with
      | none => .unspec st
      | some bop =>
        match evalE f l st with
        | .val a st1 =>
          match evalE f r st1 with
          | .val b st2 =>
            match binopCore bop (st2.mem.view a) (st2.mem.view b) with
            | .ok p => .val (st2.mem.box a p).1 { st2 with store := (st2.mem.box a p).2.store }
            | .error e => .err e st2
          | o => o
        | o => o
    | .assign (.ident n) e =>
      match evalE f e st with
      | .val v st1 =>
        match st1.assign n v with
        | some st2 => .val v st2
        | none => .unspec st1          -- excluded by `declared`
      | o => o
    | .ifE c t e =>
      match evalE f c st with
      | .val (.bool true) st1 => popRes (evalBVs f t st1.push)
      | .val (.bool false) st1 =>
        match e with
        | .none => .val .null st1
        | .some b => popRes (evalBVs f b st1.push)
      | .val _ st1 => .err .type st1
      | o => o
    | .whileE c b => evalLoop f c b .null st
    | _ => .unspec st                  -- outside the fragment

/-- `zolang`, as `Spec.evalLoop`; the body is a block: its scope is pushed and popped every iteration -/
def evalLoop : Nat → Expr → Block → Spec.SVal → NState → NRes Spec.SVal
  | 0, _, _, _, _ => .fuel
  | f + 1, c, b, acc, st =>
    match evalE f c st with
    | .val (.bool false) st1 => .val acc st1
    | .val (.bool true) st1 =>
      match popRes (evalBVs f b ({ st1 with last := acc } : NState).push) with
      | .val v st2 => evalLoop f c b v st2
      | .brk st2 => .val .null st2
      | .cont st2 => evalLoop f c b .null st2
      | o => o
    | .val _ st1 => .err .type st1
    | .brk st1 => .val .null st1
    | .cont st1 => evalLoop f c b .null st1
    | o => o

def evalS : Nat → Stmt → NState → NRes Unit
  | 0, _, _ => .fuel
  | f + 1, s, st =>
    match s with
    | .expr e =>
      match evalE f e st with
      | .val v st1 => .val () { st1 with last := v }
      | .brk s => .brk s | .cont s => .cont s
      | .err e s => .err e s | .unspec s => .unspec s | .fuel => .fuel
    | .letS n e =>
      match evalE f e (st.declare n) with
      | .val v st1 =>
        match st1.assign n v with
        | some st2 => .val () st2
        | none => .unspec st1          -- impossible: `n` was just declared
      | .brk s => .brk s | .cont s => .cont s
      | .err e s => .err e s | .unspec s => .unspec s | .fuel => .fuel
    | .block b => popRes (evalSs f b st.push)
    | .brk => .brk st
    | .cont => .cont st
    | .ret _ => .unspec st             -- outside the fragment

/-- statements in sequence in the current scope (statement position) -/
def evalSs : Nat → Block → NState → NRes Unit
  | 0, _, _ => .fuel
  | f + 1, b, st =>
    match b with
    | .nil => .val () st
    | .cons s rest =>
      match evalS f s st with
      | .val () st1 => evalSs f rest st1
      | o => o

/-- statements in sequence in the current scope, in value position (as `Spec.evalBV`) -/
def evalBVs : Nat → Block → NState → NRes Spec.SVal
  | 0, _, _ => .fuel
  | f + 1, b, st =>
    match b with
    | .nil => .val .null st
    | .cons (.expr e) .nil => evalE f e st
    | .cons (.block (.cons s b')) .nil => popRes (evalBVs f (.cons s b') st.push)
    | .cons s .nil =>
      match evalS f s st with
      | .val () st1 => .val .null st1
      | .brk s => .brk s | .cont s => .cont s
      | .err e s => .err e s | .unspec s => .unspec s | .fuel => .fuel
    | .cons s rest =>
      match evalS f s st with
      | .val () st1 => evalBVs f rest st1
      | .brk s => .brk s | .cont s => .cont s
      | .err e s => .err e s | .unspec s => .unspec s | .fuel => .fuel
end

/-- a whole program: the top level is one scope -/
def evalProgram (fuel : Nat) (p : Block) : Spec.Outcome :=
  match evalSs fuel p {} with
  | .val () st => .value (st.mem.tree treeDepth [] st.last) st.out
  | .err e st => .error e st.out
  | .unspec _ => .unspec
  | .fuel => .fuel
  | .brk _ | .cont _ => .unspec

/-! ### the static rule: every identifier occurrence has an enclosing declaration visible at that point -/

def visible (sc : List (List Text)) (n : Text) : Bool := sc.any (fun s => s.contains n)

def addName (sc : List (List Text)) (n : Text) : List (List Text) :=
  match sc with
  | [] => [[n]]
  | s :: ss => (n :: s) :: ss

/-- the scopes after a statement: only `stel` adds a name -/
def scopeAfter (sc : List (List Text)) : Stmt → List (List Text)
  | .letS n _ => addName sc n
  | _ => sc

mutual
def declE (sc : List (List Text)) : Expr → Bool
  | .int _ => true
  | .bool _ => true
  | .ident n => visible sc n
  | .pre _ r => declE sc r
  | .infix l _ r => declE sc l && declE sc r
  | .assign (.ident n) e => visible sc n && declE sc e
  | .ifE c t e => declE sc c && declSs ([] :: sc) t && declO sc e
  | .whileE c b => declE sc c && declSs ([] :: sc) b
  | _ => false                         -- outside the fragment
def declO (sc : List (List Text)) : OptBlock → Bool
  | .none => true
  | .some b => declSs ([] :: sc) b
def declS (sc : List (List Text)) : Stmt → Bool
  | .expr e => declE sc e
  | .letS n e => declE (addName sc n) e
  | .block b => declSs ([] :: sc) b
  | .brk => true
  | .cont => true
  | .ret _ => false                    -- outside the fragment
/-- statements in sequence in the current scope -/
def declSs (sc : List (List Text)) : Block → Bool
  | .nil => true
  | .cons s b => declS sc s && declSs (scopeAfter sc s) b
end

/-- `declared sc p`: in the program text `p`, read in the scopes `sc`, every use of a name is in the
    scope of a declaration of that name -/
def declared (sc : List (List Text)) (p : Block) : Bool := declSs sc p

end NameEval
end Nl
