/- Helper lemmas about the tokenizer model (used by Proofs/C05 and Proofs/C08). -/
import Nlmodel.Model.Parser
namespace Nl

theorem scanNum_len (cs : Text) (d : Bool) (a rest : Text) (d' : Bool)
    (h : scanNum cs d = (a, rest, d')) : rest.length ≤ cs.length := by
  induction cs generalizing d a rest d' with
  | nil => simp [scanNum] at h; obtain ⟨_, h2, _⟩ := h; subst h2; simp
  | cons c r ih =>
    simp only [scanNum] at h
    split at h
    · rcases hx : scanNum r d with ⟨a1, r1, d1⟩
      rw [hx] at h
      simp only [Prod.mk.injEq] at h
      obtain ⟨_, h2, _⟩ := h
      subst h2
      have := ih d a1 r1 d1 hx
      simp only [List.length_cons]; omega
    · split at h
      · rcases hx : scanNum r true with ⟨a1, r1, d1⟩
        rw [hx] at h
        simp only [Prod.mk.injEq] at h
        obtain ⟨_, h2, _⟩ := h
        subst h2
        have := ih true a1 r1 d1 hx
        simp only [List.length_cons]; omega
      · simp only [Prod.mk.injEq] at h
        obtain ⟨_, h2, _⟩ := h
        subst h2; simp

theorem scanStr_len (cs : Text) (e : Bool) (a rest : Text)
    (h : scanStr cs e = (a, rest)) : rest.length ≤ cs.length := by
  induction cs generalizing e a rest with
  | nil => simp [scanStr] at h; obtain ⟨_, h2⟩ := h; subst h2; simp
  | cons c r ih =>
    simp only [scanStr] at h
    split at h
    · rcases hx : scanStr r (!e && decide (c = '\\')) with ⟨a1, r1⟩
      rw [hx] at h
      simp only [Prod.mk.injEq] at h
      obtain ⟨_, h2⟩ := h
      subst h2
      have := ih _ a1 r1 hx
      simp only [List.length_cons]; omega
    · simp only [Prod.mk.injEq] at h
      obtain ⟨_, h2⟩ := h
      subst h2; simp

theorem skipLine_len (cs : Text) : (skipLine cs).length ≤ cs.length := by
  induction cs with
  | nil => simp [skipLine]
  | cons c r ih =>
    simp only [skipLine]
    split
    · simp only [List.length_cons]; omega
    · simp

/-- every token consumes at least one character -/
theorem nextToken_progress (cc : CharClass) (f : Nat) (cs : Text) (t : Token) (rest : Text)
    (h : nextToken cc f cs = some (t, rest)) : rest.length < cs.length := by
  induction f generalizing cs with
  | zero => simp [nextToken] at h
  | succ f ih =>
    cases cs with
    | nil => simp [nextToken] at h
    | cons c r =>
      rw [nextToken] at h
      split at h
      · simp only [Option.some.injEq, Prod.mk.injEq] at h
        obtain ⟨_, h2⟩ := h; subst h2
        have := (List.dropWhile_sublist (l := r) (identCont cc)).length_le
        simp only [List.length_cons]; omega
      · split at h
        · rcases hx : scanNum r false with ⟨a1, r1, d1⟩
          rw [hx] at h
          simp only [Option.some.injEq, Prod.mk.injEq] at h
          obtain ⟨_, h2⟩ := h; subst h2
          have := scanNum_len r false a1 r1 d1 hx
          simp only [List.length_cons]; omega
        · split at h
          · rcases hx : scanStr r false with ⟨a1, r1⟩
            rw [hx] at h
            have hl := scanStr_len r false a1 r1 hx
            cases r1 with
            | nil => simp only [Option.some.injEq, Prod.mk.injEq] at h; obtain ⟨_, h2⟩ := h; subst h2; simp
            | cons q r2 =>
              simp only [Option.some.injEq, Prod.mk.injEq] at h
              obtain ⟨_, h2⟩ := h; subst h2
              simp only [List.length_cons] at hl ⊢; omega
          · split at h
            · have := ih r h; simp only [List.length_cons]; omega
            · split at h
              · have := ih (skipLine r) h
                have := skipLine_len r
                simp only [List.length_cons]; omega
              · rcases hx : punct c r.head? with ⟨t1, two⟩
                rw [hx] at h
                simp only [Option.some.injEq, Prod.mk.injEq] at h
                obtain ⟨_, h2⟩ := h; subst h2
                split
                · simp only [List.length_tail, List.length_cons]; omega
                · simp

/-- beyond `length + 1` the fuel of `nextToken` is irrelevant -/
theorem nextToken_fuel (cc : CharClass) (f g : Nat) (cs : Text) (hf : cs.length < f) (hg : cs.length < g) :
    nextToken cc f cs = nextToken cc g cs := by
  induction f generalizing cs g with
  | zero => omega
  | succ f ih =>
    cases g with
    | zero => omega
    | succ g =>
      cases cs with
      | nil => simp [nextToken]
      | cons c r =>
        simp only [List.length_cons] at hf hg
        rw [nextToken, nextToken]
        split
        · rfl
        · split
          · rfl
          · split
            · rfl
            · split
              · exact ih g r (by omega) (by omega)
              · split
                · have := skipLine_len r
                  exact ih g (skipLine r) (by omega) (by omega)
                · rfl

theorem lexF_fuel (cc : CharClass) (n m : Nat) (cs : Text) (hn : cs.length < n) (hm : cs.length < m) :
    lexF cc n cs = lexF cc m cs := by
  induction n generalizing cs m with
  | zero => omega
  | succ n ih =>
    cases m with
    | zero => omega
    | succ m =>
      simp only [lexF]
      rw [nextToken_fuel cc (n + 1) (m + 1) cs hn hm]
      cases h : nextToken cc (m + 1) cs with
      | none => rfl
      | some p =>
        obtain ⟨t, rest⟩ := p
        have := nextToken_progress cc _ cs t rest h
        simp only
        rw [ih m rest (by omega) (by omega)]

end Nl
