/- Stage 8: blocks in value position (the names the last expression declares are forgotten: the block closes) -/
import Nlmodel.Proofs.Lemmas.Sim8Stmt
namespace Nl
namespace Sim8
open Spec Sim Sim6 Sim7
open SimH (AMap isStrCell isArrCell Grow PoolH MemOK sameKind LitF)
open SimF (FT FnInfo FTInj paramScope paramScopeFrom bigScope)

section
variable {W : World}

theorem pbv8_novalue (f : Nat) (ih : PAll8 W f) {Δ : Gam} {nl : Nat} {fn : Bool} {Γ Γx Λ Γ1 Λ1 : Gam} {ab : Bool} (s : RStmt) (hs : Z8S Δ nl fn Γ Λ ab s Γ1 Λ1)
    {c : Cfg} {lp : LoopCtx} {cs : List Const} {below : Array Value} {fr : List Frame}
    (hsc : Sc7 W Δ fn Γ Γx Λ) (hinv : Inv6 W (bigScope fn Γ Γx) Λ nl c) (hwt : TI.WT (c.vm W below fr))
    (heval : evalBV (f + 1) (.cons s .nil) c.st = Sim.liftU (evalS f s c.st) (fun st1 => .val .null st1))
    (hasv : ∀ is, asValue (.cons s .nil) is = is ++ [.null])
    (hsz : sizeBV (.cons s .nil) = sizeS s + 1)
    (hcode : CodeAt W.C c.ip (asValue (.cons s .nil) (emitB (.cons s .nil) c.ip lp cs).1))
    (hext : Ext (emitB (.cons s .nil) c.ip lp cs).2 W.CS) (hft : FtB W.ft Δ (.cons s .nil) c.ip lp cs) :
    GoalV6 W (bigScope fn Γ Γx) Λ nl below fr fn ab lp c (c.ip + sizeBV (.cons s .nil)) c.ops (evalBV (f + 1) (.cons s .nil) c.st) := by
  rw [hasv] at hcode
  simp only [emitB, List.append_nil] at hcode hext
  obtain ⟨hc1, hc2⟩ := hcode.append
  rw [emitS_size] at hc2
  have h := ih.s nl fn Γ Γx Λ ab s Γ1 Λ1 hs c lp cs below fr hsc hinv hwt hc1 hext hft.single
  obtain ⟨_, ⟨d, hd⟩, ⟨e, he⟩⟩ := sc7_stepS hsc hs
  rw [heval, hsz, ← Nat.add_assoc, liftU_bindR]
  exact goalU_then_null6 d e hd he h hc2

theorem pbv8_succ (hW : WOK8 W) (f : Nat) (ih : PAll8 W f) : PBV8 W (f + 1) := by
  intro Δ nl fn Γ Γx Λ ab b Γ2 Λ2 hx c lp cs below fr hsc hinv hwt hcode hext hft
  cases hx with
  | nil _ _ _ =>
    simp only [asValue] at hcode
    simp only [evalBV]
    exact goalV_push hinv (v := .null) (mv := .null) trivial (step6_null hcode)
  | cons _ _ _ Γ1 Λ1 _ _ s rest hs hrest =>
    cases rest with
    | nil =>
      cases hrest
      cases hs with
      | expr _ _ _ e _ _ he =>
        have hcode' : CodeAt W.C c.ip (emitE e c.ip lp cs).1 := by
          simpa [asValue, RBlock.tailKind, emitB, emitS] using hcode
        have hext' : Ext (emitE e c.ip lp cs).2 W.CS := by simpa [emitB, emitS] using hext
        have h := GoalV8.close_ext hsc (z8e_ext e he) (ih.e nl fn Γ Γx Λ ab e _ _ he c lp cs below fr hsc hinv hwt hcode' hext' hft.single.expr)
        have hsz : sizeBV (.cons (.expr e) .nil) = sizeE e := by
          simp [sizeBV, valSize, RBlock.tailKind, sizeB, sizeS]
        rw [hsz]
        simp only [evalBV]
        exact h
      | block _ _ _ b' Γ3 Λ3 hb' =>
        cases b' with
        | nil =>
          exact pbv8_novalue f ih _ (.block _ _ _ _ _ _ hb') hsc hinv hwt (by simp only [evalBV]; exact liftU_eq _ _)
            (by intro c; simp [asValue, RBlock.tailKind]) (by simp [sizeBV, valSize, RBlock.tailKind, sizeB])
            hcode hext hft
        | cons s' b'' =>
          have hcode' : CodeAt W.C c.ip (asValue (.cons s' b'') (emitB (.cons s' b'') c.ip lp cs).1) := by
            have : (emitB (.cons (.block (.cons s' b'')) .nil) c.ip lp cs).1 = (emitB (.cons s' b'') c.ip lp cs).1 := by
              simp [emitB, emitS]
            rw [this] at hcode
            simpa [asValue, RBlock.tailKind] using hcode
          have hext' : Ext (emitB (.cons s' b'') c.ip lp cs).2 W.CS := by
            have : (emitB (.cons (.block (.cons s' b'')) .nil) c.ip lp cs).2 = (emitB (.cons s' b'') c.ip lp cs).2 := by
              simp [emitB, emitS]
            rw [this] at hext; exact hext
          have h := ih.bv nl fn Γ Γx Λ ab _ Γ3 Λ3 hb' c lp cs below fr hsc hinv hwt hcode' hext' hft.single.block
          have hsz : sizeBV (.cons (.block (.cons s' b'')) .nil) = sizeBV (.cons s' b'') := by
            simp [sizeBV, valSize, RBlock.tailKind, sizeB, sizeS]
          rw [hsz]
          simp only [evalBV]
          exact h
      | letG _ _ _ bb k e _ _ hfn hf he =>
        exact pbv8_novalue f ih _ (.letG _ _ _ bb k e _ _ hfn hf he) hsc hinv hwt (by simp only [evalBV]; exact liftU_eq _ _)
          (by intro c; simp [asValue, RBlock.tailKind]) (by simp [sizeBV, valSize, RBlock.tailKind, sizeB])
          hcode hext hft
      | letL _ _ _ bb k e _ _ hfn hf hk he =>
        exact pbv8_novalue f ih _ (.letL _ _ _ bb k e _ _ hfn hf hk he) hsc hinv hwt (by simp only [evalBV]; exact liftU_eq _ _)
          (by intro c; simp [asValue, RBlock.tailKind]) (by simp [sizeBV, valSize, RBlock.tailKind, sizeB])
          hcode hext hft
      | brk _ _ =>
        exact pbv8_novalue f ih _ (.brk _ _) hsc hinv hwt (by simp only [evalBV]; exact liftU_eq _ _)
          (by intro c; simp [asValue, RBlock.tailKind]) (by simp [sizeBV, valSize, RBlock.tailKind, sizeB])
          hcode hext hft
      | cont _ _ =>
        exact pbv8_novalue f ih _ (.cont _ _) hsc hinv hwt (by simp only [evalBV]; exact liftU_eq _ _)
          (by intro c; simp [asValue, RBlock.tailKind]) (by simp [sizeBV, valSize, RBlock.tailKind, sizeB])
          hcode hext hft
      | ret _ _ _ e _ _ hfn he =>
        exact pbv8_novalue f ih _ (.ret _ _ _ e _ _ hfn he) hsc hinv hwt (by simp only [evalBV]; exact liftU_eq _ _)
          (by intro c; simp [asValue, RBlock.tailKind]) (by simp [sizeBV, valSize, RBlock.tailKind, sizeB])
          hcode hext hft
    | cons s2 rest2 =>
      have e1 : (emitB (.cons s (.cons s2 rest2)) c.ip lp cs).1 =
          (emitS s c.ip lp cs).1 ++ (emitB (.cons s2 rest2) (c.ip + sizeS s) lp (emitS s c.ip lp cs).2).1 := by rw [emitB]
      have e2 : (emitB (.cons s (.cons s2 rest2)) c.ip lp cs).2 =
          (emitB (.cons s2 rest2) (c.ip + sizeS s) lp (emitS s c.ip lp cs).2).2 := by rw [emitB]
      have hcode' := hcode
      rw [e1, asValue_seq] at hcode'
      rw [e2] at hext
      obtain ⟨hc1, hc2⟩ := hcode'.append
      rw [emitS_size] at hc2
      have hext1 : Ext (emitS s c.ip lp cs).2 W.CS := (emitB_ext _ _ _ _).trans hext
      have h1 := ih.s nl fn Γ Γx Λ ab s Γ1 Λ1 hs c lp cs below fr hsc hinv hwt hc1 hext1 hft.cons.1
      obtain ⟨hsc1, ⟨d, hd⟩, ⟨e, he⟩⟩ := sc7_stepS hsc hs
      have heval : evalBV (f + 1) (.cons s (.cons s2 rest2)) c.st = Sim.liftU (evalS f s c.st) (fun st1 => evalBV f (.cons s2 rest2) st1) := by
        cases s <;> (simp only [evalBV]; exact liftU_eq _ _)
      rw [heval, sizeBV_seq, liftU_bindR]
      refine GoalG.bind h1 (.inr ⟨rfl, rfl⟩) ?_
      rintro u st1 - ⟨μ1, m1, locs1, g1, l1, out1, n, hn, hinv1, hk1⟩
      have hwt1 := wt_execN n _ _ hwt hn
      have h2 := ih.bv nl fn Γ1 Γx Λ1 ab (.cons s2 rest2) Γ2 Λ2 hrest ⟨μ1, st1, c.ip + sizeS s, locs1, c.ops, g1, l1, m1, out1⟩ lp _ below fr
        hsc1 hinv1 hwt1 hc2 hext hft.cons.2
      rw [hd, he] at h2
      rw [← Nat.add_assoc]
      exact GoalV6.prefix (c1 := ⟨μ1, st1, c.ip + sizeS s, locs1, c.ops, g1, l1, m1, out1⟩) n hn hk1 (h2.weaken d e)

end
end Sim8
end Nl
