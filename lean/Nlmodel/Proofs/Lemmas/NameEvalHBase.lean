/- NameEvalH (names, scope stack, heap values) vs Spec.eval on the resolver's output, stage-5 function-free fragment (C09):
   the shared heap operations run on the name-free part of a related state give related states. -/
import Nlmodel.Spec.NameEvalH
import Nlmodel.Proofs.Lemmas.NameEvalSim
import Nlmodel.Proofs.Lemmas.ResolveHeap
namespace Nl
namespace NameEvalH
open Sim Spec SimH
open NameEval (NState NRes Rel RelG At In bids findBid postS)

/-- the two results of one heap operation, run on the name-free part of `ρ` and on `σ`: same value and related states, or
    the same error -/
def OpRel (ρ : NState) (scs : List (List (Text × Nat))) :
    Except Err (SVal × SState) → Except Err (SVal × SState) → Prop
  | .ok (r, m), .ok (r', σ') => r = r' ∧ Rel (setMem ρ m) scs σ'
  | .error e, .error e' => e = e'
  | _, _ => False

/-- the definitional evaluator's way of finishing a heap operation -/
def heapResS (σ : SState) : Except Err (SVal × SState) → Res SVal
  | .ok (r, σ') => .val r σ'
  | .error e => .err e σ

theorem heapRes_rel {ρ : NState} {scs} {σ : SState} {x y : Except Err (SVal × SState)} (h : OpRel ρ scs x y) (ho : ρ.out = σ.out) :
    RelG (At scs) (At scs) (heapRes ρ x) (heapResS σ y) := by
  cases x with
  | error e =>
    cases y with
    | error e' => simp only [OpRel] at h; subst h; exact .err _ _ _ ho
    | ok q => simp [OpRel] at h
  | ok p =>
    obtain ⟨r, m⟩ := p
    cases y with
    | error e' => simp [OpRel] at h
    | ok q =>
      obtain ⟨r', σ'⟩ := q
      simp only [OpRel] at h
      obtain ⟨h1, h2⟩ := h
      subst h1
      exact .val _ _ _ h2

/-- a state change of `σ` that only touches the store and the output, mirrored on `ρ` -/
theorem rel_step {ρ : NState} {scs} {σ : SState} (h : Rel ρ scs σ) (m σ' : SState)
    (hs : m.store = σ'.store) (ho : m.out = σ'.out) (hg : σ'.genv = σ.genv) (hl : σ'.last = σ.last) :
    Rel (setMem ρ m) scs σ' :=
  ⟨by rw [hg]; exact h.env, hs, by rw [hl]; exact h.last, ho⟩

theorem strAt_mem {ρ : NState} {σ : SState} (h : ρ.store = σ.store) (a : Nat) : ρ.mem.strAt a = σ.strAt a := by
  simp [SState.strAt, NState.mem, h]

theorem arrAt_mem {ρ : NState} {σ : SState} (h : ρ.store = σ.store) (a : Nat) : ρ.mem.arrAt a = σ.arrAt a := by
  simp [SState.arrAt, NState.mem, h]

theorem alloc_rel {ρ : NState} {scs} {σ : SState} (h : Rel ρ scs σ) (c : SCell) :
    (ρ.mem.alloc c).2 = (σ.alloc c).2 ∧ Rel (setMem ρ (ρ.mem.alloc c).1) scs (σ.alloc c).1 := by
  refine ⟨by simp [SState.alloc, NState.mem, h.store], rel_step h _ _ ?_ ?_ rfl rfl⟩
  · simp [SState.alloc, NState.mem, h.store]
  · simp [SState.alloc, NState.mem, h.out]

theorem box_rel {ρ : NState} {scs} {σ : SState} (h : Rel ρ scs σ) (a : SVal) (p : PRes) :
    OpRel ρ scs (.ok (ρ.mem.box a p)) (.ok (σ.box a p)) := by
  obtain ⟨h1, h2, h3, h4, h5⟩ := NameEval.box_mem h.store a p
  refine ⟨h1, rel_step h _ _ h2 ?_ h3 h4⟩
  cases p <;> simp [SState.alloc, NState.mem, h.out]

theorem binop_rel {ρ : NState} {scs} {σ : SState} (h : Rel ρ scs σ) (bop : BinOp) (a b : SVal) :
    OpRel ρ scs (binop bop a b ρ.mem) (binop bop a b σ) := by
  simp only [binop, NameEval.view_mem h.store]
  cases binopCore bop (σ.view a) (σ.view b) with
  | error e => rfl
  | ok p => exact box_rel h a p

theorem indexGet_rel {ρ : NState} {scs} {σ : SState} (h : Rel ρ scs σ) (a b : SVal) :
    OpRel ρ scs (sIndexGet a b ρ.mem) (sIndexGet a b σ) := by
  cases b with
  | int k =>
    cases a with
    | arr x =>
      simp only [sIndexGet, arrAt_mem h.store]
      cases normIndex (σ.arrAt x).length k with
      | none => rfl
      | some j => exact ⟨rfl, rel_step h _ _ h.store h.out rfl rfl⟩
    | str x =>
      simp only [sIndexGet, strAt_mem h.store]
      cases normIndex (σ.strAt x).length k with
      | none => rfl
      | some j =>
        obtain ⟨h1, h2⟩ := alloc_rel h (.str [(σ.strAt x).getD j ' '])
        exact ⟨by simpa using h1, h2⟩
    | _ => rfl
  | _ => rfl

theorem indexSet_rel {ρ : NState} {scs} {σ : SState} (h : Rel ρ scs σ) (a b c : SVal) :
    OpRel ρ scs (sIndexSet a b c ρ.mem) (sIndexSet a b c σ) := by
  cases b with
  | int k =>
    cases a with
    | arr x =>
      simp only [sIndexSet, arrAt_mem h.store]
      cases normIndex (σ.arrAt x).length k with
      | none => rfl
      | some j =>
        refine ⟨rfl, rel_step h _ _ ?_ h.out rfl rfl⟩
        simp [NState.mem, h.store]
    | str x =>
      simp only [sIndexSet, strAt_mem h.store]
      cases normIndex (σ.strAt x).length k with
      | none => rfl
      | some j =>
        cases c with
        | str y =>
          refine ⟨rfl, rel_step h _ _ ?_ h.out rfl rfl⟩
          simp [NState.mem, h.store]
        | _ => rfl
    | _ => rfl
  | _ => rfl

theorem callBuiltin_rel {ρ : NState} {scs} {σ : SState} (h : Rel ρ scs σ) (b : Builtin) (xs : List SVal) :
    OpRel ρ scs (callBuiltin b xs ρ.mem) (callBuiltin b xs σ) := by
  have hun : ∀ b' : Builtin, OpRel ρ scs
      (match xs with
        | [x] => (match builtinCore b' (ρ.mem.view x) with
          | .ok p => .ok (ρ.mem.box x p)
          | .error e => .error e)
        | _ => .error .argument)
      (match xs with
        | [x] => (match builtinCore b' (σ.view x) with
          | .ok p => .ok (σ.box x p)
          | .error e => .error e)
        | _ => .error .argument) := by
    intro b'
    match xs with
    | [] => rfl
    | [x] =>
      simp only [NameEval.view_mem h.store]
      cases builtinCore b' (σ.view x) with
      | error e => rfl
      | ok p => exact box_rel h x p
    | _ :: _ :: _ => rfl
  cases b with
  | print =>
    simp only [callBuiltin]
    refine ⟨rfl, rel_step h _ _ h.store ?_ rfl rfl⟩
    have ht : xs.map (ρ.mem.tree treeDepth []) = xs.map (σ.tree treeDepth []) :=
      List.map_congr_left fun x _ => NameEval.tree_mem h.store _ _ x
    simp only [ht]
    simp [NState.mem, h.out]
  | type => exact hun .type
  | bool => exact hun .bool
  | float => exact hun .float
  | int => exact hun .int
  | string => exact hun .string
  | length => exact hun .length

/-- the definitional evaluator's text for a builtin call is `callBuiltin` -/
theorem spec_callBuiltin (b : Builtin) (xs : List SVal) (σ : SState) :
    (match b with
      | .print => Res.val SVal.null { σ with out := σ.out ++ [printLine (xs.map (σ.tree treeDepth []))] }
      | _ =>
        match xs with
        | [x] =>
          match builtinCore b (σ.view x) with
          | .ok p => let (v, st2) := σ.box x p; Res.val v st2
          | .error e => .err e σ
        | _ => .err .argument σ) = heapResS σ (callBuiltin b xs σ) := by
  have hun : ∀ b' : Builtin,
      (match xs with
        | [x] =>
          match builtinCore b' (σ.view x) with
          | .ok p => let (v, st2) := σ.box x p; Res.val v st2
          | .error e => .err e σ
        | _ => .err .argument σ) =
      heapResS σ (match xs with
        | [x] => (match builtinCore b' (σ.view x) with
          | .ok p => .ok (σ.box x p)
          | .error e => .error e)
        | _ => .error .argument) := by
    intro b'
    match xs with
    | [] => rfl
    | [x] =>
      simp only
      cases builtinCore b' (σ.view x) with
      | error e => rfl
      | ok p => rfl
    | _ :: _ :: _ => rfl
  cases b with
  | print => rfl
  | type => exact hun .type
  | bool => exact hun .bool
  | float => exact hun .float
  | int => exact hun .int
  | string => exact hun .string
  | length => exact hun .length

theorem spec_binop (bop : BinOp) (a b : SVal) (σ : SState) :
    (match binopCore bop (σ.view a) (σ.view b) with
      | .ok p => let (v, st3) := σ.box a p; Res.val v st3
      | .error e => .err e σ) = heapResS σ (binop bop a b σ) := by
  simp only [binop]
  cases binopCore bop (σ.view a) (σ.view b) with
  | error e => rfl
  | ok p => rfl

theorem spec_indexGet (a b : SVal) (σ : SState) :
    (match sIndexGet a b σ with
      | .ok (r, st3) => Res.val r st3
      | .error e => .err e σ) = heapResS σ (sIndexGet a b σ) := by
  cases sIndexGet a b σ with
  | error e => rfl
  | ok p => rfl

theorem spec_indexSet (a b c : SVal) (σ : SState) :
    (match sIndexSet a b c σ with
      | .ok (r, st4) => Res.val r st4
      | .error e => .err e σ) = heapResS σ (sIndexSet a b c σ) := by
  cases sIndexSet a b c σ with
  | error e => rfl
  | ok p => rfl

end NameEvalH
end Nl
