/- Stage 4: `Call`, `Return`, `ReturnValue` on frames (C12). -/
import Nlmodel.Proofs.Lemmas.SimFnCtl
namespace Nl
namespace SimF
open Spec Sim

section callret
variable {C : Code} {s0 : VM} {i : Nat} {below locs ops g : Array Value} {l : Value} {fr : List Frame} {rest : List Instr}

theorem call_stack (below locs ops : Array Value) (ms : List Value) (n : Nat) :
    (below ++ locs ++ (ops ++ ms.toArray)) ++ Array.replicate n Value.null =
      (below ++ locs ++ ops) ++ (ms.toArray ++ Array.replicate n Value.null) ++ #[] := by
  apply Array.ext'; simp

theorem step_call_raw {argc fip nlc : Nat} {ms : List Value} (h : CodeAt C i (.call argc :: rest)) (hlen : ms.length = argc) :
    (argc > nlc → ∃ s2, step C (mkS s0 i below locs ((ops ++ ms.toArray).push (.fn fip nlc)) g l fr) = .error .argument s2) ∧
    (argc ≤ nlc → (∃ s2, step C (mkS s0 i below locs ((ops ++ ms.toArray).push (.fn fip nlc)) g l fr) = .error .index s2) ∨
      step C (mkS s0 i below locs ((ops ++ ms.toArray).push (.fn fip nlc)) g l fr) =
        .next (mkS s0 fip (below ++ locs ++ ops) (ms.toArray ++ Array.replicate (nlc - argc) .null) #[] g l
          ({ ip := i + 2, bp := below.size } :: fr))) := by
  rw [step_exec h]
  constructor
  · intro hgt
    exact ⟨_, by simp only [exec, mkS_stack, pop_frame, hgt, ↓reduceIte]; rfl⟩
  · intro hle
    have hng : ¬ argc > nlc := by omega
    have hsz : ¬ (below ++ locs ++ (ops ++ ms.toArray)).size < argc := by simp; omega
    simp only [exec, mkS_stack, pop_frame, hng, ↓reduceIte, mkS_frames]
    split
    · exact .inl ⟨_, rfl⟩
    · right
      simp only [mkS_bp, Instr.size]
      simp only [mkS, call_stack]
      congr 2
      simp [← hlen]; omega

/-- `Call argc` with the callee on top of the arguments: wrong number of arguments, the stack/frame limit
    (`AtLimit`), or the callee's activation -/
theorem step_call {argc fip nlc : Nat} {ms : List Value} (h : CodeAt C i (.call argc :: rest)) (hlen : ms.length = argc) :
    (argc > nlc → ∃ s2, step C (mkS s0 i below locs ((ops ++ ms.toArray).push (.fn fip nlc)) g l fr) = .error .argument s2) ∧
    (argc ≤ nlc → AtLimit C (mkS s0 i below locs ((ops ++ ms.toArray).push (.fn fip nlc)) g l fr) ∨
      step C (mkS s0 i below locs ((ops ++ ms.toArray).push (.fn fip nlc)) g l fr) =
        .next (mkS s0 fip (below ++ locs ++ ops) (ms.toArray ++ Array.replicate (nlc - argc) .null) #[] g l
          ({ ip := i + 2, bp := below.size } :: fr))) := by
  obtain ⟨h1, h2⟩ := step_call_raw (s0 := s0) (below := below) (locs := locs) (ops := ops) (g := g) (l := l) (fr := fr)
    (fip := fip) (nlc := nlc) (ms := ms) h hlen
  refine ⟨h1, fun hle => ?_⟩
  rcases h2 hle with ⟨s2, hs2⟩ | hn
  · exact .inl (AtLimit.of_call_error (by rw [mkS_ip]; exact h.head) (by rw [mkS_stack]; exact pop_frame _ _ _ _) hle hs2)
  · exact .inr hn

theorem step_retv {v : Value} {fr0 : Frame} (hmem : s0.mem.managed = []) (h : CodeAt C i (.retv :: rest)) :
    step C (mkS s0 i below locs (ops.push v) g l (fr0 :: fr)) =
      .next { s0 with ip := fr0.ip, stack := below.push v, globals := g, last := l, frames := fr, depth := fr.length, bp := fr0.bp } := by
  rw [step_exec h]
  have hsz : ¬ (below ++ locs ++ ops).size < below.size := by simp
  simp only [exec, mkS_stack, pop_frame, doReturn, mkS_frames, mkS_bp, hsz, ↓reduceIte, mkS_mem, hmem, List.isEmpty_nil]
  rw [Array.append_assoc, frame_truncate]
  rfl

theorem step_ret {fr0 : Frame} (hmem : s0.mem.managed = []) (h : CodeAt C i (.ret :: rest)) :
    step C (mkS s0 i below locs ops g l (fr0 :: fr)) =
      .next { s0 with ip := fr0.ip, stack := below.push .null, globals := g, last := l, frames := fr, depth := fr.length, bp := fr0.bp } := by
  rw [step_exec h]
  have hsz : ¬ (below ++ locs ++ ops).size < below.size := by simp
  simp only [exec, mkS_stack, doReturn, mkS_frames, mkS_bp, hsz, ↓reduceIte, mkS_mem, hmem, List.isEmpty_nil]
  rw [Array.append_assoc, frame_truncate]
  rfl

end callret
end SimF
end Nl
