/- Stage 8: top-level sequences.  A named literal in an expression of a top-level statement (outside any block) declares a
   PERSISTENT global: the persistent scope after the statement is the scope after its expression.  The literals of a
   top-level statement are checked against the persistent scope of that statement (`TopS`, third index): the scope
   before it, plus the name a top-level `stel` declares, plus — for `stel a = functie f(..) {..}` and `functie f(..) {..}`
   as a statement — the function's own name (recursion). -/
import Nlmodel.Proofs.Lemmas.Sim8Top
namespace Nl
namespace Sim8
open Spec Sim Sim6 Sim7
open SimH (AMap isStrCell isArrCell Grow PoolH MemOK sameKind LitF LitPool addConst_litpool)
open SimF (FT FnInfo FTInj paramScope bigScope selfTail func_layout lookupD)

/-- one top-level statement: `TopS Γ s Δs Γ1` — `Γ` the persistent scope before, `Δs` the persistent scope its literals are
    checked against, `Γ1` the persistent scope after -/
inductive TopS : Gam → RStmt → Gam → Gam → Prop where
  /-- an expression statement: named literals in it (outside blocks) declare persistent globals -/
  | exprS (Γ Γ1 Λ1 : Gam) (e : RExpr) : Z8E Γ 0 false Γ [] false e Γ1 Λ1 → TopS Γ (.expr e) Γ Γ1
  /-- a block: its globals are not persistent -/
  | blockS (Γ : Gam) (b : RBlock) (Γ1 Λ1 : Gam) : Z8B Γ 0 false Γ [] false b Γ1 Λ1 → TopS Γ (.block b) Γ Γ
  /-- `stel x = e`: `x` is persistent and visible in `e` and in the literals of `e` -/
  | letS (Γ Γ1 Λ1 : Gam) (b k : Nat) (e : RExpr) : (∀ p ∈ Γ, p.1 ≠ b ∧ p.2 ≠ k) →
      Z8E ((b, k) :: Γ) 0 false ((b, k) :: Γ) [] false e Γ1 Λ1 → TopS Γ (.letS ⟨b, .global k⟩ e) ((b, k) :: Γ) Γ1
  /-- `functie f(ps) { body }` as a statement: `f` is persistent and visible in its own body -/
  | fdef (Γ : Gam) (fid b k : Nat) (ps : List Nat) (nlf : Nat) (body : RBlock) (Γb Λb : Gam) : (∀ p ∈ Γ, p.1 ≠ b ∧ p.2 ≠ k) →
      Z8B ((b, k) :: Γ) nlf true ((b, k) :: Γ) (paramScope ps) false body Γb Λb → GamOK (paramScope ps) → (∀ p ∈ paramScope ps, p.2 < nlf) →
      TopS Γ (.expr (.func fid (some ⟨b, .global k⟩) ps nlf body)) ((b, k) :: Γ) ((b, k) :: Γ)
  /-- `stel a = functie f(ps) { body }`: both `a` and `f` are persistent and visible in the body -/
  | letFdef (Γ : Gam) (b k fid bf kf : Nat) (ps : List Nat) (nlf : Nat) (body : RBlock) (Γb Λb : Gam) :
      (∀ p ∈ Γ, p.1 ≠ b ∧ p.2 ≠ k) → (∀ p ∈ (b, k) :: Γ, p.1 ≠ bf ∧ p.2 ≠ kf) →
      Z8B ((bf, kf) :: (b, k) :: Γ) nlf true ((bf, kf) :: (b, k) :: Γ) (paramScope ps) false body Γb Λb → GamOK (paramScope ps) →
      (∀ p ∈ paramScope ps, p.2 < nlf) →
      TopS Γ (.letS ⟨b, .global k⟩ (.func fid (some ⟨bf, .global kf⟩) ps nlf body)) ((bf, kf) :: (b, k) :: Γ) ((bf, kf) :: (b, k) :: Γ)

/-- a top-level program in the stage-8 fragment, laid out from `pos` with pool `cs`; `D` lists ALL its function literals
    (function id ↦ entry point, parameters, body, persistent scope of the body) -/
inductive ZTop8 : Gam → RBlock → Nat → List Const → List (Nat × FnInfo) → Gam → Prop where
  | nil (Γ : Gam) (pos : Nat) (cs : List Const) : ZTop8 Γ .nil pos cs [] Γ
  | stmt (Γ Δs Γ1 Γ2 : Gam) (s : RStmt) (rest : RBlock) (pos : Nat) (cs : List Const) (D : List (Nat × FnInfo)) : TopS Γ s Δs Γ1 →
      ZTop8 Γ1 rest (pos + sizeS s) (emitS s pos none cs).2 D Γ2 → ZTop8 Γ (.cons s rest) pos cs (litsS Δs s pos none cs ++ D) Γ2

/-- every top-level statement is a statement of the fragment over its persistent scope -/
theorem tops_z8s {Γ Δs Γ1 : Gam} {s : RStmt} (h : TopS Γ s Δs Γ1) : ∃ Λ1, Z8S Δs 0 false Γ [] false s Γ1 Λ1 := by
  cases h with
  | exprS _ Λ1 e he => exact ⟨Λ1, .expr _ _ _ e _ _ he⟩
  | blockS b Γ1 Λ1 hb => exact ⟨[], .block _ _ _ b Γ1 Λ1 hb⟩
  | letS _ Λ1 b k e hf he => exact ⟨Λ1, .letG _ _ _ b k e _ _ rfl hf he⟩
  | fdef fid b k ps nlf body Γb Λb hf hb hpok hpsz => exact ⟨[], .expr _ _ _ _ _ _ (.funcG _ _ _ fid b k ps nlf body Γb Λb rfl hf hb hpok hpsz)⟩
  | letFdef b k fid bf kf ps nlf body Γb Λb hf hf2 hb hpok hpsz =>
    exact ⟨[], .letG _ _ _ b k _ _ _ rfl hf (.funcG _ _ _ fid bf kf ps nlf body Γb Λb rfl hf2 hb hpok hpsz)⟩

theorem ztop8_litpool {Γ Γ' : Gam} {b : RBlock} {pos : Nat} {cs : List Const} {D : List (Nat × FnInfo)} (hy : ZTop8 Γ b pos cs D Γ') :
    LitPool cs → LitPool (emitB b pos none cs).2 := by
  induction hy with
  | nil => intro h; simp only [emitB]; exact h
  | stmt Γ Δs Γ1 Γ2 s rest pos cs D hs _ ih =>
    intro h
    obtain ⟨Λ1, hz⟩ := tops_z8s hs
    simp only [emitB]
    exact ih (lpS8 s hz pos none cs h)

/-- every literal of the program has its body where `D` says, in the fragment, with its nested literals in the table -/
theorem ztop8_fnok {W : World} {Γ Γ' : Gam} {b : RBlock} {pos : Nat} {cs : List Const} {D : List (Nat × FnInfo)} (hy : ZTop8 Γ b pos cs D Γ') :
    CodeAt W.C pos (emitB b pos none cs).1 → Ext (emitB b pos none cs).2 W.CS → (∀ q ∈ D, W.ft q.1 = some q.2) → AllOK8 W D := by
  induction hy with
  | nil => intro _ _ _; exact .nil
  | stmt Γ Δs Γ1 Γ2 s rest pos cs D hs _ ih =>
    intro hcode hext hD
    obtain ⟨Λ1, hz⟩ := tops_z8s hs
    have hl := lay_b_cons hcode hext
    simp only [List.forall_mem_append] at hD
    exact .append ((qall8 W Δs _).s s (Nat.le_refl _) hz pos none cs hl.1 hD.1) (ih hl.2.1 hl.2.2 hD.2)

/-- the function ids of the literals, in code order -/
theorem ztop8_fids {Γ Γ' : Gam} {b : RBlock} {pos : Nat} {cs : List Const} {D : List (Nat × FnInfo)} (hy : ZTop8 Γ b pos cs D Γ') :
    D.map (·.1) = fidsB b := by
  induction hy with
  | nil => simp only [fidsB, List.map_nil]
  | stmt Γ Δs Γ1 Γ2 s rest pos cs D hs _ ih => simp only [fidsB, List.map_append, lits_fidsS s, ih]

/-- the entry points of all literals lie in the code, in increasing order -/
theorem ztop8_ips {Γ Γ' : Gam} {b : RBlock} {pos : Nat} {cs : List Const} {D : List (Nat × FnInfo)} (hy : ZTop8 Γ b pos cs D Γ') :
    IpsK 4 D pos (pos + sizeB b) := by
  induction hy with
  | nil Γ pos cs => exact .nil _ _ _
  | stmt Γ Δs Γ1 Γ2 s rest pos cs D hs _ ih =>
    simp only [sizeB]
    exact (ipsS s Δs pos none cs).append ih (Nat.le_refl _) (by omega) (by omega) |>.mono (Nat.le_refl _) (by omega)

/-! ### one top-level statement -/

section step
variable {W : World}

theorem atat (W : World) (Γ Γ' : Gam) : (W.at Γ).at Γ' = W.at Γ' := rfl

/-- a statement evaluated as a statement of the fragment in the world of the scope before it: an expression statement, a block -/
theorem top_step_plain8 (hW : WOK8 W) {Γ Γ1 Λ1 : Gam} {s : RStmt} (hs : Z8S Γ 0 false Γ [] false s Γ1 Λ1) (hok : GamOK Γ)
    {pos : Nat} {cs : List Const} (F : Nat) {μ : AMap} {st : SState} {g : Array Value} {l : Value} {m : Mem} {out : List Text}
    (hinv : Inv6 (W.at Γ) Γ [] 0 ⟨μ, st, pos, #[], #[], g, l, m, out⟩) (hwt : TI.WT (mk6 W.s0 pos #[] #[] #[] g l [] m out))
    (hcode : CodeAt W.C pos (emitS s pos none cs).1) (hext : Ext (emitS s pos none cs).2 W.CS) (hft : FtS W.ft Γ s pos none cs) :
    GoalTop6 W Γ1 ⟨μ, st, pos, #[], #[], g, l, m, out⟩ (pos + sizeS s) (evalS F s st) ∧ GamOK Γ1 := by
  have hx := z8s_ext hs
  obtain ⟨⟨d, hd, _⟩, ⟨c, hc, hcf⟩, hokg, _⟩ := hx
  have hc0 : c = [] := hcf rfl
  subst hc0
  simp only [List.nil_append] at hc
  subst hc
  refine ⟨?_, hokg hok⟩
  have hsc : Sc7 (W.at Γ) Γ false Γ [] [] :=
    ⟨by simpa [bigScope] using hok, by simp [GamOK], by simp [bigScope], by intro p hp; simpa [bigScope, World.at] using hp,
     by intro p hp; simpa [World.at] using hp⟩
  have h1 := (pall8 (hW.at Γ) F).s 0 false Γ [] [] false s Γ1 [] hs ⟨μ, st, pos, #[], #[], g, l, m, out⟩ none cs #[] [] hsc
    (by simpa [bigScope] using hinv) hwt hcode hext hft
  rcases h1 with h1 | h1
  · exact .inl h1
  refine .inr ?_
  cases hr : evalS F s st with
  | val u st1 =>
    rw [hr] at h1
    obtain ⟨μ1, m1, locs1, g1, l1, out1, n, hn, hinv1, _⟩ := h1
    have hl0 : locs1 = #[] := Array.eq_empty_of_size_eq_zero hinv1.size
    subst hl0
    simp only [bigScope, Bool.false_eq_true, ↓reduceIte] at hinv1
    have hsub : ∀ p ∈ (W.at Γ).Γp, p ∈ Γ1 := fun p hp => by rw [hd]; exact List.mem_append_right _ hp
    exact ⟨μ1, g1, l1, m1, out1, n, hn, Inv6.grow (W := W.at Γ) hsub hinv1⟩
  | err er st1 => rw [hr] at h1; exact h1
  | fuel => trivial
  | unspec _ => trivial
  | brk _ => rw [hr] at h1; exact absurd h1.1 (by simp)
  | cont _ => rw [hr] at h1; exact absurd h1.1 (by simp)
  | ret _ _ => rw [hr] at h1; exact absurd h1.1 (by simp)

/-- `stel x = e` at top level: `x` joins the persistent scope BEFORE `e` is evaluated (its literals may use it); the names
    `e` declares join it afterwards -/
theorem top_step_let8 (hW : WOK8 W) {Γ Γ1 Λ1 : Gam} {b k : Nat} {e : RExpr} (hf : ∀ p ∈ Γ, p.1 ≠ b ∧ p.2 ≠ k)
    (he : Z8E ((b, k) :: Γ) 0 false ((b, k) :: Γ) [] false e Γ1 Λ1) (hok : GamOK Γ)
    {pos : Nat} {cs : List Const} (F : Nat) {μ : AMap} {st : SState} {g : Array Value} {l : Value} {m : Mem} {out : List Text}
    (hinv : Inv6 (W.at Γ) Γ [] 0 ⟨μ, st, pos, #[], #[], g, l, m, out⟩) (hwt : TI.WT (mk6 W.s0 pos #[] #[] #[] g l [] m out))
    (hcode : CodeAt W.C pos (emitS (.letS ⟨b, .global k⟩ e) pos none cs).1) (hext : Ext (emitS (.letS ⟨b, .global k⟩ e) pos none cs).2 W.CS)
    (hft : FtS W.ft ((b, k) :: Γ) (.letS ⟨b, .global k⟩ e) pos none cs) :
    GoalTop6 W Γ1 ⟨μ, st, pos, #[], #[], g, l, m, out⟩ (pos + sizeS (.letS ⟨b, .global k⟩ e)) (evalS F (.letS ⟨b, .global k⟩ e) st) ∧ GamOK Γ1 := by
  have hok' := gamOK_cons hok b k hf
  obtain ⟨⟨d, hd, _⟩, ⟨c, hc, hcf⟩, hokg, _⟩ := z8e_ext e he
  have hc0 : c = [] := hcf rfl
  subst hc0
  simp only [List.nil_append] at hc
  subst hc
  refine ⟨?_, hokg hok'⟩
  cases F with
  | zero => simp only [evalS]; exact .inr trivial
  | succ F =>
    have hsub : ∀ p ∈ (W.at Γ).Γp, p ∈ (b, k) :: Γ := fun p hp => List.mem_cons_of_mem _ hp
    have hinv' : Inv6 (W.at ((b, k) :: Γ)) Γ [] 0 ⟨μ, st, pos, #[], #[], g, l, m, out⟩ := Inv6.grow (W := W.at Γ) hsub hinv
    have hinv0 := inv6_unbindG b k hf hinv' pos #[]
    have hsc : Sc7 (W.at ((b, k) :: Γ)) ((b, k) :: Γ) false ((b, k) :: Γ) [] [] :=
      ⟨by simpa [bigScope] using hok', by simp [GamOK], by simp [bigScope], by intro p hp; simpa [bigScope, World.at] using hp,
       by intro p hp; simpa [World.at] using hp⟩
    simp only [emitS, setVar] at hcode hext
    obtain ⟨hc1, hc2⟩ := hcode.append
    rw [emitE_size] at hc2
    have h1 := (pall8 (hW.at ((b, k) :: Γ)) F).e 0 false ((b, k) :: Γ) [] [] false e Γ1 [] he
      ⟨μ, st.unbind ⟨b, .global k⟩, pos, #[], #[], g, l, m, out⟩ none cs #[] [] hsc (by simpa [bigScope] using hinv0) hwt hc1 hext hft.letS
    rw [evalS_let]
    simp only [sizeS]
    rcases h1 with h1 | h1
    · exact .inl h1
    refine .inr ?_
    cases hr : evalE F e (st.unbind ⟨b, .global k⟩) with
    | val v st1 =>
      rw [hr] at h1
      obtain ⟨mv, μ1, m1, hmv, locs1, g1, l1, out1, n, hn, hinv1, _⟩ := h1
      have hl0 : locs1 = #[] := Array.eq_empty_of_size_eq_zero hinv1.size
      subst hl0
      simp only [bigScope, Bool.false_eq_true, ↓reduceIte] at hinv1
      have hinv2 := inv6_bindG (hokg hok') hinv1 b k (by rw [hd]; exact List.mem_append_right _ List.mem_cons_self) v mv hmv (pos + (sizeE e + 3)) #[]
      have hsub2 : ∀ p ∈ (W.at ((b, k) :: Γ)).Γp, p ∈ Γ1 := fun p hp => by rw [hd]; exact List.mem_append_right _ hp
      simp only [bindR]
      refine ⟨μ1, setGlobalArr g1 k mv, l1, m1, out1, n + 1, ?_, Inv6.grow (W := W.at ((b, k) :: Γ)) hsub2 hinv2⟩
      have := execN_step W.C n _ _ _ hn (step6_setGlobal (s0 := W.s0) (below := #[]) (locs := #[]) (ops := #[]) (g := g1) (l := l1) (fr := [])
        (m := m1) (out := out1) (v := mv) hc2)
      refine this.trans ?_
      congr 2
    | err er st1 => rw [hr] at h1; exact h1
    | fuel => trivial
    | unspec _ => trivial
    | brk _ => rw [hr] at h1; exact absurd h1.1 (by simp)
    | cont _ => rw [hr] at h1; exact absurd h1.1 (by simp)
    | ret _ _ => rw [hr] at h1; exact absurd h1.1 (by simp)

/-- `functie f(ps) { body }` at top level: `f` joins the persistent scope, the function value lands in its slot and in `last` -/
theorem top_step_fdef8 (hW : WOK8 W) {Γ : Gam} {fid b k : Nat} {ps : List Nat} {nlf : Nat} {body : RBlock}
    (hf : ∀ p ∈ Γ, p.1 ≠ b ∧ p.2 ≠ k) (hok : GamOK Γ)
    {pos : Nat} {cs : List Const} (F : Nat) {μ : AMap} {st : SState} {g : Array Value} {l : Value} {m : Mem} {out : List Text}
    (hinv : Inv6 (W.at Γ) Γ [] 0 ⟨μ, st, pos, #[], #[], g, l, m, out⟩)
    (hcode : CodeAt W.C pos (emitS (.expr (.func fid (some ⟨b, .global k⟩) ps nlf body)) pos none cs).1)
    (hext : Ext (emitS (.expr (.func fid (some ⟨b, .global k⟩) ps nlf body)) pos none cs).2 W.CS)
    (hft : FtS W.ft ((b, k) :: Γ) (.expr (.func fid (some ⟨b, .global k⟩) ps nlf body)) pos none cs) :
    GoalTop6 W ((b, k) :: Γ) ⟨μ, st, pos, #[], #[], g, l, m, out⟩ (pos + sizeS (.expr (.func fid (some ⟨b, .global k⟩) ps nlf body)))
      (evalS F (.expr (.func fid (some ⟨b, .global k⟩) ps nlf body)) st) := by
  cases F with
  | zero => simp only [evalS]; exact .inr trivial
  | succ F =>
    have hsub : ∀ p ∈ (W.at Γ).Γp, p ∈ (b, k) :: Γ := fun p hp => List.mem_cons_of_mem _ hp
    have hinv' : Inv6 (W.at ((b, k) :: Γ)) Γ [] 0 ⟨μ, st, pos, #[], #[], g, l, m, out⟩ := Inv6.grow (W := W.at Γ) hsub hinv
    simp only [emitS] at hcode hext
    obtain ⟨hc1, hc2⟩ := hcode.append
    rw [emitE_size] at hc2
    have h1 := pe8_fdefG' (W := W.at ((b, k) :: Γ)) (Δ := (b, k) :: Γ) (below := #[]) (fr := []) (fn := false) (ab := false) (lp := none)
      (c := ⟨μ, st, pos, #[], #[], g, l, m, out⟩) (hW.at ((b, k) :: Γ)) F fid b k ps nlf body hf hok
      (by intro p hp; simpa [World.at] using hp) hinv' hc1 hext hft.expr
    rw [evalS_expr]
    simp only [sizeS]
    rcases h1 with h1 | h1
    · exact .inl h1
    refine .inr ?_
    cases hr : evalE F (.func fid (some ⟨b, .global k⟩) ps nlf body) st with
    | val v st1 =>
      rw [hr] at h1
      obtain ⟨mv, μ1, m1, hmv, locs1, g1, l1, out1, n, hn, hinv1, _⟩ := h1
      have hl0 : locs1 = #[] := Array.eq_empty_of_size_eq_zero hinv1.size
      subst hl0
      simp only [bindR]
      refine ⟨μ1, g1, mv, m1, out1, n + 1, ?_, inv6_setLast hinv1 v mv hmv _ _⟩
      have := execN_step W.C n _ _ _ hn (step6_pop (s0 := W.s0) (below := #[]) (locs := #[]) (ops := #[]) (g := g1) (l := l1) (fr := [])
        (m := m1) (out := out1) (v := mv) hc2)
      refine this.trans ?_
      congr 2
    | err er st1 => rw [hr] at h1; exact h1
    | fuel => trivial
    | unspec _ => trivial
    | brk _ => rw [hr] at h1; exact absurd h1.1 (by simp)
    | cont _ => rw [hr] at h1; exact absurd h1.1 (by simp)
    | ret _ _ => rw [hr] at h1; exact absurd h1.1 (by simp)

/-- `stel a = functie f(ps) { body }` at top level: `a` and `f` join the persistent scope; `f`'s slot and `a`'s slot both
    receive the function value -/
theorem top_step_letFdef8 (hW : WOK8 W) {Γ : Gam} {b k fid bf kf : Nat} {ps : List Nat} {nlf : Nat} {body : RBlock}
    (hf : ∀ p ∈ Γ, p.1 ≠ b ∧ p.2 ≠ k) (hf2 : ∀ p ∈ (b, k) :: Γ, p.1 ≠ bf ∧ p.2 ≠ kf) (hok : GamOK Γ)
    {pos : Nat} {cs : List Const} (F : Nat) {μ : AMap} {st : SState} {g : Array Value} {l : Value} {m : Mem} {out : List Text}
    (hinv : Inv6 (W.at Γ) Γ [] 0 ⟨μ, st, pos, #[], #[], g, l, m, out⟩)
    (hcode : CodeAt W.C pos (emitS (.letS ⟨b, .global k⟩ (.func fid (some ⟨bf, .global kf⟩) ps nlf body)) pos none cs).1)
    (hext : Ext (emitS (.letS ⟨b, .global k⟩ (.func fid (some ⟨bf, .global kf⟩) ps nlf body)) pos none cs).2 W.CS)
    (hft : FtS W.ft ((bf, kf) :: (b, k) :: Γ) (.letS ⟨b, .global k⟩ (.func fid (some ⟨bf, .global kf⟩) ps nlf body)) pos none cs) :
    GoalTop6 W ((bf, kf) :: (b, k) :: Γ) ⟨μ, st, pos, #[], #[], g, l, m, out⟩
      (pos + sizeS (.letS ⟨b, .global k⟩ (.func fid (some ⟨bf, .global kf⟩) ps nlf body)))
      (evalS F (.letS ⟨b, .global k⟩ (.func fid (some ⟨bf, .global kf⟩) ps nlf body)) st) := by
  cases F with
  | zero => simp only [evalS]; exact .inr trivial
  | succ F =>
    have hok' := gamOK_cons hok b k hf
    have hok2 := gamOK_cons hok' bf kf hf2
    have hsub : ∀ p ∈ (W.at Γ).Γp, p ∈ (bf, kf) :: (b, k) :: Γ := fun p hp => List.mem_cons_of_mem _ (List.mem_cons_of_mem _ hp)
    have hinv' : Inv6 (W.at ((bf, kf) :: (b, k) :: Γ)) Γ [] 0 ⟨μ, st, pos, #[], #[], g, l, m, out⟩ := Inv6.grow (W := W.at Γ) hsub hinv
    have hinv0 := inv6_unbindG b k hf hinv' pos #[]
    simp only [emitS, setVar] at hcode hext
    obtain ⟨hc1, hc2⟩ := hcode.append
    rw [emitE_size] at hc2
    have h1 := pe8_fdefG' (W := W.at ((bf, kf) :: (b, k) :: Γ)) (Δ := (bf, kf) :: (b, k) :: Γ) (below := #[]) (fr := []) (fn := false) (ab := false)
      (lp := none) (c := ⟨μ, st.unbind ⟨b, .global k⟩, pos, #[], #[], g, l, m, out⟩) (hW.at ((bf, kf) :: (b, k) :: Γ)) F fid bf kf ps nlf body hf2 hok'
      (by intro p hp; simpa [World.at] using hp) hinv0 hc1 hext hft.letS
    rw [evalS_let]
    simp only [sizeS]
    rcases h1 with h1 | h1
    · exact .inl h1
    refine .inr ?_
    cases hr : evalE F (.func fid (some ⟨bf, .global kf⟩) ps nlf body) (st.unbind ⟨b, .global k⟩) with
    | val v st1 =>
      rw [hr] at h1
      obtain ⟨mv, μ1, m1, hmv, locs1, g1, l1, out1, n, hn, hinv1, _⟩ := h1
      have hl0 : locs1 = #[] := Array.eq_empty_of_size_eq_zero hinv1.size
      subst hl0
      have hinv2 := inv6_bindG hok2 hinv1 b k (List.mem_cons_of_mem _ List.mem_cons_self) v mv hmv
        (pos + (sizeE (.func fid (some ⟨bf, .global kf⟩) ps nlf body) + 3)) #[]
      simp only [bindR]
      refine ⟨μ1, setGlobalArr g1 k mv, l1, m1, out1, n + 1, ?_, hinv2⟩
      have := execN_step W.C n _ _ _ hn (step6_setGlobal (s0 := W.s0) (below := #[]) (locs := #[]) (ops := #[]) (g := g1) (l := l1) (fr := [])
        (m := m1) (out := out1) (v := mv) hc2)
      refine this.trans ?_
      congr 2
    | err er st1 => rw [hr] at h1; exact h1
    | fuel => trivial
    | unspec _ => trivial
    | brk _ => rw [hr] at h1; exact absurd h1.1 (by simp)
    | cont _ => rw [hr] at h1; exact absurd h1.1 (by simp)
    | ret _ _ => rw [hr] at h1; exact absurd h1.1 (by simp)

/-- one top-level statement, whichever it is -/
theorem top_step8 (hW : WOK8 W) {Γ Δs Γ1 : Gam} {s : RStmt} (hy : TopS Γ s Δs Γ1) (hok : GamOK Γ)
    {pos : Nat} {cs : List Const} (F : Nat) {μ : AMap} {st : SState} {g : Array Value} {l : Value} {m : Mem} {out : List Text}
    (hinv : Inv6 (W.at Γ) Γ [] 0 ⟨μ, st, pos, #[], #[], g, l, m, out⟩) (hwt : TI.WT (mk6 W.s0 pos #[] #[] #[] g l [] m out))
    (hcode : CodeAt W.C pos (emitS s pos none cs).1) (hext : Ext (emitS s pos none cs).2 W.CS) (hft : FtS W.ft Δs s pos none cs) :
    GoalTop6 W Γ1 ⟨μ, st, pos, #[], #[], g, l, m, out⟩ (pos + sizeS s) (evalS F s st) ∧ GamOK Γ1 := by
  cases hy with
  | exprS _ Λ1 e he => exact top_step_plain8 hW (.expr _ _ _ e _ _ he) hok F hinv hwt hcode hext hft
  | blockS b Γ1 Λ1 hb => exact top_step_plain8 hW (.block _ _ _ b Γ1 Λ1 hb) hok F hinv hwt hcode hext hft
  | letS _ Λ1 b k e hf he => exact top_step_let8 hW hf he hok F hinv hwt hcode hext hft
  | fdef fid b k ps nlf body Γb Λb hf hb hpok hpsz => exact ⟨top_step_fdef8 hW hf hok F hinv hcode hext hft, gamOK_cons hok b k hf⟩
  | letFdef b k fid bf kf ps nlf body Γb Λb hf hf2 hb hpok hpsz =>
    exact ⟨top_step_letFdef8 hW hf hf2 hok F hinv hcode hext hft, gamOK_cons (gamOK_cons hok b k hf) bf kf hf2⟩

end step

/-! ### the top-level sequence -/

theorem ptop8 {W : World} (hW : WOK8 W) {Γ Γ' : Gam} {b : RBlock} {pos : Nat} {cs : List Const} {D : List (Nat × FnInfo)}
    (hy : ZTop8 Γ b pos cs D Γ') :
    (∀ q ∈ D, W.ft q.1 = some q.2) → GamOK Γ →
    ∀ (F : Nat) (μ : AMap) (st : SState) (g : Array Value) (l : Value) (m : Mem) (out : List Text),
    Inv6 (W.at Γ) Γ [] 0 ⟨μ, st, pos, #[], #[], g, l, m, out⟩ → TI.WT (mk6 W.s0 pos #[] #[] #[] g l [] m out) →
    CodeAt W.C pos (emitB b pos none cs).1 → Ext (emitB b pos none cs).2 W.CS →
    GoalTop6 W Γ' ⟨μ, st, pos, #[], #[], g, l, m, out⟩ (pos + sizeB b) (evalB F b st) := by
  induction hy with
  | nil Γ pos cs =>
    intro _ _ F μ st g l m out hinv _ _ _
    cases F with
    | zero => simp only [evalB]; exact .inr trivial
    | succ F =>
      simp only [evalB, sizeB, Nat.add_zero]
      exact .inr ⟨μ, g, l, m, out, 0, rfl, hinv⟩
  | stmt Γ Δs Γ1 Γ2 s rest pos cs D hs _ ih =>
    intro hD hok F μ st g l m out hinv hwt hcode hext
    cases F with
    | zero => simp only [evalB]; exact .inr trivial
    | succ F =>
      have hl := lay_b_cons hcode hext
      simp only [List.forall_mem_append] at hD
      obtain ⟨h1, hok1⟩ := top_step8 hW hs hok F hinv hwt hl.1.1 hl.1.2 hD.1
      rw [evalB_cons]
      simp only [sizeB]
      rcases h1 with h1 | h1
      · exact .inl h1
      cases hr1 : evalS F s st with
      | val u st1 =>
        rw [hr1] at h1
        obtain ⟨μ1, g1, l1, m1, out1, n, hn, hinv1⟩ := h1
        have hwt1 := wt_execN n _ _ hwt hn
        have h2 := ih hD.2 hok1 F μ1 st1 g1 l1 m1 out1 hinv1 hwt1 hl.2.1 hl.2.2
        simp only [bindR]
        rw [← Nat.add_assoc]
        exact GoalTop6.prefix (c := ⟨μ, st, pos, #[], #[], g, l, m, out⟩) (c1 := ⟨μ1, st1, pos + sizeS s, #[], #[], g1, l1, m1, out1⟩) n hn h2
      | err er st1 => rw [hr1] at h1; exact .inr h1
      | fuel => exact .inr trivial
      | unspec _ => exact .inr trivial
      | brk _ => rw [hr1] at h1; exact h1.elim
      | cont _ => rw [hr1] at h1; exact h1.elim
      | ret _ _ => rw [hr1] at h1; exact h1.elim

end Sim8
end Nl
