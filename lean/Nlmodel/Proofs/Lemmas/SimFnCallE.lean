/- Stage 4: argument lists and the call expression (C01, C12). -/
import Nlmodel.Proofs.Lemmas.SimFnParams
namespace Nl
namespace SimF
open Spec Sim

theorem evalEs_length : ∀ (f : Nat) (es : RExprs) (st : SState) (xs : List SVal) (st1 : SState),
    evalEs f es st = .val xs st1 → xs.length = es.length
  | 0, _, _, _, _, h => by simp [evalEs] at h
  | f + 1, .nil, st, xs, st1, h => by
    simp only [evalEs] at h; injection h with h1 h2; subst h1; rfl
  | f + 1, .cons e rest, st, xs, st1, h => by
    simp only [evalEs] at h
    cases hr : evalE f e st with
    | val v st' =>
      simp only [hr] at h
      cases hr2 : evalEs f rest st' with
      | val vs st'' =>
        simp only [hr2] at h
        injection h with h1 h2; subst h1
        simp [RExprs.length, evalEs_length f rest st' vs st'' hr2]
      | _ => simp [hr2] at h
    | _ => simp [hr] at h

theorem push_append_list (ops : Array Value) (mv : Value) (ms : List Value) :
    (ops.push mv) ++ ms.toArray = ops ++ (mv :: ms).toArray := by
  apply Array.ext'; simp

section
variable {W : World}

theorem pes_succ (f : Nat) (ih : PAll W f) : PEs W (f + 1) := by
  intro nl fn Γ Γx Λ es hx st pos lp cs below fr locs ops g l hsc hinv hcode hpool
  cases hx with
  | nil =>
    simp only [evalEs, sizeEs]
    exact .inr ⟨[], trivial, locs, g, l, 0, by simp [execN], hinv, rfl⟩
  | cons _ _ e rest he hrest =>
    simp only [emitEs] at hcode hpool
    obtain ⟨hc1, hc2⟩ := hcode.append
    rw [emitE_size] at hc2
    have hpool1 : PoolOK W.s0.cvals (emitE e pos lp cs).2 := hpool.mono (emitEs_ext rest _ _ _)
    have h1 := ih.e nl fn Γ Γx Λ false e he st pos lp cs below fr locs ops g l hsc hinv hc1 hpool1
    simp only [evalEs, sizeEs]
    rcases h1 with h1 | h1
    · exact .inl h1
    cases hr : evalE f e st with
    | val v st1 =>
      rw [hr] at h1
      obtain ⟨mv, hmv, locs1, g1, l1, n, hn, hinv1, ho1⟩ := h1
      have h2 := ih.es nl fn Γ Γx Λ rest hrest st1 (pos + sizeE e) lp _ below fr locs1 (ops.push mv) g1 l1 hsc hinv1 hc2 hpool
      simp only
      rcases h2 with h2 | h2
      · exact .inl (Ovf.after n hn h2)
      cases hr2 : evalEs f rest st1 with
      | val vs st2 =>
        rw [hr2] at h2
        obtain ⟨ms, hms, hre⟩ := h2
        have := hre.prefix n hn ho1
        rw [push_append_list, Nat.add_assoc] at this
        exact .inr ⟨mv :: ms, ⟨hmv, hms⟩, this⟩
      | err er st2 => rw [hr2] at h2; exact .inr (Fails.after n hn h2)
      | fuel => exact .inr trivial
      | unspec _ => exact .inr trivial
      | brk _ => rw [hr2] at h2; exact h2.elim
      | cont _ => rw [hr2] at h2; exact h2.elim
      | ret _ _ => rw [hr2] at h2; exact .inr ⟨h2.1, h2.2.prefix n hn ho1⟩
    | err er st1 => rw [hr] at h1; exact .inr h1
    | fuel => exact .inr trivial
    | unspec _ => exact .inr trivial
    | brk _ => rw [hr] at h1; exact absurd h1.1 (by simp)
    | cont _ => rw [hr] at h1; exact absurd h1.1 (by simp)
    | ret _ _ => rw [hr] at h1; exact .inr h1

theorem step_call_nonfn {C : Code} {s0 : VM} {i : Nat} {below locs ops g : Array Value} {l : Value} {fr : List Frame} {rest : List Instr}
    {argc : Nat} {v : Value} (h : CodeAt C i (.call argc :: rest)) (hv : ∀ a b, v ≠ .fn a b) :
    ∃ s2, step C (mkS s0 i below locs (ops.push v) g l fr) = .error .type s2 := by
  rw [step_exec h]
  cases v <;> simp only [exec, mkS_stack, pop_frame] <;> first | exact ⟨_, rfl⟩ | exact absurd rfl (hv _ _)

theorem pe_call (hW : WOK W) (f : Nat) (ih : PAll W f) {nl : Nat} {fn : Bool} {Γ Γx Λ : Gam} {ab : Bool} {st : SState} {pos : Nat}
    {lp : LoopCtx} {cs : List Const} {below : Array Value} {fr : List Frame} {locs ops g : Array Value} {l : Value}
    (fe : RExpr) (as : RExprs) (has : YEs nl fn Γ Λ as) (hfe : YE nl fn Γ Λ false fe) (hsc : Sc W fn Γ Γx Λ)
    (hinv : Inv W (bigScope fn Γ Γx) Λ nl st locs g l)
    (hcode : CodeAt W.C pos (emitE (.call fe as) pos lp cs).1) (hpool : PoolOK W.s0.cvals (emitE (.call fe as) pos lp cs).2) :
    GoalV W (bigScope fn Γ Γx) Λ nl below fr fn ab lp pos locs ops g l (pos + sizeE (.call fe as)) ops st (evalE (f + 1) (.call fe as) st) := by
  simp only [emitE] at hcode hpool
  obtain ⟨hc12, hc3⟩ := hcode.append
  obtain ⟨hc1, hc2⟩ := hc12.append
  rw [emitEs_size] at hc2
  have hc3 := hc3.cast (b := pos + sizeEs as + sizeE fe) (by simp [emitEs_size, emitE_size]; omega)
  have hpool1 : PoolOK W.s0.cvals (emitEs as pos lp cs).2 := hpool.mono (emitE_ext fe _ _ _)
  have h1 := ih.es nl fn Γ Γx Λ as has st pos lp cs below fr locs ops g l hsc hinv hc1 hpool1
  simp only [evalE, sizeE]
  rcases h1 with h1 | h1
  · exact .inl h1
  cases hr1 : evalEs f as st with
  | val xs st1 =>
    rw [hr1] at h1
    obtain ⟨ms, hms, locs1, g1, l1, n1, hn1, hinv1, ho1⟩ := h1
    have hlen : ms.length = as.length := by rw [← VRs_length xs ms hms, evalEs_length f as st xs st1 hr1]
    have h2 := ih.e nl fn Γ Γx Λ false fe hfe st1 (pos + sizeEs as) lp _ below fr locs1 (ops ++ ms.toArray) g1 l1 hsc hinv1 hc2 hpool
    simp only
    rcases h2 with h2 | h2
    · exact .inl (Ovf.after n1 hn1 h2)
    cases hr2 : evalE f fe st1 with
    | val fv st2 =>
      rw [hr2] at h2
      obtain ⟨mf, hmf, locs2, g2, l2, n2, hn2, hinv2, ho2⟩ := h2
      have hn12 := execN_add W.C n1 n2 _ _ _ hn1 hn2
      have hnonfn : (∀ a b, mf ≠ .fn a b) → Fails W.C (mkS W.s0 pos below locs ops g l fr) .type := by
        intro hnf
        obtain ⟨s2, hs2⟩ := step_call_nonfn (s0 := W.s0) (below := below) (locs := locs2) (ops := ops ++ ms.toArray) (g := g2) (l := l2) (fr := fr) hc3 hnf
        exact ⟨n1 + n2, _, s2, hn12, hs2⟩
      cases fv with
      | fn fid ps nlc body =>
        cases mf <;> simp only [VR] at hmf <;> try exact absurd hmf id
        rename_i fip nlc'
        obtain ⟨info, hft, hip, hps, hnl, hbody, hnl', hΓg⟩ := hmf
        subst hnl'
        obtain ⟨hstep_gt, hstep_le⟩ := step_call (s0 := W.s0) (below := below) (locs := locs2) (ops := ops) (g := g2) (l := l2) (fr := fr)
          (fip := fip) (nlc := nlc') (ms := ms) hc3 hlen
        have hxl : xs.length = as.length := evalEs_length f as st xs st1 hr1
        simp only
        by_cases hgt : xs.length > nlc'
        · simp only [hgt, ↓reduceIte]
          obtain ⟨s2, hs2⟩ := hstep_gt (by omega)
          exact .inr ⟨n1 + n2, _, s2, hn12, hs2⟩
        · simp only [hgt, ↓reduceIte]
          rcases hstep_le (by omega) with hlim | hnext
          · exact .inl ⟨n1 + n2, _, hn12, hlim⟩
          -- the callee's activation
          obtain ⟨hfcode, hfpool, ⟨Γ1, Λ1, hyb⟩, hpok, hpsz⟩ := hW.fns fid info hft
          subst hip; subst hps; subst hnl; subst hbody
          have hn3 := execN_step W.C (n1 + n2) _ _ _ hn12 hnext
          have hscf : Sc W true info.Γg (bigScope fn Γ Γx) (paramScope info.ps) :=
            ⟨hsc.okb, hpok, fun p hp => hsc.psub p (hΓg p hp), hsc.psub⟩
          have hinvf : Inv W (bigScope fn Γ Γx) (paramScope info.ps) info.nl { st2 with lenv := bindParams info.ps xs }
              (ms.toArray ++ Array.replicate (info.nl - as.length) .null) g2 l2 := by
            refine ⟨hinv2.relG, ?_, hinv2.last, by simp [hlen]; omega⟩
            intro b j hm v hv
            have hj := hpsz (b, j) hm
            have := params_rel (W := W) info.ps 0 xs ms hms hpok b j hm v hv
            exact ⟨_, this, by
              rw [Nat.sub_zero]
              exact args_locals ms (info.nl - as.length) j (by simp only at hj; omega)⟩
          have hbf := ih.bf info.nl info.Γg (bigScope fn Γ Γx) (paramScope info.ps) info.body Γ1 Λ1 hyb
            { st2 with lenv := bindParams info.ps xs } info.ip info.cs (below ++ locs2 ++ ops)
            ({ ip := pos + sizeEs as + sizeE fe + 2, bp := below.size } :: fr) _ g2 l2 hscf hinvf hfcode hfpool
          rcases hbf with hbf | hbf
          · exact .inl (Ovf.after (n1 + n2 + 1) hn3 hbf)
          -- both normal completion and `antwoord` come back to the caller
          have hback : ∀ v st3, Returns W (bigScope fn Γ Γx) (below ++ locs2 ++ ops) ({ ip := pos + sizeEs as + sizeE fe + 2, bp := below.size } :: fr)
              info.ip (ms.toArray ++ Array.replicate (info.nl - as.length) .null) #[] g2 l2 v { st2 with lenv := bindParams info.ps xs } st3 →
              GoalV W (bigScope fn Γ Γx) Λ nl below fr fn ab lp pos locs ops g l (pos + (sizeEs as + sizeE fe + 2)) ops st
                (.val v { st3 with lenv := st2.lenv }) := by
            intro v st3 hret
            obtain ⟨mv, g3, l3, n3, hmv, hn, hrel3, hl3, ho3⟩ := hret _ _ rfl
            refine .inr ⟨mv, hmv, locs2, g3, l3, n1 + n2 + 1 + n3, ?_, ⟨hrel3, hinv2.relL, hl3, hinv2.size⟩, ?_⟩
            · rw [execN_add W.C _ _ _ _ _ hn3 hn]
              simp only [mkS, frame_push]
              congr 2 <;> omega
            · simp only at ho3 ⊢; rw [ho3, ho2, ho1]
          cases hr3 : evalBV f info.body { st2 with lenv := bindParams info.ps xs } with
          | val v st3 => rw [hr3] at hbf; exact hback v st3 hbf
          | ret v st3 => rw [hr3] at hbf; exact hback v st3 hbf
          | brk st3 => exact .inr trivial
          | cont st3 => exact .inr trivial
          | err er st3 => rw [hr3] at hbf; exact .inr (Fails.after (n1 + n2 + 1) hn3 hbf)
          | unspec st3 => exact .inr trivial
          | fuel => exact .inr trivial
      | null => rw [VR.null_iff] at hmf; subst hmf; exact .inr (hnonfn (by simp))
      | bool b => rw [VR.bool_iff] at hmf; subst hmf; exact .inr (hnonfn (by simp))
      | int i => rw [VR.int_iff] at hmf; subst hmf; exact .inr (hnonfn (by simp))
      | float x => cases mf <;> simp [VR] at hmf
      | str a => cases mf <;> simp [VR] at hmf
      | arr a => cases mf <;> simp [VR] at hmf
    | err er st2 => rw [hr2] at h2; exact .inr (Fails.after n1 hn1 h2)
    | fuel => exact .inr trivial
    | unspec _ => exact .inr trivial
    | brk _ => rw [hr2] at h2; exact absurd h2.1 (by simp)
    | cont _ => rw [hr2] at h2; exact absurd h2.1 (by simp)
    | ret _ _ => rw [hr2] at h2; exact .inr ⟨h2.1, h2.2.prefix n1 hn1 ho1⟩
  | err er st1 => rw [hr1] at h1; exact .inr h1
  | fuel => exact .inr trivial
  | unspec _ => exact .inr trivial
  | brk _ => rw [hr1] at h1; exact h1.elim
  | cont _ => rw [hr1] at h1; exact h1.elim
  | ret _ _ => rw [hr1] at h1; exact .inr h1

end
end SimF
end Nl
