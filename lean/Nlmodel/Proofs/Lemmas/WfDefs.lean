/- Well-formedness of resolved trees: what the code generator needs to produce checkable bytecode. -/
import Nlmodel.Model.Resolve
namespace Nl
namespace CV

/-- a slot is usable with `nl` local slots -/
def SlotOK (nl : Nat) : Slot → Prop
  | .global _ => True
  | .loc k => k < nl

def SelfOK (nl : Nat) : Option Ref → Prop
  | none => True
  | some r => SlotOK nl r.slot

mutual
/-- `fn`: inside a function body; `nl`: number of local slots of the owner; `lb`: inside a loop of the same function -/
def WfE (fn : Bool) (nl : Nat) (lb : Bool) : RExpr → Prop
  | .int _ | .float _ | .bool _ | .str _ => True
  | .var r => SlotOK nl r.slot
  | .not r | .neg r => WfE fn nl lb r
  | .assignVar r e => SlotOK nl r.slot ∧ WfE fn nl lb e
  | .assignIndex l i v => WfE fn nl lb l ∧ WfE fn nl lb i ∧ WfE fn nl lb v
  | .infix l _ r => WfE fn nl lb l ∧ WfE fn nl lb r
  | .ifE c t e => WfE fn nl lb c ∧ WfB fn nl lb t ∧ WfO fn nl lb e
  | .whileE c b => WfE fn nl true c ∧ WfB fn nl true b
  | .func _ self _ nlf body => SelfOK nl self ∧ WfB true nlf false body
  | .call f as => WfEs fn nl lb as ∧ WfE fn nl lb f
  | .callBuiltin _ as => WfEs fn nl lb as
  | .arr vs => WfEs fn nl lb vs
  | .index l i => WfE fn nl lb l ∧ WfE fn nl lb i
def WfEs (fn : Bool) (nl : Nat) (lb : Bool) : RExprs → Prop
  | .nil => True
  | .cons e es => WfE fn nl lb e ∧ WfEs fn nl lb es
def WfS (fn : Bool) (nl : Nat) (lb : Bool) : RStmt → Prop
  | .expr e => WfE fn nl lb e
  | .letS r e => SlotOK nl r.slot ∧ WfE fn nl lb e
  | .ret e => fn = true ∧ WfE fn nl lb e
  | .block b => WfB fn nl lb b
  | .brk | .cont => lb = true
def WfB (fn : Bool) (nl : Nat) (lb : Bool) : RBlock → Prop
  | .nil => True
  | .cons s b => WfS fn nl lb s ∧ WfB fn nl lb b
def WfO (fn : Bool) (nl : Nat) (lb : Bool) : ROptBlock → Prop
  | .none => True
  | .some b => WfB fn nl lb b
end

end CV
end Nl
