/- Reachability, completeness and soundness of the mark phase; sweep lemmas. -/
import Nlmodel.Proofs.Lemmas.GCMark
namespace Nl
namespace GC

/-- folding `mark` over a list of values (array elements, or the roots) -/
theorem foldl_mark_complete (h : Heap) (man : List Nat) (hk : HeapKindOK h) (f : Nat) :
    ∀ (l : List Value) (N : List Nat), (∀ e ∈ l, KindOK h e) → unmarked man N < f →
      (∀ e ∈ l, ∀ b, e.addr? = some b → b ∈ man → b ∈ l.foldl (mark h man f) N)
      ∧ Post h man N (l.foldl (mark h man f) N) := by
  intro l
  induction l with
  | nil => intro N _ _; exact ⟨fun e he => (nomatch he), Post.refl h man N⟩
  | cons e l ihl =>
    intro N hl hN
    simp only [List.foldl_cons]
    obtain ⟨he, pe⟩ := mark_complete h man hk f N e (hl e List.mem_cons_self) hN
    have hN' : unmarked man (mark h man f N e) < f :=
      Nat.lt_of_le_of_lt (unmarked_mono man N _ pe.mono) hN
    obtain ⟨hall, pl⟩ := ihl (mark h man f N e) (fun x hx => hl x (List.mem_cons_of_mem _ hx)) hN'
    refine ⟨?_, pe.trans pl⟩
    intro x hx b hb hm
    cases List.mem_cons.1 hx with
    | inl h1 => subst h1; exact pl.mono _ (he b hb hm)
    | inr h1 => exact hall x h1 b hb hm

/-- reachability from the roots through managed arrays -/
inductive Reach (h : Heap) (man : List Nat) (roots : List Value) : Nat → Prop where
  | root (v : Value) (a : Nat) : v ∈ roots → v.addr? = some a → a ∈ man → Reach h man roots a
  | step (x : Nat) (v : Value) (b : Nat) : Reach h man roots x → v ∈ h.arrAt x → v.addr? = some b → b ∈ man →
      Reach h man roots b

/-- the mark phase marks everything reachable (cycles included) -/
theorem markAll_complete (h : Heap) (man : List Nat) (roots : List Value) (hk : HeapKindOK h)
    (hr : ∀ v ∈ roots, KindOK h v) (a : Nat) (ha : Reach h man roots a) : a ∈ markAll h man roots := by
  have hf : unmarked man [] < man.length + 1 := by
    have := unmarked_le_length man []; omega
  obtain ⟨hall, post⟩ := foldl_mark_complete h man hk (man.length + 1) roots [] hr hf
  induction ha with
  | root v a hv hadr hm => exact hall v hv a hadr hm
  | step x v b _ hv hadr hm ih => exact post.closed x v b ih (by simp) hv hadr hm

/-- only managed addresses are ever marked -/
theorem markAll_managed (h : Heap) (man : List Nat) (roots : List Value) (hk : HeapKindOK h)
    (hr : ∀ v ∈ roots, KindOK h v) (a : Nat) (ha : a ∈ markAll h man roots) : a ∈ man := by
  have hf : unmarked man [] < man.length + 1 := by
    have := unmarked_le_length man []; omega
  obtain ⟨_, post⟩ := foldl_mark_complete h man hk (man.length + 1) roots [] hr hf
  exact post.managed a ha (by simp)

/-! ### sweep -/

theorem free_get_other (h : Heap) (a b : Nat) (hab : a ≠ b) : (h.free a).get b = h.get b := by
  simp [Heap.free, Heap.set, Heap.get, Array.getD_eq_getD_getElem?, Array.getElem?_setIfInBounds, hab]

theorem freeAll_get_other (h : Heap) (as : List Nat) (b : Nat) (hb : b ∉ as) : (freeAll h as).get b = h.get b := by
  induction as generalizing h with
  | nil => rfl
  | cons a as ih =>
    simp only [freeAll, List.foldl_cons]
    have h1 : a ≠ b := by intro e; subst e; exact hb List.mem_cons_self
    have h2 : b ∉ as := fun hm => hb (List.mem_cons_of_mem _ hm)
    have := ih (h.free a) h2
    simp only [freeAll] at this
    rw [this, free_get_other h a b h1]

theorem free_get_self (h : Heap) (a : Nat) (ha : a < h.cells.size) : (h.free a).get a = .freed := by
  simp [Heap.free, Heap.set, Heap.get, Array.getD_eq_getD_getElem?, Array.getElem?_setIfInBounds, ha]


/-- reachability between managed addresses through arrays -/
inductive RA (h : Heap) (man : List Nat) : Nat → Nat → Prop where
  | refl (a : Nat) : a ∈ man → RA h man a a
  | step (a x : Nat) (v : Value) (b : Nat) : RA h man a x → v ∈ h.arrAt x → v.addr? = some b → b ∈ man → RA h man a b

theorem RA.trans {h : Heap} {man : List Nat} {a b c : Nat} (h1 : RA h man a b) (h2 : RA h man b c) : RA h man a c := by
  induction h2 with
  | refl _ => exact h1
  | step x v d _ hv hd hm ih => exact RA.step a x v d ih hv hd hm

theorem RA.start_managed {h : Heap} {man : List Nat} {a x : Nat} (h1 : RA h man a x) : a ∈ man := by
  induction h1 with
  | refl hm => exact hm
  | step _ _ _ _ _ _ _ ih => exact ih

theorem RA.end_managed {h : Heap} {man : List Nat} {a x : Nat} (h1 : RA h man a x) : x ∈ man := by
  cases h1 with
  | refl hm => exact hm
  | step _ _ _ _ _ _ hm => exact hm

/-- `mark` adds only addresses reachable from the value it is called on -/
theorem mark_sound (h : Heap) (man : List Nat) :
    ∀ f M v x, x ∈ mark h man f M v → x ∈ M ∨ ∃ a, v.addr? = some a ∧ RA h man a x := by
  intro f
  induction f with
  | zero => intro M v x hx; exact Or.inl (by simpa [mark] using hx)
  | succ f ih =>
    intro M v x hx
    cases v with
    | null => exact Or.inl (by simpa [mark] using hx)
    | bool b => exact Or.inl (by simpa [mark] using hx)
    | int i => exact Or.inl (by simpa [mark] using hx)
    | fn i n => exact Or.inl (by simpa [mark] using hx)
    | float a =>
      simp only [mark] at hx
      split at hx
      · rename_i hc
        simp only [Bool.and_eq_true, contains_iff] at hc
        cases List.mem_cons.1 hx with
        | inl e => subst e; exact Or.inr ⟨x, rfl, RA.refl x hc.1⟩
        | inr e => exact Or.inl e
      · exact Or.inl hx
    | str a =>
      simp only [mark] at hx
      split at hx
      · rename_i hc
        simp only [Bool.and_eq_true, contains_iff] at hc
        cases List.mem_cons.1 hx with
        | inl e => subst e; exact Or.inr ⟨x, rfl, RA.refl x hc.1⟩
        | inr e => exact Or.inl e
      · exact Or.inl hx
    | arr a =>
      simp only [mark] at hx
      split at hx
      · rename_i hc
        simp only [Bool.and_eq_true, contains_iff] at hc
        have fold : ∀ (l : List Value) (N : List Nat) (y : Nat), y ∈ l.foldl (mark h man f) N →
            y ∈ N ∨ ∃ e ∈ l, ∃ b, e.addr? = some b ∧ RA h man b y := by
          intro l
          induction l with
          | nil => intro N y hy; exact Or.inl hy
          | cons e l ihl =>
            intro N y hy
            simp only [List.foldl_cons] at hy
            cases ihl _ y hy with
            | inl h1 =>
              cases ih N e y h1 with
              | inl h2 => exact Or.inl h2
              | inr h2 => obtain ⟨b, hb, hr⟩ := h2; exact Or.inr ⟨e, List.mem_cons_self, b, hb, hr⟩
            | inr h1 =>
              obtain ⟨e', he', b, hb, hr⟩ := h1
              exact Or.inr ⟨e', List.mem_cons_of_mem _ he', b, hb, hr⟩
        cases fold _ _ x hx with
        | inl h1 =>
          cases List.mem_cons.1 h1 with
          | inl e => subst e; exact Or.inr ⟨x, rfl, RA.refl x hc.1⟩
          | inr e => exact Or.inl e
        | inr h1 =>
          obtain ⟨e, he, b, hb, hr⟩ := h1
          have hbm : b ∈ man := hr.start_managed
          exact Or.inr ⟨a, rfl, (RA.step a a e b (RA.refl a hc.1) he hb hbm).trans hr⟩
      · exact Or.inl hx

end GC
end Nl
