/- Stage 6: the statements of the simulation; literals, variables, assignment, unary and binary operators,
   fused instructions. -/
import Nlmodel.Proofs.Lemmas.Sim6Goal
import Nlmodel.Proofs.C10
namespace Nl
namespace Sim6
open Spec Sim
open SimH (AMap isStrCell isArrCell Grow PoolH MemOK sameKind LitF)
open SimF (FT FnInfo FTInj paramScope bigScope)

section abbrevs
variable (W : World) (Γb Λ : Gam) (nl : Nat) (below : Array Value) (fr : List Frame)

abbrev GoalV6 (fn ab : Bool) (lp : LoopCtx) (c : Cfg) (endIp : Nat) (base : Array Value) (r : Res SVal) : Prop :=
  GoalG W Γb Λ nl below fr fn ab lp base c (VCV W Γb Λ nl below fr endIp base c) r

abbrev GoalEs6 (fn : Bool) (lp : LoopCtx) (c : Cfg) (endIp : Nat) (base : Array Value) (r : Res (List SVal)) : Prop :=
  GoalG W Γb Λ nl below fr fn false lp base c (VCEs W Γb Λ nl below fr endIp base c) r

/-- statements: scopes before (`Γb Λ`) and after (`Γb' Λ'`) -/
abbrev GoalU6 (Γb' Λ' : Gam) (fn ab : Bool) (lp : LoopCtx) (c : Cfg) (endIp : Nat) (base : Array Value) (r : Res Unit) : Prop :=
  GoalG W Γb Λ nl below fr fn ab lp base c (VCU W Γb' Λ' nl below fr endIp base c) r

/-- function bodies: every normal or early completion is a return to the caller -/
abbrev GoalF6 (c : Cfg) (r : Res SVal) : Prop :=
  GoalG W Γb Λ nl below fr true false none #[] c (VCF W Γb below fr c) r
end abbrevs

section prefixes
variable {W : World} {Γb Λ : Gam} {nl : Nat} {below : Array Value} {fr : List Frame}

theorem GoalV6.prefix {fn ab : Bool} {lp : LoopCtx} {c c1 : Cfg} {endIp : Nat} {base : Array Value} {r : Res SVal} (n : Nat)
    (hpre : execN W.C n (c.vm W below fr) = some (c1.vm W below fr))
    (hk : Keep W c.μ c.st c.m.heap c1.μ c1.st c1.m.heap (fixedOf below base))
    (h : GoalV6 W Γb Λ nl below fr fn ab lp c1 endIp base r) : GoalV6 W Γb Λ nl below fr fn ab lp c endIp base r :=
  GoalG.prefix n hpre hk (fun _ _ ⟨mv, μ', m', hv, hre⟩ => ⟨mv, μ', m', hv, hre.prefix n hpre hk⟩) h

theorem GoalEs6.prefix {fn : Bool} {lp : LoopCtx} {c c1 : Cfg} {endIp : Nat} {base : Array Value} {r : Res (List SVal)} (n : Nat)
    (hpre : execN W.C n (c.vm W below fr) = some (c1.vm W below fr))
    (hk : Keep W c.μ c.st c.m.heap c1.μ c1.st c1.m.heap (fixedOf below base))
    (h : GoalEs6 W Γb Λ nl below fr fn lp c1 endIp base r) : GoalEs6 W Γb Λ nl below fr fn lp c endIp base r :=
  GoalG.prefix n hpre hk (fun _ _ ⟨ms, μ', m', hv, hre⟩ => ⟨ms, μ', m', hv, hre.prefix n hpre hk⟩) h

theorem GoalU6.prefix {Γb' Λ' : Gam} {fn ab : Bool} {lp : LoopCtx} {c c1 : Cfg} {endIp : Nat} {base : Array Value} {r : Res Unit} (n : Nat)
    (hpre : execN W.C n (c.vm W below fr) = some (c1.vm W below fr))
    (hk : Keep W c.μ c.st c.m.heap c1.μ c1.st c1.m.heap (fixedOf below base))
    (h : GoalU6 W Γb Λ nl below fr Γb' Λ' fn ab lp c1 endIp base r) : GoalU6 W Γb Λ nl below fr Γb' Λ' fn ab lp c endIp base r :=
  GoalG.prefix n hpre hk (fun _ _ ⟨μ', m', hre⟩ => ⟨μ', m', hre.prefix n hpre hk⟩) h

theorem GoalF6.prefix {c c1 : Cfg} {r : Res SVal} (n : Nat)
    (hpre : execN W.C n (c.vm W below fr) = some (c1.vm W below fr))
    (hk : Keep W c.μ c.st c.m.heap c1.μ c1.st c1.m.heap (fixedOf below #[]))
    (h : GoalF6 W Γb Λ nl below fr c1 r) : GoalF6 W Γb Λ nl below fr c r :=
  GoalG.prefix n hpre hk (fun _ _ hre => Returns6.prefix n hpre hk hre) h

/-- a step after the value that touches nothing but the instruction pointer (the `Jump` closing a branch) -/
theorem GoalV6.then_val {fn ab : Bool} {lp : LoopCtx} {c : Cfg} {e1 e2 : Nat} {base : Array Value} {r : Res SVal}
    (h : GoalV6 W Γb Λ nl below fr fn ab lp c e1 base r)
    (hs : ∀ mv locs' g' l' m' out', step W.C (mk6 W.s0 e1 below locs' (base.push mv) g' l' fr m' out') =
      .next (mk6 W.s0 e2 below locs' (base.push mv) g' l' fr m' out')) :
    GoalV6 W Γb Λ nl below fr fn ab lp c e2 base r :=
  GoalG.mono_vc (fun _ _ ⟨mv, μ', m', hv, hre⟩ => ⟨mv, μ', m', hv, hre.then (fun locs' g' l' out' => hs mv locs' g' l' m' out')⟩) h

end prefixes

section statements
variable (W : World)

def PE6 (f : Nat) : Prop := ∀ (nl : Nat) (fn : Bool) (Γ Γx Λ : Gam) (ab : Bool) (e : RExpr), ZE nl fn Γ Λ ab e →
  ∀ (c : Cfg) (lp : LoopCtx) (cs : List Const) (below : Array Value) (fr : List Frame),
  Sc6 W fn Γ Γx Λ → Inv6 W (bigScope fn Γ Γx) Λ nl c → TI.WT (c.vm W below fr) →
  CodeAt W.C c.ip (emitE e c.ip lp cs).1 → Ext (emitE e c.ip lp cs).2 W.CS →
  GoalV6 W (bigScope fn Γ Γx) Λ nl below fr fn ab lp c (c.ip + sizeE e) c.ops (evalE f e c.st)

def PEs6 (f : Nat) : Prop := ∀ (nl : Nat) (fn : Bool) (Γ Γx Λ : Gam) (es : RExprs), ZEs nl fn Γ Λ es →
  ∀ (c : Cfg) (lp : LoopCtx) (cs : List Const) (below : Array Value) (fr : List Frame),
  Sc6 W fn Γ Γx Λ → Inv6 W (bigScope fn Γ Γx) Λ nl c → TI.WT (c.vm W below fr) →
  CodeAt W.C c.ip (emitEs es c.ip lp cs).1 → Ext (emitEs es c.ip lp cs).2 W.CS →
  GoalEs6 W (bigScope fn Γ Γx) Λ nl below fr fn lp c (c.ip + sizeEs es) c.ops (evalEs f es c.st)

def PBV6 (f : Nat) : Prop := ∀ (nl : Nat) (fn : Bool) (Γ Γx Λ : Gam) (ab : Bool) (b : RBlock) (Γ1 Λ1 : Gam), ZB nl fn Γ Λ ab b Γ1 Λ1 →
  ∀ (c : Cfg) (lp : LoopCtx) (cs : List Const) (below : Array Value) (fr : List Frame),
  Sc6 W fn Γ Γx Λ → Inv6 W (bigScope fn Γ Γx) Λ nl c → TI.WT (c.vm W below fr) →
  CodeAt W.C c.ip (asValue b (emitB b c.ip lp cs).1) → Ext (emitB b c.ip lp cs).2 W.CS →
  GoalV6 W (bigScope fn Γ Γx) Λ nl below fr fn ab lp c (c.ip + sizeBV b) c.ops (evalBV f b c.st)

def PS6 (f : Nat) : Prop := ∀ (nl : Nat) (fn : Bool) (Γ Γx Λ : Gam) (ab : Bool) (s : RStmt) (Γ1 Λ1 : Gam), ZS nl fn Γ Λ ab s Γ1 Λ1 →
  ∀ (c : Cfg) (lp : LoopCtx) (cs : List Const) (below : Array Value) (fr : List Frame),
  Sc6 W fn Γ Γx Λ → Inv6 W (bigScope fn Γ Γx) Λ nl c → TI.WT (c.vm W below fr) →
  CodeAt W.C c.ip (emitS s c.ip lp cs).1 → Ext (emitS s c.ip lp cs).2 W.CS →
  GoalU6 W (bigScope fn Γ Γx) Λ nl below fr (bigScope fn Γ1 Γx) Λ1 fn ab lp c (c.ip + sizeS s) c.ops (evalS f s c.st)

def PB6 (f : Nat) : Prop := ∀ (nl : Nat) (fn : Bool) (Γ Γx Λ : Gam) (ab : Bool) (b : RBlock) (Γ1 Λ1 : Gam), ZB nl fn Γ Λ ab b Γ1 Λ1 →
  ∀ (c : Cfg) (lp : LoopCtx) (cs : List Const) (below : Array Value) (fr : List Frame),
  Sc6 W fn Γ Γx Λ → Inv6 W (bigScope fn Γ Γx) Λ nl c → TI.WT (c.vm W below fr) →
  CodeAt W.C c.ip (emitB b c.ip lp cs).1 → Ext (emitB b c.ip lp cs).2 W.CS →
  GoalU6 W (bigScope fn Γ Γx) Λ nl below fr (bigScope fn Γ1 Γx) Λ1 fn ab lp c (c.ip + sizeB b) c.ops (evalB f b c.st)

/-- the loop: the configuration stands at the condition, the value of the last completed body evaluation on top
    of `base` -/
def PL6 (f : Nat) : Prop := ∀ (nl : Nat) (fn : Bool) (Γ Γx Λ : Gam) (ab : Bool) (cnd : RExpr) (b : RBlock) (Γ1 Λ1 : Gam),
  ZE nl fn Γ Λ false cnd → ZB nl fn Γ Λ true b Γ1 Λ1 →
  ∀ (c : Cfg) (pos : Nat) (lp : LoopCtx) (cs : List Const) (below : Array Value) (fr : List Frame) (base : Array Value)
    (acc : SVal) (accv : Value), c.ip = pos + 1 → c.ops = base.push accv → VR6 W c.μ c.st c.m.heap acc accv →
  Sc6 W fn Γ Γx Λ → Inv6 W (bigScope fn Γ Γx) Λ nl c → TI.WT (c.vm W below fr) →
  CodeAt W.C pos (emitE (.whileE cnd b) pos lp cs).1 → Ext (emitE (.whileE cnd b) pos lp cs).2 W.CS →
  GoalV6 W (bigScope fn Γ Γx) Λ nl below fr fn ab lp c (pos + sizeE (.whileE cnd b)) base (evalLoop f cnd b acc c.st)

def PBF6 (f : Nat) : Prop := ∀ (nl : Nat) (Γ Γx Λ : Gam) (b : RBlock) (Γ1 Λ1 : Gam), ZB nl true Γ Λ false b Γ1 Λ1 →
  ∀ (c : Cfg) (cs : List Const) (below : Array Value) (fr : List Frame), c.ops = #[] →
  Sc6 W true Γ Γx Λ → Inv6 W Γx Λ nl c → TI.WT (c.vm W below fr) →
  CodeAt W.C c.ip (asFnBody b (emitB b c.ip none cs).1) → Ext (emitB b c.ip none cs).2 W.CS →
  GoalF6 W Γx Λ nl below fr c (evalBV f b c.st)

structure PAll6 (f : Nat) : Prop where
  e : PE6 W f
  es : PEs6 W f
  bv : PBV6 W f
  s : PS6 W f
  b : PB6 W f
  l : PL6 W f
  bf : PBF6 W f
end statements

/-! ### the semantics, in sequencing form -/

def specNot (v : SVal) (st1 : SState) : Res SVal :=
  match v with
  | .bool b => .val (.bool (!b)) st1
  | _ => .err .type st1

def specNeg (v : SVal) (st1 : SState) : Res SVal :=
  match v with
  | .int i => if inRange (-i) then .val (.int (-i)) st1 else .err .type st1
  | .float x => .val (.float (F64.neg x)) st1
  | _ => .err .type st1

def specBin (op : BinOp) (a b : SVal) (st2 : SState) : Res SVal :=
  match binopCore op (st2.view a) (st2.view b) with
  | .ok p => .val (st2.box a p).1 (st2.box a p).2
  | .error e => .err e st2

theorem evalE_not (f : Nat) (e : RExpr) (st : SState) : evalE (f + 1) (.not e) st = bindR (evalE f e st) specNot := by
  simp only [evalE]
  cases evalE f e st with
  | val v st1 => cases v <;> rfl
  | _ => rfl

theorem evalE_neg (f : Nat) (e : RExpr) (st : SState) : evalE (f + 1) (.neg e) st = bindR (evalE f e st) specNeg := by
  simp only [evalE]
  cases evalE f e st with
  | val v st1 => cases v <;> rfl
  | _ => rfl

theorem evalE_assign (f : Nat) (r : Ref) (e : RExpr) (st : SState) :
    evalE (f + 1) (.assignVar r e) st = bindR (evalE f e st) (fun v st1 => .val v (st1.bind r v)) := by
  simp only [evalE]
  cases evalE f e st <;> rfl

theorem evalE_infix (f : Nat) (l : RExpr) (op : BinOp) (r : RExpr) (st : SState) :
    evalE (f + 1) (.infix l op r) st = bindR (evalE f l st) (fun a st1 => bindR (evalE f r st1) (fun b st2 => specBin op a b st2)) := by
  simp only [evalE]
  cases evalE f l st with
  | val a st1 =>
    simp only [bindR]
    cases evalE f r st1 with
    | val b st2 =>
      simp only [bindR, specBin]
      cases binopCore op (st2.view a) (st2.view b) <;> rfl
    | _ => rfl
  | _ => rfl

/-! ### expressions -/
section expr
variable {W : World} {nl : Nat} {fn : Bool} {Γ Γx Λ : Gam} {ab : Bool} {lp : LoopCtx} {cs : List Const}
  {below : Array Value} {fr : List Frame} {c : Cfg}

/-- one instruction pushes a related value and changes nothing else -/
theorem goalV_push {Γb : Gam} (hinv : Inv6 W Γb Λ nl c) {endIp : Nat} {v : SVal} {mv : Value} (hv : VR6 W c.μ c.st c.m.heap v mv)
    (hs : step W.C (c.vm W below fr) = .next (mk6 W.s0 endIp below c.locs (c.ops.push mv) c.g c.l fr c.m c.out)) :
    GoalV6 W Γb Λ nl below fr fn ab lp c endIp c.ops (.val v c.st) :=
  .inr ⟨mv, c.μ, c.m, hv, c.locs, c.g, c.l, c.out, 1, execN_one W.C _ _ hs, hinv.reip _ _, Keep.refl _ _ _ _ _⟩

theorem pe6_int (f : Nat) (v : Int) (hinv : Inv6 W (bigScope fn Γ Γx) Λ nl c)
    (hcode : CodeAt W.C c.ip (emitE (.int v) c.ip lp cs).1) (hext : Ext (emitE (.int v) c.ip lp cs).2 W.CS) :
    GoalV6 W (bigScope fn Γ Γx) Λ nl below fr fn ab lp c (c.ip + sizeE (.int v)) c.ops (evalE (f + 1) (.int v) c.st) := by
  simp only [evalE, emitE, sizeE] at hcode hext ⊢
  have hk := hinv.hi.pool.ints _ v (hext.get _ _ (addConst_int_index cs v))
  exact goalV_push hinv (v := .int v) (mv := .int v) rfl (step6_const hcode hk (by simp))

theorem pe6_bool (f : Nat) (b : Bool) (hinv : Inv6 W (bigScope fn Γ Γx) Λ nl c)
    (hcode : CodeAt W.C c.ip (emitE (.bool b) c.ip lp cs).1) :
    GoalV6 W (bigScope fn Γ Γx) Λ nl below fr fn ab lp c (c.ip + sizeE (.bool b)) c.ops (evalE (f + 1) (.bool b) c.st) := by
  simp only [evalE, emitE, sizeE] at hcode ⊢
  refine goalV_push hinv (v := .bool b) (mv := .bool b) rfl ?_
  cases b
  · exact step6_false hcode
  · exact step6_true hcode

theorem pe6_float (f : Nat) (x : UInt64) (hx : LitF x) (hinv : Inv6 W (bigScope fn Γ Γx) Λ nl c)
    (hcode : CodeAt W.C c.ip (emitE (.float x) c.ip lp cs).1) (hext : Ext (emitE (.float x) c.ip lp cs).2 W.CS) :
    GoalV6 W (bigScope fn Γ Γx) Λ nl below fr fn ab lp c (c.ip + sizeE (.float x)) c.ops (evalE (f + 1) (.float x) c.st) := by
  simp only [evalE, emitE, sizeE] at hcode hext ⊢
  have hcs : ∀ (k : Nat) (y : UInt64), cs[k]? = some (Const.float y) → LitF y := by
    intro k y hk
    exact hinv.hi.pool.lits k y (hext.get k _ ((addConst_ext cs (.float x)).get k _ hk))
  obtain ⟨a0, hk, ha0⟩ := hinv.hi.pool.floats _ x (hext.get _ _ (SimH.addConst_float_index cs x hx hcs))
  exact goalV_push hinv (v := .float x) (mv := .float a0) ha0 (step6_const hcode hk (by simp))

theorem pe6_str (f : Nat) (s : Text) (hinv : Inv6 W (bigScope fn Γ Γx) Λ nl c)
    (hcode : CodeAt W.C c.ip (emitE (.str s) c.ip lp cs).1) (hext : Ext (emitE (.str s) c.ip lp cs).2 W.CS) :
    GoalV6 W (bigScope fn Γ Γx) Λ nl below fr fn ab lp c (c.ip + sizeE (.str s)) c.ops (evalE (f + 1) (.str s) c.st) := by
  simp only [evalE, emitE, sizeE] at hcode hext ⊢
  obtain ⟨a0, hk, ha0, _⟩ := hinv.hi.pool.strs _ s (hext.get _ _ (SimH.addConst_str_index cs s))
  have hstr : c.m.heap.strAt a0 = s := by simp [Heap.strAt, ha0]
  obtain ⟨hi', hg, hv⟩ := hinv_alloc_str hinv.hi s
  have hstep := step6_const_str (s0 := W.s0) (below := below) (locs := c.locs) (ops := c.ops) (g := c.g) (l := c.l) (fr := fr) (m := c.m) (out := c.out) hcode hk
  rw [hstr] at hstep
  exact .inr ⟨_, _, _, hv, c.locs, c.g, c.l, c.out, 1, execN_one W.C _ _ hstep,
    hinv.move _ _ hg (sameEnv_alloc _ _).1 hinv.out hi', Keep.of_grow hg _⟩

theorem pe6_varG (f : Nat) (b k : Nat) (hm : (b, k) ∈ Γ) (hsc : Sc6 W fn Γ Γx Λ) (hinv : Inv6 W (bigScope fn Γ Γx) Λ nl c)
    (hcode : CodeAt W.C c.ip (emitE (.var ⟨b, .global k⟩) c.ip lp cs).1) :
    GoalV6 W (bigScope fn Γ Γx) Λ nl below fr fn ab lp c (c.ip + sizeE (.var ⟨b, .global k⟩)) c.ops (evalE (f + 1) (.var ⟨b, .global k⟩) c.st) := by
  simp only [evalE, emitE, getVar, sizeE] at hcode ⊢
  simp only [SState.lookup, isGlobalSlot, ↓reduceIte]
  cases hl : envGet c.st.genv b with
  | none => exact .inr trivial
  | some v =>
    obtain ⟨mv, hmv, hg⟩ := hinv.relG b k (hsc.sub _ hm) v hl
    refine goalV_push hinv hmv ?_
    rw [← hg]
    exact step6_getGlobal hcode

theorem pe6_varL (f : Nat) (b k : Nat) (hm : (b, k) ∈ Λ) (hinv : Inv6 W (bigScope fn Γ Γx) Λ nl c)
    (hcode : CodeAt W.C c.ip (emitE (.var ⟨b, .loc k⟩) c.ip lp cs).1) :
    GoalV6 W (bigScope fn Γ Γx) Λ nl below fr fn ab lp c (c.ip + sizeE (.var ⟨b, .loc k⟩)) c.ops (evalE (f + 1) (.var ⟨b, .loc k⟩) c.st) := by
  simp only [evalE, emitE, getVar, sizeE] at hcode ⊢
  simp only [SState.lookup, isGlobalSlot, Bool.false_eq_true, ↓reduceIte]
  cases hl : envGet c.st.lenv b with
  | none => exact .inr trivial
  | some v =>
    obtain ⟨mv, hmv, hg⟩ := hinv.relL b k hm v hl
    exact goalV_push hinv hmv (step6_getLocal hcode hg)

theorem pe6_not (f : Nat) (ih : PE6 W f) (e1 : RExpr) (h1 : ZE nl fn Γ Λ ab e1) (hsc : Sc6 W fn Γ Γx Λ)
    (hinv : Inv6 W (bigScope fn Γ Γx) Λ nl c) (hwt : TI.WT (c.vm W below fr))
    (hcode : CodeAt W.C c.ip (emitE (.not e1) c.ip lp cs).1) (hext : Ext (emitE (.not e1) c.ip lp cs).2 W.CS) :
    GoalV6 W (bigScope fn Γ Γx) Λ nl below fr fn ab lp c (c.ip + sizeE (.not e1)) c.ops (evalE (f + 1) (.not e1) c.st) := by
  simp only [emitE] at hcode hext
  obtain ⟨hc1, hc2⟩ := hcode.append
  rw [emitE_size] at hc2
  rw [evalE_not]
  simp only [sizeE]
  refine GoalG.bind (ih nl fn Γ Γx Λ ab e1 h1 c lp cs below fr hsc hinv hwt hc1 hext) (.inr ⟨rfl, rfl⟩) ?_
  rintro v st1 - ⟨mv, μ1, m1, hmv, locs1, g1, l1, out1, n, hn, hinv1, hk1⟩
  have herr : (∀ b, mv ≠ .bool b) → Fails6 W.C (c.vm W below fr) .type st1.out := by
    intro hnb
    obtain ⟨s2, hs2, ho2⟩ := step6_not_err (s0 := W.s0) (below := below) (locs := locs1) (ops := c.ops) (g := g1) (l := l1) (fr := fr) (m := m1)
      (out := out1) hc2 hnb
    exact ⟨n, _, s2, hn, hs2, by rw [ho2]; exact hinv1.out.symm⟩
  cases v with
  | bool bb =>
    rw [VR6.bool_iff] at hmv; subst hmv
    refine .inr ⟨.bool (!bb), μ1, m1, rfl, locs1, g1, l1, out1, n + 1, ?_, hinv1.reip _ _, hk1⟩
    rw [execN_step W.C n _ _ _ hn (step6_not hc2), Nat.add_assoc]
  | _ => exact .inr (herr (fun b e => by subst e; simp only [VR6] at hmv))

theorem pe6_neg (f : Nat) (ih : PE6 W f) (e1 : RExpr) (h1 : ZE nl fn Γ Λ ab e1) (hsc : Sc6 W fn Γ Γx Λ)
    (hinv : Inv6 W (bigScope fn Γ Γx) Λ nl c) (hwt : TI.WT (c.vm W below fr))
    (hcode : CodeAt W.C c.ip (emitE (.neg e1) c.ip lp cs).1) (hext : Ext (emitE (.neg e1) c.ip lp cs).2 W.CS) :
    GoalV6 W (bigScope fn Γ Γx) Λ nl below fr fn ab lp c (c.ip + sizeE (.neg e1)) c.ops (evalE (f + 1) (.neg e1) c.st) := by
  simp only [emitE] at hcode hext
  obtain ⟨hc1, hc2⟩ := hcode.append
  rw [emitE_size] at hc2
  rw [evalE_neg]
  simp only [sizeE]
  refine GoalG.bind (ih nl fn Γ Γx Λ ab e1 h1 c lp cs below fr hsc hinv hwt hc1 hext) (.inr ⟨rfl, rfl⟩) ?_
  rintro v st1 - ⟨mv, μ1, m1, hmv, locs1, g1, l1, out1, n, hn, hinv1, hk1⟩
  have herr : (∀ j, mv ≠ .int j) → (∀ a, mv ≠ .float a) → Fails6 W.C (c.vm W below fr) .type st1.out := by
    intro hni hnf
    obtain ⟨s2, hs2, ho2⟩ := step6_neg_err (s0 := W.s0) (below := below) (locs := locs1) (ops := c.ops) (g := g1) (l := l1) (fr := fr) (m := m1)
      (out := out1) hc2 hni hnf
    exact ⟨n, _, s2, hn, hs2, by rw [ho2]; exact hinv1.out.symm⟩
  cases v with
  | int j =>
    rw [VR6.int_iff] at hmv; subst hmv
    by_cases hin : inRange (-j) = true
    · simp only [specNeg, hin, ↓reduceIte]
      refine .inr ⟨.int (-j), μ1, m1, rfl, locs1, g1, l1, out1, n + 1, ?_, hinv1.reip _ _, hk1⟩
      rw [execN_step W.C n _ _ _ hn (step6_neg_int hc2 hin), Nat.add_assoc]
    · simp only [specNeg, hin, Bool.false_eq_true, ↓reduceIte]
      obtain ⟨s2, hs2, ho2⟩ := step6_neg_int_err (s0 := W.s0) (below := below) (locs := locs1) (ops := c.ops) (g := g1) (l := l1) (fr := fr)
        (m := m1) (out := out1) hc2 hin
      exact .inr ⟨n, _, s2, hn, hs2, by rw [ho2]; exact hinv1.out.symm⟩
  | float x =>
    cases mv <;> simp only [VR6] at hmv
    rename_i a'
    obtain ⟨hi2, hg2, hv2⟩ := hinv_alloc_float hinv1.hi (F64.neg x)
    have hfa : m1.heap.floatAt a' = x := by simp [Heap.floatAt, hmv]
    have hstep := step6_neg_float (s0 := W.s0) (below := below) (locs := locs1) (ops := c.ops) (g := g1) (l := l1) (fr := fr) (m := m1)
      (out := out1) (a := a') hc2
    rw [hfa] at hstep
    refine .inr ⟨_, μ1, _, hv2, locs1, g1, l1, out1, n + 1, ?_, hinv1.move _ _ hg2 (SameEnv.refl _) hinv1.out hi2,
      hk1.trans (Keep.of_grow hg2 _)⟩
    rw [execN_step W.C n _ _ _ hn hstep, Nat.add_assoc]
  | _ => exact .inr (herr (fun b e => by subst e; simp only [VR6] at hmv) (fun b e => by subst e; simp only [VR6] at hmv))

end expr
end Sim6
end Nl
