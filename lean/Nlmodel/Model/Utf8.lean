/-
  A byte-level (UTF-8) model of the string operations of the interpreter.

  Everywhere else in the model a text is a `List Char` (`Text`), so "indexed, measured and modified
  by character, not byte" holds by construction.  The Rust implementation works on UTF-8 byte
  strings:

    index_get_string:  strlen = s.chars().count(); if index<0 {index+=strlen};
                       index = index as usize; if index>=strlen {IndexError};
                       ch = s.chars().nth(index).unwrap(); new string of that one char
    index_set_string:  same bounds logic; string.replace_range(
                         string.char_indices().nth(index).map(|(pos,ch)| pos..pos+ch.len_utf8()).unwrap(),
                         &replacement)
    lengte(text)     = text.chars().count()
    `==` / `<`       = bytewise equality / bytewise lexicographic order of the UTF-8 bytes

  This file writes these byte-level operations down (on `List UInt8`); Proofs/Lemmas/Utf8*.lean
  prove that on `encode cs` they compute exactly the character-level operations of the model.
  The encoder is written arithmetically (`0xC0 + n / 64`, `0x80 + n % 64`, ...); it is proved equal
  to core's `String.utf8EncodeChar` in Proofs/Lemmas/Utf8Enc.lean.
-/
import Nlmodel.Model.Value
namespace Nl
namespace Utf8

/-- UTF-8 encoding of one code point, from the definition: 1-4 bytes by code-point range -/
def encodeChar (c : Char) : List UInt8 :=
  let n := c.toNat
  if n < 0x80 then [UInt8.ofNat n]
  else if n < 0x800 then [UInt8.ofNat (0xC0 + n / 64), UInt8.ofNat (0x80 + n % 64)]
  else if n < 0x10000 then
    [UInt8.ofNat (0xE0 + n / 4096), UInt8.ofNat (0x80 + n / 64 % 64), UInt8.ofNat (0x80 + n % 64)]
  else
    [UInt8.ofNat (0xF0 + n / 262144), UInt8.ofNat (0x80 + n / 4096 % 64),
     UInt8.ofNat (0x80 + n / 64 % 64), UInt8.ofNat (0x80 + n % 64)]

/-- UTF-8 encoding of a text -/
def encode : List Char → List UInt8
  | [] => []
  | c :: cs => encodeChar c ++ encode cs

/-- continuation byte `10xxxxxx` -/
def isCont (b : UInt8) : Bool := b &&& 0xC0 == 0x80

/-- number of non-continuation bytes: what Rust's `chars().count()` computes -/
def countChars : List UInt8 → Nat
  | [] => 0
  | b :: bs => (if isCont b then 0 else 1) + countChars bs

/-- width of a character from its lead byte (`utf8_char_width` on the lead bytes of valid UTF-8) -/
def charWidth (lead : UInt8) : Nat :=
  if lead.toNat < 0x80 then 1
  else if lead.toNat < 0xE0 then 2
  else if lead.toNat < 0xF0 then 3
  else 4

/-- `char_indices().nth(i)` + `len_utf8`: byte offset and width of the `i`-th character, found by
    reading a lead byte and skipping the width it announces, `i` times.  `off` is the offset of
    the first byte of `bs` in the whole string. -/
def nthSpanFrom (off : Nat) (bs : List UInt8) : Nat → Option (Nat × Nat)
  | 0 =>
    match bs with
    | [] => none
    | b :: _ => some (off, charWidth b)
  | i + 1 =>
    match bs with
    | [] => none
    | b :: _ => nthSpanFrom (off + charWidth b) (bs.drop (charWidth b)) i

def nthSpan (bs : List UInt8) (i : Nat) : Option (Nat × Nat) := nthSpanFrom 0 bs i

/-- a code point from its number, rejecting surrogates and numbers above 0x10FFFF -/
def mkChar (n : Nat) : Option Char :=
  if n.isValidChar then some (Char.ofNat n) else none

/-- payload of a continuation byte -/
def contBits (b : UInt8) : Nat := b.toNat - 0x80

/-- strict decoder of the first character of a byte string: the character and its width.
    Rejects stray continuation bytes, truncated sequences, overlong forms, surrogates and
    code points above 0x10FFFF. -/
def decodeFirst : List UInt8 → Option (Char × Nat)
  | [] => none
  | b0 :: r =>
    let n0 := b0.toNat
    if n0 < 0x80 then (mkChar n0).map (·, 1)
    else if n0 < 0xC0 then none
    else if n0 < 0xE0 then
      match r with
      | b1 :: _ =>
        if isCont b1 then
          let n := (n0 - 0xC0) * 64 + contBits b1
          if 0x80 ≤ n then (mkChar n).map (·, 2) else none
        else none
      | _ => none
    else if n0 < 0xF0 then
      match r with
      | b1 :: b2 :: _ =>
        if isCont b1 && isCont b2 then
          let n := (n0 - 0xE0) * 4096 + contBits b1 * 64 + contBits b2
          if 0x800 ≤ n then (mkChar n).map (·, 3) else none
        else none
      | _ => none
    else if n0 < 0xF8 then
      match r with
      | b1 :: b2 :: b3 :: _ =>
        if isCont b1 && isCont b2 && isCont b3 then
          let n := (n0 - 0xF0) * 262144 + contBits b1 * 4096 + contBits b2 * 64 + contBits b3
          if 0x10000 ≤ n then (mkChar n).map (·, 4) else none
        else none
      | _ => none
    else none

/-- the character that starts at byte offset `off` -/
def decodeAt (bs : List UInt8) (off : Nat) : Option Char :=
  (decodeFirst (bs.drop off)).map (·.1)

/-- strict decoder of a whole byte string (`fuel` = an upper bound on the number of characters) -/
def decodeFuel : Nat → List UInt8 → Option (List Char)
  | _, [] => some []
  | 0, _ :: _ => none
  | f + 1, b :: bs =>
    match decodeFirst (b :: bs) with
    | some (c, w) => (decodeFuel f ((b :: bs).drop w)).map (c :: ·)
    | none => none

/-- `str::from_utf8`: the text of a byte string, `none` when it is not well-formed UTF-8 -/
def decode (bs : List UInt8) : Option (List Char) := decodeFuel bs.length bs

/-- `String::replace_range(pos..pos+len, repl)` -/
def byteReplace (bs : List UInt8) (pos len : Nat) (repl : List UInt8) : List UInt8 :=
  bs.take pos ++ repl ++ bs.drop (pos + len)

/-- the bounds logic shared by `index_get_string` and `index_set_string`:
    `if index < 0 { index += strlen }; let index = index as usize; if index >= strlen { IndexError }`.
    The cast of a still-negative `isize` gives a value ≥ 2^63, which is ≥ `strlen` for every
    string (a Rust string has at most `isize::MAX` bytes), so that case is the index error. -/
def byteNormIndex (strlen : Nat) (index : Int) : Except Err Nat :=
  let index := if index < 0 then index + strlen else index
  if index < 0 then .error .index
  else if index ≥ strlen then .error .index
  else .ok index.toNat

/-- `index_get_string` on bytes: the bytes of the `index`-th character -/
def byteIndexGet (bs : List UInt8) (index : Int) : Except Err (List UInt8) :=
  match byteNormIndex (countChars bs) index with
  | .error e => .error e
  | .ok k =>
    -- `s.chars().nth(k).unwrap()` then `ch.to_string()`
    match nthSpan bs k with
    | some (pos, _) =>
      match decodeAt bs pos with
      | some ch => .ok (encodeChar ch)
      | none => .error .fuel      -- `unwrap` on malformed input: not reachable for `encode cs`
    | none => .error .fuel

/-- `index_set_string` on bytes: the new contents of the target string -/
def byteIndexSet (bs : List UInt8) (index : Int) (repl : List UInt8) : Except Err (List UInt8) :=
  match byteNormIndex (countChars bs) index with
  | .error e => .error e
  | .ok k =>
    match nthSpan bs k with
    | some (pos, w) => .ok (byteReplace bs pos w repl)
    | none => .error .fuel        -- `unwrap`: not reachable for `encode cs`

/-- `index_set_string` including its argument check: the value to insert is a string
    (`some repl`) or something else (`none`, a type error — reported after the index error) -/
def byteIndexSetV (bs : List UInt8) (index : Int) (value : Option (List UInt8)) :
    Except Err (List UInt8) :=
  match byteNormIndex (countChars bs) index with
  | .error e => .error e
  | .ok _ =>
    match value with
    | some repl => byteIndexSet bs index repl
    | none => .error .type

/-- bytewise lexicographic order (`<` on `str`, i.e. on `[u8]`) -/
def byteLt : List UInt8 → List UInt8 → Bool
  | [], [] => false
  | [], _ :: _ => true
  | _ :: _, [] => false
  | a :: as, b :: bs => if a < b then true else if b < a then false else byteLt as bs

/-- bytewise equality (`==` on `str`) -/
def byteEq : List UInt8 → List UInt8 → Bool
  | [], [] => true
  | a :: as, b :: bs => a == b && byteEq as bs
  | _, _ => false

end Utf8
end Nl
