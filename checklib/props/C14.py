"""C14 — builtins are total and behave as documented."""
import itertools

from .. import core, diff, lattice
from ..core import hx

PROOF_MODULE = "Nlmodel.Proofs.C14"
PROOF_FILES = ["Nlmodel/Proofs/C14.lean", "Nlmodel/Model/Value.lean", "Nlmodel/Model/Float.lean"]
THEOREM_FILE = PROOF_FILES[0]
LEVEL_TEXT = ("Lean theorems about the builtins of the model (builtinCore, callBuiltin, formatPrint, shared by the machine model and the definitional semantics): a wrong argument count to anything but print is an argument error; the only error kinds are argument and type; conversion to the own type is the identity; the bool table; int(string(i)) = i for EVERY integer (decimal printer and parser are written out in the model and proved inverse); print replaces the first placeholder of the ORIGINAL format text by the first argument and continues with the remaining ones; without arguments the text is unchanged. The model implements shortest-round-trip printing and correctly rounded parsing as exact rational arithmetic (the round trip is proved: see below), and both are compared with Rust std on every float of the run. The builtins are tied to builtins.rs by the complete cross product value shapes x builtins x arities 0-3 and print with 0-4 arguments x 0-4 placeholders x literal braces. EVERY BUILTIN ON THE MACHINE AS IN THE SEMANTICS (C14_builtin_agrees; C01 stage 5): related argument lists (any arity, any value kinds, nested and cyclic arrays) give related results, the same printed line, the same error kind. SESSION 7: lengte computed on the UTF-8 bytes as builtins.rs does (count of non-continuation bytes) is the number of characters for every text (C14_lengte_counts_characters_on_bytes).")
LEVEL_NOTE = ("number -> text -> number for EVERY float is a theorem about the model's exact algorithms (C14_float_text_roundtrip: parseDec (toDecimal x) = x for every finite value, both zeros, both infinities; NaN reads back as NaN; C14_float_of_string_of_float through the builtins; 17 significant digits always suffice); that Rust std's f64 Display/FromStr compute the same texts and values is validated on the run's floats by the correspondence, not proved; str::trim's White_Space set is mirrored and compared exhaustively through the unicode table dump.")
TECHNIQUE = "Lean 4 proof (builtin semantics, decimal round trip, print formatting) + complete shape x builtin x arity correspondence"
RULE = ("complete cross product of ~70 value shapes x 7 builtins, arities 0-3 for every builtin, print with 0-4 arguments x format "
        "strings with 0-4 placeholders and literal braces, number->text->number on lattice integers and random floats; "
        "non-trivial = distinct program compared on all three sides")
EXHAUSTIVE = True

BUILTINS = ["print", "type", "bool", "int", "float", "string", "lengte"]


def shapes(rng, tier):
    s = ["als nee { 1 }", "ja", "nee", "0", "1", "(0 - 1)", "42", str(lattice.MAXI), "(0 - %d - 1)" % lattice.MAXI,
         "0.0", "(0.0 - 0.0)", "-0.0", "1.5", "(0.0 - 2.9)", "2.9", "0.1", "1.0 / 0.0", "-1.0 / 0.0", "0.0 / 0.0", "1152921504606846976.0",
         "1152921504606846975.0", "-1152921504606846976.0", "-1152921504606846977.0", "9223372036854775808.0", "123456789.125", "0.000001",
         "100000000000000000000.0", "0.30000000000000004", "5e-324" if False else "0.0000000000000000000000000000001",
         '""', '"a"', '"15"', '" 15 "', '"-15"', '"+15"', '"1_5"', '"15x"', '"3.1415"', '" 3.5\\n"', '"1e3"', '"1E-2"', '".5"', '"5."', '"inf"', '"-Infinity"',
         '"NaN"', '"nan"', '"0x10"', '"1152921504606846975"', '"1152921504606846976"', '"-1152921504606846976"', '"-1152921504606846977"',
         '"9223372036854775808"', '"99999999999999999999"', '"é"', '"١٢"', '"\\t7\\n"', '" 7　"', '"- 5"', '"--5"', '"ja"', '"{}"',
         "[]", "[1]", "[[], [1, [2]]]", '["a", 1.5, ja]', "functie() { 1 }", "functie(a, b) { a }"]
    for _ in range(20 if tier == "quick" else 300):
        s.append(str(abs(lattice.rand_int61(rng))))
        s.append("%d.%d" % (rng.below(10 ** rng.range(1, 15)), rng.below(10 ** rng.range(1, 12))))
        s.append('"%d.%d"' % (rng.below(10 ** rng.range(1, 18)), rng.below(10 ** rng.range(0, 18))))
    return s


def text_arguments(rng, tier):
    """every builtin on texts of every length 0..72 with a multi-byte character at every byte offset (a text that is echoed,
    measured, trimmed or parsed must be handled per character, whatever its length), and on random long texts"""
    out = []
    wide = ["é", "日", "😀", "\u0085", "　"]
    for b in BUILTINS:
        for k in (list(range(0, 36)) if tier == "quick" else list(range(0, 73))) + [63, 64, 127, 128, 255, 256, 1023]:
            w = wide[k % len(wide)]
            out.append('%s("%s%s%s")' % (b, "x" * k, w, "yz"))
            if k % 3 == 0:
                out.append('%s("%s%s%s")' % (b, "1" * k, w, "5"))
                out.append('%s("%s%s")' % (b, " " * k, w * 3))
    alpha = ["a", "Z", "0", "1", "9", ".", "-", "+", "e", " ", "_", "é", "ë", "日", "😀", "€", "\u0085", " ", "٣", "{", "}"]
    for _ in range(200 if tier == "quick" else 5000):
        t = "".join(rng.pick(alpha) for _ in range(rng.pick([1, 5, 19, 20, 21, 22, 30, 40, 64, 100])))
        out.append('%s("%s")' % (rng.pick(BUILTINS), t))
    return out


def run(res, tier, rng, table_diffs=()):
    sh = shapes(rng, tier)
    progs = []
    expect = {}
    for b in BUILTINS:
        progs.append("%s()" % b)
        for v in sh:
            progs.append("%s(%s)" % (b, v))
        for v, w in itertools.product(sh[:12], sh[:6]):
            progs.append("%s(%s, %s)" % (b, v, w))
        progs.append("%s(1, 2, 3)" % b)
        if b != "print":
            expect["%s()" % b] = "err Argument"
            expect["%s(1, 2, 3)" % b] = "err Argument"
    # own-type identity, documented examples
    docs = {"bool(1)": "ok b:ja", 'int("15")': "ok i:15", 'string(1)': "ok s:" + hx("1"), 'float("3.1415")': "ok f:400921cac083126f",
            "int(2.9)": "ok i:2", "int(0.0 - 2.9)": "ok i:-2", 'bool("")': "ok b:nee", 'bool("x")': "ok b:ja", "bool(0)": "ok b:nee",
            "bool(0 - 3)": "ok b:nee", "int(1.0 / 0.0)": "err Argument", "int(0.0 / 0.0)": "err Argument",
            'int("1152921504606846976")': "err Argument", "lengte(\"héé\")": "ok i:3", "type(1.5)": "ok s:" + hx("float"),
            "string(string(5))": "ok s:" + hx("5"), "int(int(5))": "ok i:5", "float(float(1.5))": "ok f:3ff8000000000000", "bool(bool(ja))": "ok b:ja"}
    progs += list(docs)
    from .. import gen2
    progs += gen2.inplace_then_builtin_programs()
    progs += gen2.shrinking_text_programs()[::3]
    progs += gen2.fresh_result_programs()
    expect.update(docs)
    # print formats
    fmts = ["", "{}", "{} {}", "a{}b{}c", "{}{}{}{}", "{", "}", "{ }", "}{", "{{}}", "{}}", "{{}", "100% {} é{}日"]
    argsets = [[], ['"x"'], ['"{}"', '"y"'], ["1", "2.5", "ja"], ['"a"', "[1, \"b\"]", "als nee { 1 }", "functie() { 1 }"]]
    for f in fmts:
        for a in argsets:
            progs.append("print(%s)" % ", ".join(['"%s"' % f] + a))
    progs += ['stel b = [1, 2]; print("{} en {}", [b, b], b)', 'stel b = [1, 2]; print([b, [b], "x"])', 'stel b = [1]; stel c = [b, b]; print([c, c, b]); string([c, b])',
              'stel b = [1, 2]; stel a = [b, b]; a[0] = a; print(a); print(b); print([b, b])', 'stel b = []; print([b, b, [b, [b]]])', 'stel s = "x"; print([s, s, [s]])',
              'stel b = [1.5]; [string([b, b]), string([[b], b])]']
    progs += ["print()", "print(1)", "print([1, [2, \"x\"]], 2)", "stel a = [1]; a[0] = a; print(a); print(\"{}\", a)",
              "print(1.0 / 0.0, 0.0 - 0.0, 0.1 + 0.2, 100000000000000000000000.0, 0.000001)"]
    # number -> text -> number
    for v in lattice.int_lattice(lattice.QUICK_KS if tier == "quick" else lattice.ALL_KS):
        lit = str(v) if v >= 0 else ("(0 - %d)" % -v if -v <= lattice.MAXI else "(0 - %d - 1)" % lattice.MAXI)
        p = "int(string(%s)) == %s" % (lit, lit)
        progs.append(p)
        expect[p] = "ok b:ja"
    for _ in range(300 if tier == "quick" else 6000):
        bits = rng.next() & 0x7FFFFFFFFFFFFFFF
        if (bits >> 52) == 0x7FF:
            continue
        import struct
        x = struct.unpack("<d", struct.pack("<Q", bits))[0]
        p = 'stel f = float("%r"); [float(string(f)) == f, string(f)]' % x
        progs.append(p)
    progs += text_arguments(rng, tier)
    rs = diff.eval_all(progs, budget=100000)
    reported = 0
    for src, r in zip(progs, rs):
        kind, detail = diff.classify(r)
        io = diff.obs(r["impl"]).split(" | ")[0]
        res.seen(src, nontrivial=(kind == "ok"))
        res.count(src.split("(")[0] if src.split("(")[0] in BUILTINS else "other")
        res.count("outcome:" + kind)
        exp = expect.get(src)
        wrong = exp is not None and io != exp
        if src.startswith("stel f = float") and io.startswith("ok") and not io.startswith("ok a:[b:ja"):
            wrong, exp = True, "float -> text -> float must give the same float"
        if (wrong or kind in ("spec-mismatch", "impl-bad", "model-mismatch")) and reported < 6:
            reported += 1
            res.violation("a builtin does not behave as documented" if (wrong or kind != "model-mismatch") else "builtin model differs from builtins.rs",
                          dict(kind="oracle" if wrong else kind, input=src, expected=exp, impl=r["impl"], spec=r["spec"], model=r["model"], detail=detail,
                               unchecked="correspondence Model/Value builtins vs builtins.rs"),
                          no_input=(not wrong and kind == "model-mismatch"))
    if table_diffs:
        res.violation("the model's tables differ from the code's (builtin table)", dict(kind="tables", diffs=list(table_diffs)[:10], unchecked="table correspondence"), no_input=True)


def replay(res, rp):
    r = diff.one(rp["input"], budget=100000)
    kind, detail = diff.classify(r)
    io = diff.obs(r["impl"]).split(" | ")[0]
    print("impl:", r["impl"][:300], "\nspec:", r["spec"][:300], "\nexpected:", rp.get("expected"))
    exp = rp.get("expected")
    if (exp and exp.startswith(("ok", "err")) and io != exp) or (kind != "ok" and not kind.startswith("excluded")):
        print("VIOLATION property=C14 replay=replay")
        return 1
    return 0
