/- NameEvalFn = Spec.eval on the resolver's output: the top level of a stage-4 program (plain statements and the two
   function-definition forms), given the statements `QAll` for every fuel. -/
import Nlmodel.Proofs.Lemmas.NameEvalFnSimDefs
namespace Nl
namespace NameEvalFn
open Spec SimF Sim
open NameEval (All2 findBid bids postS)

/-- what the outcome of a program looks at -/
abbrev OutRel : FRes Unit → Res Unit → Prop :=
  RelG (fun (_ _ : Unit) => True) (fun _ _ => True) (fun ρ σ => (∃ G, VRel G ρ.last σ.last) ∧ ρ.out = σ.out)
    (fun _ _ => True) (fun _ _ => True)

theorem all2_len' {α β : Type} {Rr : α → β → Prop} {l : List α} {l' : List β} (h : All2 Rr l l') : l.length = l'.length := by
  induction h with
  | nil => rfl
  | cons _ _ ih => simp [ih]

/-- a function definition at top level: the name `n` (binder `st.nextId`) is bound to corresponding function values -/
theorem R.defineFn {ρ : FState} {sc : List (Text × Nat)} {σ : SState} {F : Nat} {st : RState} (hinv : RInv false st [sc] [] F)
    (hrel : R false ρ [sc] [] [] σ F) (n : Text) (g : Scope) (hgl : ρ.globals = [g]) (v : NVal) (w : SVal) (hv : VRel ((n, st.nextId) :: sc) v w) :
    R false { ρ with globals := [(n, some v) :: g], nfun := F + 1 } [(n, st.nextId) :: sc] [] []
      { σ with genv := envSet σ.genv st.nextId w } (F + 1) := by
  obtain ⟨hgg, hl⟩ := hrel
  have hg' : RGl [sc] ρ σ F := hgg
  obtain ⟨hglob, hnd, _, hlast, hout, hnf⟩ := hg'
  rw [hgl] at hglob
  have hsuf : sc <:+ (n, st.nextId) :: sc := ⟨[(n, st.nextId)], rfl⟩
  have hfr := fresh_bids hinv
  cases hglob with
  | cons hd htl =>
    refine ⟨?_, hl⟩
    show RGl [(n, st.nextId) :: sc] _ _ (F + 1)
    refine ⟨.cons (.cons ⟨rfl, ?_⟩ ?_) .nil, nodup_define hinv hnd n, by simp, hlast.mono hsuf, hout, rfl⟩
    · show ORel _ (envGet (envSet σ.genv st.nextId w) st.nextId) (some v)
      rw [envGet_envSet_same]; exact hv
    · refine relSc_congr (relSc_mono hsuf hd) (fun q hq => envGet_envSet_other _ _ _ _ (hfr q.2 ?_))
      simp only [bids, List.flatten_cons, List.flatten_nil, List.append_nil, List.mem_map]
      exact ⟨q, hq, rfl⟩

theorem OutRel.ofS {fn : Bool} {scs gscs Tb : Scs} {N : Nat} {P : FState → SState → Prop} {r : FRes Unit} {r' : Res Unit}
    (h : RelG (fun (_ _ : Unit) => True) (VRel (topOf Tb)) P (In fn scs gscs Tb N) (Rt fn Tb N) r r')
    (hP : ∀ ρ σ, P ρ σ → (∃ G, VRel G ρ.last σ.last) ∧ ρ.out = σ.out) : OutRel r r' := by
  cases h with
  | val a b ρ σ hv h => exact .val a b ρ σ trivial (hP _ _ h)
  | brk ρ σ h => exact .brk ρ σ trivial
  | cont ρ σ h => exact .cont ρ σ trivial
  | ret v w ρ σ hv h => exact .ret v w ρ σ trivial trivial
  | err e ρ σ h => exact .err e ρ σ h
  | unspec ρ σ => exact .unspec ρ σ
  | fuel => exact .fuel

theorem top_sim (hq : ∀ f, QAll f) : ∀ (b : Block), SrcTop b → ∀ (fu : Nat) (sc : List (Text × Nat)) (st : RState) (F : Nat) (b' : RBlock)
    (st' : RState) (ρ : FState) (σ : SState), RInv false st [sc] [] F → resolveSs b st = .ok (b', st') → R false ρ [sc] [] [] σ F →
    OutRel (NameEvalFn.evalSs fu b ρ) (Spec.evalB fu b' σ) := by
  intro b hs
  induction hs with
  | nil =>
    intro fu sc st F b' st' ρ σ hinv h hrel
    simp only [resolveSs] at h; injection h with h; injection h with h1 h2; subst h1
    cases fu with
    | zero => simp only [NameEvalFn.evalSs, Spec.evalB]; exact .fuel
    | succ fu =>
      simp only [NameEvalFn.evalSs, Spec.evalB]
      exact .val _ _ _ _ trivial ⟨⟨_, hrel.g.last⟩, hrel.g.out⟩
  | stmt s rest hss hrest ih =>
    intro fu sc st F b' st' ρ σ hinv h hrel
    simp only [resolveSs] at h
    cases hr : resolveS s st with
    | error er => simp [hr] at h
    | ok p =>
      obtain ⟨s1, st1⟩ := p
      simp only [hr] at h
      cases hr2 : resolveSs rest st1 with
      | error er => simp [hr2] at h
      | ok p2 =>
        obtain ⟨b1, st2⟩ := p2
        simp only [hr2] at h
        injection h with h; injection h with h1 h2; subst h1
        cases fu with
        | zero => simp only [NameEvalFn.evalSs, Spec.evalB]; exact .fuel
        | succ fu =>
          have hi1 := rS_post false s false sc [] [] F st s1 st1 hss hinv hr
          have ihs := (hq fu).s s false false sc [] [] [] F F st s1 st1 ρ σ hss hinv hr hrel
          simp only [NameEvalFn.evalSs, Spec.evalB]
          rcases ihs.inv with ⟨a, b, ρ1, σ1, hn, hs, hv, hr1⟩ | ⟨ρ1, σ1, hn, hs, hr1⟩ | ⟨ρ1, σ1, hn, hs, hr1⟩ |
            ⟨v, w, ρ1, σ1, hn, hs, hv, hr1⟩ | ⟨er, ρ1, σ1, hn, hs, hr1⟩ | ⟨ρ1, σ1, hn, hs⟩ | ⟨hn, hs⟩
          · cases a; cases b
            simp only [hn, hs]
            exact ih fu _ st1 F b1 st2 ρ1 σ1 hi1 hr2 hr1
          · simp only [hn, hs]; exact .brk _ _ trivial
          · simp only [hn, hs]; exact .cont _ _ trivial
          · simp only [hn, hs]; exact .ret _ _ _ _ trivial trivial
          · simp only [hn, hs]; exact .err _ _ _ hr1
          · simp only [hn, hs]; exact .unspec _ _
          · simp only [hn, hs]; exact .fuel
  | named name ps body rest hname hsb hrest ih =>
    intro fu sc st F b' st' ρ σ hinv h hrel
    simp only [resolveSs] at h
    rw [resolveS_named name ps body st hname] at h
    obtain ⟨hinv1, _⟩ := rinv_define false st sc [] [] F hinv name
    have href := rinv_define_refF st sc [] [] F hinv name
    cases hb : resolveB body (defineParams (fnEnter (st.define name).1) ps).1 with
    | error er => simp [hb] at h
    | ok p =>
      obtain ⟨body1, st4⟩ := p
      simp only [hb] at h
      obtain ⟨_, _, _, hinv2⟩ := func_core (st.define name).1 ((name, st.nextId) :: sc) F hinv1 ps body hsb body1 st4 hb
      cases hr2 : resolveSs rest (fnExit st4 (st.define name).1) with
      | error er => simp [hr2] at h
      | ok q =>
        obtain ⟨b1, st2⟩ := q
        simp only [hr2] at h
        injection h with h; injection h with h1 h2; subst h1
        cases fu with
        | zero => simp only [NameEvalFn.evalSs, Spec.evalB]; exact .fuel
        | succ fu =>
          simp only [NameEvalFn.evalSs, Spec.evalB]
          cases fu with
          | zero => simp only [NameEvalFn.evalS, Spec.evalS]; exact .fuel
          | succ fu =>
            simp only [NameEvalFn.evalS, Spec.evalS]
            cases fu with
            | zero => simp only [NameEvalFn.evalE, Spec.evalE]; exact .fuel
            | succ fu =>
              have hvis : ρ.vis = none := hrel.l.1
              have hglob : RelS (topOf [sc]) σ.genv ρ.globals [sc] := hrel.g.glob
              obtain ⟨gl, lo, vi, la, ou, nf⟩ := ρ
              simp only at hvis hglob
              subst hvis
              cases hglob with
              | cons hd htl =>
                cases htl
                rename_i g
                have hnf : nf = F := hrel.g.nfun
                subst hnf
                have hlen : g.length = sc.length := all2_len' hd
                have hv : VRel ((name, st.nextId) :: sc) (.fn nf (g.length + 1) ps body)
                    (.fn (st.define name).1.nextFid (defineParams (fnEnter (st.define name).1) ps).2 (msOf st4) body1) := by
                  rw [hinv1.fid, hlen]
                  exact VRel.fn (st.define name).1 ((name, st.nextId) :: sc) nf ps body body1 st4 hinv1 hsb hb (List.suffix_refl _)
                have hR := R.defineFn hinv hrel name g rfl _ _ hv
                simp only [NameEvalFn.evalE, Spec.evalE, hname, Bool.false_eq_true, ↓reduceIte, href, bind_global]
                exact ih _ _ _ (nf + 1) b1 st2 _ _ hinv2 hr2 (hR.setLast _ _ hv)
  | letF fname ps body rest hsb hrest ih =>
    intro fu sc st F b' st' ρ σ hinv h hrel
    simp only [resolveSs] at h
    rw [resolveS_letF fname ps body st] at h
    obtain ⟨hinv1, _⟩ := rinv_define false st sc [] [] F hinv fname
    have href := rinv_define_refF st sc [] [] F hinv fname
    cases hb : resolveB body (defineParams (fnEnter (st.define fname).1) ps).1 with
    | error er => simp [hb] at h
    | ok p =>
      obtain ⟨body1, st4⟩ := p
      simp only [hb] at h
      obtain ⟨_, _, _, hinv2⟩ := func_core (st.define fname).1 ((fname, st.nextId) :: sc) F hinv1 ps body hsb body1 st4 hb
      cases hr2 : resolveSs rest (fnExit st4 (st.define fname).1) with
      | error er => simp [hr2] at h
      | ok q =>
        obtain ⟨b1, st2⟩ := q
        simp only [hr2] at h
        injection h with h; injection h with h1 h2; subst h1
        cases fu with
        | zero => simp only [NameEvalFn.evalSs, Spec.evalB]; exact .fuel
        | succ fu =>
          simp only [NameEvalFn.evalSs, Spec.evalB]
          cases fu with
          | zero => simp only [NameEvalFn.evalS, Spec.evalS]; exact .fuel
          | succ fu =>
            simp only [NameEvalFn.evalS, Spec.evalS]
            cases fu with
            | zero => simp only [NameEvalFn.evalE, Spec.evalE]; exact .fuel
            | succ fu =>
              have hvis : ρ.vis = none := hrel.l.1
              have hglob : RelS (topOf [sc]) σ.genv ρ.globals [sc] := hrel.g.glob
              obtain ⟨gl, lo, vi, la, ou, nf⟩ := ρ
              simp only at hvis hglob
              subst hvis
              cases hglob with
              | cons hd htl =>
                cases htl
                rename_i g
                have hnf : nf = F := hrel.g.nfun
                subst hnf
                have hlen : g.length = sc.length := all2_len' hd
                have hv : VRel ((fname, st.nextId) :: sc) (.fn nf (g.length + 1) ps body)
                    (.fn (st.define fname).1.nextFid (defineParams (fnEnter (st.define fname).1) ps).2 (msOf st4) body1) := by
                  rw [hinv1.fid, hlen]
                  exact VRel.fn (st.define fname).1 ((fname, st.nextId) :: sc) nf ps body body1 st4 hinv1 hsb hb (List.suffix_refl _)
                have hR := R.defineFn hinv hrel fname g rfl _ _ hv
                simp only [NameEvalFn.evalE, Spec.evalE, FState.declare, FState.cur, FState.setCur, List.isEmpty_nil, ↓reduceIte,
                  List.length_cons, FState.assign, update, updateScope, href, unbind_global, bind_global]
                have hset : envSet (envDel σ.genv st.nextId) st.nextId
                    (.fn (st.define fname).1.nextFid (defineParams (fnEnter (st.define fname).1) ps).2 (msOf st4) body1) =
                    envSet σ.genv st.nextId
                    (.fn (st.define fname).1.nextFid (defineParams (fnEnter (st.define fname).1) ps).2 (msOf st4) body1) := by
                  simp [envSet, envDel, List.filter_filter]
                rw [hset]
                exact ih _ _ _ (nf + 1) b1 st2 _ _ hinv2 hr2 hR

end NameEvalFn
end Nl
