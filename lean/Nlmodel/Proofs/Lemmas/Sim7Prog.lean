/- Stage 7: top-level sequences.  The persistent scope grows with every top-level `stel` / named function statement;
   the function table of the whole program is the list of ALL literals of the tree (`litsTop`); one step of the
   top-level sequence; the induction over the sequence. -/
import Nlmodel.Proofs.Lemmas.Sim7Top
import Nlmodel.Proofs.Lemmas.Sim7Ips
namespace Nl
namespace Sim7
open Spec Sim Sim6
open SimH (AMap isStrCell isArrCell Grow PoolH MemOK sameKind LitF LitPool addConst_litpool)
open SimF (FT FnInfo FTInj paramScope bigScope selfTail func_layout lookupD)

/-- the persistent global scope DURING (for the literals in it) and AFTER a top-level statement: a top-level `stel x = ..`
    and a top-level `functie f(..) {..}` declare one persistent global, visible in the statement itself (recursion) -/
def topDelta (Γ : Gam) : RStmt → Gam
  | .letS ⟨b, .global k⟩ _ => (b, k) :: Γ
  | .expr (.func _ (some ⟨b, .global k⟩) _ _ _) => (b, k) :: Γ
  | _ => Γ

/-- all function literals of a top-level program laid out from `pos` with pool `cs` -/
def litsTop (Γ : Gam) : RBlock → Nat → List Const → List (Nat × FnInfo)
  | .nil, _, _ => []
  | .cons s rest, pos, cs =>
    litsS (topDelta Γ s) s pos none cs ++ litsTop (topDelta Γ s) rest (pos + sizeS s) (emitS s pos none cs).2

/-- the entry points of all literals of a program lie in its code, in increasing order -/
theorem ipsTop : (b : RBlock) → ∀ (Γ : Gam) (pos : Nat) (cs : List Const), IpsK 4 (litsTop Γ b pos cs) pos (pos + sizeB b)
  | .nil, _, _, _ => by simp only [litsTop]; exact .nil _ _ _
  | .cons s b, Γ, pos, cs => by
    simp only [litsTop, sizeB]
    exact (ipsS s (topDelta Γ s) pos none cs).append (ipsTop b (topDelta Γ s) (pos + sizeS s) _) (Nat.le_refl _) (by omega) (by omega)
      |>.mono (Nat.le_refl _) (by omega)

/-- a top-level program in the stage-7 fragment -/
inductive ZTop7 : Gam → RBlock → Gam → Prop where
  | nil (Γ) : ZTop7 Γ .nil Γ
  /-- an expression statement (anonymous literals anywhere inside) -/
  | exprS (Γ Γ2 : Gam) (e : RExpr) (rest : RBlock) : Z7E Γ 0 false Γ [] false e → ZTop7 Γ rest Γ2 → ZTop7 Γ (.cons (.expr e) rest) Γ2
  /-- a block: its globals are not persistent; literals inside may only use the globals declared before the block -/
  | blockS (Γ Γ2 : Gam) (b : RBlock) (Γ1 Λ1 : Gam) (rest : RBlock) : Z7B Γ 0 false Γ [] false b Γ1 Λ1 → ZTop7 Γ rest Γ2 →
      ZTop7 Γ (.cons (.block b) rest) Γ2
  /-- `stel x = e`: `x` is persistent and visible in `e` (so `stel f = functie(n) { .. f(..) .. }` recurses) -/
  | letS (Γ Γ2 : Gam) (b k : Nat) (e : RExpr) (rest : RBlock) : (∀ p ∈ Γ, p.1 ≠ b ∧ p.2 ≠ k) →
      Z7E ((b, k) :: Γ) 0 false ((b, k) :: Γ) [] false e → ZTop7 ((b, k) :: Γ) rest Γ2 →
      ZTop7 Γ (.cons (.letS ⟨b, .global k⟩ e) rest) Γ2
  /-- `functie f(ps) { body }`: `f` is persistent and visible in its own body -/
  | fdef (Γ Γ2 : Gam) (fid b k : Nat) (ps : List Nat) (nlf : Nat) (body : RBlock) (Γb Λb : Gam) (rest : RBlock) :
      (∀ p ∈ Γ, p.1 ≠ b ∧ p.2 ≠ k) →
      Z7B ((b, k) :: Γ) nlf true ((b, k) :: Γ) (paramScope ps) false body Γb Λb → GamOK (paramScope ps) → (∀ p ∈ paramScope ps, p.2 < nlf) →
      ZTop7 ((b, k) :: Γ) rest Γ2 →
      ZTop7 Γ (.cons (.expr (.func fid (some ⟨b, .global k⟩) ps nlf body)) rest) Γ2

theorem topDelta_expr {Δ : Gam} {nl : Nat} {fn : Bool} {Γ' Λ : Gam} {ab : Bool} {e : RExpr} (h : Z7E Δ nl fn Γ' Λ ab e) (Γ : Gam) :
    topDelta Γ (.expr e) = Γ := by
  cases h <;> rfl

/-- every top-level statement is a statement of the fragment whose persistent scope is `topDelta` -/
theorem ztop7_cons {Γ Γ2 : Gam} {s : RStmt} {rest : RBlock} (h : ZTop7 Γ (.cons s rest) Γ2) :
    Z7S (topDelta Γ s) 0 false Γ [] false s (topDelta Γ s) [] ∧ ZTop7 (topDelta Γ s) rest Γ2 := by
  cases h with
  | exprS _ _ e _ he hr => rw [topDelta_expr he]; exact ⟨.expr _ _ _ e he, hr⟩
  | blockS _ _ b Γ1 Λ1 _ hb hr => exact ⟨.block _ _ _ b Γ1 Λ1 hb, hr⟩
  | letS _ _ b k e _ hf he hr => exact ⟨.letG _ _ _ b k e rfl hf he, hr⟩
  | fdef _ _ fid b k ps nlf body Γb Λb _ hf hb hpok hpsz hr => exact ⟨.fdefG _ _ _ fid b k ps nlf body Γb Λb rfl hf hb hpok hpsz, hr⟩

theorem ztop7_litpool : ∀ (b : RBlock) {Γ Γ' : Gam}, ZTop7 Γ b Γ' → ∀ (pos : Nat) (cs : List Const), LitPool cs → LitPool (emitB b pos none cs).2
  | .nil, _, _, _, _, _, h => by simp only [emitB]; exact h
  | .cons s rest, _, _, hy, pos, cs, h => by
    obtain ⟨hs, hr⟩ := ztop7_cons hy
    simp only [emitB]
    exact ztop7_litpool rest hr _ _ (lpS7 s hs pos none cs h)

/-- every literal of the program has its body where `litsTop` says, in the fragment, with its nested literals in the table -/
theorem ztop7_fnok {W : World} : ∀ (b : RBlock) {Γ Γ' : Gam}, ZTop7 Γ b Γ' → ∀ (pos : Nat) (cs : List Const),
    CodeAt W.C pos (emitB b pos none cs).1 → Ext (emitB b pos none cs).2 W.CS →
    (∀ q ∈ litsTop Γ b pos cs, W.ft q.1 = some q.2) → AllOK W (litsTop Γ b pos cs)
  | .nil, _, _, _, _, _, _, _, _ => by simp only [litsTop]; exact .nil
  | .cons s rest, Γ, _, hy, pos, cs, hcode, hext, hD => by
    obtain ⟨hs, hr⟩ := ztop7_cons hy
    have hl := lay_b_cons hcode hext
    simp only [litsTop, List.forall_mem_append] at hD ⊢
    exact .append ((qall W (topDelta Γ s) _).s s (Nat.le_refl _) hs pos none cs hl.1 hD.1) (ztop7_fnok rest hr _ _ hl.2.1 hl.2.2 hD.2)

/-! ### one top-level statement -/

section step
variable {W : World}

/-- a statement that declares no persistent global: an expression statement, a block -/
theorem top_step_plain (hW : WOK7 W) {Γ Γ1 : Gam} {s : RStmt} (hs : Z7S Γ 0 false Γ [] false s Γ1 []) (hΓ1 : Γ1 = Γ) (hok : GamOK Γ)
    {pos : Nat} {cs : List Const} (F : Nat) {μ : AMap} {st : SState} {g : Array Value} {l : Value} {m : Mem} {out : List Text}
    (hinv : Inv6 (W.at Γ) Γ [] 0 ⟨μ, st, pos, #[], #[], g, l, m, out⟩) (hwt : TI.WT (mk6 W.s0 pos #[] #[] #[] g l [] m out))
    (hcode : CodeAt W.C pos (emitS s pos none cs).1) (hext : Ext (emitS s pos none cs).2 W.CS) (hft : FtS W.ft Γ s pos none cs) :
    GoalTop6 W Γ ⟨μ, st, pos, #[], #[], g, l, m, out⟩ (pos + sizeS s) (evalS F s st) := by
  subst hΓ1
  have hsc : Sc7 (W.at Γ1) Γ1 false Γ1 [] [] :=
    ⟨by simpa [bigScope] using hok, by simp [GamOK], by simp [bigScope], by intro p hp; simpa [bigScope, World.at] using hp,
     by intro p hp; simpa [World.at] using hp⟩
  have h1 := (pall7 (hW.at Γ1) F).s 0 false Γ1 [] [] false s Γ1 [] hs ⟨μ, st, pos, #[], #[], g, l, m, out⟩ none cs #[] [] hsc
    (by simpa [bigScope] using hinv) hwt hcode hext hft
  rcases h1 with h1 | h1
  · exact .inl h1
  refine .inr ?_
  cases hr : evalS F s st with
  | val u st1 =>
    rw [hr] at h1
    obtain ⟨μ1, m1, locs1, g1, l1, out1, n, hn, hinv1, _⟩ := h1
    have hl0 : locs1 = #[] := Array.eq_empty_of_size_eq_zero hinv1.size
    subst hl0
    simp only [bigScope, Bool.false_eq_true, ↓reduceIte] at hinv1
    exact ⟨μ1, g1, l1, m1, out1, n, hn, hinv1⟩
  | err er st1 => rw [hr] at h1; exact h1
  | fuel => trivial
  | unspec _ => trivial
  | brk _ => rw [hr] at h1; exact absurd h1.1 (by simp)
  | cont _ => rw [hr] at h1; exact absurd h1.1 (by simp)
  | ret _ _ => rw [hr] at h1; exact absurd h1.1 (by simp)

/-- `stel x = e` at top level: `x` joins the persistent scope BEFORE `e` is evaluated (its literals may use it) -/
theorem top_step_let (hW : WOK7 W) {Γ : Gam} {b k : Nat} {e : RExpr} (hf : ∀ p ∈ Γ, p.1 ≠ b ∧ p.2 ≠ k)
    (he : Z7E ((b, k) :: Γ) 0 false ((b, k) :: Γ) [] false e) (hok : GamOK Γ)
    {pos : Nat} {cs : List Const} (F : Nat) {μ : AMap} {st : SState} {g : Array Value} {l : Value} {m : Mem} {out : List Text}
    (hinv : Inv6 (W.at Γ) Γ [] 0 ⟨μ, st, pos, #[], #[], g, l, m, out⟩) (hwt : TI.WT (mk6 W.s0 pos #[] #[] #[] g l [] m out))
    (hcode : CodeAt W.C pos (emitS (.letS ⟨b, .global k⟩ e) pos none cs).1) (hext : Ext (emitS (.letS ⟨b, .global k⟩ e) pos none cs).2 W.CS)
    (hft : FtS W.ft ((b, k) :: Γ) (.letS ⟨b, .global k⟩ e) pos none cs) :
    GoalTop6 W ((b, k) :: Γ) ⟨μ, st, pos, #[], #[], g, l, m, out⟩ (pos + sizeS (.letS ⟨b, .global k⟩ e)) (evalS F (.letS ⟨b, .global k⟩ e) st) := by
  cases F with
  | zero => simp only [evalS]; exact .inr trivial
  | succ F =>
    have hok' := gamOK_cons hok b k hf
    have hsub : ∀ p ∈ (W.at Γ).Γp, p ∈ (b, k) :: Γ := fun p hp => List.mem_cons_of_mem _ hp
    have hinv' : Inv6 (W.at ((b, k) :: Γ)) Γ [] 0 ⟨μ, st, pos, #[], #[], g, l, m, out⟩ := Inv6.grow (W := W.at Γ) hsub hinv
    have hinv0 := inv6_unbindG b k hf hinv' pos #[]
    have hsc : Sc7 (W.at ((b, k) :: Γ)) ((b, k) :: Γ) false ((b, k) :: Γ) [] [] :=
      ⟨by simpa [bigScope] using hok', by simp [GamOK], by simp [bigScope], by intro p hp; simpa [bigScope, World.at] using hp,
       by intro p hp; simpa [World.at] using hp⟩
    simp only [emitS, setVar] at hcode hext
    obtain ⟨hc1, hc2⟩ := hcode.append
    rw [emitE_size] at hc2
    have h1 := (pall7 (hW.at ((b, k) :: Γ)) F).e 0 false ((b, k) :: Γ) [] [] false e he
      ⟨μ, st.unbind ⟨b, .global k⟩, pos, #[], #[], g, l, m, out⟩ none cs #[] [] hsc (by simpa [bigScope] using hinv0) hwt hc1 hext hft.letS
    rw [evalS_let]
    simp only [sizeS]
    rcases h1 with h1 | h1
    · exact .inl h1
    refine .inr ?_
    cases hr : evalE F e (st.unbind ⟨b, .global k⟩) with
    | val v st1 =>
      rw [hr] at h1
      obtain ⟨mv, μ1, m1, hmv, locs1, g1, l1, out1, n, hn, hinv1, _⟩ := h1
      have hl0 : locs1 = #[] := Array.eq_empty_of_size_eq_zero hinv1.size
      subst hl0
      simp only [bigScope, Bool.false_eq_true, ↓reduceIte] at hinv1
      have hinv2 := inv6_bindG hok' hinv1 b k List.mem_cons_self v mv hmv (pos + (sizeE e + 3)) #[]
      simp only [bindR]
      refine ⟨μ1, setGlobalArr g1 k mv, l1, m1, out1, n + 1, ?_, hinv2⟩
      have := execN_step W.C n _ _ _ hn (step6_setGlobal (s0 := W.s0) (below := #[]) (locs := #[]) (ops := #[]) (g := g1) (l := l1) (fr := [])
        (m := m1) (out := out1) (v := mv) hc2)
      refine this.trans ?_
      congr 2
    | err er st1 => rw [hr] at h1; exact h1
    | fuel => trivial
    | unspec _ => trivial
    | brk _ => rw [hr] at h1; exact absurd h1.1 (by simp)
    | cont _ => rw [hr] at h1; exact absurd h1.1 (by simp)
    | ret _ _ => rw [hr] at h1; exact absurd h1.1 (by simp)

/-- `functie f(ps) { body }` at top level: `f` joins the persistent scope, the function value lands in its slot and in `last` -/
theorem top_step_fdef (hW : WOK7 W) {Γ : Gam} {fid b k : Nat} {ps : List Nat} {nlf : Nat} {body : RBlock}
    (hf : ∀ p ∈ Γ, p.1 ≠ b ∧ p.2 ≠ k) (hok : GamOK Γ)
    {pos : Nat} {cs : List Const} (F : Nat) {μ : AMap} {st : SState} {g : Array Value} {l : Value} {m : Mem} {out : List Text}
    (hinv : Inv6 (W.at Γ) Γ [] 0 ⟨μ, st, pos, #[], #[], g, l, m, out⟩)
    (hcode : CodeAt W.C pos (emitS (.expr (.func fid (some ⟨b, .global k⟩) ps nlf body)) pos none cs).1)
    (hext : Ext (emitS (.expr (.func fid (some ⟨b, .global k⟩) ps nlf body)) pos none cs).2 W.CS)
    (hft : FtS W.ft ((b, k) :: Γ) (.expr (.func fid (some ⟨b, .global k⟩) ps nlf body)) pos none cs) :
    GoalTop6 W ((b, k) :: Γ) ⟨μ, st, pos, #[], #[], g, l, m, out⟩ (pos + sizeS (.expr (.func fid (some ⟨b, .global k⟩) ps nlf body)))
      (evalS F (.expr (.func fid (some ⟨b, .global k⟩) ps nlf body)) st) := by
  cases F with
  | zero => simp only [evalS]; exact .inr trivial
  | succ F =>
    have hsub : ∀ p ∈ (W.at Γ).Γp, p ∈ (b, k) :: Γ := fun p hp => List.mem_cons_of_mem _ hp
    have hinv' : Inv6 (W.at ((b, k) :: Γ)) Γ [] 0 ⟨μ, st, pos, #[], #[], g, l, m, out⟩ := Inv6.grow (W := W.at Γ) hsub hinv
    simp only [emitS] at hcode hext
    obtain ⟨hc1, hc2⟩ := hcode.append
    rw [emitE_size] at hc2
    have h1 := pe7_fdefG' (W := W.at ((b, k) :: Γ)) (Δ := (b, k) :: Γ) (below := #[]) (fr := []) (fn := false) (ab := false) (lp := none)
      (c := ⟨μ, st, pos, #[], #[], g, l, m, out⟩) (hW.at ((b, k) :: Γ)) F fid b k ps nlf body hf hok
      (by intro p hp; simpa [World.at] using hp) hinv' hc1 hext hft.expr
    rw [evalS_expr]
    simp only [sizeS]
    rcases h1 with h1 | h1
    · exact .inl h1
    refine .inr ?_
    cases hr : evalE F (.func fid (some ⟨b, .global k⟩) ps nlf body) st with
    | val v st1 =>
      rw [hr] at h1
      obtain ⟨mv, μ1, m1, hmv, locs1, g1, l1, out1, n, hn, hinv1, _⟩ := h1
      have hl0 : locs1 = #[] := Array.eq_empty_of_size_eq_zero hinv1.size
      subst hl0
      simp only [bindR]
      refine ⟨μ1, g1, mv, m1, out1, n + 1, ?_, inv6_setLast hinv1 v mv hmv _ _⟩
      have := execN_step W.C n _ _ _ hn (step6_pop (s0 := W.s0) (below := #[]) (locs := #[]) (ops := #[]) (g := g1) (l := l1) (fr := [])
        (m := m1) (out := out1) (v := mv) hc2)
      refine this.trans ?_
      congr 2
    | err er st1 => rw [hr] at h1; exact h1
    | fuel => trivial
    | unspec _ => trivial
    | brk _ => rw [hr] at h1; exact absurd h1.1 (by simp)
    | cont _ => rw [hr] at h1; exact absurd h1.1 (by simp)
    | ret _ _ => rw [hr] at h1; exact absurd h1.1 (by simp)

/-- one top-level statement, whichever it is -/
theorem top_step (hW : WOK7 W) {Γ Γ2 : Gam} {s : RStmt} {rest : RBlock} (hy : ZTop7 Γ (.cons s rest) Γ2) (hok : GamOK Γ)
    {pos : Nat} {cs : List Const} (F : Nat) {μ : AMap} {st : SState} {g : Array Value} {l : Value} {m : Mem} {out : List Text}
    (hinv : Inv6 (W.at Γ) Γ [] 0 ⟨μ, st, pos, #[], #[], g, l, m, out⟩) (hwt : TI.WT (mk6 W.s0 pos #[] #[] #[] g l [] m out))
    (hcode : CodeAt W.C pos (emitS s pos none cs).1) (hext : Ext (emitS s pos none cs).2 W.CS) (hft : FtS W.ft (topDelta Γ s) s pos none cs) :
    GoalTop6 W (topDelta Γ s) ⟨μ, st, pos, #[], #[], g, l, m, out⟩ (pos + sizeS s) (evalS F s st) ∧ GamOK (topDelta Γ s) := by
  cases hy with
  | exprS _ _ e _ he hr =>
    have hd := topDelta_expr he Γ
    rw [hd] at hft ⊢
    exact ⟨top_step_plain hW (.expr _ _ _ e he) rfl hok F hinv hwt hcode hext hft, hok⟩
  | blockS _ _ b Γ1 Λ1 _ hb hr =>
    exact ⟨top_step_plain hW (.block _ _ _ b Γ1 Λ1 hb) rfl hok F hinv hwt hcode hext hft, hok⟩
  | letS _ _ b k e _ hf he hr => exact ⟨top_step_let hW hf he hok F hinv hwt hcode hext hft, gamOK_cons hok b k hf⟩
  | fdef _ _ fid b k ps nlf body Γb Λb _ hf hb hpok hpsz hr => exact ⟨top_step_fdef hW hf hok F hinv hcode hext hft, gamOK_cons hok b k hf⟩

end step

/-! ### the top-level sequence -/

theorem ptop7 {W : World} (hW : WOK7 W) : ∀ (b : RBlock) {Γ Γ' : Gam}, ZTop7 Γ b Γ' → ∀ (pos : Nat) (cs : List Const),
    (∀ q ∈ litsTop Γ b pos cs, W.ft q.1 = some q.2) → GamOK Γ →
    ∀ (F : Nat) (μ : AMap) (st : SState) (g : Array Value) (l : Value) (m : Mem) (out : List Text),
    Inv6 (W.at Γ) Γ [] 0 ⟨μ, st, pos, #[], #[], g, l, m, out⟩ → TI.WT (mk6 W.s0 pos #[] #[] #[] g l [] m out) →
    CodeAt W.C pos (emitB b pos none cs).1 → Ext (emitB b pos none cs).2 W.CS →
    GoalTop6 W Γ' ⟨μ, st, pos, #[], #[], g, l, m, out⟩ (pos + sizeB b) (evalB F b st)
  | .nil, Γ, _, hy, pos, cs, _, _, F, μ, st, g, l, m, out, hinv, _, _, _ => by
    cases hy
    cases F with
    | zero => simp only [evalB]; exact .inr trivial
    | succ F =>
      simp only [evalB, sizeB, Nat.add_zero]
      exact .inr ⟨μ, g, l, m, out, 0, rfl, hinv⟩
  | .cons s rest, Γ, Γ', hy, pos, cs, hD, hok, F, μ, st, g, l, m, out, hinv, hwt, hcode, hext => by
    cases F with
    | zero => simp only [evalB]; exact .inr trivial
    | succ F =>
      obtain ⟨_, hr⟩ := ztop7_cons hy
      have hl := lay_b_cons hcode hext
      simp only [litsTop, List.forall_mem_append] at hD
      obtain ⟨h1, hok1⟩ := top_step hW hy hok F hinv hwt hl.1.1 hl.1.2 hD.1
      rw [evalB_cons]
      simp only [sizeB]
      rcases h1 with h1 | h1
      · exact .inl h1
      cases hr1 : evalS F s st with
      | val u st1 =>
        rw [hr1] at h1
        obtain ⟨μ1, g1, l1, m1, out1, n, hn, hinv1⟩ := h1
        have hwt1 := wt_execN n _ _ hwt hn
        have h2 := ptop7 hW rest hr _ _ hD.2 hok1 F μ1 st1 g1 l1 m1 out1 hinv1 hwt1 hl.2.1 hl.2.2
        simp only [bindR]
        rw [← Nat.add_assoc]
        exact GoalTop6.prefix (c := ⟨μ, st, pos, #[], #[], g, l, m, out⟩) (c1 := ⟨μ1, st1, pos + sizeS s, #[], #[], g1, l1, m1, out1⟩) n hn h2
      | err er st1 => rw [hr1] at h1; exact .inr h1
      | fuel => exact .inr trivial
      | unspec _ => exact .inr trivial
      | brk _ => rw [hr1] at h1; exact h1.elim
      | cont _ => rw [hr1] at h1; exact h1.elim
      | ret _ _ => rw [hr1] at h1; exact h1.elim

end Sim7
end Nl
