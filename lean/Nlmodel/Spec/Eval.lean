/-
  The definitional semantics: "what the source text denotes" (DESIGN §4).

  A store-passing big-step interpreter of the *resolved* syntax tree.  It uses only the binder ids
  of `resolveBoth` (never the slots), has no stack, no code positions, no boxing of floats and no
  collector; control flow is structural (`stop`/`volgende`/`antwoord` are results that propagate).
  Fuel bounds the depth of the evaluation derivation and is decremented at every node.
-/
import Nlmodel.Model.Resolve
namespace Nl
namespace Spec

/-- values of the definitional semantics: floats are immediate; strings and arrays are addresses
    into the store (they are mutable and shared by reference); a function value is its definition -/
inductive SVal where
  | null
  | bool (b : Bool)
  | int (i : Int)
  | float (bits : UInt64)
  | str (a : Nat)
  | arr (a : Nat)
  | fn (fid : Nat) (params : List Nat) (nlocals : Nat) (body : RBlock)

instance : Inhabited SVal := ⟨.null⟩

inductive SCell where
  | str (s : Text)
  | arr (vs : List SVal)

instance : Inhabited SCell := ⟨.str []⟩

structure SState where
  /-- top-level bindings: binder id ↦ value -/
  genv : List (Nat × SVal) := []
  /-- the current activation's bindings -/
  lenv : List (Nat × SVal) := []
  store : Array SCell := #[]
  /-- the register `last`: value of the last expression statement executed -/
  last : SVal := .null
  out : List Text := []
  deriving Inhabited

/-- outcome of evaluating a node -/
inductive Res (α : Type) where
  | val (a : α) (st : SState)
  | brk (st : SState)
  | cont (st : SState)
  | ret (v : SVal) (st : SState)
  | err (e : Err) (st : SState)
  | unspec (st : SState)          -- behaviour the documentation does not fix (DESIGN §4.3)
  | fuel

def SState.strAt (st : SState) (a : Nat) : Text :=
  match st.store[a]? with | some (.str s) => s | _ => []
def SState.arrAt (st : SState) (a : Nat) : List SVal :=
  match st.store[a]? with | some (.arr vs) => vs | _ => []
def SState.alloc (st : SState) (c : SCell) : SState × Nat :=
  ({ st with store := st.store.push c }, st.store.size)

def envGet (env : List (Nat × SVal)) (k : Nat) : Option SVal :=
  match env.find? (fun p => p.1 == k) with
  | some p => some p.2
  | none => none

def envSet (env : List (Nat × SVal)) (k : Nat) (v : SVal) : List (Nat × SVal) :=
  (k, v) :: env.filter (fun p => p.1 != k)

def envDel (env : List (Nat × SVal)) (k : Nat) : List (Nat × SVal) :=
  env.filter (fun p => p.1 != k)

def isGlobalSlot : Slot → Bool
  | .global _ => true
  | .loc _ => false

def SState.lookup (st : SState) (r : Ref) : Option SVal :=
  if isGlobalSlot r.slot then envGet st.genv r.bid else envGet st.lenv r.bid

def SState.bind (st : SState) (r : Ref) (v : SVal) : SState :=
  if isGlobalSlot r.slot then { st with genv := envSet st.genv r.bid v }
  else { st with lenv := envSet st.lenv r.bid v }

def SState.unbind (st : SState) (r : Ref) : SState :=
  if isGlobalSlot r.slot then { st with genv := envDel st.genv r.bid }
  else { st with lenv := envDel st.lenv r.bid }

def SState.view (st : SState) : SVal → View
  | .null => .null
  | .bool b => .bool b
  | .int i => .int i
  | .float x => .float x
  | .str a => .str (st.strAt a)
  | .arr a => .arr (st.arrAt a).length
  | .fn fid _ _ _ => .fn (fid, 0)

def SState.tree (st : SState) : Nat → List Nat → SVal → Tree
  | 0, _, _ => .null
  | f + 1, path, v =>
    match v with
    | .null => .null
    | .bool b => .bool b
    | .int i => .int i
    | .fn .. => .fn
    | .float x => .float x
    | .str a => .str (st.strAt a)
    | .arr a =>
      match path.idxOf? a with
      | some k => .cycle k
      | none => .arr ((st.arrAt a).map (st.tree f (a :: path)))

def SState.box (st : SState) (arg : SVal) : PRes → SVal × SState
  | .null => (.null, st)
  | .bool b => (.bool b, st)
  | .int i => (.int i, st)
  | .float x => (.float x, st)
  | .str s => let (st', a) := st.alloc (.str s); (.str a, st')
  | .same => (arg, st)

def sIndexGet (l i : SVal) (st : SState) : Except Err (SVal × SState) :=
  match i with
  | .int k =>
    match l with
    | .arr a =>
      let vs := st.arrAt a
      match normIndex vs.length k with
      | some j => .ok (vs.getD j .null, st)
      | none => .error .index
    | .str a =>
      let s := st.strAt a
      match normIndex s.length k with
      | some j => let (st', b) := st.alloc (.str [s.getD j ' ']); .ok (.str b, st')
      | none => .error .index
    | _ => .error .type
  | _ => .error .type

def sIndexSet (l i v : SVal) (st : SState) : Except Err (SVal × SState) :=
  match i with
  | .int k =>
    match l with
    | .arr a =>
      let vs := st.arrAt a
      match normIndex vs.length k with
      | some j => .ok (v, { st with store := st.store.setIfInBounds a (.arr (vs.set j v)) })
      | none => .error .index
    | .str a =>
      let s := st.strAt a
      match normIndex s.length k with
      | some j =>
        match v with
        | .str b =>
          let r := st.strAt b
          .ok (v, { st with store := st.store.setIfInBounds a (.str (s.take j ++ r ++ s.drop (j + 1))) })
        | _ => .error .type
      | none => .error .index
    | _ => .error .type
  | _ => .error .type

/-- the value a block has when it stands in value position: the value of its last statement if
    that is an expression statement or (recursively) a non-empty block; otherwise null -/
inductive Tail where | value | novalue

def bindParams : List Nat → List SVal → List (Nat × SVal)
  | [], _ => []
  | p :: ps, [] => (p, .null) :: bindParams ps []
  | p :: ps, a :: as => (p, a) :: bindParams ps as

mutual
def evalE : Nat → RExpr → SState → Res SVal
  | 0, _, _ => .fuel
  | f + 1, e, st =>
    match e with
    | .int v => .val (.int v) st
    | .float x => .val (.float x) st
    | .bool b => .val (.bool b) st
    | .str s => let (st', a) := st.alloc (.str s); .val (.str a) st'
    | .var r =>
      match st.lookup r with
      | some v => .val v st
      | none => .unspec st
    | .not r =>
      match evalE f r st with
      | .val (.bool b) st1 => .val (.bool (!b)) st1
      | .val _ st1 => .err .type st1
      | o => o
    | .neg r =>
      match evalE f r st with
      | .val (.int i) st1 => if inRange (-i) then .val (.int (-i)) st1 else .err .type st1
      | .val (.float x) st1 => .val (.float (F64.neg x)) st1
      | .val _ st1 => .err .type st1
      | o => o
    | .infix l op r =>
      match evalE f l st with
      | .val a st1 =>
        match evalE f r st1 with
        | .val b st2 =>
          match binopCore op (st2.view a) (st2.view b) with
          | .ok p => let (v, st3) := st2.box a p; .val v st3
          | .error e => .err e st2
        | o => o
      | o => o
    | .assignVar r e =>
      match evalE f e st with
      | .val v st1 => .val v (st1.bind r v)
      | o => o
    | .assignIndex l i v =>
      match evalE f l st with
      | .val a st1 =>
        match evalE f i st1 with
        | .val b st2 =>
          match evalE f v st2 with
          | .val c st3 =>
            match sIndexSet a b c st3 with
            | .ok (r, st4) => .val r st4
            | .error e => .err e st3
          | o => o
        | o => o
      | o => o
    | .index l i =>
      match evalE f l st with
      | .val a st1 =>
        match evalE f i st1 with
        | .val b st2 =>
          match sIndexGet a b st2 with
          | .ok (r, st3) => .val r st3
          | .error e => .err e st2
        | o => o
      | o => o
    | .arr vs =>
      match evalEs f vs st with
      | .val xs st1 => let (st2, a) := st1.alloc (.arr xs); .val (.arr a) st2
      | .brk s => .brk s | .cont s => .cont s | .ret v s => .ret v s
      | .err e s => .err e s | .unspec s => .unspec s | .fuel => .fuel
    | .ifE c t e =>
      match evalE f c st with
      | .val (.bool true) st1 => evalBV f t st1
      | .val (.bool false) st1 =>
        match e with
        | .none => .val .null st1
        | .some b => evalBV f b st1
      | .val _ st1 => .err .type st1
      | o => o
    | .whileE c b => evalLoop f c b .null st
    | .func fid self ps nl body =>
      let v : SVal := .fn fid ps nl body
      match self with
      | none => .val v st
      | some r => .val v (st.bind r v)
    | .callBuiltin b as =>
      match evalEs f as st with
      | .val xs st1 =>
        match b with
        | .print =>
          .val .null { st1 with out := st1.out ++ [printLine (xs.map (st1.tree treeDepth []))] }
        | _ =>
          match xs with
          | [x] =>
            match builtinCore b (st1.view x) with
            | .ok p => let (v, st2) := st1.box x p; .val v st2
            | .error e => .err e st1
          | _ => .err .argument st1
      | .brk s => .brk s | .cont s => .cont s | .ret v s => .ret v s
      | .err e s => .err e s | .unspec s => .unspec s | .fuel => .fuel
    | .call fe as =>
      -- arguments first (left to right), then the callee
      match evalEs f as st with
      | .val xs st1 =>
        match evalE f fe st1 with
        | .val (.fn _ ps nl body) st2 =>
          if xs.length > nl then .err .argument st2
          else
            -- fresh activation; the caller's is put back afterwards
            let saved := st2.lenv
            match evalBV f body { st2 with lenv := bindParams ps xs } with
            | .val v st3 => .val v { st3 with lenv := saved }
            | .ret v st3 => .val v { st3 with lenv := saved }
            | .brk st3 => .unspec st3          -- impossible: rejected by resolve
            | .cont st3 => .unspec st3
            | .err e st3 => .err e st3
            | .unspec st3 => .unspec st3
            | .fuel => .fuel
        | .val _ st2 => .err .type st2
        | o => o
      | .brk s => .brk s | .cont s => .cont s | .ret v s => .ret v s
      | .err e s => .err e s | .unspec s => .unspec s | .fuel => .fuel

def evalEs : Nat → RExprs → SState → Res (List SVal)
  | 0, _, _ => .fuel
  | f + 1, es, st =>
    match es with
    | .nil => .val [] st
    | .cons e rest =>
      match evalE f e st with
      | .val v st1 =>
        match evalEs f rest st1 with
        | .val vs st2 => .val (v :: vs) st2
        | o => o
      | .brk s => .brk s | .cont s => .cont s | .ret v s => .ret v s
      | .err e s => .err e s | .unspec s => .unspec s | .fuel => .fuel

/-- `zolang`: `acc` is the value of the last completed body evaluation (null if none); at the
    start of every further iteration the machine discards it, and that discard lands in `last` -/
def evalLoop : Nat → RExpr → RBlock → SVal → SState → Res SVal
  | 0, _, _, _, _ => .fuel
  | f + 1, c, b, acc, st =>
    match evalE f c st with
    | .val (.bool false) st1 => .val acc st1
    | .val (.bool true) st1 =>
      match evalBV f b { st1 with last := acc } with
      | .val v st2 => evalLoop f c b v st2
      | .brk st2 => .val .null st2
      | .cont st2 => evalLoop f c b .null st2
      | o => o
    | .val _ st1 => .err .type st1
    | .brk st1 => .val .null st1
    | .cont st1 => evalLoop f c b .null st1
    | o => o

def evalS : Nat → RStmt → SState → Res Unit
  | 0, _, _ => .fuel
  | f + 1, s, st =>
    match s with
    | .expr e =>
      match evalE f e st with
      | .val v st1 => .val () { st1 with last := v }
      | .brk s => .brk s | .cont s => .cont s | .ret v s => .ret v s
      | .err e s => .err e s | .unspec s => .unspec s | .fuel => .fuel
    | .letS r e =>
      match evalE f e (st.unbind r) with
      | .val v st1 => .val () (st1.bind r v)
      | .brk s => .brk s | .cont s => .cont s | .ret v s => .ret v s
      | .err e s => .err e s | .unspec s => .unspec s | .fuel => .fuel
    | .ret e =>
      match evalE f e st with
      | .val v st1 => .ret v st1
      | .brk s => .brk s | .cont s => .cont s | .ret v s => .ret v s
      | .err e s => .err e s | .unspec s => .unspec s | .fuel => .fuel
    | .block b => evalB f b st
    | .brk => .brk st
    | .cont => .cont st

/-- a block in statement position -/
def evalB : Nat → RBlock → SState → Res Unit
  | 0, _, _ => .fuel
  | f + 1, b, st =>
    match b with
    | .nil => .val () st
    | .cons s rest =>
      match evalS f s st with
      | .val () st1 => evalB f rest st1
      | o => o

/-- a block in value position (if-branches, loop and function bodies) -/
def evalBV : Nat → RBlock → SState → Res SVal
  | 0, _, _ => .fuel
  | f + 1, b, st =>
    match b with
    | .nil => .val .null st
    | .cons (.expr e) .nil => evalE f e st
    | .cons (.block (.cons s b')) .nil => evalBV f (.cons s b') st
    | .cons s .nil =>
      match evalS f s st with
      | .val () st1 => .val .null st1
      | .brk s => .brk s | .cont s => .cont s | .ret v s => .ret v s
      | .err e s => .err e s | .unspec s => .unspec s | .fuel => .fuel
    | .cons s rest =>
      match evalS f s st with
      | .val () st1 => evalBV f rest st1
      | .brk s => .brk s | .cont s => .cont s | .ret v s => .ret v s
      | .err e s => .err e s | .unspec s => .unspec s | .fuel => .fuel
end

/-- the observable outcome of a whole program -/
inductive Outcome where
  | value (t : Tree) (out : List Text)
  | error (e : Err) (out : List Text)
  | unspec
  | fuel
  deriving Inhabited

def evalProgram (fuel : Nat) (p : RBlock) : Outcome :=
  match evalB fuel p {} with
  | .val () st => .value (st.tree treeDepth [] st.last) st.out
  | .err e st => .error e st.out
  | .unspec _ => .unspec
  | .fuel => .fuel
  | .brk _ | .cont _ | .ret _ _ => .unspec    -- impossible: rejected by resolve

end Spec
end Nl
