/- Stage 7: where the code and the pool of the parts of a node are, given the code and the pool of the node
   (one lemma per constructor; no recursion). -/
import Nlmodel.Proofs.Lemmas.Sim7Body
namespace Nl
namespace Sim7
open Spec Sim Sim6
open SimF (selfTail func_layout)

section
variable {C : Code} {CS : List Const} {pos : Nat} {lp : LoopCtx} {cs : List Const}

theorem lay_not {r : RExpr} (hcode : CodeAt C pos (emitE (.not r) pos lp cs).1) (hext : Ext (emitE (.not r) pos lp cs).2 CS) :
    CodeAt C pos (emitE r pos lp cs).1 ∧ Ext (emitE r pos lp cs).2 CS := by
  simp only [emitE] at hcode hext
  exact ⟨hcode.append.1, hext⟩

theorem lay_neg {r : RExpr} (hcode : CodeAt C pos (emitE (.neg r) pos lp cs).1) (hext : Ext (emitE (.neg r) pos lp cs).2 CS) :
    CodeAt C pos (emitE r pos lp cs).1 ∧ Ext (emitE r pos lp cs).2 CS := by
  simp only [emitE] at hcode hext
  exact ⟨hcode.append.1, hext⟩

theorem lay_assignVar {x : Ref} {e : RExpr} (hcode : CodeAt C pos (emitE (.assignVar x e) pos lp cs).1)
    (hext : Ext (emitE (.assignVar x e) pos lp cs).2 CS) :
    CodeAt C pos (emitE e pos lp cs).1 ∧ Ext (emitE e pos lp cs).2 CS := by
  simp only [emitE] at hcode hext
  exact ⟨hcode.append.1, hext⟩

theorem lay_infix {l r : RExpr} {op : BinOp} (hnf : fusedCandidate l op r = none)
    (hcode : CodeAt C pos (emitE (.infix l op r) pos lp cs).1) (hext : Ext (emitE (.infix l op r) pos lp cs).2 CS) :
    (CodeAt C pos (emitE l pos lp cs).1 ∧ Ext (emitE l pos lp cs).2 CS) ∧
    (CodeAt C (pos + sizeE l) (emitE r (pos + sizeE l) lp (emitE l pos lp cs).2).1 ∧ Ext (emitE r (pos + sizeE l) lp (emitE l pos lp cs).2).2 CS) := by
  simp only [emitE, hnf] at hcode hext
  obtain ⟨hc12, _⟩ := hcode.append
  obtain ⟨hc1, hc2⟩ := hc12.append
  rw [emitE_size] at hc2
  exact ⟨⟨hc1, (emitE_ext r _ _ _).trans hext⟩, hc2, hext⟩

theorem lay_index {l i : RExpr} (hcode : CodeAt C pos (emitE (.index l i) pos lp cs).1) (hext : Ext (emitE (.index l i) pos lp cs).2 CS) :
    (CodeAt C pos (emitE l pos lp cs).1 ∧ Ext (emitE l pos lp cs).2 CS) ∧
    (CodeAt C (pos + sizeE l) (emitE i (pos + sizeE l) lp (emitE l pos lp cs).2).1 ∧ Ext (emitE i (pos + sizeE l) lp (emitE l pos lp cs).2).2 CS) := by
  simp only [emitE] at hcode hext
  obtain ⟨hc12, _⟩ := hcode.append
  obtain ⟨hc1, hc2⟩ := hc12.append
  rw [emitE_size] at hc2
  exact ⟨⟨hc1, (emitE_ext i _ _ _).trans hext⟩, hc2, hext⟩

theorem lay_assignIndex {l i v : RExpr} (hcode : CodeAt C pos (emitE (.assignIndex l i v) pos lp cs).1)
    (hext : Ext (emitE (.assignIndex l i v) pos lp cs).2 CS) :
    (CodeAt C pos (emitE l pos lp cs).1 ∧ Ext (emitE l pos lp cs).2 CS) ∧
    (CodeAt C (pos + sizeE l) (emitE i (pos + sizeE l) lp (emitE l pos lp cs).2).1 ∧ Ext (emitE i (pos + sizeE l) lp (emitE l pos lp cs).2).2 CS) ∧
    (CodeAt C (pos + sizeE l + sizeE i) (emitE v (pos + sizeE l + sizeE i) lp (emitE i (pos + sizeE l) lp (emitE l pos lp cs).2).2).1 ∧
      Ext (emitE v (pos + sizeE l + sizeE i) lp (emitE i (pos + sizeE l) lp (emitE l pos lp cs).2).2).2 CS) := by
  simp only [emitE] at hcode hext
  obtain ⟨hc123, _⟩ := hcode.append
  obtain ⟨hc12, hc3⟩ := hc123.append
  obtain ⟨hc1, hc2⟩ := hc12.append
  rw [emitE_size] at hc2
  simp only [codeSize_append, emitE_size, ← Nat.add_assoc] at hc3
  have hext2 : Ext (emitE i (pos + sizeE l) lp (emitE l pos lp cs).2).2 CS := (emitE_ext v _ _ _).trans hext
  exact ⟨⟨hc1, (emitE_ext i _ _ _).trans hext2⟩, ⟨hc2, hext2⟩, hc3, hext⟩

theorem lay_arr {vs : RExprs} (hcode : CodeAt C pos (emitE (.arr vs) pos lp cs).1) (hext : Ext (emitE (.arr vs) pos lp cs).2 CS) :
    CodeAt C pos (emitEs vs pos lp cs).1 ∧ Ext (emitEs vs pos lp cs).2 CS := by
  simp only [emitE] at hcode hext
  exact ⟨hcode.append.1, hext⟩

theorem lay_builtin {b : Builtin} {as : RExprs} (hcode : CodeAt C pos (emitE (.callBuiltin b as) pos lp cs).1)
    (hext : Ext (emitE (.callBuiltin b as) pos lp cs).2 CS) :
    CodeAt C pos (emitEs as pos lp cs).1 ∧ Ext (emitEs as pos lp cs).2 CS := by
  simp only [emitE] at hcode hext
  exact ⟨hcode.append.1, hext⟩

theorem lay_call {f : RExpr} {as : RExprs} (hcode : CodeAt C pos (emitE (.call f as) pos lp cs).1) (hext : Ext (emitE (.call f as) pos lp cs).2 CS) :
    (CodeAt C pos (emitEs as pos lp cs).1 ∧ Ext (emitEs as pos lp cs).2 CS) ∧
    (CodeAt C (pos + sizeEs as) (emitE f (pos + sizeEs as) lp (emitEs as pos lp cs).2).1 ∧ Ext (emitE f (pos + sizeEs as) lp (emitEs as pos lp cs).2).2 CS) := by
  simp only [emitE] at hcode hext
  obtain ⟨hc12, _⟩ := hcode.append
  obtain ⟨hc1, hc2⟩ := hc12.append
  rw [emitEs_size] at hc2
  exact ⟨⟨hc1, (emitE_ext f _ _ _).trans hext⟩, hc2, hext⟩

theorem lay_if {c : RExpr} {t : RBlock} {e : ROptBlock} (hcode : CodeAt C pos (emitE (.ifE c t e) pos lp cs).1)
    (hext : Ext (emitE (.ifE c t e) pos lp cs).2 CS) :
    (CodeAt C pos (emitE c pos lp cs).1 ∧ Ext (emitE c pos lp cs).2 CS) ∧
    (CodeAt C (pos + sizeE c + 3) (asValue t (emitB t (pos + sizeE c + 3) lp (emitE c pos lp cs).2).1) ∧
      Ext (emitB t (pos + sizeE c + 3) lp (emitE c pos lp cs).2).2 CS) ∧
    (CodeAt C (pos + sizeE c + 3 + sizeBV t + 3) (emitO e (pos + sizeE c + 3 + sizeBV t + 3) lp (emitB t (pos + sizeE c + 3) lp (emitE c pos lp cs).2).2).1 ∧
      Ext (emitO e (pos + sizeE c + 3 + sizeBV t + 3) lp (emitB t (pos + sizeE c + 3) lp (emitE c pos lp cs).2).2).2 CS) := by
  simp only [emitE] at hcode hext
  obtain ⟨hc1234, hce⟩ := hcode.append
  obtain ⟨hc123, _⟩ := hc1234.append
  obtain ⟨hc12, hct⟩ := hc123.append
  obtain ⟨hcc, _⟩ := hc12.append
  have hct := hct.cast (b := pos + sizeE c + 3) (by simp [emitE_size, Instr.size]; omega)
  have hce := hce.cast (b := pos + sizeE c + 3 + sizeBV t + 3) (by simp [emitE_size, Instr.size, codeSize_asValue]; omega)
  have hextt : Ext (emitB t (pos + sizeE c + 3) lp (emitE c pos lp cs).2).2 CS := (emitO_ext e _ _ _).trans hext
  exact ⟨⟨hcc, (emitB_ext t _ _ _).trans hextt⟩, ⟨hct, hextt⟩, hce, hext⟩

theorem lay_while {c : RExpr} {b : RBlock} (hcode : CodeAt C pos (emitE (.whileE c b) pos lp cs).1)
    (hext : Ext (emitE (.whileE c b) pos lp cs).2 CS) :
    (CodeAt C (pos + 1) (emitE c (pos + 1) (some (pos + 1, pos + 1 + sizeE c + 4 + sizeBV b + 3)) cs).1 ∧
      Ext (emitE c (pos + 1) (some (pos + 1, pos + 1 + sizeE c + 4 + sizeBV b + 3)) cs).2 CS) ∧
    (CodeAt C (pos + 1 + sizeE c + 4) (asValue b (emitB b (pos + 1 + sizeE c + 4) (some (pos + 1, pos + 1 + sizeE c + 4 + sizeBV b + 3))
        (emitE c (pos + 1) (some (pos + 1, pos + 1 + sizeE c + 4 + sizeBV b + 3)) cs).2).1) ∧
      Ext (emitB b (pos + 1 + sizeE c + 4) (some (pos + 1, pos + 1 + sizeE c + 4 + sizeBV b + 3))
        (emitE c (pos + 1) (some (pos + 1, pos + 1 + sizeE c + 4 + sizeBV b + 3)) cs).2).2 CS) := by
  obtain ⟨_, hcc, _, hcb, _, _⟩ := while_layout c b hcode
  simp only [emitE] at hext
  exact ⟨⟨hcc, (emitB_ext b _ _ _).trans hext⟩, hcb, hext⟩

theorem lay_func {fid : Nat} {self : Option Ref} {ps : List Nat} {nlf : Nat} {body : RBlock}
    (hcode : CodeAt C pos (emitE (.func fid self ps nlf body) pos lp cs).1) (hext : Ext (emitE (.func fid self ps nlf body) pos lp cs).2 CS) :
    CodeAt C (pos + 3) (asFnBody body (emitB body (pos + 3) none cs).1) ∧ Ext (emitB body (pos + 3) none cs).2 CS := by
  obtain ⟨_, h2, _, hpl, _⟩ := func_layout fid self ps nlf body hcode
  rw [hpl] at hext
  exact ⟨h2, (addConst_ext _ _).trans hext⟩

theorem lay_es_cons {e : RExpr} {es : RExprs} (hcode : CodeAt C pos (emitEs (.cons e es) pos lp cs).1) (hext : Ext (emitEs (.cons e es) pos lp cs).2 CS) :
    (CodeAt C pos (emitE e pos lp cs).1 ∧ Ext (emitE e pos lp cs).2 CS) ∧
    (CodeAt C (pos + sizeE e) (emitEs es (pos + sizeE e) lp (emitE e pos lp cs).2).1 ∧ Ext (emitEs es (pos + sizeE e) lp (emitE e pos lp cs).2).2 CS) := by
  simp only [emitEs] at hcode hext
  obtain ⟨hc1, hc2⟩ := hcode.append
  rw [emitE_size] at hc2
  exact ⟨⟨hc1, (emitEs_ext es _ _ _).trans hext⟩, hc2, hext⟩

theorem lay_o_some {b : RBlock} (hcode : CodeAt C pos (emitO (.some b) pos lp cs).1) (hext : Ext (emitO (.some b) pos lp cs).2 CS) :
    CodeAt C pos (asValue b (emitB b pos lp cs).1) ∧ Ext (emitB b pos lp cs).2 CS := by
  simp only [emitO] at hcode hext
  exact ⟨hcode, hext⟩

theorem lay_s_expr {e : RExpr} (hcode : CodeAt C pos (emitS (.expr e) pos lp cs).1) (hext : Ext (emitS (.expr e) pos lp cs).2 CS) :
    CodeAt C pos (emitE e pos lp cs).1 ∧ Ext (emitE e pos lp cs).2 CS := by
  simp only [emitS] at hcode hext
  exact ⟨hcode.append.1, hext⟩

theorem lay_s_let {x : Ref} {e : RExpr} (hcode : CodeAt C pos (emitS (.letS x e) pos lp cs).1) (hext : Ext (emitS (.letS x e) pos lp cs).2 CS) :
    CodeAt C pos (emitE e pos lp cs).1 ∧ Ext (emitE e pos lp cs).2 CS := by
  simp only [emitS] at hcode hext
  exact ⟨hcode.append.1, hext⟩

theorem lay_s_ret {e : RExpr} (hcode : CodeAt C pos (emitS (.ret e) pos lp cs).1) (hext : Ext (emitS (.ret e) pos lp cs).2 CS) :
    CodeAt C pos (emitE e pos lp cs).1 ∧ Ext (emitE e pos lp cs).2 CS := by
  simp only [emitS] at hcode hext
  exact ⟨hcode.append.1, hext⟩

theorem lay_s_block {b : RBlock} (hcode : CodeAt C pos (emitS (.block b) pos lp cs).1) (hext : Ext (emitS (.block b) pos lp cs).2 CS) :
    CodeAt C pos (emitB b pos lp cs).1 ∧ Ext (emitB b pos lp cs).2 CS := by
  simp only [emitS] at hcode hext
  exact ⟨hcode, hext⟩

theorem lay_b_cons {s : RStmt} {b : RBlock} (hcode : CodeAt C pos (emitB (.cons s b) pos lp cs).1) (hext : Ext (emitB (.cons s b) pos lp cs).2 CS) :
    (CodeAt C pos (emitS s pos lp cs).1 ∧ Ext (emitS s pos lp cs).2 CS) ∧
    (CodeAt C (pos + sizeS s) (emitB b (pos + sizeS s) lp (emitS s pos lp cs).2).1 ∧ Ext (emitB b (pos + sizeS s) lp (emitS s pos lp cs).2).2 CS) := by
  simp only [emitB] at hcode hext
  obtain ⟨hc1, hc2⟩ := hcode.append
  rw [emitS_size] at hc2
  exact ⟨⟨hc1, (emitB_ext b _ _ _).trans hext⟩, hc2, hext⟩

/-! #### blocks in value position -/

theorem lay_bv_expr {e : RExpr} (hcode : CodeAt C pos (asValue (.cons (.expr e) .nil) (emitB (.cons (.expr e) .nil) pos lp cs).1))
    (hext : Ext (emitB (.cons (.expr e) .nil) pos lp cs).2 CS) :
    CodeAt C pos (emitE e pos lp cs).1 ∧ Ext (emitE e pos lp cs).2 CS :=
  ⟨by simpa [asValue, RBlock.tailKind, emitB, emitS] using hcode, by simpa [emitB, emitS] using hext⟩

theorem lay_bv_block {s' : RStmt} {b'' : RBlock}
    (hcode : CodeAt C pos (asValue (.cons (.block (.cons s' b'')) .nil) (emitB (.cons (.block (.cons s' b'')) .nil) pos lp cs).1))
    (hext : Ext (emitB (.cons (.block (.cons s' b'')) .nil) pos lp cs).2 CS) :
    CodeAt C pos (asValue (.cons s' b'') (emitB (.cons s' b'') pos lp cs).1) ∧ Ext (emitB (.cons s' b'') pos lp cs).2 CS := by
  have e1 : (emitB (.cons (.block (.cons s' b'')) .nil) pos lp cs).1 = (emitB (.cons s' b'') pos lp cs).1 := by simp [emitB, emitS]
  have e2 : (emitB (.cons (.block (.cons s' b'')) .nil) pos lp cs).2 = (emitB (.cons s' b'') pos lp cs).2 := by simp [emitB, emitS]
  rw [e1] at hcode; rw [e2] at hext
  exact ⟨by simpa [asValue, RBlock.tailKind] using hcode, hext⟩

/-- a last statement that gives the block no value: its code, then `Null` -/
theorem lay_bv_other {s : RStmt} (hasv : ∀ is, asValue (.cons s .nil) is = is ++ [.null])
    (hcode : CodeAt C pos (asValue (.cons s .nil) (emitB (.cons s .nil) pos lp cs).1))
    (hext : Ext (emitB (.cons s .nil) pos lp cs).2 CS) :
    CodeAt C pos (emitS s pos lp cs).1 ∧ Ext (emitS s pos lp cs).2 CS := by
  rw [hasv] at hcode
  simp only [emitB, List.append_nil] at hcode hext
  exact ⟨hcode.append.1, hext⟩

theorem lay_bv_seq {s s2 : RStmt} {rest2 : RBlock}
    (hcode : CodeAt C pos (asValue (.cons s (.cons s2 rest2)) (emitB (.cons s (.cons s2 rest2)) pos lp cs).1))
    (hext : Ext (emitB (.cons s (.cons s2 rest2)) pos lp cs).2 CS) :
    (CodeAt C pos (emitS s pos lp cs).1 ∧ Ext (emitS s pos lp cs).2 CS) ∧
    (CodeAt C (pos + sizeS s) (asValue (.cons s2 rest2) (emitB (.cons s2 rest2) (pos + sizeS s) lp (emitS s pos lp cs).2).1) ∧
      Ext (emitB (.cons s2 rest2) (pos + sizeS s) lp (emitS s pos lp cs).2).2 CS) := by
  have e1 : (emitB (.cons s (.cons s2 rest2)) pos lp cs).1 =
      (emitS s pos lp cs).1 ++ (emitB (.cons s2 rest2) (pos + sizeS s) lp (emitS s pos lp cs).2).1 := by rw [emitB]
  have e2 : (emitB (.cons s (.cons s2 rest2)) pos lp cs).2 =
      (emitB (.cons s2 rest2) (pos + sizeS s) lp (emitS s pos lp cs).2).2 := by rw [emitB]
  rw [e1, asValue_seq] at hcode
  rw [e2] at hext
  obtain ⟨hc1, hc2⟩ := hcode.append
  rw [emitS_size] at hc2
  exact ⟨⟨hc1, (emitB_ext _ _ _ _).trans hext⟩, hc2, hext⟩

/-! #### function bodies -/

theorem lay_bf_expr {e : RExpr} (hcode : CodeAt C pos (asFnBody (.cons (.expr e) .nil) (emitB (.cons (.expr e) .nil) pos lp cs).1))
    (hext : Ext (emitB (.cons (.expr e) .nil) pos lp cs).2 CS) :
    CodeAt C pos (emitE e pos lp cs).1 ∧ Ext (emitE e pos lp cs).2 CS := by
  have h : CodeAt C pos ((emitE e pos lp cs).1 ++ [.retv]) := by simpa [asFnBody, RBlock.tailKind, emitB, emitS] using hcode
  exact ⟨h.append.1, by simpa [emitB, emitS] using hext⟩

theorem lay_bf_block {s' : RStmt} {b'' : RBlock}
    (hcode : CodeAt C pos (asFnBody (.cons (.block (.cons s' b'')) .nil) (emitB (.cons (.block (.cons s' b'')) .nil) pos lp cs).1))
    (hext : Ext (emitB (.cons (.block (.cons s' b'')) .nil) pos lp cs).2 CS) :
    CodeAt C pos (asFnBody (.cons s' b'') (emitB (.cons s' b'') pos lp cs).1) ∧ Ext (emitB (.cons s' b'') pos lp cs).2 CS := by
  have e1 : (emitB (.cons (.block (.cons s' b'')) .nil) pos lp cs).1 = (emitB (.cons s' b'') pos lp cs).1 := by simp [emitB, emitS]
  have e2 : (emitB (.cons (.block (.cons s' b'')) .nil) pos lp cs).2 = (emitB (.cons s' b'') pos lp cs).2 := by simp [emitB, emitS]
  rw [e1] at hcode; rw [e2] at hext
  exact ⟨by simpa [asFnBody, RBlock.tailKind] using hcode, hext⟩

/-- a last statement that is neither an expression statement nor a non-empty block: its code, then the epilogue -/
theorem lay_bf_other {s : RStmt} (tl : List Instr) (hasf : ∀ is, asFnBody (.cons s .nil) is = is ++ tl)
    (hcode : CodeAt C pos (asFnBody (.cons s .nil) (emitB (.cons s .nil) pos lp cs).1))
    (hext : Ext (emitB (.cons s .nil) pos lp cs).2 CS) :
    CodeAt C pos (emitS s pos lp cs).1 ∧ Ext (emitS s pos lp cs).2 CS := by
  rw [hasf] at hcode
  simp only [emitB, List.append_nil] at hcode hext
  exact ⟨hcode.append.1, hext⟩

theorem lay_bf_seq {s s2 : RStmt} {rest2 : RBlock}
    (hcode : CodeAt C pos (asFnBody (.cons s (.cons s2 rest2)) (emitB (.cons s (.cons s2 rest2)) pos lp cs).1))
    (hext : Ext (emitB (.cons s (.cons s2 rest2)) pos lp cs).2 CS) :
    (CodeAt C pos (emitS s pos lp cs).1 ∧ Ext (emitS s pos lp cs).2 CS) ∧
    (CodeAt C (pos + sizeS s) (asFnBody (.cons s2 rest2) (emitB (.cons s2 rest2) (pos + sizeS s) lp (emitS s pos lp cs).2).1) ∧
      Ext (emitB (.cons s2 rest2) (pos + sizeS s) lp (emitS s pos lp cs).2).2 CS) := by
  have e1 : (emitB (.cons s (.cons s2 rest2)) pos lp cs).1 =
      (emitS s pos lp cs).1 ++ (emitB (.cons s2 rest2) (pos + sizeS s) lp (emitS s pos lp cs).2).1 := by rw [emitB]
  have e2 : (emitB (.cons s (.cons s2 rest2)) pos lp cs).2 =
      (emitB (.cons s2 rest2) (pos + sizeS s) lp (emitS s pos lp cs).2).2 := by rw [emitB]
  rw [e1, SimF.asFnBody_seq] at hcode
  rw [e2] at hext
  obtain ⟨hc1, hc2⟩ := hcode.append
  rw [emitS_size] at hc2
  exact ⟨⟨hc1, (emitB_ext _ _ _ _).trans hext⟩, hc2, hext⟩

end
end Sim7
end Nl
