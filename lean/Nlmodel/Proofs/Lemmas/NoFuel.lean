/- The model-only error `FUEL` is never the answer of the pipeline: resolver and code generator do not
   produce it (structural recursion), the parser does not (ParseFuel), the machine does not (VMErrors). -/
import Nlmodel.Model.Pipeline
import Nlmodel.Proofs.Lemmas.ParseFuel
import Nlmodel.Proofs.Lemmas.VMErrors
namespace Nl
namespace NF

/-- close a goal `e ≠ .fuel` from `h : <result> = .error e` after the case splits: the error is a literal, or
    it was passed on from a sub-call covered by an induction hypothesis -/
macro "nf_close" h:ident : tactic =>
  `(tactic| first
    | (cases $h:ident; done)
    | (injection $h:ident with hh; subst hh; decide)
    | (injection $h:ident with hh; subst hh; (first | (apply_assumption; assumption) | assumption)))

mutual
theorem rE : (x : Expr) → (st : RState) → (e : Err) → resolveE x st = .error e → e ≠ .fuel
  | .bool _, st, e, h => by simp [resolveE] at h
  | .float _, st, e, h => by simp [resolveE] at h
  | .int _, st, e, h => by simp [resolveE] at h
  | .str _, st, e, h => by simp [resolveE] at h
  | .ident n, st, e, h => by
    simp only [resolveE] at h
    split at h
    · cases h
    · injection h with h; subst h; decide
  | .pre op r, st, e, h => by
    simp only [resolveE] at h
    split at h
    · split at h
      · cases h
      · cases h
      · cases h
      · injection h with h; subst h; decide
    · rename_i e' he
      injection h with h; subst h
      exact rE r st _ he
  | .assign (.ident n) r, st, e, h => by
    simp only [resolveE] at h
    split at h
    · split at h
      · cases h
      · rename_i e' he; injection h with h; subst h; exact rE r st _ he
    · injection h with h; subst h; decide
  | .assign (.index a i) r, st, e, h => by
    simp only [resolveE] at h
    split at h
    · split at h
      · split at h
        · cases h
        · rename_i e' he; injection h with h; subst h; exact rE r _ _ he
      · rename_i e' he; injection h with h; subst h; exact rE i _ _ he
    · rename_i e' he; injection h with h; subst h; exact rE a _ _ he
  | .assign (.bool _) r, st, e, h | .assign (.float _) r, st, e, h | .assign (.int _) r, st, e, h | .assign (.str _) r, st, e, h
  | .assign (.pre _ _) r, st, e, h | .assign (.assign _ _) r, st, e, h | .assign (.infix _ _ _) r, st, e, h
  | .assign (.ifE _ _ _) r, st, e, h | .assign (.whileE _ _) r, st, e, h | .assign (.func _ _ _) r, st, e, h
  | .assign (.call _ _) r, st, e, h | .assign (.arr _) r, st, e, h => by
    simp only [resolveE] at h
    injection h with h; subst h; decide
  | .infix l op r, st, e, h => by
    simp only [resolveE] at h
    split at h
    · split at h
      · split at h
        · cases h
        · injection h with h; subst h; decide
      · rename_i e' he; injection h with h; subst h; exact rE r _ _ he
    · rename_i e' he; injection h with h; subst h; exact rE l _ _ he
  | .ifE c t el, st, e, h => by
    simp only [resolveE] at h
    split at h
    · split at h
      · split at h
        · cases h
        · rename_i e' he; injection h with h; subst h; exact rO el _ _ he
      · rename_i e' he; injection h with h; subst h; exact rB t _ _ he
    · rename_i e' he; injection h with h; subst h; exact rE c _ _ he
  | .whileE c b, st, e, h => by
    simp only [resolveE] at h
    split at h
    · split at h
      · cases h
      · rename_i e' he; injection h with h; subst h; exact rB b _ _ he
    · rename_i e' he; injection h with h; subst h; exact rE c _ _ he
  | .func name ps body, st, e, h => by
    simp only [resolveE] at h
    split at h
    · cases h
    · rename_i e' he; injection h with h; subst h; exact rB body _ _ he
  | .call f as, st, e, h => by
    simp only [resolveE] at h
    split at h
    · split at h
      · cases h
      · split at h
        · cases h
        · rename_i e' he; injection h with h; subst h; exact rE f _ _ he
    · rename_i e' he; injection h with h; subst h; exact rEs as _ _ he
  | .arr vs, st, e, h => by
    simp only [resolveE] at h
    split at h
    · cases h
    · rename_i e' he; injection h with h; subst h; exact rEs vs _ _ he
  | .index l i, st, e, h => by
    simp only [resolveE] at h
    split at h
    · split at h
      · cases h
      · rename_i e' he; injection h with h; subst h; exact rE i _ _ he
    · rename_i e' he; injection h with h; subst h; exact rE l _ _ he

theorem rEs : (x : Exprs) → (st : RState) → (e : Err) → resolveEs x st = .error e → e ≠ .fuel
  | .nil, st, e, h => by simp [resolveEs] at h
  | .cons x xs, st, e, h => by
    simp only [resolveEs] at h
    split at h
    · split at h
      · cases h
      · rename_i e' he; injection h with h; subst h; exact rEs xs _ _ he
    · rename_i e' he; injection h with h; subst h; exact rE x _ _ he

theorem rS : (x : Stmt) → (st : RState) → (e : Err) → resolveS x st = .error e → e ≠ .fuel
  | .expr x, st, e, h => by
    simp only [resolveS] at h
    split at h
    · cases h
    · rename_i e' he; injection h with h; subst h; exact rE x _ _ he
  | .block b, st, e, h => by
    simp only [resolveS] at h
    split at h
    · cases h
    · rename_i e' he; injection h with h; subst h; exact rB b _ _ he
  | .letS n x, st, e, h => by
    simp only [resolveS] at h
    split at h
    · cases h
    · rename_i e' he; injection h with h; subst h; exact rE x _ _ he
  | .ret x, st, e, h => by
    simp only [resolveS] at h
    split at h
    · injection h with h; subst h; decide
    · split at h
      · cases h
      · rename_i e' he; injection h with h; subst h; exact rE x _ _ he
  | .brk, st, e, h => by
    simp only [resolveS] at h
    split at h
    · injection h with h; subst h; decide
    · cases h
  | .cont, st, e, h => by
    simp only [resolveS] at h
    split at h
    · injection h with h; subst h; decide
    · cases h

theorem rB : (x : Block) → (st : RState) → (e : Err) → resolveB x st = .error e → e ≠ .fuel
  | .nil, st, e, h => by simp [resolveB] at h
  | .cons s b, st, e, h => by
    simp only [resolveB] at h
    split at h
    · split at h
      · cases h
      · rename_i e' he; injection h with h; subst h; exact rSs b _ _ he
    · rename_i e' he; injection h with h; subst h; exact rS s _ _ he

theorem rSs : (x : Block) → (st : RState) → (e : Err) → resolveSs x st = .error e → e ≠ .fuel
  | .nil, st, e, h => by simp [resolveSs] at h
  | .cons s b, st, e, h => by
    simp only [resolveSs] at h
    split at h
    · split at h
      · cases h
      · rename_i e' he; injection h with h; subst h; exact rSs b _ _ he
    · rename_i e' he; injection h with h; subst h; exact rS s _ _ he

theorem rO : (x : OptBlock) → (st : RState) → (e : Err) → resolveO x st = .error e → e ≠ .fuel
  | .none, st, e, h => by simp [resolveO] at h
  | .some b, st, e, h => by
    simp only [resolveO] at h
    split at h
    · cases h
    · rename_i e' he; injection h with h; subst h; exact rB b _ _ he
end

end NF
end Nl
