"""Boundary lattice of integers (C06/C15) and float / string samples."""
MAXI = 2 ** 60 - 1
MINI = -(2 ** 60)


def int_lattice(ks):
    s = {0, 1, -1, 2, -2, 7, -7, MAXI, MINI, MAXI - 1, MINI + 1}
    for k in ks:
        for d in (-1, 0, 1):
            for sg in (1, -1):
                v = sg * (2 ** k + d)
                if MINI <= v <= MAXI:
                    s.add(v)
    return sorted(s)


QUICK_KS = [0, 1, 2, 3, 4, 15, 16, 29, 30, 31, 32, 33, 58, 59, 60]
ALL_KS = list(range(0, 61))

FLOAT_BITS = [
    0x0000000000000000, 0x8000000000000000, 0x3FF0000000000000, 0xBFF0000000000000, 0x7FF0000000000000,
    0xFFF0000000000000, 0x7FF8000000000000, 0x0000000000000001, 0x000FFFFFFFFFFFFF, 0x0010000000000000,
    0x7FEFFFFFFFFFFFFF, 0x3FB999999999999A, 0x4016333333333333, 0x4340000000000000, 0x433FFFFFFFFFFFFF,
    0x3CB0000000000000, 0x4059000000000000, 0xC00921FB54442D18, 0x3FE0000000000000, 0x4000000000000000,
]

STRINGS = ["", "a", "b", "ab", "abc", "B", "é", "ée", "z", "日本", "😀", " ", "a b", "10", "9", "{}", "\\", "\""]


def rand_int61(rng):
    c = rng.below(4)
    if c == 0:
        return rng.range(-100, 100)
    if c == 1:
        k = rng.range(0, 60)
        return max(MINI, min(MAXI, (1 if rng.chance(1, 2) else -1) * (rng.next() % (2 ** k + 1))))
    v = rng.next() % (2 ** 61) - 2 ** 60
    return v
