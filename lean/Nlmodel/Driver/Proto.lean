/- Line-protocol helpers of the driver: hex <-> text, token printing. Not part of the verified model. -/
import Nlmodel.Model.Parser
namespace Nl

def hexVal (c : Char) : Option Nat :=
  if '0' ≤ c ∧ c ≤ '9' then some (c.toNat - 48)
  else if 'a' ≤ c ∧ c ≤ 'f' then some (c.toNat - 87)
  else if 'A' ≤ c ∧ c ≤ 'F' then some (c.toNat - 55)
  else none

def unhexBytes : List Char → Option (List UInt8)
  | [] => some []
  | a :: b :: r =>
    match hexVal a, hexVal b, unhexBytes r with
    | some x, some y, some rest => some (UInt8.ofNat (x * 16 + y) :: rest)
    | _, _, _ => none
  | _ => none

/-- `x<hex of utf-8>` → text -/
def unhexText (s : String) : Option Text :=
  match s.toList with
  | 'x' :: r =>
    match unhexBytes r with
    | some bs =>
      match String.fromUTF8? (ByteArray.mk bs.toArray) with
      | some str => some str.toList
      | none => none
    | none => none
  | _ => none

def Token.show : Token → String
  | .ident s => "Identifier:" ++ hexText s
  | .int s => "Int:" ++ hexText s
  | .float s => "Float:" ++ hexText s
  | .str s => "String:" ++ hexText s
  | .kwIf => "If" | .kwElse => "Else" | .kwReturn => "Return" | .kwFunc => "Func"
  | .kwWhile => "While" | .kwDeclare => "Declare" | .kwTrue => "True" | .kwFalse => "False"
  | .kwBreak => "Break" | .kwContinue => "Continue"
  | .lte => "Lte" | .gte => "Gte" | .eq => "Eq" | .neq => "Neq" | .and => "And" | .or => "Or"
  | .assign => "Assign" | .semi => "Semi" | .comma => "Comma" | .dot => "Dot"
  | .lparen => "OpenParen" | .rparen => "CloseParen" | .lbrace => "OpenBrace" | .rbrace => "CloseBrace"
  | .lbracket => "OpenBracket" | .rbracket => "CloseBracket"
  | .bang => "Bang" | .lt => "Lt" | .gt => "Gt" | .minus => "Minus" | .plus => "Plus"
  | .star => "Star" | .slash => "Slash" | .caret => "Caret" | .percent => "Percent"
  | .illegal => "Illegal" | .eof => "Eof"

def Token.ofShow (s : String) : Option Token :=
  match s.splitOn ":" with
  | ["Identifier", h] => (unhexText h).map .ident
  | ["Int", h] => (unhexText h).map .int
  | ["Float", h] => (unhexText h).map .float
  | ["String", h] => (unhexText h).map .str
  | [w] =>
    match w with
    | "If" => some .kwIf | "Else" => some .kwElse | "Return" => some .kwReturn | "Func" => some .kwFunc
    | "While" => some .kwWhile | "Declare" => some .kwDeclare | "True" => some .kwTrue | "False" => some .kwFalse
    | "Break" => some .kwBreak | "Continue" => some .kwContinue
    | "Lte" => some .lte | "Gte" => some .gte | "Eq" => some .eq | "Neq" => some .neq | "And" => some .and | "Or" => some .or
    | "Assign" => some .assign | "Semi" => some .semi | "Comma" => some .comma | "Dot" => some .dot
    | "OpenParen" => some .lparen | "CloseParen" => some .rparen | "OpenBrace" => some .lbrace | "CloseBrace" => some .rbrace
    | "OpenBracket" => some .lbracket | "CloseBracket" => some .rbracket
    | "Bang" => some .bang | "Lt" => some .lt | "Gt" => some .gt | "Minus" => some .minus | "Plus" => some .plus
    | "Star" => some .star | "Slash" => some .slash | "Caret" => some .caret | "Percent" => some .percent
    | _ => none
  | _ => none

end Nl
