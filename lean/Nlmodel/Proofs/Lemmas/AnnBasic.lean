/- Basic facts about the annotated code: it is the emitted code, sizes, first entries. -/
import Nlmodel.Proofs.Lemmas.AnnDefs
import Nlmodel.Proofs.Lemmas.EmitSize
namespace Nl
namespace CV
open Verifier

/-! ## sizes, splitting -/

theorem asize_eq (L : List AI) : asize L = codeSize (L.map (·.1)) := by
  induction L with
  | nil => rfl
  | cons x r ih => simp [asize, ih]

@[simp] theorem asize_nil : asize [] = 0 := rfl
@[simp] theorem asize_cons (x : AI) (r : List AI) : asize (x :: r) = x.1.size + asize r := rfl
@[simp] theorem asize_append (a b : List AI) : asize (a ++ b) = asize a + asize b := by
  induction a with
  | nil => simp
  | cons x r ih => simp [ih, Nat.add_assoc]

theorem Seg_append (c : Cert) (a b : List AI) : ∀ p, Seg c p (a ++ b) ↔ Seg c p a ∧ Seg c (p + asize a) b := by
  induction a with
  | nil => intro p; simp [Seg]
  | cons x r ih =>
    intro p
    simp only [List.cons_append, Seg, ih, asize_cons, Nat.add_assoc, and_assoc]

theorem Chk_append (c : Cert) (fns : List (Nat × Nat)) (n : Nat) (a b : List AI) :
    ∀ p, Chk c fns n p (a ++ b) ↔ Chk c fns n p a ∧ Chk c fns n (p + asize a) b := by
  induction a with
  | nil => intro p; simp [Chk]
  | cons x r ih =>
    intro p
    simp only [List.cons_append, Chk, ih, asize_cons, Nat.add_assoc, and_assoc]

/-! ## the annotated code is the emitted code -/

/-- value mode drops the final `Pop` of a value-tailed block -/
def trim (v : Bool) (k : TailKind) (c : List Instr) : List Instr :=
  if v = true ∧ k = .value then c.dropLast else c

theorem trim_false (k : TailKind) (c : List Instr) : trim false k c = c := by simp [trim]

theorem trim_append (v : Bool) (k : TailKind) (a b : List Instr) (hb : k = .value → ∃ b', b = b' ++ [.pop]) :
    trim v k (a ++ b) = a ++ trim v k b := by
  unfold trim
  split
  · rename_i h
    obtain ⟨b', rfl⟩ := hb h.2
    rw [← List.append_assoc, List.dropLast_concat, List.dropLast_concat]
  · rfl

theorem tailKind_cons_cons (s s2 : RStmt) (b2 : RBlock) :
    (RBlock.cons s (.cons s2 b2)).tailKind = (RBlock.cons s2 b2).tailKind := by
  cases s <;> rfl

theorem map_popIf (v : Bool) (o h : Nat) : (popIf v o h).map (·.1) = if v then [] else [Instr.pop] := by
  cases v <;> rfl

theorem map_valWrap (b : RBlock) (L : List AI) (o h : Nat) (c : List Instr)
    (hL : L.map (·.1) = trim true b.tailKind c) : (valWrap b L o h).map (·.1) = asValue b c := by
  cases b with
  | nil => rfl
  | cons s b' =>
    simp only [valWrap, asValue]
    cases hk : (RBlock.cons s b').tailKind with
    | value => simp [hL, hk, trim]
    | returns => simp [hL, hk, trim]
    | other => simp [hL, hk, trim]

theorem map_fnWrap (b : RBlock) (L : List AI) (e : Nat) (c : List Instr)
    (hL : L.map (·.1) = trim true b.tailKind c) : (fnWrap b L e).map (·.1) = asFnBody b c := by
  cases b with
  | nil => rfl
  | cons s b' =>
    simp only [fnWrap, asFnBody]
    cases hk : (RBlock.cons s b').tailKind with
    | value => simp [hL, hk, trim]
    | returns => simp [hL, hk, trim]
    | other => simp [hL, hk, trim]

mutual
theorem mapE : (e : RExpr) → ∀ pos lp cs o h, (annE e pos lp cs o h).map (·.1) = (emitE e pos lp cs).1
  | .int _, _, _, _, _, _ => by simp [annE, emitE]
  | .float _, _, _, _, _, _ => by simp [annE, emitE]
  | .str _, _, _, _, _, _ => by simp [annE, emitE]
  | .bool _, _, _, _, _, _ => by simp [annE, emitE]
  | .var _, _, _, _, _, _ => by simp [annE, emitE]
  | .not r, pos, lp, cs, o, h => by simp [annE, emitE, mapE r]
  | .neg r, pos, lp, cs, o, h => by simp [annE, emitE, mapE r]
  | .assignVar _ e, pos, lp, cs, o, h => by simp [annE, emitE, mapE e]
  | .assignIndex l i v, pos, lp, cs, o, h => by simp [annE, emitE, mapE l, mapE i, mapE v]
  | .infix l op r, pos, lp, cs, o, h => by
    simp only [annE, emitE]
    cases hf : fusedCandidate l op r with
    | none => simp [mapE l, mapE r]
    | some p => obtain ⟨o', k, v⟩ := p; simp
  | .ifE c t e, pos, lp, cs, o, h => by
    simp only [annE, emitE, List.map_append, mapE c, mapO e,
      map_valWrap t _ o h _ (mapB t true _ lp _ o h)]
    simp
  | .whileE c b, pos, lp, cs, o, h => by
    simp only [annE, emitE, List.map_append, mapE c,
      map_valWrap b _ o h _ (mapB b true _ _ _ o h)]
    simp
  | .func _ self _ nl body, pos, lp, cs, o, h => by
    simp only [annE, emitE, List.map_append, map_fnWrap body _ _ _ (mapB body true _ none _ _ 0)]
    cases self <;> simp
  | .call f as, pos, lp, cs, o, h => by simp [annE, emitE, mapEs as, mapE f]
  | .callBuiltin _ as, pos, lp, cs, o, h => by simp [annE, emitE, mapEs as]
  | .arr vs, pos, lp, cs, o, h => by simp [annE, emitE, mapEs vs]
  | .index l i, pos, lp, cs, o, h => by simp [annE, emitE, mapE l, mapE i]
theorem mapEs : (es : RExprs) → ∀ pos lp cs o h, (annEs es pos lp cs o h).map (·.1) = (emitEs es pos lp cs).1
  | .nil, _, _, _, _, _ => by simp [annEs, emitEs]
  | .cons e es, pos, lp, cs, o, h => by simp [annEs, emitEs, mapE e, mapEs es]
theorem mapS : (s : RStmt) → ∀ v pos lp cs o h,
    (annS v s pos lp cs o h).map (·.1) = trim v (stk s) (emitS s pos lp cs).1
  | .expr e, v, pos, lp, cs, o, h => by
    cases v <;> simp [annS, emitS, mapE e, trim, stk, RBlock.tailKind, popIf]
  | .letS _ e, v, pos, lp, cs, o, h => by simp [annS, emitS, mapE e, trim, stk, RBlock.tailKind]
  | .ret e, v, pos, lp, cs, o, h => by simp [annS, emitS, mapE e, trim, stk, RBlock.tailKind]
  | .block b, v, pos, lp, cs, o, h => by
    simp only [annS, emitS, stk, RBlock.tailKind]; exact mapB b v pos lp cs o h
  | .brk, v, pos, lp, cs, o, h => by
    rcases lp with _ | ⟨a, b⟩ <;> simp [annS, emitS, trim, stk, RBlock.tailKind]
  | .cont, v, pos, lp, cs, o, h => by
    rcases lp with _ | ⟨a, b⟩ <;> simp [annS, emitS, trim, stk, RBlock.tailKind]
theorem mapB : (b : RBlock) → ∀ v pos lp cs o h,
    (annB v b pos lp cs o h).map (·.1) = trim v b.tailKind (emitB b pos lp cs).1
  | .nil, v, _, _, _, _, _ => by simp [annB, emitB, trim, RBlock.tailKind]
  | .cons s .nil, v, pos, lp, cs, o, h => by
    simp only [annB, emitB, RBlock.isEmpty, Bool.and_true, List.append_nil]
    exact mapS s v pos lp cs o h
  | .cons s (.cons s2 b2), v, pos, lp, cs, o, h => by
    rw [annB, emitB]
    simp only [RBlock.isEmpty, Bool.and_false, List.map_append, mapS s false, trim_false,
      mapB (.cons s2 b2) v, tailKind_cons_cons]
    rw [trim_append]
    intro hk
    exact emitB_value_tail _ _ _ _ hk
theorem mapO : (x : ROptBlock) → ∀ pos lp cs o h, (annO x pos lp cs o h).map (·.1) = (emitO x pos lp cs).1
  | .none, _, _, _, _, _ => by simp [annO, emitO]
  | .some b, pos, lp, cs, o, h => by
    simp only [annO, emitO]
    exact map_valWrap b _ o h _ (mapB b true pos lp cs o h)
end

end CV
end Nl
