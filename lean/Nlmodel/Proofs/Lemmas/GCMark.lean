/- Lemmas about the mark phase of Model/GC (port of design-notes/feasibility_gc_mark.lean to the
   real model: values, managed list, heap cells). -/
import Nlmodel.Model.GC
namespace Nl
namespace GC

/-- number of managed objects not yet marked: the measure that bounds the recursion of `mark` -/
def unmarked (U M : List Nat) : Nat := (U.filter (fun x => !M.contains x)).length

theorem unmarked_cons_le (U M : List Nat) (a : Nat) : unmarked U (a :: M) ≤ unmarked U M := by
  unfold unmarked
  induction U with
  | nil => simp
  | cons u U ih =>
    simp only [List.filter_cons]
    by_cases h1 : u = a <;> by_cases h2 : M.contains u <;> simp_all <;> omega

theorem unmarked_cons_lt (U M : List Nat) (a : Nat) (ha : a ∈ U) (hM : a ∉ M) :
    unmarked U (a :: M) < unmarked U M := by
  unfold unmarked
  induction U with
  | nil => simp at ha
  | cons u U ih =>
    simp only [List.filter_cons]
    by_cases h1 : u = a
    · subst h1
      have := unmarked_cons_le U M u
      unfold unmarked at this
      simp_all; omega
    · have ha' : a ∈ U := by simpa [Ne.symm h1] using ha
      have := ih ha'
      by_cases h2 : M.contains u <;> simp_all <;> omega

theorem unmarked_mono (U M M' : List Nat) (h : ∀ x, x ∈ M → x ∈ M') : unmarked U M' ≤ unmarked U M := by
  unfold unmarked
  induction U with
  | nil => simp
  | cons u U ih =>
    simp only [List.filter_cons]
    by_cases h2 : M.contains u
    · have : M'.contains u := by simp at h2 ⊢; exact h _ h2
      simp_all
    · by_cases h3 : M'.contains u <;> simp_all <;> omega

theorem unmarked_le_length (U M : List Nat) : unmarked U M ≤ U.length := by
  unfold unmarked; exact List.length_filter_le _ _

/-- a scalar-box value (float/string) never points at an array cell -/
def KindOK (h : Heap) (v : Value) : Prop :=
  match v with
  | .float a | .str a => h.arrAt a = []
  | _ => True

/-- every value stored in an array of the heap is kind-correct -/
def HeapKindOK (h : Heap) : Prop := ∀ a v, v ∈ h.arrAt a → KindOK h v

/-- what one call of `mark` establishes: marks only grow, only managed addresses are added, and
    every address added by this call has all its managed array elements marked -/
structure Post (h : Heap) (man M M' : List Nat) : Prop where
  mono : ∀ x, x ∈ M → x ∈ M'
  managed : ∀ x, x ∈ M' → x ∉ M → x ∈ man
  closed : ∀ x v b, x ∈ M' → x ∉ M → v ∈ h.arrAt x → v.addr? = some b → b ∈ man → b ∈ M'

theorem Post.refl (h : Heap) (man M : List Nat) : Post h man M M :=
  ⟨fun _ hx => hx, fun _ hx hn => absurd hx hn, fun _ _ _ hx hn => absurd hx hn⟩

theorem Post.trans {h : Heap} {man M1 M2 M3 : List Nat} (p12 : Post h man M1 M2) (p23 : Post h man M2 M3) :
    Post h man M1 M3 := by
  refine ⟨fun x hx => p23.mono x (p12.mono x hx), ?_, ?_⟩
  · intro x hx hn
    by_cases h2 : x ∈ M2
    · exact p12.managed x h2 hn
    · exact p23.managed x hx h2
  · intro x v b hx hn hv hb hm
    by_cases h2 : x ∈ M2
    · exact p23.mono _ (p12.closed x v b h2 hn hv hb hm)
    · exact p23.closed x v b hx h2 hv hb hm

theorem contains_iff (l : List Nat) (a : Nat) : l.contains a = true ↔ a ∈ l := by simp

/-- `mark` with enough fuel: the value's own address (if managed) is marked and `Post` holds -/
theorem mark_complete (h : Heap) (man : List Nat) (hk : HeapKindOK h) :
    ∀ f M v, KindOK h v → unmarked man M < f →
      (∀ a, v.addr? = some a → a ∈ man → a ∈ mark h man f M v) ∧ Post h man M (mark h man f M v) := by
  intro f
  induction f with
  | zero => intro M v _ hlt; omega
  | succ f ih =>
    intro M v hv hlt
    cases v with
    | null => exact ⟨fun a ha => by simp [Value.addr?] at ha, Post.refl h man M⟩
    | bool b => exact ⟨fun a ha => by simp [Value.addr?] at ha, Post.refl h man M⟩
    | int i => exact ⟨fun a ha => by simp [Value.addr?] at ha, Post.refl h man M⟩
    | fn i n => exact ⟨fun a ha => by simp [Value.addr?] at ha, Post.refl h man M⟩
    | float a =>
      simp only [mark]
      by_cases hc : (man.contains a && !M.contains a) = true
      · rw [if_pos hc]
        simp only [Bool.and_eq_true, Bool.not_eq_true', contains_iff] at hc
        refine ⟨fun b hb _ => by simp [Value.addr?] at hb; subst hb; exact List.mem_cons_self, ?_⟩
        refine ⟨fun x hx => List.mem_cons_of_mem _ hx, ?_, ?_⟩
        · intro x hx hn
          cases List.mem_cons.1 hx with
          | inl e => subst e; exact hc.1
          | inr e => exact absurd e hn
        · intro x w b hx hn hw _ _
          cases List.mem_cons.1 hx with
          | inl e => subst e; have : h.arrAt x = [] := hv; rw [this] at hw; cases hw
          | inr e => exact absurd e hn
      · rw [if_neg hc]
        refine ⟨?_, Post.refl h man M⟩
        intro b hb hm
        simp [Value.addr?] at hb; subst hb
        have : man.contains a = true := (contains_iff man a).mpr hm
        simp only [this, Bool.true_and, Bool.not_eq_true', Bool.not_eq_false] at hc
        exact (contains_iff M a).mp (by simpa using hc)
    | str a =>
      simp only [mark]
      by_cases hc : (man.contains a && !M.contains a) = true
      · rw [if_pos hc]
        simp only [Bool.and_eq_true, Bool.not_eq_true', contains_iff] at hc
        refine ⟨fun b hb _ => by simp [Value.addr?] at hb; subst hb; exact List.mem_cons_self, ?_⟩
        refine ⟨fun x hx => List.mem_cons_of_mem _ hx, ?_, ?_⟩
        · intro x hx hn
          cases List.mem_cons.1 hx with
          | inl e => subst e; exact hc.1
          | inr e => exact absurd e hn
        · intro x w b hx hn hw _ _
          cases List.mem_cons.1 hx with
          | inl e => subst e; have : h.arrAt x = [] := hv; rw [this] at hw; cases hw
          | inr e => exact absurd e hn
      · rw [if_neg hc]
        refine ⟨?_, Post.refl h man M⟩
        intro b hb hm
        simp [Value.addr?] at hb; subst hb
        have : man.contains a = true := (contains_iff man a).mpr hm
        simp only [this, Bool.true_and, Bool.not_eq_true', Bool.not_eq_false] at hc
        exact (contains_iff M a).mp (by simpa using hc)
    | arr a =>
      simp only [mark]
      by_cases hc : (man.contains a && !M.contains a) = true
      · rw [if_pos hc]
        simp only [Bool.and_eq_true, Bool.not_eq_true', contains_iff] at hc
        have ham : a ∈ man := hc.1
        have hnm : a ∉ M := by
          intro hm
          have := (contains_iff M a).mpr hm
          rw [this] at hc
          exact absurd hc.2 (by simp)
        have hlt' : unmarked man (a :: M) < f := by
          have := unmarked_cons_lt man M a ham hnm; omega
        -- folding `mark` over the elements keeps Post and marks each (managed) element
        have fold : ∀ (l : List Value) (N : List Nat), (∀ e ∈ l, KindOK h e) → unmarked man N < f →
            (∀ e ∈ l, ∀ b, e.addr? = some b → b ∈ man → b ∈ l.foldl (mark h man f) N)
            ∧ Post h man N (l.foldl (mark h man f) N) := by
          intro l
          induction l with
          | nil => intro N _ _; exact ⟨fun e he => (nomatch he), Post.refl h man N⟩
          | cons e l ihl =>
            intro N hl hN
            simp only [List.foldl_cons]
            obtain ⟨he, pe⟩ := ih N e (hl e List.mem_cons_self) hN
            have hN' : unmarked man (mark h man f N e) < f :=
              Nat.lt_of_le_of_lt (unmarked_mono man N _ pe.mono) hN
            obtain ⟨hall, pl⟩ := ihl (mark h man f N e) (fun x hx => hl x (List.mem_cons_of_mem _ hx)) hN'
            refine ⟨?_, pe.trans pl⟩
            intro x hx b hb hm
            cases List.mem_cons.1 hx with
            | inl h1 => subst h1; exact pl.mono _ (he b hb hm)
            | inr h1 => exact hall x h1 b hb hm
        obtain ⟨hall, pf⟩ := fold (h.arrAt a) (a :: M) (fun e he => hk a e he) hlt'
        refine ⟨fun b hb _ => by simp [Value.addr?] at hb; subst hb; exact pf.mono _ List.mem_cons_self, ?_⟩
        refine ⟨fun x hx => pf.mono _ (List.mem_cons_of_mem _ hx), ?_, ?_⟩
        · intro x hx hn
          by_cases hxa : x = a
          · subst hxa; exact ham
          · exact pf.managed x hx (by simp [hxa, hn])
        · intro x w b hx hn hw hb hm
          by_cases hxa : x = a
          · subst hxa; exact hall w hw b hb hm
          · exact pf.closed x w b hx (by simp [hxa, hn]) hw hb hm
      · rw [if_neg hc]
        refine ⟨?_, Post.refl h man M⟩
        intro b hb hm
        simp [Value.addr?] at hb; subst hb
        have : man.contains a = true := (contains_iff man a).mpr hm
        simp only [this, Bool.true_and, Bool.not_eq_true', Bool.not_eq_false] at hc
        exact (contains_iff M a).mp (by simpa using hc)

end GC
end Nl
