/- Stage 7, divergence preservation at the level of source texts, with the hypotheses of `C01_nested_functions_eval_text`
   (validation of the resolver's output) and of `C01_nested_functions_eval_text_no_validation` (source check `src7Top`);
   and the converse of the forward theorems. -/
import Nlmodel.Proofs.Lemmas.Div7Top
import Nlmodel.Proofs.Lemmas.Div6Text
import Nlmodel.Proofs.Lemmas.Resolve7Top
namespace Nl
namespace Sim7
open Spec Sim Sim6

/-- (T2, stage 7, source class, no validation) the hypotheses of `program7_syntactic` -/
theorem program_div7_syntactic (ast : Block) (r : RBlock) (bc : Bytecode) (hc : compileProgram ast = .ok (r, bc)) (hin : S7Top ast)
    (hdiv : ∀ F, Spec.evalB F r {} = .fuel) (n : Nat) :
    (∃ s', runSteps bc.code n (VM.start {} bc) = .budget s') ∨
    HitsLimit bc := by
  unfold compileProgram at hc
  cases hr : resolveProgram ast with
  | error e => simp [hr] at hc
  | ok r' =>
    simp only [hr] at hc
    cases hcr : compileR r' with
    | error e => simp [hcr] at hc
    | ok bc' =>
      simp only [hcr] at hc
      injection hc with hc; injection hc with h1 h2; subst h1; subst h2
      obtain ⟨Γ', hy⟩ := resolve_ztop7 ast hin r' hr
      exact top_div7 r' Γ' hy (resolve_fids_distinct ast r' hr) bc' hcr hdiv n

/-- from the machine run to `eval` on the text -/
theorem evalText_of_noEnd {cc : CharClass} {src : Text} {ast : Block} {r : RBlock} {bc : Bytecode} (hp : parse cc src = .ok ast)
    (hc : compileProgram ast = .ok (r, bc)) {b : Nat}
    (h : (∃ s', runSteps bc.code b (VM.start {} bc) = .budget s') ∨
      HitsLimit bc) :
    evalText cc b src = .budget ∨ TextHitsLimit cc src := by
  rcases h with ⟨s', hb⟩ | hlim
  · left
    simp only [evalText, hp, hc, VM.run, hb]
  · exact .inr (TextHitsLimit.of hp hc hlim)

/-- (T3, stage 7) DIVERGENCE PRESERVATION ON TEXTS, nested function literals — the hypotheses of
    `C01_nested_functions_eval_text` -/
theorem eval_text7_div (cc : CharClass) (src : Text) (ast : Block) (r : RBlock) (bc : Bytecode) (hp : parse cc src = .ok ast)
    (hc : compileProgram ast = .ok (r, bc)) (hin : inFragment7 r = true) (hdiv : ∀ F, specText cc F src = .budget) (b : Nat) :
    evalText cc b src = .budget ∨ TextHitsLimit cc src :=
  evalText_of_noEnd hp hc (program_div7 ast r bc hc hin (fun F => specText_budget hp (resolve_of_compile hc) (hdiv F)) b)

/-- (T3, stage 7, no validation) — the hypotheses of `C01_nested_functions_eval_text_no_validation` -/
theorem eval_text7_div_checked (cc : CharClass) (src : Text) (ast : Block) (r : RBlock) (bc : Bytecode) (hp : parse cc src = .ok ast)
    (hs : src7Top ast = true) (hc : compileProgram ast = .ok (r, bc)) (hdiv : ∀ F, specText cc F src = .budget) (b : Nat) :
    evalText cc b src = .budget ∨ TextHitsLimit cc src :=
  evalText_of_noEnd hp hc (program_div7_syntactic ast r bc hc (src7Top_sound ast hs)
    (fun F => specText_budget hp (resolve_of_compile hc) (hdiv F)) b)

/-! ## the converse of the forward theorems -/

/-- the converse, from any pair (forward theorem, divergence preservation) about a text -/
theorem converse_of (cc : CharClass) (src : Text)
    (hfwd : ∀ F, TextHitsLimit cc src ∨
      match specText cc F src with
      | .value t out => ∃ n, ∀ k, evalText cc (n + k) src = .value t out
      | .error e out => ∃ n, ∀ k, evalText cc (n + k) src = .error e out
      | .fault _ => False
      | _ => True)
    (hdivp : (∀ F, specText cc F src = .budget) → ∀ b, evalText cc b src = .budget ∨ TextHitsLimit cc src)
    (b : Nat) (hne : evalText cc b src ≠ .budget) (hnl : ¬ TextHitsLimit cc src) :
    ∃ F, specText cc F src = evalText cc b src ∨ specText cc F src = .unspec := by
  by_cases hall : ∀ F, specText cc F src = .budget
  · rcases hdivp hall b with h | h
    · exact absurd h hne
    · exact absurd h hnl
  · rcases Classical.not_forall.mp hall with ⟨F, hF⟩
    refine ⟨F, ?_⟩
    rcases hfwd F with h | h
    · exact absurd h hnl
    · cases hsp : specText cc F src with
      | value t out =>
        rw [hsp] at h
        obtain ⟨n, hn⟩ := h
        left
        have h1 := evalText_mono cc src b n hne
        have h2 := hn b
        rw [Nat.add_comm] at h2
        rw [← h1, h2]
      | error e out =>
        rw [hsp] at h
        obtain ⟨n, hn⟩ := h
        left
        have h1 := evalText_mono cc src b n hne
        have h2 := hn b
        rw [Nat.add_comm] at h2
        rw [← h1, h2]
      | fault s => rw [hsp] at h; exact h.elim
      | budget => exact absurd hsp hF
      | unspec => exact .inr rfl

/-- (T4, stage 7) THE CONVERSE with validation: what `eval` answers within some budget, other than by stopping at the
    stack/frame limit, is what the text denotes (or the semantics leaves the behaviour unspecified) -/
theorem eval_text7_converse (cc : CharClass) (src : Text) (ast : Block) (r : RBlock) (bc : Bytecode) (hp : parse cc src = .ok ast)
    (hc : compileProgram ast = .ok (r, bc)) (hin : inFragment7 r = true) (b : Nat)
    (hne : evalText cc b src ≠ .budget) (hnl : ¬ TextHitsLimit cc src) :
    ∃ F, specText cc F src = evalText cc b src ∨ specText cc F src = .unspec :=
  converse_of cc src (eval_text7 cc src ast r bc hp hc hin) (eval_text7_div cc src ast r bc hp hc hin) b hne hnl

/-- (T4, stage 7, no validation) -/
theorem eval_text7_converse_checked (cc : CharClass) (src : Text) (ast : Block) (r : RBlock) (bc : Bytecode) (hp : parse cc src = .ok ast)
    (hs : src7Top ast = true) (hc : compileProgram ast = .ok (r, bc)) (b : Nat)
    (hne : evalText cc b src ≠ .budget) (hnl : ¬ TextHitsLimit cc src) :
    ∃ F, specText cc F src = evalText cc b src ∨ specText cc F src = .unspec :=
  converse_of cc src (eval_text7_checked cc src ast r bc hp hs hc) (eval_text7_div_checked cc src ast r bc hp hs hc) b hne hnl

/-- a value, or an error of another kind than the limit's, is never the limit -/
theorem not_limit_of_value {cc : CharClass} {src : Text} {b : Nat} {t : Tree} {out : List Text} (hv : evalText cc b src = .value t out) :
    evalText cc b src ≠ .budget ∧ ¬ TextHitsLimit cc src := by
  have hne : evalText cc b src ≠ .budget := by rw [hv]; intro h; cases h
  refine ⟨hne, ?_⟩
  intro hl
  obtain ⟨n, out', hn⟩ := hl.observable
  have h1 := evalText_mono cc src b n hne
  have h2 := hn b
  rw [Nat.add_comm] at h2
  rw [h1, hv] at h2; cases h2

theorem not_limit_of_error {cc : CharClass} {src : Text} {b : Nat} {e : Err} {out : List Text} (hv : evalText cc b src = .error e out)
    (he : e ≠ .index) : evalText cc b src ≠ .budget ∧ ¬ TextHitsLimit cc src := by
  have hne : evalText cc b src ≠ .budget := by rw [hv]; intro h; cases h
  refine ⟨hne, ?_⟩
  intro hl
  obtain ⟨n, out', hn⟩ := hl.observable
  have h1 := evalText_mono cc src b n hne
  have h2 := hn b
  rw [Nat.add_comm] at h2
  rw [h1, hv] at h2
  injection h2 with h3 _
  exact he h3

end Sim7
end Nl
