/- Property R1 of the resolver for the stage-3 fragment: structured control flow, nested scopes (C01, C09). -/
import Nlmodel.Proofs.Lemmas.SimCtlProg
import Nlmodel.Proofs.Lemmas.ResolveTop
namespace Nl
namespace Sim

/-! ## the source fragment of stage 3 and property R1 of the resolver for it -/

mutual
/-- source expressions of stage 3; the flag has the meaning it has in `XE` -/
inductive SE : Bool → Expr → Prop where
  | int (ab) (v : Int) : SE ab (.int v)
  | bool (ab) (b : Bool) : SE ab (.bool b)
  | ident (ab) (n : Text) : SE ab (.ident n)
  | not (ab) (e : Expr) : SE ab e → SE ab (.pre .not e)
  | neg (ab) (e : Expr) : SE ab e → SE ab (.pre .sub e)
  | bin (ab) (l : Expr) (op : Op) (r : Expr) (bop : BinOp) : opToBin op = some bop → SE ab l → SE false r → SE ab (.infix l op r)
  | assign (ab) (n : Text) (e : Expr) : SE ab e → SE ab (.assign (.ident n) e)
  | ifE (ab) (c : Expr) (t : Block) (e : OptBlock) : SE ab c → SB ab t → SO ab e → SE ab (.ifE c t e)
  | whileE (ab) (c : Expr) (b : Block) : SE false c → SB true b → SE ab (.whileE c b)
inductive SO : Bool → OptBlock → Prop where
  | none (ab) : SO ab .none
  | some (ab) (b : Block) : SB ab b → SO ab (.some b)
inductive SS : Bool → Stmt → Prop where
  | expr (ab) (e : Expr) : SE ab e → SS ab (.expr e)
  | letS (ab) (n : Text) (e : Expr) : SE ab e → SS ab (.letS n e)
  | block (ab) (b : Block) : SB ab b → SS ab (.block b)
  | brk : SS true .brk
  | cont : SS true .cont
inductive SB : Bool → Block → Prop where
  | nil (ab) : SB ab .nil
  | cons (ab) (s : Stmt) (b : Block) : SS ab s → SB ab b → SB ab (.cons s b)
end

/-- the resolver state while compiling top-level code: one global context with scopes `scs` -/
structure Inv3 (st : RState) (scs : List (List (Text × Nat))) : Prop where
  shape : ∃ ms, st.ctxs = [{ isGlobal := true, maxSize := ms, scopes := scs }]
  fresh : ∀ p ∈ scs.flatten, p.2 < st.nextId

abbrev G (scs : List (List (Text × Nat))) : Gam := slotsOf scs.flatten

theorem inv3_resolve (st : RState) (scs) (h : Inv3 st scs) (n : Text) (r : Ref)
    (hr : st.resolve n = some r) : ∃ k, r = ⟨r.bid, .global k⟩ ∧ (r.bid, k) ∈ G scs := by
  obtain ⟨ms, hs⟩ := h.shape
  unfold RState.resolve at hr
  rw [hs] at hr
  simp only [Ctx.resolve, Ctx.flat] at hr
  cases hl : lookupFlat scs.flatten n with
  | none => simp [hl, List.getLast?] at hr
  | some p =>
    obtain ⟨idx, bid⟩ := p
    simp only [hl, ↓reduceIte, Option.some.injEq] at hr
    subst hr
    exact ⟨idx, rfl, lookupFlat_slots _ n idx bid hl⟩

theorem inv3_define (st : RState) (sc) (scs) (h : Inv3 st (sc :: scs)) (n : Text) :
    (st.define n).2 = ⟨st.nextId, .global (sc :: scs).flatten.length⟩ ∧ Inv3 (st.define n).1 (((n, st.nextId) :: sc) :: scs) := by
  obtain ⟨ms, hs⟩ := h.shape
  unfold RState.define
  rw [hs]
  simp only [Ctx.define, Ctx.totalLen, Ctx.flat, ↓reduceIte]
  refine ⟨by first | rfl | trivial, ⟨⟨ms + 1, by first | rfl | trivial⟩, ?_⟩⟩
  intro p hp
  simp only [List.flatten_cons, List.cons_append, List.mem_cons] at hp
  rcases hp with rfl | hp
  · simp
  · have := h.fresh p (by simpa using hp); simp only; omega

theorem inv3_enter (st : RState) (scs) (h : Inv3 st scs) : Inv3 st.enterScope ([] :: scs) := by
  obtain ⟨ms, hs⟩ := h.shape
  refine ⟨⟨ms, by simp [RState.enterScope, hs]⟩, ?_⟩
  intro p hp
  have : st.enterScope.nextId = st.nextId := by simp [RState.enterScope, hs]
  rw [this]
  exact h.fresh p (by simpa using hp)

theorem inv3_leave (st : RState) (sc) (scs) (h : Inv3 st (sc :: scs)) : Inv3 st.leaveScope scs := by
  obtain ⟨ms, hs⟩ := h.shape
  refine ⟨⟨ms, by simp [RState.leaveScope, hs]⟩, ?_⟩
  intro p hp
  have : st.leaveScope.nextId = st.nextId := by simp [RState.leaveScope, hs]
  rw [this]
  exact h.fresh p (by simp; exact Or.inr (by simpa using hp))

theorem inv3_loop (st : RState) (scs) (d : Nat) (h : Inv3 st scs) : Inv3 { st with loopDepth := d } scs :=
  ⟨h.shape, h.fresh⟩

theorem fresh_slot (st : RState) (scs) (h : Inv3 st scs) :
    ∀ p ∈ G scs, p.1 ≠ st.nextId ∧ p.2 ≠ scs.flatten.length := by
  intro p hp
  obtain ⟨h1, m, h2⟩ := slotsOf_bounds _ p hp
  have := h.fresh (m, p.1) h2
  simp only at this
  exact ⟨by omega, by omega⟩

mutual
theorem rE : (e : Expr) → ∀ (ab : Bool) (scs : List (List (Text × Nat))) (st : RState) (e' : RExpr) (st' : RState),
    SE ab e → Inv3 st scs → resolveE e st = .ok (e', st') → XE (G scs) ab e' ∧ Inv3 st' scs
  | .int v, ab, scs, st, e', st', _, hinv, h => by
    simp only [resolveE] at h; injection h with h; injection h with h1 h2; subst h1; subst h2
    exact ⟨.int _ _ v, hinv⟩
  | .bool b, ab, scs, st, e', st', _, hinv, h => by
    simp only [resolveE] at h; injection h with h; injection h with h1 h2; subst h1; subst h2
    exact ⟨.bool _ _ b, hinv⟩
  | .ident n, ab, scs, st, e', st', _, hinv, h => by
    simp only [resolveE] at h
    cases hr : st.resolve n with
    | none => simp [hr] at h
    | some r =>
      simp only [hr] at h
      injection h with h; injection h with h1 h2; subst h1; subst h2
      obtain ⟨k, hk, hm⟩ := inv3_resolve st scs hinv n r hr
      rw [hk]
      exact ⟨.var _ _ r.bid k hm, hinv⟩
  | .pre op r, ab, scs, st, e', st', hs, hinv, h => by
    simp only [resolveE] at h
    cases hr : resolveE r st with
    | error er => simp [hr] at h
    | ok p =>
      obtain ⟨r1, st1⟩ := p
      simp only [hr] at h
      cases hs with
      | not _ _ hsr =>
        injection h with h; injection h with h1 h2; subst h1; subst h2
        obtain ⟨hx, hi⟩ := rE r ab scs st r1 st1 hsr hinv hr
        exact ⟨.not _ _ r1 hx, hi⟩
      | neg _ _ hsr =>
        injection h with h; injection h with h1 h2; subst h1; subst h2
        obtain ⟨hx, hi⟩ := rE r ab scs st r1 st1 hsr hinv hr
        exact ⟨.neg _ _ r1 hx, hi⟩
  | .assign l r, ab, scs, st, e', st', hs, hinv, h => by
    cases hs with
    | assign _ n _ hsr =>
      simp only [resolveE] at h
      cases hres : st.resolve n with
      | none => simp [hres] at h
      | some ref =>
        simp only [hres] at h
        cases hr : resolveE r st with
        | error er => simp [hr] at h
        | ok p =>
          obtain ⟨r1, st1⟩ := p
          simp only [hr] at h
          injection h with h; injection h with h1 h2; subst h1; subst h2
          obtain ⟨hx, hi⟩ := rE r ab scs st r1 st1 hsr hinv hr
          obtain ⟨k, hk, hm⟩ := inv3_resolve st scs hinv n ref hres
          rw [hk]
          exact ⟨.assign _ _ ref.bid k r1 hm hx, hi⟩
  | .infix l op r, ab, scs, st, e', st', hs, hinv, h => by
    cases hs with
    | bin _ _ _ _ bop hop hsl hsr =>
      simp only [resolveE] at h
      cases hl : resolveE l st with
      | error er => simp [hl] at h
      | ok p =>
        obtain ⟨l1, st1⟩ := p
        simp only [hl] at h
        obtain ⟨hxl, hi1⟩ := rE l ab scs st l1 st1 hsl hinv hl
        cases hr : resolveE r st1 with
        | error er => simp [hr] at h
        | ok q =>
          obtain ⟨r1, st2⟩ := q
          simp only [hr, hop] at h
          injection h with h; injection h with h1 h2; subst h1; subst h2
          obtain ⟨hxr, hi2⟩ := rE r false scs st1 r1 st2 hsr hi1 hr
          exact ⟨.bin _ _ l1 bop r1 hxl hxr, hi2⟩
  | .ifE c t e, ab, scs, st, e', st', hs, hinv, h => by
    cases hs with
    | ifE _ _ _ _ hsc hst hse =>
      simp only [resolveE] at h
      cases hc : resolveE c st with
      | error er => simp [hc] at h
      | ok p =>
        obtain ⟨c1, st1⟩ := p
        simp only [hc] at h
        obtain ⟨hxc, hi1⟩ := rE c ab scs st c1 st1 hsc hinv hc
        cases ht : resolveB t st1 with
        | error er => simp [ht] at h
        | ok q =>
          obtain ⟨t1, st2⟩ := q
          simp only [ht] at h
          obtain ⟨Γ1, hxt, hi2⟩ := rB t ab scs st1 t1 st2 hst hi1 ht
          cases he : resolveO e st2 with
          | error er => simp [he] at h
          | ok w =>
            obtain ⟨e1, st3⟩ := w
            simp only [he] at h
            injection h with h; injection h with h1 h2; subst h1; subst h2
            obtain ⟨hxe, hi3⟩ := rO e ab scs st2 e1 st3 hse hi2 he
            exact ⟨.ifE _ _ c1 t1 e1 Γ1 hxc hxt hxe, hi3⟩
  | .whileE c b, ab, scs, st, e', st', hs, hinv, h => by
    cases hs with
    | whileE _ _ _ hsc hsb =>
      simp only [resolveE] at h
      cases hc : resolveE c { st with loopDepth := st.loopDepth + 1 } with
      | error er => simp [hc] at h
      | ok p =>
        obtain ⟨c1, st1⟩ := p
        simp only [hc] at h
        obtain ⟨hxc, hi1⟩ := rE c false scs _ c1 st1 hsc (inv3_loop st scs _ hinv) hc
        cases hb : resolveB b st1 with
        | error er => simp [hb] at h
        | ok q =>
          obtain ⟨b1, st2⟩ := q
          simp only [hb] at h
          injection h with h; injection h with h1 h2; subst h1; subst h2
          obtain ⟨Γ1, hxb, hi2⟩ := rB b true scs st1 b1 st2 hsb hi1 hb
          exact ⟨.whileE _ _ c1 b1 Γ1 hxc hxb, inv3_loop st2 scs _ hi2⟩
  | .float _, _, _, _, _, _, hs, _, _ => by cases hs
  | .str _, _, _, _, _, _, hs, _, _ => by cases hs
  | .func _ _ _, _, _, _, _, _, hs, _, _ => by cases hs
  | .call _ _, _, _, _, _, _, hs, _, _ => by cases hs
  | .arr _, _, _, _, _, _, hs, _, _ => by cases hs
  | .index _ _, _, _, _, _, _, hs, _, _ => by cases hs

theorem rO : (o : OptBlock) → ∀ (ab : Bool) (scs : List (List (Text × Nat))) (st : RState) (o' : ROptBlock) (st' : RState),
    SO ab o → Inv3 st scs → resolveO o st = .ok (o', st') → XO (G scs) ab o' ∧ Inv3 st' scs
  | .none, ab, scs, st, o', st', _, hinv, h => by
    simp only [resolveO] at h; injection h with h; injection h with h1 h2; subst h1; subst h2
    exact ⟨.none _ _, hinv⟩
  | .some b, ab, scs, st, o', st', hs, hinv, h => by
    cases hs with
    | some _ _ hsb =>
      simp only [resolveO] at h
      cases hb : resolveB b st with
      | error er => simp [hb] at h
      | ok q =>
        obtain ⟨b1, st1⟩ := q
        simp only [hb] at h
        injection h with h; injection h with h1 h2; subst h1; subst h2
        obtain ⟨Γ1, hxb, hi⟩ := rB b ab scs st b1 st1 hsb hinv hb
        exact ⟨.some _ _ b1 Γ1 hxb, hi⟩

theorem rS : (s : Stmt) → ∀ (ab : Bool) (sc : List (Text × Nat)) (scs : List (List (Text × Nat))) (st : RState) (s' : RStmt) (st' : RState),
    SS ab s → Inv3 st (sc :: scs) → resolveS s st = .ok (s', st') →
    ∃ sc', XS (G (sc :: scs)) ab s' (G (sc' :: scs)) ∧ Inv3 st' (sc' :: scs)
  | .expr e, ab, sc, scs, st, s', st', hs, hinv, h => by
    cases hs with
    | expr _ _ hse =>
      simp only [resolveS] at h
      cases hr : resolveE e st with
      | error er => simp [hr] at h
      | ok p =>
        obtain ⟨e1, st1⟩ := p
        simp only [hr] at h
        injection h with h; injection h with h1 h2; subst h1; subst h2
        obtain ⟨hx, hi⟩ := rE e ab _ st e1 st1 hse hinv hr
        exact ⟨sc, .expr _ _ e1 hx, hi⟩
  | .letS n e, ab, sc, scs, st, s', st', hs, hinv, h => by
    cases hs with
    | letS _ _ _ hse =>
      simp only [resolveS] at h
      obtain ⟨hdef, hinv1⟩ := inv3_define st sc scs hinv n
      cases hr : resolveE e (st.define n).1 with
      | error er => simp [hr] at h
      | ok p =>
        obtain ⟨e1, st1⟩ := p
        simp only [hr] at h
        injection h with h; injection h with h1 h2; subst h1; subst h2
        obtain ⟨hx, hi⟩ := rE e ab _ _ e1 st1 hse hinv1 hr
        rw [hdef]
        refine ⟨(n, st.nextId) :: sc, ?_, hi⟩
        have hx' : XE ((st.nextId, (sc :: scs).flatten.length) :: G (sc :: scs)) ab e1 := by
          simpa [G, slotsOf] using hx
        have := XS.letS (G (sc :: scs)) ab st.nextId (sc :: scs).flatten.length e1 (fresh_slot st _ hinv) hx'
        simpa [G, slotsOf] using this
  | .block b, ab, sc, scs, st, s', st', hs, hinv, h => by
    cases hs with
    | block _ _ hsb =>
      simp only [resolveS] at h
      cases hb : resolveB b st with
      | error er => simp [hb] at h
      | ok q =>
        obtain ⟨b1, st1⟩ := q
        simp only [hb] at h
        injection h with h; injection h with h1 h2; subst h1; subst h2
        obtain ⟨Γ1, hxb, hi⟩ := rB b ab _ st b1 st1 hsb hinv hb
        exact ⟨sc, .block _ _ b1 Γ1 hxb, hi⟩
  | .brk, ab, sc, scs, st, s', st', hs, hinv, h => by
    cases hs
    simp only [resolveS] at h
    split at h
    · cases h
    · injection h with h; injection h with h1 h2; subst h1; subst h2
      exact ⟨sc, .brk _, hinv⟩
  | .cont, ab, sc, scs, st, s', st', hs, hinv, h => by
    cases hs
    simp only [resolveS] at h
    split at h
    · cases h
    · injection h with h; injection h with h1 h2; subst h1; subst h2
      exact ⟨sc, .cont _, hinv⟩
  | .ret _, _, _, _, _, _, _, hs, _, _ => by cases hs

theorem rSs : (b : Block) → ∀ (ab : Bool) (sc : List (Text × Nat)) (scs : List (List (Text × Nat))) (st : RState) (b' : RBlock) (st' : RState),
    SB ab b → Inv3 st (sc :: scs) → resolveSs b st = .ok (b', st') →
    ∃ sc', XB (G (sc :: scs)) ab b' (G (sc' :: scs)) ∧ Inv3 st' (sc' :: scs)
  | .nil, ab, sc, scs, st, b', st', _, hinv, h => by
    simp only [resolveSs] at h; injection h with h; injection h with h1 h2; subst h1; subst h2
    exact ⟨sc, .nil _ _, hinv⟩
  | .cons s rest, ab, sc, scs, st, b', st', hs, hinv, h => by
    cases hs with
    | cons _ _ _ hss hsrest =>
      simp only [resolveSs] at h
      cases hr : resolveS s st with
      | error er => simp [hr] at h
      | ok p =>
        obtain ⟨s1, st1⟩ := p
        simp only [hr] at h
        obtain ⟨sc1, hx1, hi1⟩ := rS s ab sc scs st s1 st1 hss hinv hr
        cases hr2 : resolveSs rest st1 with
        | error er => simp [hr2] at h
        | ok q =>
          obtain ⟨b1, st2⟩ := q
          simp only [hr2] at h
          injection h with h; injection h with h1 h2; subst h1; subst h2
          obtain ⟨sc2, hx2, hi2⟩ := rSs rest ab sc1 scs st1 b1 st2 hsrest hi1 hr2
          exact ⟨sc2, .cons _ _ _ _ _ _ hx1 hx2, hi2⟩

theorem rB : (b : Block) → ∀ (ab : Bool) (scs : List (List (Text × Nat))) (st : RState) (b' : RBlock) (st' : RState),
    SB ab b → Inv3 st scs → resolveB b st = .ok (b', st') → ∃ Γ1, XB (G scs) ab b' Γ1 ∧ Inv3 st' scs
  | .nil, ab, scs, st, b', st', _, hinv, h => by
    simp only [resolveB] at h; injection h with h; injection h with h1 h2; subst h1; subst h2
    exact ⟨_, .nil _ _, hinv⟩
  | .cons s rest, ab, scs, st, b', st', hs, hinv, h => by
    cases hs with
    | cons _ _ _ hss hsrest =>
      simp only [resolveB] at h
      cases hr : resolveS s st.enterScope with
      | error er => simp [hr] at h
      | ok p =>
        obtain ⟨s1, st1⟩ := p
        simp only [hr] at h
        obtain ⟨sc1, hx1, hi1⟩ := rS s ab [] scs st.enterScope s1 st1 hss (inv3_enter st scs hinv) hr
        cases hr2 : resolveSs rest st1 with
        | error er => simp [hr2] at h
        | ok q =>
          obtain ⟨b1, st2⟩ := q
          simp only [hr2] at h
          injection h with h; injection h with h1 h2; subst h1; subst h2
          obtain ⟨sc2, hx2, hi2⟩ := rSs rest ab sc1 scs st1 b1 st2 hsrest hi1 hr2
          refine ⟨G (sc2 :: scs), ?_, inv3_leave st2 sc2 scs hi2⟩
          have : G ([] :: scs) = G scs := by simp [G]
          rw [this] at hx1
          exact .cons _ _ _ _ _ _ hx1 hx2
end

/-- R1 for stage 3: the resolver turns every stage-3 source program into a tree of the fragment `XB` -/
theorem resolve_xb (ast : Block) (hs : SB false ast) (p : RBlock) (h : resolveProgram ast = .ok p) :
    ∃ Γ', XB [] false p Γ' := by
  unfold resolveProgram at h
  cases hr : resolveSs ast {} with
  | error er => simp [hr] at h
  | ok q =>
    obtain ⟨b, st'⟩ := q
    simp only [hr] at h
    injection h with h; subst h
    have hinv : Inv3 ({} : RState) [[]] := ⟨⟨0, rfl⟩, by intro p hp; simp at hp⟩
    obtain ⟨sc', hxb, _⟩ := rSs ast false [] [] {} b st' hs hinv hr
    exact ⟨G (sc' :: []), by simpa [G, slotsOf] using hxb⟩

end Sim
end Nl
