/- Divergence preservation, stage 3 (C01): expressions and loops.  In parallel with (and using) the
   forward simulation `Sim.pall`: if the definitional evaluation of a fragment answers `.fuel` with
   fuel `f`, the machine performs at least `f - depth` instructions without ending. -/
import Nlmodel.Proofs.Lemmas.DivCtlBase
namespace Nl
namespace Sim
open Spec

/-! ### the five statements (they mirror `PE/PBV/PS/PB/PL`) -/

def DE (f : Nat) : Prop := ∀ (Γ : Gam) (ab : Bool) (e : RExpr), XE Γ ab e → GamOK Γ →
  ∀ (st : SState) (pos : Nat) (lp : LoopCtx) (cs : List Const) (C : Code) (s0 : VM) (stk g : Array Value) (l : Value),
  CodeAt C pos (emitE e pos lp cs).1 → PoolOK s0.cvals (emitE e pos lp cs).2 → Rel Γ st g → LastRel st l →
  evalE f e st = .fuel → Runs C (setv s0 pos stk g l) (f - dE e)

def DBV (f : Nat) : Prop := ∀ (Γ : Gam) (ab : Bool) (b : RBlock) (Γ1 : Gam), XB Γ ab b Γ1 → GamOK Γ →
  ∀ (st : SState) (pos : Nat) (lp : LoopCtx) (cs : List Const) (C : Code) (s0 : VM) (stk g : Array Value) (l : Value),
  CodeAt C pos (asValue b (emitB b pos lp cs).1) → PoolOK s0.cvals (emitB b pos lp cs).2 → Rel Γ st g → LastRel st l →
  evalBV f b st = .fuel → Runs C (setv s0 pos stk g l) (f - dB b)

def DS (f : Nat) : Prop := ∀ (Γ : Gam) (ab : Bool) (s : RStmt) (Γ1 : Gam), XS Γ ab s Γ1 → GamOK Γ →
  ∀ (st : SState) (pos : Nat) (lp : LoopCtx) (cs : List Const) (C : Code) (s0 : VM) (stk g : Array Value) (l : Value),
  CodeAt C pos (emitS s pos lp cs).1 → PoolOK s0.cvals (emitS s pos lp cs).2 → Rel Γ st g → LastRel st l →
  evalS f s st = .fuel → Runs C (setv s0 pos stk g l) (f - dS s)

def DB (f : Nat) : Prop := ∀ (Γ : Gam) (ab : Bool) (b : RBlock) (Γ1 : Gam), XB Γ ab b Γ1 → GamOK Γ →
  ∀ (st : SState) (pos : Nat) (lp : LoopCtx) (cs : List Const) (C : Code) (s0 : VM) (stk g : Array Value) (l : Value),
  CodeAt C pos (emitB b pos lp cs).1 → PoolOK s0.cvals (emitB b pos lp cs).2 → Rel Γ st g → LastRel st l →
  evalB f b st = .fuel → Runs C (setv s0 pos stk g l) (f - dB b)

/-- the loop from its head (`pos + 1`), with the value of the last completed iteration on the stack -/
def DL (f : Nat) : Prop := ∀ (Γ : Gam) (c : RExpr) (b : RBlock) (Γ1 : Gam), XE Γ false c → XB Γ true b Γ1 → GamOK Γ →
  ∀ (st : SState) (pos : Nat) (lp : LoopCtx) (cs : List Const) (C : Code) (s0 : VM) (stk g : Array Value) (l : Value)
    (acc : SVal) (accv : Value), toVal acc = some accv →
  CodeAt C pos (emitE (.whileE c b) pos lp cs).1 → PoolOK s0.cvals (emitE (.whileE c b) pos lp cs).2 → Rel Γ st g → LastRel st l →
  evalLoop f c b acc st = .fuel → Runs C (setv s0 (pos + 1) (stk.push accv) g l) (f - dL c b)

structure DAll (f : Nat) : Prop where
  e : DE f
  bv : DBV f
  s : DS f
  b : DB f
  l : DL f

/-! ### expressions -/

theorem de_not (f : Nat) (ih : DE f) {Γ ab} (e1 : RExpr) (h1 : XE Γ ab e1) (hok : GamOK Γ) {st : SState} {pos : Nat} {lp : LoopCtx} {cs : List Const} {C : Code} {s0 : VM} {stk g : Array Value} {l : Value}
    (hcode : CodeAt C pos (emitE (.not e1) pos lp cs).1) (hpool : PoolOK s0.cvals (emitE (.not e1) pos lp cs).2)
    (hrel : Rel Γ st g) (hlast : LastRel st l) (hdiv : evalE (f + 1) (.not e1) st = .fuel) :
    Runs C (setv s0 pos stk g l) (f + 1 - dE (.not e1)) := by
  simp only [emitE] at hcode hpool
  obtain ⟨hc1, _⟩ := hcode.append
  exact (ih Γ ab e1 h1 hok st pos lp cs C s0 stk g l hc1 hpool hrel hlast (evalE_not_fuel hdiv)).mono
    (by simp only [dE]; omega)

theorem de_neg (f : Nat) (ih : DE f) {Γ ab} (e1 : RExpr) (h1 : XE Γ ab e1) (hok : GamOK Γ) {st : SState} {pos : Nat} {lp : LoopCtx} {cs : List Const} {C : Code} {s0 : VM} {stk g : Array Value} {l : Value}
    (hcode : CodeAt C pos (emitE (.neg e1) pos lp cs).1) (hpool : PoolOK s0.cvals (emitE (.neg e1) pos lp cs).2)
    (hrel : Rel Γ st g) (hlast : LastRel st l) (hdiv : evalE (f + 1) (.neg e1) st = .fuel) :
    Runs C (setv s0 pos stk g l) (f + 1 - dE (.neg e1)) := by
  simp only [emitE] at hcode hpool
  obtain ⟨hc1, _⟩ := hcode.append
  exact (ih Γ ab e1 h1 hok st pos lp cs C s0 stk g l hc1 hpool hrel hlast (evalE_neg_fuel hdiv)).mono
    (by simp only [dE]; omega)

theorem de_assign (f : Nat) (ih : DE f) {Γ ab} (b k : Nat) (e1 : RExpr) (h1 : XE Γ ab e1) (hok : GamOK Γ) {st : SState} {pos : Nat} {lp : LoopCtx} {cs : List Const} {C : Code} {s0 : VM} {stk g : Array Value} {l : Value}
    (hcode : CodeAt C pos (emitE (.assignVar ⟨b, .global k⟩ e1) pos lp cs).1) (hpool : PoolOK s0.cvals (emitE (.assignVar ⟨b, .global k⟩ e1) pos lp cs).2)
    (hrel : Rel Γ st g) (hlast : LastRel st l) (hdiv : evalE (f + 1) (.assignVar ⟨b, .global k⟩ e1) st = .fuel) :
    Runs C (setv s0 pos stk g l) (f + 1 - dE (.assignVar ⟨b, .global k⟩ e1)) := by
  simp only [emitE] at hcode hpool
  obtain ⟨hc1, _⟩ := hcode.append
  exact (ih Γ ab e1 h1 hok st pos lp cs C s0 stk g l hc1 hpool hrel hlast (evalE_assign_fuel hdiv)).mono
    (by simp only [dE]; omega)

theorem de_bin (f : Nat) (ih : DE f) {Γ ab} (el : RExpr) (op : BinOp) (er : RExpr) (hl : XE Γ ab el) (hr : XE Γ false er) (hok : GamOK Γ) {st : SState} {pos : Nat} {lp : LoopCtx} {cs : List Const} {C : Code} {s0 : VM} {stk g : Array Value} {l : Value}
    (hcode : CodeAt C pos (emitE (.infix el op er) pos lp cs).1) (hpool : PoolOK s0.cvals (emitE (.infix el op er) pos lp cs).2)
    (hrel : Rel Γ st g) (hlast : LastRel st l) (hdiv : evalE (f + 1) (.infix el op er) st = .fuel) :
    Runs C (setv s0 pos stk g l) (f + 1 - dE (.infix el op er)) := by
  have hnf := xe_not_fused el er op hl hr
  simp only [emitE, hnf] at hcode hpool
  obtain ⟨hc12, _⟩ := hcode.append
  obtain ⟨hc1, hc2⟩ := hc12.append
  rw [emitE_size] at hc2
  have hpool1 : PoolOK s0.cvals (emitE el pos lp cs).2 := hpool.mono (emitE_ext er _ _ _)
  rcases evalE_bin_fuel hdiv with h | ⟨a, st1, h1, h2⟩
  · exact (ih Γ ab el hl hok st pos lp cs C s0 stk g l hc1 hpool1 hrel hlast h).mono (by simp only [dE]; omega)
  · have ihl := (pall f).e Γ ab el hl hok st pos lp cs C s0 stk g l hc1 hpool1 hrel hlast
    rw [h1] at ihl
    obtain ⟨ma, _, g1, l1, n1, hn1, hrel1, hl1, _, _⟩ := ihl
    have h := ih Γ false er hr hok st1 (pos + sizeE el) lp _ C s0 (stk.push ma) g1 l1 hc2 hpool hrel1 hl1 h2
    exact Runs.after hn1 h (by simp only [dE]; omega)

theorem de_if (f : Nat) (ih : DAll f) {Γ ab} (c : RExpr) (t : RBlock) (e : ROptBlock) (Γ1 : Gam)
    (hc : XE Γ ab c) (ht : XB Γ ab t Γ1) (he : XO Γ ab e) (hok : GamOK Γ)
    {st : SState} {pos : Nat} {lp : LoopCtx} {cs : List Const} {C : Code} {s0 : VM} {stk g : Array Value} {l : Value}
    (hcode : CodeAt C pos (emitE (.ifE c t e) pos lp cs).1) (hpool : PoolOK s0.cvals (emitE (.ifE c t e) pos lp cs).2)
    (hrel : Rel Γ st g) (hlast : LastRel st l) (hdiv : evalE (f + 1) (.ifE c t e) st = .fuel) :
    Runs C (setv s0 pos stk g l) (f + 1 - dE (.ifE c t e)) := by
  simp only [emitE] at hcode hpool
  obtain ⟨hc1234, hce⟩ := hcode.append
  obtain ⟨hc123, hcj⟩ := hc1234.append
  obtain ⟨hc12, hct⟩ := hc123.append
  obtain ⟨hcc, hcjif⟩ := hc12.append
  have hcjif := hcjif.cast (b := pos + sizeE c) (by simp [emitE_size])
  have hct := hct.cast (b := pos + sizeE c + 3) (by simp [emitE_size, Instr.size]; omega)
  have hce := hce.cast (b := pos + sizeE c + 3 + sizeBV t + 3) (by simp [emitE_size, Instr.size, codeSize_asValue]; omega)
  have hpoolc : PoolOK s0.cvals (emitE c pos lp cs).2 := hpool.mono ((emitB_ext t _ _ _).trans (emitO_ext e _ _ _))
  have hpoolt : PoolOK s0.cvals (emitB t (pos + sizeE c + 3) lp (emitE c pos lp cs).2).2 := hpool.mono (emitO_ext e _ _ _)
  have ihc := (pall f).e Γ ab c hc hok st pos lp cs C s0 stk g l hcc hpoolc hrel hlast
  rcases evalE_if_fuel hdiv with h | ⟨st1, h1, h2⟩ | ⟨st1, b, h1, hb, h2⟩
  · exact (ih.e Γ ab c hc hok st pos lp cs C s0 stk g l hcc hpoolc hrel hlast h).mono (by simp only [dE]; omega)
  · rw [h1] at ihc
    obtain ⟨mv, hmv, g1, l1, n, hn, hrel1, hl1, _, _⟩ := ihc
    simp only [toVal, Option.some.injEq] at hmv
    subst hmv
    have hj := execN_step C n _ _ _ hn (step_jif hcjif)
    simp only [↓reduceIte] at hj
    have h := ih.bv Γ ab t Γ1 ht hok st1 (pos + sizeE c + 3) lp _ C s0 stk g1 l1 hct hpoolt hrel1 hl1 h2
    exact Runs.after hj h (by simp only [dE]; omega)
  · rw [h1] at ihc
    obtain ⟨mv, hmv, g1, l1, n, hn, hrel1, hl1, _, _⟩ := ihc
    simp only [toVal, Option.some.injEq] at hmv
    subst hmv
    have hj := execN_step C n _ _ _ hn (step_jif hcjif)
    simp only [Bool.false_eq_true, ↓reduceIte] at hj
    subst hb
    cases he with
    | some _ _ _ Γ2 hxb =>
      simp only [emitO] at hce hpool
      have h := ih.bv Γ ab b Γ2 hxb hok st1 (pos + sizeE c + 3 + sizeBV t + 3) lp _ C s0 stk g1 l1 hce hpool hrel1 hl1 h2
      exact Runs.after hj h (by simp only [dE, dO]; omega)

/-- the loop from its head -/
theorem dl_succ (f : Nat) (ih : DAll f) : DL (f + 1) := by
  intro Γ c b Γ1 hc hb hok st pos lp cs C s0 stk g l acc accv hacc hcode hpool hrel hlast hdiv
  obtain ⟨_, hcc, hjif, hcb, hjmp, hsz⟩ := while_layout c b hcode
  simp only [emitE] at hpool
  generalize hlp : (some (pos + 1, pos + 1 + sizeE c + 4 + sizeBV b + 3) : LoopCtx) = lp' at hcc hcb hpool
  have hpoolc : PoolOK s0.cvals (emitE c (pos + 1) lp' cs).2 := hpool.mono (emitB_ext b _ _ _)
  have hpoolw : ∀ (s0' : VM), s0'.cvals = s0.cvals → PoolOK s0'.cvals (emitE (.whileE c b) pos lp cs).2 := by
    intro s0' he; simp only [emitE]; rw [hlp, he]; exact hpool
  have ihc := (pall f).e Γ false c hc hok st (pos + 1) lp' cs C s0 (stk.push accv) g l hcc hpoolc hrel hlast
  rcases evalLoop_fuel hdiv with h | ⟨st1, h⟩ | ⟨st1, h⟩ | ⟨st1, h1, hbody⟩
  · exact (ih.e Γ false c hc hok st (pos + 1) lp' cs C s0 (stk.push accv) g l hcc hpoolc hrel hlast h).mono
      (by simp only [dL]; omega)
  · rw [h] at ihc; exact absurd ihc.1 (by simp)
  · rw [h] at ihc; exact absurd ihc.1 (by simp)
  · rw [h1] at ihc
    obtain ⟨mv, hmv, g1, l1, n, hn, hrel1, hl1, _, _⟩ := ihc
    simp only [toVal, Option.some.injEq] at hmv
    subst hmv
    have hj := execN_step C n _ _ _ hn (step_jif hjif)
    simp only [↓reduceIte] at hj
    have hp := execN_step C (n + 1) _ _ _ hj (step_pop (by simpa [Instr.size] using hjif.tail))
    have hp : execN C (n + 1 + 1) (setv s0 (pos + 1) (stk.push accv) g l) = some (setv s0 (pos + 1 + sizeE c + 4) stk g1 accv) := by
      rw [hp]
    have ihb := (pall f).bv Γ true b Γ1 hb hok { st1 with last := acc } (pos + 1 + sizeE c + 4) lp' _ C s0 stk g1 accv hcb hpool
      hrel1 hacc
    rcases hbody with h2 | ⟨w, st2, h2, h3⟩ | ⟨st2, h2, h3⟩
    · have h := ih.bv Γ true b Γ1 hb hok { st1 with last := acc } (pos + 1 + sizeE c + 4) lp' _ C s0 stk g1 accv hcb hpool
        hrel1 hacc h2
      exact Runs.after hp h (by simp only [dL]; omega)
    · rw [h2] at ihb
      obtain ⟨mw, hmw, g2, l2, n2, hn2, hrel2, hl2, _, _⟩ := ihb
      have hjm := execN_step C n2 _ _ _ hn2 (step_jump hjmp)
      have h := ih.l Γ c b Γ1 hc hb hok st2 pos lp cs C s0 stk g2 l2 w mw hmw hcode (hpoolw s0 rfl) hrel2 hl2 h3
      have hall := execN_add C _ _ _ _ _ hp hjm
      exact Runs.after hall h (by omega)
    · rw [h2] at ihb
      obtain ⟨_, g2, l2, n2, hn2, hrel2, hl2, _, _⟩ := ihb
      have hn2' : execN C n2 (setv s0 (pos + 1 + sizeE c + 4) stk g1 accv) = some (setv s0 (pos + 1) (stk.push .null) g2 l2) := by
        rw [hn2, ← hlp]; rfl
      have h := ih.l Γ c b Γ1 hc hb hok st2 pos lp cs C s0 stk g2 l2 .null .null rfl hcode (hpoolw s0 rfl) hrel2 hl2 h3
      have hall := execN_add C _ _ _ _ _ hp hn2'
      exact Runs.after hall h (by omega)

theorem de_succ (f : Nat) (ih : DAll f) : DE (f + 1) := by
  intro Γ ab e hx hok st pos lp cs C s0 stk g l hcode hpool hrel hlast hdiv
  cases hx with
  | int _ _ v => simp [evalE] at hdiv
  | bool _ _ b => simp [evalE] at hdiv
  | var _ _ b k hm =>
    simp only [evalE] at hdiv
    split at hdiv <;> simp at hdiv
  | not _ _ e1 h1 => exact de_not f ih.e e1 h1 hok hcode hpool hrel hlast hdiv
  | neg _ _ e1 h1 => exact de_neg f ih.e e1 h1 hok hcode hpool hrel hlast hdiv
  | assign _ _ b k e1 hm h1 => exact de_assign f ih.e b k e1 h1 hok hcode hpool hrel hlast hdiv
  | bin _ _ el op er hl hr => exact de_bin f ih.e el op er hl hr hok hcode hpool hrel hlast hdiv
  | ifE _ _ c t e Γ1 hc ht he => exact de_if f ih c t e Γ1 hc ht he hok hcode hpool hrel hlast hdiv
  | whileE _ _ c b Γ1 hc hb =>
    obtain ⟨hnull, _⟩ := while_layout c b hcode
    have h1 := execN_one C _ _ (step_null (s0 := s0) (stk := stk) (g := g) (l := l) hnull)
    have h := ih.l Γ c b Γ1 hc hb hok st pos lp cs C s0 stk g l .null .null rfl hcode hpool hrel hlast
      (evalE_while_fuel hdiv)
    exact Runs.after h1 h (by simp only [dE, dL]; omega)

end Sim
end Nl
