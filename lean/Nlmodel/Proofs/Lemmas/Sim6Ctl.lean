/- Stage 6: `als` and the loop lemma (frames + heap). -/
import Nlmodel.Proofs.Lemmas.Sim6Expr3
namespace Nl
namespace Sim6
open Spec Sim
open SimH (AMap isStrCell isArrCell Grow PoolH MemOK sameKind LitF)
open SimF (FT FnInfo FTInj paramScope bigScope)

def specIf (f : Nat) (t : RBlock) (e : ROptBlock) (v : SVal) (st1 : SState) : Res SVal :=
  match v with
  | .bool true => evalBV f t st1
  | .bool false =>
    match e with
    | .none => .val .null st1
    | .some b => evalBV f b st1
  | _ => .err .type st1

theorem evalE_if (f : Nat) (c : RExpr) (t : RBlock) (e : ROptBlock) (st : SState) :
    evalE (f + 1) (.ifE c t e) st = bindR (evalE f c st) (specIf f t e) := by
  simp only [evalE]
  cases evalE f c st with
  | val v st1 =>
    cases v with
    | bool b => cases b <;> rfl
    | _ => rfl
  | _ => rfl

section
variable {W : World} {Γb Λ : Gam} {nl : Nat} {c : Cfg}

/-- a step of the semantics that leaves store, environments and output alone except for `last` -/
theorem inv6_setLast (hinv : Inv6 W Γb Λ nl c) (v : SVal) (mv : Value) (hv : VR6 W c.μ c.st c.m.heap v mv) (ip' : Nat) (ops' : Array Value) :
    Inv6 W Γb Λ nl ⟨c.μ, { c.st with last := v }, ip', c.locs, ops', c.g, mv, c.m, c.out⟩ := by
  have hst : ({ c.st with last := v } : SState).store = c.st.store := rfl
  have hgl : Grow c.μ c.st c.m.heap c.μ { c.st with last := v } c.m.heap := SimH.grow_store_eq hst
  exact ⟨fun b k hm w hw => by
      obtain ⟨mw, h1, h2⟩ := hinv.relG b k hm w hw
      exact ⟨mw, h1.grow hgl, h2⟩,
    fun b k hm w hw => by
      obtain ⟨mw, h1, h2⟩ := hinv.relL b k hm w hw
      exact ⟨mw, h1.grow hgl, h2⟩,
    hv.grow hgl, hinv.size, hinv.out, hinv.hi.store_eq hst⟩

end

section ctl
variable {W : World} {nl : Nat} {fn : Bool} {Γ Γx Λ : Gam} {ab : Bool} {lp : LoopCtx} {cs : List Const}
  {below : Array Value} {fr : List Frame} {c : Cfg}

theorem pe6_if (f : Nat) (ih : PAll6 W f) (cnd : RExpr) (t : RBlock) (e : ROptBlock) (Γ1 Λ1 : Gam)
    (hc : ZE nl fn Γ Λ ab cnd) (ht : ZB nl fn Γ Λ ab t Γ1 Λ1) (he : ZO nl fn Γ Λ ab e) (hsc : Sc6 W fn Γ Γx Λ)
    (hinv : Inv6 W (bigScope fn Γ Γx) Λ nl c) (hwt : TI.WT (c.vm W below fr))
    (hcode : CodeAt W.C c.ip (emitE (.ifE cnd t e) c.ip lp cs).1) (hext : Ext (emitE (.ifE cnd t e) c.ip lp cs).2 W.CS) :
    GoalV6 W (bigScope fn Γ Γx) Λ nl below fr fn ab lp c (c.ip + sizeE (.ifE cnd t e)) c.ops (evalE (f + 1) (.ifE cnd t e) c.st) := by
  simp only [emitE] at hcode hext
  obtain ⟨hc1234, hce⟩ := hcode.append
  obtain ⟨hc123, hcj⟩ := hc1234.append
  obtain ⟨hc12, hct⟩ := hc123.append
  obtain ⟨hcc, hcjif⟩ := hc12.append
  have hsz : sizeE (.ifE cnd t e) = sizeE cnd + 3 + sizeBV t + 3 + sizeO e := by simp only [sizeE]; rfl
  have hcjif := hcjif.cast (b := c.ip + sizeE cnd) (by simp [emitE_size])
  have hct := hct.cast (b := c.ip + sizeE cnd + 3) (by simp [emitE_size, Instr.size]; omega)
  have hcj := hcj.cast (b := c.ip + sizeE cnd + 3 + sizeBV t) (by simp [emitE_size, Instr.size, codeSize_asValue]; omega)
  have hce := hce.cast (b := c.ip + sizeE cnd + 3 + sizeBV t + 3) (by simp [emitE_size, Instr.size, codeSize_asValue]; omega)
  have hextt : Ext (emitB t (c.ip + sizeE cnd + 3) lp (emitE cnd c.ip lp cs).2).2 W.CS := (emitO_ext e _ _ _).trans hext
  have hextc : Ext (emitE cnd c.ip lp cs).2 W.CS := (emitB_ext t _ _ _).trans hextt
  rw [hsz, evalE_if]
  refine GoalG.bind (ih.e nl fn Γ Γx Λ ab cnd hc c lp cs below fr hsc hinv hwt hcc hextc) (.inr ⟨rfl, rfl⟩) ?_
  rintro v st1 - ⟨mv, μ1, m1, hmv, locs1, g1, l1, out1, n, hn, hinv1, hk1⟩
  have herr : (∀ b, mv ≠ .bool b) → Fails6 W.C (c.vm W below fr) .type st1.out := by
    intro hnb
    obtain ⟨s2, hs2, ho2⟩ := step6_jif_err (s0 := W.s0) (below := below) (locs := locs1) (ops := c.ops) (g := g1) (l := l1) (fr := fr) (m := m1)
      (out := out1) hcjif hnb
    exact ⟨n, _, s2, hn, hs2, by rw [ho2]; exact hinv1.out.symm⟩
  cases v with
  | bool bb =>
    rw [VR6.bool_iff] at hmv; subst hmv
    have hj := execN_step W.C n _ _ _ hn (step6_jif hcjif)
    have hwt1 := wt_execN (n + 1) _ _ hwt hj
    cases bb with
    | true =>
      simp only [↓reduceIte] at hj hwt1
      have iht := ih.bv nl fn Γ Γx Λ ab t Γ1 Λ1 ht ⟨μ1, st1, c.ip + sizeE cnd + 3, locs1, c.ops, g1, l1, m1, out1⟩ lp _ below fr hsc
        (hinv1.reip _ _) hwt1 hct hextt
      have iht2 := iht.then_val (e2 := c.ip + (sizeE cnd + 3 + sizeBV t + 3 + sizeO e)) (fun mv locs' g' l' m' out' => by
        rw [step6_jump hcj]; congr 2 <;> omega)
      exact GoalV6.prefix (c1 := ⟨μ1, st1, c.ip + sizeE cnd + 3, locs1, c.ops, g1, l1, m1, out1⟩) (n + 1) hj hk1 iht2
    | false =>
      simp only [Bool.false_eq_true, ↓reduceIte] at hj hwt1
      cases he with
      | none _ _ _ =>
        simp only [emitO] at hce
        refine .inr ⟨.null, μ1, m1, trivial, locs1, g1, l1, out1, n + 1 + 1, ?_, hinv1.reip _ _, hk1⟩
        have := execN_step W.C (n + 1) _ _ _ hj (step6_null hce)
        rw [this]; simp only [sizeO]; congr 2; omega
      | some _ _ _ b Γ2 Λ2 hb =>
        simp only [emitO] at hce hext
        have ihb := ih.bv nl fn Γ Γx Λ ab b Γ2 Λ2 hb ⟨μ1, st1, c.ip + sizeE cnd + 3 + sizeBV t + 3, locs1, c.ops, g1, l1, m1, out1⟩ lp _ below fr hsc
          (hinv1.reip _ _) hwt1 hce hext
        have : c.ip + sizeE cnd + 3 + sizeBV t + 3 + sizeBV b = c.ip + (sizeE cnd + 3 + sizeBV t + 3 + sizeO (.some b)) := by
          simp only [sizeO]; unfold sizeBV; omega
        simp only at ihb
        rw [this] at ihb
        exact GoalV6.prefix (c1 := ⟨μ1, st1, c.ip + sizeE cnd + 3 + sizeBV t + 3, locs1, c.ops, g1, l1, m1, out1⟩) (n + 1) hj hk1 ihb
  | _ => exact .inr (herr (fun b e => by subst e; simp only [VR6] at hmv))

theorem pl6_succ (f : Nat) (ih : PAll6 W f) : PL6 W (f + 1) := by
  intro nl fn Γ Γx Λ ab cnd b Γ1 Λ1 hc hb c pos lp cs below fr base acc accv hip hops hacc hsc hinv hwt hcode hext
  obtain ⟨μ, st, ip, locs, ops, g, l, m, out⟩ := c
  simp only at hip hops hacc
  subst hip; subst hops
  obtain ⟨_, hcc, hjif, hcb, hjmp, hsz⟩ := while_layout cnd b hcode
  have hext0 := hext
  simp only [emitE] at hext
  generalize hlp : (some (pos + 1, pos + 1 + sizeE cnd + 4 + sizeBV b + 3) : LoopCtx) = lp' at hcc hcb hext
  have hextc : Ext (emitE cnd (pos + 1) lp' cs).2 W.CS := (emitB_ext b _ _ _).trans hext
  have ihc := ih.e nl fn Γ Γx Λ false cnd hc ⟨μ, st, pos + 1, locs, base.push accv, g, l, m, out⟩ lp' cs below fr hsc hinv hwt hcc hextc
  rw [hsz]
  simp only [evalLoop]
  rcases ihc with ihc | ihc
  · exact .inl ihc
  cases hrc : evalE f cnd st with
  | val v st1 =>
    rw [hrc] at ihc
    obtain ⟨mv, μ1, m1, hmv, locs1, g1, l1, out1, n, hn, hinv1, hk1⟩ := ihc
    have hacc1 : VR6 W μ1 st1 m1.heap acc accv := hk1 acc accv (fixedOf_push_mem below base accv) hacc
    have hkb : Keep W μ st m.heap μ1 st1 m1.heap (fixedOf below base) := hk1.mono (fixedOf_push_sub below base accv)
    have herr : (∀ b, mv ≠ .bool b) → Fails6 W.C (mk6 W.s0 (pos + 1) below locs (base.push accv) g l fr m out) .type st1.out := by
      intro hnb
      obtain ⟨s2, hs2, ho2⟩ := step6_jif_err (s0 := W.s0) (below := below) (locs := locs1) (ops := base.push accv) (g := g1) (l := l1) (fr := fr)
        (m := m1) (out := out1) hjif hnb
      exact ⟨n, _, s2, hn, hs2, by rw [ho2]; exact hinv1.out.symm⟩
    cases v with
    | bool bb =>
      rw [VR6.bool_iff] at hmv; subst hmv
      have hj := execN_step W.C n _ _ _ hn (step6_jif hjif)
      cases bb with
      | false =>
        simp only [Bool.false_eq_true, ↓reduceIte] at hj
        refine .inr ⟨accv, μ1, m1, hacc1, locs1, g1, l1, out1, n + 1, ?_, hinv1.reip _ _, hkb⟩
        rw [hj]; congr 2; omega
      | true =>
        simp only [↓reduceIte] at hj
        have hp := execN_step W.C (n + 1) _ _ _ hj (step6_pop (by simpa [Instr.size] using hjif.tail))
        have hp : execN W.C (n + 1 + 1) (mk6 W.s0 (pos + 1) below locs (base.push accv) g l fr m out) =
            some (mk6 W.s0 (pos + 1 + sizeE cnd + 4) below locs1 base g1 accv fr m1 out1) := hp
        have hwt2 := wt_execN (n + 1 + 1) _ _ hwt hp
        have hst : ({ st1 with last := acc } : SState).store = st1.store := rfl
        have hgl : Grow μ1 st1 m1.heap μ1 { st1 with last := acc } m1.heap := SimH.grow_store_eq hst
        have hinv1' := inv6_setLast hinv1 acc accv hacc1 (pos + 1 + sizeE cnd + 4) base
        have hk2 : Keep W μ st m.heap μ1 { st1 with last := acc } m1.heap (fixedOf below base) := hkb.trans (Keep.of_grow hgl _)
        have ihb := ih.bv nl fn Γ Γx Λ true b Γ1 Λ1 hb ⟨μ1, { st1 with last := acc }, pos + 1 + sizeE cnd + 4, locs1, base, g1, accv, m1, out1⟩ lp' _
          below fr hsc hinv1' hwt2 hcb hext
        simp only
        rcases ihb with ihb | ihb
        · exact .inl (SimF.Ovf.after (n + 1 + 1) hp ihb)
        cases hrb : evalBV f b { st1 with last := acc } with
        | val w st2 =>
          rw [hrb] at ihb
          obtain ⟨mw, μ2, m2, hmw, locs2, g2, l2, out2, n2, hn2, hinv2, hk3⟩ := ihb
          have hjm := execN_step W.C n2 _ _ _ hn2 (step6_jump hjmp)
          have hwt3 := wt_execN (n2 + 1) _ _ hwt2 hjm
          have ihl := ih.l nl fn Γ Γx Λ ab cnd b Γ1 Λ1 hc hb ⟨μ2, st2, pos + 1, locs2, base.push mw, g2, l2, m2, out2⟩ pos lp cs below fr base
            w mw rfl rfl hmw hsc (hinv2.reip _ _) hwt3 hcode hext0
          rw [hsz] at ihl
          exact GoalV6.prefix (c := ⟨μ, st, pos + 1, locs, base.push accv, g, l, m, out⟩)
            (c1 := ⟨μ1, { st1 with last := acc }, pos + 1 + sizeE cnd + 4, locs1, base, g1, accv, m1, out1⟩) (n + 1 + 1) hp hk2
            (GoalV6.prefix (c1 := ⟨μ2, st2, pos + 1, locs2, base.push mw, g2, l2, m2, out2⟩) (n2 + 1) hjm hk3 ihl)
        | brk st2 =>
          rw [hrb] at ihb
          obtain ⟨_, μ2, m2, locs2, g2, l2, out2, n2, hn2, hinv2, hk3⟩ := ihb
          refine .inr ⟨.null, μ2, m2, trivial, locs2, g2, l2, out2, n + 1 + 1 + n2, ?_, hinv2.reip _ _, hk2.trans hk3⟩
          refine (execN_add W.C _ _ _ _ _ hp hn2).trans ?_
          rw [← hlp]; simp only [brkT]; congr 2; omega
        | cont st2 =>
          rw [hrb] at ihb
          obtain ⟨_, μ2, m2, locs2, g2, l2, out2, n2, hn2, hinv2, hk3⟩ := ihb
          have hn2' : execN W.C n2 (mk6 W.s0 (pos + 1 + sizeE cnd + 4) below locs1 base g1 accv fr m1 out1) =
              some (mk6 W.s0 (pos + 1) below locs2 (base.push .null) g2 l2 fr m2 out2) := by
            refine hn2.trans ?_
            rw [← hlp]; rfl
          have hwt3 := wt_execN n2 _ _ hwt2 hn2'
          have ihl := ih.l nl fn Γ Γx Λ ab cnd b Γ1 Λ1 hc hb ⟨μ2, st2, pos + 1, locs2, base.push .null, g2, l2, m2, out2⟩ pos lp cs below fr base
            .null .null rfl rfl trivial hsc (hinv2.reip _ _) hwt3 hcode hext0
          rw [hsz] at ihl
          exact GoalV6.prefix (c := ⟨μ, st, pos + 1, locs, base.push accv, g, l, m, out⟩)
            (c1 := ⟨μ1, { st1 with last := acc }, pos + 1 + sizeE cnd + 4, locs1, base, g1, accv, m1, out1⟩) (n + 1 + 1) hp hk2
            (GoalV6.prefix (c1 := ⟨μ2, st2, pos + 1, locs2, base.push .null, g2, l2, m2, out2⟩) n2 hn2' hk3 ihl)
        | err er st2 => rw [hrb] at ihb; exact .inr (SimH.Fails5.after (n + 1 + 1) hp ihb)
        | ret v st2 =>
          rw [hrb] at ihb
          exact .inr ⟨ihb.1, Returns6.prefix (c := ⟨μ, st, pos + 1, locs, base.push accv, g, l, m, out⟩)
            (c1 := ⟨μ1, { st1 with last := acc }, pos + 1 + sizeE cnd + 4, locs1, base, g1, accv, m1, out1⟩) (n + 1 + 1) hp hk2 ihb.2⟩
        | fuel => exact .inr trivial
        | unspec _ => exact .inr trivial
    | _ => exact .inr (herr (fun b e => by subst e; simp only [VR6] at hmv))
  | err er st1 => rw [hrc] at ihc; exact .inr ihc
  | fuel => exact .inr trivial
  | unspec _ => exact .inr trivial
  | brk _ => rw [hrc] at ihc; exact absurd ihc.1 (by simp)
  | cont _ => rw [hrc] at ihc; exact absurd ihc.1 (by simp)
  | ret v st1 =>
    rw [hrc] at ihc
    exact .inr ⟨ihc.1, fun fr0 rest hfr => by
      obtain ⟨mv, g', l', m', out', μ', k, hkk, h1, h2, h3, h4, h5, h6⟩ := ihc.2 fr0 rest hfr
      exact ⟨mv, g', l', m', out', μ', k, hkk, h1, h2, h3, h4, h5, h6⟩⟩

end ctl
end Sim6
end Nl
