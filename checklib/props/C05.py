"""C05 — every failure is an error value: no input crashes or hangs the interpreter.
Direct oracle (the property itself): every input is evaluated in-process under catch_unwind with an
instruction budget, in a process with an address-space limit and a wall-clock limit; any panic,
abort, signal, fault or timeout is a violation.  The outcome (value / error kind / output) is also
compared with the model, which is total by construction."""
import glob
import os

from .. import core, diff, gen
from ..core import hx

PROOF_MODULE = "Nlmodel.Proofs.C05"
PROOF_FILES = ["Nlmodel/Proofs/C05.lean", "Nlmodel/Proofs/Lemmas/Lexer.lean", "Nlmodel/Proofs/Lemmas/VMErrors.lean",
               "Nlmodel/Model/Lexer.lean", "Nlmodel/Model/Parser.lean", "Nlmodel/Model/VM.lean"]
THEOREM_FILE = PROOF_FILES[0]
LEVEL_TEXT = ("Lean theorems: every token consumes at least one character, so tokenizing terminates and the fuel supplied is sufficient (any larger fuel gives the same stream); the token stream is never longer than the text; a step of the machine is a total function and a failing step or run fails with a type, index or argument error only (syntax/reference errors can only come from the front end). The model functions are total by construction (Lean accepts only terminating definitions), with explicit fuel whose sufficiency is proved for the tokenizer and for the parser (C05_parse_fuel_sufficient: potential 3*tokens + c per function, mutual induction over all seven parser functions); the whole pipeline never answers with the model-only FUEL error (C05_eval_never_fuel); THE PROPERTY ON THE MODEL IN FULL (C05_eval_is_value_or_documented_error): for every text and every budget eval answers a value, one of the five documented error kinds, or budget-exhausted (a loop the program spells out) - never a machine fault, because the compiler model's output always passes the verified bytecode checker (C02_compiler_verifiable). What a model cannot exhibit - native stack exhaustion, allocator failure, wall-clock behaviour - is decided by the direct oracle only: every input is run on the real interpreter under catch_unwind, an instruction budget, an address-space limit and a timeout.")
LEVEL_NOTE = ("Partial: runtime crashes (stack overflow by deep native recursion, allocation failure) are outside the model; Known finding K6 (native recursion depth) is listed in known_findings.json.")
TECHNIQUE = "Lean 4 proof (termination/totality, error-kind closure) + crash/hang oracle on the real interpreter over mutated and truncated inputs"
RULE = ("random token sequences over the vocabulary; token-level edits (delete, duplicate, swap, replace) of generated and example "
        "programs; truncation of well-formed programs at every character offset; Unicode/byte noise; a directed corpus of boundary "
        "programs; heap-shape programs (aliased, nested and cyclic arrays alive in every kind of root while functions return, i.e. "
        "while collections run); non-trivial = distinct input that reached the evaluator (all of them)")

VOCAB = ["als", "anders", "antwoord", "functie", "zolang", "stel", "ja", "nee", "stop", "volgende", "x", "y", "f", "print", "lengte", "int",
         "0", "1", "42", "1.5", "1152921504606846975", "99999999999999999999", '"s"', '"', "=", "==", "!=", "<", "<=", ">", ">=", "+", "-", "*", "/", "%",
         "&&", "||", "!", "(", ")", "{", "}", "[", "]", ",", ";", ".", "^", "&", "|", "//", "\n", "№", "é", "+=", "-="]

DIRECTED = [
    "99999999999999999999", "1152921504606846976", "1152921504606846975 + 1", "0 - 1152921504606846975 - 2", "1152921504606846975 * 1152921504606846975",
    "1 / 0", "1 % 0", "1.0 / 0.0", "1.0 % 0.0", "-(0 - 1152921504606846975 - 1)", "(0 - 1152921504606846975 - 1) / (0 - 1)",
    "functie f() { 1 } f(1, 2)", "functie f(a, b, c) { a } f()", "functie f(a) { a } f(1, 2, 3, 4, 5, 6, 7, 8, 9, 10)",
    "antwoord 1", "stop", "volgende", "als ja { antwoord 1 }", "functie f() { stop } f()", "zolang ja { functie f() { stop } f() }",
    "stel x = x", "stel x = x + 1; x", "functie f() { stel b = b; b } f(42)", "x", "x = 1", "f()", "print(y)",
    '"é"[1]', '"é"[0]', '"é日😀"[2]', '"é"[-1]', '"é"[-2]', 'stel s = "é"; s[1] = "x"', '[1][1]', '[][0]', '[1][-2]', "[1][ja]", "1[0]", "ja[0] = 1",
    "[1] == [1]", "[1] < [2]", "functie f() {1} functie g() {2} f < g", "f == 1", "ja < nee", "als nee { 1 } < als nee { 2 }",
    "functie (", "functie f(1) { }", "functie f(a,, b) { }", "functie f(a b) { a }", "1 № 2", '5 "abc', '"\\"', '"abc\\', "1 & 2", "1 | 2", "@",
    "als 1 { 2 }", "zolang 1 { }", "!1", "-ja", "-\"a\"", "1 + ja", "1 && ja", "nee || 0", "print(", "print)", "[1, 2", "{", "}", "((((((((((", "))))))",
    "stel a = [1]; a[0] = a; print(a); a", "stel a = [1]; a[0] = a; a == a", "stel a = []; stel i = 0; zolang i < 200 { a = [a]; i += 1 }; print(a); lengte(a)",
    "functie f() { f() } f()", "functie f(n) { f(n + 1) } f(0)", "functie f(n) { [n, f(n + 1)] } f(0)", "zolang ja { }", "zolang ja { stel a = [1, 2, 3] }",
    "stel s = \"a\"; zolang ja { s[0] = \"ab\" }", "int(\"\")", "int(\" \")", "float(\"\")", "float(\"1e999999999999\")", "float(\"1e-999999999999\")",
    "int(\"99999999999999999999999\")", "int(1e300)" , "string(functie() { 1 })", "bool(functie() { 1 })", "lengte(1)", "type()", "print(1, 2, 3, 4, 5, 6, 7, 8, 9)",
    "1.5.2", "1..2", "1.a", "a.b", "1 . 2", "a = b = 1", "1 = 2", "f(1) = 2", "\"a\" = 1", "(1)(2)", "1(2)", "\"a\"(1)", "[1](2)", "f(1)(2)", "a[1](2)",
    "stel = 1", "stel 1 = 2", "stel x", "stel x =", "als", "als ja", "als ja {", "als ja { } anders", "als ja { } anders als", "zolang", "functie", "antwoord",
    "// nothing", "", " ", "\n\n", "﻿1", "1 2", "x​y", " ", "\x00", "\x7f", "a\x00b",
    "+" * 2000 + "1", "-" * 3000 + "1", "!" * 3000 + "ja", "(" * 2000 + "1" + ")" * 2000, "[" * 2000 + "]" * 2000, "1" + " + 1" * 5000,
    "als ja { " * 500 + "1" + " }" * 500, "functie f() { " * 300 + "1" + " }" * 300, "{" * 3000 + "}" * 3000,
    "stel a = [" + ", ".join(["1"] * 70000) + "]; lengte(a)", "f(" + ", ".join(["1"] * 300) + ")", "print(" + ", ".join(["1"] * 256) + ")",
    "\n".join("stel v%d = %d;" % (i, i) for i in range(3000)) + "\nv2999",
    "stel x = 0; " + "als x == 0 { x = 1 } " * 8000 + " x",
]

# float SPECIAL VALUES (there is no literal for them: they arise at run time) x every operator, every builtin, both operand
# sides, local and global, conditions and indices: NaN (three ways), +-infinity, -0.0, the largest finite, the smallest subnormal
def float_special_programs():
    specials = ["0.0 / 0.0", "(1.0 / 0.0) - (1.0 / 0.0)", "float(\"nan\")", "1.0 / 0.0", "0.0 - 1.0 / 0.0", "0.0 * (0.0 - 1.0)",
                "179769313486231570000000000000000000000000000000000000000000000000000000000000000000000000000000000000000000000000000000000000000000000000000000000000000000000000000000000000000000000000000000000000000000000000000000000000000000000000000000000000000000000000000000000000000000000000000000000000000000000000000.0",
                "float(\"5e-324\")"]
    others = ["1.5", "0.0", "0.0 / 0.0", "1.0 / 0.0"]
    ops = ["+", "-", "*", "/", "%", "<", "<=", ">", ">=", "==", "!="]
    out = []
    for s in specials:
        for o in others:
            for op in ops:
                out.append("stel x = %s; stel y = %s; [x %s y, y %s x]" % (s, o, op, op))
        for op in ops:
            out.append("functie f(n) { stel m = 1.5; [n %s m, m %s n, n %s n] } f(%s)" % (op, op, op, s))
        for b in ["bool", "int", "float", "string", "type", "lengte", "print"]:
            out.append("stel x = %s; %s(x)" % (s, b))
        out.append("stel x = %s; [-x, !(x < 1.0), [1, 2][x]]" % s)
        out.append("stel x = %s; als x < 1.0 { 1 } anders { 2 }" % s)
        out.append("stel x = %s; stel k = 0; zolang x > 1.0 && k < 3 { k += 1 }; k" % s)
        out.append("stel x = %s; print(\"{} {}\", x, [x]); string([x, [x]])" % s)
        out.append("stel x = %s; float(string(x)) == x" % s)
    return out


# heap shapes x collection points: a collection runs at every function return, whatever is alive then
HEAP_DIRECTED = [
    "stel a = [1, 2]; a[1] = a; functie f(x) { x + 1 }; print(a); f(1); a",
    "stel a = [0]; stel b = [a]; a[0] = b; functie f() { }; f(); lengte(b)",
    "functie f() { stel k = [1]; k[0] = k; k }; f(); f()",
    "functie f(x) { x }; stel a = [[1.5], \"s\"]; a[0][0] = a; f(a); f(a[0]); a",
    "stel a = [1, 2, 3]; a[0] = a; a[1] = a; a[2] = a; functie f() { 0.5 + 0.5 }; f(); f(); a",
    "stel a = []; stel i = 0; zolang i < 3000 { a = [a]; i += 1 }; functie f() { 1 }; f(); lengte(a)",
    "stel a = [1]; stel b = [a, a, [a, a]]; functie f() { \"x\" + \"y\" }; f(); b",
    "functie f(n) { als n < 1 { antwoord [] }; stel r = f(n - 1); stel s = [r, r]; s[0] = s; s }; f(6)",
    "stel s = \"abc\"; functie f() { s[0] }; stel t = [f(), f(), s]; t[2] = t; f(); t",
]

K6_PROBE = "(" * 400000 + "1" + ")" * 400000


def mutate(rng, src):
    toks = src.replace("(", " ( ").replace(")", " ) ").replace("{", " { ").replace("}", " } ").replace(";", " ; ").split(" ")
    toks = [t for t in toks if t != ""]
    if not toks:
        return src
    k = rng.below(len(toks))
    c = rng.below(5)
    if c == 0:
        del toks[k]
    elif c == 1:
        toks.insert(k, toks[rng.below(len(toks))])
    elif c == 2:
        j = rng.below(len(toks))
        toks[k], toks[j] = toks[j], toks[k]
    elif c == 3:
        toks[k] = rng.pick(VOCAB)
    else:
        toks.insert(k, rng.pick(VOCAB))
    return " ".join(toks)


def run(res, tier, rng, table_diffs=()):
    inputs = []   # (label, text)
    for d in DIRECTED:
        inputs.append(("directed", d))
    for d in float_special_programs():
        inputs.append(("float-specials", d))
    # argument COUNTS: every builtin and a user function with 0..20, 31..33, 63..65, 127..129, 254..256 arguments
    for n in list(range(0, 21)) + [31, 32, 33, 63, 64, 65, 127, 128, 129, 254, 255, 256]:
        args = ", ".join(str(i) for i in range(n))
        for b in ["print", "type", "bool", "int", "float", "string", "lengte"]:
            inputs.append(("arg-counts", "%s(%s)" % (b, args)))
        inputs.append(("arg-counts", "functie f(a, b) { a }; f(%s)" % args))
        inputs.append(("arg-counts", "print(\"%s\", %s)" % ("{} " * min(n, 40), args) if n else "print()"))
    from .. import gen2
    inputs += gen2.operand_height_programs()
    inputs += [("shrinking-text", p) for p in gen2.shrinking_text_programs()]
    inputs += [("backslash-wide", p) for p in gen2.backslash_wide_programs()]
    n = 3000 if tier == "quick" else 100000
    for _ in range(n):
        inputs.append(("tokens", " ".join(rng.pick(VOCAB) for _ in range(rng.range(1, 14)))))
    bases = []
    for f in sorted(glob.glob(os.path.join(core.REPO, "examples", "*.nl"))):
        bases.append(open(f, encoding="utf-8").read())
    for _ in range(60 if tier == "quick" else 600):
        bases.append(gen.random_program(rng.fork())[0])
    for b in bases:
        for _ in range(10 if tier == "quick" else 40):
            inputs.append(("edit", mutate(rng, b)))
    from . import C03
    for d in HEAP_DIRECTED:
        inputs.append(("heap", d))
    for _ in range(150 if tier == "quick" else 3000):
        inputs.append(("heap", C03.heap_program(rng.fork())))
    # truncation at every character offset
    trunc = bases[:6] + [rng.pick(bases) for _ in range(4 if tier == "quick" else 60)]
    for b in trunc:
        step = 1 if (tier == "thorough" or len(b) < 600) else 3
        for k in range(0, len(b), step):
            inputs.append(("truncate", b[:k]))
    noise_alpha = ["a", "é", "日", "😀", "\u0085", "‎", " ", "\x00", "\x01", "\x7f", " ", "﻿", "퟿", "", "\U0010ffff", "\"", "\\", "'", "`", "#", "$", "?", ":", "~",
                   "1", ".", "e", "-", "{", "}", "(", ")", "=", "\n", "\r", "\t", " "]
    for _ in range(2000 if tier == "quick" else 50000):
        inputs.append(("noise", "".join(rng.pick(noise_alpha) for _ in range(rng.range(1, 12)))))
    texts = [t for _, t in inputs]
    budget = 200000
    reqs = ["evalx %d %s" % (budget, hx(t)) for t in texts]
    ia = core.impl(reqs, per_request_timeout=30.0)
    ma = core.model(["eval %d %s" % (budget, hx(t)) for t in texts], per_request_timeout=60.0)
    reported = 0
    fuel = 0
    for (label, t), i, m in zip(inputs, ia, ma):
        res.seen(t, nontrivial=True)
        res.count(label)
        io = diff.obs(i)
        res.count("impl:" + (" ".join(io.split(" ")[:2]) if io.startswith("err") else io.split(" ")[0]))
        crashed = io.startswith(("PANIC", "CRASH", "TIMEOUT", "FAULT"))
        st = diff.stats(i)
        leaky = bool(st) and (st.get("dfree", "0") != "0" or st.get("uaf", "0") != "0" or st.get("live", "0") != "0")
        if m.startswith("err FUEL"):
            fuel += 1
        if crashed or leaky:
            if reported < 5:
                reported += 1
                small = t
                if len(t) < 3000:
                    def still(s):
                        a = core.impl(["evalx %d %s" % (budget, hx(s))], per_request_timeout=30.0)[0]
                        return diff.obs(a).startswith(("PANIC", "CRASH", "TIMEOUT", "FAULT"))
                    if crashed:
                        small = diff.shrink_lines(t, still, max_rounds=40)
                res.violation("the interpreter crashed, hung or corrupted its heap instead of returning a value or an error",
                              dict(kind="crash", input=small, original=t if small != t else None, impl=i, model=m, generator=label))
            continue
        if io == "BUDGET" or m == "BUDGET":
            res.count("budget")
            continue
        if io != m and reported < 8:
            reported += 1
            res.violation("model and implementation disagree on an input (outcome kind/value)",
                          dict(kind="model", input=t, impl=i, model=m, generator=label, unchecked="correspondence of the whole pipeline model (Proofs/C05 theorems are about it)"),
                          no_input=True)
    if fuel:
        res.violation("the model's front end ran out of fuel (fuel bound not sufficient)", dict(kind="fuel", count=fuel, unchecked="parse fuel sufficiency"), no_input=True)
    # retained sessions (round 9): whatever a rejected or failed line leaves behind in the retained compiler and machine, no later
    # line may crash the process (a stale constant index, an open scope, abandoned frames)
    ss = [x for x in gen2.failure_then_declaration_sessions()] + [x[0] for x in gen2.failed_scope_leak_sessions()] + gen2.declare_then_fail_sessions()
    sa = core.impl(["session 100000 " + " ".join(hx(l) for l in x) for x in ss], per_request_timeout=30.0)
    sm = core.model(["session 100000 " + " ".join(hx(l) for l in x) for x in ss], per_request_timeout=60.0)
    for x, a, m in zip(ss, sa, sm):
        res.seen("S" + "\n".join(x), nontrivial=True)
        res.count("session")
        if (a.startswith(("PANIC", "CRASH", "TIMEOUT")) or "FAULT" in a or "PANIC" in a) and reported < 8:
            reported += 1
            res.violation("a line of a retained session crashed the interpreter instead of returning a value or an error",
                          dict(kind="session-crash", input=x, impl=a[:400], model=m[:400]))
    # K6: native recursion depth (known finding, out-of-process oracle)
    r = core.impl(["eval 1000 " + hx(K6_PROBE)], per_request_timeout=60.0)[0]
    res.seen("K6", nontrivial=True)
    if r.startswith(("CRASH", "TIMEOUT", "PANIC")):
        res.violation("deep nesting exhausts the native stack and aborts the process",
                      dict(kind="native-stack", input="( x 400000 ... ) x 400000", input_class="nesting depth above ~10^5", impl=r))


def replay(res, rp):
    if rp.get("kind") == "session-crash":
        a = core.impl(["session 100000 " + " ".join(hx(l) for l in rp["input"])], per_request_timeout=30.0)[0]
        print(a[:400])
        if a.startswith(("PANIC", "CRASH", "TIMEOUT")) or "FAULT" in a or "PANIC" in a:
            print("VIOLATION property=C05 replay=replay")
            return 1
        return 0
    t = rp["input"]
    if rp.get("kind") == "native-stack":
        t = K6_PROBE
    i = core.impl(["evalx 200000 " + hx(t)], per_request_timeout=60.0)[0]
    m = core.model(["eval 200000 " + hx(t)], per_request_timeout=60.0)[0]
    print("impl :", i[:300])
    print("model:", m[:300])
    io = diff.obs(i)
    if io.startswith(("PANIC", "CRASH", "TIMEOUT", "FAULT")) or (io != "BUDGET" and m != "BUDGET" and io != m):
        print("VIOLATION property=C05 replay=replay")
        return 1
    return 0
