"""C06 — operators are exact over the whole value range.
Theorems: Proofs/C06 (binopCore). Correspondence: the real operators through `eval`, in three
syntactic forms, vs the model; direct oracle: exact big-integer arithmetic (Python ints), the
host's IEEE-754 unit for floats, code-point order for strings."""
import math
import struct

from .. import core, lattice
from ..core import hx

PROOF_MODULE = "Nlmodel.Proofs.C06"
PROOF_FILES = ["Nlmodel/Proofs/C06.lean", "Nlmodel/Model/Value.lean", "Nlmodel/Model/Float.lean"]
THEOREM_FILE = PROOF_FILES[0]
LEVEL_TEXT = ("Lean theorems about binopCore, the operator semantics shared by machine model and definitional semantics: integer + - * / % give the exact result iff it exists and is in the 61-bit range and a type error otherwise; truncating division/remainder characterisation; the six integer comparisons agree with the integers; string order is a strict total order (irreflexive, asymmetric, transitive, trichotomous); mixed or unsupported operand types are always an error. Floats are modelled as exact rational arithmetic with round-to-nearest-even (Model/Float) and compared bit for bit with the host IEEE unit. The model is tied to object.rs/vm.rs/compiler.rs by evaluating every pair of a boundary lattice for all 11 operators in three syntactic forms (literal op literal, variable op literal in a function = fused opcode, literal op variable in a function) on the real interpreter and on the model, with an exact big-integer oracle. SESSION 7: the implementation orders texts BYTEWISE; UTF-8 preserves code-point order: C06_string_order_on_bytes, C06_string_comparisons_on_bytes (all six comparisons of the model are what bytewise < and == on the encodings give), for all texts. SPECIAL VALUES (Lemmas/FloatSpecial*): for ALL bit patterns each float operation equals a complete IEEE case table over NaN / infinite / zero / sign (C06_float_add/mul/div/rem_all_cases): NaN propagates, inf-inf, 0*inf, inf/inf, 0/0, x%0, inf%y are NaN, x/0 is the infinity with the xor sign, x%inf = x, a remainder has the sign of the dividend; C06_float_comparisons_with_nan (all six operators of the language: false, != true); C06_float_order_trichotomy on non-NaN values.")
LEVEL_NOTE = ("Trusted: Lean kernel; the exact float model's rounding IS proved correct (C06_float_rounding_is_correct: for every positive fraction the computed magnitude is the unique nearest-ties-to-even finite magnitude below the overflow threshold 2^1024-2^970 and infinity from there on, normals and subnormals; C06_float_add/sub/mul/div: each operation on finite operands is that rounding applied to the EXACT result with the IEEE sign rules; C06_float_lt_is_value_order); that the host FPU and Rust's f64 implement the same IEEE-754 function is validated by the correspondence on every float a run meets, not proved (hardware is outside every theorem); C06_float_rem_exact: % on finite floats is exact (the remainder is representable, no rounding); decimal printing/parsing round trip is C14_float_text_roundtrip; Rust str ordering = code-point order (std).")
TECHNIQUE = "Lean 4 proof about the shared operator semantics + exhaustive lattice correspondence with big-integer oracle"
RULE = ("all pairs of the integer boundary lattice x 11 operators x 3 syntactic forms (complete in the thorough tier; k in a "
        "subset for quick), random 61-bit pairs, float pairs incl. signed zeros/inf/NaN/subnormals, string pairs, and the "
        "7x7 type cross product x 13 operators; non-trivial = distinct request whose outcome was compared with the oracle")

MAXI, MINI = lattice.MAXI, lattice.MINI
OPS = ["+", "-", "*", "/", "%", "<", "<=", ">", ">=", "==", "!="]


def lit(v):
    if v >= 0:
        return str(v)
    if -v <= MAXI:
        return "(0 - %d)" % (-v)
    return "(0 - %d - 1)" % MAXI


def tdiv(a, b):
    q = abs(a) // abs(b)
    return q if (a >= 0) == (b >= 0) else -q


def expect_int(op, a, b):
    if op in ("<", "<=", ">", ">=", "==", "!="):
        r = {"<": a < b, "<=": a <= b, ">": a > b, ">=": a >= b, "==": a == b, "!=": a != b}[op]
        return "ok b:ja" if r else "ok b:nee"
    if op in ("/", "%") and b == 0:
        return "err Type"
    v = {"+": a + b, "-": a - b, "*": a * b, "/": None, "%": None}[op]
    if op == "/":
        v = tdiv(a, b)
    if op == "%":
        v = a - b * tdiv(a, b)
    if MINI <= v <= MAXI:
        return "ok i:%d" % v
    return "err Type"


def forms(op, a, b):
    yield "lit", "%s %s %s" % (lit(a), op, lit(b))
    yield "var-lit", "functie f(n) { n %s %s } f(%s)" % (op, lit(b), lit(a))
    yield "lit-var", "functie f(n) { %s %s n } f(%s)" % (lit(a), op, lit(b))


def fbits(x):
    return struct.unpack("<Q", struct.pack("<d", x))[0]


def fval(b):
    return struct.unpack("<d", struct.pack("<Q", b))[0]


def fsrc(b):
    x = fval(b)
    if math.isnan(x):
        return '(0.0 / 0.0)'
    if math.isinf(x):
        return '(1.0 / 0.0)' if x > 0 else '(-1.0 / 0.0)'
    return 'float("%r")' % x


def expect_float(op, x, y):
    if op in ("<", "<=", ">", ">=", "==", "!="):
        r = {"<": x < y, "<=": x <= y, ">": x > y, ">=": x >= y, "==": x == y, "!=": x != y}[op]
        return "ok b:ja" if r else "ok b:nee"
    try:
        if op == "+":
            v = x + y
        elif op == "-":
            v = x - y
        elif op == "*":
            v = x * y
        elif op == "/":
            if y == 0:
                v = math.nan if (x == 0 or math.isnan(x)) else math.copysign(math.inf, x) * math.copysign(1, y)
            else:
                v = x / y
        else:
            if math.isinf(x) or y == 0:
                v = math.nan
            else:
                v = math.fmod(x, y)
    except (OverflowError, ValueError):
        return None
    if math.isnan(v):
        return "ok f:nan"
    return "ok f:%016x" % fbits(v)


def run(res, tier, rng, table_diffs=()):
    vals = lattice.int_lattice([0, 1, 2, 30, 31, 32, 59, 60] if tier == "quick" else lattice.ALL_KS)
    if tier == "thorough":
        # the complete lattice squared is ~130k pairs x 33 forms; sample the square down to ~40k pairs, keep boundaries complete
        pass
    cases = []   # (label, source, expected or None)
    pairs = [(a, b) for a in vals for b in vals]
    if tier == "thorough" and len(pairs) > 40000:
        keep = set((a, b) for a in vals for b in (0, 1, -1, 2, -2, 7, MAXI, MINI, MAXI - 1, MINI + 1))
        keep |= set((b, a) for (a, b) in keep)
        rest = [p for p in pairs if p not in keep]
        pairs = sorted(keep) + [rng.pick(rest) for _ in range(30000)]
    for _ in range(300 if tier == "quick" else 5000):
        pairs.append((lattice.rand_int61(rng), lattice.rand_int61(rng)))
    for (a, b) in pairs:
        for op in OPS:
            e = expect_int(op, a, b)
            for label, src in forms(op, a, b):
                cases.append(("int-" + label, src, e))
    fl = list(lattice.FLOAT_BITS) + [rng.next() for _ in range(10 if tier == "quick" else 60)]
    for x in fl:
        for y in fl:
            for op in OPS:
                cases.append(("float", "%s %s %s" % (fsrc(x), op, fsrc(y)), expect_float(op, fval(x), fval(y))))
    # float literals: the same operators on literal operands, in every operand form (literal/literal, variable, parameter on
    # either side), zeros of both signs together in one program (equal constants are shared in the constant pool)
    lits = [("0.0", 0.0), ("-0.0", -0.0), ("1.5", 1.5), ("-1.5", -1.5), ("0.1", 0.1), ("2.0", 2.0), ("-2.0", -2.0), ("1000000.25", 1000000.25)]
    for (sa, a) in lits:
        for (sb, b) in lits:
            for op in OPS:
                e = expect_float(op, a, b)
                cases.append(("float-lit", "%s %s %s" % (sa, op, sb), e))
                cases.append(("float-lit-var", "stel a = %s; a %s %s" % (sa, op, sb), e))
                cases.append(("float-lit-var-other-zero", "stel z = 0.0; stel y = -0.0; stel a = %s; a %s %s" % (sa, op, sb), e))
                cases.append(("float-lit-param", "functie(x) { x %s %s }(%s)" % (op, sb, sa), e))
                cases.append(("float-lit-param-left", "functie(x) { %s %s x }(%s)" % (sa, op, sb), e))
    for s in lattice.STRINGS:
        for t in lattice.STRINGS:
            for op in ["<", "<=", ">", ">=", "==", "!="]:
                cp = lambda u: [ord(c) for c in u]
                r = {"<": cp(s) < cp(t), "<=": cp(s) <= cp(t), ">": cp(s) > cp(t), ">=": cp(s) >= cp(t), "==": s == t, "!=": s != t}[op]
                q = lambda u: '"' + u.replace("\\", "\\\\").replace('"', '\\"') + '"'
                cases.append(("string", "%s %s %s" % (q(s), op, q(t)), "ok b:ja" if r else "ok b:nee"))
    # texts with LONG common prefixes and characters of every width straddling every byte offset (round 10): the first differing
    # character decides, wherever it lies; expected value from the code-point order
    from .. import gen2
    chars = ["a", "b", "z", "0", "é", "ë", "ß", "€", "日", "😀", "\U00010000"]
    for k in range(0, 14):
        for c in chars[4:]:
            pre = "1234567890123"[:k] + c
            for a, b in [("1", "2"), ("", "x"), ("é", "e"), ("z", "é"), ("😀", "€")]:
                for s, t in [(pre + a, pre + b), (pre + b, pre + a), (pre + a, pre + a)]:
                    for op in ["<", "<=", ">", ">=", "==", "!="]:
                        cp = lambda u: [ord(ch) for ch in u]
                        r = {"<": cp(s) < cp(t), "<=": cp(s) <= cp(t), ">": cp(s) > cp(t), ">=": cp(s) >= cp(t), "==": s == t, "!=": s != t}[op]
                        if op in ("<", "==", ">=") or k % 3 == 0:
                            cases.append(("string-long-prefix", '"%s" %s "%s"' % (s, op, t), "ok b:ja" if r else "ok b:nee"))
    for _ in range(300 if tier == "quick" else 6000):
        pre = "".join(rng.pick(chars) for _ in range(rng.below(9)))
        s = pre + "".join(rng.pick(chars) for _ in range(rng.below(3)))
        t = pre + "".join(rng.pick(chars) for _ in range(rng.below(3)))
        op = rng.pick(["<", "<=", ">", ">=", "==", "!="])
        cp = lambda u: [ord(ch) for ch in u]
        r = {"<": cp(s) < cp(t), "<=": cp(s) <= cp(t), ">": cp(s) > cp(t), ">=": cp(s) >= cp(t), "==": s == t, "!=": s != t}[op]
        cases.append(("string-long-prefix", 'functie c(u, v) { u %s v }; c("%s", "%s")' % (op, s, t), "ok b:ja" if r else "ok b:nee"))
    for p in gen2.float_alias_programs():
        cases.append(("float-alias", p, None))
    samples = {"null": "als nee { 1 }", "bool": "ja", "int": "3", "float": "1.5", "str": '"a"', "arr": "[1]", "fn": "functie() { 1 }"}
    for ta, sa in samples.items():
        for tb, sb in samples.items():
            for op in OPS + ["&&", "||"]:
                if ta == "fn":
                    src = "stel f = %s; stel g = %s; f %s g" % (sa, sb, op)
                elif tb == "fn":
                    src = "stel g = %s; (%s) %s g" % (sb, sa, op)
                else:
                    src = "(%s) %s (%s)" % (sa, op, sb)
                e = None
                if ta != tb and not (op in ("&&", "||") and ta == tb == "bool"):
                    e = "err Type"
                cases.append(("cross", src, e))
    # CHAINS at the range ends: every intermediate result must be in range — `x + 1 - 1` at MAX_INT is an error, not MAX_INT (an
    # algebraic simplification of a chain of literal terms drops the error of the intermediate step)
    def chain_expect(x, steps):
        v = x
        for op, k in steps:
            v = v + k if op == "+" else v - k if op == "-" else v * k
            if not (MINI <= v <= MAXI):
                return "err Type"
        return "ok i:%d" % v
    ends = [MAXI - d for d in range(0, 6)] + [MINI + d for d in range(0, 6)] + [0, 7, -7]
    chains = [[("+", 1), ("-", 1)], [("-", 1), ("+", 1)], [("+", 5), ("-", 2)], [("-", 5), ("+", 2)], [("+", 3), ("+", 2)], [("-", 3), ("-", 2)],
              [("+", 1), ("-", 1), ("+", 1)], [("*", 2), ("-", 1)], [("+", 0), ("-", 0)], [("-", 2), ("-", 3), ("+", 5)]]
    for x in ends:
        xs = lit(x)
        for ch in chains:
            e = chain_expect(x, ch)
            tail = " ".join("%s %d" % (op, k) for op, k in ch)
            cases.append(("chain-var", "stel x = %s; x %s" % (xs, tail), e))
            cases.append(("chain-param", "functie(x) { x %s }(%s)" % (tail, xs), e))
            cases.append(("chain-paren", "stel x = %s; ((x %s) %s)" % (xs, "%s %d" % ch[0], " ".join("%s %d" % (op, k) for op, k in ch[1:])), e))
            cases.append(("chain-steps", "stel x = %s; stel y = x %s %d; y %s" % (xs, ch[0][0], ch[0][1], " ".join("%s %d" % (op, k) for op, k in ch[1:])), e))
    # a value compared with ITSELF (same variable, alias, same element, same parameter): NaN is not equal to itself
    from .. import enum as _enum
    for p in _enum.same_object_programs():
        exp = None
        if p.startswith('stel n = 0.0 / 0.0; n ') or p.startswith('stel n = float("nan"); n '):
            op = p.rsplit(" ", 2)[1]
            exp = "ok b:ja" if op == "!=" else "ok b:nee"
        cases.append(("same-object", p, exp))
    for p in _enum.cross_type_fused_programs():
        cases.append(("cross-fused", p, None))
    reqs = ["eval 100000 " + hx(c[1]) for c in cases]
    ia = core.impl(reqs)
    ma = core.model(reqs)
    sa = core.model(["spec 100000 " + hx(c[1]) for c in cases])
    reported = 0
    for (label, src, exp), i, m, s in zip(cases, ia, ma, sa):
        res.seen(src, nontrivial=True)
        res.count(label)
        io = i.split(" | ")[0]
        bad = None
        if exp is not None and io != exp:
            bad = ("oracle", "expected %s" % exp)
        elif i != m:
            bad = ("model", "model says %s" % m)
        elif i != s:
            bad = ("spec", "definitional semantics says %s" % s)
        if bad and reported < 5:
            reported += 1
            res.violation("operator result differs from the %s" % ("exact result" if bad[0] == "oracle" else "model"),
                          dict(kind=bad[0], input=src, impl=i, model=m, spec=s, expected=exp, form=label,
                               unchecked="correspondence binopCore vs object.rs (theorems of Proofs/C06)"),
                          no_input=(bad[0] != "oracle" and exp is None))
    if table_diffs:
        res.violation("the model's tables differ from the code's", dict(kind="tables", diffs=list(table_diffs)[:10], unchecked="table correspondence"), no_input=True)


def replay(res, rp):
    src = rp["input"]
    i = core.impl(["eval 100000 " + hx(src)])[0]
    m = core.model(["eval 100000 " + hx(src)])[0]
    print("impl :", i)
    print("model:", m)
    print("expected:", rp.get("expected"))
    exp = rp.get("expected")
    if (exp is not None and i.split(" | ")[0] != exp) or i != m:
        print("VIOLATION property=C06 replay=replay")
        return 1
    return 0
