/- Stage 4: assignment, binary operators and fused instructions on frames. -/
import Nlmodel.Proofs.Lemmas.SimFnExpr
import Nlmodel.Proofs.C10
namespace Nl
namespace SimF
open Spec Sim

theorem relG_bind {W : World} {Γb : Gam} (hok : GamOK Γb) (st : SState) (g : Array Value) (b k : Nat) (hm : (b, k) ∈ Γb)
    (v : SVal) (mv : Value) (hv : VR W.ft W.Γp v mv) (hr : RelG W Γb st g) :
    RelG W Γb (st.bind ⟨b, .global k⟩ v) (setGlobalArr g k mv) := by
  intro b' k' hm' w hw
  simp only [SState.bind, isGlobalSlot, ↓reduceIte] at hw
  obtain ⟨u1, u2⟩ := gam_unique hok hm hm'
  by_cases hb : b = b'
  · have hk := u1 hb
    subst hb; subst hk
    rw [envGet_envSet_same] at hw
    injection hw with hw; subst hw
    exact ⟨mv, hv, setGlobalArr_same g k mv⟩
  · have hk : k' ≠ k := fun e => hb (u2 e.symm)
    rw [envGet_envSet_other _ _ _ _ (fun e => hb e.symm)] at hw
    obtain ⟨mw, h1, h2⟩ := hr b' k' hm' w hw
    exact ⟨mw, h1, by rw [setGlobalArr_other g k k' mv hk]; exact h2⟩

theorem relL_bind {W : World} {Λ : Gam} (hok : GamOK Λ) (st : SState) (locs : Array Value) (b k : Nat) (hm : (b, k) ∈ Λ)
    (hk : k < locs.size) (v : SVal) (mv : Value) (hv : VR W.ft W.Γp v mv) (hr : RelL W Λ st locs) :
    RelL W Λ (st.bind ⟨b, .loc k⟩ v) (locs.setIfInBounds k mv) := by
  intro b' k' hm' w hw
  simp only [SState.bind, isGlobalSlot, Bool.false_eq_true, ↓reduceIte] at hw
  obtain ⟨u1, u2⟩ := gam_unique hok hm hm'
  by_cases hb : b = b'
  · have hk' := u1 hb
    subst hb; subst hk'
    rw [envGet_envSet_same] at hw
    injection hw with hw; subst hw
    exact ⟨mv, hv, by simp [Array.getElem?_setIfInBounds, hk]⟩
  · have hkk : k' ≠ k := fun e => hb (u2 e.symm)
    rw [envGet_envSet_other _ _ _ _ (fun e => hb e.symm)] at hw
    obtain ⟨mw, h1, h2⟩ := hr b' k' hm' w hw
    exact ⟨mw, h1, by rw [Array.getElem?_setIfInBounds]; simp [Ne.symm hkk, h2]⟩

/-- on values of the fragment every operator yields a scalar primitive (or an error) -/
theorem binopCore_prim {W : World} (op : BinOp) (a b : SVal) (ma mb : Value) (st : SState) (p : PRes)
    (ha : VR W.ft W.Γp a ma) (hb : VR W.ft W.Γp b mb) (h : binopCore op (st.view a) (st.view b) = .ok p) :
    p = .null ∨ (∃ x, p = .bool x) ∨ (∃ i, p = .int i) := by
  cases a <;> cases ma <;> simp only [VR] at ha <;> (try exact absurd ha id) <;>
  cases b <;> cases mb <;> simp only [VR] at hb <;> (try exact absurd hb id) <;> cases op <;>
    simp only [SState.view, binopCore, View.ty, BinOp.isArith, BinOp.isOrder, intArith] at h <;>
    (repeat' split at h) <;> (first | (simp at h; done) | (injection h with h; subst h; simp) | skip)

theorem box_prim {W : World} (m : Mem) (arg : Value) (st : SState) (sarg : SVal) (p : PRes)
    (hp : p = .null ∨ (∃ b, p = .bool b) ∨ (∃ i, p = .int i)) :
    ∃ mv, (m.box arg p) = (mv, m) ∧ VR W.ft W.Γp (st.box sarg p).1 mv ∧ (st.box sarg p).2 = st := by
  rcases hp with rfl | ⟨b, rfl⟩ | ⟨i, rfl⟩
  · exact ⟨.null, rfl, trivial, rfl⟩
  · exact ⟨.bool b, rfl, rfl, rfl⟩
  · exact ⟨.int i, rfl, rfl, rfl⟩

section expr
variable {W : World} {nl : Nat} {fn : Bool} {Γ Γx Λ : Gam} {ab : Bool} {st : SState} {pos : Nat} {lp : LoopCtx} {cs : List Const}
  {below : Array Value} {fr : List Frame} {locs ops g : Array Value} {l : Value}

theorem pe_assignG (f : Nat) (ih : PE W f) (b k : Nat) (hm : (b, k) ∈ Γ) (e1 : RExpr) (h1 : YE nl fn Γ Λ ab e1) (hsc : Sc W fn Γ Γx Λ)
    (hinv : Inv W (bigScope fn Γ Γx) Λ nl st locs g l)
    (hcode : CodeAt W.C pos (emitE (.assignVar ⟨b, .global k⟩ e1) pos lp cs).1)
    (hpool : PoolOK W.s0.cvals (emitE (.assignVar ⟨b, .global k⟩ e1) pos lp cs).2) :
    GoalV W (bigScope fn Γ Γx) Λ nl below fr fn ab lp pos locs ops g l (pos + sizeE (.assignVar ⟨b, .global k⟩ e1)) ops st
      (evalE (f + 1) (.assignVar ⟨b, .global k⟩ e1) st) := by
  simp only [emitE, getVar, setVar] at hcode hpool
  obtain ⟨hc1, hc2⟩ := hcode.append
  rw [emitE_size] at hc2
  have h := ih nl fn Γ Γx Λ ab e1 h1 st pos lp cs below fr locs ops g l hsc hinv hc1 hpool
  simp only [evalE, sizeE]
  rcases h with h | h
  · exact .inl h
  cases hr : evalE f e1 st with
  | val v st1 =>
    rw [hr] at h
    obtain ⟨mv, hmv, locs1, g1, l1, n, hn, hinv1, ho1⟩ := h
    refine .inr ⟨mv, hmv, locs1, setGlobalArr g1 k mv, l1, n + 2, ?_, ?_, ?_⟩
    · have h2 := execN_step W.C n _ _ _ hn (step_setGlobal hc2)
      have h3 := execN_step W.C (n + 1) _ _ _ h2 (step_getGlobal (by simpa [Instr.size] using hc2.tail))
      rw [setGlobalArr_same] at h3
      rw [h3]; congr 2
    · exact ⟨relG_bind hsc.okb st1 g1 b k (hsc.sub _ hm) v mv hmv hinv1.relG,
        by simpa [RelL, SState.bind, isGlobalSlot] using hinv1.relL,
        by simpa [SState.bind, isGlobalSlot] using hinv1.last, hinv1.size⟩
    · simpa [SState.bind, isGlobalSlot] using ho1
  | err er st1 => rw [hr] at h; exact .inr h
  | fuel => exact .inr trivial
  | unspec _ => exact .inr trivial
  | brk _ => rw [hr] at h; exact .inr h
  | cont _ => rw [hr] at h; exact .inr h
  | ret _ _ => rw [hr] at h; exact .inr h

theorem pe_assignL (f : Nat) (ih : PE W f) (b k : Nat) (hm : (b, k) ∈ Λ) (hk : k < nl) (e1 : RExpr) (h1 : YE nl fn Γ Λ ab e1) (hsc : Sc W fn Γ Γx Λ)
    (hinv : Inv W (bigScope fn Γ Γx) Λ nl st locs g l)
    (hcode : CodeAt W.C pos (emitE (.assignVar ⟨b, .loc k⟩ e1) pos lp cs).1)
    (hpool : PoolOK W.s0.cvals (emitE (.assignVar ⟨b, .loc k⟩ e1) pos lp cs).2) :
    GoalV W (bigScope fn Γ Γx) Λ nl below fr fn ab lp pos locs ops g l (pos + sizeE (.assignVar ⟨b, .loc k⟩ e1)) ops st
      (evalE (f + 1) (.assignVar ⟨b, .loc k⟩ e1) st) := by
  simp only [emitE, getVar, setVar] at hcode hpool
  obtain ⟨hc1, hc2⟩ := hcode.append
  rw [emitE_size] at hc2
  have h := ih nl fn Γ Γx Λ ab e1 h1 st pos lp cs below fr locs ops g l hsc hinv hc1 hpool
  simp only [evalE, sizeE]
  rcases h with h | h
  · exact .inl h
  cases hr : evalE f e1 st with
  | val v st1 =>
    rw [hr] at h
    obtain ⟨mv, hmv, locs1, g1, l1, n, hn, hinv1, ho1⟩ := h
    have hk1 : k < locs1.size := by rw [hinv1.size]; exact hk
    refine .inr ⟨mv, hmv, locs1.setIfInBounds k mv, g1, l1, n + 2, ?_, ?_, ?_⟩
    · have h2 := execN_step W.C n _ _ _ hn (step_setLocal hc2 hk1)
      have h3 := execN_step W.C (n + 1) _ _ _ h2
        (step_getLocal (v := mv) (by simpa [Instr.size] using hc2.tail) (by simp [Array.getElem?_setIfInBounds, hk1]))
      rw [h3]; congr 2
    · exact ⟨by simpa [RelG, SState.bind, isGlobalSlot] using hinv1.relG,
        relL_bind hsc.okl st1 locs1 b k hm hk1 v mv hmv hinv1.relL,
        by simpa [SState.bind, isGlobalSlot] using hinv1.last, by simp [hinv1.size]⟩
    · simpa [SState.bind, isGlobalSlot] using ho1
  | err er st1 => rw [hr] at h; exact .inr h
  | fuel => exact .inr trivial
  | unspec _ => exact .inr trivial
  | brk _ => rw [hr] at h; exact .inr h
  | cont _ => rw [hr] at h; exact .inr h
  | ret _ _ => rw [hr] at h; exact .inr h

theorem exec_bin (hW : WOK W) (op : BinOp) (ip' : Nat) (i : Nat) (locs1 g1 : Array Value) (l1 : Value)
    (a b : SVal) (ma mb : Value) (st2 : SState) (ha : VR W.ft W.Γp a ma) (hb : VR W.ft W.Γp b mb) :
    match binopCore op (st2.view a) (st2.view b) with
    | .ok p => ∃ mv, VR W.ft W.Γp (st2.box a p).1 mv ∧ (st2.box a p).2 = st2 ∧
        exec (.bin op) ip' (mkS W.s0 i below locs1 ((ops.push ma).push mb) g1 l1 fr) = .next (mkS W.s0 ip' below locs1 (ops.push mv) g1 l1 fr)
    | .error er => ∃ s2, exec (.bin op) ip' (mkS W.s0 i below locs1 ((ops.push ma).push mb) g1 l1 fr) = .error er s2 := by
  have hview := view_rel hW.inj W.s0.mem.heap st2 op ha hb
  cases hcore : binopCore op (st2.view a) (st2.view b) with
  | error er =>
    simp only
    exact ⟨_, by simp only [exec, mkS_stack, pop_frame, binop, mkS_mem, hview, hcore]; rfl⟩
  | ok p =>
    have hp := binopCore_prim op a b ma mb st2 p ha hb hcore
    obtain ⟨mv, hbox, hmv, hst⟩ := box_prim (W := W) W.s0.mem ma st2 a p hp
    simp only
    refine ⟨mv, hmv, hst, ?_⟩
    simp only [exec, mkS_stack, pop_frame, binop, mkS_mem, hview, hcore, hbox, frame_push]
    rfl

theorem pe_bin (hW : WOK W) (f : Nat) (ih : PE W f) (el : RExpr) (op : BinOp) (er : RExpr) (hnf : fusedCandidate el op er = none)
    (hl : YE nl fn Γ Λ ab el) (hr : YE nl fn Γ Λ false er) (hsc : Sc W fn Γ Γx Λ)
    (hinv : Inv W (bigScope fn Γ Γx) Λ nl st locs g l)
    (hcode : CodeAt W.C pos (emitE (.infix el op er) pos lp cs).1) (hpool : PoolOK W.s0.cvals (emitE (.infix el op er) pos lp cs).2) :
    GoalV W (bigScope fn Γ Γx) Λ nl below fr fn ab lp pos locs ops g l (pos + sizeE (.infix el op er)) ops st (evalE (f + 1) (.infix el op er) st) := by
  simp only [emitE, hnf] at hcode hpool
  obtain ⟨hc12, hc3⟩ := hcode.append
  obtain ⟨hc1, hc2⟩ := hc12.append
  rw [emitE_size] at hc2
  simp only [codeSize_append, emitE_size, ← Nat.add_assoc] at hc3
  have hpool1 : PoolOK W.s0.cvals (emitE el pos lp cs).2 := hpool.mono (emitE_ext er _ _ _)
  have ihl := ih nl fn Γ Γx Λ ab el hl st pos lp cs below fr locs ops g l hsc hinv hc1 hpool1
  simp only [evalE, sizeE, hnf]
  rcases ihl with ihl | ihl
  · exact .inl ihl
  cases hrl : evalE f el st with
  | val a st1 =>
    rw [hrl] at ihl
    obtain ⟨ma, hma, locs1, g1, l1, n1, hn1, hinv1, ho1⟩ := ihl
    have ihr := ih nl fn Γ Γx Λ false er hr st1 (pos + sizeE el) lp (emitE el pos lp cs).2 below fr locs1 (ops.push ma) g1 l1 hsc hinv1 hc2 hpool
    simp only
    rcases ihr with ihr | ihr
    · exact .inl (Ovf.after n1 hn1 ihr)
    cases hrr : evalE f er st1 with
    | val b st2 =>
      rw [hrr] at ihr
      obtain ⟨mb, hmb, locs2, g2, l2, n2, hn2, hinv2, ho2⟩ := ihr
      have hn12 := execN_add W.C n1 n2 _ _ _ hn1 hn2
      have hex := exec_bin (below := below) (fr := fr) (ops := ops) hW op (pos + sizeE el + sizeE er + 1) (pos + sizeE el + sizeE er) locs2 g2 l2 a b ma mb st2 hma hmb
      have hstep := step_exec (s0 := W.s0) (below := below) (locs := locs2) (ops := (ops.push ma).push mb) (g := g2) (l := l2) (fr := fr) hc3
      simp only
      cases hcore : binopCore op (st2.view a) (st2.view b) with
      | error e =>
        rw [hcore] at hex
        obtain ⟨s2, hs2⟩ := hex
        exact .inr ⟨n1 + n2, _, s2, hn12, by rw [hstep]; exact hs2⟩
      | ok p =>
        rw [hcore] at hex
        obtain ⟨mv, hmv, hst, hs⟩ := hex
        simp only
        generalize hsb : st2.box a p = sb at hmv hst ⊢
        obtain ⟨v, st3⟩ := sb
        simp only at hmv hst ⊢
        subst hst
        refine .inr ⟨mv, hmv, locs2, g2, l2, n1 + n2 + 1, ?_, hinv2, by rw [ho2, ho1]⟩
        apply execN_step W.C (n1 + n2) _ _ _ hn12
        rw [hstep]; simp only [Instr.size]; rw [hs]; congr 2; omega
    | err e st2 => rw [hrr] at ihr; exact .inr (Fails.after n1 hn1 ihr)
    | fuel => exact .inr trivial
    | unspec _ => exact .inr trivial
    | brk _ => rw [hrr] at ihr; exact absurd ihr.1 (by simp)
    | cont _ => rw [hrr] at ihr; exact absurd ihr.1 (by simp)
    | ret _ _ => rw [hrr] at ihr; exact .inr ⟨ihr.1, ihr.2.prefix n1 hn1 ho1⟩
  | err e st1 => rw [hrl] at ihl; exact .inr ihl
  | fuel => exact .inr trivial
  | unspec _ => exact .inr trivial
  | brk _ => rw [hrl] at ihl; exact .inr ihl
  | cont _ => rw [hrl] at ihl; exact .inr ihl
  | ret _ _ => rw [hrl] at ihl; exact .inr ihl
/-- the fused instruction on a frame: local `k` against the integer constant `v` -/
theorem exec_fused (hW : WOK W) (op' : BinOp) (k idx : Nat) (v : Int) (ip' i : Nat) (a : SVal) (ma : Value) (st2 : SState)
    (ha : VR W.ft W.Γp a ma) (hl : locs[k]? = some ma) (hk : W.s0.cvals[idx]? = some (.int v)) (sarg : SVal) :
    match binopCore op' (st2.view a) (.int v) with
    | .ok p => ∃ mv, VR W.ft W.Γp (st2.box sarg p).1 mv ∧ (st2.box sarg p).2 = st2 ∧
        exec (.fused op' k idx) ip' (mkS W.s0 i below locs ops g l fr) = .next (mkS W.s0 ip' below locs (ops.push mv) g l fr)
    | .error er => ∃ s2, exec (.fused op' k idx) ip' (mkS W.s0 i below locs ops g l fr) = .error er s2 := by
  have hlt : k < locs.size := by
    rcases Array.getElem?_eq_some_iff.mp hl with ⟨hlt, _⟩; exact hlt
  have hview := view_rel hW.inj W.s0.mem.heap st2 op' ha (b := .int v) (mb := .int v) rfl
  have hv : st2.view (.int v) = .int v := rfl
  rw [hv] at hview
  cases hcore : binopCore op' (st2.view a) (.int v) with
  | error er =>
    exact ⟨_, by simp only [exec, mkS_stack, mkS_bp, frame_local below locs ops k hlt, hl, mkS_cvals, hk, binop, mkS_mem, hview, hcore]; rfl⟩
  | ok p =>
    have hp := binopCore_prim (W := W) op' a (.int v) ma (.int v) st2 p ha rfl (by rw [hv]; exact hcore)
    obtain ⟨mv, hbox, hmv, hst⟩ := box_prim (W := W) W.s0.mem ma st2 sarg p hp
    simp only
    refine ⟨mv, hmv, hst, ?_⟩
    simp only [exec, mkS_stack, mkS_bp, frame_local below locs ops k hlt, hl, mkS_cvals, hk, binop, mkS_mem, hview, hcore, hbox, frame_push]
    rfl

theorem pe_fusedL (hW : WOK W) (f : Nat) (b k : Nat) (op : BinOp) (v : Int) (hm : (b, k) ∈ Λ)
    (hfc : fusedCandidate (.var ⟨b, .loc k⟩) op (.int v) = some (op, k, v))
    (hinv : Inv W (bigScope fn Γ Γx) Λ nl st locs g l)
    (hcode : CodeAt W.C pos (emitE (.infix (.var ⟨b, .loc k⟩) op (.int v)) pos lp cs).1)
    (hpool : PoolOK W.s0.cvals (emitE (.infix (.var ⟨b, .loc k⟩) op (.int v)) pos lp cs).2) :
    GoalV W (bigScope fn Γ Γx) Λ nl below fr fn ab lp pos locs ops g l (pos + sizeE (.infix (.var ⟨b, .loc k⟩) op (.int v))) ops st
      (evalE (f + 1) (.infix (.var ⟨b, .loc k⟩) op (.int v)) st) := by
  simp only [emitE, hfc] at hcode hpool
  have hk := hpool _ v (addConst_int_index cs v)
  simp only [sizeE, hfc]
  cases f with
  | zero => simp only [evalE]; exact .inr trivial
  | succ f =>
    simp only [evalE, SState.lookup, isGlobalSlot, Bool.false_eq_true, ↓reduceIte]
    cases hl : envGet st.lenv b with
    | none => exact .inr trivial
    | some a =>
      obtain ⟨ma, hma, hg⟩ := hinv.relL b k hm a hl
      simp only
      have hex := exec_fused (below := below) (fr := fr) (ops := ops) (g := g) (l := l) hW op k _ v (pos + 5) pos a ma st hma hg hk a
      have hstep := step_exec (s0 := W.s0) (below := below) (locs := locs) (ops := ops) (g := g) (l := l) (fr := fr) hcode
      have hv : st.view (.int v) = .int v := rfl
      rw [hv]
      cases hcore : binopCore op (st.view a) (.int v) with
      | error e =>
        rw [hcore] at hex
        obtain ⟨s2, hs2⟩ := hex
        exact .inr ⟨0, _, s2, rfl, by rw [hstep]; exact hs2⟩
      | ok p =>
        rw [hcore] at hex
        obtain ⟨mv, hmv, hst, hs⟩ := hex
        simp only
        generalize hsb : st.box a p = sb at hmv hst ⊢
        obtain ⟨w, st3⟩ := sb
        simp only at hmv hst ⊢
        subst hst
        exact .inr ⟨mv, hmv, locs, g, l, 1, execN_one W.C _ _ (by rw [hstep]; exact hs), hinv, rfl⟩

theorem pe_fusedR (hW : WOK W) (f : Nat) (b k : Nat) (op op' : BinOp) (v : Int) (hm : (b, k) ∈ Λ)
    (hmir : mirrorOp op = some op')
    (hinv : Inv W (bigScope fn Γ Γx) Λ nl st locs g l)
    (hcode : CodeAt W.C pos (emitE (.infix (.int v) op (.var ⟨b, .loc k⟩)) pos lp cs).1)
    (hpool : PoolOK W.s0.cvals (emitE (.infix (.int v) op (.var ⟨b, .loc k⟩)) pos lp cs).2) :
    GoalV W (bigScope fn Γ Γx) Λ nl below fr fn ab lp pos locs ops g l (pos + sizeE (.infix (.int v) op (.var ⟨b, .loc k⟩))) ops st
      (evalE (f + 1) (.infix (.int v) op (.var ⟨b, .loc k⟩)) st) := by
  have hfc : fusedCandidate (.int v) op (.var ⟨b, .loc k⟩) = some (op', k, v) := by simp [fusedCandidate, hmir]
  simp only [emitE, hfc] at hcode hpool
  have hk := hpool _ v (addConst_int_index cs v)
  simp only [sizeE, hfc]
  cases f with
  | zero => simp only [evalE]; exact .inr trivial
  | succ f =>
    simp only [evalE, SState.lookup, isGlobalSlot, Bool.false_eq_true, ↓reduceIte]
    cases hl : envGet st.lenv b with
    | none => exact .inr trivial
    | some a =>
      obtain ⟨ma, hma, hg⟩ := hinv.relL b k hm a hl
      simp only
      have hex := exec_fused (below := below) (fr := fr) (ops := ops) (g := g) (l := l) hW op' k _ v (pos + 5) pos a ma st hma hg hk (.int v)
      have hstep := step_exec (s0 := W.s0) (below := below) (locs := locs) (ops := ops) (g := g) (l := l) (fr := fr) hcode
      have hv : st.view (.int v) = .int v := rfl
      rw [hv, C10.C10_mirror op op' v (st.view a) hmir]
      cases hcore : binopCore op' (st.view a) (.int v) with
      | error e =>
        rw [hcore] at hex
        obtain ⟨s2, hs2⟩ := hex
        exact .inr ⟨0, _, s2, rfl, by rw [hstep]; exact hs2⟩
      | ok p =>
        rw [hcore] at hex
        obtain ⟨mv, hmv, hst, hs⟩ := hex
        simp only
        generalize hsb : st.box (.int v) p = sb at hmv hst ⊢
        obtain ⟨w, st3⟩ := sb
        simp only at hmv hst ⊢
        subst hst
        exact .inr ⟨mv, hmv, locs, g, l, 1, execN_one W.C _ _ (by rw [hstep]; exact hs), hinv, rfl⟩
end expr

end SimF
end Nl
