/- Stage 6, property R1 of the resolver at program level: function literals at top level, the induction over the
   top-level sequence, a decidable SOURCE-level check, and the end-to-end theorems of stage 6 WITHOUT validation of
   the resolver's output. -/
import Nlmodel.Proofs.Lemmas.Resolve6
import Nlmodel.Proofs.Lemmas.Sim6Example
namespace Nl
namespace Sim6
open Spec Sim
open SimH (LitF litFb litFb_sound)
open SimF (FT FnInfo paramScope paramScopeFrom FDef LEq RInv Scs lim gamOf lamOf msOf RefOK nonBuiltin fnEnter fnExit)

/-- the body of a function literal at top level -/
theorem func_core6 (st1 : RState) (sc1 : List (Text × Nat)) (F : Nat) (hinv : RInv false st1 [sc1] [] F) (ps : List Text) (body : Block)
    (hb : S6B true false body) (b' : RBlock) (st4 : RState) (hr : resolveB body (defineParams (fnEnter st1) ps).1 = .ok (b', st4)) :
    (∃ Γb Λb, ZB (msOf st4) true (G [sc1]) (paramScope (defineParams (fnEnter st1) ps).2) false b' Γb Λb) ∧
    GamOK (paramScope (defineParams (fnEnter st1) ps).2) ∧
    (∀ p ∈ paramScope (defineParams (fnEnter st1) ps).2, p.2 < msOf st4) ∧
    RInv false (fnExit st4 st1) [sc1] [] (F + 1) := by
  obtain ⟨gms, hs⟩ := hinv.shapeF rfl
  have h2 : RInv true (fnEnter st1) [[]] [sc1] (F + 1) := by
    refine ⟨(fun hc => by cases hc), fun _ => ⟨0, gms, (by simp [fnEnter, hs]), (by simp), ?_⟩, (by simp), (by simp [fnEnter, hinv.fid])⟩
    intro p hp
    exact hinv.fresh p hp
  obtain ⟨psc, h3, hleq, hlen, hok, hbd⟩ := SimF.rinv_params ps (fnEnter st1) [] [sc1] (F + 1) h2
  obtain ⟨h4, hle, hyb⟩ := r6B true body false [psc] [sc1] (F + 1) _ b' st4 hb h3 hr
  obtain ⟨Γ1, Λ1, hy⟩ := hyb (msOf st4) (Nat.le_refl _)
  have hleq' : LEq (lamOf true [psc]) (paramScope (defineParams (fnEnter st1) ps).2) := by
    intro q
    have := hleq q
    simpa [lamOf, paramScope, G, slotsOf] using this
  obtain ⟨Λ1', _, hy'⟩ := permB6 (msOf st4) true b' (gamOf true [sc1] [psc]) _ _ false Γ1 Λ1 hleq' hy
  refine ⟨⟨Γ1, Λ1', hy'⟩, hok, ?_, ?_⟩
  · intro q hq
    have h1 := (hbd q hq).2.1
    obtain ⟨ms3, gms3, hs3, hle3, _⟩ := h3.shapeT rfl
    have : lim true (defineParams (fnEnter st1) ps).1 = ms3 := by simp [lim, msOf, hs3]
    have hle' : ms3 ≤ msOf st4 := by rw [← this]; exact hle
    simp only [List.flatten_cons, List.flatten_nil, List.append_nil] at hle3
    simp only [List.length_nil] at h1 hlen
    omega
  · obtain ⟨ms4, gms4, hs4, _, hg4⟩ := h4.shapeT rfl
    refine ⟨fun _ => ⟨gms4, (by simp [fnExit, hs4])⟩, (fun hc => by cases hc), ?_, by simpa [fnExit] using h4.fid⟩
    intro p hp
    exact hg4 p hp

/-! ## R1 for stage 6 -/

theorem rTop6 : (b : Block) → ∀ (sc : List (Text × Nat)) (st : RState) (F : Nat) (b' : RBlock) (st' : RState),
    S6Top b → RInv false st [sc] [] F → resolveSs b st = .ok (b', st') →
    ∀ (pos : Nat) (cs : List Const), ∃ Γ' D, ZTop (G [sc]) b' pos cs Γ' D ∧ (∀ d ∈ D, F ≤ d.1) ∧ D.Pairwise (fun x y => x.1 ≠ y.1)
  | .nil, sc, st, F, b', st', _, hinv, h => by
    simp only [resolveSs] at h; injection h with h; injection h with h1 h2; subst h1; subst h2
    intro pos cs
    exact ⟨_, [], .nil _ _ _, (by intro d hd; cases hd), List.Pairwise.nil⟩
  | .cons s rest, sc, st, F, b', st', hs, hinv, h => by
    simp only [resolveSs] at h
    cases hs with
    | stmt _ _ hss hrest =>
      cases hr : resolveS s st with
      | error er => simp [hr] at h
      | ok p =>
        obtain ⟨s1, st1⟩ := p
        simp only [hr] at h
        obtain ⟨sc1, hi1, _, hx1⟩ := r6S false s false sc [] [] F st s1 st1 hss hinv hr
        cases hr2 : resolveSs rest st1 with
        | error er => simp [hr2] at h
        | ok q =>
          obtain ⟨b1, st2⟩ := q
          simp only [hr2] at h
          injection h with h; injection h with h1 h2; subst h1; subst h2
          intro pos cs
          obtain ⟨Γ', D, hy, hge, hpw⟩ := rTop6 rest sc1 st1 F b1 st2 hrest hi1 hr2 (pos + sizeS s1) (emitS s1 pos none cs).2
          exact ⟨Γ', D, .stmt _ _ _ s1 b1 pos cs D (hx1 0 (Nat.le_refl _)) hy, hge, hpw⟩
    | named name ps body _ hname hsb hrest =>
      rw [SimF.resolveS_named name ps body st hname] at h
      obtain ⟨hinv1, _⟩ := SimF.rinv_define false st sc [] [] F hinv name
      have href := SimF.rinv_define_refF st sc [] [] F hinv name
      cases hb : resolveB body (defineParams (fnEnter (st.define name).1) ps).1 with
      | error er => simp [hb] at h
      | ok p =>
        obtain ⟨body1, st4⟩ := p
        simp only [hb] at h
        obtain ⟨⟨Γb, Λb, hyb⟩, hok, hbd, hinv2⟩ := func_core6 (st.define name).1 ((name, st.nextId) :: sc) F hinv1 ps body hsb body1 st4 hb
        cases hr2 : resolveSs rest (fnExit st4 (st.define name).1) with
        | error er => simp [hr2] at h
        | ok q =>
          obtain ⟨b1, st2⟩ := q
          simp only [hr2] at h
          injection h with h; injection h with h1 h2; subst h1; subst h2
          intro pos cs
          rw [href, hinv1.fid]
          simp only [List.flatten_cons, List.flatten_nil, List.append_nil]
          obtain ⟨Γ', D, hy, hge, hpw⟩ := rTop6 rest ((name, st.nextId) :: sc) _ (F + 1) b1 st2 hrest hinv2 hr2
            (pos + sizeS (.expr (.func F (some ⟨st.nextId, .global sc.length⟩) (defineParams (fnEnter (st.define name).1) ps).2 (msOf st4) body1)))
            (emitS (.expr (.func F (some ⟨st.nextId, .global sc.length⟩) (defineParams (fnEnter (st.define name).1) ps).2 (msOf st4) body1)) pos none cs).2
          have hG : G [(name, st.nextId) :: sc] = (st.nextId, sc.length) :: G [sc] := by simp [G, slotsOf]
          rw [hG] at hy hyb
          have hfs := SimF.fresh_slotF st sc F hinv
          refine ⟨Γ', _, .fdef (G [sc]) Γ' _ b1 pos cs D F st.nextId sc.length _ (msOf st4) body1 Γb Λb (.named _ _ _ _ _ _) hfs hyb hok hbd hy, ?_, ?_⟩
          · intro d hd
            simp only [List.mem_cons] at hd
            rcases hd with rfl | hd
            · exact Nat.le_refl _
            · have := hge d hd; omega
          · refine List.Pairwise.cons ?_ hpw
            intro d hd
            have := hge d hd
            simp only; omega
    | letF f ps body _ hsb hrest =>
      rw [SimF.resolveS_letF f ps body st] at h
      obtain ⟨hinv1, _⟩ := SimF.rinv_define false st sc [] [] F hinv f
      have href := SimF.rinv_define_refF st sc [] [] F hinv f
      cases hb : resolveB body (defineParams (fnEnter (st.define f).1) ps).1 with
      | error er => simp [hb] at h
      | ok p =>
        obtain ⟨body1, st4⟩ := p
        simp only [hb] at h
        obtain ⟨⟨Γb, Λb, hyb⟩, hok, hbd, hinv2⟩ := func_core6 (st.define f).1 ((f, st.nextId) :: sc) F hinv1 ps body hsb body1 st4 hb
        cases hr2 : resolveSs rest (fnExit st4 (st.define f).1) with
        | error er => simp [hr2] at h
        | ok q =>
          obtain ⟨b1, st2⟩ := q
          simp only [hr2] at h
          injection h with h; injection h with h1 h2; subst h1; subst h2
          intro pos cs
          rw [href, hinv1.fid]
          simp only [List.flatten_cons, List.flatten_nil, List.append_nil]
          obtain ⟨Γ', D, hy, hge, hpw⟩ := rTop6 rest ((f, st.nextId) :: sc) _ (F + 1) b1 st2 hrest hinv2 hr2
            (pos + sizeS (.letS ⟨st.nextId, .global sc.length⟩ (.func F none (defineParams (fnEnter (st.define f).1) ps).2 (msOf st4) body1)))
            (emitS (.letS ⟨st.nextId, .global sc.length⟩ (.func F none (defineParams (fnEnter (st.define f).1) ps).2 (msOf st4) body1)) pos none cs).2
          have hG : G [(f, st.nextId) :: sc] = (st.nextId, sc.length) :: G [sc] := by simp [G, slotsOf]
          rw [hG] at hy hyb
          have hfs := SimF.fresh_slotF st sc F hinv
          refine ⟨Γ', _, .fdef (G [sc]) Γ' _ b1 pos cs D F st.nextId sc.length _ (msOf st4) body1 Γb Λb (.letS _ _ _ _ _ _) hfs hyb hok hbd hy, ?_, ?_⟩
          · intro d hd
            simp only [List.mem_cons] at hd
            rcases hd with rfl | hd
            · exact Nat.le_refl _
            · have := hge d hd; omega
          · refine List.Pairwise.cons ?_ hpw
            intro d hd
            have := hge d hd
            simp only; omega

/-- R1 for stage 6: the resolver turns every source program of the class `S6Top` into a stage-6 program, with pairwise
    distinct function ids -/
theorem resolve_ztop (ast : Block) (hs : S6Top ast) (r : RBlock) (h : resolveProgram ast = .ok r) :
    ∃ Γ' D, ZTop [] r 0 [] Γ' D ∧ D.Pairwise (fun x y => x.1 ≠ y.1) := by
  unfold resolveProgram at h
  cases hr : resolveSs ast {} with
  | error er => simp [hr] at h
  | ok q =>
    obtain ⟨b, st'⟩ := q
    simp only [hr] at h
    injection h with h; subst h
    have hinv : RInv false ({} : RState) [[]] [] 0 :=
      ⟨fun _ => ⟨0, rfl⟩, (fun hc => by cases hc), (by intro p hp; simp at hp), rfl⟩
    obtain ⟨Γ', D, hy, _, hpw⟩ := rTop6 ast [] {} 0 b st' hs hinv hr 0 []
    exact ⟨Γ', D, by simpa [G, slotsOf] using hy, hpw⟩

/-- END TO END FROM SOURCE TREES, stage 6, WITHOUT validation: for a parsed program of the syntactic class `S6Top`,
    compiling and running it (collections at every return) agrees with the definitional semantics, or stops at the
    machine's stack/frame limit -/
theorem program6_syntactic (ast : Block) (r : RBlock) (bc : Bytecode) (hc : compileProgram ast = .ok (r, bc)) (hin : S6Top ast) (F : Nat) :
    HitsLimit bc ∨
    match evalB F r {} with
    | .val () st' => ∃ mv n s', (∀ k, runSteps bc.code (n + k) (VM.start {} bc) = .value mv s') ∧
        s'.mem.heap.tree treeDepth [] mv = st'.tree treeDepth [] st'.last ∧ s'.out = st'.out ∧
        (finishValue mv s').mem.heap.tree treeDepth [] mv = s'.mem.heap.tree treeDepth [] mv
    | .err er ste => ∃ n s', (∀ k, runSteps bc.code (n + k) (VM.start {} bc) = .error er s') ∧ s'.out = ste.out
    | .brk _ => False
    | .cont _ => False
    | .ret _ _ => False
    | _ => True := by
  unfold compileProgram at hc
  cases hr : resolveProgram ast with
  | error e => simp [hr] at hc
  | ok r' =>
    simp only [hr] at hc
    cases hcr : compileR r' with
    | error e => simp [hcr] at hc
    | ok bc' =>
      simp only [hcr] at hc
      injection hc with hc; injection hc with h1 h2; subst h1; subst h2
      obtain ⟨Γ', D, hy, hnd⟩ := resolve_ztop ast hin r' hr
      exact top_program6 r' Γ' D hy hnd bc' hcr F

/-! ## a decidable check for the source fragment -/

def isIndexOrIdent : Expr → Bool
  | .ident _ => true
  | .index _ _ => true
  | _ => false

def builtinName : Expr → Bool
  | .ident n => (Builtin.resolve n).isSome
  | _ => false

mutual
def src6E (fn ab : Bool) : Expr → Bool
  | .int _ => true
  | .bool _ => true
  | .float x => litFb x
  | .str _ => true
  | .ident _ => true
  | .pre op e => SimF.preOk op && src6E fn ab e
  | .infix l op r => (opToBin op).isSome && src6E fn ab l && src6E fn false r
  | .assign (.ident _) e => src6E fn ab e
  | .assign (.index a i) e => src6E fn ab a && src6E fn false i && src6E fn false e
  | .assign _ _ => false
  | .arr vs => src6Es fn vs
  | .index l i => src6E fn ab l && src6E fn false i
  | .ifE c t e => src6E fn ab c && src6B fn ab t && src6O fn ab e
  | .whileE c b => src6E fn false c && src6B fn true b
  | .call f as => src6Es fn as && (builtinName f || src6E fn false f)
  | .func _ _ _ => false
def src6Es (fn : Bool) : Exprs → Bool
  | .nil => true
  | .cons e es => src6E fn false e && src6Es fn es
def src6O (fn ab : Bool) : OptBlock → Bool
  | .none => true
  | .some b => src6B fn ab b
def src6S (fn ab : Bool) : Stmt → Bool
  | .expr e => src6E fn ab e
  | .letS _ e => src6E fn ab e
  | .block b => src6B fn ab b
  | .brk => ab
  | .cont => ab
  | .ret e => fn && src6E fn ab e
def src6B (fn ab : Bool) : Block → Bool
  | .nil => true
  | .cons s b => src6S fn ab s && src6B fn ab b
end

mutual
theorem src6E_sound (fn : Bool) : (e : Expr) → ∀ (ab : Bool), src6E fn ab e = true → S6E fn ab e
  | .int v, ab, _ => .int ab v
  | .bool b, ab, _ => .bool ab b
  | .float x, ab, h => by simp only [src6E] at h; exact .float ab x (litFb_sound x h)
  | .str s, ab, _ => .str ab s
  | .ident n, ab, _ => .ident ab n
  | .pre op e, ab, h => by
    simp only [src6E, Bool.and_eq_true] at h
    have he := src6E_sound fn e ab h.2
    cases op with
    | not => exact .not ab e he
    | sub => exact .neg ab e he
    | negate => exact .negate ab e he
    | _ => simp [SimF.preOk] at h
  | .infix l op r, ab, h => by
    simp only [src6E, Bool.and_eq_true] at h
    cases hop : opToBin op with
    | none => simp [hop] at h
    | some bop => exact .bin ab l op r bop hop (src6E_sound fn l ab h.1.2) (src6E_sound fn r false h.2)
  | .assign (.ident n) e, ab, h => by
    simp only [src6E] at h
    exact .assign ab n e (src6E_sound fn e ab h)
  | .assign (.index a i) e, ab, h => by
    simp only [src6E, Bool.and_eq_true] at h
    exact .assignIndex ab a i e (src6E_sound fn a ab h.1.1) (src6E_sound fn i false h.1.2) (src6E_sound fn e false h.2)
  | .arr vs, ab, h => by simp only [src6E] at h; exact .arr ab vs (src6Es_sound fn vs h)
  | .index l i, ab, h => by
    simp only [src6E, Bool.and_eq_true] at h
    exact .index ab l i (src6E_sound fn l ab h.1) (src6E_sound fn i false h.2)
  | .ifE c t e, ab, h => by
    simp only [src6E, Bool.and_eq_true] at h
    exact .ifE ab c t e (src6E_sound fn c ab h.1.1) (src6B_sound fn t ab h.1.2) (src6O_sound fn e ab h.2)
  | .whileE c b, ab, h => by
    simp only [src6E, Bool.and_eq_true] at h
    exact .whileE ab c b (src6E_sound fn c false h.1) (src6B_sound fn b true h.2)
  | .call f as, ab, h => by
    simp only [src6E, Bool.and_eq_true, Bool.or_eq_true] at h
    have has := src6Es_sound fn as h.1
    by_cases hb : builtinName f = true
    · cases f with
      | ident n =>
        simp only [builtinName, Option.isSome_iff_exists] at hb
        obtain ⟨b, hb⟩ := hb
        exact .builtin ab n as b hb has
      | _ => simp [builtinName] at hb
    · have hf : src6E fn false f = true := by
        rcases h.2 with h2 | h2
        · exact absurd h2 hb
        · exact h2
      have hnb : nonBuiltin f = true := by
        cases f with
        | ident n =>
          simp only [builtinName, Bool.not_eq_true, Option.isSome_eq_false_iff, Option.isNone_iff_eq_none] at hb
          simp [nonBuiltin, hb]
        | _ => rfl
      exact .call ab f as hnb has (src6E_sound fn f false hf)
  | .func _ _ _, _, h => by simp [src6E] at h
  | .assign (.infix _ _ _) _, _, h => by simp [src6E] at h
  | .assign (.pre _ _) _, _, h => by simp [src6E] at h
  | .assign (.int _) _, _, h => by simp [src6E] at h
  | .assign (.float _) _, _, h => by simp [src6E] at h
  | .assign (.bool _) _, _, h => by simp [src6E] at h
  | .assign (.ifE _ _ _) _, _, h => by simp [src6E] at h
  | .assign (.func _ _ _) _, _, h => by simp [src6E] at h
  | .assign (.call _ _) _, _, h => by simp [src6E] at h
  | .assign (.assign _ _) _, _, h => by simp [src6E] at h
  | .assign (.str _) _, _, h => by simp [src6E] at h
  | .assign (.arr _) _, _, h => by simp [src6E] at h
  | .assign (.whileE _ _) _, _, h => by simp [src6E] at h
theorem src6Es_sound (fn : Bool) : (es : Exprs) → src6Es fn es = true → S6Es fn es
  | .nil, _ => .nil
  | .cons e es, h => by
    simp only [src6Es, Bool.and_eq_true] at h
    exact .cons e es (src6E_sound fn e false h.1) (src6Es_sound fn es h.2)
theorem src6O_sound (fn : Bool) : (o : OptBlock) → ∀ (ab : Bool), src6O fn ab o = true → S6O fn ab o
  | .none, ab, _ => .none ab
  | .some b, ab, h => by
    simp only [src6O] at h
    exact .some ab b (src6B_sound fn b ab h)
theorem src6S_sound (fn : Bool) : (s : Stmt) → ∀ (ab : Bool), src6S fn ab s = true → S6S fn ab s
  | .expr e, ab, h => by simp only [src6S] at h; exact .expr ab e (src6E_sound fn e ab h)
  | .letS n e, ab, h => by simp only [src6S] at h; exact .letS ab n e (src6E_sound fn e ab h)
  | .block b, ab, h => by simp only [src6S] at h; exact .block ab b (src6B_sound fn b ab h)
  | .brk, ab, h => by simp only [src6S] at h; subst h; exact .brk
  | .cont, ab, h => by simp only [src6S] at h; subst h; exact .cont
  | .ret e, ab, h => by
    simp only [src6S, Bool.and_eq_true] at h
    exact .ret ab e h.1 (src6E_sound fn e ab h.2)
theorem src6B_sound (fn : Bool) : (b : Block) → ∀ (ab : Bool), src6B fn ab b = true → S6B fn ab b
  | .nil, ab, _ => .nil ab
  | .cons s b, ab, h => by
    simp only [src6B, Bool.and_eq_true] at h
    exact .cons ab s b (src6S_sound fn s ab h.1) (src6B_sound fn b ab h.2)
end

/-- the decidable check for source programs of stage 6 -/
def src6Top : Block → Bool
  | .nil => true
  | .cons s rest =>
    (match SimF.srcFDef s with
     | some body => src6B true false body
     | none => src6S false false s) && src6Top rest

theorem src6Top_sound : (b : Block) → src6Top b = true → S6Top b
  | .nil, _ => .nil
  | .cons s rest, h => by
    simp only [src6Top, Bool.and_eq_true] at h
    have hrest := src6Top_sound rest h.2
    cases hf : SimF.srcFDef s with
    | none =>
      have h1 := h.1
      simp only [hf] at h1
      exact .stmt s rest (src6S_sound false s false h1) hrest
    | some body =>
      have h1 := h.1
      simp only [hf] at h1
      have hb := src6B_sound true body false h1
      rcases SimF.srcFDef_sound s body hf with ⟨name, ps, rfl, hn⟩ | ⟨f, ps, rfl⟩
      · exact .named name ps body rest hn hb hrest
      · exact .letF f ps body rest hb hrest

/-- THE OBSERVATION ITSELF, stage 6, with the SOURCE-level check only (no validation of the resolver's output): for a
    text whose parsed tree passes `src6Top` and compiles, whatever the definitional semantics answers with some fuel is
    exactly what `eval` answers on the machine for every large enough instruction budget, unless the machine stops at
    its stack/frame limit -/
theorem eval_text6_checked (cc : CharClass) (src : Text) (ast : Block) (r : RBlock) (bc : Bytecode) (hp : parse cc src = .ok ast)
    (hs : src6Top ast = true) (hc : compileProgram ast = .ok (r, bc)) (F : Nat) :
    TextHitsLimit cc src ∨
    match specText cc F src with
    | .value t out => ∃ n, ∀ k, evalText cc (n + k) src = .value t out
    | .error e out => ∃ n, ∀ k, evalText cc (n + k) src = .error e out
    | .fault _ => False
    | _ => True := by
  have hsim := program6_syntactic ast r bc hc (src6Top_sound ast hs) F
  have hres : resolveProgram ast = .ok r := by
    unfold compileProgram at hc
    cases hr : resolveProgram ast with
    | error e => simp [hr] at hc
    | ok r' =>
      simp only [hr] at hc
      cases hcr : compileR r' with
      | error e => simp [hcr] at hc
      | ok bc' => simp only [hcr] at hc; injection hc with hc; injection hc with h1 h2; rw [h1]
  rcases hsim with hlim | hsim
  · exact .inl (TextHitsLimit.of hp hc hlim)
  right
  simp only [specText, hp, hres, Spec.evalProgram]
  cases hr : evalB F r {} with
  | val u st' =>
    rw [hr] at hsim
    obtain ⟨mv, n, s', hn, ht, ho, hf⟩ := hsim
    refine ⟨n, fun k => ?_⟩
    simp only [evalText, hp, hc, VM.run, hn k]
    rw [hf, ht]
    have : (finishValue mv s').out = s'.out := rfl
    rw [this, ho]
  | err er ste =>
    rw [hr] at hsim
    obtain ⟨n, s', hn, ho⟩ := hsim
    refine ⟨n, fun k => ?_⟩
    simp only [evalText, hp, hc, VM.run, hn k]
    have : (finishError s').out = s'.out := rfl
    rw [this, ho]
  | fuel => trivial
  | brk _ => rw [hr] at hsim; exact hsim.elim
  | cont _ => rw [hr] at hsim; exact hsim.elim
  | ret _ _ => rw [hr] at hsim; exact hsim.elim
  | unspec _ => trivial

/-! ## non-vacuity -/

/-- the two example programs of `Sim6Example` are in the SOURCE fragment (kernel-evaluated check) and compile -/
example : src6Top ex6Ast = true := by decide
example : src6Top ex6Ast2 = true := by decide
example : (match compileProgram ex6Ast with | .ok _ => true | .error _ => false) = true := by decide

end Sim6
end Nl
