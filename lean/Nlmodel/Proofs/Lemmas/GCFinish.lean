/- Handing the result over (`untrace`) and dropping the collector (`destroy`) leave the result graph
   intact: `untrace` removes from the managed list exactly what `mark` would mark. -/
import Nlmodel.Proofs.Lemmas.GCReach
namespace Nl
namespace GC

/-- managed addresses not in `M` -/
def sub (man M : List Nat) : List Nat := man.filter (fun a => !M.contains a)

theorem sub_contains (man M : List Nat) (a : Nat) : (sub man M).contains a = (man.contains a && !M.contains a) := by
  simp only [sub]
  rw [Bool.eq_iff_iff]
  simp [List.mem_filter]

theorem sub_erase (man M : List Nat) (hnd : man.Nodup) (a : Nat) : (sub man M).erase a = sub man (a :: M) := by
  have hnd' : (sub man M).Nodup := List.Nodup.sublist List.filter_sublist hnd
  rw [hnd'.erase_eq_filter]
  simp only [sub, List.filter_filter]
  apply List.filter_congr
  intro x _
  simp only [List.contains_cons]
  cases hx : (x == a) <;> simp [bne, hx]

theorem untrace_eq (h : Heap) (man : List Nat) (hnd : man.Nodup) :
    ∀ f M v, untrace h f (sub man M) v = sub man (mark h man f M v) := by
  intro f
  induction f with
  | zero => intro M v; simp [untrace, mark]
  | succ f ih =>
    have fold : ∀ (l : List Value) (M : List Nat),
        l.foldl (untrace h f) (sub man M) = sub man (l.foldl (mark h man f) M) := by
      intro l
      induction l with
      | nil => intro M; rfl
      | cons e l ihl => intro M; simp only [List.foldl_cons]; rw [ih, ihl]
    intro M v
    cases v with
    | null => simp [untrace, mark]
    | bool b => simp [untrace, mark]
    | int i => simp [untrace, mark]
    | fn i n => simp [untrace, mark]
    | float a =>
      simp only [untrace, mark, sub_contains]
      split
      · exact sub_erase man M hnd a
      · rfl
    | str a =>
      simp only [untrace, mark, sub_contains]
      split
      · exact sub_erase man M hnd a
      · rfl
    | arr a =>
      simp only [untrace, mark, sub_contains]
      split
      · rw [sub_erase man M hnd a]; exact fold _ _
      · rfl

theorem sub_nil (man : List Nat) : sub man [] = man := by simp [sub]

/-- plain reachability from a value through live arrays -/
inductive RV (h : Heap) (v : Value) : Nat → Prop where
  | root (c : Nat) : v.addr? = some c → RV h v c
  | step (x : Nat) (w : Value) (c : Nat) : RV h v x → w ∈ h.arrAt x → w.addr? = some c → RV h v c

theorem RV.elem {h : Heap} {a : Nat} {w : Value} {c : Nat} (hw : w ∈ h.arrAt a) (r : RV h w c) : RV h (.arr a) c := by
  induction r with
  | root c hc => exact .step a w c (.root a rfl) hw hc
  | step x w' c _ hw' hc ih => exact .step x w' c ih hw' hc

/-- the deep view depends only on the cells reachable from the value -/
theorem tree_congr (h h' : Heap) : ∀ (f : Nat) (p : List Nat) (v : Value),
    (∀ c, RV h v c → h'.get c = h.get c) → h'.tree f p v = h.tree f p v := by
  intro f
  induction f with
  | zero => intro p v _; rfl
  | succ f ih =>
    intro p v hv
    cases v with
    | null => rfl
    | bool b => rfl
    | int i => rfl
    | fn i n => rfl
    | float a => simp only [Heap.tree, Heap.floatAt, hv a (.root a rfl)]
    | str a => simp only [Heap.tree, Heap.strAt, hv a (.root a rfl)]
    | arr a =>
      simp only [Heap.tree]
      split
      · rfl
      · have e : h'.arrAt a = h.arrAt a := by simp only [Heap.arrAt, hv a (.root a rfl)]
        rw [e]
        congr 1
        apply List.map_congr_left
        intro w hw
        exact ih (a :: p) w (fun c r => hv c (RV.elem hw r))

/-- with every live array managed, plain reachability is reachability through managed arrays -/
theorem RV.reach {h : Heap} {man : List Nat} {v : Value} (harr : ∀ a, h.arrAt a ≠ [] → a ∈ man) {c : Nat} (r : RV h v c) :
    c ∈ man → Reach h man [v] c := by
  induction r with
  | root c hc => intro hm; exact .root v c (by simp) hc hm
  | step x w c _ hw hc ih =>
    intro hm
    have hx : x ∈ man := harr x (by intro e; rw [e] at hw; cases hw)
    exact .step x w c (ih hx) hw hc hm

/-- `finishValue` on the memory: the result's deep view is unchanged -/
theorem finish_tree (m : Mem) (v : Value) (hk : HeapKindOK m.heap) (hkv : KindOK m.heap v) (hnd : m.managed.Nodup)
    (harr : ∀ a, m.heap.arrAt a ≠ [] → a ∈ m.managed) (f : Nat) (p : List Nat) :
    (destroy { m with managed := untrace m.heap (m.managed.length + 1) m.managed v }).heap.tree f p v = m.heap.tree f p v := by
  apply tree_congr
  intro c r
  simp only [destroy]
  apply freeAll_get_other
  have e := untrace_eq m.heap m.managed hnd (m.managed.length + 1) [] v
  rw [sub_nil] at e
  rw [e]
  intro hc
  simp only [sub, List.mem_filter, Bool.not_eq_true', List.contains_eq_mem, decide_eq_false_iff_not] at hc
  have := markAll_complete m.heap m.managed [v] hk (fun w hw => by simp at hw; subst hw; exact hkv) c (r.reach harr hc.1)
  simp only [markAll, List.foldl_cons, List.foldl_nil] at this
  exact hc.2 this

end GC
end Nl
