/- Stage 6: configurations, the frame invariant, the "kept values" clause and the goals of the simulation,
   with their composition lemmas. -/
import Nlmodel.Proofs.Lemmas.Sim6Step
namespace Nl
namespace Sim6
open Spec Sim
open SimH (AMap isStrCell isArrCell Grow PoolH MemOK sameKind)
open SimF (FT FnInfo FTInj paramScope bigScope)

/-- everything that changes during the evaluation of a node: address map and state of the semantics, and the
    machine components of the current frame -/
structure Cfg where
  μ : AMap
  st : SState
  ip : Nat
  locs : Array Value
  ops : Array Value
  g : Array Value
  l : Value
  m : Mem
  out : List Text

/-- the machine state of a configuration -/
def Cfg.vm (W : World) (below : Array Value) (fr : List Frame) (c : Cfg) : VM :=
  mk6 W.s0 c.ip below c.locs c.ops c.g c.l fr c.m c.out

/-! ## kept values -/

/-- every relation of a machine value in `F` (values that sit unchanged in the untouched part of the stack, hence
    are roots of every collection in between) is kept -/
def Keep (W : World) (μ : AMap) (st : SState) (h : Heap) (μ' : AMap) (st' : SState) (h' : Heap) (F : List Value) : Prop :=
  ∀ v mv, mv ∈ F → VR6 W μ st h v mv → VR6 W μ' st' h' v mv

theorem Keep.refl (W : World) (μ : AMap) (st : SState) (h : Heap) (F : List Value) : Keep W μ st h μ st h F := fun _ _ _ x => x

theorem Keep.trans {W : World} {μ1 μ2 μ3 : AMap} {s1 s2 s3 : SState} {h1 h2 h3 : Heap} {F : List Value}
    (a : Keep W μ1 s1 h1 μ2 s2 h2 F) (b : Keep W μ2 s2 h2 μ3 s3 h3 F) : Keep W μ1 s1 h1 μ3 s3 h3 F :=
  fun v mv hm hv => b v mv hm (a v mv hm hv)

theorem Keep.mono {W : World} {μ μ' : AMap} {st st' : SState} {h h' : Heap} {F F' : List Value} (hsub : ∀ x, x ∈ F' → x ∈ F)
    (a : Keep W μ st h μ' st' h' F) : Keep W μ st h μ' st' h' F' :=
  fun v mv hm hv => a v mv (hsub mv hm) hv

theorem Keep.of_grow {W : World} {μ μ' : AMap} {st st' : SState} {h h' : Heap} (hg : Grow μ st h μ' st' h') (F : List Value) :
    Keep W μ st h μ' st' h' F := fun _ _ _ hv => hv.grow hg

/-- the fixed part of the stack for a node evaluated over the operands `base` -/
def fixedOf (below base : Array Value) : List Value := below.toList ++ base.toList

theorem fixedOf_push_sub (below base : Array Value) (v : Value) : ∀ x, x ∈ fixedOf below base → x ∈ fixedOf below (base.push v) := by
  intro x hx
  simp only [fixedOf, List.mem_append, Array.toList_push, List.mem_singleton] at hx ⊢
  rcases hx with h | h
  · exact .inl h
  · exact .inr (.inl h)

theorem fixedOf_push_mem (below base : Array Value) (v : Value) : v ∈ fixedOf below (base.push v) := by
  simp [fixedOf]

theorem fixedOf_below_sub (below base : Array Value) : ∀ x, x ∈ below.toList → x ∈ fixedOf below base := by
  intro x hx; simp only [fixedOf, List.mem_append]; exact .inl hx

theorem fixedOf_append_sub (below base : Array Value) (ms : List Value) : ∀ x, x ∈ fixedOf below base → x ∈ fixedOf below (base ++ ms.toArray) := by
  intro x hx
  simp only [fixedOf, List.mem_append, Array.toList_append] at hx ⊢
  rcases hx with h | h
  · exact .inl h
  · exact .inr (.inl h)

/-! ## the frame invariant -/

def RelG6 (W : World) (Γb : Gam) (μ : AMap) (st : SState) (h : Heap) (g : Array Value) : Prop :=
  ∀ b k, (b, k) ∈ Γb → ∀ v, envGet st.genv b = some v → ∃ mv, VR6 W μ st h v mv ∧ g.getD k .null = mv

def RelL6 (W : World) (Λ : Gam) (μ : AMap) (st : SState) (h : Heap) (locs : Array Value) : Prop :=
  ∀ b k, (b, k) ∈ Λ → ∀ v, envGet st.lenv b = some v → ∃ mv, VR6 W μ st h v mv ∧ locs[k]? = some mv

structure Inv6 (W : World) (Γb Λ : Gam) (nl : Nat) (c : Cfg) : Prop where
  relG : RelG6 W Γb c.μ c.st c.m.heap c.g
  relL : RelL6 W Λ c.μ c.st c.m.heap c.locs
  last : VR6 W c.μ c.st c.m.heap c.st.last c.l
  size : c.locs.size = nl
  out : c.st.out = c.out
  hi : HInv W c.μ c.st c.m

theorem RelG6.weaken {W : World} {Γb : Gam} (d : Gam) {μ : AMap} {st : SState} {h : Heap} {g : Array Value}
    (hr : RelG6 W (d ++ Γb) μ st h g) : RelG6 W Γb μ st h g :=
  fun b k hm v hv => hr b k (List.mem_append_right _ hm) v hv

theorem RelL6.weaken {W : World} {Λ : Gam} (d : Gam) {μ : AMap} {st : SState} {h : Heap} {locs : Array Value}
    (hr : RelL6 W (d ++ Λ) μ st h locs) : RelL6 W Λ μ st h locs :=
  fun b k hm v hv => hr b k (List.mem_append_right _ hm) v hv

theorem Inv6.weaken {W : World} {Γb Λ : Gam} (d e : Gam) {nl : Nat} {c : Cfg} (h : Inv6 W (d ++ Γb) (e ++ Λ) nl c) : Inv6 W Γb Λ nl c :=
  ⟨h.relG.weaken d, h.relL.weaken e, h.last, h.size, h.out, h.hi⟩

/-- the invariant after a step that grew the state and left environments, locals, globals and `last` alone -/
theorem Inv6.move {W : World} {Γb Λ : Gam} {nl : Nat} {c : Cfg} (hinv : Inv6 W Γb Λ nl c) {μ' : AMap} {st' : SState} {m' : Mem} {out' : List Text}
    (ip' : Nat) (ops' : Array Value) (hg : Grow c.μ c.st c.m.heap μ' st' m'.heap) (hse : SameEnv c.st st') (hout : st'.out = out')
    (hi : HInv W μ' st' m') : Inv6 W Γb Λ nl ⟨μ', st', ip', c.locs, ops', c.g, c.l, m', out'⟩ :=
  ⟨fun b k hm v hv => by
      rw [hse.genv] at hv
      obtain ⟨mv, h1, h2⟩ := hinv.relG b k hm v hv
      exact ⟨mv, h1.grow hg, h2⟩,
   fun b k hm v hv => by
      rw [hse.lenv] at hv
      obtain ⟨mv, h1, h2⟩ := hinv.relL b k hm v hv
      exact ⟨mv, h1.grow hg, h2⟩,
   by show VR6 W μ' st' m'.heap st'.last c.l; rw [hse.last]; exact hinv.last.grow hg, hinv.size, hout, hi⟩

/-- the invariant does not look at the instruction pointer or the operands -/
theorem Inv6.reip {W : World} {Γb Λ : Gam} {nl : Nat} {c : Cfg} (hinv : Inv6 W Γb Λ nl c) (ip' : Nat) (ops' : Array Value) :
    Inv6 W Γb Λ nl ⟨c.μ, c.st, ip', c.locs, ops', c.g, c.l, c.m, c.out⟩ :=
  ⟨hinv.relG, hinv.relL, hinv.last, hinv.size, hinv.out, hinv.hi⟩

/-! ## static side conditions -/

/-- the static side conditions on scopes -/
structure Sc6 (W : World) (fn : Bool) (Γ Γx Λ : Gam) : Prop where
  okb : GamOK (bigScope fn Γ Γx)
  okl : GamOK Λ
  sub : ∀ p ∈ Γ, p ∈ bigScope fn Γ Γx
  psub : ∀ p ∈ W.Γp, p ∈ bigScope fn Γ Γx

def FnOK6 (W : World) (info : FnInfo) : Prop :=
  CodeAt W.C info.ip (asFnBody info.body (emitB info.body info.ip none info.cs).1) ∧
  Ext (emitB info.body info.ip none info.cs).2 W.CS ∧
  (∃ Γ1 Λ1, ZB info.nl true info.Γg (paramScope info.ps) false info.body Γ1 Λ1) ∧
  GamOK (paramScope info.ps) ∧ (∀ p ∈ paramScope info.ps, p.2 < info.nl)

structure WOK6 (W : World) : Prop where
  inj : FTInj W.ft
  fns : ∀ fid info, W.ft fid = some info → FnOK6 W info
  cfn : ∀ (k ip nl : Nat), W.CS[k]? = some (Const.fn ip nl) → W.s0.cvals[k]? = some (Value.fn ip nl)

/-! ## goals -/

/-- the machine hits one of its limits (stack height / number of frames at a call): the same notion as in stage 4,
    a `Call` whose limit check fails is reached (`AtLimit`) -/
abbrev Ovf (C : Code) (s : VM) : Prop := SimF.Ovf C s
/-- the machine reaches a failing step of kind `er`, having printed exactly `o` -/
abbrev Fails6 (C : Code) (s : VM) (er : Err) (o : List Text) : Prop := SimH.Fails5 C s er o

section goals
variable (W : World) (Γb Λ : Gam) (nl : Nat) (below : Array Value) (fr : List Frame)

/-- from one configuration to another in the same frame: the invariant holds again, the relations of the fixed
    values are kept -/
def Reach6 (base : Array Value) (c : Cfg) (ip' : Nat) (ops' : Array Value) (μ' : AMap) (st' : SState) (m' : Mem) : Prop :=
  ∃ locs' g' l' out' n, execN W.C n (c.vm W below fr) = some (mk6 W.s0 ip' below locs' ops' g' l' fr m' out') ∧
    Inv6 W Γb Λ nl ⟨μ', st', ip', locs', ops', g', l', m', out'⟩ ∧
    Keep W c.μ c.st c.m.heap μ' st' m'.heap (fixedOf below base)

/-- the current function returns `v` to its caller (through a collection) -/
def Returns6 (c : Cfg) (v : SVal) (st' : SState) : Prop :=
  ∀ fr0 rest, fr = fr0 :: rest → ∃ mv g' l' m' out' μ' n,
    execN W.C n (c.vm W below fr) =
      some { W.s0 with ip := fr0.ip, stack := below.push mv, globals := g', last := l', frames := rest, depth := rest.length,
                       bp := fr0.bp, mem := m', out := out' } ∧
    VR6 W μ' st' m'.heap v mv ∧ RelG6 W Γb μ' st' m'.heap g' ∧ VR6 W μ' st' m'.heap st'.last l' ∧ st'.out = out' ∧ HInv W μ' st' m' ∧
    Keep W c.μ c.st c.m.heap μ' st' m'.heap below.toList

/-- the generic goal: `VC` says what a normal completion means -/
def GoalG {α : Type} (fn ab : Bool) (lp : LoopCtx) (base : Array Value) (c : Cfg) (VC : α → SState → Prop) (r : Res α) : Prop :=
  Ovf W.C (c.vm W below fr) ∨
  match r with
  | .val a st' => VC a st'
  | .brk st' => ab = true ∧ ∃ μ' m', Reach6 W Γb Λ nl below fr base c (brkT lp) (base.push .null) μ' st' m'
  | .cont st' => ab = true ∧ ∃ μ' m', Reach6 W Γb Λ nl below fr base c (contT lp) (base.push .null) μ' st' m'
  | .ret v st' => fn = true ∧ Returns6 W Γb below fr c v st'
  | .err er ste => Fails6 W.C (c.vm W below fr) er ste.out
  | .fuel => True
  | .unspec _ => True

/-- an expression: one value on top of `base` -/
def VCV (endIp : Nat) (base : Array Value) (c : Cfg) : SVal → SState → Prop := fun v st' =>
  ∃ mv μ' m', VR6 W μ' st' m'.heap v mv ∧ Reach6 W Γb Λ nl below fr base c endIp (base.push mv) μ' st' m'

/-- an expression list: the values on top of `base` -/
def VCEs (endIp : Nat) (base : Array Value) (c : Cfg) : List SVal → SState → Prop := fun vs st' =>
  ∃ ms μ' m', VRL6 W μ' st' m'.heap vs ms ∧ Reach6 W Γb Λ nl below fr base c endIp (base ++ ms.toArray) μ' st' m'

/-- a statement: the operands are as before -/
def VCU (endIp : Nat) (base : Array Value) (c : Cfg) : Unit → SState → Prop := fun _ st' =>
  ∃ μ' m', Reach6 W Γb Λ nl below fr base c endIp base μ' st' m'

/-- a function body: every normal completion is a return -/
def VCF (c : Cfg) : SVal → SState → Prop := fun v st' => Returns6 W Γb below fr c v st'

end goals

/-! ### sequencing in the semantics -/

def bindR {α β : Type} (r : Res α) (k : α → SState → Res β) : Res β :=
  match r with
  | .val a st => k a st
  | .brk s => .brk s
  | .cont s => .cont s
  | .ret v s => .ret v s
  | .err e s => .err e s
  | .unspec s => .unspec s
  | .fuel => .fuel

section comp
variable {W : World} {Γb Λ : Gam} {nl : Nat} {below : Array Value} {fr : List Frame}

theorem Reach6.prefix {base : Array Value} {c c1 : Cfg} {ip' : Nat} {ops' : Array Value} {μ' : AMap} {st' : SState} {m' : Mem} (n : Nat)
    (hpre : execN W.C n (c.vm W below fr) = some (c1.vm W below fr))
    (hk : Keep W c.μ c.st c.m.heap c1.μ c1.st c1.m.heap (fixedOf below base))
    (h : Reach6 W Γb Λ nl below fr base c1 ip' ops' μ' st' m') : Reach6 W Γb Λ nl below fr base c ip' ops' μ' st' m' := by
  obtain ⟨locs', g', l', out', k, hkk, hinv, hk2⟩ := h
  exact ⟨locs', g', l', out', n + k, execN_add W.C n k _ _ _ hpre hkk, hinv, hk.trans hk2⟩

theorem Returns6.prefix {base : Array Value} {c c1 : Cfg} {v : SVal} {st' : SState} (n : Nat)
    (hpre : execN W.C n (c.vm W below fr) = some (c1.vm W below fr))
    (hk : Keep W c.μ c.st c.m.heap c1.μ c1.st c1.m.heap (fixedOf below base))
    (h : Returns6 W Γb below fr c1 v st') : Returns6 W Γb below fr c v st' := by
  intro fr0 rest hfr
  obtain ⟨mv, g', l', m', out', μ', k, hkk, h1, h2, h3, h4, h5, h6⟩ := h fr0 rest hfr
  exact ⟨mv, g', l', m', out', μ', n + k, execN_add W.C n k _ _ _ hpre hkk, h1, h2, h3, h4, h5,
    (hk.mono (fixedOf_below_sub below base)).trans h6⟩

/-- a goal proved from a later configuration of the same frame -/
theorem GoalG.prefix {α : Type} {fn ab : Bool} {lp : LoopCtx} {base : Array Value} {c c1 : Cfg} {VC VC1 : α → SState → Prop} {r : Res α} (n : Nat)
    (hpre : execN W.C n (c.vm W below fr) = some (c1.vm W below fr))
    (hk : Keep W c.μ c.st c.m.heap c1.μ c1.st c1.m.heap (fixedOf below base))
    (hvc : ∀ a st', VC1 a st' → VC a st')
    (h : GoalG W Γb Λ nl below fr fn ab lp base c1 VC1 r) : GoalG W Γb Λ nl below fr fn ab lp base c VC r := by
  rcases h with h | h
  · exact .inl (SimF.Ovf.after n hpre h)
  · refine .inr ?_
    cases r with
    | val a st' => exact hvc a st' h
    | brk st' => obtain ⟨h1, μ', m', hre⟩ := h; exact ⟨h1, μ', m', hre.prefix n hpre hk⟩
    | cont st' => obtain ⟨h1, μ', m', hre⟩ := h; exact ⟨h1, μ', m', hre.prefix n hpre hk⟩
    | ret v st' => exact ⟨h.1, h.2.prefix n hpre hk⟩
    | err er st' => exact SimH.Fails5.after n hpre h
    | fuel => trivial
    | unspec _ => trivial

theorem GoalG.mono_vc {α : Type} {fn ab : Bool} {lp : LoopCtx} {base : Array Value} {c : Cfg} {VC VC1 : α → SState → Prop} {r : Res α}
    (hvc : ∀ a st', VC1 a st' → VC a st')
    (h : GoalG W Γb Λ nl below fr fn ab lp base c VC1 r) : GoalG W Γb Λ nl below fr fn ab lp base c VC r :=
  GoalG.prefix 0 rfl (Keep.refl _ _ _ _ _) hvc h

/-- SEQUENCING: the non-normal completions of the first part pass through; the normal one is handed on -/
theorem GoalG.bind {α β : Type} {fn ab1 ab2 : Bool} {lp : LoopCtx} {b1 b2 : Array Value} {c : Cfg} {VC1 : α → SState → Prop}
    {VC2 : β → SState → Prop} {r1 : Res α} {k : α → SState → Res β}
    (h1 : GoalG W Γb Λ nl below fr fn ab1 lp b1 c VC1 r1) (hb : ab1 = false ∨ (ab1 = ab2 ∧ b1 = b2))
    (hk : ∀ a st1, r1 = .val a st1 → VC1 a st1 → GoalG W Γb Λ nl below fr fn ab2 lp b2 c VC2 (k a st1)) :
    GoalG W Γb Λ nl below fr fn ab2 lp b2 c VC2 (bindR r1 k) := by
  rcases h1 with h1 | h1
  · exact .inl h1
  cases r1 with
  | val a st1 => exact hk a st1 rfl h1
  | brk st' =>
    rcases hb with hb | ⟨hb1, hb2⟩
    · rw [hb] at h1; exact absurd h1.1 (by simp)
    · subst hb1; subst hb2; exact .inr h1
  | cont st' =>
    rcases hb with hb | ⟨hb1, hb2⟩
    · rw [hb] at h1; exact absurd h1.1 (by simp)
    · subst hb1; subst hb2; exact .inr h1
  | ret v st' => exact .inr h1
  | err er st' => exact .inr h1
  | fuel => exact .inr trivial
  | unspec _ => exact .inr trivial

/-! ### scope weakening -/

theorem Reach6.weaken (d e : Gam) {base : Array Value} {c : Cfg} {ip' : Nat} {ops' : Array Value} {μ' : AMap} {st' : SState} {m' : Mem}
    (h : Reach6 W (d ++ Γb) (e ++ Λ) nl below fr base c ip' ops' μ' st' m') : Reach6 W Γb Λ nl below fr base c ip' ops' μ' st' m' := by
  obtain ⟨locs', g', l', out', n, hn, hinv, hk⟩ := h
  exact ⟨locs', g', l', out', n, hn, hinv.weaken d e, hk⟩

theorem Returns6.weaken (d : Gam) {c : Cfg} {v : SVal} {st' : SState}
    (h : Returns6 W (d ++ Γb) below fr c v st') : Returns6 W Γb below fr c v st' := by
  intro fr0 rest hfr
  obtain ⟨mv, g', l', m', out', μ', k, hkk, h1, h2, h3, h4, h5, h6⟩ := h fr0 rest hfr
  exact ⟨mv, g', l', m', out', μ', k, hkk, h1, h2.weaken d, h3, h4, h5, h6⟩

theorem GoalG.weaken {α : Type} (d e : Gam) {fn ab : Bool} {lp : LoopCtx} {base : Array Value} {c : Cfg} {VC VC1 : α → SState → Prop} {r : Res α}
    (hvc : ∀ a st', VC1 a st' → VC a st')
    (h : GoalG W (d ++ Γb) (e ++ Λ) nl below fr fn ab lp base c VC1 r) : GoalG W Γb Λ nl below fr fn ab lp base c VC r := by
  rcases h with h | h
  · exact .inl h
  · refine .inr ?_
    cases r with
    | val a st' => exact hvc a st' h
    | brk st' => obtain ⟨h1, μ', m', hre⟩ := h; exact ⟨h1, μ', m', hre.weaken d e⟩
    | cont st' => obtain ⟨h1, μ', m', hre⟩ := h; exact ⟨h1, μ', m', hre.weaken d e⟩
    | ret v st' => exact ⟨h.1, h.2.weaken d⟩
    | err er st' => exact h
    | fuel => trivial
    | unspec _ => trivial

/-- one more instruction after a configuration was reached (the state relation is untouched) -/
theorem Reach6.then {base : Array Value} {c : Cfg} {ip1 ip2 : Nat} {ops1 ops2 : Array Value} {μ' : AMap} {st' : SState} {m' : Mem}
    (h : Reach6 W Γb Λ nl below fr base c ip1 ops1 μ' st' m')
    (hs : ∀ locs' g' l' out', step W.C (mk6 W.s0 ip1 below locs' ops1 g' l' fr m' out') = .next (mk6 W.s0 ip2 below locs' ops2 g' l' fr m' out')) :
    Reach6 W Γb Λ nl below fr base c ip2 ops2 μ' st' m' := by
  obtain ⟨locs', g', l', out', n, hn, hinv, hk⟩ := h
  exact ⟨locs', g', l', out', n + 1, execN_step W.C n _ _ _ hn (hs locs' g' l' out'), hinv.reip ip2 ops2, hk⟩

end comp

end Sim6
end Nl
