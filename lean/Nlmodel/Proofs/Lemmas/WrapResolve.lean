/- C10 "top level or inside a function is unobservable", definitional side: the resolver lemma.
   Resolving a stage-3 source tree at top level (state `a`: one global context) and inside a parameterless
   function (state `b`: a fresh function context on top, binder ids shifted by `δ`) gives `TE δ`-related trees. -/
import Nlmodel.Proofs.Lemmas.WrapDefs
import Nlmodel.Proofs.Lemmas.ResolveCtl
namespace Nl
namespace Wrap
open Spec Sim

def shiftSc (δ : Nat) (sc : List (Text × Nat)) : List (Text × Nat) := sc.map (fun p => (p.1, p.2 + δ))

/-- the scopes of the function context: those of the top-level context with shifted ids, on top of the
    (empty) scope the context starts with -/
def fscopes (δ : Nat) (scs : List (List (Text × Nat))) : List (List (Text × Nat)) := scs.map (shiftSc δ) ++ [[]]

theorem fscopes_flat (δ : Nat) (scs : List (List (Text × Nat))) : (fscopes δ scs).flatten = shiftSc δ scs.flatten := by
  simp only [fscopes, List.flatten_append, List.flatten_cons, List.flatten_nil, List.append_nil]
  unfold shiftSc
  rw [List.map_flatten]

theorem shiftSc_length (δ : Nat) (sc : List (Text × Nat)) : (shiftSc δ sc).length = sc.length := by
  simp [shiftSc]

theorem lookupFlat_shift (δ : Nat) (n : Text) : ∀ (l : List (Text × Nat)),
    lookupFlat (shiftSc δ l) n = (lookupFlat l n).map (fun p => (p.1, p.2 + δ))
  | [] => rfl
  | (m, bid) :: rest => by
    have ih := lookupFlat_shift δ n rest
    simp only [shiftSc, List.map_cons, lookupFlat, List.length_map] at ih ⊢
    by_cases h : m = n
    · simp [h]
    · simp only [h, ↓reduceIte]; exact ih

/-- top-level resolver state `a` and in-function resolver state `b` -/
structure RR (δ : Nat) (gs : List Ctx) (a b : RState) (scs : List (List (Text × Nat))) : Prop where
  ha : ∃ ms, a.ctxs = [{ isGlobal := true, maxSize := ms, scopes := scs }]
  hb : ∃ ms, b.ctxs = { isGlobal := false, maxSize := ms, scopes := fscopes δ scs } :: gs
  id : b.nextId = a.nextId + δ
  loop : b.loopDepth = a.loopDepth

section
variable {δ : Nat} {gs : List Ctx}

theorem rr_resolve {a b : RState} {scs} (h : RR δ gs a b scs) (n : Text) (r : Ref) (hr : a.resolve n = some r) :
    ∃ k, r = ⟨r.bid, .global k⟩ ∧ b.resolve n = some ⟨r.bid + δ, .loc k⟩ := by
  obtain ⟨ms, ha⟩ := h.ha
  obtain ⟨ms', hb⟩ := h.hb
  unfold RState.resolve at hr ⊢
  rw [ha] at hr
  rw [hb]
  simp only [Ctx.resolve, Ctx.flat, fscopes_flat, lookupFlat_shift] at hr ⊢
  cases hl : lookupFlat scs.flatten n with
  | none => simp [hl, List.getLast?] at hr
  | some p =>
    obtain ⟨idx, bid⟩ := p
    simp only [hl, ↓reduceIte, Option.some.injEq] at hr
    subst hr
    exact ⟨idx, rfl, by simp⟩

theorem rr_define {a b : RState} {sc scs} (h : RR δ gs a b (sc :: scs)) (n : Text) :
    (a.define n).2 = ⟨a.nextId, .global (sc :: scs).flatten.length⟩ ∧
    (b.define n).2 = ⟨a.nextId + δ, .loc (sc :: scs).flatten.length⟩ ∧
    RR δ gs (a.define n).1 (b.define n).1 (((n, a.nextId) :: sc) :: scs) := by
  obtain ⟨ms, ha⟩ := h.ha
  obtain ⟨ms', hb⟩ := h.hb
  have hid := h.id
  have hloop := h.loop
  unfold RState.define
  rw [ha, hb]
  have hlen : (fscopes δ (sc :: scs)).flatten.length = (sc :: scs).flatten.length := by
    rw [fscopes_flat, shiftSc_length]
  have hsc : fscopes δ (sc :: scs) = shiftSc δ sc :: fscopes δ scs := by simp [fscopes]
  simp only [Ctx.define, Ctx.totalLen, Ctx.flat, ↓reduceIte, hlen]
  rw [hsc]
  simp only [hid]
  refine ⟨by first | rfl | trivial, by simp, ⟨⟨ms + 1, by first | rfl | trivial⟩, ⟨ms' + 1, ?_⟩, ?_, hloop⟩⟩
  · simp [fscopes, shiftSc]
  · simp only; omega

theorem rr_enter {a b : RState} {scs} (h : RR δ gs a b scs) : RR δ gs a.enterScope b.enterScope ([] :: scs) := by
  obtain ⟨ms, ha⟩ := h.ha
  obtain ⟨ms', hb⟩ := h.hb
  refine ⟨⟨ms, by simp [RState.enterScope, ha]⟩, ⟨ms', by simp [RState.enterScope, hb, fscopes, shiftSc]⟩, ?_, ?_⟩
  · simpa [RState.enterScope, ha, hb] using h.id
  · simpa [RState.enterScope, ha, hb] using h.loop

theorem rr_leave {a b : RState} {sc scs} (h : RR δ gs a b (sc :: scs)) : RR δ gs a.leaveScope b.leaveScope scs := by
  obtain ⟨ms, ha⟩ := h.ha
  obtain ⟨ms', hb⟩ := h.hb
  refine ⟨⟨ms, by simp [RState.leaveScope, ha]⟩, ⟨ms', by simp [RState.leaveScope, hb, fscopes]⟩, ?_, ?_⟩
  · simpa [RState.leaveScope, ha, hb] using h.id
  · simpa [RState.leaveScope, ha, hb] using h.loop

theorem rr_loop {a b : RState} {scs} (d : Nat) (h : RR δ gs a b scs) :
    RR δ gs { a with loopDepth := d } { b with loopDepth := d } scs :=
  ⟨h.ha, h.hb, h.id, rfl⟩
end

mutual
theorem wE (δ : Nat) (gs : List Ctx) : (e : Expr) → ∀ (ab : Bool) (scs : List (List (Text × Nat))) (a b : RState) (e' : RExpr) (a' : RState),
    SE ab e → RR δ gs a b scs → resolveE e a = .ok (e', a') →
    ∃ e'' b', resolveE e b = .ok (e'', b') ∧ TE δ e' e'' ∧ RR δ gs a' b' scs
  | .int v, ab, scs, a, b, e', a', _, hrr, h => by
    simp only [resolveE] at h ⊢; injection h with h; injection h with h1 h2; subst h1; subst h2
    exact ⟨_, _, rfl, .int v, hrr⟩
  | .bool v, ab, scs, a, b, e', a', _, hrr, h => by
    simp only [resolveE] at h ⊢; injection h with h; injection h with h1 h2; subst h1; subst h2
    exact ⟨_, _, rfl, .bool v, hrr⟩
  | .ident n, ab, scs, a, b, e', a', _, hrr, h => by
    simp only [resolveE] at h ⊢
    cases hr : a.resolve n with
    | none => simp [hr] at h
    | some r =>
      simp only [hr] at h
      injection h with h; injection h with h1 h2; subst h1; subst h2
      obtain ⟨k, hk, hb⟩ := rr_resolve hrr n r hr
      simp only [hb]
      rw [hk]
      exact ⟨_, _, rfl, .var r.bid k k, hrr⟩
  | .pre op r, ab, scs, a, b, e', a', hs, hrr, h => by
    simp only [resolveE] at h ⊢
    cases hr : resolveE r a with
    | error er => simp [hr] at h
    | ok p =>
      obtain ⟨r1, a1⟩ := p
      simp only [hr] at h
      cases hs with
      | not _ _ hsr =>
        injection h with h; injection h with h1 h2; subst h1; subst h2
        obtain ⟨r1', b1, hb, ht, hrr1⟩ := wE δ gs r ab scs a b r1 a1 hsr hrr hr
        simp only [hb]
        exact ⟨_, _, rfl, .not _ _ ht, hrr1⟩
      | neg _ _ hsr =>
        injection h with h; injection h with h1 h2; subst h1; subst h2
        obtain ⟨r1', b1, hb, ht, hrr1⟩ := wE δ gs r ab scs a b r1 a1 hsr hrr hr
        simp only [hb]
        exact ⟨_, _, rfl, .neg _ _ ht, hrr1⟩
  | .assign l r, ab, scs, a, b, e', a', hs, hrr, h => by
    cases hs with
    | assign _ n _ hsr =>
      simp only [resolveE] at h ⊢
      cases hres : a.resolve n with
      | none => simp [hres] at h
      | some ref =>
        simp only [hres] at h
        cases hr : resolveE r a with
        | error er => simp [hr] at h
        | ok p =>
          obtain ⟨r1, a1⟩ := p
          simp only [hr] at h
          injection h with h; injection h with h1 h2; subst h1; subst h2
          obtain ⟨r1', b1, hb, ht, hrr1⟩ := wE δ gs r ab scs a b r1 a1 hsr hrr hr
          obtain ⟨k, hk, hbres⟩ := rr_resolve hrr n ref hres
          simp only [hbres, hb]
          rw [hk]
          exact ⟨_, _, rfl, .assign ref.bid k k _ _ ht, hrr1⟩
  | .infix l op r, ab, scs, a, b, e', a', hs, hrr, h => by
    cases hs with
    | bin _ _ _ _ bop hop hsl hsr =>
      simp only [resolveE] at h ⊢
      cases hl : resolveE l a with
      | error er => simp [hl] at h
      | ok p =>
        obtain ⟨l1, a1⟩ := p
        simp only [hl] at h
        obtain ⟨l1', b1, hbl, htl, hrr1⟩ := wE δ gs l ab scs a b l1 a1 hsl hrr hl
        cases hr : resolveE r a1 with
        | error er => simp [hr] at h
        | ok q =>
          obtain ⟨r1, a2⟩ := q
          simp only [hr, hop] at h
          injection h with h; injection h with h1 h2; subst h1; subst h2
          obtain ⟨r1', b2, hbr, htr, hrr2⟩ := wE δ gs r false scs a1 b1 r1 a2 hsr hrr1 hr
          simp only [hbl, hbr, hop]
          exact ⟨_, _, rfl, .bin _ _ bop _ _ htl htr, hrr2⟩
  | .ifE c t e, ab, scs, a, b, e', a', hs, hrr, h => by
    cases hs with
    | ifE _ _ _ _ hsc hst hse =>
      simp only [resolveE] at h ⊢
      cases hc : resolveE c a with
      | error er => simp [hc] at h
      | ok p =>
        obtain ⟨c1, a1⟩ := p
        simp only [hc] at h
        obtain ⟨c1', b1, hbc, htc, hrr1⟩ := wE δ gs c ab scs a b c1 a1 hsc hrr hc
        cases ht : resolveB t a1 with
        | error er => simp [ht] at h
        | ok q =>
          obtain ⟨t1, a2⟩ := q
          simp only [ht] at h
          obtain ⟨t1', b2, hbt, htt, hrr2⟩ := wB δ gs t ab scs a1 b1 t1 a2 hst hrr1 ht
          cases he : resolveO e a2 with
          | error er => simp [he] at h
          | ok w =>
            obtain ⟨e1, a3⟩ := w
            simp only [he] at h
            injection h with h; injection h with h1 h2; subst h1; subst h2
            obtain ⟨e1', b3, hbe, hte, hrr3⟩ := wO δ gs e ab scs a2 b2 e1 a3 hse hrr2 he
            simp only [hbc, hbt, hbe]
            exact ⟨_, _, rfl, .ifE _ _ _ _ _ _ htc htt hte, hrr3⟩
  | .whileE c bd, ab, scs, a, b, e', a', hs, hrr, h => by
    cases hs with
    | whileE _ _ _ hsc hsb =>
      simp only [resolveE] at h ⊢
      cases hc : resolveE c { a with loopDepth := a.loopDepth + 1 } with
      | error er => simp [hc] at h
      | ok p =>
        obtain ⟨c1, a1⟩ := p
        simp only [hc] at h
        have hrr0 : RR δ gs { a with loopDepth := a.loopDepth + 1 } { b with loopDepth := b.loopDepth + 1 } scs := by
          rw [hrr.loop]; exact rr_loop _ hrr
        obtain ⟨c1', b1, hbc, htc, hrr1⟩ := wE δ gs c false scs _ _ c1 a1 hsc hrr0 hc
        cases hb : resolveB bd a1 with
        | error er => simp [hb] at h
        | ok q =>
          obtain ⟨d1, a2⟩ := q
          simp only [hb] at h
          injection h with h; injection h with h1 h2; subst h1; subst h2
          obtain ⟨d1', b2, hbb, htb, hrr2⟩ := wB δ gs bd true scs a1 b1 d1 a2 hsb hrr1 hb
          simp only [hbc, hbb]
          refine ⟨_, _, rfl, .whileE _ _ _ _ htc htb, ?_⟩
          rw [hrr.loop]; exact rr_loop _ hrr2
  | .float _, _, _, _, _, _, _, hs, _, _ => by cases hs
  | .str _, _, _, _, _, _, _, hs, _, _ => by cases hs
  | .func _ _ _, _, _, _, _, _, _, hs, _, _ => by cases hs
  | .call _ _, _, _, _, _, _, _, hs, _, _ => by cases hs
  | .arr _, _, _, _, _, _, _, hs, _, _ => by cases hs
  | .index _ _, _, _, _, _, _, _, hs, _, _ => by cases hs

theorem wO (δ : Nat) (gs : List Ctx) : (o : OptBlock) → ∀ (ab : Bool) (scs : List (List (Text × Nat))) (a b : RState) (o' : ROptBlock) (a' : RState),
    SO ab o → RR δ gs a b scs → resolveO o a = .ok (o', a') →
    ∃ o'' b', resolveO o b = .ok (o'', b') ∧ TO δ o' o'' ∧ RR δ gs a' b' scs
  | .none, ab, scs, a, b, o', a', _, hrr, h => by
    simp only [resolveO] at h ⊢; injection h with h; injection h with h1 h2; subst h1; subst h2
    exact ⟨_, _, rfl, .none, hrr⟩
  | .some bl, ab, scs, a, b, o', a', hs, hrr, h => by
    cases hs with
    | some _ _ hsb =>
      simp only [resolveO] at h ⊢
      cases hb : resolveB bl a with
      | error er => simp [hb] at h
      | ok q =>
        obtain ⟨b1, a1⟩ := q
        simp only [hb] at h
        injection h with h; injection h with h1 h2; subst h1; subst h2
        obtain ⟨b1', bb1, hbb, htb, hrr1⟩ := wB δ gs bl ab scs a b b1 a1 hsb hrr hb
        simp only [hbb]
        exact ⟨_, _, rfl, .some _ _ htb, hrr1⟩

theorem wS (δ : Nat) (gs : List Ctx) : (s : Stmt) → ∀ (ab : Bool) (sc : List (Text × Nat)) (scs : List (List (Text × Nat))) (a b : RState) (s' : RStmt) (a' : RState),
    SS ab s → RR δ gs a b (sc :: scs) → resolveS s a = .ok (s', a') →
    ∃ s'' b' sc', resolveS s b = .ok (s'', b') ∧ TS δ s' s'' ∧ RR δ gs a' b' (sc' :: scs)
  | .expr e, ab, sc, scs, a, b, s', a', hs, hrr, h => by
    cases hs with
    | expr _ _ hse =>
      simp only [resolveS] at h ⊢
      cases hr : resolveE e a with
      | error er => simp [hr] at h
      | ok p =>
        obtain ⟨e1, a1⟩ := p
        simp only [hr] at h
        injection h with h; injection h with h1 h2; subst h1; subst h2
        obtain ⟨e1', b1, hb, ht, hrr1⟩ := wE δ gs e ab _ a b e1 a1 hse hrr hr
        simp only [hb]
        exact ⟨_, _, sc, rfl, .expr _ _ ht, hrr1⟩
  | .letS n e, ab, sc, scs, a, b, s', a', hs, hrr, h => by
    cases hs with
    | letS _ _ _ hse =>
      simp only [resolveS] at h ⊢
      obtain ⟨hda, hdb, hrr0⟩ := rr_define hrr n
      cases hr : resolveE e (a.define n).1 with
      | error er => simp [hr] at h
      | ok p =>
        obtain ⟨e1, a1⟩ := p
        simp only [hr] at h
        injection h with h; injection h with h1 h2; subst h1; subst h2
        obtain ⟨e1', b1, hb, ht, hrr1⟩ := wE δ gs e ab _ _ _ e1 a1 hse hrr0 hr
        simp only [hb]
        rw [hda, hdb]
        exact ⟨_, _, _, rfl, .letS _ _ _ _ _ ht, hrr1⟩
  | .block bl, ab, sc, scs, a, b, s', a', hs, hrr, h => by
    cases hs with
    | block _ _ hsb =>
      simp only [resolveS] at h ⊢
      cases hb : resolveB bl a with
      | error er => simp [hb] at h
      | ok q =>
        obtain ⟨b1, a1⟩ := q
        simp only [hb] at h
        injection h with h; injection h with h1 h2; subst h1; subst h2
        obtain ⟨b1', bb1, hbb, htb, hrr1⟩ := wB δ gs bl ab _ a b b1 a1 hsb hrr hb
        simp only [hbb]
        exact ⟨_, _, sc, rfl, .block _ _ htb, hrr1⟩
  | .brk, ab, sc, scs, a, b, s', a', hs, hrr, h => by
    cases hs
    simp only [resolveS, hrr.loop] at h ⊢
    split at h
    · cases h
    · rename_i hne
      injection h with h; injection h with h1 h2; subst h1; subst h2
      simp only [hne, ↓reduceIte]
      exact ⟨_, _, sc, rfl, .brk, hrr⟩
  | .cont, ab, sc, scs, a, b, s', a', hs, hrr, h => by
    cases hs
    simp only [resolveS, hrr.loop] at h ⊢
    split at h
    · cases h
    · rename_i hne
      injection h with h; injection h with h1 h2; subst h1; subst h2
      simp only [hne, ↓reduceIte]
      exact ⟨_, _, sc, rfl, .cont, hrr⟩
  | .ret _, _, _, _, _, _, _, _, hs, _, _ => by cases hs

theorem wSs (δ : Nat) (gs : List Ctx) : (bl : Block) → ∀ (ab : Bool) (sc : List (Text × Nat)) (scs : List (List (Text × Nat))) (a b : RState) (bl' : RBlock) (a' : RState),
    SB ab bl → RR δ gs a b (sc :: scs) → resolveSs bl a = .ok (bl', a') →
    ∃ bl'' b' sc', resolveSs bl b = .ok (bl'', b') ∧ TB δ bl' bl'' ∧ RR δ gs a' b' (sc' :: scs)
  | .nil, ab, sc, scs, a, b, bl', a', _, hrr, h => by
    simp only [resolveSs] at h ⊢; injection h with h; injection h with h1 h2; subst h1; subst h2
    exact ⟨_, _, sc, rfl, .nil, hrr⟩
  | .cons s rest, ab, sc, scs, a, b, bl', a', hs, hrr, h => by
    cases hs with
    | cons _ _ _ hss hsrest =>
      simp only [resolveSs] at h ⊢
      cases hr : resolveS s a with
      | error er => simp [hr] at h
      | ok p =>
        obtain ⟨s1, a1⟩ := p
        simp only [hr] at h
        obtain ⟨s1', b1, sc1, hb1, ht1, hrr1⟩ := wS δ gs s ab sc scs a b s1 a1 hss hrr hr
        cases hr2 : resolveSs rest a1 with
        | error er => simp [hr2] at h
        | ok q =>
          obtain ⟨r1, a2⟩ := q
          simp only [hr2] at h
          injection h with h; injection h with h1 h2; subst h1; subst h2
          obtain ⟨r1', b2, sc2, hb2, ht2, hrr2⟩ := wSs δ gs rest ab sc1 scs a1 b1 r1 a2 hsrest hrr1 hr2
          simp only [hb1, hb2]
          exact ⟨_, _, sc2, rfl, .cons _ _ _ _ ht1 ht2, hrr2⟩

theorem wB (δ : Nat) (gs : List Ctx) : (bl : Block) → ∀ (ab : Bool) (scs : List (List (Text × Nat))) (a b : RState) (bl' : RBlock) (a' : RState),
    SB ab bl → RR δ gs a b scs → resolveB bl a = .ok (bl', a') →
    ∃ bl'' b', resolveB bl b = .ok (bl'', b') ∧ TB δ bl' bl'' ∧ RR δ gs a' b' scs
  | .nil, ab, scs, a, b, bl', a', _, hrr, h => by
    simp only [resolveB] at h ⊢; injection h with h; injection h with h1 h2; subst h1; subst h2
    exact ⟨_, _, rfl, .nil, hrr⟩
  | .cons s rest, ab, scs, a, b, bl', a', hs, hrr, h => by
    cases hs with
    | cons _ _ _ hss hsrest =>
      simp only [resolveB] at h ⊢
      cases hr : resolveS s a.enterScope with
      | error er => simp [hr] at h
      | ok p =>
        obtain ⟨s1, a1⟩ := p
        simp only [hr] at h
        obtain ⟨s1', b1, sc1, hb1, ht1, hrr1⟩ := wS δ gs s ab [] scs a.enterScope b.enterScope s1 a1 hss (rr_enter hrr) hr
        cases hr2 : resolveSs rest a1 with
        | error er => simp [hr2] at h
        | ok q =>
          obtain ⟨r1, a2⟩ := q
          simp only [hr2] at h
          injection h with h; injection h with h1 h2; subst h1; subst h2
          obtain ⟨r1', b2, sc2, hb2, ht2, hrr2⟩ := wSs δ gs rest ab sc1 scs a1 b1 r1 a2 hsrest hrr1 hr2
          simp only [hb1, hb2]
          exact ⟨_, _, rfl, .cons _ _ _ _ ht1 ht2, rr_leave hrr2⟩
end

end Wrap
end Nl
