/- Forward simulation, stage 2a: expressions over global scalar variables, with assignment (C01). -/
import Nlmodel.Proofs.Lemmas.SimGlobals
namespace Nl
namespace Sim
open Spec

/-- expressions over global scalar variables: stage 2 of the simulation -/
inductive WE (Γ : Gam) : RExpr → Prop where
  | int (v : Int) : WE Γ (.int v)
  | bool (b : Bool) : WE Γ (.bool b)
  | not (e : RExpr) : WE Γ e → WE Γ (.not e)
  | neg (e : RExpr) : WE Γ e → WE Γ (.neg e)
  | bin (l : RExpr) (op : BinOp) (r : RExpr) : WE Γ l → WE Γ r → WE Γ (.infix l op r)
  | var (b k : Nat) : (b, k) ∈ Γ → WE Γ (.var ⟨b, .global k⟩)
  | assign (b k : Nat) (e : RExpr) : (b, k) ∈ Γ → WE Γ e → WE Γ (.assignVar ⟨b, .global k⟩ e)

theorem we_not_fused {Γ : Gam} (l r : RExpr) (op : BinOp) (hl : WE Γ l) (hr : WE Γ r) : fusedCandidate l op r = none := by
  cases hl <;> cases hr <;> rfl

def GoalE (Γ : Gam) (C : Code) (s : VM) (pos sz : Nat) (st : SState) (r : Res SVal) : Prop :=
  match r with
  | .val v st' => ∃ mv g' n, toVal v = some mv ∧
      execN C n s = some { s with ip := pos + sz, stack := s.stack.push mv, globals := g' } ∧
      Rel Γ st' g' ∧ st'.last = st.last ∧ st'.out = st.out ∧ st'.lenv = st.lenv
  | .err er _ => ∃ n s1 s2, execN C n s = some s1 ∧ step C s1 = .error er s2
  | .fuel => True
  | .unspec _ => True
  | _ => False

/-- in a well-formed scope two entries agree on the binder iff they agree on the slot -/
theorem gam_unique {Γ : Gam} (hok : GamOK Γ) {b k b' k' : Nat} (h1 : (b, k) ∈ Γ) (h2 : (b', k') ∈ Γ) :
    (b = b' → k = k') ∧ (k = k' → b = b') := by
  rcases List.mem_iff_getElem.mp h1 with ⟨i, hi, ei⟩
  rcases List.mem_iff_getElem.mp h2 with ⟨j, hj, ej⟩
  by_cases hij : i = j
  · subst hij
    rw [ei] at ej
    injection ej with e1 e2
    exact ⟨fun _ => e2, fun _ => e1⟩
  · rcases Nat.lt_or_gt_of_ne hij with hlt | hgt
    · have := (List.pairwise_iff_getElem.mp hok) i j hi hj hlt
      rw [ei, ej] at this
      exact ⟨fun e => absurd e this.1, fun e => absurd e this.2⟩
    · have := (List.pairwise_iff_getElem.mp hok) j i hj hi hgt
      rw [ei, ej] at this
      exact ⟨fun e => absurd e.symm this.1, fun e => absurd e.symm this.2⟩

theorem rel_bind {Γ : Gam} (hok : GamOK Γ) (st : SState) (g : Array Value) (b k : Nat) (hm : (b, k) ∈ Γ)
    (v : SVal) (mv : Value) (hv : toVal v = some mv) (hr : Rel Γ st g) :
    Rel Γ (st.bind ⟨b, .global k⟩ v) (setGlobalArr g k mv) := by
  intro b' k' hm' w hw
  simp only [SState.bind, isGlobalSlot, ↓reduceIte] at hw
  obtain ⟨u1, u2⟩ := gam_unique hok hm hm'
  by_cases hb : b = b'
  · have hk := u1 hb
    subst hb; subst hk
    rw [envGet_envSet_same] at hw
    injection hw with hw; subst hw
    exact ⟨mv, hv, setGlobalArr_same g k mv⟩
  · have hk : k' ≠ k := fun e => hb (u2 e.symm)
    rw [envGet_envSet_other _ _ _ _ (fun e => hb e.symm)] at hw
    obtain ⟨mw, h1, h2⟩ := hr b' k' hm' w hw
    exact ⟨mw, h1, by rw [setGlobalArr_other g k k' mv hk]; exact h2⟩

theorem sim_we (Γ : Gam) (hok : GamOK Γ) : ∀ (f : Nat) (e : RExpr) (st : SState), WE Γ e →
    ∀ (pos : Nat) (lp : LoopCtx) (cs : List Const) (C : Code) (s : VM),
    CodeAt C pos (emitE e pos lp cs).1 → PoolOK s.cvals (emitE e pos lp cs).2 → s.ip = pos → Rel Γ st s.globals →
    GoalE Γ C s pos (sizeE e) st (evalE f e st) := by
  intro f
  induction f with
  | zero => intro e st _ pos lp cs C s _ _ _ _; simp [evalE, GoalE]
  | succ f ih =>
    intro e st hwe pos lp cs C s hcode hpool hip hrel
    cases hwe with
    | int v =>
      simp only [evalE, GoalE, emitE] at hcode hpool ⊢
      refine ⟨.int v, s.globals, 1, rfl, ?_, hrel, by first | rfl | trivial, by first | rfl | trivial, by first | rfl | trivial⟩
      have hk := hpool _ v (addConst_int_index cs v)
      simp only [execN, step_at (hip ▸ hcode), exec, hk, sizeE, Instr.size, hip]
    | bool b =>
      simp only [evalE, GoalE, emitE] at hcode ⊢
      refine ⟨.bool b, s.globals, 1, rfl, ?_, hrel, by first | rfl | trivial, by first | rfl | trivial, by first | rfl | trivial⟩
      cases b <;> simp only [execN, step_at (hip ▸ hcode), exec, sizeE, Instr.size, hip] <;> rfl
    | var b k hm =>
      simp only [evalE, emitE, getVar] at hcode ⊢
      simp only [SState.lookup, isGlobalSlot, ↓reduceIte]
      cases hl : envGet st.genv b with
      | none => simp [GoalE]
      | some v =>
        obtain ⟨mv, hmv, hg⟩ := hrel b k hm v hl
        simp only [GoalE]
        refine ⟨mv, s.globals, 1, hmv, ?_, hrel, by first | rfl | trivial, by first | rfl | trivial, by first | rfl | trivial⟩
        simp only [execN, step_at (hip ▸ hcode), exec, sizeE, Instr.size, hip, hg]
    | assign b k e1 hm h1 =>
      simp only [emitE, getVar, setVar] at hcode hpool
      obtain ⟨hc1, hc2⟩ := hcode.append
      have := ih e1 st h1 pos lp cs C s hc1 hpool hip hrel
      simp only [evalE]
      cases hr : evalE f e1 st with
      | val v st1 =>
        rw [hr] at this
        obtain ⟨mv, g1, n, hmv, hn, hrel1, hl1, ho1, hle1⟩ := this
        rw [emitE_size] at hc2
        simp only [GoalE]
        let S1 : VM := { s with ip := pos + sizeE e1, stack := s.stack.push mv, globals := g1 }
        have hs1 : step C S1 = .next { S1 with ip := pos + sizeE e1 + 3, stack := s.stack, globals := setGlobalArr g1 k mv } := by
          have := step_at (s := S1) (i := .setGlobal k) (rest := [.getGlobal k]) hc2
          rw [this]; simp [exec, S1, pop1_push, Instr.size, setGlobalArr]
        let S2 : VM := { S1 with ip := pos + sizeE e1 + 3, stack := s.stack, globals := setGlobalArr g1 k mv }
        have hs2 : step C S2 = .next { S2 with ip := pos + sizeE e1 + 3 + 3, stack := s.stack.push mv } := by
          have := step_at (s := S2) (i := .getGlobal k) (rest := []) (by simpa [S2, S1, Instr.size] using hc2.tail)
          have e := setGlobalArr_same g1 k mv
          rw [Array.getD_eq_getD_getElem?] at e
          rw [this]; simp [exec, S2, S1, Instr.size, e]
        refine ⟨mv, setGlobalArr g1 k mv, n + 2, hmv, ?_, rel_bind hok st1 g1 b k hm v mv hmv hrel1, ?_, ?_, ?_⟩
        · apply execN_add C n 2 s S1 _ hn
          simp only [execN, hs1, hs2, S2, S1, sizeE]
          congr 2 <;> omega
        · simp [SState.bind, isGlobalSlot, hl1]
        · simp [SState.bind, isGlobalSlot, ho1]
        · simp [SState.bind, isGlobalSlot, hle1]
      | err er st1 => rw [hr] at this; exact this
      | fuel => trivial
      | unspec _ => trivial
      | brk _ => rw [hr] at this; exact this
      | cont _ => rw [hr] at this; exact this
      | ret _ _ => rw [hr] at this; exact this
    | not e1 h1 =>
      simp only [emitE] at hcode hpool
      obtain ⟨hc1, hc2⟩ := hcode.append
      have := ih e1 st h1 pos lp cs C s hc1 hpool hip hrel
      simp only [evalE]
      cases hr : evalE f e1 st with
      | val v st1 =>
        rw [hr] at this
        obtain ⟨mv, g1, n, hmv, hn, hrel1, hl1, ho1, hle1⟩ := this
        rw [emitE_size] at hc2
        let S1 : VM := { s with ip := pos + sizeE e1, stack := s.stack.push mv, globals := g1 }
        have hstep : step C S1 = exec .not (pos + sizeE e1 + 1) S1 := by
          have := step_at (s := S1) (i := .not) (rest := []) hc2
          simpa [Instr.size, S1] using this
        cases v <;> simp [toVal] at hmv <;> subst hmv
        · have : ∃ s2, step C S1 = .error .type s2 := by
            rw [hstep]; simp only [exec, S1, pop1_push]; exact ⟨_, rfl⟩
          obtain ⟨s2, hs2⟩ := this
          exact ⟨n, S1, s2, hn, hs2⟩
        · rename_i bb
          refine ⟨.bool (!bb), g1, n + 1, rfl, ?_, hrel1, hl1, ho1, hle1⟩
          apply execN_add C n 1 s S1 _ hn
          simp only [execN, hstep, exec, S1, pop1_push, sizeE]
          congr 2 <;> omega
        · have : ∃ s2, step C S1 = .error .type s2 := by
            rw [hstep]; simp only [exec, S1, pop1_push]; exact ⟨_, rfl⟩
          obtain ⟨s2, hs2⟩ := this
          exact ⟨n, S1, s2, hn, hs2⟩
      | err er st1 => rw [hr] at this; exact this
      | fuel => trivial
      | unspec _ => trivial
      | brk _ => rw [hr] at this; exact this
      | cont _ => rw [hr] at this; exact this
      | ret _ _ => rw [hr] at this; exact this
    | neg e1 h1 =>
      simp only [emitE] at hcode hpool
      obtain ⟨hc1, hc2⟩ := hcode.append
      have := ih e1 st h1 pos lp cs C s hc1 hpool hip hrel
      simp only [evalE]
      cases hr : evalE f e1 st with
      | val v st1 =>
        rw [hr] at this
        obtain ⟨mv, g1, n, hmv, hn, hrel1, hl1, ho1, hle1⟩ := this
        rw [emitE_size] at hc2
        let S1 : VM := { s with ip := pos + sizeE e1, stack := s.stack.push mv, globals := g1 }
        have hstep : step C S1 = exec .negate (pos + sizeE e1 + 1) S1 := by
          have := step_at (s := S1) (i := .negate) (rest := []) hc2
          simpa [Instr.size, S1] using this
        cases v <;> simp [toVal] at hmv <;> subst hmv
        · have : ∃ s2, step C S1 = .error .type s2 := by
            rw [hstep]; simp only [exec, S1, pop1_push]; exact ⟨_, rfl⟩
          obtain ⟨s2, hs2⟩ := this
          exact ⟨n, S1, s2, hn, hs2⟩
        · have : ∃ s2, step C S1 = .error .type s2 := by
            rw [hstep]; simp only [exec, S1, pop1_push]; exact ⟨_, rfl⟩
          obtain ⟨s2, hs2⟩ := this
          exact ⟨n, S1, s2, hn, hs2⟩
        · rename_i i
          by_cases hin : inRange (-i) = true
          · simp only [hin, ↓reduceIte, GoalE]
            refine ⟨.int (-i), g1, n + 1, rfl, ?_, hrel1, hl1, ho1, hle1⟩
            apply execN_add C n 1 s S1 _ hn
            simp only [execN, hstep, exec, S1, pop1_push, hin, ↓reduceIte, sizeE]
            congr 2 <;> omega
          · simp only [hin, Bool.false_eq_true, ↓reduceIte, GoalE]
            have : ∃ s2, step C S1 = .error .type s2 := by
              rw [hstep]; simp only [exec, S1, pop1_push, hin, Bool.false_eq_true, ↓reduceIte]; exact ⟨_, rfl⟩
            obtain ⟨s2, hs2⟩ := this
            exact ⟨n, S1, s2, hn, hs2⟩
      | err er st1 => rw [hr] at this; exact this
      | fuel => trivial
      | unspec _ => trivial
      | brk _ => rw [hr] at this; exact this
      | cont _ => rw [hr] at this; exact this
      | ret _ _ => rw [hr] at this; exact this
    | bin l op r hl hr =>
      have hnf := we_not_fused l r op hl hr
      simp only [emitE, hnf] at hcode hpool
      obtain ⟨hc12, hc3⟩ := hcode.append
      obtain ⟨hc1, hc2⟩ := hc12.append
      rw [emitE_size] at hc2
      have hpool1 : PoolOK s.cvals (emitE l pos lp cs).2 := hpool.mono (emitE_ext r _ _ _)
      have ihl := ih l st hl pos lp cs C s hc1 hpool1 hip hrel
      simp only [evalE]
      cases hrl : evalE f l st with
      | val a st1 =>
        rw [hrl] at ihl
        obtain ⟨ma, g1, n1, hma, hn1, hrel1, hl1, ho1, hle1⟩ := ihl
        let S1 : VM := { s with ip := pos + sizeE l, stack := s.stack.push ma, globals := g1 }
        have ihr := ih r st1 hr (pos + sizeE l) lp (emitE l pos lp cs).2 C S1 hc2 hpool rfl hrel1
        simp only
        cases hrr : evalE f r st1 with
        | val b st2 =>
          rw [hrr] at ihr
          obtain ⟨mb, g2, n2, hmb, hn2, hrel2, hl2, ho2, hle2⟩ := ihr
          simp only [S1] at hn2
          have hc3' : CodeAt C (pos + sizeE l + sizeE r) [Instr.bin op] := by
            have := hc3
            simp only [codeSize_append, emitE_size, ← Nat.add_assoc] at this
            exact this
          let S2 : VM := { s with ip := pos + sizeE l + sizeE r, stack := (s.stack.push ma).push mb, globals := g2 }
          have hstep : step C S2 = exec (.bin op) (pos + sizeE l + sizeE r + 1) S2 := by
            have := step_at (s := S2) (i := .bin op) (rest := []) hc3'
            simpa [Instr.size, S2] using this
          have hview : binopCore op (s.mem.heap.view ma) (s.mem.heap.view mb) = binopCore op (st2.view a) (st2.view b) := by
            rw [view_scalar _ a ma st2 hma, view_scalar _ b mb st2 hmb]
          simp only
          cases hcore : binopCore op (st2.view a) (st2.view b) with
          | error er =>
            simp only [GoalE]
            have : ∃ s2, step C S2 = .error er s2 := by
              rw [hstep]; simp only [exec, S2, pop1_push, binop, hview, hcore]; exact ⟨_, rfl⟩
            obtain ⟨s2, hs2⟩ := this
            exact ⟨n1 + n2, S2, s2, execN_add C n1 n2 s _ _ hn1 hn2, hs2⟩
          | ok p =>
            have hp := binopCore_scalar op a b ma mb st2 p hma hmb hcore
            obtain ⟨mv, hbox, hmv, hst⟩ := box_scalar s.mem ma st2 a p hp
            simp only [GoalE]
            generalize hsb : st2.box a p = sb at hmv hst ⊢
            obtain ⟨v, st3⟩ := sb
            simp only at hmv hst ⊢
            subst hst
            refine ⟨mv, g2, n1 + n2 + 1, hmv, ?_, hrel2, by rw [hl2, hl1], by rw [ho2, ho1], by rw [hle2, hle1]⟩
            apply execN_add C (n1 + n2) 1 s S2 _ (execN_add C n1 n2 s _ _ hn1 hn2)
            simp only [execN, hstep, exec, S2, pop1_push, binop, hview, hcore, hbox, sizeE, hnf]
            congr 2 <;> omega
        | err er st2 =>
          rw [hrr] at ihr
          obtain ⟨n2, s1, s2, hn2, hs⟩ := ihr
          exact ⟨n1 + n2, s1, s2, execN_add C n1 n2 s _ _ hn1 hn2, hs⟩
        | fuel => trivial
        | unspec _ => trivial
        | brk _ => rw [hrr] at ihr; exact ihr
        | cont _ => rw [hrr] at ihr; exact ihr
        | ret _ _ => rw [hrr] at ihr; exact ihr
      | err er st1 => rw [hrl] at ihl; exact ihl
      | fuel => trivial
      | unspec _ => trivial
      | brk _ => rw [hrl] at ihl; exact ihl
      | cont _ => rw [hrl] at ihl; exact ihl
      | ret _ _ => rw [hrl] at ihl; exact ihl

end Sim
end Nl
