/-
  Number → text → number, part 2: `roundDigits n d k 8` is the correctly rounded `k`-digit decimal of
  `n/d`, and 17 significant digits always read back (`digits17_ok`).

  * `adjust` (fuel 8) reaches the exponent `p` with `10^(k-1) ≤ (n/d)/10^p < 10^k` from the estimate
    `⌊(log2 n − log2 d)·30103/100000⌋ − k + 1`: the estimate is at most 7 decades off for every
    `n < 2^1024`, `d ≤ 2^1074` (`estChk_all`: the 2098 possible values of `log2 n − log2 d` are
    checked by kernel evaluation).
  * `near_roundMag`: a rational closer to the float `a` than half the gap to its lower neighbour
    rounds to `a` (the gap above is never smaller).
  * `digits17_ok`: the 17-digit decimal is within `10^-16/2` (relative) of `x`, the lower gap is at
    least `2^-53` (relative), and `2^53 < 10^16`.
-/
import Nlmodel.Proofs.Lemmas.FloatRound

namespace Nl
namespace F64T
open Nl.F64 Nl.F64R

set_option exponentiation.threshold 4096

/-! ## 0. powers of a base -/

theorem pow_pos' {b : Nat} (hb : 1 ≤ b) (k : Nat) : 0 < b ^ k := Nat.pos_of_ne_zero (by
  intro h; have := Nat.pow_eq_zero.1 h; omega)

theorem ten_pow_pos (k : Nat) : 0 < 10 ^ k := pow_pos' (by decide) k

/-- `b^(u-v) ≤ n/d` is insensitive to the way the exponent is split, and monotone in it -/
theorem leB_mono {b n d u v u' v' : Nat} (hb : 1 ≤ b) (h : d * b ^ u ≤ n * b ^ v)
    (he : u' + v ≤ u + v') : d * b ^ u' ≤ n * b ^ v' := by
  have h1 : d * b ^ u' * b ^ v ≤ n * b ^ v' * b ^ v := by
    calc d * b ^ u' * b ^ v = d * b ^ (u' + v) := by rw [Nat.mul_assoc, ← Nat.pow_add]
      _ ≤ d * b ^ (u + v') := Nat.mul_le_mul_left _ (Nat.pow_le_pow_right hb he)
      _ = d * b ^ u * b ^ v' := by rw [Nat.mul_assoc, ← Nat.pow_add]
      _ ≤ n * b ^ v * b ^ v' := Nat.mul_le_mul_right _ h
      _ = n * b ^ v' * b ^ v := by rw [Nat.mul_assoc, Nat.mul_assoc, Nat.mul_comm (b ^ v)]
  exact Nat.le_of_mul_le_mul_right h1 (pow_pos' hb v)

theorem ltB_mono {b n d u v u' v' : Nat} (hb : 1 ≤ b) (h : n * b ^ v < d * b ^ u)
    (he : u + v' ≤ u' + v) : n * b ^ v' < d * b ^ u' := by
  have h1 : n * b ^ v' * b ^ v < d * b ^ u' * b ^ v := by
    calc n * b ^ v' * b ^ v = n * b ^ v * b ^ v' := by
            rw [Nat.mul_assoc, Nat.mul_assoc, Nat.mul_comm (b ^ v)]
      _ < d * b ^ u * b ^ v' := Nat.mul_lt_mul_of_pos_right h (pow_pos' hb v')
      _ = d * b ^ (u + v') := by rw [Nat.mul_assoc, ← Nat.pow_add]
      _ ≤ d * b ^ (u' + v) := Nat.mul_le_mul_left _ (Nat.pow_le_pow_right hb he)
      _ = d * b ^ u' * b ^ v := by rw [Nat.mul_assoc, ← Nat.pow_add]
  exact Nat.lt_of_mul_lt_mul_right h1

/-! ## 1. the scaled fraction of `roundDigits` -/

/-- numerator and denominator of `(n/d) / 10^p` -/
def numP (n : Nat) (p : Int) : Nat := n * 10 ^ (-p).toNat
def denP (d : Nat) (p : Int) : Nat := d * 10 ^ p.toNat

theorem scale_pair (n d : Nat) (p : Int) :
    (if p ≥ 0 then (n, d * 10 ^ p.toNat) else (n * 10 ^ (-p).toNat, d)) = (numP n p, denP d p) := by
  unfold numP denP
  by_cases h : p ≥ 0
  · have : (-p).toNat = 0 := by omega
    rw [if_pos h, this, Nat.pow_zero, Nat.mul_one]
  · have : p.toNat = 0 := by omega
    rw [if_neg h, this, Nat.pow_zero, Nat.mul_one]

theorem denP_pos {d : Nat} (hd : 0 < d) (p : Int) : 0 < denP d p :=
  Nat.mul_pos hd (ten_pow_pos _)

/-- `10^(k-1) ≤ (n/d)/10^p` -/
def LoP (n d k : Nat) (p : Int) : Prop := denP d p * 10 ^ (k - 1) ≤ numP n p
/-- `(n/d)/10^p < 10^k` -/
def HiP (n d k : Nat) (p : Int) : Prop := numP n p < denP d p * 10 ^ k

theorem LoP_iff (n d k : Nat) (p : Int) :
    LoP n d k p ↔ d * 10 ^ (p.toNat + (k - 1)) ≤ n * 10 ^ (-p).toNat := by
  unfold LoP numP denP; rw [Nat.mul_assoc, ← Nat.pow_add]

theorem HiP_iff (n d k : Nat) (p : Int) :
    HiP n d k p ↔ n * 10 ^ (-p).toNat < d * 10 ^ (p.toNat + k) := by
  unfold HiP numP denP; rw [Nat.mul_assoc, ← Nat.pow_add]

theorem LoP_anti {n d k : Nat} {p p' : Int} (hpp : p ≤ p') (h : LoP n d k p') : LoP n d k p := by
  rw [LoP_iff] at h ⊢
  exact leB_mono (by decide) h (by omega)

theorem HiP_mono {n d k : Nat} {p p' : Int} (hpp : p ≤ p') (h : HiP n d k p) : HiP n d k p' := by
  rw [HiP_iff] at h ⊢
  exact ltB_mono (by decide) h (by omega)

theorem not_HiP_iff {n d k : Nat} (hk : 1 ≤ k) (p : Int) : ¬ HiP n d k p ↔ LoP n d k (p + 1) := by
  rw [HiP_iff, LoP_iff, Nat.not_lt]
  constructor
  · intro h; exact leB_mono (by decide) h (by omega)
  · intro h; exact leB_mono (by decide) h (by omega)

/-- between a lower and an upper exponent there is one that brackets -/
theorem exists_bracket {n d k : Nat} (hk : 1 ≤ k) (lo : Int) :
    ∀ j : Nat, LoP n d k lo → HiP n d k (lo + j) →
      ∃ ps : Int, lo ≤ ps ∧ ps ≤ lo + j ∧ LoP n d k ps ∧ HiP n d k ps := by
  intro j
  induction j with
  | zero =>
    intro h1 h2
    exact ⟨lo, by omega, by omega, h1, by simpa using h2⟩
  | succ j ih =>
    intro h1 h2
    by_cases h3 : HiP n d k (lo + j)
    · obtain ⟨ps, a, b, c, e⟩ := ih h1 h3
      exact ⟨ps, a, by omega, c, e⟩
    · have h4 := (not_HiP_iff hk _).1 h3
      have e : lo + (j : Int) + 1 = lo + ((j + 1 : Nat) : Int) := by omega
      rw [e] at h4
      exact ⟨lo + ((j + 1 : Nat) : Int), by omega, by omega, h4, h2⟩

/-! ## 2. `adjust` -/

theorem adjust_zero (n d k : Nat) (p : Int) : roundDigits.adjust n d k p 0 = p := rfl

theorem adjust_succ (n d k : Nat) (p : Int) (f : Nat) :
    roundDigits.adjust n d k p (f + 1) =
      if numP n p < denP d p * 10 ^ (k - 1) then roundDigits.adjust n d k (p - 1) f
      else if numP n p ≥ denP d p * 10 ^ k then roundDigits.adjust n d k (p + 1) f else p := by
  rw [roundDigits.adjust.eq_2, scale_pair]

/-- with fuel exceeding the distance to a bracketing exponent, `adjust` returns a bracketing
    exponent -/
theorem adjust_spec {n d k : Nat} :
    ∀ (f : Nat) (p : Int), (∃ ps : Int, LoP n d k ps ∧ HiP n d k ps ∧ (p - ps).natAbs < f) →
      LoP n d k (roundDigits.adjust n d k p f) ∧ HiP n d k (roundDigits.adjust n d k p f) := by
  intro f
  induction f with
  | zero => intro p ⟨ps, _, _, h⟩; omega
  | succ f ih =>
    intro p ⟨ps, hlo, hhi, hdist⟩
    rw [adjust_succ]
    by_cases h1 : numP n p < denP d p * 10 ^ (k - 1)
    · rw [if_pos h1]
      have hgt : ps < p := by
        apply Decidable.byContradiction; intro hc
        have := LoP_anti (show p ≤ ps by omega) hlo
        unfold LoP at this; omega
      exact ih (p - 1) ⟨ps, hlo, hhi, by omega⟩
    · rw [if_neg h1]
      by_cases h2 : numP n p ≥ denP d p * 10 ^ k
      · rw [if_pos h2]
        have hlt : p < ps := by
          apply Decidable.byContradiction; intro hc
          have := HiP_mono (show ps ≤ p by omega) hhi
          unfold HiP at this; omega
        exact ih (p + 1) ⟨ps, hlo, hhi, by omega⟩
      · rw [if_neg h2]
        unfold LoP HiP; omega

/-! ## 3. the estimate -/

/-- for `e = i - 1074`: `10^(E-7) ≤ 2^(e-1)` and `2^(e+1) ≤ 10^(E+8)` with `E = ⌊e·30103/100000⌋` -/
def estChk (i : Nat) : Bool :=
  let e : Int := (i : Int) - 1074
  let E : Int := e * 30103 / 100000
  let s : Int := E - 7
  let t : Int := e - 1
  let s' : Int := E + 8
  let t' : Int := e + 1
  decide (10 ^ s.toNat * 2 ^ (-t).toNat ≤ 2 ^ t.toNat * 10 ^ (-s).toNat) &&
  decide (2 ^ t'.toNat * 10 ^ (-s').toNat ≤ 10 ^ s'.toNat * 2 ^ (-t').toNat)

set_option maxRecDepth 100000 in
/-- kernel evaluation of the 2098 cases -/
theorem estChk_all : (List.range 2098).all estChk = true := by decide

theorem estChk_spec (e : Int) (h1 : -1074 ≤ e) (h2 : e ≤ 1023) :
    (10 ^ (e * 30103 / 100000 - 7).toNat * 2 ^ (-(e - 1)).toNat
        ≤ 2 ^ (e - 1).toNat * 10 ^ (-(e * 30103 / 100000 - 7)).toNat) ∧
    (2 ^ (e + 1).toNat * 10 ^ (-(e * 30103 / 100000 + 8)).toNat
        ≤ 10 ^ (e * 30103 / 100000 + 8).toNat * 2 ^ (-(e + 1)).toNat) := by
  have h := List.all_eq_true.1 estChk_all (e + 1074).toNat (List.mem_range.2 (by omega))
  unfold estChk at h
  have he : (((e + 1074).toNat : Nat) : Int) - 1074 = e := by omega
  simp only [he, Bool.and_eq_true, decide_eq_true_eq] at h
  exact h

/-- `2^(e-1) ≤ n/d` and `n/d < 2^(e+1)` for `e = log2 n − log2 d` -/
theorem log2_sandwich {n d : Nat} (hn : 0 < n) (hd : 0 < d) :
    (∀ a b : Nat, a + d.log2 + 1 = b + n.log2 → d * 2 ^ a ≤ n * 2 ^ b) ∧
    (∀ a b : Nat, a + d.log2 = b + n.log2 + 1 → n * 2 ^ b < d * 2 ^ a) := by
  have hn1 : 2 ^ n.log2 ≤ n := Nat.log2_self_le (by omega)
  have hn2 : n < 2 ^ (n.log2 + 1) := Nat.lt_log2_self
  have hd1 : 2 ^ d.log2 ≤ d := Nat.log2_self_le (by omega)
  have hd2 : d < 2 ^ (d.log2 + 1) := Nat.lt_log2_self
  constructor
  · intro a b hab
    calc d * 2 ^ a ≤ 2 ^ (d.log2 + 1) * 2 ^ a := Nat.mul_le_mul_right _ (Nat.le_of_lt hd2)
      _ = 2 ^ n.log2 * 2 ^ b := by rw [← Nat.pow_add, ← Nat.pow_add]; congr 1; omega
      _ ≤ n * 2 ^ b := Nat.mul_le_mul_right _ hn1
  · intro a b hab
    calc n * 2 ^ b < 2 ^ (n.log2 + 1) * 2 ^ b := Nat.mul_lt_mul_of_pos_right hn2 (two_pow_pos' _)
      _ = 2 ^ d.log2 * 2 ^ a := by rw [← Nat.pow_add, ← Nat.pow_add]; congr 1; omega
      _ ≤ d * 2 ^ a := Nat.mul_le_mul_right _ hd1

/-- chaining `10^s ≤ 2^t` with `2^t ≤ n/d` -/
theorem chain_le {n d A B C E : Nat} (hB : 0 < B) (h1 : A * B ≤ C * E) (h2 : d * C ≤ n * B) :
    d * A ≤ n * E := by
  apply Nat.le_of_mul_le_mul_right _ hB
  calc d * A * B = d * (A * B) := Nat.mul_assoc _ _ _
    _ ≤ d * (C * E) := Nat.mul_le_mul_left _ h1
    _ = d * C * E := (Nat.mul_assoc _ _ _).symm
    _ ≤ n * B * E := Nat.mul_le_mul_right _ h2
    _ = n * E * B := by ac_rfl

/-- chaining `n/d < 2^t` with `2^t ≤ 10^s` -/
theorem chain_lt {n d A B C E : Nat} (hE : 0 < E) (h1 : C * E ≤ A * B)
    (h2 : n * B < d * C) : n * E < d * A := by
  apply Nat.lt_of_mul_lt_mul_right (a := B)
  calc n * E * B = n * B * E := by ac_rfl
    _ < d * C * E := Nat.mul_lt_mul_of_pos_right h2 hE
    _ = d * (C * E) := Nat.mul_assoc _ _ _
    _ ≤ d * (A * B) := Nat.mul_le_mul_left _ h1
    _ = d * A * B := (Nat.mul_assoc _ _ _).symm

/-- the estimate of `roundDigits` -/
def estOf (n d k : Nat) : Int := (((n.log2 : Int) - (d.log2 : Int)) * 30103) / 100000 - (k : Int) + 1

/-- the estimate is at most 7 below … -/
theorem est_lo {n d k : Nat} (hn : 0 < n) (hn2 : n < 2 ^ 1024) (hd : 0 < d) (hd2 : d ≤ 2 ^ 1074)
    (hk : 1 ≤ k) : LoP n d k (estOf n d k - 7) := by
  have hLn : n.log2 < 1024 := (Nat.log2_lt (by omega)).2 hn2
  have hLd : d.log2 < 1075 := (Nat.log2_lt (by omega)).2 (by
    have : (2 : Nat) ^ 1074 < 2 ^ 1075 := by decide
    omega)
  obtain ⟨hs, _⟩ := log2_sandwich hn hd
  obtain ⟨hc, _⟩ := estChk_spec ((n.log2 : Int) - (d.log2 : Int)) (by omega) (by omega)
  unfold estOf
  generalize hE : ((n.log2 : Int) - (d.log2 : Int)) * 30103 / 100000 = E at hc ⊢
  generalize he : ((n.log2 : Int) - (d.log2 : Int)) = e at hc
  have h2 := hs (e - 1).toNat (-(e - 1)).toNat (by omega)
  have h3 := chain_le (two_pow_pos' _) hc h2
  rw [LoP_iff]
  exact leB_mono (by decide) h3 (by omega)

/-- … and at most 7 above the bracketing exponent -/
theorem est_hi {n d k : Nat} (hn : 0 < n) (hn2 : n < 2 ^ 1024) (hd : 0 < d) (hd2 : d ≤ 2 ^ 1074) :
    HiP n d k (estOf n d k + 7) := by
  have hLn : n.log2 < 1024 := (Nat.log2_lt (by omega)).2 hn2
  have hLd : d.log2 < 1075 := (Nat.log2_lt (by omega)).2 (by
    have : (2 : Nat) ^ 1074 < 2 ^ 1075 := by decide
    omega)
  obtain ⟨_, hs⟩ := log2_sandwich hn hd
  obtain ⟨_, hc⟩ := estChk_spec ((n.log2 : Int) - (d.log2 : Int)) (by omega) (by omega)
  unfold estOf
  generalize hE : ((n.log2 : Int) - (d.log2 : Int)) * 30103 / 100000 = E at hc ⊢
  generalize he : ((n.log2 : Int) - (d.log2 : Int)) = e at hc
  have h2 := hs (e + 1).toNat (-(e + 1)).toNat (by omega)
  have h3 := chain_lt (ten_pow_pos _) hc h2
  rw [HiP_iff]
  exact ltB_mono (by decide) h3 (by omega)

/-! ## 4. `roundDigits` -/

theorem roundDigits_eq (n d k f : Nat) :
    roundDigits n d k f =
      (rne (numP n (roundDigits.adjust n d k (estOf n d k) f))
           (denP d (roundDigits.adjust n d k (estOf n d k) f)),
       roundDigits.adjust n d k (estOf n d k) f) := by
  unfold roundDigits estOf rne
  simp only [scale_pair]

/-- **`roundDigits` finds the right decimal exponent and rounds to nearest-even there**: for
    `(q, p) = roundDigits n d k 8`, `10^(k-1) ≤ (n/d)/10^p < 10^k` and `q = rne ((n/d)/10^p)`. -/
theorem roundDigits_spec {n d k : Nat} (hn : 0 < n) (hn2 : n < 2 ^ 1024) (hd : 0 < d)
    (hd2 : d ≤ 2 ^ 1074) (hk : 1 ≤ k) :
    LoP n d k (roundDigits n d k 8).2 ∧ HiP n d k (roundDigits n d k 8).2 ∧
    (roundDigits n d k 8).1 = rne (numP n (roundDigits n d k 8).2) (denP d (roundDigits n d k 8).2) := by
  rw [roundDigits_eq]
  simp only
  have h1 := est_lo hn hn2 hd hd2 hk
  have h2 := est_hi (k := k) hn hn2 hd hd2
  have e : estOf n d k + 7 = estOf n d k - 7 + ((14 : Nat) : Int) := by omega
  rw [e] at h2
  obtain ⟨ps, a, b, c, dd⟩ := exists_bracket hk _ 14 h1 h2
  obtain ⟨r1, r2⟩ := adjust_spec 8 (estOf n d k) ⟨ps, c, dd, by omega⟩
  exact ⟨r1, r2, trivial⟩

/-- the digits: `10^(k-1) ≤ q ≤ 10^k`, within half a unit of `(n/d)/10^p`, and no integer is
    closer (ties go to the even one, `rne_tie_even`) -/
theorem roundDigits_digits {n d k : Nat} (hn : 0 < n) (hn2 : n < 2 ^ 1024) (hd : 0 < d)
    (hd2 : d ≤ 2 ^ 1074) (hk : 1 ≤ k) :
    10 ^ (k - 1) ≤ (roundDigits n d k 8).1 ∧ (roundDigits n d k 8).1 ≤ 10 ^ k ∧
    2 * adist ((roundDigits n d k 8).1 * denP d (roundDigits n d k 8).2) (numP n (roundDigits n d k 8).2)
      ≤ denP d (roundDigits n d k 8).2 ∧
    ∀ j, adist ((roundDigits n d k 8).1 * denP d (roundDigits n d k 8).2) (numP n (roundDigits n d k 8).2)
      ≤ adist (j * denP d (roundDigits n d k 8).2) (numP n (roundDigits n d k 8).2) := by
  obtain ⟨h1, h2, h3⟩ := roundDigits_spec hn hn2 hd hd2 hk
  rw [h3]
  generalize (roundDigits n d k 8).2 = p at h1 h2
  have hD := denP_pos hd p
  unfold LoP at h1; unfold HiP at h2
  refine ⟨?_, ?_, rne_half _ _ hD, rne_nearest _ _ hD⟩
  · have : 10 ^ (k - 1) ≤ numP n p / denP d p := by
      apply (Nat.le_div_iff_mul_le hD).2; rw [Nat.mul_comm]; exact h1
    exact Nat.le_trans this (rne_ge _ _)
  · have : numP n p / denP d p < 10 ^ k := by
      apply (Nat.div_lt_iff_lt_mul hD).2; rw [Nat.mul_comm]; exact h2
    have := rne_le (numP n p) (denP d p)
    omega

/-! ## 5. a rational strictly inside the rounding interval of `a` rounds to `a` -/

theorem ex_mono {a b : Nat} (h : a ≤ b) : ex a ≤ ex b := by
  unfold ex
  have := Nat.div_le_div_right (c := 2 ^ 52) h
  omega

/-- the gap below `a` -/
theorem V_pred {a : Nat} (ha : 0 < a) : V a = V (a - 1) + 2 ^ ex (a - 1) := by
  have := V_succ (a - 1)
  have e : a - 1 + 1 = a := by omega
  rw [e] at this; exact this

/-- `V a ≤ 2^53 ·` (gap below `a`) -/
theorem V_le_gap {a : Nat} (ha : 0 < a) : V a ≤ 2 ^ 53 * 2 ^ ex (a - 1) := by
  rw [V_pred ha]
  have h1 : V (a - 1) ≤ (2 ^ 53 - 1) * 2 ^ ex (a - 1) := by
    unfold V
    exact Nat.mul_le_mul_right _ (by have := sig_lt (a - 1); omega)
  have h2 : 2 ^ 53 * 2 ^ ex (a - 1) = (2 ^ 53 - 1) * 2 ^ ex (a - 1) + 2 ^ ex (a - 1) := by
    generalize 2 ^ ex (a - 1) = G; omega
  omega

/-- every other magnitude is at least the lower gap away -/
theorem V_sep {a b : Nat} (ha : 0 < a) (hne : b ≠ a) :
    V b + 2 ^ ex (a - 1) ≤ V a ∨ V a + 2 ^ ex (a - 1) ≤ V b := by
  by_cases hlt : b < a
  · left
    rw [V_pred ha]
    have := V_mono (show b ≤ a - 1 by omega)
    omega
  · right
    have h1 := V_mono (show a + 1 ≤ b by omega)
    rw [V_succ] at h1
    have h2 : 2 ^ ex (a - 1) ≤ 2 ^ ex a :=
      Nat.pow_le_pow_right (by decide) (ex_mono (by omega))
    omega

theorem near_far {N D a b : Nat} (ha : 0 < a) (hne : b ≠ a)
    (h : 2 * adist (V a * D) (N * 2 ^ 1074) < 2 ^ ex (a - 1) * D) :
    adist (V a * D) (N * 2 ^ 1074) < adist (V b * D) (N * 2 ^ 1074) := by
  generalize 2 ^ 1074 = T at h ⊢
  rcases V_sep ha hne with h1 | h1
  · have h2 := Nat.mul_le_mul_right D h1
    rw [Nat.add_mul] at h2
    simp only [adist_def] at h ⊢
    omega
  · have h2 := Nat.mul_le_mul_right D h1
    rw [Nat.add_mul] at h2
    simp only [adist_def] at h ⊢
    omega

theorem gap_const : 2 * ((2 ^ 53 - 1) * 2 ^ 2045) + 2 ^ 2045 = 2 * (ovfThreshold * 2 ^ 1074) := by
  decide

theorem no_ovf_arith {X NT GD c1 c2 m : Nat} (h : 2 * adist X NT < GD) (h1 : X ≤ c1) (h2 : GD ≤ c2)
    (h3 : m ≤ NT) (h5 : 2 * c1 + c2 = 2 * m) : False := by
  simp only [adist_def] at h
  omega

theorem near_no_overflow {N D a : Nat} (ha : 0 < a) (hfin : a < infBits)
    (h : 2 * adist (V a * D) (N * 2 ^ 1074) < 2 ^ ex (a - 1) * D) : N < D * ovfThreshold := by
  apply Decidable.byContradiction; intro hc
  have hc' : D * ovfThreshold ≤ N := Nat.le_of_not_lt hc
  have h1 := Nat.mul_le_mul_right D (V_lt_of_finite hfin)
  have hex : ex (a - 1) ≤ 2045 := by
    unfold ex
    have : (a - 1) / 2 ^ 52 ≤ 2046 := by
      have : a - 1 < 2047 * 2 ^ 52 := by
        have : infBits = 2047 * 2 ^ 52 := by decide
        omega
      omega
    omega
  have h2 := Nat.mul_le_mul_right D (Nat.pow_le_pow_right (show 1 ≤ 2 by decide) hex)
  have h3 := Nat.mul_le_mul_right (2 ^ 1074) hc'
  have h4 : D * ovfThreshold * 2 ^ 1074 = ovfThreshold * 2 ^ 1074 * D := by
    generalize 2 ^ 1074 = T; generalize ovfThreshold = t; ac_rfl
  rw [h4] at h3
  have h5' : ∀ x y z : Nat, 2 * x + y = 2 * z → 2 * (x * D) + y * D = 2 * (z * D) := by
    intro x y z hh
    rw [← Nat.mul_assoc, ← Nat.mul_assoc, ← Nat.add_mul, hh]
  exact no_ovf_arith h h1 h2 h3 (h5' _ _ _ gap_const)

/-- **a rational closer to `V a` than half the gap below `a` rounds to `a`** (distances scaled by
    `D·2^1074`) -/
theorem near_roundMag {N D a : Nat} (hD : 0 < D) (ha : 0 < a) (hfin : a < infBits)
    (h : 2 * adist (V a * D) (N * 2 ^ 1074) < 2 ^ ex (a - 1) * D) : roundMag N D = a := by
  have hN : 0 < N := by
    apply Nat.pos_of_ne_zero; intro h0; subst h0
    have h1 := V_pred ha
    have h2 : 2 ^ ex (a - 1) * D ≤ V a * D := Nat.mul_le_mul_right D (by omega)
    rw [Nat.zero_mul] at h
    simp only [adist_def] at h
    omega
  apply roundMag_eq_of_isRN hN hD (near_no_overflow ha hfin h)
  refine ⟨hfin, fun b _ => ?_, fun b _ hne he => ?_⟩
  · by_cases hb : b = a
    · subst hb; exact Nat.le_refl _
    · exact Nat.le_of_lt (near_far ha hb h)
  · have := near_far ha hne h
    omega

/-! ## 6. seventeen digits always read back -/

theorem frac_bounds {a : Nat} (ha : 0 < a) (hfin : a < infBits) :
    0 < (frac a).1 ∧ (frac a).1 < 2 ^ 1024 ∧ 0 < (frac a).2 ∧ (frac a).2 ≤ 2 ^ 1074 := by
  have hinf : infBits = 2047 * 2 ^ 52 := by decide
  have hm : a % 2 ^ 52 < 2 ^ 52 := Nat.mod_lt _ (two_pow_pos' _)
  have h53 : (2 : Nat) ^ 53 ≤ 2 ^ 1024 := Nat.pow_le_pow_right (by decide) (by decide)
  unfold frac
  by_cases h0 : a / 2 ^ 52 = 0
  · rw [if_pos h0]
    refine ⟨?_, ?_, two_pow_pos' _, Nat.le_refl _⟩
    · show 0 < a % 2 ^ 52
      omega
    · show a % 2 ^ 52 < 2 ^ 1024
      omega
  · rw [if_neg h0]
    by_cases h1 : 1075 ≤ a / 2 ^ 52
    · rw [if_pos h1]
      refine ⟨Nat.mul_pos (by omega) (two_pow_pos' _), ?_, Nat.one_pos, Nat.one_le_two_pow⟩
      show (2 ^ 52 + a % 2 ^ 52) * 2 ^ (a / 2 ^ 52 - 1075) < 2 ^ 1024
      have e1 : a / 2 ^ 52 - 1075 ≤ 971 := by omega
      have e2 : (2 : Nat) ^ (a / 2 ^ 52 - 1075) ≤ 2 ^ 971 := Nat.pow_le_pow_right (by decide) e1
      calc (2 ^ 52 + a % 2 ^ 52) * 2 ^ (a / 2 ^ 52 - 1075)
            ≤ (2 ^ 52 + a % 2 ^ 52) * 2 ^ 971 := Nat.mul_le_mul_left _ e2
        _ < 2 ^ 53 * 2 ^ 971 := Nat.mul_lt_mul_of_pos_right (by omega) (two_pow_pos' _)
        _ = 2 ^ 1024 := by rw [← Nat.pow_add]
    · rw [if_neg h1]
      refine ⟨by show 0 < 2 ^ 52 + a % 2 ^ 52; omega, ?_, two_pow_pos' _, ?_⟩
      · show 2 ^ 52 + a % 2 ^ 52 < 2 ^ 1024
        omega
      · exact Nat.pow_le_pow_right (by decide) (by omega)

theorem ofDecimal_eq (s : Bool) {q : Nat} (hq : q ≠ 0) (p : Int) :
    ofDecimal s q p = mk s (roundMag (q * 10 ^ p.toNat) (10 ^ (-p).toNat)) := by
  unfold ofDecimal ofRat
  rw [if_neg hq]
  by_cases h : p ≥ 0
  · have : (-p).toNat = 0 := by omega
    rw [if_pos h, this, Nat.pow_zero]
  · have : p.toNat = 0 := by omega
    rw [if_neg h, this, Nat.pow_zero, Nat.mul_one]

theorem final_arith {A B C GP : Nat} (h1 : 2 * A ≤ B) (h2 : B * 10 ^ 16 ≤ C) (h3 : C ≤ 2 ^ 53 * GP)
    (h4 : 0 < GP) : 2 * A < GP := by
  omega

/-- **17 significant digits always suffice**: the correctly rounded 17-digit decimal of a finite
    non-zero float reads back as that float -/
theorem digits17_ok {a : Nat} (ha : 0 < a) (hfin : a < infBits) :
    ofDecimal false (roundDigits (frac a).1 (frac a).2 17 8).1 (roundDigits (frac a).1 (frac a).2 17 8).2
      = mk false a := by
  obtain ⟨hn, hn2, hd, hd2⟩ := frac_bounds ha hfin
  have hval := frac_eq_val a
  generalize (frac a).1 = n at hn hn2 hval
  generalize (frac a).2 = d at hd hd2 hval
  obtain ⟨hlo, _, hq⟩ := roundDigits_spec hn hn2 hd hd2 (show 1 ≤ 17 by decide)
  generalize (roundDigits n d 17 8).2 = p at hlo hq
  generalize (roundDigits n d 17 8).1 = q at hq
  have hD := denP_pos hd p
  have hhalf := rne_half (numP n p) (denP d p) hD
  rw [← hq] at hhalf
  unfold LoP at hlo
  have hlo' : denP d p * 10 ^ 16 ≤ numP n p := hlo
  have hq0 : q ≠ 0 := by
    have h1 : 10 ^ 16 ≤ numP n p / denP d p := by
      apply (Nat.le_div_iff_mul_le hD).2; rw [Nat.mul_comm]; exact hlo'
    have h2 := rne_ge (numP n p) (denP d p)
    rw [← hq] at h2
    omega
  rw [ofDecimal_eq false hq0]
  apply congrArg (mk false)
  apply near_roundMag (ten_pow_pos _) ha hfin
  unfold numP denP at hhalf hlo'
  have hT : 0 < 2 ^ 1074 := two_pow_pos' _
  generalize 2 ^ 1074 = T at hval hT ⊢
  generalize 10 ^ p.toNat = Pp at hhalf hlo' ⊢
  generalize hPm : 10 ^ (-p).toNat = Pm at hhalf hlo' ⊢
  have hPm0 : 0 < Pm := by rw [← hPm]; exact ten_pow_pos _
  -- half a decimal unit
  have k1 : 2 * adist (V a * Pm) (q * Pp * T) ≤ Pp * T := by
    apply Nat.le_of_mul_le_mul_right _ hd
    have := Nat.mul_le_mul_right T hhalf
    rw [Nat.mul_assoc 2, ← adist_mul_right] at this
    rw [Nat.mul_assoc 2, ← adist_mul_right, adist_comm]
    have e1 : q * (d * Pp) * T = q * Pp * T * d := by ac_rfl
    have e2 : n * Pm * T = V a * Pm * d := by
      calc n * Pm * T = n * T * Pm := by ac_rfl
        _ = V a * d * Pm := by rw [hval]
        _ = V a * Pm * d := by ac_rfl
    have e3 : d * Pp * T = Pp * T * d := by ac_rfl
    rw [e1, e2, e3] at this
    exact this
  -- the decimal unit is at most `10^-16` of the value
  have k2 : Pp * T * 10 ^ 16 ≤ V a * Pm := by
    apply Nat.le_of_mul_le_mul_right _ hd
    have := Nat.mul_le_mul_right T hlo'
    calc Pp * T * 10 ^ 16 * d = d * Pp * 10 ^ 16 * T := by ac_rfl
      _ ≤ n * Pm * T := this
      _ = n * T * Pm := by ac_rfl
      _ = V a * d * Pm := by rw [hval]
      _ = V a * Pm * d := by ac_rfl
  -- the value is at most `2^53` gaps
  have k3 : V a * Pm ≤ 2 ^ 53 * (2 ^ ex (a - 1) * Pm) := by
    rw [← Nat.mul_assoc]
    exact Nat.mul_le_mul_right _ (V_le_gap ha)
  have k4 : 0 < 2 ^ ex (a - 1) * Pm := Nat.mul_pos (two_pow_pos' _) hPm0
  exact final_arith k1 k2 k3 k4

/-! ## 7. the search `shortest` returns digits that read back -/

/-- the acceptance test of `shortest.go` for `k` digits -/
def Pass (x : Bits) (n d k : Nat) : Prop :=
  ofDecimal false (roundDigits n d k 8).1 (roundDigits n d k 8).2 = mk false (absBits x)

instance (x : Bits) (n d k : Nat) : Decidable (Pass x n d k) := by unfold Pass; exact inferInstance

/-- the digits returned by the search read back as the magnitude of `x` -/
def SearchOK (x : Bits) : Prop :=
  ofDecimal false (shortest x).1 (shortest x).2 = mk false (absBits x)

instance (x : Bits) : Decidable (SearchOK x) := by unfold SearchOK; exact inferInstance

theorem go_zero (x : Bits) (n d k : Nat) : shortest.go x n d k 0 = roundDigits n d 17 8 := rfl

theorem go_succ (x : Bits) (n d k f : Nat) :
    shortest.go x n d k (f + 1) =
      if Pass x n d k then roundDigits n d k 8 else shortest.go x n d (k + 1) f := by
  by_cases hp : Pass x n d k
  · rw [if_pos hp, shortest.go.eq_2]
    unfold Pass at hp
    split
    rename_i heq
    rw [heq] at hp
    rw [if_pos hp, heq]
  · rw [if_neg hp, shortest.go.eq_2]
    unfold Pass at hp
    split
    rename_i heq
    rw [heq] at hp
    rw [if_neg hp]

/-- **what the search returns**: the `k`-digit rounding for the first `k` (from the start value on)
    that passes the read-back test, or the 17-digit rounding if none of the tried `k` passes -/
theorem go_spec (x : Bits) (n d : Nat) : ∀ (f k : Nat),
    (∃ j, j < f ∧ Pass x n d (k + j) ∧ (∀ i, i < j → ¬ Pass x n d (k + i)) ∧
        shortest.go x n d k f = roundDigits n d (k + j) 8) ∨
    ((∀ j, j < f → ¬ Pass x n d (k + j)) ∧ shortest.go x n d k f = roundDigits n d 17 8) := by
  intro f
  induction f with
  | zero => intro k; exact Or.inr ⟨fun j hj => by omega, go_zero x n d k⟩
  | succ f ih =>
    intro k
    rw [go_succ]
    by_cases hp : Pass x n d k
    · rw [if_pos hp]
      exact Or.inl ⟨0, by omega, hp, fun i hi => by omega, rfl⟩
    · rw [if_neg hp]
      rcases ih (k + 1) with ⟨j, h1, h2, h3, h4⟩ | ⟨h1, h2⟩
      · left
        refine ⟨j + 1, by omega, ?_, ?_, ?_⟩
        · have e : k + (j + 1) = k + 1 + j := by omega
          rw [e]; exact h2
        · intro i hi
          cases i with
          | zero => exact hp
          | succ i =>
            have e : k + (i + 1) = k + 1 + i := by omega
            rw [e]; exact h3 i (by omega)
        · have e : k + (j + 1) = k + 1 + j := by omega
          rw [e]; exact h4
      · right
        refine ⟨fun j hj => ?_, h2⟩
        cases j with
        | zero => exact hp
        | succ j =>
          have e : k + (j + 1) = k + 1 + j := by omega
          rw [e]; exact h1 j (by omega)

/-- 2(a): if some tried `k` passes the test, the returned digits read back -/
theorem go_ok_of_pass (x : Bits) (n d f k : Nat) (h : ∃ j, j < f ∧ Pass x n d (k + j)) :
    ofDecimal false (shortest.go x n d k f).1 (shortest.go x n d k f).2 = mk false (absBits x) := by
  rcases go_spec x n d f k with ⟨j, _, h2, _, h4⟩ | ⟨h1, _⟩
  · rw [h4]; exact h2
  · obtain ⟨j, hj, hp⟩ := h
    exact absurd hp (h1 j hj)

/-- in every case the result reads back as soon as the 17-digit rounding does -/
theorem go_ok (x : Bits) (n d f k : Nat) (h17 : Pass x n d 17) :
    ofDecimal false (shortest.go x n d k f).1 (shortest.go x n d k f).2 = mk false (absBits x) := by
  rcases go_spec x n d f k with ⟨j, _, h2, _, h4⟩ | ⟨_, h2⟩
  · rw [h4]; exact h2
  · rw [h2]; exact h17

theorem shortest_eq (x : Bits) : shortest x = shortest.go x (toFrac x).1 (toFrac x).2 1 17 := rfl

/-- 2(b) for the model's search: for every finite non-zero `x` the digits `shortest x` read back -/
theorem shortest_ok (x : Bits) (hfin : isFinite x = true) (hz : isZero x = false) : SearchOK x := by
  unfold SearchOK
  rw [shortest_eq]
  apply go_ok
  unfold Pass
  rw [toFrac_eq_frac]
  apply digits17_ok
  · unfold isZero at hz
    have : absBits x ≠ 0 := by simpa using hz
    omega
  · exact finite_iff.1 hfin

/-- the returned digit string is not zero -/
theorem shortest_pos (x : Bits) (hz : isZero x = false) (h : SearchOK x) : 0 < (shortest x).1 := by
  apply Nat.pos_of_ne_zero; intro h0
  unfold SearchOK at h
  rw [h0] at h
  have h1 : absBits (ofDecimal false 0 (shortest x).2) = 0 := by
    unfold ofDecimal zero; rw [if_pos rfl]; exact absBits_mk false (by decide)
  rw [h, absBits_mk false (absBits_lt x)] at h1
  unfold isZero at hz
  simp [h1] at hz

end F64T
end Nl
