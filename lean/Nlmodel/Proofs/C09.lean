/-
  C09 — names resolve lexically; undeclared names are rejected before anything runs.
  Statements about the resolver (Model/Resolve: the mirror of symbols.rs shared by the definitional
  semantics and the compiler model).
-/
import Nlmodel.Model.Pipeline
import Nlmodel.Proofs.Lemmas.ResolveHeap
import Nlmodel.Proofs.Lemmas.ResolveFn
import Nlmodel.Proofs.Lemmas.Resolve7Top
import Nlmodel.Proofs.Lemmas.AlphaTop
import Nlmodel.Proofs.Lemmas.AlphaOnTop
import Nlmodel.Proofs.Lemmas.NameEvalC09
import Nlmodel.Proofs.Lemmas.NameEvalFnMain
import Nlmodel.Proofs.Lemmas.NameEvalHC09
import Nlmodel.Proofs.Lemmas.NameEvalBlock
namespace Nl
namespace C09

/-- the latest declaration of a name in the innermost scope that has one wins: looking a name up
    right after declaring it finds that declaration, whatever was declared before -/
theorem C09_latest_wins (c : Ctx) (n : Text) (bid : Nat) :
    (c.define n bid).1.resolve n = some ((c.define n bid).2, bid) := by
  unfold Ctx.define Ctx.resolve Ctx.flat Ctx.totalLen Ctx.flat
  cases hs : c.scopes with
  | nil => simp [lookupFlat]
  | cons s ss => simp [lookupFlat]

/-- declaring another name does not disturb existing names: they keep their binder AND their slot -/
theorem C09_other_names_undisturbed (c : Ctx) (n m : Text) (bid : Nat) (h : m ≠ n) :
    (c.define n bid).1.resolve m = c.resolve m := by
  unfold Ctx.define Ctx.resolve Ctx.flat
  cases hs : c.scopes with
  | nil => simp [lookupFlat, Ne.symm h]
  | cons s ss => simp [lookupFlat, Ne.symm h]

/-- a variable ceases to exist at the end of its block: entering a scope, declaring names in it
    and leaving it restores exactly the names (and slots) that were visible before -/
theorem C09_block_end (st : RState) (n : Text) :
    ((st.enterScope.define n).1.leaveScope).ctxs.map Ctx.scopes = st.ctxs.map Ctx.scopes := by
  cases hc : st.ctxs with
  | nil => simp [RState.enterScope, RState.define, RState.leaveScope, hc]
  | cons c cs => simp [RState.enterScope, RState.define, RState.leaveScope, hc, Ctx.define]

/-- inside a block the outer names stay visible unless shadowed -/
theorem C09_inner_sees_outer (c : Ctx) (m : Text) :
    ({ c with scopes := [] :: c.scopes } : Ctx).resolve m = c.resolve m := by
  simp [Ctx.resolve, Ctx.flat]

/-- slots: the slot of a declaration is the number of names declared before it that are still
    alive in the context, so simultaneously live names of one context never share a slot -/
theorem lookupFlat_slot (l : List (Text × Nat)) (n : Text) (k bid : Nat) (h : lookupFlat l n = some (k, bid)) :
    k < l.length ∧ l[l.length - 1 - k]? = some (n, bid) := by
  induction l with
  | nil => simp [lookupFlat] at h
  | cons p rest ih =>
    obtain ⟨m, b⟩ := p
    simp only [lookupFlat] at h
    split at h
    · rename_i hm
      simp only [Option.some.injEq, Prod.mk.injEq] at h
      obtain ⟨h1, h2⟩ := h
      subst h1; subst h2; subst hm
      simp
    · obtain ⟨h1, h2⟩ := ih h
      constructor
      · simp only [List.length_cons]; omega
      · have : (rest.length + 1 - 1 - k) = (rest.length - 1 - k) + 1 := by omega
        simp only [List.length_cons, this, List.getElem?_cons_succ]
        exact h2

theorem C09_slots_distinct (l : List (Text × Nat)) (n m : Text) (k bn bm : Nat)
    (hn : lookupFlat l n = some (k, bn)) (hm : lookupFlat l m = some (k, bm)) : n = m ∧ bn = bm := by
  have h1 := (lookupFlat_slot l n k bn hn).2
  have h2 := (lookupFlat_slot l m k bm hm).2
  rw [h1] at h2
  simp only [Option.some.injEq, Prod.mk.injEq] at h2
  exact h2

/-- a function body sees its own parameters and locals and the global context, never the locals of
    an enclosing function (or of a caller): resolution looks at the current context and then at the
    LAST context (the global one) only -/
theorem C09_function_sees_own_and_globals (cur mid g : Ctx) (rest : List Ctx) (n : Text) (st : RState)
    (h : st.ctxs = cur :: mid :: (rest ++ [g])) (hcur : cur.resolve n = none) :
    st.resolve n = (g.resolve n).map (fun p => ⟨p.2, .global p.1⟩) := by
  have hl : (mid :: (rest ++ [g])).getLast? = some g := by
    rw [List.getLast?_eq_some_iff]; exact ⟨mid :: rest, by simp⟩
  unfold RState.resolve
  rw [h]
  simp only [hcur, hl]
  cases hg : g.resolve n with
  | none => rfl
  | some p => obtain ⟨a, b⟩ := p; rfl

/-- SLOTS IMPLEMENT BINDERS (R1) for the whole function-free language: whatever tree the resolver produces
    for a function-free source program, every variable occurrence in it carries a (binder, slot) pair that is
    in scope at that point, each `stel` introduces a binder and a slot that no name in scope uses, a block's
    names end with the block (`SimH.HB`: the scope discipline the simulation theorems of C01 consume), so the
    slot-based machine code and the binder-based definitional semantics read and write the same variable at
    every occurrence.  By induction over the resolver (`SimH.rHE` ..), no bound on nesting or program size. -/
theorem C09_slots_implement_binders_function_free (ast : Block) (hs : SimH.SHB false ast) (p : RBlock)
    (h : resolveProgram ast = .ok p) : ∃ Γ', SimH.HB [] false p Γ' :=
  SimH.resolve_hb ast hs p h

/-- SLOTS IMPLEMENT BINDERS (R1) for programs with functions: whatever the resolver produces for a source program
    of the syntactic fragment `SimF.SrcTop` is a well-scoped program in the sense the function simulation
    consumes (`SimF.YTop`): inside a body every variable occurrence is a local of THAT body (parameter or
    declaration, in the frame slot the symbol table gave it, below the function's locals count) or a global
    declared earlier at top level — never a local of a caller or of another function; parameters occupy slots
    0..n-1; block scopes inside bodies reuse slots only after the block ended; the function ids are distinct. -/
theorem C09_slots_implement_binders_functions (ast : Block) (hs : SimF.SrcTop ast) (r : RBlock)
    (h : resolveProgram ast = .ok r) :
    ∃ Γ' D, SimF.YTop [] r 0 [] Γ' D ∧ D.Pairwise (fun x y => x.1 ≠ y.1) :=
  SimF.resolve_ytop ast hs r h

/-- SLOTS IMPLEMENT BINDERS (R1) with function literals nested to any depth: for every source program of the syntactic class
    `Sim7.S7Top` the resolver's output is well-scoped in the sense the stage-7 simulation consumes (`Sim7.ZTop7`): a body —
    however deeply nested in other bodies — reads and writes its OWN parameters and locals (in its own frame slots) and
    persistent globals, never a local of an enclosing or calling function; and the function ids of ALL literals are pairwise
    distinct for EVERY program the resolver accepts -/
theorem C09_slots_implement_binders_nested_functions (ast : Block) (hs : Sim7.S7Top ast) (r : RBlock)
    (h : resolveProgram ast = .ok r) :
    (∃ Γ', Sim7.ZTop7 [] r Γ') ∧ (Sim7.litsTop [] r 0 []).Pairwise (fun x y => x.1 ≠ y.1) :=
  ⟨Sim7.resolve_ztop7 ast hs r h, Sim7.resolve_fids_distinct ast r h⟩

/-- the same for the control-flow fragment over scalars (stage 3) -/
theorem C09_slots_implement_binders_control_flow (ast : Block) (hs : Sim.SB false ast) (p : RBlock)
    (h : resolveProgram ast = .ok p) : ∃ Γ', Sim.XB [] false p Γ' :=
  Sim.resolve_xb ast hs p h

/-- a program that uses an undeclared name anywhere is rejected before it produces any output:
    both the machine model and the definitional semantics return the resolver's error with the
    empty output, without running anything -/
theorem C09_rejected_before_output (cc : CharClass) (b f : Nat) (src : Text) (ast : Block) (e : Err)
    (hp : parse cc src = .ok ast) (hr : resolveProgram ast = .error e) :
    (evalText cc b src).show = (Obs.error e []).show ∧ (specText cc f src).show = (Obs.error e []).show := by
  constructor
  · simp [evalText, hp, compileProgram, hr]
  · simp [specText, hp, hr]

/-- an identifier that the symbol table does not know is a reference error -/
theorem C09_undeclared_is_reference_error (n : Text) (st : RState) (h : st.resolve n = none) :
    resolveE (.ident n) st = .error .reference := by
  simp [resolveE, h]

example : (resolveProgram (.cons (.expr (.ident ['z'])) .nil)).toOption = none := by decide

/-! ### alpha-equivalence (session 7): WHICH identifiers a program uses is irrelevant, only the binding structure matters

"A name always means the innermost enclosing declaration visible at that point" has a consequence that can be stated without
mentioning scopes at all: renaming the identifiers of a program consistently changes NOTHING.  `Lemmas/Alpha*.lean` prove it for the
model of the real resolver (`symbols.rs` + the name handling of `compiler.rs`) by mutual induction over all syntactic classes: if the
resolver state is the image of another one under `f`, resolving the renamed tree gives the SAME resolved tree (same binder ids, same
slots, same errors at the same place).  Resolved trees contain no names, so the bytecode is identical. -/

/-- for every renaming `f` that is injective ON THE IDENTIFIERS OF THE PROGRAM, keeps builtin names builtin (calls of `print`,
    `type`, ... are resolved by name first) and keeps the empty name (an anonymous function literal) empty: the renamed program
    compiles to exactly the same resolved tree and bytecode, or fails with the same error -/
theorem C09_alpha_equivalence (f : Text → Text) (ast : Block)
    (hinj : ∀ a ∈ Alpha.namesB ast, ∀ b ∈ Alpha.namesB ast, f a = f b → a = b)
    (hbuiltin : ∀ n ∈ Alpha.namesB ast, Builtin.resolve (f n) = Builtin.resolve n)
    (hempty : ∀ n ∈ Alpha.namesB ast, (f n).isEmpty = n.isEmpty) :
    compileProgram (Alpha.renB f ast) = compileProgram ast :=
  Alpha.alpha_compile_names f ast hinj hbuiltin hempty

/-- consequently the machine's answer (for every budget) and the definitional answer (for every fuel) are the same -/
theorem C09_alpha_same_run (f : Text → Text) (hf : Alpha.Renaming f) (ast : Block) (budget : Nat) :
    (compileProgram (Alpha.renB f ast)).map (fun p => VM.run {} p.2 budget) =
      (compileProgram ast).map (fun p => VM.run {} p.2 budget) :=
  Alpha.alpha_run hf ast budget

theorem C09_alpha_same_meaning (f : Text → Text) (hf : Alpha.Renaming f) (ast : Block) (F : Nat) :
    (resolveProgram (Alpha.renB f ast)).map (Spec.evalProgram F) = (resolveProgram ast).map (Spec.evalProgram F) :=
  Alpha.alpha_spec hf ast F

/-- the key step: looking the renamed name up in the renamed scopes finds what looking the name up in the original scopes finds -/
theorem C09_alpha_lookup (f : Text → Text) (hf : Alpha.Renaming f) (st : RState) (n : Text) :
    (Alpha.mapSt f st).resolve (f n) = st.resolve n :=
  Alpha.mapSt_resolve hf st n

/-- non-vacuity: prefixing every non-builtin name with `_` is such a renaming -/
theorem C09_alpha_renaming_exists : Alpha.Renaming Alpha.pre := Alpha.pre_renaming

/-! ### a resolver-INDEPENDENT specification of scoping, and the resolver implements it (session 7, `Spec/NameEval.lean`)

The definitional semantics `Spec.eval*` runs on the RESOLVED tree: it takes its binding structure from the same resolver model as the
compiler, so a scoping mistake of the resolver would be invisible to C01 (audit, DESIGN 0.9 item 2).  `Spec/NameEval.lean` is a second
evaluator, DIRECTLY ON SOURCE TREES WITH NAMES, written from the README rules with no resolver, no binder ids and no slots: the
environment is a stack of scopes of (name, value) with the newest declaration first; `stel` adds to the innermost scope; a block
pushes a scope and pops it on every outcome; lookup and assignment take the first match from the inside.  `NameEval.declared` is the
static rule "every identifier has an enclosing declaration visible at that point", a plain traversal with a stack of name lists. -/

/-- for every program of the stage-3 source fragment (integers, booleans, operators, `stel`/assignment/shadowing, nested blocks,
    `als`/`anders`, `zolang`, `stop`/`volgende`) the definitional semantics on the RESOLVED tree equals the name-based semantics on the
    SOURCE tree, for every fuel: same value, same error, out of fuel iff out of fuel, unspecified iff unspecified (the fragment has no
    `print`, so the output is empty on both sides; a `stop`/`volgende` under a pending operand — K3 — is outside `SB`) -/
theorem C09_resolver_implements_name_scoping (ast : Block) (hs : Sim.SB false ast) (r : RBlock) (h : resolveProgram ast = .ok r) (F : Nat) :
    NameEval.evalProgram F ast = Spec.evalProgram F r :=
  NameEval.nameEval_eq_spec ast hs r h F

/-- "a program that uses an undeclared name anywhere is rejected with a reference error": the resolver fails EXACTLY when the static
    rule on names says an identifier has no enclosing declaration, and then with a reference error (nothing has run: C09_rejected_before_output) -/
theorem C09_rejected_iff_some_name_undeclared (ast : Block) (hs : Sim.SB false ast) :
    ((∃ e, resolveProgram ast = .error e) ↔ NameEval.declared [[]] ast = false) ∧
    (∀ e, resolveProgram ast = .error e → e = .reference) :=
  ⟨NameEval.resolve_error_iff_undeclared ast hs, fun e h => NameEval.resolve_error_is_reference ast hs e h⟩

/-- the clauses of the property on the NAME side: an assignment to a shadowing name leaves the outer binding alone; the end of a block
    restores the scopes; a later `stel` of the same name in the same block takes over; a use after the block / before the `stel` is
    undeclared -/
theorem C09_names_assign_shadowed_leaves_outer (sc : NameEval.Scope) (outer : List NameEval.Scope) (x : Text) (w : Option Spec.SVal) (v : Spec.SVal) :
    NameEval.update (((x, w) :: sc) :: outer) x v = some (((x, some v) :: sc) :: outer) :=
  NameEval.assign_shadowed_leaves_outer sc outer x w v

theorem C09_names_block_end_restores (ρ : NameEval.NState) (x : Text) (v : Spec.SVal) :
    ((ρ.push.declare x).assign x v).map (fun ρ' => ρ'.pop) = some ρ :=
  NameEval.block_end_restores ρ x v

theorem C09_names_use_after_block_undeclared (sc : List (List Text)) (x : Text) (e : Expr) (b rest : Block) (h : NameEval.visible sc x = false) :
    NameEval.declared sc (.cons (.block (.cons (.letS x e) b)) (.cons (.expr (.ident x)) rest)) = false :=
  NameEval.use_after_block_undeclared sc x e b rest h

/-- non-vacuity: shadowing in nested blocks inside a loop; both evaluators give 4 (TEST) and the theorem applies -/
theorem C09_name_scoping_example : ∃ r, resolveProgram NameEval.demo = .ok r ∧ ∀ F, NameEval.evalProgram F NameEval.demo = Spec.evalProgram F r :=
  NameEval.demo_agree

/-! ### ... and with FUNCTIONS (`Spec/NameEvalFn.lean`, `Lemmas/NameEvalFn*.lean`, 4 000 lines)

The name-based evaluator extended with named and anonymous function literals at top level, calls, parameters by position (missing
ones null, the arity rule of the semantics), locals declared by `stel` in the body's own scopes, `antwoord`, recursion — again with no
resolver, no binder ids and no slots.  A function value is closure-free: parameter names and the source body, plus the number of
top-level declarations visible at the literal (lookup inside a body is LEXICAL: the activation's own scopes, then the top-level names
that preceded the literal, with their current values — never a scope of the caller).  `declaredFn` is the static rule with functions:
inside a body an identifier must be a parameter, a local declared before in an enclosing block of the body, or a top-level name
visible at the literal. -/

/-- the whole stage-4 source fragment (`SimF.SrcTop`: integers, booleans, operators, globals, blocks, `als`, `zolang`, `stop`/`volgende`,
    named and anonymous function literals at top level, calls, parameters, locals, `antwoord`, recursion): the resolver rejects the
    program — with a reference error, the only error it can give here — exactly when the static name rule does; otherwise the
    definitional semantics on the resolved tree equals the name-based semantics on the source tree for every fuel.  Outside `SrcTop`:
    builtin calls (so no output), function literals as arguments / inside blocks or bodies / `stel f = functie g() ..`, heap values -/
theorem C09_resolver_implements_name_scoping_with_functions (ast : Block) (hs : SimF.SrcTop ast) :
    (NameEvalFn.declaredFn ast = false ∧ resolveProgram ast = .error .reference) ∨
    (NameEvalFn.declaredFn ast = true ∧ ∃ r, resolveProgram ast = .ok r ∧ ∀ F, NameEvalFn.evalProgram F ast = Spec.evalProgram F r) :=
  NameEvalFn.c09_functions ast hs

/-- "a function body sees ... not the locals of whoever calls it", statically: `functie f() { x .. }  functie g(..) { stel x = ..; f() .. }`
    is rejected whatever else the two bodies contain -/
theorem C09_callers_locals_are_invisible (f g x : Text) (psg : List Text) (e : Expr) (restf restg rest : Block) (hfx : x ≠ f) :
    NameEvalFn.declaredFn (.cons (.expr (.func f [] (.cons (.expr (.ident x)) restf)))
      (.cons (.expr (.func g psg (.cons (.letS x e) (.cons (.expr (.call (.ident f) .nil)) restg)))) rest)) = false :=
  NameEvalFn.callers_local_undeclared f g x psg e restf restg rest hfx

/-- ... and dynamically, as a property of the SPECIFICATION (it restores the saved activation by construction): a call that returns leaves the caller's activation (its scopes of names and values) exactly as the
    evaluation of the callee expression left it; only top-level variables may have changed -/
theorem C09_call_keeps_callers_activation (f : Nat) (fe : Expr) (as : Exprs) (st st1 st2 st' : NameEvalFn.FState) (xs : List NameEvalFn.NVal)
    (fv v : NameEvalFn.NVal) (h1 : NameEvalFn.evalEs f as st = .val xs st1) (h2 : NameEvalFn.evalE f fe st1 = .val fv st2)
    (h : NameEvalFn.evalE (f + 1) (.call fe as) st = .val v st') : st'.locals = st2.locals ∧ st'.vis = st2.vis :=
  NameEvalFn.call_keeps_caller_activation f fe as st st1 st2 st' xs fv v h1 h2 h

/-! ### ... and with HEAP VALUES and BUILTINS (`Spec/NameEvalH.lean`, `Lemmas/NameEvalH*.lean`)

The whole function-free language (`SimH.SHB false`: stage 3 plus float, string and list literals, indexing and index assignment with
aliasing, all operators on all value kinds, the seven builtins INCLUDING `print`): the name-based evaluator shares the value operations
with the semantics (`sIndexGet/sIndexSet`, `binopCore`, `builtinCore`, `printLine` on the same store) — the point is independence from
the RESOLVER — and here the OUTPUT is a real observation. -/

/-- for every function-free program: the resolver rejects it exactly when the static name rule does (with a reference error, the only
    error it can give), and otherwise value, OUTPUT, error, out-of-fuel and unspecified all agree between the name-based semantics on the
    source tree and the definitional semantics on the resolved tree, for every fuel -/
theorem C09_resolver_implements_name_scoping_with_heap_values (ast : Block) (hs : SimH.SHB false ast) :
    ((resolveProgram ast = .error .reference ↔ NameEvalH.declared [[]] ast = false) ∧
     ((∃ r, resolveProgram ast = .ok r) ↔ NameEvalH.declared [[]] ast = true) ∧
     (∀ e, resolveProgram ast = .error e → e = .reference)) ∧
    (∀ r, resolveProgram ast = .ok r → ∀ F, NameEvalH.evalProgram F ast = Spec.evalProgram F r) :=
  ⟨NameEvalH.resolver_agrees_with_declared ast hs, fun r h F => NameEvalH.nameEval_eq_spec ast hs r h F⟩

/-- non-vacuity (TEST): two names of one list, shadowing by a text in a block, a text modified in place, `print` with placeholders,
    `lengte`: value 15 and the two printed lines on both sides, and the theorem applies for every fuel -/
theorem C09_name_scoping_with_heap_values_example :
    ∃ r, resolveProgram NameEvalH.demo = .ok r ∧ ∀ F, NameEvalH.evalProgram F NameEvalH.demo = Spec.evalProgram F r :=
  NameEvalH.demo_agree

/-! ### an ARBITRARY inner block (`Lemmas/NameEvalBlock*.lean`): the two clauses "an inner block may declare the same name without
disturbing the outer variable" and "a variable ceases to exist at the end of its block", for every block, every state, every way the
block ends (normally, `stop`, `volgende`, error), by induction on the fuel over all five evaluator functions -/

/-- after ANY block the scope stack has exactly the names it had before: what the block declared is gone, nothing else was added or
    removed, in any scope -/
theorem C09_block_leaves_no_names (f : Nat) (b : Block) (ρ ρ' : NameEval.NState) (h : NameEval.stOf (NameEval.evalS f (.block b) ρ) = some ρ') :
    ρ'.scopes.map (·.map Prod.fst) = ρ.scopes.map (·.map Prod.fst) :=
  NameEval.block_names f b ρ ρ' h

/-- a block that starts by declaring `x` never disturbs the outer `x`, whatever it does to its own `x` afterwards -/
theorem C09_block_declaring_x_keeps_outer_x (f : Nat) (x : Text) (e : Expr) (rest : Block) (ρ ρ' : NameEval.NState)
    (h : NameEval.stOf (NameEval.evalS f (.block (.cons (.letS x e) rest)) ρ) = some ρ') :
    NameEval.lookup ρ'.scopes x = NameEval.lookup ρ.scopes x :=
  NameEval.block_declares_first f x e rest ρ ρ' h

/-- a block changes only variables it assigns: a name that is not an assignment target anywhere in the block (declarations of the same
    name inside the block do not count) has the same value afterwards -/
theorem C09_block_changes_only_what_it_assigns (f : Nat) (b : Block) (x : Text) (ρ ρ' : NameEval.NState) (hx : x ∉ NameEval.assignsB b)
    (h : NameEval.stOf (NameEval.evalS f (.block b) ρ) = some ρ') : NameEval.lookup ρ'.scopes x = NameEval.lookup ρ.scopes x :=
  NameEval.block_unassigned f b x ρ ρ' hx h

end C09
end Nl
