-- DESIGN NOTE, NOT PART OF THE MACHINERY.
-- Feasibility prototype for C03 (see DESIGN.md section 2.4 and C03): the recursive mark phase of gc.rs
-- (as it will read after repair F21) over a heap with cycles. The `for v in array { mark(v) }` loop is a
-- fold, so fuel bounds only the recursion depth; `complete` shows that fuel > number of unmarked objects
-- suffices, that the object is marked, marks only grow, and every array marked by the call has all its
-- elements marked (hence the marked set is closed under edges and contains everything reachable from the
-- roots). The converse inclusion (only reachable objects get marked) is a 40-line induction on fuel that was
-- also checked in this round on a mutual variant of the model. Axioms: [propext, Classical.choice, Quot.sound].

namespace Mark2

abbrev Heap := Nat → Option (List Nat)

/-- mirror of gc.rs `mark` (after repair); the `for v in array { mark(v) }` loop is a fold, so fuel bounds
only the nesting depth of the recursion, which is at most the number of unmarked objects + 1. -/
def mark (h : Heap) : Nat → List Nat → Nat → List Nat
  | 0, M, _ => M
  | f+1, M, a =>
    if a ∈ M then M else
    match h a with
    | some es => es.foldl (mark h f) (a :: M)
    | none => a :: M

def unmarked (U M : List Nat) : Nat := (U.filter (fun x => !M.contains x)).length

theorem unmarked_cons_le (U M : List Nat) (a : Nat) : unmarked U (a :: M) ≤ unmarked U M := by
  unfold unmarked
  induction U with
  | nil => simp
  | cons u U ih =>
    simp only [List.filter_cons]
    by_cases h1 : u = a <;> by_cases h2 : M.contains u <;> simp_all <;> omega

theorem unmarked_cons_lt (U M : List Nat) (a : Nat) (ha : a ∈ U) (hM : a ∉ M) :
    unmarked U (a :: M) < unmarked U M := by
  unfold unmarked
  induction U with
  | nil => simp at ha
  | cons u U ih =>
    simp only [List.filter_cons]
    by_cases h1 : u = a
    · subst h1
      have := unmarked_cons_le U M u
      unfold unmarked at this
      simp_all; omega
    · have ha' : a ∈ U := by simpa [Ne.symm h1] using ha
      have := ih ha'
      by_cases h2 : M.contains u <;> simp_all <;> omega

theorem unmarked_mono (U M M' : List Nat) (h : ∀ x, x ∈ M → x ∈ M') : unmarked U M' ≤ unmarked U M := by
  unfold unmarked
  induction U with
  | nil => simp
  | cons u U ih =>
    simp only [List.filter_cons]
    by_cases h2 : M.contains u
    · have : M'.contains u := by simp at h2 ⊢; exact h _ h2
      simp_all
    · by_cases h3 : M'.contains u <;> simp_all <;> omega

def Closed (h : Heap) (U : List Nat) : Prop := ∀ a es e, a ∈ U → h a = some es → e ∈ es → e ∈ U

/-- what one call establishes: marks only grow, the object is marked, and every array marked by this call
has all its elements marked (so the final set is closed under edges) -/
structure Post (h : Heap) (M M' : List Nat) : Prop where
  mono : ∀ x, x ∈ M → x ∈ M'
  closed : ∀ x es e, x ∈ M' → x ∉ M → h x = some es → e ∈ es → e ∈ M'

theorem Post.refl (h : Heap) (M : List Nat) : Post h M M :=
  ⟨fun _ hx => hx, fun _ _ _ hx hn => absurd hx hn⟩

theorem Post.trans {h : Heap} {M1 M2 M3 : List Nat} (p12 : Post h M1 M2) (p23 : Post h M2 M3) :
    Post h M1 M3 := by
  refine ⟨fun x hx => p23.mono x (p12.mono x hx), ?_⟩
  intro x es e hx hn hh he
  by_cases h2 : x ∈ M2
  · exact p23.mono _ (p12.closed x es e h2 hn hh he)
  · exact p23.closed x es e hx h2 hh he

theorem complete (h : Heap) (U : List Nat) (hU : Closed h U) : ∀ f M a, a ∈ U → unmarked U M < f →
    a ∈ mark h f M a ∧ Post h M (mark h f M a) := by
  intro f
  induction f with
  | zero => intro M a _ hlt; omega
  | succ f ih =>
    intro M a ha hlt
    simp only [mark]
    by_cases hm : a ∈ M
    · rw [if_pos hm]; exact ⟨hm, Post.refl h M⟩
    · rw [if_neg hm]
      cases hh : h a with
      | none =>
        simp only
        refine ⟨List.mem_cons_self, fun x hx => List.mem_cons_of_mem _ hx, ?_⟩
        intro x es e hx hn hhx _
        cases List.mem_cons.1 hx with
        | inl h1 => rw [h1, hh] at hhx; cases hhx
        | inr h1 => exact absurd h1 hn
      | some es =>
        simp only
        have hlt' : unmarked U (a :: M) < f := by
          have := unmarked_cons_lt U M a ha hm; omega
        -- fold lemma: folding `mark h f` over elements of U keeps Post and marks each element
        have fold : ∀ (l : List Nat) (N : List Nat), (∀ e ∈ l, e ∈ U) → unmarked U N < f →
            (∀ e ∈ l, e ∈ l.foldl (mark h f) N) ∧ Post h N (l.foldl (mark h f) N) := by
          intro l
          induction l with
          | nil => intro N _ _; exact ⟨fun e he => (nomatch he), Post.refl h N⟩
          | cons e l ihl =>
            intro N hl hN
            simp only [List.foldl_cons]
            obtain ⟨he, pe⟩ := ih N e (hl e List.mem_cons_self) hN
            have hN' : unmarked U (mark h f N e) < f :=
              Nat.lt_of_le_of_lt (unmarked_mono U N _ pe.mono) hN
            obtain ⟨hall, pl⟩ := ihl (mark h f N e) (fun x hx => hl x (List.mem_cons_of_mem _ hx)) hN'
            refine ⟨?_, pe.trans pl⟩
            intro x hx
            cases List.mem_cons.1 hx with
            | inl h1 => exact h1 ▸ pl.mono _ he
            | inr h1 => exact hall x h1
        obtain ⟨hall, pf⟩ := fold es (a :: M) (fun e he => hU a es e ha hh he) hlt'
        refine ⟨pf.mono _ List.mem_cons_self, fun x hx => pf.mono _ (List.mem_cons_of_mem _ hx), ?_⟩
        intro x es' e hx hn hhx he
        by_cases hxa : x = a
        · subst hxa; rw [hh] at hhx; cases hhx; exact hall e he
        · exact pf.closed x es' e hx (by simp [hxa, hn]) hhx he

#print axioms complete
end Mark2
