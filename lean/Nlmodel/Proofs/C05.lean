/-
  C05 — every failure is an error value: no input crashes or hangs the interpreter.
  What the model can carry: lexing and the machine are total functions whose only non-value results
  are the five documented error kinds (plus `fault`, which C02 excludes for compiled programs);
  the fuel the front end supplies is sufficient, i.e. termination is not an artefact of the fuel.
  Native stack exhaustion, allocator failure and wall-clock behaviour are runtime phenomena the
  model cannot exhibit: they are covered by the out-of-process oracle only (partial).
-/
import Nlmodel.Proofs.Lemmas.Lexer
import Nlmodel.Model.Pipeline
import Nlmodel.Proofs.Lemmas.VMErrors
import Nlmodel.Proofs.Lemmas.ParseFuel
import Nlmodel.Proofs.Lemmas.NoFuel
import Nlmodel.Proofs.C02
namespace Nl
namespace C05

/-- every call of the tokenizer that yields a token consumes at least one character: the token
    stream of a text of n characters has at most n tokens and `lex` always terminates -/
theorem C05_lex_progress (cc : CharClass) (f : Nat) (cs : Text) (t : Token) (rest : Text)
    (h : nextToken cc f cs = some (t, rest)) : rest.length < cs.length :=
  nextToken_progress cc f cs t rest h

/-- the fuel `lex` supplies (`length + 1`) is sufficient: any larger fuel gives the same token
    stream, so the result is never truncated by the fuel -/
theorem C05_lex_total (cc : CharClass) (cs : Text) (n : Nat) (hn : cs.length < n) :
    lexF cc n cs = lex cc cs :=
  lexF_fuel cc n (cs.length + 1) cs hn (by omega)

/-- the token stream is never longer than the text -/
theorem C05_lex_length (cc : CharClass) (n : Nat) (cs : Text) : (lexF cc n cs).length ≤ cs.length := by
  induction n generalizing cs with
  | zero => simp [lexF]
  | succ n ih =>
    simp only [lexF]
    cases h : nextToken cc (n + 1) cs with
    | none => simp
    | some p =>
      obtain ⟨t, rest⟩ := p
      have h1 := nextToken_progress cc _ cs t rest h
      have h2 := ih rest
      simp only [List.length_cons]; omega

/-- the machine never gets stuck: one step is a total function with four disjoint kinds of result
    (this is the typing of `step`; stated so that the error kinds below have something to refer to) -/
theorem C05_step_cases (c : Code) (s : VM) :
    (∃ s', step c s = .next s') ∨ (∃ v s', step c s = .halt v s') ∨ (∃ e s', step c s = .error e s')
    ∨ (∃ site, step c s = .fault site) := by
  cases h : step c s with
  | next s' => exact Or.inl ⟨s', rfl⟩
  | halt v s' => exact Or.inr (Or.inl ⟨v, s', rfl⟩)
  | error e s' => exact Or.inr (Or.inr (Or.inl ⟨e, s', rfl⟩))
  | fault site => exact Or.inr (Or.inr (Or.inr ⟨site, rfl⟩))

/-- whatever the machine is executing, a step that fails fails with one of the documented run-time
    error kinds (type, index, argument); syntax and reference errors arise only in the front end -/
theorem C05_vm_error_kinds (c : Code) (s s' : VM) (e : Err) (h : step c s = .error e s') :
    e = .type ∨ e = .index ∨ e = .argument := by
  unfold step at h
  split at h
  · simp at h
  · exact exec_err _ _ _ _ _ h

/-- the same for a whole run, any budget -/
theorem C05_run_error_kinds (c : Code) (n : Nat) (s s' : VM) (e : Err) (h : runSteps c n s = .error e s') :
    e = .type ∨ e = .index ∨ e = .argument := by
  induction n generalizing s with
  | zero => simp [runSteps] at h
  | succ n ih =>
    simp only [runSteps] at h
    cases hs : step c s with
    | next s1 => rw [hs] at h; exact ih s1 h
    | halt v s1 => rw [hs] at h; simp at h
    | error e1 s1 => rw [hs] at h; simp only [Outcome.error.injEq] at h; obtain ⟨h1, _⟩ := h; subst h1; exact C05_vm_error_kinds c s s1 e1 hs
    | fault site => rw [hs] at h; simp at h

/-- THE PARSER'S FUEL IS SUFFICIENT: every function of the recursive-descent/Pratt parser model, called
    on `n` remaining tokens with fuel at least `3 n + c` (c ≤ 4, one constant per function), never
    runs out of fuel and consumes tokens on success (`PF.all`: mutual induction over all seven
    functions, every branch); `parse` supplies `4 n + 16`.  So the model-only error `FUEL` is never
    the answer of the front end: termination of the parser is not an artefact of the fuel, for every
    token list and every text. -/
theorem C05_parse_fuel_sufficient (ts : List Token) : parseTokens ts ≠ .error .fuel := PF.parseTokens_no_fuel ts

theorem C05_parse_text_never_fuel (cc : CharClass) (src : Text) : parse cc src ≠ .error .fuel := PF.parseTokens_no_fuel _

/-- each parser function on its own (the statement the induction proves) -/
theorem C05_parser_functions_total (f : Nat) : PF.All f := PF.all f

/-- THE WHOLE PIPELINE IS TOTAL WITHOUT THE FUEL SHOWING: for every text and every instruction budget,
    `eval` on the model answers with a value, a documented error (syntax, reference, type, index,
    argument) after some output, "budget exhausted", or a machine fault (excluded for compiled
    programs by C02) — never with the model-only `FUEL` error: tokenizer (`C05_lex_total`), parser
    (`C05_parse_fuel_sufficient`), resolver (`NF.rSs`: structural), code generator (only syntax errors
    at the operand-width limits) and machine (`C05_run_error_kinds`). -/
theorem C05_eval_never_fuel (cc : CharClass) (budget : Nat) (src : Text) (out : List Text) :
    evalText cc budget src ≠ .error .fuel out := by
  unfold evalText
  cases hp : parse cc src with
  | error e =>
    simp only
    intro h; injection h with h1 _
    exact C05_parse_text_never_fuel cc src (by rw [hp, h1])
  | ok ast =>
    simp only
    cases hc : compileProgram ast with
    | error e =>
      simp only
      intro h; injection h with h1 _
      subst h1
      unfold compileProgram at hc
      cases hr : resolveProgram ast with
      | error e' =>
        rw [hr] at hc; simp only at hc; injection hc with hc; subst hc
        unfold resolveProgram at hr
        split at hr
        · cases hr
        · rename_i e2 he; injection hr with hr; subst hr; exact NF.rSs _ _ _ he rfl
      | ok r =>
        rw [hr] at hc; simp only at hc
        unfold compileR at hc
        simp only at hc
        split at hc
        · cases hc
        · rename_i e2 he
          split at he
          · cases he
          · injection he with he; subst he; injection hc with hc; cases hc
    | ok q =>
      obtain ⟨r, bc⟩ := q
      simp only
      unfold VM.run
      cases hrun : runSteps bc.code budget (VM.start {} bc) with
      | value v s => simp
      | error e s =>
        simp only
        intro h; injection h with h1 _
        subst h1
        rcases C05_run_error_kinds _ _ _ _ _ hrun with h | h | h <;> cases h
      | budget s => simp
      | fault site => simp

/-- THE PROPERTY ON THE MODEL, IN FULL: for EVERY text and EVERY instruction budget, `eval` answers with a value,
    with one of the five documented error kinds (syntax, reference, type, index, argument), or with "the
    instruction budget is used up" (a loop or recursion the program itself spells out is still running) —
    never with a machine fault (`C02_eval_text_never_faults`: the compiler's output always passes the verified
    checker), never with the model-only `FUEL` (`C05_eval_never_fuel`), never with anything else. -/
theorem C05_eval_is_value_or_documented_error (cc : CharClass) (budget : Nat) (src : Text) :
    (∃ t out, evalText cc budget src = .value t out) ∨
    (∃ e out, evalText cc budget src = .error e out ∧
      (e = .syntax ∨ e = .reference ∨ e = .type ∨ e = .index ∨ e = .argument)) ∨
    evalText cc budget src = .budget := by
  cases h : evalText cc budget src with
  | value t out => exact Or.inl ⟨t, out, rfl⟩
  | error e out =>
    refine Or.inr (Or.inl ⟨e, out, rfl, ?_⟩)
    cases e with
    | fuel => exact absurd h (C05_eval_never_fuel cc budget src out)
    | «syntax» => simp
    | reference => simp
    | type => simp
    | index => simp
    | argument => simp
  | fault site => exact absurd h (C02.C02_eval_text_never_faults cc budget src site)
  | budget => exact Or.inr (Or.inr rfl)
  | unspec =>
    exfalso
    unfold evalText at h
    split at h
    · cases h
    · split at h
      · cases h
      · split at h <;> cases h

end C05
end Nl
