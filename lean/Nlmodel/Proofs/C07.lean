/-
  C07 — source text denotes one tree: precedence, associativity, layout independence.
-/
import Nlmodel.Model.Printer
namespace Nl
namespace C07

/-- the 13 binary operators -/
def isBin (op : Op) : Prop :=
  op = .add ∨ op = .sub ∨ op = .mul ∨ op = .div ∨ op = .mod ∨ op = .gt ∨ op = .gte ∨ op = .lt ∨ op = .lte
  ∨ op = .eq ∨ op = .neq ∨ op = .and ∨ op = .or

/-- the model parser's precedence table (tied exhaustively to parser.rs by the table
    correspondence) is the DOCUMENTED one, for every binary operator -/
theorem C07_table_is_documented (op : Op) (h : isBin op) :
    (opToken op).prec = docLevel op ∧ (opToken op).binop = some op := by
  rcases h with rfl | rfl | rfl | rfl | rfl | rfl | rfl | rfl | rfl | rfl | rfl | rfl | rfl <;> exact ⟨rfl, rfl⟩

/-- `* / %` above `+ -` above `< <= > >=` above `== !=` above `&& ||` above `=`;
    calls and indexing bind tighter than any operator -/
theorem C07_documented_order :
    docLevel .mul > docLevel .add ∧ docLevel .add > docLevel .lt ∧ docLevel .lt > docLevel .eq
    ∧ docLevel .eq > docLevel .and ∧ docLevel .and > Token.prec .assign
    ∧ Token.prec .lparen > docLevel .mul ∧ Token.prec .lbracket > docLevel .mul
    ∧ docLevel .mul = docLevel .div ∧ docLevel .div = docLevel .mod ∧ docLevel .add = docLevel .sub
    ∧ docLevel .lt = docLevel .lte ∧ docLevel .lt = docLevel .gt ∧ docLevel .lt = docLevel .gte
    ∧ docLevel .eq = docLevel .neq ∧ docLevel .and = docLevel .or := by decide

end C07
end Nl
