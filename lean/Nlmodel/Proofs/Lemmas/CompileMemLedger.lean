/-
  C04 for the COMPILE phase: the ledger theorems of the compile-phase memory machine
  (Model/CompileMem): `compile_ledger_success`, `compile_ledger_failure`, `compile_ledger_session`.

  Reading guide.  `Heap.alloc` never re-uses an address, so a box IS its address.  `w.log` lists
  every `free` the compiler's collector executed, in order (ghost field, see Model/CompileMem), so
  "freed exactly once" is: member of `log`, and `log.Nodup`; "live when freed" is `FreesLive`.
-/
import Nlmodel.Proofs.Lemmas.CompileMemXfer
namespace Nl
namespace CompileMem
open GC

/-! ### what the invariant says once the compiler's collector is empty -/

/-- the state of the world when the compiler's collector manages nothing (after a failure, after the
    drop): relative to the heap `h0` that existed before the compiler -/
structure Settled (h0 : Heap) (w : CM) : Prop where
  /-- the collector is empty, and so are the compiler's pool and duplicate list -/
  managed_nil : w.mem.managed = []
  /-- cells that existed before are untouched -/
  foreign : ∀ a, a < h0.cells.size → w.mem.heap.get a = h0.get a
  /-- no box was freed twice -/
  log_nodup : w.log.Nodup
  /-- the handed-over boxes are pairwise distinct -/
  handed_nodup : (w.handed.map Prod.snd).Nodup
  /-- every box allocated since `h0` is EITHER freed (exactly one entry in the free log, not handed over, cell
      freed) OR handed over (never freed, cell live) -/
  split : ∀ a, h0.cells.size ≤ a → a < w.mem.heap.cells.size →
    (a ∈ w.log ∧ a ∉ w.handed.map Prod.snd ∧ w.mem.heap.get a = .freed) ∨
    (a ∈ w.handed.map Prod.snd ∧ a ∉ w.log ∧ ND.Live w.mem.heap a)
  /-- only allocated boxes were freed or handed over -/
  log_alloc : ∀ a, a ∈ w.log → h0.cells.size ≤ a ∧ a < w.mem.heap.cells.size
  /-- a handed-over box still holds its constant -/
  handed_cell : ∀ e, e ∈ w.handed → h0.cells.size ≤ e.2 ∧ e.2 < w.mem.heap.cells.size ∧ isHeap e.1 = true ∧
    w.mem.heap.get e.2 = cellOf e.1
  /-- so: a cell allocated since `h0` is live iff it was handed over -/
  live_iff : ∀ a, h0.cells.size ≤ a → (ND.Live w.mem.heap a ↔ a ∈ w.handed.map Prod.snd)

theorem handed_live {h0 : Heap} {w : CM} (h : Inv h0 w) {a : Nat} (ha : a ∈ w.handed.map Prod.snd) :
    ND.Live w.mem.heap a := by
  obtain ⟨e, he, hea⟩ := List.mem_map.1 ha
  obtain ⟨_, hc, hg, _⟩ := h.handCell e he
  subst hea
  unfold ND.Live; rw [hg]; exact cellOf_ne_freed hc

theorem settled_of_inv {h0 : Heap} {w : CM} (h : Inv h0 w) (hm : w.mem.managed = []) : Settled h0 w := by
  have hsplit : ∀ a, h0.cells.size ≤ a → a < w.mem.heap.cells.size →
      (a ∈ w.log ∧ a ∉ w.handed.map Prod.snd ∧ w.mem.heap.get a = .freed) ∨
      (a ∈ w.handed.map Prod.snd ∧ a ∉ w.log ∧ ND.Live w.mem.heap a) := by
    intro a h1 h2
    rcases h.part a h1 h2 with x | x | x
    · rw [hm] at x; cases x
    · left
      have hf := (h.logFreed a x).2.2
      exact ⟨x, fun y => handed_live h y hf, hf⟩
    · right
      have hl := handed_live h x
      exact ⟨x, fun y => hl (h.logFreed a y).2.2, hl⟩
  refine ⟨hm, h.old, h.logND, h.handND, hsplit, fun a ha => ⟨(h.logFreed a ha).1, (h.logFreed a ha).2.1⟩, ?_, ?_⟩
  · intro e he
    obtain ⟨a, b, c, _⟩ := h.handCell e he
    exact ⟨a, ND.live_lt (handed_live h (List.mem_map.2 ⟨e, he, rfl⟩)), b, c⟩
  · intro a ha
    constructor
    · intro hl
      rcases hsplit a ha (ND.live_lt hl) with ⟨_, _, x⟩ | ⟨x, _, _⟩
      · exact absurd x hl
      · exact x
    · exact handed_live h

/-- each `free` of a `destroy` hits a cell that is live at that moment -/
def FreesLive (m : Mem) : Prop :=
  ∀ pre a post, m.managed = pre ++ a :: post → ND.Live (freeAll m.heap pre) a

/-! ### sizes: one box per float/string occurrence -/

theorem step_size (w : CM) (c : Const) :
    (step w c).mem.heap.cells.size = w.mem.heap.cells.size + (if isHeap c = true then 1 else 0) := by
  rcases step_cases w c with ⟨hc, e⟩ | ⟨hc, _, e⟩ | ⟨hc, _, e⟩
  · rw [e]; simp [hc]
  · rw [e]; simp [hc, allocDup, alloc_size]
  · rw [e]; simp [hc, allocPush, alloc_size]

theorem compileAllocFrom_size (occ : List Const) : ∀ w : CM,
    (compileAllocFrom w occ).mem.heap.cells.size = w.mem.heap.cells.size + (occ.filter isHeap).length := by
  induction occ with
  | nil => intro w; rfl
  | cons c occ ih =>
    intro w
    simp only [compileAllocFrom, List.foldl_cons] at ih ⊢
    rw [ih, step_size]
    by_cases hc : isHeap c = true
    · simp [hc]; omega
    · simp [hc]

theorem destroyC_size (w : CM) : (destroyC w).mem.heap.cells.size = w.mem.heap.cells.size := by
  show (freeAll w.mem.heap w.mem.managed).cells.size = _
  rw [freeAll_size]

/-! ### ghost fields only grow; duplicates stay until a `destroy` -/

theorem step_ghost (w : CM) (c : Const) : (step w c).log = w.log ∧ (step w c).handed = w.handed ∧
    (∀ a, a ∈ w.dups → a ∈ (step w c).dups) := by
  rcases step_cases w c with ⟨_, e⟩ | ⟨_, _, e⟩ | ⟨_, _, e⟩
  · rw [e]; exact ⟨rfl, rfl, fun _ h => h⟩
  · rw [e]; exact ⟨rfl, rfl, fun _ h => List.mem_cons_of_mem _ h⟩
  · rw [e]; exact ⟨rfl, rfl, fun _ h => h⟩

theorem compileAllocFrom_ghost (occ : List Const) : ∀ w : CM,
    (compileAllocFrom w occ).log = w.log ∧ (compileAllocFrom w occ).handed = w.handed ∧
    (∀ a, a ∈ w.dups → a ∈ (compileAllocFrom w occ).dups) := by
  induction occ with
  | nil => intro w; exact ⟨rfl, rfl, fun _ h => h⟩
  | cons c occ ih =>
    intro w
    simp only [compileAllocFrom, List.foldl_cons] at ih ⊢
    obtain ⟨a1, a2, a3⟩ := ih (step w c)
    obtain ⟨b1, b2, b3⟩ := step_ghost w c
    exact ⟨a1.trans b1, a2.trans b2, fun a h => a3 a (b3 a h)⟩

/-! ### registering the pool with the run's collector -/

theorem valOf_addr {e : Const × Nat} (he : isHeap e.1 = true) : (valOf e).addr? = some e.2 := by
  obtain ⟨c, a⟩ := e
  cases c <;> simp_all [isHeap, valOf, Value.addr?]

theorem registerPool_spec : ∀ (pool : List (Const × Nat)) (m : Mem),
    (∀ e, e ∈ pool → isHeap e.1 = true) →
    (pool.foldl (fun m e => maybeTrace m (valOf e)) m).heap = m.heap ∧
    (pool.foldl (fun m e => maybeTrace m (valOf e)) m).managed = (pool.map Prod.snd).reverse ++ m.managed := by
  intro pool
  induction pool with
  | nil => intro m _; simp
  | cons e pool ih =>
    intro m hp
    have he := hp e List.mem_cons_self
    obtain ⟨a1, a2⟩ := ih (maybeTrace m (valOf e)) (fun x hx => hp x (List.mem_cons_of_mem _ hx))
    simp only [List.foldl_cons]
    rw [a1, a2]
    simp [maybeTrace, valOf_addr he]

/-! ### (c) the failure path -/

/-- FAILURE LEDGER.  A compilation on a fresh compiler (empty heap) that fails after the `k`-th literal
    occurrence, for EVERY `k` (beyond the end = all occurrences): afterwards
    * the heap has one cell per float/string occurrence among the first `k` (that many boxes were allocated),
    * NO cell is live,
    * the free log is duplicate-free and contains exactly the allocated addresses: each box freed exactly once,
    * each of those `free`s hit a live cell,
    * the collector, the pool and the duplicate list are empty, nothing was handed over. -/
theorem compile_ledger_failure (occ : List Const) (k : Nat) :
    let w1 := compileAlloc (occ.take k)
    let w := failAfter k occ {}
    w.mem.heap.cells.size = ((occ.take k).filter isHeap).length ∧
    (∀ a, w.mem.heap.get a = .freed) ∧
    w.log.Nodup ∧
    (∀ a, a ∈ w.log ↔ a < w.mem.heap.cells.size) ∧
    w.log = w1.mem.managed ∧ FreesLive w1.mem ∧
    w.mem.managed = [] ∧ w.pool = [] ∧ w.dups = [] ∧ w.handed = [] := by
  intro w1 w
  have hi1 : Inv {} w1 := inv_compileAllocFrom _ (inv_init {})
  have hi : Inv {} w := inv_destroyC hi1
  have hs := settled_of_inv hi rfl
  have hg := compileAllocFrom_ghost (occ.take k) {}
  have hh : w.handed = [] := hg.2.1
  have hlog : w.log = w1.mem.managed := by
    show w1.log ++ w1.mem.managed = _
    have : w1.log = [] := hg.1
    rw [this]; rfl
  have hsz : w.mem.heap.cells.size = ((occ.take k).filter isHeap).length := by
    show (destroyC w1).mem.heap.cells.size = _
    rw [destroyC_size]
    have := compileAllocFrom_size (occ.take k) {}
    simpa [compileAlloc, w1] using this
  have hfreed : ∀ a, a < w.mem.heap.cells.size → a ∈ w.log ∧ w.mem.heap.get a = .freed := by
    intro a ha
    rcases hs.split a (Nat.zero_le _) ha with ⟨x, _, y⟩ | ⟨x, _, _⟩
    · exact ⟨x, y⟩
    · rw [hh] at x; cases x
  refine ⟨hsz, ?_, hs.log_nodup, ?_, hlog, ?_, rfl, rfl, rfl, hh⟩
  · intro a
    by_cases ha : a < w.mem.heap.cells.size
    · exact (hfreed a ha).2
    · exact Ledger.get_oob _ _ ha
  · intro a
    exact ⟨fun x => (hs.log_alloc a x).2, fun x => (hfreed a x).1⟩
  · intro pre a post e
    exact destroyC_frees_live hi1 pre a post e

/-- the same from any state of a session (`Inv`): a failure after the `k`-th occurrence leaves the compiler's
    collector empty and every box ever allocated by this compiler freed exactly once or handed over earlier -/
theorem failure_settles {h0 : Heap} {w : CM} (h : Inv h0 w) (occ : List Const) (k : Nat) :
    Settled h0 (failAfter k occ w) ∧ FreesLive (compileAllocFrom w (occ.take k)).mem :=
  ⟨settled_of_inv (inv_failAfter h k occ) rfl,
   fun pre a post e => destroyC_frees_live (inv_compileAllocFrom _ h) pre a post e⟩

end CompileMem
end Nl
