/- The certificate of compiled code: every emitted instruction annotated with (owner, operand height). -/
import Nlmodel.Model.Compiler
import Nlmodel.Model.Verifier
namespace Nl
namespace CV
open Verifier

/-- an instruction with its certificate entry (owner, height) -/
abbrev AI := Instr × Nat × Nat

/-- byte size of an annotated list -/
def asize : List AI → Nat
  | [] => 0
  | x :: r => x.1.size + asize r

def popIf (v : Bool) (o h : Nat) : List AI := if v then [] else [(.pop, o, h)]

def stk (s : RStmt) : TailKind := (RBlock.cons s .nil).tailKind

/-- value position (annotated): the block without its final `Pop`, or followed by `Null` -/
def valWrap (b : RBlock) (L : List AI) (o h : Nat) : List AI :=
  match b with
  | .nil => [(.null, o, h)]
  | _ => match b.tailKind with
    | .value => L
    | _ => L ++ [(.null, o, h)]

/-- function body and epilogue (annotated); `L` is the body without its final `Pop` -/
def fnWrap (b : RBlock) (L : List AI) (e : Nat) : List AI :=
  match b with
  | .nil => [(.null, e, 0), (.ret, e, 1)]
  | _ => match b.tailKind with
    | .value => L ++ [(.retv, e, 1)]
    | .returns => L
    | .other => L ++ [(.ret, e, 0)]

mutual
def annE : RExpr → Nat → LoopCtx → List Const → Nat → Nat → List AI
  | .int v, _, _, cs, o, h => [(.const (addConst cs (.int v)).2, o, h)]
  | .float x, _, _, cs, o, h => [(.const (addConst cs (.float x)).2, o, h)]
  | .str s, _, _, cs, o, h => [(.const (addConst cs (.str s)).2, o, h)]
  | .bool b, _, _, _, o, h => [(if b then .true_ else .false_, o, h)]
  | .var r, _, _, _, o, h => [(getVar r.slot, o, h)]
  | .not r, pos, lp, cs, o, h => annE r pos lp cs o h ++ [(.not, o, h + 1)]
  | .neg r, pos, lp, cs, o, h => annE r pos lp cs o h ++ [(.negate, o, h + 1)]
  | .assignVar r e, pos, lp, cs, o, h =>
    annE e pos lp cs o h ++ [(setVar r.slot, o, h + 1), (getVar r.slot, o, h)]
  | .assignIndex l i v, pos, lp, cs, o, h =>
    let cs1 := (emitE l pos lp cs).2
    let cs2 := (emitE i (pos + sizeE l) lp cs1).2
    annE l pos lp cs o h ++ annE i (pos + sizeE l) lp cs1 o (h + 1)
      ++ annE v (pos + sizeE l + sizeE i) lp cs2 o (h + 2) ++ [(.indexSet, o, h + 3)]
  | .infix l op r, pos, lp, cs, o, h =>
    match fusedCandidate l op r with
    | some (op', k, v) => [(.fused op' k (addConst cs (.int v)).2, o, h)]
    | none =>
      let cs1 := (emitE l pos lp cs).2
      annE l pos lp cs o h ++ annE r (pos + sizeE l) lp cs1 o (h + 1) ++ [(.bin op, o, h + 2)]
  | .ifE c t e, pos, lp, cs, o, h =>
    let p1 := pos + sizeE c
    let p2 := p1 + 3 + sizeBV t
    let pend := p2 + 3 + sizeO e
    let cs1 := (emitE c pos lp cs).2
    let cs2 := (emitB t (p1 + 3) lp cs1).2
    annE c pos lp cs o h ++ [(.jumpIfFalse (p2 + 3), o, h + 1)]
      ++ valWrap t (annB true t (p1 + 3) lp cs1 o h) o h ++ [(.jump pend, o, h + 1)]
      ++ annO e (p2 + 3) lp cs2 o h
  | .whileE c b, pos, _, cs, o, h =>
    let l0 := pos + 1
    let p1 := l0 + sizeE c
    let p2 := p1 + 4 + sizeBV b
    let pend := p2 + 3
    let lp' : LoopCtx := some (l0, pend)
    let cs1 := (emitE c l0 lp' cs).2
    [(.null, o, h)] ++ annE c l0 lp' cs o (h + 1) ++ [(.jumpIfFalse pend, o, h + 2), (.pop, o, h + 1)]
      ++ valWrap b (annB true b (p1 + 4) lp' cs1 o h) o h ++ [(.jump l0, o, h + 1)]
  | .func _ self _ nl body, pos, _, cs, o, h =>
    let entry := pos + 3
    let after := entry + sizeBF body
    let cs1 := (emitB body entry none cs).2
    let k := (addConst cs1 (.fn entry nl)).2
    [(.jump after, o, h)] ++ fnWrap body (annB true body entry none cs entry 0) entry ++ [(.const k, o, h)]
      ++ (match self with
          | some r => [(setVar r.slot, o, h + 1), (Instr.const k, o, h)]
          | none => [])
  | .call f as, pos, lp, cs, o, h =>
    let cs1 := (emitEs as pos lp cs).2
    annEs as pos lp cs o h ++ annE f (pos + sizeEs as) lp cs1 o (h + as.length)
      ++ [(.call as.length, o, h + as.length + 1)]
  | .callBuiltin b as, pos, lp, cs, o, h =>
    annEs as pos lp cs o h ++ [(.callBuiltin b.id as.length, o, h + as.length)]
  | .arr vs, pos, lp, cs, o, h =>
    annEs vs pos lp cs o h ++ [(.array vs.length, o, h + vs.length)]
  | .index l i, pos, lp, cs, o, h =>
    let cs1 := (emitE l pos lp cs).2
    annE l pos lp cs o h ++ annE i (pos + sizeE l) lp cs1 o (h + 1) ++ [(.indexGet, o, h + 2)]

def annEs : RExprs → Nat → LoopCtx → List Const → Nat → Nat → List AI
  | .nil, _, _, _, _, _ => []
  | .cons e es, pos, lp, cs, o, h =>
    annE e pos lp cs o h ++ annEs es (pos + sizeE e) lp (emitE e pos lp cs).2 o (h + 1)

/-- `v`: value mode (the final `Pop` of a value-tailed statement is left out) -/
def annS : Bool → RStmt → Nat → LoopCtx → List Const → Nat → Nat → List AI
  | v, .expr e, pos, lp, cs, o, h => annE e pos lp cs o h ++ popIf v o (h + 1)
  | _, .letS r e, pos, lp, cs, o, h => annE e pos lp cs o h ++ [(setVar r.slot, o, h + 1)]
  | _, .ret e, pos, lp, cs, o, h => annE e pos lp cs o h ++ [(.retv, o, h + 1)]
  | v, .block b, pos, lp, cs, o, h => annB v b pos lp cs o h
  | _, .brk, _, lp, _, o, h => [(.null, o, h), (.jump (match lp with | some (_, e) => e | none => 0), o, h + 1)]
  | _, .cont, _, lp, _, o, h => [(.null, o, h), (.jump (match lp with | some (s, _) => s | none => 0), o, h + 1)]

def annB : Bool → RBlock → Nat → LoopCtx → List Const → Nat → Nat → List AI
  | _, .nil, _, _, _, _, _ => []
  | v, .cons s b, pos, lp, cs, o, h =>
    annS (v && b.isEmpty) s pos lp cs o h ++ annB v b (pos + sizeS s) lp (emitS s pos lp cs).2 o h

def annO : ROptBlock → Nat → LoopCtx → List Const → Nat → Nat → List AI
  | .none, _, _, _, o, h => [(.null, o, h)]
  | .some b, pos, lp, cs, o, h => valWrap b (annB true b pos lp cs o h) o h
end

/-- the certificate agrees with the annotations of the code at `pos` -/
def Seg (c : Cert) : Nat → List AI → Prop
  | _, [] => True
  | p, x :: r => c.get p = some (x.2.1, x.2.2) ∧ Seg c (p + x.1.size) r

/-- every instruction of the code at `pos` satisfies its rule -/
def Chk (c : Cert) (fns : List (Nat × Nat)) (n : Nat) : Nat → List AI → Prop
  | _, [] => True
  | p, x :: r => checkInstr c fns n (p + x.1.size) x.1 x.2.1 x.2.2 = true ∧ Chk c fns n (p + x.1.size) r

/-- certificate cells of one instruction -/
def cell (x : AI) : List (Option (Nat × Nat)) := some (x.2.1, x.2.2) :: List.replicate (x.1.size - 1) none

def certOf (L : List AI) : Cert := { ent := (L.flatMap cell).toArray }

end CV
end Nl
