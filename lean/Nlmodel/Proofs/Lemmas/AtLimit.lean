/- The machine's stack/frame limit: the only way in which the machine may deviate from the definitional
   semantics in the simulation theorems with calls.  `AtLimit C s` says that `s` stands at a `Call` instruction
   whose limit check fails (and nothing else), `HitsLimit` / `TextHitsLimit` say that the run of a program / of
   a text reaches such a state. -/
import Nlmodel.Proofs.Lemmas.SimBase
namespace Nl
open Sim

/-- the machine stands at a `Call argc` instruction, the callee on top of the stack is a function value
    `fn fip nl` that accepts `argc` arguments, and the limit check of `Call` fails: the stack would grow beyond
    `STACK_LIMIT` or the number of frames is at the limit -/
def AtLimit (C : Code) (s : VM) : Prop :=
  ∃ argc fip nl st, decodeAt C s.ip = some (.call argc) ∧ pop1 s.stack = some (.fn fip nl, st) ∧ argc ≤ nl ∧
    (st.size + nl > STACK_LIMIT ∨ s.depth + 1 ≥ STACK_LIMIT)

/-- at the limit the step is the index error of `Call` -/
theorem AtLimit.step {C : Code} {s : VM} (h : AtLimit C s) : ∃ s2, step C s = .error .index s2 := by
  obtain ⟨argc, fip, nl, st, hd, hp, hle, hlim⟩ := h
  have hng : ¬ argc > nl := by omega
  have hb : (decide (st.size + nl > STACK_LIMIT) || decide (s.depth + 1 ≥ STACK_LIMIT)) = true := by
    rcases hlim with h | h <;> simp [h]
  refine ⟨{ { s with ip := s.ip + (Instr.call argc).size } with stack := st }, ?_⟩
  simp only [Nl.step, hd, exec, hp, hng, ↓reduceIte, hb]

/-- conversely: an index error of a `Call` whose callee is a function value accepting the arguments IS the limit
    (the instruction has no other way to fail with an index error) -/
theorem AtLimit.of_call_error {C : Code} {s s2 : VM} {argc fip nl : Nat} {st : Array Value}
    (hd : decodeAt C s.ip = some (.call argc)) (hp : pop1 s.stack = some (.fn fip nl, st)) (hle : argc ≤ nl)
    (hs : Nl.step C s = Step.error .index s2) : AtLimit C s := by
  refine ⟨argc, fip, nl, st, hd, hp, hle, ?_⟩
  have hng : ¬ argc > nl := by omega
  by_cases hb : (decide (st.size + nl > STACK_LIMIT) || decide (s.depth + 1 ≥ STACK_LIMIT)) = true
  · simpa using hb
  · exfalso
    simp only [Nl.step, hd, exec, hp, hng, ↓reduceIte, hb] at hs
    by_cases h3 : st.size < argc <;> simp only [h3, ↓reduceIte] at hs <;> cases hs

/-- the run of the compiled program on a fresh machine stops at the stack/frame limit of a `Call` -/
def HitsLimit (bc : Bytecode) : Prop := ∃ n s1, execN bc.code n (VM.start {} bc) = some s1 ∧ AtLimit bc.code s1

/-- `eval` of the text stops at the stack/frame limit of a `Call` -/
def TextHitsLimit (cc : CharClass) (src : Text) : Prop :=
  ∃ ast r bc, parse cc src = .ok ast ∧ compileProgram ast = .ok (r, bc) ∧ HitsLimit bc

/-- the observable fact: every long enough run ends with the index error -/
theorem HitsLimit.observable {bc : Bytecode} (h : HitsLimit bc) :
    ∃ n s', ∀ k, runSteps bc.code (n + k) (VM.start {} bc) = .error .index s' := by
  obtain ⟨n, s1, hn, hl⟩ := h
  obtain ⟨s2, hs⟩ := hl.step
  exact ⟨n + 1, s2, fun k => run_error bc.code n _ s1 .index s2 hn hs k⟩

/-- the observable fact at text level (this was the left disjunct of the text-level theorems before) -/
theorem TextHitsLimit.observable {cc : CharClass} {src : Text} (h : TextHitsLimit cc src) :
    ∃ n out, ∀ k, evalText cc (n + k) src = .error .index out := by
  obtain ⟨ast, r, bc, hp, hc, hl⟩ := h
  obtain ⟨n, s', hn⟩ := hl.observable
  refine ⟨n, s'.out, fun k => ?_⟩
  simp only [evalText, hp, hc, VM.run, hn k]
  rfl

theorem TextHitsLimit.of {cc : CharClass} {src : Text} {ast : Block} {r : RBlock} {bc : Bytecode}
    (hp : parse cc src = .ok ast) (hc : compileProgram ast = .ok (r, bc)) (h : HitsLimit bc) : TextHitsLimit cc src :=
  ⟨ast, r, bc, hp, hc, h⟩

/-- with the parse and the compilation known, the limit of the text is the limit of that program -/
theorem TextHitsLimit.program {cc : CharClass} {src : Text} {ast : Block} {r : RBlock} {bc : Bytecode}
    (hp : parse cc src = .ok ast) (hc : compileProgram ast = .ok (r, bc)) (h : TextHitsLimit cc src) : HitsLimit bc := by
  obtain ⟨ast', r', bc', hp', hc', hl⟩ := h
  rw [hp] at hp'; injection hp' with e; subst e
  rw [hc] at hc'; injection hc' with e; injection e with e1 e2; subst e2
  exact hl

end Nl
