#!/usr/bin/env python3
"""Regenerates MANIFEST.json from the table below (kept in one place so it is always valid)."""
import json, os, subprocess
V = os.path.dirname(os.path.dirname(os.path.abspath(__file__)))

import sys, importlib
sys.path.insert(0, V)
CLAIMED = {}
for i in range(1, 18):
    pid = "C%02d" % i
    if os.path.exists(os.path.join(V, "checklib", "props", pid + ".py")):
        m = importlib.import_module("checklib.props." + pid)
        if hasattr(m, "LEVEL_TEXT"):
            CLAIMED[pid] = dict(text=m.LEVEL_TEXT, note=m.LEVEL_NOTE, technique=m.TECHNIQUE)

ALL = ["C%02d" % i for i in range(1, 18)]

def main():
    hooks_commit = subprocess.run(["git", "-C", "/repo", "log", "--format=%H", "--grep=^verif hooks"], stdout=subprocess.PIPE, text=True).stdout.split()
    m = dict(
        version=1,
        setup_cmd="./setup.sh",
        hooks=dict(guard="verif (cargo feature)", enable="the harness crate /verif/harness depends on /repo with features=[\"verif\"]; checks build it with cargo build --offline --release",
                   baseline_off_cmd="cd /repo && cargo test --workspace --no-fail-fast --offline",
                   source_commits=hooks_commit, add_only=True),
        engines=[dict(name="lean-model", path="lean", serves_properties=sorted(CLAIMED), kind_free_text="Lean 4 model, theorems, and protocol driver (nldriver)"),
                 dict(name="harness", path="harness", serves_properties=sorted(CLAIMED), kind_free_text="Rust correspondence harness running the real code in-process"),
                 dict(name="check", path="check", serves_properties=sorted(CLAIMED), kind_free_text="Python orchestrator: generators, diffing, verdicts, evidence")],
        checks=[], not_applicable=[],
        notes="See DESIGN.md. known_findings.json lists repaired (fixed:) and open findings.")
    for pid in ALL:
        if pid in CLAIMED:
            c = CLAIMED[pid]
            m["checks"].append(dict(
                property_id=pid, quick_cmd="./check %s --tier quick" % pid, thorough_cmd="./check %s --tier thorough" % pid,
                evidence_file="evidence/%s.json" % pid, replay_cmd_template="./check %s --replay {path}" % pid,
                engine="lean-model", level_claimed=dict(category="proof", text=c["text"], design_ref="DESIGN.md §5 " + pid),
                level_note=c["note"], technique=c["technique"]))
        else:
            m["not_applicable"].append(dict(property_id=pid, reason="not yet claimed: its check is under construction in this framework (to be claimed in a later commit)"))
    json.dump(m, open(os.path.join(V, "MANIFEST.json"), "w"), indent=1)
    print("MANIFEST.json written:", len(m["checks"]), "claimed")

if __name__ == "__main__":
    main()
