/- Stage 6, divergence preservation at program level: the top-level sequence, the depth bound of the function table of
   a program, and the end-to-end statement: a program whose definitional evaluation never ends does not end on the machine
   (with a value, an ordinary error or a fault) either — the run is over budget for every budget, or stops at the machine's
   stack/frame limit. -/
import Nlmodel.Proofs.Lemmas.Div6Stmt
import Nlmodel.Proofs.Lemmas.Sim6Check
namespace Nl
namespace Sim6
open Spec Sim
open SimH (AMap isStrCell isArrCell Grow PoolH MemOK sameKind LitF LitPool)
open SimF (FT FnInfo FTInj paramScope bigScope FDef lookupD)

theorem fdef_depth {s : RStmt} {fid b k : Nat} {ps : List Nat} {nlf : Nat} {body : RBlock} (hd : FDef s fid b k ps nlf body) :
    dS s = dB body + 2 := by
  cases hd <;> simp [dS, dE]

/-- a function definition statement needs two units of fuel, not more -/
theorem fdef_fuel {s : RStmt} {fid b k : Nat} {ps : List Nat} {nlf : Nat} {body : RBlock} (hd : FDef s fid b k ps nlf body)
    {F : Nat} {st : SState} (h : evalS F s st = .fuel) : F < 2 := by
  cases F with
  | zero => omega
  | succ F =>
    cases F with
    | zero => omega
    | succ F => cases hd <;> simp [evalS, evalE] at h

/-- every function a program defines is (textually) part of it: its body is less deep than the program -/
theorem ztop_depth {Γ : Gam} {b : RBlock} {pos : Nat} {cs : List Const} {Γ' : Gam} {D : List (Nat × FnInfo)}
    (hy : ZTop Γ b pos cs Γ' D) : ∀ q ∈ D, dB q.2.body ≤ dB b := by
  induction hy with
  | nil => intro q hq; cases hq
  | stmt Γ Γ1 Γ2 s rest pos cs D hs _ ih =>
    intro q hq
    have := ih q hq
    simp only [dB]; omega
  | fdef Γ Γ2 s rest pos cs D fid b k ps nlf body Γb Λb hd hf hyb _ _ _ ih =>
    intro q hq
    rcases List.mem_cons.mp hq with rfl | hq
    · have := fdef_depth hd
      simp only [dB]; omega
    · have := ih q hq
      simp only [dB]; omega

theorem KB.at {W : World} {K : Nat} (h : KB W K) (Γ : Gam) : KB (W.at Γ) K := fun fid info hft => h fid info hft

theorem dtop6 {W : World} {K : Nat} (hW : WOK6 W) (hK : KB W K) {Γ : Gam} {b : RBlock} {pos : Nat} {cs : List Const} {Γ' : Gam}
    {D : List (Nat × FnInfo)} (hy : ZTop Γ b pos cs Γ' D) : (∀ q ∈ D, W.ft q.1 = some q.2) → GamOK Γ →
    ∀ (F : Nat) (μ : AMap) (st : SState) (g : Array Value) (l : Value) (m : Mem) (out : List Text),
    Inv6 (W.at Γ) Γ [] 0 ⟨μ, st, pos, #[], #[], g, l, m, out⟩ → TI.WT (mk6 W.s0 pos #[] #[] #[] g l [] m out) →
    CodeAt W.C pos (emitB b pos none cs).1 → Ext (emitB b pos none cs).2 W.CS →
    evalB F b st = .fuel → DivG W.C (mk6 W.s0 pos #[] #[] #[] g l [] m out) (hb K F (dB b)) := by
  induction hy with
  | nil Γ pos cs =>
    intro _ _ F μ st g l m out hinv _ _ _ hfuel
    cases F with
    | zero => rw [hb_zero (dB_pos _)]; exact DivG.zero _ _
    | succ F => simp [evalB] at hfuel
  | stmt Γ Γ1 Γ2 s rest pos cs D hs _ ih =>
    intro hD hok F μ st g l m out hinv hwt hcode hext hfuel
    cases F with
    | zero => rw [hb_zero (dB_pos _)]; exact DivG.zero _ _
    | succ F =>
      simp only [emitB] at hcode hext
      obtain ⟨hc1, hc2⟩ := hcode.append
      rw [emitS_size] at hc2
      have hext1 : Ext (emitS s pos none cs).2 W.CS := (emitB_ext rest _ _ _).trans hext
      have hsc : Sc6 (W.at Γ) false Γ [] [] :=
        ⟨by simpa [bigScope] using hok, by simp [GamOK], by simp [bigScope], by intro p hp; simpa [bigScope, World.at] using hp⟩
      have h1 := (pall6 (hW.at Γ) F).s 0 false Γ [] [] false s Γ1 [] hs ⟨μ, st, pos, #[], #[], g, l, m, out⟩ none cs #[] [] hsc
        (by simpa [bigScope] using hinv) hwt hc1 hext1
      obtain ⟨hok1, _, ⟨d, hd⟩, _⟩ := zs_scope hs hok (by simp [GamOK])
      rw [evalB_cons] at hfuel
      refine DivG.bind (W := W.at Γ) (c := ⟨μ, st, pos, #[], #[], g, l, m, out⟩) (below := #[]) (fr := []) hfuel h1 ?_ ?_
      · intro hf
        exact ((dall6 (hW.at Γ) (hK.at Γ) F).s 0 false Γ [] [] false s Γ1 [] hs ⟨μ, st, pos, #[], #[], g, l, m, out⟩ none cs #[] [] hsc
          (by simpa [bigScope] using hinv) hwt hc1 hext1 hf).mono (hb_child (by simp only [dB]; omega))
      rintro u st1 - ⟨μ1, m1, locs1, g1, l1, out1, n, hn, hinv1, _⟩ hfuel2
      have hl0 : locs1 = #[] := by
        have := hinv1.size; exact Array.eq_empty_of_size_eq_zero this
      subst hl0
      simp only [bigScope, Bool.false_eq_true, ↓reduceIte] at hinv1
      have hinv1' : Inv6 (W.at Γ1) Γ1 [] 0 ⟨μ1, st1, pos + sizeS s, #[], #[], g1, l1, m1, out1⟩ :=
        Inv6.grow (W := W.at Γ) (by intro p hp; rw [hd]; exact List.mem_append_right _ hp) hinv1
      have hwt1 := wt_execN n _ _ hwt hn
      exact DivG.after hn ((ih hD hok1 F μ1 st1 g1 l1 m1 out1 hinv1' hwt1 hc2 hext hfuel2).mono (hb_child (by simp only [dB]; omega)))
  | fdef Γ Γ2 s rest pos cs D fid b k ps nlf body Γb Λb hd hf _ _ _ _ ih =>
    intro hD hok F μ st g l m out hinv hwt hcode hext hfuel
    cases F with
    | zero => rw [hb_zero (dB_pos _)]; exact DivG.zero _ _
    | succ F =>
      simp only [emitB] at hcode hext
      obtain ⟨hc1, hc2⟩ := hcode.append
      rw [emitS_size] at hc2
      have hext1 : Ext (emitS s pos none cs).2 W.CS := (emitB_ext rest _ _ _).trans hext
      have hft := hD _ List.mem_cons_self
      have h1 := fdef_step6 hW hd hf hok hft hinv hc1 hext1 F
      rw [evalB_cons] at hfuel
      cases hr : evalS F s st with
      | val u st1 =>
        rw [hr] at h1 hfuel
        simp only [bindR] at hfuel
        obtain ⟨g1, l1, n, hn, hinv1⟩ := h1
        have hwt1 := wt_execN n _ _ hwt hn
        exact DivG.after hn ((ih (fun q hq => hD q (List.mem_cons_of_mem _ hq)) (gamOK_cons hok b k hf) F μ st1 g1 l1 m out hinv1 hwt1 hc2 hext
          hfuel).mono (hb_child (by simp only [dB]; omega)))
      | fuel =>
        have hF := fdef_fuel hd hr
        have hds := fdef_depth hd
        have hpos := dB_pos body
        rw [hb_lt (by simp only [dB]; omega)]; exact DivG.zero _ _
      | err er st1 => rw [hr] at h1; exact h1.elim
      | unspec _ => rw [hr] at h1; exact h1.elim
      | brk _ => rw [hr] at h1; exact h1.elim
      | cont _ => rw [hr] at h1; exact h1.elim
      | ret _ _ => rw [hr] at h1; exact h1.elim

/-- the machine side of "the program does not end": over budget for the budget `n`, or stopped at the stack/frame limit
    (the second disjunct is literally the one of the forward theorems `top_program6`, `program6`) -/
def NoEnd (bc : Bytecode) (n : Nat) : Prop :=
  (∃ s', runSteps bc.code n (VM.start {} bc) = .budget s') ∨
  HitsLimit bc

/-- DIVERGENCE PRESERVATION, stage 6, whole programs (same hypotheses as `top_program6`): with fuel `F` exhausted the
    machine makes at least `(F + dB p - dB p) / dB p = F / dB p` steps, or stops at its limit -/
theorem top_div6_steps (p : RBlock) (Γ' : Gam) (D : List (Nat × FnInfo)) (hy : ZTop [] p 0 [] Γ' D)
    (hnd : D.Pairwise (fun x y => x.1 ≠ y.1)) (bc : Bytecode) (hc : compileR p = .ok bc) (F : Nat) (hfuel : evalB F p {} = .fuel) :
    DivG bc.code (VM.start {} bc) (hb (dB p) F (dB p)) := by
  obtain ⟨hcode, hconsts, hwf⟩ := compile_general p bc hc
  have hall : CodeAt bc.code 0 ((emitB p 0 none []).1 ++ [.halt]) := ⟨hwf, [], [], by simp [hcode], rfl⟩
  obtain ⟨h1, hhalt⟩ := hall.append
  have hlit : LitPool bc.consts := by rw [hconsts]; exact ztop_litpool hy (by intro k y hk; simp at hk)
  let W : World := { ft := lookupD D, Γp := [], C := bc.code, s0 := VM.start {} bc, CS := bc.consts }
  have hext : Ext (emitB p 0 none []).2 W.CS := by show Ext _ bc.consts; rw [hconsts]; exact Ext.refl _
  have hips := ztop_ips hy
  have hW : WOK6 W := by
    refine ⟨?_, ?_, (SimF.start_pool2 bc {}).2⟩
    · intro f1 f2 i1 i2 h1' h2' hip
      have m1 := SimF.lookupD_mem D f1 i1 h1'
      have m2 := SimF.lookupD_mem D f2 i2 h2'
      rcases List.mem_iff_getElem.mp m1 with ⟨a, ha, ea⟩
      rcases List.mem_iff_getElem.mp m2 with ⟨b, hb, eb⟩
      by_cases hab : a = b
      · subst hab; rw [ea] at eb; injection eb
      · exfalso
        rcases Nat.lt_or_gt_of_ne hab with hlt | hgt
        · have := (List.pairwise_iff_getElem.mp hips.2) a b ha hb hlt
          rw [ea, eb] at this; exact this hip
        · have := (List.pairwise_iff_getElem.mp hips.2) b a hb ha hgt
          rw [ea, eb] at this; exact this hip.symm
    · intro fid info hft
      exact ztop_fnok (W := W) hy hext h1 (fid, info) (SimF.lookupD_mem D fid info hft)
  have hK : KB W (dB p) := fun fid info hft => ztop_depth hy (fid, info) (SimF.lookupD_mem D fid info hft)
  have hD : ∀ q ∈ D, W.ft q.1 = some q.2 := fun q hq => SimF.lookupD_of_mem D hnd q hq
  have hstart : mk6 W.s0 0 #[] #[] #[] #[] .null [] (VM.start {} bc).mem [] = VM.start {} bc := by
    simp [mk6, W, VM.start]
  have hinv0 : Inv6 (W.at []) [] [] 0 ⟨fun _ => none, {}, 0, #[], #[], #[], .null, (VM.start {} bc).mem, []⟩ :=
    ⟨fun _ _ hm => (by cases hm), fun _ _ hm => (by cases hm), trivial, rfl, rfl,
     ⟨⟨fun _ _ _ e => (by cases e), fun _ _ e => (by cases e), fun _ _ _ e => (by cases e), fun _ _ _ e => (by cases e)⟩,
      SimH.start_poolH bc hlit, SimH.start_mok bc⟩⟩
  have hwt0 : TI.WT (mk6 W.s0 0 #[] #[] #[] #[] .null [] (VM.start {} bc).mem []) := by
    rw [hstart]; exact TI.start_wt {} bc TI.wt_empty
  have hdiv := dtop6 hW hK hy hD (by simp [GamOK]) F (fun _ => none) {} #[] .null (VM.start {} bc).mem [] hinv0 hwt0 h1 hext hfuel
  rw [hstart] at hdiv
  exact hdiv

theorem DivG.noEnd {bc : Bytecode} {n : Nat} (h : DivG bc.code (VM.start {} bc) n) : NoEnd bc n := by
  rcases h with ⟨n0, s1, hn, hl⟩ | h
  · exact .inr ⟨n0, s1, hn, hl⟩
  · exact .inl h.budget

/-- (T2, on resolved programs) a program of the stage-6 fragment whose definitional evaluation never ends: for every
    budget `n` the run is over budget, or the machine stops at its stack/frame limit -/
theorem top_div6 (p : RBlock) (Γ' : Gam) (D : List (Nat × FnInfo)) (hy : ZTop [] p 0 [] Γ' D)
    (hnd : D.Pairwise (fun x y => x.1 ≠ y.1)) (bc : Bytecode) (hc : compileR p = .ok bc) (hdiv : ∀ F, evalB F p {} = .fuel) (n : Nat) :
    NoEnd bc n :=
  ((top_div6_steps p Γ' D hy hnd bc hc (n * dB p + dB p) (hdiv _)).mono (hb_ge (Nat.le_refl _) (dB_pos p))).noEnd

/-- (T2) DIVERGENCE PRESERVATION END TO END, stage 6, by validation — the hypotheses of `C01_heap_and_calls_program`:
    if the definitional evaluation of the resolved program runs out of every fuel, then for every instruction budget `n`
    the run of the compiled program on a fresh machine is over budget (it neither halts with a value, nor fails with an
    ordinary error, nor faults), or the machine stops at its stack/frame limit -/
theorem program_div6 (ast : Block) (r : RBlock) (bc : Bytecode) (hc : compileProgram ast = .ok (r, bc)) (hin : inFragment6 r = true)
    (hdiv : ∀ F, Spec.evalB F r {} = .fuel) (n : Nat) :
    (∃ s', runSteps bc.code n (VM.start {} bc) = .budget s') ∨
    HitsLimit bc := by
  obtain ⟨Γ', D, hy, hnd⟩ := inFragment6_sound r hin
  unfold compileProgram at hc
  cases hr : resolveProgram ast with
  | error e => simp [hr] at hc
  | ok r' =>
    simp only [hr] at hc
    cases hcr : compileR r' with
    | error e => simp [hcr] at hc
    | ok bc' =>
      simp only [hcr] at hc
      injection hc with hc; injection hc with h1 h2; subst h1; subst h2
      exact top_div6 r' Γ' D hy hnd bc' hcr hdiv n

end Sim6
end Nl
