import Nlmodel.Proofs.Lemmas.NameEvalFnRel
namespace Nl
namespace NameEvalFn
open Spec SimF Sim
open NameEval (All2 findBid bids)

/-! E3 -/
/-- the resolver's scope after `defineParams`, started with scope `sc` and next binder id `k` -/
def pscFrom : List (Text × Nat) → Nat → List Text → List (Text × Nat)
  | sc, _, [] => sc
  | sc, k, p :: ps => pscFrom ((p, k) :: sc) (k + 1) ps

theorem defineParams_shape (ps : List Text) (st : RState) (sc : List (Text × Nat)) (gscs : Scs) (F : Nat) (h : RInv true st [sc] gscs F) :
    RInv true (defineParams st ps).1 [pscFrom sc st.nextId ps] gscs F ∧
    (defineParams st ps).2 = List.range' st.nextId ps.length := by
  induction ps generalizing st sc with
  | nil => exact ⟨by simpa only [defineParams, pscFrom] using h, by simp only [defineParams, List.length_nil, List.range'_zero]⟩
  | cons p ps ih =>
    obtain ⟨h1, _⟩ := rinv_define true st sc [] gscs F h p
    obtain ⟨href, hnid⟩ := rinv_define_refT st sc [] gscs F h p
    obtain ⟨i1, i2⟩ := ih (st.define p).1 ((p, st.nextId) :: sc) h1
    have hpids : (defineParams st (p :: ps)).2 = st.nextId :: (defineParams (st.define p).1 ps).2 := by
      simp only [defineParams, href]
    have hst : (defineParams st (p :: ps)).1 = (defineParams (st.define p).1 ps).1 := by
      simp only [defineParams]
    rw [hpids, hst]
    rw [hnid] at i1 i2
    refine ⟨by simpa only [pscFrom] using i1, ?_⟩
    rw [i2, List.length_cons, List.range'_succ]

theorem envGet_append (pre x : List (Nat × SVal)) (j : Nat) :
    envGet (pre ++ x) j = match envGet pre j with | some v => some v | none => envGet x j := by
  unfold envGet
  rw [List.find?_append]
  cases List.find? (fun p => p.1 == j) pre with
  | none => simp only [Option.none_or]
  | some q => simp only [Option.some_or]

theorem envGet_none_of (pre : List (Nat × SVal)) (j : Nat) (h : ∀ q ∈ pre, q.1 ≠ j) : envGet pre j = none := by
  unfold envGet
  have : List.find? (fun p => p.1 == j) pre = none := by
    rw [List.find?_eq_none]
    intro q hq
    simpa using h q hq
  rw [this]

theorem envGet_single (k : Nat) (w : SVal) : envGet [(k, w)] k = some w := by
  simp [envGet, List.find?]

theorem envGet_single_ne (k j : Nat) (w : SVal) (h : j ≠ k) : envGet [(k, w)] j = none := by
  have : (k == j) = false := by simpa using (Ne.symm h)
  simp [envGet, List.find?, this]

theorem relSc_congrP {G} {env env' : List (Nat × SVal)} {sc : Scope} {sc' : List (Text × Nat)}
    (h : RelSc G env sc sc') (hg : ∀ q ∈ sc', envGet env' q.2 = envGet env q.2) : RelSc G env' sc sc' := by
  induction h with
  | nil => exact All2.nil
  | cons hab _ ih =>
    refine All2.cons ⟨hab.1, ?_⟩ (ih (fun q hq => hg q (List.mem_cons_of_mem _ hq)))
    rw [hg _ List.mem_cons_self]
    exact hab.2

theorem params_rel_aux (G : List (Text × Nat)) : ∀ (ps : List Text) (k : Nat) (xs : List NVal) (ws : List SVal) (acc : Scope)
    (sc : List (Text × Nat)) (pre : List (Nat × SVal)), All2 (VRel G) xs ws → (∀ q ∈ pre, q.1 < k) → (∀ q ∈ sc, q.2 < k) →
    RelSc G pre acc sc → ((sc.map Prod.snd).Nodup) →
    RelSc G (pre ++ bindParams (List.range' k ps.length) ws) (bindN acc ps xs) (pscFrom sc k ps) ∧
      ((pscFrom sc k ps).map Prod.snd).Nodup
  | [], k, xs, ws, acc, sc, pre, _, _, _, hr, hnd => by
    simp only [List.length_nil, List.range'_zero, bindParams, List.append_nil, bindN, pscFrom]
    exact ⟨hr, hnd⟩
  | p :: ps, k, xs, ws, acc, sc, pre, hx, hpre, hsc, hr, hnd => by
    have key : ∃ a w as' ws', VRel G a w ∧ All2 (VRel G) as' ws' ∧
        bindN acc (p :: ps) xs = bindN ((p, some a) :: acc) ps as' ∧
        ∀ r, bindParams (k :: r) ws = (k, w) :: bindParams r ws' := by
      cases hx with
      | nil => exact ⟨.null, .null, [], [], VRel.null, All2.nil, by simp only [bindN], fun r => by simp only [bindParams]⟩
      | cons hab hl => exact ⟨_, _, _, _, hab, hl, by simp only [bindN], fun r => by simp only [bindParams]⟩
    obtain ⟨a, w, as', ws', hv, hl, hb, hp⟩ := key
    have hk : envGet (pre ++ [(k, w)]) k = some w := by
      rw [envGet_append, envGet_none_of pre k (fun q hq => by have := hpre q hq; omega)]
      exact envGet_single k w
    have hold : ∀ q ∈ sc, envGet (pre ++ [(k, w)]) q.2 = envGet pre q.2 := by
      intro q hq
      have hne : q.2 ≠ k := by have := hsc q hq; omega
      rw [envGet_append, envGet_single_ne k q.2 w hne]
      cases envGet pre q.2 <;> rfl
    have hr' : RelSc G (pre ++ [(k, w)]) ((p, some a) :: acc) ((p, k) :: sc) := by
      refine All2.cons ⟨rfl, ?_⟩ (relSc_congrP hr hold)
      show ORel G (envGet (pre ++ [(k, w)]) k) (some a)
      rw [hk]
      exact hv
    have hnd' : ((((p, k) :: sc).map Prod.snd)).Nodup := by
      simp only [List.map_cons, List.nodup_cons]
      refine ⟨?_, hnd⟩
      intro hm
      obtain ⟨q, hq, hqk⟩ := List.mem_map.1 hm
      have := hsc q hq
      omega
    have ih := params_rel_aux G ps (k + 1) as' ws' ((p, some a) :: acc) ((p, k) :: sc) (pre ++ [(k, w)]) hl
      (by
        intro q hq
        rcases List.mem_append.1 hq with hq | hq
        · have := hpre q hq; omega
        · simp only [List.mem_singleton] at hq; subst hq; simp only; omega)
      (by
        intro q hq
        rcases List.mem_cons.1 hq with hq | hq
        · subst hq; simp only; omega
        · have := hsc q hq; omega)
      hr' hnd'
    rw [List.length_cons, List.range'_succ, hp, hb]
    simp only [pscFrom]
    rw [List.append_assoc] at ih
    exact ih

theorem params_rel (G : List (Text × Nat)) (ps : List Text) (k : Nat) (xs : List NVal) (ws : List SVal) (h : All2 (VRel G) xs ws) :
    RelSc G (bindParams (List.range' k ps.length) ws) (bindN [] ps xs) (pscFrom [] k ps) ∧
    ((pscFrom [] k ps).map Prod.snd).Nodup := by
  have := params_rel_aux G ps k xs ws [] [] [] h (by intro q hq; cases hq) (by intro q hq; cases hq) All2.nil (by simp)
  simpa only [List.nil_append] using this

end NameEvalFn
end Nl
