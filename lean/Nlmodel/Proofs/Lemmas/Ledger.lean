/- The whole-run memory ledger (C04): a finished run leaves nothing behind.

   For EVERY bytecode run on a fresh machine:
   * an error at any step / an abandoned run: after the drop of the collector no cell is live;
   * a normal end: after the hand-over and the drop a cell is live IFF the result reaches it;
   * the caller releasing the (duplicate-free) list of cells the result reaches leaves no live cell,
     and releases each of them exactly once;
   * along any run (fresh machine or session) a freed cell is never live again, never managed again
     and so never freed again; every `free` the collector performs hits a live cell. -/
import Nlmodel.Proofs.Lemmas.NoDangle
import Nlmodel.Proofs.Lemmas.GCFinish
import Nlmodel.Proofs.Lemmas.ManagedInv
import Nlmodel.Proofs.Lemmas.TypeInv
namespace Nl
namespace Ledger
open GC

/-! ### liveness as a Boolean and as a proposition -/

theorem isLive_iff (h : Heap) (a : Nat) : h.isLive a = true ↔ ND.Live h a := by
  unfold Heap.isLive ND.Live
  cases h.get a <;> simp

theorem isLive_false_iff (h : Heap) (a : Nat) : h.isLive a = false ↔ h.get a = .freed := by
  unfold Heap.isLive
  cases h.get a <;> simp

/-- the caller's release of a list of cells -/
def releaseAll (h : Heap) (as : List Nat) : Heap := as.foldl Heap.free h

theorem releaseAll_eq (h : Heap) (as : List Nat) : releaseAll h as = freeAll h as := rfl

/-! ### `free` and `freeAll` cell by cell -/

theorem get_oob (h : Heap) (a : Nat) (ha : ¬ a < h.cells.size) : h.get a = .freed := by
  simp only [Heap.get, Array.getD_eq_getD_getElem?]
  have : h.cells[a]? = none := by simp; omega
  simp [this]

theorem free_get_freed (h : Heap) (x a : Nat) (hf : h.get a = .freed) : (h.free x).get a = .freed := by
  by_cases e : x = a
  · subst e
    by_cases hlt : x < h.cells.size
    · exact free_get_self h x hlt
    · apply get_oob
      simpa [Heap.free, Heap.set] using hlt
  · rw [free_get_other h x a e]; exact hf

theorem freeAll_get_freed (l : List Nat) : ∀ (h : Heap) (a : Nat), h.get a = .freed → (freeAll h l).get a = .freed := by
  induction l with
  | nil => intro h a hf; exact hf
  | cons x l ih =>
    intro h a hf
    simp only [freeAll, List.foldl_cons]
    exact ih (h.free x) a (free_get_freed h x a hf)

/-- what is live after a release was live before, was not in the list, and is unchanged -/
theorem freeAll_live (l : List Nat) (h : Heap) (a : Nat) (hl : ND.Live (freeAll h l) a) :
    ND.Live h a ∧ a ∉ l ∧ (freeAll h l).get a = h.get a := by
  have h1 : ND.Live h a := fun hf => hl (freeAll_get_freed l h a hf)
  have h2 : a ∉ l := fun hm => hl (ND.freeAll_get_mem a l h hm (ND.live_lt h1))
  exact ⟨h1, h2, freeAll_get_other h l a h2⟩

/-- releasing a duplicate-free list of live cells releases each of them exactly once: the cell is
    still live when its turn comes -/
theorem freeAll_once (h : Heap) (l : List Nat) (hnd : l.Nodup) (hl : ∀ a, a ∈ l → ND.Live h a)
    (pre : List Nat) (a : Nat) (post : List Nat) (e : l = pre ++ a :: post) : ND.Live (freeAll h pre) a := by
  subst e
  have hnot : a ∉ pre := by
    intro hm
    have := (List.nodup_append.1 hnd).2.2 a hm a List.mem_cons_self
    exact this rfl
  unfold ND.Live
  rw [freeAll_get_other h pre a hnot]
  exact hl a (by simp)

/-- after the release of a list of allocated cells none of them is live -/
theorem freeAll_dead (h : Heap) (l : List Nat) (a : Nat) (hm : a ∈ l) : (freeAll h l).get a = .freed := by
  by_cases hlt : a < h.cells.size
  · exact ND.freeAll_get_mem a l h hm hlt
  · exact freeAll_get_freed l h a (get_oob h a hlt)

/-! ### every way a fresh-machine run can end is safe -/

def OutcomeOK : Outcome → Prop
  | .value v s => ND.VMOK s ∧ ND.LV s.mem.heap v
  | .error _ s => ND.VMOK s
  | .budget s => ND.VMOK s
  | .fault _ => True

theorem step_ok (c : Code) (s : VM) (h : ND.Safe s) : ND.StepOK (step c s) := by
  unfold step
  split
  · trivial
  · exact ND.exec_ok _ _ s h.2 h.1

theorem runSteps_ok (c : Code) : ∀ (n : Nat) (s : VM), ND.Safe s → OutcomeOK (runSteps c n s) := by
  intro n
  induction n with
  | zero => intro s h; exact h.2
  | succ n ih =>
    intro s h
    have h1 := step_ok c s h
    simp only [runSteps]
    cases hs : step c s with
    | next s' => exact ih s' (ND.step_safe c s s' h hs)
    | halt v s' => rw [hs] at h1; exact h1
    | error e s' => rw [hs] at h1; exact h1
    | fault site => trivial

/-- IN WHATEVER WAY a run of any program on a fresh machine ends — a value, an error at any step,
    or abandoned after `n` steps — no reference dangles and every live cell is managed -/
theorem run_ok (bc : Bytecode) (n : Nat) : OutcomeOK (runSteps bc.code n (({} : VM).start bc)) :=
  runSteps_ok bc.code n _ (ND.start_safe bc)

/-! ### 1. a failed or abandoned run leaves nothing -/

/-- dropping a collector that manages every live cell leaves no live cell -/
theorem destroy_leaves_nothing (m : Mem) (h : ND.HOK m) (a : Nat) : (destroy m).heap.get a = .freed := by
  by_cases hm : a ∈ m.managed
  · exact freeAll_dead m.heap m.managed a hm
  · show (freeAll m.heap m.managed).get a = .freed
    rw [freeAll_get_other m.heap m.managed a hm]
    exact Classical.byContradiction fun hl => hm (h.allm a hl)

/-- AN ERROR RAISED AT ANY POINT OF ANY RUN on a fresh machine: after `finishError` (the drop of the
    run's collector) no cell is live and the collector is empty -/
theorem failed_run_leaves_nothing (bc : Bytecode) (n : Nat) (e : Err) (s : VM)
    (h : runSteps bc.code n (({} : VM).start bc) = .error e s) :
    (∀ a, (finishError s).mem.heap.isLive a = false) ∧ (finishError s).mem.managed = [] := by
  have hok := run_ok bc n
  rw [h] at hok
  exact ⟨fun a => (isLive_false_iff _ a).2 (destroy_leaves_nothing s.mem hok.hok a), rfl⟩

/-- ... and a run abandoned after `n` instructions (budget exhausted): the same -/
theorem abandoned_run_leaves_nothing (bc : Bytecode) (n : Nat) (s : VM)
    (h : runSteps bc.code n (({} : VM).start bc) = .budget s) :
    (∀ a, (finishError s).mem.heap.isLive a = false) ∧ (finishError s).mem.managed = [] := by
  have hok := run_ok bc n
  rw [h] at hok
  exact ⟨fun a => (isLive_false_iff _ a).2 (destroy_leaves_nothing s.mem hok.hok a), rfl⟩

/-! ### 2. a normal end leaves exactly the result graph -/

/-- the heap after the hand-over and the drop -/
theorem finish_heap (v : Value) (s : VM) (hnd : s.mem.managed.Nodup) :
    (finishValue v s).mem.heap =
      freeAll s.mem.heap (sub s.mem.managed (mark s.mem.heap s.mem.managed (s.mem.managed.length + 1) [] v)) := by
  have e := untrace_eq s.mem.heap s.mem.managed hnd (s.mem.managed.length + 1) [] v
  rw [sub_nil] at e
  simp only [finishValue, destroy, e]

theorem ra_reach {h : Heap} {man : List Nat} {v : Value} {b x : Nat} (hb : v.addr? = some b) (r : RA h man b x) :
    Reach h man [v] x := by
  induction r with
  | refl hmb => exact Reach.root v b (by simp) hb hmb
  | step y w c _ hw hc hmc ih => exact Reach.step y w c ih hw hc hmc

/-- with any sufficient fuel, `mark` from one root marks exactly what the root reaches -/
theorem mark_iff (h : Heap) (man : List Nat) (hk : HeapKindOK h) (v : Value) (hkv : KindOK h v) (f : Nat)
    (hf : man.length < f) (a : Nat) : a ∈ mark h man f [] v ↔ Reach h man [v] a := by
  constructor
  · intro ha
    cases mark_sound h man f [] v a ha with
    | inl h1 => cases h1
    | inr h1 => obtain ⟨b, hb, hr⟩ := h1; exact ra_reach hb hr
  · intro ha
    have hlt : unmarked man [] < f := Nat.lt_of_le_of_lt (unmarked_le_length man []) hf
    obtain ⟨hself, post⟩ := mark_complete h man hk f [] v hkv hlt
    induction ha with
    | root w a hw hadr hm =>
      have : w = v := by simpa using hw
      subst this
      exact hself a hadr hm
    | step x w b _ hw hadr hm ih => exact post.closed x w b ih (by simp) hw hadr hm

theorem reach_rv {h : Heap} {man : List Nat} {v : Value} {a : Nat} (r : Reach h man [v] a) : RV h v a := by
  induction r with
  | root w a hw hadr _ =>
    have : w = v := by simpa using hw
    subst this
    exact .root a hadr
  | step x w b _ hw hadr _ ih => exact .step x w b ih hw hadr

/-- if everything the value reaches is managed, plain reachability is the collector's reachability -/
theorem rv_reach {h : Heap} {man : List Nat} {v : Value} (hcl : ∀ c, RV h v c → c ∈ man) {a : Nat} (r : RV h v a) :
    Reach h man [v] a := by
  induction r with
  | root c hc => exact .root v c (by simp) hc (hcl c (.root c hc))
  | step x w c hx hw hc ih => exact .step x w c ih hw hc (hcl c (.step x w c hx hw hc))

/-- what a non-dangling value reaches is live -/
theorem rv_live {m : Mem} (h : ND.HOK m) {v : Value} (hv : ND.LV m.heap v) {a : Nat} (r : RV m.heap v a) :
    ND.Live m.heap a := by
  induction r with
  | root c hc => exact hv c hc
  | step x w c _ hw hc _ => exact ND.arrAt_lv h x w hw c hc

theorem arrAt_congr {h h' : Heap} {x : Nat} (e : h'.get x = h.get x) : h'.arrAt x = h.arrAt x := by
  simp only [Heap.arrAt, e]

/-- reachability depends only on the cells reached -/
theorem rv_congr {h h' : Heap} {v : Value} (hc : ∀ c, RV h v c → h'.get c = h.get c) (a : Nat) :
    RV h' v a ↔ RV h v a := by
  constructor
  · intro r
    induction r with
    | root c hcc => exact .root c hcc
    | step x w c _ hw hcc ih => exact .step x w c ih (by rw [← arrAt_congr (hc x ih)]; exact hw) hcc
  · intro r
    induction r with
    | root c hcc => exact .root c hcc
    | step x w c hx hw hcc ih => exact .step x w c ih (by rw [arrAt_congr (hc x hx)]; exact hw) hcc

/-- the facts about a state a fresh-machine run halts in -/
structure HaltFacts (v : Value) (s : VM) : Prop where
  hok : ND.HOK s.mem
  lv : ND.LV s.mem.heap v
  hk : HeapKindOK s.mem.heap
  kv : KindOK s.mem.heap v
  /-- the same for the heap after the hand-over -/
  hkF : HeapKindOK (finishValue v s).mem.heap
  kvF : KindOK (finishValue v s).mem.heap v

theorem halt_facts (bc : Bytecode) (n : Nat) (v : Value) (s : VM)
    (h : runSteps bc.code n (({} : VM).start bc) = .value v s) : HaltFacts v s := by
  have hok := run_ok bc n
  rw [h] at hok
  have hwt := TI.run_wt {} bc TI.wt_empty n
  rw [h] at hwt
  obtain ⟨κ, hw, hv⟩ := hwt
  have hwF : TI.VMWT κ (finishValue v s) :=
    TI.destroy_wt hw (untrace s.mem.heap (s.mem.managed.length + 1) s.mem.managed v)
  have hsz : (finishValue v s).mem.heap.cells.size = s.mem.heap.cells.size := TI.freeAll_size _ _
  have hvF : TI.ValOK κ (finishValue v s).mem.heap.cells.size v := by rw [hsz]; exact hv
  exact ⟨hok.1.hok, hok.2, TI.heapKindOK hw.heap, TI.kindOK_of_valOK hw.heap v hv, TI.heapKindOK hwF.heap,
    TI.kindOK_of_valOK hwF.heap v hvF⟩

/-- the core of 2: after the hand-over and the drop, a cell is not released IFF the result reaches it
    (in the heap at `Halt`), and then it is unchanged -/
theorem finish_get {v : Value} {s : VM} (hf : HaltFacts v s) (a : Nat) :
    (ND.Live (finishValue v s).mem.heap a ↔ RV s.mem.heap v a) ∧
    (RV s.mem.heap v a → (finishValue v s).mem.heap.get a = s.mem.heap.get a) := by
  have hnd := hf.hok.man.1
  have hmk := mark_iff s.mem.heap s.mem.managed hf.hk v hf.kv (s.mem.managed.length + 1) (Nat.lt_succ_self _)
  have hcl : ∀ c, RV s.mem.heap v c → c ∈ s.mem.managed := fun c r => hf.hok.allm c (rv_live hf.hok hf.lv r)
  have keep : RV s.mem.heap v a → (finishValue v s).mem.heap.get a = s.mem.heap.get a := by
    intro r
    rw [finish_heap v s hnd]
    apply freeAll_get_other
    intro hin
    simp only [sub, List.mem_filter, Bool.not_eq_true', List.contains_eq_mem, decide_eq_false_iff_not] at hin
    exact hin.2 ((hmk a).2 (rv_reach hcl r))
  refine ⟨⟨?_, ?_⟩, keep⟩
  · intro hl
    rw [finish_heap v s hnd] at hl
    obtain ⟨h1, h2, _⟩ := freeAll_live _ _ a hl
    have hm := hf.hok.allm a h1
    have : a ∈ mark s.mem.heap s.mem.managed (s.mem.managed.length + 1) [] v := by
      apply Classical.byContradiction
      intro hn
      apply h2
      simp only [sub, List.mem_filter, Bool.not_eq_true', List.contains_eq_mem, decide_eq_false_iff_not]
      exact ⟨hm, hn⟩
    exact reach_rv ((hmk a).1 this)
  · intro r
    unfold ND.Live
    rw [keep r]
    exact rv_live hf.hok hf.lv r

/-- A NORMAL END OF ANY RUN on a fresh machine: after `finishValue` (hand-over of the result, drop of
    the collector)
    (a) a cell is live IFF the result reaches it — everything else the run allocated, its constants
        included, has been released;
    (b) reachability is the same in the heap at `Halt` and in the heap the caller receives;
    (c) every cell the result reaches is unchanged, and so is the result's deep view;
    (d) the collector manages nothing. -/
theorem normal_run_leaves_only_the_result (bc : Bytecode) (n : Nat) (v : Value) (s : VM)
    (h : runSteps bc.code n (({} : VM).start bc) = .value v s) :
    (∀ a, (finishValue v s).mem.heap.isLive a = true ↔ RV (finishValue v s).mem.heap v a) ∧
    (∀ a, RV (finishValue v s).mem.heap v a ↔ RV s.mem.heap v a) ∧
    (∀ a, RV s.mem.heap v a → (finishValue v s).mem.heap.get a = s.mem.heap.get a) ∧
    (∀ f p, (finishValue v s).mem.heap.tree f p v = s.mem.heap.tree f p v) ∧
    (finishValue v s).mem.managed = [] := by
  have hf := halt_facts bc n v s h
  have hcong : ∀ a, RV (finishValue v s).mem.heap v a ↔ RV s.mem.heap v a :=
    rv_congr (fun c r => (finish_get hf c).2 r)
  refine ⟨fun a => ?_, hcong, fun a => (finish_get hf a).2, fun f p => ?_, rfl⟩
  · rw [isLive_iff, hcong]; exact (finish_get hf a).1
  · exact tree_congr _ _ f p v (fun c r => (finish_get hf c).2 r)

/-- the same with the reachability predicate of C03/C04 (through managed arrays, at `Halt`) -/
theorem normal_run_live_iff_reach (bc : Bytecode) (n : Nat) (v : Value) (s : VM)
    (h : runSteps bc.code n (({} : VM).start bc) = .value v s) (a : Nat) :
    (finishValue v s).mem.heap.isLive a = true ↔ Reach s.mem.heap s.mem.managed [v] a := by
  have hf := halt_facts bc n v s h
  rw [isLive_iff, (finish_get hf a).1]
  exact ⟨rv_reach (fun c r => hf.hok.allm c (rv_live hf.hok hf.lv r)), reach_rv⟩

/-! ### 3. the caller releases the result -/

theorem foldl_congr_mem {α β : Type} (f g : β → α → β) (l : List α) :
    (∀ x, x ∈ l → ∀ b, f b x = g b x) → ∀ b, l.foldl f b = l.foldl g b := by
  induction l with
  | nil => intro _ b; rfl
  | cons x l ih =>
    intro h b
    simp only [List.foldl_cons]
    rw [h x List.mem_cons_self b]
    exact ih (fun y hy => h y (List.mem_cons_of_mem _ hy)) _

/-- on a value all of whose reachable cells are managed, the model's plain `reachable` is `mark` -/
theorem reachable_eq_mark (h : Heap) (man : List Nat) :
    ∀ (f : Nat) (seen : List Nat) (v : Value), (∀ c, RV h v c → c ∈ man) → reachable h f seen v = mark h man f seen v := by
  intro f
  induction f with
  | zero => intro seen v _; rfl
  | succ f ih =>
    intro seen v hcl
    cases v with
    | null => rfl
    | bool b => rfl
    | int i => rfl
    | fn i n => rfl
    | float a =>
      have hm : man.contains a = true := (contains_iff man a).2 (hcl a (.root a rfl))
      simp only [reachable, mark, hm, Bool.true_and]
      cases seen.contains a <;> rfl
    | str a =>
      have hm : man.contains a = true := (contains_iff man a).2 (hcl a (.root a rfl))
      simp only [reachable, mark, hm, Bool.true_and]
      cases seen.contains a <;> rfl
    | arr a =>
      have hm : man.contains a = true := (contains_iff man a).2 (hcl a (.root a rfl))
      have hfold : ∀ b, (h.arrAt a).foldl (reachable h f) b = (h.arrAt a).foldl (mark h man f) b :=
        foldl_congr_mem _ _ _ (fun w hw b => ih b w (fun c r => hcl c (RV.elem hw r)))
      simp only [reachable, mark, hm, Bool.true_and, hfold]
      cases seen.contains a <;> rfl

/-- `mark` never lists an address twice -/
theorem mark_nodup (h : Heap) (man : List Nat) : ∀ (f : Nat) (M : List Nat) (v : Value), M.Nodup → (mark h man f M v).Nodup := by
  intro f
  induction f with
  | zero => intro M v hM; exact hM
  | succ f ih =>
    have fold : ∀ (l : List Value) (N : List Nat), N.Nodup → (l.foldl (mark h man f) N).Nodup := by
      intro l
      induction l with
      | nil => intro N hN; exact hN
      | cons e l ihl => intro N hN; simp only [List.foldl_cons]; exact ihl _ (ih N e hN)
    intro M v hM
    cases v with
    | null => exact hM
    | bool b => exact hM
    | int i => exact hM
    | fn i n => exact hM
    | float a =>
      simp only [mark]
      split
      · rename_i hc
        simp only [Bool.and_eq_true, Bool.not_eq_true', contains_iff] at hc
        exact List.nodup_cons.2 ⟨by simpa using hc.2, hM⟩
      · exact hM
    | str a =>
      simp only [mark]
      split
      · rename_i hc
        simp only [Bool.and_eq_true, Bool.not_eq_true', contains_iff] at hc
        exact List.nodup_cons.2 ⟨by simpa using hc.2, hM⟩
      · exact hM
    | arr a =>
      simp only [mark]
      split
      · rename_i hc
        simp only [Bool.and_eq_true, Bool.not_eq_true', contains_iff] at hc
        exact fold _ _ (List.nodup_cons.2 ⟨by simpa using hc.2, hM⟩)
      · exact hM

/-- a duplicate-free list of numbers below `n` has at most `n` entries -/
theorem nodup_bounded_length : ∀ (n : Nat) (l : List Nat), l.Nodup → (∀ a, a ∈ l → a < n) → l.length ≤ n := by
  intro n
  induction n with
  | zero =>
    intro l _ hb
    cases l with
    | nil => exact Nat.le_refl _
    | cons x l => exact absurd (hb x List.mem_cons_self) (Nat.not_lt_zero _)
  | succ n ih =>
    intro l hnd hb
    have h1 : (l.erase n).Nodup := hnd.erase n
    have h2 : ∀ a, a ∈ l.erase n → a < n := by
      intro a ha
      have hne : a ≠ n := fun e => by subst e; exact (List.Nodup.not_mem_erase hnd) ha
      have := hb a (List.mem_of_mem_erase ha)
      omega
    have h3 := ih (l.erase n) h1 h2
    have h4 : l.length ≤ (l.erase n).length + 1 := by
      by_cases hm : n ∈ l
      · rw [List.length_erase_of_mem hm]; omega
      · rw [List.erase_of_not_mem hm]; omega
    omega

/-- THE CALLER RELEASES THE RESULT: after a normal end of any run on a fresh machine, let `L` be the
    model's list of the cells reachable from the result in the heap the caller received
    (`GC.reachable`, any fuel above the heap size).  Then
    (a) `L` names no cell twice,
    (b) `L` is exactly the set of cells the result reaches, which is exactly the set of live cells,
    (c) after releasing `L` no cell is live at all,
    (d) every cell of `L` is still live when its turn comes: it is released exactly once. -/
theorem caller_releases_result (bc : Bytecode) (n : Nat) (v : Value) (s : VM)
    (h : runSteps bc.code n (({} : VM).start bc) = .value v s)
    (f : Nat) (hfuel : (finishValue v s).mem.heap.cells.size < f) :
    (reachable (finishValue v s).mem.heap f [] v).Nodup ∧
    (∀ a, a ∈ reachable (finishValue v s).mem.heap f [] v ↔ RV (finishValue v s).mem.heap v a) ∧
    (∀ a, a ∈ reachable (finishValue v s).mem.heap f [] v ↔ (finishValue v s).mem.heap.isLive a = true) ∧
    (∀ a, (releaseAll (finishValue v s).mem.heap (reachable (finishValue v s).mem.heap f [] v)).isLive a = false) ∧
    (∀ pre a post, reachable (finishValue v s).mem.heap f [] v = pre ++ a :: post →
      (releaseAll (finishValue v s).mem.heap pre).isLive a = true) := by
  have hf := halt_facts bc n v s h
  obtain ⟨hlive, hcong, _, _, _⟩ := normal_run_leaves_only_the_result bc n v s h
  have hcl : ∀ c, RV (finishValue v s).mem.heap v c → c ∈ s.mem.managed :=
    fun c r => hf.hok.allm c (rv_live hf.hok hf.lv ((hcong c).1 r))
  have hsz : (finishValue v s).mem.heap.cells.size = s.mem.heap.cells.size := TI.freeAll_size _ _
  have hlen : s.mem.managed.length < f := by
    have := nodup_bounded_length s.mem.heap.cells.size s.mem.managed hf.hok.man.1 hf.hok.man.2
    omega
  have hL : reachable (finishValue v s).mem.heap f [] v = mark (finishValue v s).mem.heap s.mem.managed f [] v :=
    reachable_eq_mark _ _ f [] v hcl
  have hmem : ∀ a, a ∈ reachable (finishValue v s).mem.heap f [] v ↔ RV (finishValue v s).mem.heap v a := by
    intro a
    rw [hL, mark_iff _ _ hf.hkF v hf.kvF f hlen a]
    exact ⟨reach_rv, rv_reach hcl⟩
  have hmemL : ∀ a, a ∈ reachable (finishValue v s).mem.heap f [] v ↔ (finishValue v s).mem.heap.isLive a = true :=
    fun a => (hmem a).trans (hlive a).symm
  have hnd : (reachable (finishValue v s).mem.heap f [] v).Nodup := by
    rw [hL]; exact mark_nodup _ _ f [] v List.nodup_nil
  refine ⟨hnd, hmem, hmemL, ?_, ?_⟩
  · intro a
    rw [isLive_false_iff, releaseAll_eq]
    by_cases hm : a ∈ reachable (finishValue v s).mem.heap f [] v
    · exact freeAll_dead _ _ a hm
    · rw [freeAll_get_other _ _ a hm]
      apply Classical.byContradiction
      intro hl
      exact hm ((hmemL a).2 ((isLive_iff _ a).2 hl))
  · intro pre a post e
    rw [isLive_iff, releaseAll_eq]
    exact freeAll_once _ _ hnd (fun b hb => (isLive_iff _ b).1 ((hmemL b).1 hb)) pre a post e

/-! ### 4. released exactly once, along any run

   The generic invariant machinery of `MemInv` with the one refinement the ledger needs: the machine
   only ever overwrites a LIVE cell, with a cell that is not `freed` (`indexSet` on a non-empty
   array or string). -/

structure MemClosedL (P : Mem → Prop) : Prop where
  allocF : ∀ m x, P m → P (m.allocFloat x).1
  allocS : ∀ m s, P m → P (m.allocStr s).1
  allocA : ∀ m vs, P m → P (m.allocArr vs).1
  set : ∀ (m : Mem) a c, P m → ND.Live m.heap a → c ≠ .freed → P { m with heap := m.heap.set a c }
  gc : ∀ m roots, P m → P (GC.run m roots)

theorem normIndex_pos {len : Nat} {i : Int} {k : Nat} (h : normIndex len i = some k) : 0 < len := by
  simp only [normIndex] at h
  by_cases hc : ((0 ≤ (if i < 0 then i + len else i)) ∧ ((if i < 0 then i + len else i) < len))
  · split at hc <;> omega
  · exfalso
    simp [hc] at h

theorem arrAt_live {h : Heap} {a : Nat} (hp : 0 < (h.arrAt a).length) : ND.Live h a := by
  intro hf
  simp [Heap.arrAt, hf] at hp

theorem strAt_live {h : Heap} {a : Nat} (hp : 0 < (h.strAt a).length) : ND.Live h a := by
  intro hf
  simp [Heap.strAt, hf] at hp

section
variable {P : Mem → Prop} (hP : MemClosedL P)
include hP

theorem box_closed (m : Mem) (arg : Value) (p : PRes) (h : P m) : P (m.box arg p).2 := by
  cases p with
  | null => exact h
  | bool b => exact h
  | int i => exact h
  | float x => exact hP.allocF m x h
  | str s => exact hP.allocS m s h
  | same => exact h

theorem binop_closed (op : BinOp) (l r : Value) (m : Mem) (h : P m) (v : Value) (m' : Mem) (he : binop op l r m = .ok (v, m')) : P m' := by
  unfold binop at he
  split at he
  · injection he with he; rw [← (Prod.mk.inj he).2]; exact box_closed hP m l _ h
  · cases he

theorem callBuiltin_closed (b : Builtin) (args : List Value) (m : Mem) (out : List Text) (h : P m) (v : Value) (m' : Mem) (out' : List Text)
    (he : callBuiltin b args m out = .ok (v, m', out')) : P m' := by
  unfold callBuiltin at he
  split at he
  · injection he with he; rw [← (Prod.mk.inj (Prod.mk.inj he).2).1]; exact h
  · split at he
    · split at he
      · injection he with he; rw [← (Prod.mk.inj (Prod.mk.inj he).2).1]; exact box_closed hP m _ _ h
      · cases he
    · cases he

theorem indexGet_closed (l i : Value) (m : Mem) (h : P m) (v : Value) (m' : Mem) (he : indexGet l i m = .ok (v, m')) : P m' := by
  unfold indexGet at he
  split at he
  · split at he
    · simp only at he
      split at he
      · injection he with he; rw [← (Prod.mk.inj he).2]; exact h
      · cases he
    · simp only at he
      split at he
      · injection he with he; rw [← (Prod.mk.inj he).2]; exact hP.allocS m _ h
      · cases he
    · cases he
  · cases he

theorem indexSet_closed (l i x : Value) (m : Mem) (h : P m) (v : Value) (m' : Mem) (he : indexSet l i x m = .ok (v, m')) : P m' := by
  unfold indexSet at he
  split at he
  · split at he
    · simp only at he
      split at he
      · rename_i hn
        injection he with he; rw [← (Prod.mk.inj he).2]
        exact hP.set m _ _ h (arrAt_live (normIndex_pos hn)) (by simp)
      · cases he
    · simp only at he
      split at he
      · rename_i hn
        split at he
        · injection he with he; rw [← (Prod.mk.inj he).2]
          exact hP.set m _ _ h (strAt_live (normIndex_pos hn)) (by simp)
        · cases he
      · cases he
    · cases he
  · cases he

theorem doReturn_closed (s : VM) (r : Value) (extra : List Value) (h : P s.mem) : (doReturn s r extra).MemP P := by
  unfold doReturn
  split
  · trivial
  · split
    · trivial
    · simp only [Step.MemP]
      split
      · exact h
      · exact hP.gc _ _ h

theorem exec_closed (i : Instr) (ip' : Nat) (s : VM) (h : P s.mem) : (exec i ip' s).MemP P := by
  cases i <;> simp only [exec]
  case const k =>
    split
    · trivial
    · exact hP.allocS _ _ h
    · exact h
  case setGlobal k => split <;> first | trivial | exact h
  case getGlobal k => exact h
  case setLocal k =>
    split
    · trivial
    · split <;> first | trivial | exact h
  case getLocal k => split <;> first | trivial | exact h
  case jump t => exact h
  case jumpIfFalse t => split <;> first | trivial | exact h
  case pop => split <;> first | trivial | exact h
  case null => exact h
  case true_ => exact h
  case false_ => exact h
  case bin op =>
    split
    · trivial
    · split
      · trivial
      · split
        · rename_i he; exact binop_closed hP _ _ _ _ h _ _ he
        · exact h
  case fused op loc k =>
    split
    · trivial
    · split
      · trivial
      · split
        · rename_i he; exact binop_closed hP _ _ _ _ h _ _ he
        · exact h
  case not => split <;> first | trivial | exact h
  case negate =>
    split
    · trivial
    · split <;> exact h
    · exact hP.allocF _ _ h
    · exact h
  case call argc =>
    split
    · trivial
    · split
      · exact h
      · split
        · exact h
        · split <;> first | trivial | exact h
    · exact h
  case callBuiltin b argc =>
    split
    · trivial
    · split
      · trivial
      · split
        · rename_i he; exact callBuiltin_closed hP _ _ _ _ h _ _ _ he
        · exact h
  case retv =>
    split
    · trivial
    · exact doReturn_closed hP _ _ _ h
  case ret => exact doReturn_closed hP _ _ _ h
  case array n =>
    split
    · trivial
    · exact hP.allocA _ _ h
  case indexGet =>
    split
    · trivial
    · split
      · trivial
      · split
        · rename_i he; exact indexGet_closed hP _ _ _ h _ _ he
        · exact h
  case indexSet =>
    split
    · trivial
    · split
      · trivial
      · split
        · trivial
        · split
          · rename_i he; exact indexSet_closed hP _ _ _ _ h _ _ he
          · exact h
  case halt => exact h

theorem step_closed (c : Code) (s : VM) (h : P s.mem) : (step c s).MemP P := by
  unfold step
  split
  · trivial
  · exact exec_closed hP _ _ _ h

/-- every state a run reaches -/
theorem runSteps_closed (c : Code) : ∀ (n : Nat) (s : VM), P s.mem → (runSteps c n s).MemP P := by
  intro n
  induction n with
  | zero => intro s h; exact h
  | succ n ih =>
    intro s h
    have := step_closed hP c s h
    simp only [runSteps]
    cases hs : step c s with
    | next s' => rw [hs] at this; exact ih s' this
    | halt v s' => rw [hs] at this; exact this
    | error e s' => rw [hs] at this; exact this
    | fault site => trivial

theorem reachable_closed (c : Code) (s0 : VM) (h0 : P s0.mem) (s : VM) (hr : TI.Reachable c s0 s) : P s.mem := by
  induction hr with
  | start => exact h0
  | step s s' _ hs ih =>
    have := step_closed hP c s ih
    rw [hs] at this
    exact this

theorem loadConsts_closed : ∀ (cs : List Const) (m : Mem) (vs : Array Value), P m → P (loadConsts cs (m, vs)).1 := by
  intro cs
  induction cs with
  | nil => intro m vs h; exact h
  | cons c cs ih =>
    intro m vs h
    cases c with
    | int i => exact ih m _ h
    | fn ip nl => exact ih m _ h
    | float b => exact ih _ _ (hP.allocF m b h)
    | str t => exact ih _ _ (hP.allocS m t h)

theorem start_closed (prev : VM) (bc : Bytecode) (h0 : P { heap := prev.mem.heap, managed := [] }) : P (prev.start bc).mem := by
  have := loadConsts_closed hP bc.consts { heap := prev.mem.heap, managed := [] } #[] h0
  simpa [VM.start] using this
end

/-- the ledger invariant relative to an earlier memory `m0`: the collector lists no address twice,
    only allocated ones, and only LIVE cells; the heap only grows; and what was freed in `m0` is
    still freed -/
structure Inv (m0 m : Mem) : Prop where
  man : ManOK m
  live : ∀ a, a ∈ m.managed → ND.Live m.heap a
  size : m0.heap.cells.size ≤ m.heap.cells.size
  freed : ∀ a, a < m0.heap.cells.size → m0.heap.get a = .freed → m.heap.get a = .freed

theorem inv_alloc (m0 m : Mem) (c : Cell) (hc : c ≠ .freed) (h : Inv m0 m) :
    Inv m0 { heap := (m.heap.alloc c).1, managed := m.heap.cells.size :: m.managed } := by
  refine ⟨manOK_alloc m c h.man, ?_, ?_, ?_⟩
  · intro a ha
    show (m.heap.alloc c).1.get a ≠ .freed
    cases List.mem_cons.1 ha with
    | inl e => subst e; rw [TI.get_push_new]; exact hc
    | inr e => rw [TI.get_push_old m.heap c a (h.man.2 a e)]; exact h.live a e
  · show m0.heap.cells.size ≤ (m.heap.alloc c).1.cells.size
    rw [TI.size_alloc]; have := h.size; omega
  · intro a ha hf
    show (m.heap.alloc c).1.get a = .freed
    rw [TI.get_push_old m.heap c a (Nat.lt_of_lt_of_le ha h.size)]; exact h.freed a ha hf

theorem inv_closed (m0 : Mem) : MemClosedL (Inv m0) where
  allocF m x h := inv_alloc m0 m (.float x) (by simp) h
  allocS m s h := inv_alloc m0 m (.str s) (by simp) h
  allocA m vs h := inv_alloc m0 m (.arr vs) (by simp) h
  set m a c h hl hc := by
    refine ⟨manOK_closed.set m a c h.man, ?_, ?_, ?_⟩
    · intro b hb
      show (m.heap.set a c).get b ≠ .freed
      by_cases e : b = a
      · subst e; rw [TI.get_set_self m.heap b c (ND.live_lt hl)]; exact hc
      · rw [TI.get_set_other m.heap a b c e]; exact h.live b hb
    · show m0.heap.cells.size ≤ (m.heap.set a c).cells.size
      rw [TI.size_set]; exact h.size
    · intro b hb hf
      show (m.heap.set a c).get b = .freed
      have hbf := h.freed b hb hf
      have e : b ≠ a := fun e => by subst e; exact hl hbf
      rw [TI.get_set_other m.heap a b c e]; exact hbf
  gc m roots h := by
    have hman := manOK_closed.gc m roots h.man
    unfold GC.run at hman ⊢
    split
    · exact h
    · rename_i hne
      simp only [hne] at hman
      refine ⟨hman, ?_, ?_, ?_⟩
      · intro b hb
        have hb' := List.mem_filter.1 hb
        show (freeAll m.heap _).get b ≠ .freed
        rw [freeAll_get_other]
        · exact h.live b hb'.1
        · intro hd
          have hd' := (List.mem_filter.1 hd).2
          simp only [hb'.2, Bool.not_true, Bool.false_eq_true] at hd'
      · show m0.heap.cells.size ≤ (freeAll m.heap _).cells.size
        rw [TI.freeAll_size]; exact h.size
      · intro b hb hf
        exact freeAll_get_freed _ _ b (h.freed b hb hf)

theorem inv_refl (m : Mem) (hm : ManOK m) (hl : ∀ a, a ∈ m.managed → ND.Live m.heap a) : Inv m m :=
  ⟨hm, hl, Nat.le_refl _, fun _ _ hf => hf⟩

/-- the collector of a run starts empty: the invariant holds at the start of every run, on a fresh
    machine or in a session -/
theorem start_inv (prev : VM) (bc : Bytecode) :
    Inv { heap := prev.mem.heap, managed := [] } (prev.start bc).mem :=
  start_closed (inv_closed _) prev bc
    (inv_refl _ ⟨List.nodup_nil, fun a h => (by cases h)⟩ (fun a h => (by cases h)))

/-- IN EVERY STATE ANY RUN REACHES (any program, fresh machine or session) the collector lists only
    live cells, each once: a released cell is never managed, so never released again -/
theorem managed_cells_are_live (prev : VM) (bc : Bytecode) (s : VM) (hr : TI.Reachable bc.code (prev.start bc) s) :
    s.mem.managed.Nodup ∧ ∀ a, a ∈ s.mem.managed → s.mem.heap.isLive a = true := by
  have := reachable_closed (inv_closed _) bc.code _ (start_inv prev bc) s hr
  exact ⟨this.man.1, fun a ha => (isLive_iff _ a).2 (this.live a ha)⟩

/-- ... also in the state the run ends in, however it ends -/
theorem managed_cells_are_live_at_end (prev : VM) (bc : Bytecode) (n : Nat) :
    (runSteps bc.code n (prev.start bc)).MemP (fun m => m.managed.Nodup ∧ ∀ a, a ∈ m.managed → m.heap.isLive a = true) := by
  have := runSteps_closed (inv_closed _) bc.code n _ (start_inv prev bc)
  cases hr : runSteps bc.code n (prev.start bc) with
  | value v s => rw [hr] at this; exact ⟨this.man.1, fun a ha => (isLive_iff _ a).2 (this.live a ha)⟩
  | error e s => rw [hr] at this; exact ⟨this.man.1, fun a ha => (isLive_iff _ a).2 (this.live a ha)⟩
  | budget s => rw [hr] at this; exact ⟨this.man.1, fun a ha => (isLive_iff _ a).2 (this.live a ha)⟩
  | fault site => trivial

/-- RELEASED EXACTLY ONCE.  Take any state `s1` a run of any program has reached (fresh machine or
    session) and continue the run for any number `k` of instructions: a cell that is freed in `s1` is
    still freed in the state the run is in then — it is never live again —, and the collector does
    not manage it — so no later sweep, and not the final drop, frees it again.  Addresses are never
    reused: the heap only grows. -/
theorem released_exactly_once (prev : VM) (bc : Bytecode) (s1 : VM) (hr : TI.Reachable bc.code (prev.start bc) s1) (k : Nat) :
    (runSteps bc.code k s1).MemP (fun m =>
      s1.mem.heap.cells.size ≤ m.heap.cells.size ∧
      ∀ a, a < s1.mem.heap.cells.size → s1.mem.heap.isLive a = false → m.heap.isLive a = false ∧ a ∉ m.managed) := by
  have h1 := reachable_closed (inv_closed _) bc.code _ (start_inv prev bc) s1 hr
  have := runSteps_closed (inv_closed s1.mem) bc.code k s1 (inv_refl _ h1.man h1.live)
  have conv : ∀ m, Inv s1.mem m → s1.mem.heap.cells.size ≤ m.heap.cells.size ∧
      ∀ a, a < s1.mem.heap.cells.size → s1.mem.heap.isLive a = false → m.heap.isLive a = false ∧ a ∉ m.managed := by
    intro m hm
    refine ⟨hm.size, fun a ha hf => ?_⟩
    have hfm := hm.freed a ha ((isLive_false_iff _ a).1 hf)
    exact ⟨(isLive_false_iff _ a).2 hfm, fun hin => hm.live a hin hfm⟩
  cases hk : runSteps bc.code k s1 with
  | value v s => rw [hk] at this; exact conv _ this
  | error e s => rw [hk] at this; exact conv _ this
  | budget s => rw [hk] at this; exact conv _ this
  | fault site => trivial

/-- the cells a collection releases -/
def swept (m : Mem) (roots : List Value) : List Nat :=
  m.managed.filter (fun a => !(markAll m.heap m.managed roots).contains a)

theorem run_heap (m : Mem) (roots : List Value) : (GC.run m roots).heap = freeAll m.heap (swept m roots) := by
  unfold GC.run swept
  split
  · rename_i he
    have : m.managed = [] := by simpa using he
    simp [this, freeAll]
  · rfl

/-- EVERY `free` A COLLECTION PERFORMS HITS A LIVE CELL: in any state any run has reached, the
    collection `GC.run` (at a return, with whatever roots) releases the cells of a duplicate-free
    list, and each of them is live — not yet released — when its turn comes -/
theorem every_sweep_frees_live_cells (prev : VM) (bc : Bytecode) (s : VM) (hr : TI.Reachable bc.code (prev.start bc) s)
    (roots : List Value) :
    (GC.run s.mem roots).heap = freeAll s.mem.heap (swept s.mem roots) ∧ (swept s.mem roots).Nodup ∧
    ∀ pre a post, swept s.mem roots = pre ++ a :: post → (freeAll s.mem.heap pre).isLive a = true := by
  have h1 := reachable_closed (inv_closed _) bc.code _ (start_inv prev bc) s hr
  have hnd : (swept s.mem roots).Nodup := List.Nodup.sublist List.filter_sublist h1.man.1
  refine ⟨run_heap _ _, hnd, fun pre a post e => ?_⟩
  rw [isLive_iff]
  exact freeAll_once _ _ hnd (fun b hb => h1.live b (List.mem_filter.1 hb).1) pre a post e

/-- ... and so does every `free` of the final drop, however the run ends: `finishError` releases the
    managed list, `finishValue` the managed list without the result graph; both are duplicate-free
    lists of live cells, and whatever was freed before stays freed -/
theorem final_drop_frees_live_cells (prev : VM) (bc : Bytecode) (n : Nat) :
    (∀ e s, runSteps bc.code n (prev.start bc) = .error e s ∨ runSteps bc.code n (prev.start bc) = .budget s →
      (finishError s).mem.heap = freeAll s.mem.heap s.mem.managed ∧ s.mem.managed.Nodup ∧
      (∀ pre a post, s.mem.managed = pre ++ a :: post → (freeAll s.mem.heap pre).isLive a = true) ∧
      (∀ a, s.mem.heap.isLive a = false → (finishError s).mem.heap.isLive a = false)) ∧
    (∀ v s, runSteps bc.code n (prev.start bc) = .value v s →
      ∃ l, (finishValue v s).mem.heap = freeAll s.mem.heap l ∧ l.Nodup ∧ (∀ a, a ∈ l → a ∈ s.mem.managed) ∧
      (∀ pre a post, l = pre ++ a :: post → (freeAll s.mem.heap pre).isLive a = true) ∧
      (∀ a, s.mem.heap.isLive a = false → (finishValue v s).mem.heap.isLive a = false)) := by
  have hinv := runSteps_closed (inv_closed _) bc.code n _ (start_inv prev bc)
  constructor
  · intro e s hs
    have h1 : Inv { heap := prev.mem.heap, managed := [] } s.mem := by
      cases hs with
      | inl hs => rw [hs] at hinv; exact hinv
      | inr hs => rw [hs] at hinv; exact hinv
    refine ⟨rfl, h1.man.1, fun pre a post e => ?_, fun a hf => ?_⟩
    · rw [isLive_iff]; exact freeAll_once _ _ h1.man.1 h1.live pre a post e
    · rw [isLive_false_iff] at hf ⊢; exact freeAll_get_freed _ _ a hf
  · intro v s hs
    rw [hs] at hinv
    have h1 : Inv { heap := prev.mem.heap, managed := [] } s.mem := hinv
    refine ⟨_, finish_heap v s h1.man.1, List.Nodup.sublist List.filter_sublist h1.man.1,
      fun a ha => (List.mem_filter.1 ha).1, fun pre a post e => ?_, fun a hf => ?_⟩
    · rw [isLive_iff]
      exact freeAll_once _ _ (List.Nodup.sublist List.filter_sublist h1.man.1)
        (fun b hb => h1.live b (List.mem_filter.1 hb).1) pre a post e
    · rw [finish_heap v s h1.man.1]
      rw [isLive_false_iff] at hf ⊢; exact freeAll_get_freed _ _ a hf

/-! ### the ledger of `VM.run` in one statement -/

/-- THE LEDGER OF A WHOLE RUN: whatever `VM.run` on a fresh machine returns for any bytecode and any
    budget, the collector is empty, and the live cells of the heap it leaves are: none after an error
    or an abandoned run; exactly the cells the result reaches after a normal end. -/
theorem run_ledger (bc : Bytecode) (n : Nat) :
    match VM.run {} bc n with
    | .value v s => (∀ a, s.mem.heap.isLive a = true ↔ RV s.mem.heap v a) ∧ s.mem.managed = []
    | .error _ s => (∀ a, s.mem.heap.isLive a = false) ∧ s.mem.managed = []
    | .budget s => (∀ a, s.mem.heap.isLive a = false) ∧ s.mem.managed = []
    | .fault _ => True := by
  unfold VM.run
  cases hr : runSteps bc.code n (({} : VM).start bc) with
  | value v s => exact ⟨(normal_run_leaves_only_the_result bc n v s hr).1, rfl⟩
  | error e s => exact failed_run_leaves_nothing bc n e s hr
  | budget s => exact abandoned_run_leaves_nothing bc n s hr
  | fault site => trivial

end Ledger
end Nl
