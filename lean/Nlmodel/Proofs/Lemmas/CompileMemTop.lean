/-
  C04 for the COMPILE phase, success path and sessions: `compile_ledger_success`,
  `compile_ledger_session` (failure path: `compile_ledger_failure` in CompileMemLedger).
-/
import Nlmodel.Proofs.Lemmas.CompileMemLedger
namespace Nl
namespace CompileMem
open GC

/-! ### (b) the success path -/

theorem nodup_reverse (l : List Nat) (h : l.Nodup) : l.reverse.Nodup := by
  unfold List.Nodup at h ⊢
  rw [List.pairwise_reverse]
  exact h.imp (fun hab => Ne.symm hab)

/-- what `compile_ledger_success` states about the occurrence list `occ`, with
    `w1 = compileAlloc occ` (all occurrences compiled), `w2 = handOver w1`, `w3 = dropCompiler w2`,
    `r = registerPool w3.mem.heap w1.pool` (the run's fresh collector after `maybe_trace` of the pool) -/
structure SuccessLedger (occ : List Const) (w1 w2 w3 : CM) (r : Mem) : Prop where
  /-- one box was allocated per float/string occurrence: the addresses `0 .. n-1` -/
  allocated : w3.mem.heap.cells.size = (occ.filter isHeap).length
  /-- the pool handed to the `Bytecode` is the compiler's pool: ONE box per pool entry, in pool order -/
  handed_eq : w2.handed = w1.pool ∧ w3.handed = w1.pool
  /-- the pool boxes are pairwise distinct -/
  pool_distinct : (w1.pool.map Prod.snd).Nodup
  /-- a pool box is live after the drop of the compiler and holds its constant -/
  pool_live : ∀ e, e ∈ w1.pool → isHeap e.1 = true ∧ w3.mem.heap.get e.2 = cellOf e.1 ∧ ND.Live w3.mem.heap e.2
  /-- after the hand-over the compiler's collector does not manage a pool box; after the drop it manages nothing -/
  pool_unmanaged : (∀ e, e ∈ w1.pool → e.2 ∉ w2.mem.managed) ∧ w3.mem.managed = []
  /-- EVERY allocated box is either a pool box (never freed) or a duplicate box (freed), not both -/
  split : ∀ a, a < w3.mem.heap.cells.size →
    (a ∈ w1.pool.map Prod.snd ∧ a ∉ w1.dups ∧ a ∉ w3.log ∧ ND.Live w3.mem.heap a) ∨
    (a ∈ w1.dups ∧ a ∉ w1.pool.map Prod.snd ∧ a ∈ w3.log ∧ w3.mem.heap.get a = .freed)
  /-- the `free`s of `dropCompiler` are the only ones, there are no two of the same box, they are exactly the
      duplicate boxes, and each hits a cell that is live at that moment -/
  dups_once : w3.log = w2.mem.managed ∧ w3.log.Nodup ∧ (∀ a, a ∈ w3.log ↔ a ∈ w1.dups) ∧ FreesLive w2.mem
  /-- nothing else is live -/
  live_iff : ∀ a, ND.Live w3.mem.heap a ↔ a ∈ w1.pool.map Prod.snd
  /-- THE RUN: `maybe_trace` of the pool constants makes the run's collector manage exactly the pool boxes, each
      once, all live ... -/
  run_registers : r.heap = w3.mem.heap ∧ r.managed = (w1.pool.map Prod.snd).reverse ∧ r.managed.Nodup ∧
    (∀ a, a ∈ r.managed → ND.Live r.heap a)
  /-- ... and its destruction at the end of the run frees each of them exactly once (live at its turn), after
      which NO cell is live and the collector is empty -/
  run_releases : FreesLive r ∧ (∀ a, (GC.destroy r).heap.get a = .freed) ∧ (GC.destroy r).managed = []

theorem succeed_handed (w : CM) (occ : List Const) :
    (succeed occ w).handed = w.handed ++ (compileAllocFrom w occ).pool := by
  show (compileAllocFrom w occ).handed ++ _ = _
  rw [(compileAllocFrom_ghost occ w).2.1]

/-- SUCCESS LEDGER (fresh compiler, empty heap, any occurrence list) -/
theorem compile_ledger_success (occ : List Const) :
    SuccessLedger occ (compileAlloc occ) (handOver (compileAlloc occ)) (dropCompiler (handOver (compileAlloc occ)))
      (registerPool (dropCompiler (handOver (compileAlloc occ))).mem.heap (compileAlloc occ).pool) := by
  generalize hw1 : compileAlloc occ = w1
  generalize hw2 : handOver w1 = w2
  generalize hw3 : dropCompiler w2 = w3
  have hi1 : Inv {} w1 := by rw [← hw1]; exact inv_compileAllocFrom _ (inv_init {})
  have hi2 : Inv {} w2 := by rw [← hw2]; exact inv_handOver hi1
  have hi3 : Inv {} w3 := by rw [← hw3]; exact inv_destroyC hi2
  have hm3 : w3.mem.managed = [] := by rw [← hw3]; rfl
  have hs := settled_of_inv hi3 hm3
  have hg1 := compileAllocFrom_ghost occ {}
  rw [← compileAlloc, hw1] at hg1
  have hh2 : w2.handed = w1.pool := by
    rw [← hw2]; show w1.handed ++ w1.pool = _; rw [hg1.2.1]; rfl
  have hh3 : w3.handed = w1.pool := by rw [← hw3]; exact hh2
  have hl2 : w2.log = [] := by rw [← hw2]; exact hg1.1
  have hlog : w3.log = w2.mem.managed := by
    rw [← hw3]; show w2.log ++ w2.mem.managed = _; rw [hl2]; rfl
  obtain ⟨hm2nd, hm2⟩ := handOver_managed hi1
  rw [hw2] at hm2nd hm2
  have hsz : w3.mem.heap.cells.size = (occ.filter isHeap).length := by
    rw [← hw3, dropCompiler, destroyC_size, ← hw2]
    show w1.mem.heap.cells.size = _
    rw [← hw1]
    have := compileAllocFrom_size occ {}
    simpa [compileAlloc] using this
  have hlogd : ∀ a, a ∈ w3.log ↔ a ∈ w1.dups := by intro a; rw [hlog]; exact hm2 a
  have hreg := registerPool_spec w1.pool { heap := w3.mem.heap, managed := [] } (fun e he => (hi1.poolCell e he).1)
  have hlive : ∀ a, ND.Live w3.mem.heap a ↔ a ∈ w1.pool.map Prod.snd := by
    intro a; rw [← hh3]; exact hs.live_iff a (Nat.zero_le _)
  have hrh : (registerPool w3.mem.heap w1.pool).heap = w3.mem.heap := hreg.1
  have hrm : (registerPool w3.mem.heap w1.pool).managed = (w1.pool.map Prod.snd).reverse := by
    have := hreg.2; simpa [registerPool] using this
  have hrnd : (registerPool w3.mem.heap w1.pool).managed.Nodup := by
    rw [hrm]; exact nodup_reverse _ hi1.poolND
  have hrl : ∀ a, a ∈ (registerPool w3.mem.heap w1.pool).managed → ND.Live (registerPool w3.mem.heap w1.pool).heap a := by
    intro a ha; rw [hrh]; rw [hrm] at ha; exact (hlive a).2 (List.mem_reverse.1 ha)
  refine ⟨hsz, ⟨hh2, hh3⟩, hi1.poolND, ?_, ⟨?_, hm3⟩, ?_, ⟨hlog, hs.log_nodup, hlogd, ?_⟩, hlive,
    ⟨hrh, hrm, hrnd, hrl⟩, ⟨?_, ?_, rfl⟩⟩
  · intro e he
    have he3 : e ∈ w3.handed := by rw [hh3]; exact he
    obtain ⟨_, _, a, b⟩ := hs.handed_cell e he3
    exact ⟨a, b, (hlive e.2).2 (List.mem_map.2 ⟨e, he, rfl⟩)⟩
  · intro e he hm
    have hd : e.2 ∈ w1.dups := (hm2 e.2).1 hm
    exact hi1.dupPool e.2 hd (List.mem_map.2 ⟨e, he, rfl⟩)
  · intro a ha
    rcases hs.split a (Nat.zero_le _) ha with ⟨x, y, z⟩ | ⟨x, y, z⟩
    · right
      have hd := (hlogd a).1 x
      exact ⟨hd, hi1.dupPool a hd, x, z⟩
    · left
      rw [hh3] at x
      exact ⟨x, fun hd => y ((hlogd a).2 hd), y, z⟩
  · intro pre a post e
    exact destroyC_frees_live hi2 pre a post e
  · intro pre a post e
    exact Ledger.freeAll_once _ _ hrnd hrl pre a post e
  · intro a
    show (freeAll (registerPool w3.mem.heap w1.pool).heap (registerPool w3.mem.heap w1.pool).managed).get a = .freed
    by_cases ha : a ∈ (registerPool w3.mem.heap w1.pool).managed
    · exact Ledger.freeAll_dead _ _ _ ha
    · apply Ledger.freeAll_get_freed
      rw [hrh]
      rw [hrm, List.mem_reverse] at ha
      have : ¬ ND.Live w3.mem.heap a := fun hl => ha ((hlive a).1 hl)
      unfold ND.Live at this
      exact Classical.not_not.1 this

/-! ### (d) sessions -/

theorem comp_pool_nil (c : Comp) (w : CM) : (c.run w).pool = [] := by
  cases c <;> rfl

theorem runSession_snoc (cs : List Comp) (c : Comp) (w : CM) :
    runSession (cs ++ [c]) w = c.run (runSession cs w) := by
  simp [runSession, List.foldl_append]

theorem runSession_append (pre post : List Comp) (w : CM) :
    runSession (pre ++ post) w = runSession post (runSession pre w) := by
  simp [runSession, List.foldl_append]

theorem runSession_pool_nil (cs : List Comp) : ∀ (w : CM), w.pool = [] → (runSession cs w).pool = [] := by
  induction cs with
  | nil => intro w h; exact h
  | cons c cs ih =>
    intro w _
    simp only [runSession, List.foldl_cons] at ih ⊢
    exact ih _ (comp_pool_nil c w)

theorem destroyC_ghost (w : CM) : w.log <+: (destroyC w).log ∧ (destroyC w).handed = w.handed :=
  ⟨List.prefix_append _ _, rfl⟩

theorem comp_ghost (c : Comp) (w : CM) : w.log <+: (c.run w).log ∧ w.handed <+: (c.run w).handed := by
  cases c with
  | ok occ =>
    constructor
    · show w.log <+: (compileAllocFrom w occ).log
      rw [(compileAllocFrom_ghost occ w).1]; exact List.prefix_refl _
    · rw [Comp.run, succeed_handed]; exact List.prefix_append _ _
  | fail occ k =>
    constructor
    · show w.log <+: (compileAllocFrom w (occ.take k)).log ++ _
      rw [(compileAllocFrom_ghost _ w).1]; exact List.prefix_append _ _
    · show w.handed <+: (compileAllocFrom w (occ.take k)).handed
      rw [(compileAllocFrom_ghost _ w).2.1]; exact List.prefix_refl _

theorem runSession_ghost (cs : List Comp) : ∀ (w : CM),
    w.log <+: (runSession cs w).log ∧ w.handed <+: (runSession cs w).handed := by
  induction cs with
  | nil => intro w; exact ⟨List.prefix_refl _, List.prefix_refl _⟩
  | cons c cs ih =>
    intro w
    simp only [runSession, List.foldl_cons] at ih ⊢
    obtain ⟨a1, a2⟩ := ih (c.run w)
    obtain ⟨b1, b2⟩ := comp_ghost c w
    exact ⟨b1.trans a1, b2.trans a2⟩

/-- the duplicates the compiler's collector holds BETWEEN two compilations of a session: the collector manages
    exactly them, each once; they are live and have not been freed -/
structure Pending (w : CM) : Prop where
  pool_nil : w.pool = []
  managed_nodup : w.mem.managed.Nodup
  managed_iff : ∀ a, a ∈ w.mem.managed ↔ a ∈ w.dups
  dups_live : ∀ a, a ∈ w.dups → ND.Live w.mem.heap a ∧ a ∉ w.log ∧ a ∉ w.handed.map Prod.snd

theorem pending_of_inv {h0 : Heap} {w : CM} (h : Inv h0 w) (hp : w.pool = []) : Pending w := by
  have hiff : ∀ a, a ∈ w.mem.managed ↔ a ∈ w.dups := by
    intro a; rw [h.manIff a, hp]; simp
  refine ⟨hp, h.manND, hiff, fun a ha => ?_⟩
  have hm := (hiff a).2 ha
  have hl := (h.manLive a hm).2
  refine ⟨hl, fun x => hl (h.logFreed a x).2.2, fun x => ?_⟩
  obtain ⟨e, he, hea⟩ := List.mem_map.1 x
  have := (h.handCell e he).2.2.2
  rw [hea] at this
  exact this hm

/-- a successful compilation keeps the pending duplicates managed (and adds its own) -/
theorem succeed_keeps_dups (occ : List Const) (w : CM) (a : Nat) (ha : a ∈ w.dups) : a ∈ (succeed occ w).dups :=
  (compileAllocFrom_ghost occ w).2.2 a ha

/-- a failed compilation frees them -/
theorem fail_frees_dups {h0 : Heap} {w : CM} (h : Inv h0 w) (occ : List Const) (k : Nat) (a : Nat) (ha : a ∈ w.dups) :
    a ∈ (failAfter k occ w).log ∧ (failAfter k occ w).dups = [] := by
  refine ⟨?_, rfl⟩
  have hi := inv_compileAllocFrom (occ.take k) h
  have hd := (compileAllocFrom_ghost (occ.take k) w).2.2 a ha
  exact List.mem_append_right _ ((hi.manIff a).2 (Or.inl hd))

/-- the final drop frees them -/
theorem drop_frees_dups {h0 : Heap} {w : CM} (h : Inv h0 w) (a : Nat) (ha : a ∈ w.dups) : a ∈ (dropCompiler w).log :=
  List.mem_append_right _ ((h.manIff a).2 (Or.inl ha))

/-- SESSION LEDGER: one compiler, created on the heap `h0`, performs the compilations `cs` - each succeeding, or
    failing after its `k`-th occurrence - and is dropped at the end (`wEnd`).
    * `final`: at the end every box any of the compilations allocated has been freed exactly once or was handed
      over with a pool (live, holding its constant, pairwise distinct); cells of `h0` are untouched;
    * `between`: before each compilation (after any prefix `pre` of the session) the collector holds exactly the
      pending duplicates of the earlier successful compilations (live, not freed); what has been freed / handed
      over so far is a prefix of the final log / hand-over list (nothing is ever freed again: `final.log_nodup`);
    * `carried`/`released`/`dropped`: pending duplicates survive a success, are freed by the next failure, or
      else by the final drop;
    * `frees_live`: every `free` of the final drop hits a live cell (for the failures: `failure_settles`). -/
structure SessionLedger (h0 : Heap) (cs : List Comp) (w0 wEnd : CM) : Prop where
  final : Settled h0 wEnd
  between : ∀ pre post, cs = pre ++ post →
    Pending (runSession pre w0) ∧ (runSession pre w0).log <+: wEnd.log ∧ (runSession pre w0).handed <+: wEnd.handed
  carried : ∀ pre occ post, cs = pre ++ Comp.ok occ :: post →
    ∀ a, a ∈ (runSession pre w0).dups → a ∈ (runSession (pre ++ [Comp.ok occ]) w0).dups
  released : ∀ pre occ k post, cs = pre ++ Comp.fail occ k :: post →
    ∀ a, a ∈ (runSession pre w0).dups →
      a ∈ (runSession (pre ++ [Comp.fail occ k]) w0).log ∧ (runSession (pre ++ [Comp.fail occ k]) w0).dups = []
  dropped : ∀ a, a ∈ (runSession cs w0).dups → a ∈ wEnd.log
  frees_live : FreesLive (runSession cs w0).mem

theorem compile_ledger_session (h0 : Heap) (cs : List Comp) :
    SessionLedger h0 cs { mem := { heap := h0, managed := [] } }
      (dropCompiler (runSession cs { mem := { heap := h0, managed := [] } })) := by
  generalize hw0 : ({ mem := { heap := h0, managed := [] } } : CM) = w0
  have hi0 : Inv h0 w0 := by rw [← hw0]; exact inv_init h0
  have hp0 : w0.pool = [] := by rw [← hw0]
  have hi : ∀ pre, Inv h0 (runSession pre w0) := fun pre => inv_runSession pre hi0
  refine ⟨settled_of_inv (inv_destroyC (hi cs)) rfl, ?_, ?_, ?_, ?_, ?_⟩
  · intro pre post e
    subst e
    refine ⟨pending_of_inv (hi pre) (runSession_pool_nil pre w0 hp0), ?_, ?_⟩
    · rw [runSession_append]
      exact (runSession_ghost post _).1.trans (destroyC_ghost _).1
    · rw [runSession_append]
      have := (runSession_ghost post (runSession pre w0)).2
      exact this
  · intro pre occ post _ a ha
    rw [runSession_snoc]
    exact succeed_keeps_dups occ _ a ha
  · intro pre occ k post _ a ha
    rw [runSession_snoc]
    exact fail_frees_dups (hi pre) occ k a ha
  · intro a ha
    exact drop_frees_dups (hi cs) a ha
  · intro pre a post e
    exact destroyC_frees_live (hi cs) pre a post e

end CompileMem
end Nl
