/- Stage 7: the function literals of a tree with their places in the emitted code (`lits..`, mirroring `emit..`), the
   hypothesis "every literal of this node is in the function table at its place" (`Ft..`), the static side conditions
   and the well-formedness of the world for the stage-7 fragment. -/
import Nlmodel.Proofs.Lemmas.Sim7Frag
namespace Nl
namespace Sim7
open Spec Sim Sim6
open SimH (AMap isStrCell isArrCell Grow PoolH MemOK sameKind)
open SimF (FT FnInfo FTInj paramScope bigScope)

/-! ## the function literals of a tree, laid out like the code -/

mutual
/-- the function literals of an expression emitted at `pos` with pool `cs` (nested ones included, in code order):
    function id ↦ entry point (`pos + 3` of the literal), parameters, locals count, body, pool at emission, and the
    global scope `Δ` the body may use -/
def litsE (Δ : Gam) : RExpr → Nat → LoopCtx → List Const → List (Nat × FnInfo)
  | .int _, _, _, _ => []
  | .float _, _, _, _ => []
  | .str _, _, _, _ => []
  | .bool _, _, _, _ => []
  | .var _, _, _, _ => []
  | .not r, pos, lp, cs => litsE Δ r pos lp cs
  | .neg r, pos, lp, cs => litsE Δ r pos lp cs
  | .assignVar _ e, pos, lp, cs => litsE Δ e pos lp cs
  | .assignIndex l i v, pos, lp, cs =>
    litsE Δ l pos lp cs ++ (litsE Δ i (pos + sizeE l) lp (emitE l pos lp cs).2 ++
      litsE Δ v (pos + sizeE l + sizeE i) lp (emitE i (pos + sizeE l) lp (emitE l pos lp cs).2).2)
  | .infix l op r, pos, lp, cs =>
    match fusedCandidate l op r with
    | some _ => []
    | none => litsE Δ l pos lp cs ++ litsE Δ r (pos + sizeE l) lp (emitE l pos lp cs).2
  | .ifE c t e, pos, lp, cs =>
    litsE Δ c pos lp cs ++ (litsB Δ t (pos + sizeE c + 3) lp (emitE c pos lp cs).2 ++
      litsO Δ e (pos + sizeE c + 3 + sizeBV t + 3) lp (emitB t (pos + sizeE c + 3) lp (emitE c pos lp cs).2).2)
  | .whileE c b, pos, _, cs =>
    litsE Δ c (pos + 1) (some (pos + 1, pos + 1 + sizeE c + 4 + sizeBV b + 3)) cs ++
      litsB Δ b (pos + 1 + sizeE c + 4) (some (pos + 1, pos + 1 + sizeE c + 4 + sizeBV b + 3))
        (emitE c (pos + 1) (some (pos + 1, pos + 1 + sizeE c + 4 + sizeBV b + 3)) cs).2
  | .func fid _ ps nl body, pos, _, cs => (fid, ⟨pos + 3, ps, nl, body, cs, Δ⟩) :: litsB Δ body (pos + 3) none cs
  | .call f as, pos, lp, cs => litsEs Δ as pos lp cs ++ litsE Δ f (pos + sizeEs as) lp (emitEs as pos lp cs).2
  | .callBuiltin _ as, pos, lp, cs => litsEs Δ as pos lp cs
  | .arr vs, pos, lp, cs => litsEs Δ vs pos lp cs
  | .index l i, pos, lp, cs => litsE Δ l pos lp cs ++ litsE Δ i (pos + sizeE l) lp (emitE l pos lp cs).2
def litsEs (Δ : Gam) : RExprs → Nat → LoopCtx → List Const → List (Nat × FnInfo)
  | .nil, _, _, _ => []
  | .cons e es, pos, lp, cs => litsE Δ e pos lp cs ++ litsEs Δ es (pos + sizeE e) lp (emitE e pos lp cs).2
def litsS (Δ : Gam) : RStmt → Nat → LoopCtx → List Const → List (Nat × FnInfo)
  | .expr e, pos, lp, cs => litsE Δ e pos lp cs
  | .letS _ e, pos, lp, cs => litsE Δ e pos lp cs
  | .ret e, pos, lp, cs => litsE Δ e pos lp cs
  | .block b, pos, lp, cs => litsB Δ b pos lp cs
  | .brk, _, _, _ => []
  | .cont, _, _, _ => []
def litsB (Δ : Gam) : RBlock → Nat → LoopCtx → List Const → List (Nat × FnInfo)
  | .nil, _, _, _ => []
  | .cons s b, pos, lp, cs => litsS Δ s pos lp cs ++ litsB Δ b (pos + sizeS s) lp (emitS s pos lp cs).2
def litsO (Δ : Gam) : ROptBlock → Nat → LoopCtx → List Const → List (Nat × FnInfo)
  | .none, _, _, _ => []
  | .some b, pos, lp, cs => litsB Δ b pos lp cs
end

/-- every function literal of the expression, emitted at `pos` with pool `cs`, is in the table at its place -/
def FtE (ft : FT) (Δ : Gam) (e : RExpr) (pos : Nat) (lp : LoopCtx) (cs : List Const) : Prop :=
  ∀ q ∈ litsE Δ e pos lp cs, ft q.1 = some q.2
def FtEs (ft : FT) (Δ : Gam) (es : RExprs) (pos : Nat) (lp : LoopCtx) (cs : List Const) : Prop :=
  ∀ q ∈ litsEs Δ es pos lp cs, ft q.1 = some q.2
def FtS (ft : FT) (Δ : Gam) (s : RStmt) (pos : Nat) (lp : LoopCtx) (cs : List Const) : Prop :=
  ∀ q ∈ litsS Δ s pos lp cs, ft q.1 = some q.2
def FtB (ft : FT) (Δ : Gam) (b : RBlock) (pos : Nat) (lp : LoopCtx) (cs : List Const) : Prop :=
  ∀ q ∈ litsB Δ b pos lp cs, ft q.1 = some q.2
def FtO (ft : FT) (Δ : Gam) (o : ROptBlock) (pos : Nat) (lp : LoopCtx) (cs : List Const) : Prop :=
  ∀ q ∈ litsO Δ o pos lp cs, ft q.1 = some q.2

section ft
variable {ft : FT} {Δ : Gam} {pos : Nat} {lp : LoopCtx} {cs : List Const}

theorem FtE.not {r : RExpr} (h : FtE ft Δ (.not r) pos lp cs) : FtE ft Δ r pos lp cs := by
  simpa only [FtE, litsE] using h
theorem FtE.neg {r : RExpr} (h : FtE ft Δ (.neg r) pos lp cs) : FtE ft Δ r pos lp cs := by
  simpa only [FtE, litsE] using h
theorem FtE.assignVar {r : Ref} {e : RExpr} (h : FtE ft Δ (.assignVar r e) pos lp cs) : FtE ft Δ e pos lp cs := by
  simpa only [FtE, litsE] using h
theorem FtE.infix {l r : RExpr} {op : BinOp} (hnf : fusedCandidate l op r = none) (h : FtE ft Δ (.infix l op r) pos lp cs) :
    FtE ft Δ l pos lp cs ∧ FtE ft Δ r (pos + sizeE l) lp (emitE l pos lp cs).2 := by
  simpa only [FtE, litsE, hnf, List.forall_mem_append] using h
theorem FtE.index {l i : RExpr} (h : FtE ft Δ (.index l i) pos lp cs) :
    FtE ft Δ l pos lp cs ∧ FtE ft Δ i (pos + sizeE l) lp (emitE l pos lp cs).2 := by
  simpa only [FtE, litsE, List.forall_mem_append] using h
theorem FtE.assignIndex {l i v : RExpr} (h : FtE ft Δ (.assignIndex l i v) pos lp cs) :
    FtE ft Δ l pos lp cs ∧ FtE ft Δ i (pos + sizeE l) lp (emitE l pos lp cs).2 ∧
      FtE ft Δ v (pos + sizeE l + sizeE i) lp (emitE i (pos + sizeE l) lp (emitE l pos lp cs).2).2 := by
  simpa only [FtE, litsE, List.forall_mem_append] using h
theorem FtE.arr {vs : RExprs} (h : FtE ft Δ (.arr vs) pos lp cs) : FtEs ft Δ vs pos lp cs := by
  simpa only [FtE, FtEs, litsE] using h
theorem FtE.builtin {b : Builtin} {as : RExprs} (h : FtE ft Δ (.callBuiltin b as) pos lp cs) : FtEs ft Δ as pos lp cs := by
  simpa only [FtE, FtEs, litsE] using h
theorem FtE.call {f : RExpr} {as : RExprs} (h : FtE ft Δ (.call f as) pos lp cs) :
    FtEs ft Δ as pos lp cs ∧ FtE ft Δ f (pos + sizeEs as) lp (emitEs as pos lp cs).2 := by
  simpa only [FtE, FtEs, litsE, List.forall_mem_append] using h
theorem FtE.ifE {c : RExpr} {t : RBlock} {e : ROptBlock} (h : FtE ft Δ (.ifE c t e) pos lp cs) :
    FtE ft Δ c pos lp cs ∧ FtB ft Δ t (pos + sizeE c + 3) lp (emitE c pos lp cs).2 ∧
      FtO ft Δ e (pos + sizeE c + 3 + sizeBV t + 3) lp (emitB t (pos + sizeE c + 3) lp (emitE c pos lp cs).2).2 := by
  simpa only [FtE, FtB, FtO, litsE, List.forall_mem_append] using h
theorem FtE.whileE {c : RExpr} {b : RBlock} (h : FtE ft Δ (.whileE c b) pos lp cs) :
    FtE ft Δ c (pos + 1) (some (pos + 1, pos + 1 + sizeE c + 4 + sizeBV b + 3)) cs ∧
      FtB ft Δ b (pos + 1 + sizeE c + 4) (some (pos + 1, pos + 1 + sizeE c + 4 + sizeBV b + 3))
        (emitE c (pos + 1) (some (pos + 1, pos + 1 + sizeE c + 4 + sizeBV b + 3)) cs).2 := by
  simpa only [FtE, FtB, litsE, List.forall_mem_append] using h
theorem FtE.func {fid : Nat} {self : Option Ref} {ps : List Nat} {nl : Nat} {body : RBlock}
    (h : FtE ft Δ (.func fid self ps nl body) pos lp cs) :
    ft fid = some ⟨pos + 3, ps, nl, body, cs, Δ⟩ ∧ FtB ft Δ body (pos + 3) none cs := by
  simpa only [FtE, FtB, litsE, List.forall_mem_cons] using h
theorem FtEs.cons {e : RExpr} {es : RExprs} (h : FtEs ft Δ (.cons e es) pos lp cs) :
    FtE ft Δ e pos lp cs ∧ FtEs ft Δ es (pos + sizeE e) lp (emitE e pos lp cs).2 := by
  simpa only [FtE, FtEs, litsEs, List.forall_mem_append] using h
theorem FtS.expr {e : RExpr} (h : FtS ft Δ (.expr e) pos lp cs) : FtE ft Δ e pos lp cs := by
  simpa only [FtE, FtS, litsS] using h
theorem FtS.letS {r : Ref} {e : RExpr} (h : FtS ft Δ (.letS r e) pos lp cs) : FtE ft Δ e pos lp cs := by
  simpa only [FtE, FtS, litsS] using h
theorem FtS.ret {e : RExpr} (h : FtS ft Δ (.ret e) pos lp cs) : FtE ft Δ e pos lp cs := by
  simpa only [FtE, FtS, litsS] using h
theorem FtS.block {b : RBlock} (h : FtS ft Δ (.block b) pos lp cs) : FtB ft Δ b pos lp cs := by
  simpa only [FtB, FtS, litsS] using h
theorem FtB.cons {s : RStmt} {b : RBlock} (h : FtB ft Δ (.cons s b) pos lp cs) :
    FtS ft Δ s pos lp cs ∧ FtB ft Δ b (pos + sizeS s) lp (emitS s pos lp cs).2 := by
  simpa only [FtB, FtS, litsB, List.forall_mem_append] using h
theorem FtB.single {s : RStmt} (h : FtB ft Δ (.cons s .nil) pos lp cs) : FtS ft Δ s pos lp cs := h.cons.1
theorem FtO.some {b : RBlock} (h : FtO ft Δ (.some b) pos lp cs) : FtB ft Δ b pos lp cs := by
  simpa only [FtB, FtO, litsO] using h

end ft

/-! ## static side conditions, the world -/

/-- the static side conditions on scopes (stage 6's, plus: the persistent scope `Δ` of the fragment is part of the
    persistent scope of the run) -/
structure Sc7 (W : World) (Δ : Gam) (fn : Bool) (Γ Γx Λ : Gam) : Prop where
  okb : GamOK (bigScope fn Γ Γx)
  okl : GamOK Λ
  sub : ∀ p ∈ Γ, p ∈ bigScope fn Γ Γx
  psub : ∀ p ∈ W.Γp, p ∈ bigScope fn Γ Γx
  pi : ∀ p ∈ Δ, p ∈ W.Γp

/-- an entry of the function table: the body's code is where the entry says, the body lies in the fragment as a function
    body over the entry's global scope, and every literal nested in the body is in the table at its place -/
def FnOK7 (W : World) (info : FnInfo) : Prop :=
  CodeAt W.C info.ip (asFnBody info.body (emitB info.body info.ip none info.cs).1) ∧
  Ext (emitB info.body info.ip none info.cs).2 W.CS ∧
  (∃ Γ1 Λ1, Z7B info.Γg info.nl true info.Γg (paramScope info.ps) false info.body Γ1 Λ1) ∧
  GamOK (paramScope info.ps) ∧ (∀ p ∈ paramScope info.ps, p.2 < info.nl) ∧
  FtB W.ft info.Γg info.body info.ip none info.cs

structure WOK7 (W : World) : Prop where
  inj : FTInj W.ft
  fns : ∀ fid info, W.ft fid = some info → FnOK7 W info
  cfn : ∀ (k ip nl : Nat), W.CS[k]? = some (Const.fn ip nl) → W.s0.cvals[k]? = some (Value.fn ip nl)

theorem WOK7.at {W : World} (h : WOK7 W) (Γ : Gam) : WOK7 (W.at Γ) := ⟨h.inj, h.fns, h.cfn⟩

end Sim7
end Nl
