/- Stage 8 contains stage 7: every judgment of the stage-7 fragment is a judgment of the stage-8 fragment (expressions of
   stage 7 declare nothing: the scopes after are the scopes before), and every top-level program of `ZTop7` is one of `ZTop8`. -/
import Nlmodel.Proofs.Lemmas.Sim8Check
namespace Nl
namespace Sim8
open Spec Sim Sim6 Sim7
open SimF (FT FnInfo paramScope)

mutual
theorem emb_E {Δ : Gam} : (e : RExpr) → ∀ {nl : Nat} {fn : Bool} {Γ Λ : Gam} {ab : Bool}, Z7E Δ nl fn Γ Λ ab e → Z8E Δ nl fn Γ Λ ab e Γ Λ
  | .int v, _, _, _, _, _, h => by cases h; exact .int _ _ _ v
  | .bool b, _, _, _, _, _, h => by cases h; exact .bool _ _ _ b
  | .str s, _, _, _, _, _, h => by cases h; exact .str _ _ _ s
  | .float x, _, _, _, _, _, h => by cases h with | float _ _ _ _ hx => exact .float _ _ _ x hx
  | .var _, _, _, _, _, _, h => by
    cases h with
    | varG _ _ _ b k hm => exact .varG _ _ _ b k hm
    | varL _ _ _ b k hm hk => exact .varL _ _ _ b k hm hk
  | .not r, _, _, _, _, _, h => by cases h with | not _ _ _ _ h1 => exact .not _ _ _ r _ _ (emb_E r h1)
  | .neg r, _, _, _, _, _, h => by cases h with | neg _ _ _ _ h1 => exact .neg _ _ _ r _ _ (emb_E r h1)
  | .assignVar _ e, _, _, _, _, _, h => by
    cases h with
    | assignG _ _ _ b k _ hm h1 => exact .assignG _ _ _ b k e _ _ hm (emb_E e h1)
    | assignL _ _ _ b k _ hm hk h1 => exact .assignL _ _ _ b k e _ _ hm hk (emb_E e h1)
  | .infix l op r, _, _, _, _, _, h => by
    cases h with
    | bin _ _ _ _ _ _ hnf hl hr => exact .bin _ _ _ l op r _ _ _ _ hnf (emb_E l hl) (emb_E r hr)
    | fusedL _ _ _ b k _ v hm hk hfc => exact .fusedL _ _ _ b k op v hm hk hfc
    | fusedR _ _ _ b k _ op' v hm hk hmir => exact .fusedR _ _ _ b k op op' v hm hk hmir
  | .ifE c t e, _, _, _, _, _, h => by
    cases h with
    | ifE _ _ _ _ _ _ Γ1 Λ1 hc ht he => exact .ifE _ _ _ c t e _ _ Γ1 Λ1 (emb_E c hc) (emb_B t ht) (emb_O e he)
  | .whileE c b, _, _, _, _, _, h => by
    cases h with
    | whileE _ _ _ _ _ Γ1 Λ1 hc hb => exact .whileE _ _ _ c b _ _ Γ1 Λ1 (emb_E c hc) (emb_B b hb)
  | .arr vs, _, _, _, _, _, h => by cases h with | arr _ _ _ _ hvs => exact .arr _ _ _ vs _ _ (emb_Es vs hvs)
  | .callBuiltin b as, _, _, _, _, _, h => by cases h with | builtin _ _ _ _ _ has => exact .builtin _ _ _ b as _ _ (emb_Es as has)
  | .index l i, _, _, _, _, _, h => by
    cases h with | index _ _ _ _ _ hl hi => exact .index _ _ _ l i _ _ _ _ (emb_E l hl) (emb_E i hi)
  | .assignIndex l i v, _, _, _, _, _, h => by
    cases h with
    | assignIndex _ _ _ _ _ _ hl hi hv => exact .assignIndex _ _ _ l i v _ _ _ _ _ _ (emb_E l hl) (emb_E i hi) (emb_E v hv)
  | .call f as, _, _, _, _, _, h => by
    cases h with | call _ _ _ _ _ has hf => exact .call _ _ _ f as _ _ _ _ (emb_Es as has) (emb_E f hf)
  | .func fid _ ps nlf body, _, _, _, _, _, h => by
    cases h with
    | func _ _ _ _ _ _ _ Γb Λb hb hpok hpsz => exact .func _ _ _ fid ps nlf body Γb Λb (emb_B body hb) hpok hpsz
theorem emb_Es {Δ : Gam} : (es : RExprs) → ∀ {nl : Nat} {fn : Bool} {Γ Λ : Gam}, Z7Es Δ nl fn Γ Λ es → Z8Es Δ nl fn Γ Λ es Γ Λ
  | .nil, _, _, _, _, h => by cases h; exact .nil _ _
  | .cons e es, _, _, _, _, h => by cases h with | cons _ _ _ _ he hes => exact .cons _ _ e es _ _ _ _ (emb_E e he) (emb_Es es hes)
theorem emb_O {Δ : Gam} : (o : ROptBlock) → ∀ {nl : Nat} {fn : Bool} {Γ Λ : Gam} {ab : Bool}, Z7O Δ nl fn Γ Λ ab o → Z8O Δ nl fn Γ Λ ab o
  | .none, _, _, _, _, _, h => by cases h; exact .none _ _ _
  | .some b, _, _, _, _, _, h => by cases h with | some _ _ _ _ Γ1 Λ1 hb => exact .some _ _ _ b Γ1 Λ1 (emb_B b hb)
theorem emb_S {Δ : Gam} : (s : RStmt) → ∀ {nl : Nat} {fn : Bool} {Γ Λ Γ1 Λ1 : Gam} {ab : Bool}, Z7S Δ nl fn Γ Λ ab s Γ1 Λ1 → Z8S Δ nl fn Γ Λ ab s Γ1 Λ1
  | .expr e, _, _, _, _, _, _, _, h => by
    cases h with
    | expr _ _ _ _ he => exact .expr _ _ _ e _ _ (emb_E e he)
    | fdefG _ _ _ fid b k ps nlf body Γb Λb hfn hf hb hpok hpsz =>
      exact .expr _ _ _ _ _ _ (.funcG _ _ _ fid b k ps nlf body Γb Λb hfn hf (emb_B body hb) hpok hpsz)
    | fdefL _ _ _ fid b k ps nlf body Γb Λb hfn hf hk hb hpok hpsz =>
      exact .expr _ _ _ _ _ _ (.funcL _ _ _ fid b k ps nlf body Γb Λb hfn hf hk (emb_B body hb) hpok hpsz)
  | .letS _ e, _, _, _, _, _, _, _, h => by
    cases h with
    | letG _ _ _ b k _ hfn hf he => exact .letG _ _ _ b k e _ _ hfn hf (emb_E e he)
    | letL _ _ _ b k _ hfn hf hk he => exact .letL _ _ _ b k e _ _ hfn hf hk (emb_E e he)
  | .ret e, _, _, _, _, _, _, _, h => by cases h with | ret _ _ _ _ hfn he => exact .ret _ _ _ e _ _ hfn (emb_E e he)
  | .block b, _, _, _, _, _, _, _, h => by cases h with | block _ _ _ _ Γ2 Λ2 hb => exact .block _ _ _ b Γ2 Λ2 (emb_B b hb)
  | .brk, _, _, _, _, _, _, _, h => by cases h; exact .brk _ _
  | .cont, _, _, _, _, _, _, _, h => by cases h; exact .cont _ _
theorem emb_B {Δ : Gam} : (b : RBlock) → ∀ {nl : Nat} {fn : Bool} {Γ Λ Γ1 Λ1 : Gam} {ab : Bool}, Z7B Δ nl fn Γ Λ ab b Γ1 Λ1 → Z8B Δ nl fn Γ Λ ab b Γ1 Λ1
  | .nil, _, _, _, _, _, _, _, h => by cases h; exact .nil _ _ _
  | .cons s b, _, _, _, _, _, _, _, h => by
    cases h with | cons _ _ _ Γ2 Λ2 _ _ _ _ hs hb => exact .cons _ _ _ Γ2 Λ2 _ _ s b (emb_S s hs) (emb_B b hb)
end

/-- every top-level program of the stage-7 fragment is one of the stage-8 fragment -/
theorem emb_top : ∀ (b : RBlock) {Γ Γ' : Gam}, ZTop7 Γ b Γ' → ∀ (pos : Nat) (cs : List Const), ∃ D, ZTop8 Γ b pos cs D Γ'
  | .nil, _, _, h, pos, cs => by cases h; exact ⟨[], .nil _ _ _⟩
  | .cons s rest, Γ, Γ', h, pos, cs => by
    cases h with
    | exprS _ _ e _ he hr =>
      obtain ⟨D, hD⟩ := emb_top rest hr (pos + sizeS (.expr e)) (emitS (.expr e) pos none cs).2
      exact ⟨_, .stmt Γ _ Γ Γ' _ rest pos cs D (.exprS Γ Γ [] e (emb_E e he)) hD⟩
    | blockS _ _ b Γ1 Λ1 _ hb hr =>
      obtain ⟨D, hD⟩ := emb_top rest hr (pos + sizeS (.block b)) (emitS (.block b) pos none cs).2
      exact ⟨_, .stmt Γ _ Γ Γ' _ rest pos cs D (.blockS Γ b Γ1 Λ1 (emb_B b hb)) hD⟩
    | letS _ _ b k e _ hf he hr =>
      obtain ⟨D, hD⟩ := emb_top rest hr (pos + sizeS (.letS ⟨b, .global k⟩ e)) (emitS (.letS ⟨b, .global k⟩ e) pos none cs).2
      exact ⟨_, .stmt Γ _ _ Γ' _ rest pos cs D (.letS Γ _ [] b k e hf (emb_E e he)) hD⟩
    | fdef _ _ fid b k ps nlf body Γb Λb _ hf hb hpok hpsz hr =>
      obtain ⟨D, hD⟩ := emb_top rest hr (pos + sizeS (.expr (.func fid (some ⟨b, .global k⟩) ps nlf body)))
        (emitS (.expr (.func fid (some ⟨b, .global k⟩) ps nlf body)) pos none cs).2
      exact ⟨_, .stmt Γ _ _ Γ' _ rest pos cs D (.fdef Γ fid b k ps nlf body Γb Λb hf (emb_B body hb) hpok hpsz) hD⟩

end Sim8
end Nl
