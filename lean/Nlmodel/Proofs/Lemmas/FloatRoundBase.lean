/-
  Exact float model, part 1 (C06): the value of finite magnitude bits, the integer rounding primitive
  and `floorLog2Frac`.

  Every finite binary64 magnitude is an integer multiple of 2^-1074.  `V a` is that integer:
  the real value of magnitude bits `a` is `V a / 2^1074`.  (`V` is defined for every `a : Nat`; for
  `a ≥ infBits` it is the value the bit pattern would have with an unbounded exponent range, which
  makes the "nearest" theorems below slightly stronger than needed.)
-/
import Nlmodel.Model.Float

namespace Nl
namespace F64R
open Nl.F64

-- `2^1074`, `2^1024` etc. are meant to be evaluated (GMP) wherever the elaborator wants a literal
set_option exponentiation.threshold 4096

/-! ## 0. absolute difference on `Nat`, powers of two -/

/-- `|a - b|` for naturals -/
def adist (a b : Nat) : Nat := ((a : Int) - (b : Int)).natAbs

theorem adist_def (a b : Nat) : adist a b = (a - b) + (b - a) := by
  unfold adist; omega

theorem adist_comm (a b : Nat) : adist a b = adist b a := by
  simp only [adist_def]; omega

theorem adist_mul_left (c a b : Nat) : adist (c * a) (c * b) = c * adist a b := by
  unfold adist
  have : ((c * a : Nat) : Int) - ((c * b : Nat) : Int) = (c : Int) * ((a : Int) - (b : Int)) := by
    rw [Int.natCast_mul, Int.natCast_mul, Int.mul_sub]
  rw [this, Int.natAbs_mul, Int.natAbs_natCast]

theorem adist_mul_right (c a b : Nat) : adist (a * c) (b * c) = adist a b * c := by
  rw [Nat.mul_comm a c, Nat.mul_comm b c, adist_mul_left, Nat.mul_comm]

theorem adist_eq_zero {a b : Nat} : adist a b = 0 ↔ a = b := by
  simp only [adist_def]; omega

theorem two_pow_pos' (k : Nat) : 0 < 2 ^ k := Nat.pos_of_ne_zero (by simp)

/-- `2^(u-v) ≤ n/d` is insensitive to the way the exponent is split, and monotone in it -/
theorem le2_mono {n d u v u' v' : Nat} (h : d * 2 ^ u ≤ n * 2 ^ v) (he : u' + v ≤ u + v') :
    d * 2 ^ u' ≤ n * 2 ^ v' := by
  have h1 : d * 2 ^ u' * 2 ^ v ≤ n * 2 ^ v' * 2 ^ v := by
    calc d * 2 ^ u' * 2 ^ v = d * 2 ^ (u' + v) := by rw [Nat.mul_assoc, ← Nat.pow_add]
      _ ≤ d * 2 ^ (u + v') := Nat.mul_le_mul_left _ (Nat.pow_le_pow_right (by decide) he)
      _ = d * 2 ^ u * 2 ^ v' := by rw [Nat.mul_assoc, ← Nat.pow_add]
      _ ≤ n * 2 ^ v * 2 ^ v' := Nat.mul_le_mul_right _ h
      _ = n * 2 ^ v' * 2 ^ v := by rw [Nat.mul_assoc, Nat.mul_assoc, Nat.mul_comm (2 ^ v)]
  exact Nat.le_of_mul_le_mul_right h1 (two_pow_pos' v)

theorem lt2_mono {n d u v u' v' : Nat} (h : n * 2 ^ v < d * 2 ^ u) (he : u + v' ≤ u' + v) :
    n * 2 ^ v' < d * 2 ^ u' := by
  have h1 : n * 2 ^ v' * 2 ^ v < d * 2 ^ u' * 2 ^ v := by
    calc n * 2 ^ v' * 2 ^ v = n * 2 ^ v * 2 ^ v' := by
            rw [Nat.mul_assoc, Nat.mul_assoc, Nat.mul_comm (2 ^ v)]
      _ < d * 2 ^ u * 2 ^ v' := Nat.mul_lt_mul_of_pos_right h (two_pow_pos' v')
      _ = d * 2 ^ (u + v') := by rw [Nat.mul_assoc, ← Nat.pow_add]
      _ ≤ d * 2 ^ (u' + v) := Nat.mul_le_mul_left _ (Nat.pow_le_pow_right (by decide) he)
      _ = d * 2 ^ u' * 2 ^ v := by rw [Nat.mul_assoc, ← Nat.pow_add]
  exact Nat.lt_of_mul_lt_mul_right h1

/-! ## 1. the value of magnitude bits -/

/-- significand: the 52 stored bits, plus the hidden bit unless the exponent field is 0 -/
def sig (a : Nat) : Nat := if a / 2 ^ 52 = 0 then a % 2 ^ 52 else 2 ^ 52 + a % 2 ^ 52

/-- exponent of the unit in the last place, relative to 2^-1074 -/
def ex (a : Nat) : Nat := a / 2 ^ 52 - 1

/-- value of magnitude bits `a` in units of 2^-1074 -/
def V (a : Nat) : Nat := sig a * 2 ^ ex a

/-- the exact value of finite magnitude bits as a fraction -/
def val (a : Nat) : Nat × Nat := (V a, 2 ^ 1074)

theorem sig_lt (a : Nat) : sig a < 2 ^ 53 := by
  unfold sig; split <;> omega

theorem V_zero : V 0 = 0 := by decide

/-- spacing: the next magnitude is exactly one unit in the last place further -/
theorem V_succ (a : Nat) : V (a + 1) = V a + 2 ^ ex a := by
  unfold V sig ex
  by_cases hc : a % 2 ^ 52 + 1 < 2 ^ 52
  · have h1 : (a + 1) / 2 ^ 52 = a / 2 ^ 52 := by omega
    have h2 : (a + 1) % 2 ^ 52 = a % 2 ^ 52 + 1 := by omega
    rw [h1, h2]
    split
    · rw [Nat.succ_mul]
    · rw [← Nat.add_assoc, Nat.succ_mul]
  · have h1 : (a + 1) / 2 ^ 52 = a / 2 ^ 52 + 1 := by omega
    have h2 : (a + 1) % 2 ^ 52 = 0 := by omega
    have h3 : a % 2 ^ 52 = 2 ^ 52 - 1 := by omega
    rw [h1, h2, h3]
    by_cases hz : a / 2 ^ 52 = 0
    · rw [hz]; decide
    · rw [if_neg hz, if_neg (by omega)]
      have : a / 2 ^ 52 + 1 - 1 = (a / 2 ^ 52 - 1) + 1 := by omega
      rw [this, Nat.pow_succ 2 (a / 2 ^ 52 - 1)]
      generalize 2 ^ (a / 2 ^ 52 - 1) = P
      omega

theorem V_lt_succ (a : Nat) : V a < V (a + 1) := by
  rw [V_succ]; exact Nat.lt_add_of_pos_right (two_pow_pos' _)

/-- the value is strictly monotone in the bits -/
theorem V_strictMono {a b : Nat} (h : a < b) : V a < V b := by
  induction b with
  | zero => omega
  | succ b ih =>
    by_cases hab : a = b
    · subst hab; exact V_lt_succ a
    · exact Nat.lt_trans (ih (by omega)) (V_lt_succ b)

theorem V_mono {a b : Nat} (h : a ≤ b) : V a ≤ V b := by
  by_cases hab : a = b
  · subst hab; exact Nat.le_refl _
  · exact Nat.le_of_lt (V_strictMono (by omega))

theorem V_inj {a b : Nat} (h : V a = V b) : a = b := by
  by_cases h1 : a < b
  · have := V_strictMono h1; omega
  · by_cases h2 : b < a
    · have := V_strictMono h2; omega
    · omega

theorem V_lt_iff {a b : Nat} : V a < V b ↔ a < b := by
  constructor
  · intro h
    by_cases hab : a < b
    · exact hab
    · have := V_mono (show b ≤ a by omega); omega
  · exact V_strictMono

theorem V_eq_zero {a : Nat} : V a = 0 ↔ a = 0 := by
  constructor
  · intro h; exact V_inj (h.trans V_zero.symm)
  · intro h; subst h; exact V_zero

/-- `val` is monotone (cross-multiplied) -/
theorem val_strictMono {a b : Nat} (h : a < b) :
    (val a).1 * (val b).2 < (val b).1 * (val a).2 :=
  Nat.mul_lt_mul_of_pos_right (V_strictMono h) (two_pow_pos' _)

/-- every magnitude value is a multiple of `2^k`, or it lies below the binade `[2^52·2^k, …)` -/
theorem V_grid (a k : Nat) : 2 ^ k ∣ V a ∨ (k ≠ 0 ∧ V a < 2 ^ 52 * 2 ^ k) := by
  by_cases hk : k ≤ ex a
  · left
    refine ⟨sig a * 2 ^ (ex a - k), ?_⟩
    unfold V
    obtain ⟨c, hc⟩ : ∃ c, ex a = k + c := ⟨ex a - k, by omega⟩
    rw [hc, Nat.add_sub_cancel_left, Nat.pow_add]
    exact Nat.mul_left_comm _ _ _
  · right
    refine ⟨by omega, ?_⟩
    unfold V
    have h1 : sig a * 2 ^ ex a < 2 ^ 53 * 2 ^ ex a :=
      Nat.mul_lt_mul_of_pos_right (sig_lt a) (two_pow_pos' _)
    have h2 : 2 ^ 53 * 2 ^ ex a = 2 ^ 52 * 2 ^ (ex a + 1) := by
      rw [Nat.pow_succ 2 (ex a)]; generalize 2 ^ ex a = P; omega
    have h3 : 2 ^ (ex a + 1) ≤ 2 ^ k := Nat.pow_le_pow_right (by decide) (by omega)
    have h4 := Nat.mul_le_mul_left (2 ^ 52) h3
    omega

/-- the value of the bit pattern `k·2^52 + q` that `roundMag` assembles (a carry out of the
    significand, `q = 2^53`, lands on the next power of two) -/
theorem V_bits {k q : Nat} (hq : q ≤ 2 ^ 53) (hk : k = 0 ∨ 2 ^ 52 ≤ q) :
    V (k * 2 ^ 52 + q) = q * 2 ^ k := by
  unfold V sig ex
  by_cases h1 : q < 2 ^ 52
  · have hk0 : k = 0 := by omega
    subst hk0
    have h2 : (0 * 2 ^ 52 + q) / 2 ^ 52 = 0 := by omega
    have h3 : (0 * 2 ^ 52 + q) % 2 ^ 52 = q := by omega
    rw [h2, h3]; simp
  · by_cases h2 : q = 2 ^ 53
    · subst h2
      have h3 : (k * 2 ^ 52 + 2 ^ 53) / 2 ^ 52 = k + 2 := by omega
      have h4 : (k * 2 ^ 52 + 2 ^ 53) % 2 ^ 52 = 0 := by omega
      rw [h3, h4, if_neg (by omega)]
      have : k + 2 - 1 = k + 1 := by omega
      rw [this, Nat.pow_succ 2 (k)]; generalize 2 ^ k = P; omega
    · have h3 : (k * 2 ^ 52 + q) / 2 ^ 52 = k + 1 := by omega
      have h4 : (k * 2 ^ 52 + q) % 2 ^ 52 = q - 2 ^ 52 := by omega
      rw [h3, h4, if_neg (by omega)]
      have : k + 1 - 1 = k := by omega
      rw [this]
      have : 2 ^ 52 + (q - 2 ^ 52) = q := by omega
      rw [this]

/-- the largest finite magnitude is `(2^53 - 1)·2^971` -/
theorem V_maxFinite : V (infBits - 1) = (2 ^ 53 - 1) * 2 ^ 2045 := by
  have : infBits - 1 = 2045 * 2 ^ 52 + (2 ^ 53 - 1) := by decide
  rw [this]; exact V_bits (by decide) (Or.inr (by decide))

theorem V_lt_of_finite {a : Nat} (h : a < infBits) : V a ≤ (2 ^ 53 - 1) * 2 ^ 2045 := by
  rw [← V_maxFinite]; exact V_mono (by omega)

/-! ### `toFrac` agrees with `V` -/

theorem absBits_mk (s : Bool) {a : Nat} (h : a < 2 ^ 63) : absBits (mk s a) = a := by
  unfold absBits mk signBit
  rw [UInt64.toNat_ofNat']
  cases s <;> simp <;> omega

theorem isNeg_mk (s : Bool) {a : Nat} (h : a < 2 ^ 63) : isNeg (mk s a) = s := by
  unfold isNeg mk signBit
  rw [UInt64.toNat_ofNat']
  cases s <;> simp <;> omega

/-- the fraction computed by `toFrac`, as a function of the magnitude bits -/
def frac (a : Nat) : Nat × Nat :=
  if a / 2 ^ 52 = 0 then (a % 2 ^ 52, 2 ^ 1074)
  else if 1075 ≤ a / 2 ^ 52 then ((2 ^ 52 + a % 2 ^ 52) * 2 ^ (a / 2 ^ 52 - 1075), 1)
  else (2 ^ 52 + a % 2 ^ 52, 2 ^ (1075 - a / 2 ^ 52))

theorem toFrac_eq_frac (b : Bits) : toFrac b = frac (absBits b) := by
  unfold toFrac decode frac
  generalize absBits b = a
  by_cases h0 : a / 2 ^ 52 = 0
  · simp [h0]
  · by_cases h1 : 1075 ≤ a / 2 ^ 52
    · have h2 : ((a / 2 ^ 52 : Nat) : Int) - 1075 ≥ 0 := by omega
      have h3 : (((a / 2 ^ 52 : Nat) : Int) - 1075).toNat = a / 2 ^ 52 - 1075 := by omega
      simp only [h0, if_false, h1, if_true, h2, h3]
    · have h2 : ¬ (((a / 2 ^ 52 : Nat) : Int) - 1075 ≥ 0) := by omega
      have h3 : (-(((a / 2 ^ 52 : Nat) : Int) - 1075)).toNat = 1075 - a / 2 ^ 52 := by omega
      simp only [h0, if_false, h1, h2, h3]

theorem frac_den_pos (a : Nat) : 0 < (frac a).2 := by
  unfold frac; split
  · exact two_pow_pos' _
  · split
    · exact Nat.one_pos
    · exact two_pow_pos' _

/-- `frac a` and `val a = (V a, 2^1074)` are the same rational number -/
theorem frac_eq_val (a : Nat) : (frac a).1 * 2 ^ 1074 = V a * (frac a).2 := by
  unfold frac V sig ex
  by_cases h0 : a / 2 ^ 52 = 0
  · simp [h0]
  · rw [if_neg h0, if_neg h0]
    by_cases h1 : 1075 ≤ a / 2 ^ 52
    · rw [if_pos h1]
      simp only [Nat.mul_one]
      rw [Nat.mul_assoc, ← Nat.pow_add]
      congr 2; omega
    · rw [if_neg h1]
      simp only
      rw [Nat.mul_assoc, ← Nat.pow_add]
      congr 2; omega

/-- item 1 of the specification: the magnitude of `mk s a` as computed by the model's `toFrac`
    is `V a / 2^1074` -/
theorem toFrac_mk (s : Bool) {a : Nat} (h : a < 2 ^ 63) :
    (toFrac (mk s a)).1 * (val a).2 = (val a).1 * (toFrac (mk s a)).2 ∧ 0 < (toFrac (mk s a)).2 := by
  rw [toFrac_eq_frac, absBits_mk s h]
  exact ⟨frac_eq_val a, frac_den_pos a⟩

/-! ## 2. rounding a fraction to the nearest integer, ties to even -/

/-- `N/D` rounded to the nearest integer, ties to even (the `q'` of `roundMag`) -/
def rne (N D : Nat) : Nat :=
  if 2 * (N % D) > D || (2 * (N % D) = D && (N / D) % 2 = 1) then N / D + 1 else N / D

theorem rne_cases (N D : Nat) (_hD : 0 < D) :
    (rne N D = N / D ∧ 2 * (N % D) ≤ D ∧ (2 * (N % D) = D → (N / D) % 2 = 0)) ∨
    (rne N D = N / D + 1 ∧ D ≤ 2 * (N % D) ∧ (2 * (N % D) = D → (N / D) % 2 = 1)) := by
  unfold rne
  by_cases h1 : 2 * (N % D) > D
  · right; simp [h1]; omega
  · by_cases h2 : 2 * (N % D) = D
    · by_cases h3 : (N / D) % 2 = 1
      · right; simp [h2, h3]
      · left; simp [h2, h3]; omega
    · left; simp [h1, h2]; omega

theorem rne_ge (N D : Nat) : N / D ≤ rne N D := by
  unfold rne; split <;> omega

theorem rne_le (N D : Nat) : rne N D ≤ N / D + 1 := by
  unfold rne; split <;> omega

/-- within half a unit -/
theorem rne_half (N D : Nat) (hD : 0 < D) : 2 * adist (rne N D * D) N ≤ D := by
  have hdm := Nat.div_add_mod N D
  have hm := Nat.mod_lt N hD
  rw [adist_def]
  rcases rne_cases N D hD with ⟨h, h1, _⟩ | ⟨h, h1, _⟩
  · rw [h]
    have : N / D * D = D * (N / D) := Nat.mul_comm _ _
    omega
  · rw [h, Nat.succ_mul (N / D) D]
    have : N / D * D = D * (N / D) := Nat.mul_comm _ _
    omega

/-- nearest: no integer is closer -/
theorem rne_nearest (N D : Nat) (hD : 0 < D) (j : Nat) :
    adist (rne N D * D) N ≤ adist (j * D) N := by
  have hdm := Nat.div_add_mod N D
  have hm := Nat.mod_lt N hD
  have hc : N / D * D = D * (N / D) := Nat.mul_comm _ _
  simp only [adist_def]
  by_cases hj : j ≤ N / D
  · have hjD : j * D ≤ N / D * D := Nat.mul_le_mul_right D hj
    rcases rne_cases N D hD with ⟨h, h1, _⟩ | ⟨h, h1, _⟩
    · rw [h]; omega
    · rw [h, Nat.succ_mul (N / D) D]; omega
  · have hjD : (N / D + 1) * D ≤ j * D := Nat.mul_le_mul_right D (by omega)
    rw [Nat.succ_mul] at hjD
    rcases rne_cases N D hD with ⟨h, h1, _⟩ | ⟨h, h1, _⟩
    · rw [h]; omega
    · rw [h, Nat.succ_mul (N / D) D]; omega

/-- an exact tie is resolved to the even integer -/
theorem rne_tie_even (N D : Nat) (hD : 0 < D) (h : 2 * adist (rne N D * D) N = D) :
    rne N D % 2 = 0 := by
  have hdm := Nat.div_add_mod N D
  have hm := Nat.mod_lt N hD
  have hc : N / D * D = D * (N / D) := Nat.mul_comm _ _
  rw [adist_def] at h
  rcases rne_cases N D hD with ⟨h0, h1, h2⟩ | ⟨h0, h1, h2⟩
  · rw [h0] at h ⊢; apply h2; omega
  · rw [h0] at h ⊢; rw [Nat.succ_mul (N / D) D] at h
    have := h2 (by omega); omega

/-- another integer that is at least as close forces the tie, hence an even result -/
theorem rne_other_even (N D : Nat) (hD : 0 < D) (j : Nat) (hj : j ≠ rne N D)
    (h : adist (j * D) N ≤ adist (rne N D * D) N) : rne N D % 2 = 0 := by
  apply rne_tie_even N D hD
  have hh := rne_half N D hD
  have hsep : rne N D * D + D ≤ j * D ∨ j * D + D ≤ rne N D * D := by
    by_cases hlt : j < rne N D
    · right
      have := Nat.mul_le_mul_right D (show j + 1 ≤ rne N D by omega)
      rw [Nat.succ_mul] at this; exact this
    · left
      have := Nat.mul_le_mul_right D (show rne N D + 1 ≤ j by omega)
      rw [Nat.succ_mul] at this; exact this
  simp only [adist_def] at h hh ⊢
  omega

/-- an exactly representable quotient is returned unchanged -/
theorem rne_exact (q D : Nat) (hD : 0 < D) : rne (q * D) D = q := by
  unfold rne
  rw [Nat.mul_mod_left, Nat.mul_div_cancel _ hD]
  simp; omega

/-! ## 3. `floorLog2Frac n d = ⌊log2 (n/d)⌋`

For an integer exponent `e` we write `e = e.toNat - (-e).toNat`, so `2^e ≤ n/d` is
`d * 2^e.toNat ≤ n * 2^(-e).toNat` (one of the two powers is `2^0`). -/

/-- `2^e ≤ n/d` -/
def Le2 (e : Int) (n d : Nat) : Prop := d * 2 ^ e.toNat ≤ n * 2 ^ (-e).toNat
/-- `n/d < 2^e` -/
def Lt2 (e : Int) (n d : Nat) : Prop := n * 2 ^ (-e).toNat < d * 2 ^ e.toNat

instance (e : Int) (n d : Nat) : Decidable (Le2 e n d) := by unfold Le2; exact inferInstance
instance (e : Int) (n d : Nat) : Decidable (Lt2 e n d) := by unfold Lt2; exact inferInstance

/-- the two readings spelled out by sign of the exponent -/
theorem Le2_nonneg {e : Int} (h : 0 ≤ e) (n d : Nat) : Le2 e n d ↔ d * 2 ^ e.toNat ≤ n := by
  unfold Le2
  have : (-e).toNat = 0 := by omega
  rw [this, Nat.pow_zero, Nat.mul_one]

theorem Le2_neg {e : Int} (h : e < 0) (n d : Nat) : Le2 e n d ↔ d ≤ n * 2 ^ (-e).toNat := by
  unfold Le2
  have : e.toNat = 0 := by omega
  rw [this, Nat.pow_zero, Nat.mul_one]

theorem Lt2_nonneg {e : Int} (h : 0 ≤ e) (n d : Nat) : Lt2 e n d ↔ n < d * 2 ^ e.toNat := by
  unfold Lt2
  have : (-e).toNat = 0 := by omega
  rw [this, Nat.pow_zero, Nat.mul_one]

theorem Lt2_neg {e : Int} (h : e < 0) (n d : Nat) : Lt2 e n d ↔ n * 2 ^ (-e).toNat < d := by
  unfold Lt2
  have : e.toNat = 0 := by omega
  rw [this, Nat.pow_zero, Nat.mul_one]

theorem not_Le2 {e : Int} {n d : Nat} : ¬ Le2 e n d ↔ Lt2 e n d := by
  unfold Le2 Lt2; omega

/-- `floorLog2Frac n d` is the floor of the binary logarithm of `n/d`:
    `2^e ≤ n/d < 2^(e+1)` -/
theorem floorLog2Frac_spec {n d : Nat} (hn : 0 < n) (hd : 0 < d) :
    Le2 (floorLog2Frac n d) n d ∧ Lt2 (floorLog2Frac n d + 1) n d := by
  have hn1 : 2 ^ n.log2 ≤ n := Nat.log2_self_le (by omega)
  have hn2 : n < 2 ^ (n.log2 + 1) := Nat.lt_log2_self
  have hd1 : 2 ^ d.log2 ≤ d := Nat.log2_self_le (by omega)
  have hd2 : d < 2 ^ (d.log2 + 1) := Nat.lt_log2_self
  -- as `Le2`/`Lt2` facts about the fractions n/1 and d/1 … we only need the two sandwich bounds
  have key1 : ∀ a b : Nat, a + d.log2 + 1 = b + n.log2 → d * 2 ^ a ≤ n * 2 ^ b := by
    intro a b hab
    calc d * 2 ^ a ≤ 2 ^ (d.log2 + 1) * 2 ^ a := Nat.mul_le_mul_right _ (Nat.le_of_lt hd2)
      _ = 2 ^ n.log2 * 2 ^ b := by rw [← Nat.pow_add, ← Nat.pow_add]; congr 1; omega
      _ ≤ n * 2 ^ b := Nat.mul_le_mul_right _ hn1
  have key2 : ∀ a b : Nat, a + d.log2 = b + n.log2 + 1 → n * 2 ^ b < d * 2 ^ a := by
    intro a b hab
    calc n * 2 ^ b < 2 ^ (n.log2 + 1) * 2 ^ b := Nat.mul_lt_mul_of_pos_right hn2 (two_pow_pos' _)
      _ = 2 ^ d.log2 * 2 ^ a := by rw [← Nat.pow_add, ← Nat.pow_add]; congr 1; omega
      _ ≤ d * 2 ^ a := Nat.mul_le_mul_right _ hd1
  unfold floorLog2Frac
  simp only
  generalize he0 : ((n.log2 : Int) - (d.log2 : Int)) = e0
  by_cases hge : Le2 e0 n d
  · have hb : (if e0 ≥ 0 then decide (n ≥ d * 2 ^ e0.toNat)
        else decide (n * 2 ^ (-e0).toNat ≥ d)) = true := by
      by_cases h0 : e0 ≥ 0
      · rw [if_pos h0]; exact decide_eq_true ((Le2_nonneg h0 n d).1 hge)
      · rw [if_neg h0]; exact decide_eq_true ((Le2_neg (by omega) n d).1 hge)
    rw [hb]; simp only [if_true]
    exact ⟨hge, key2 _ _ (by omega)⟩
  · have hb : (if e0 ≥ 0 then decide (n ≥ d * 2 ^ e0.toNat)
        else decide (n * 2 ^ (-e0).toNat ≥ d)) = false := by
      by_cases h0 : e0 ≥ 0
      · rw [if_pos h0]; exact decide_eq_false (fun h => hge ((Le2_nonneg h0 n d).2 h))
      · rw [if_neg h0]; exact decide_eq_false (fun h => hge ((Le2_neg (by omega) n d).2 h))
    rw [hb]; simp only [Bool.false_eq_true, if_false]
    refine ⟨key1 _ _ (by omega), ?_⟩
    have : e0 - 1 + 1 = e0 := by omega
    rw [this]; exact not_Le2.1 hge

/-- the floor of the logarithm is unique -/
theorem floorLog2_unique {n d : Nat} (_hd : 0 < d) {e e' : Int}
    (h1 : Le2 e n d) (h2 : Lt2 (e + 1) n d) (h1' : Le2 e' n d) (h2' : Lt2 (e' + 1) n d) : e = e' := by
  unfold Le2 at h1 h1'; unfold Lt2 at h2 h2'
  by_cases hlt : e < e'
  · -- 2^e' ≤ n/d < 2^(e+1) ≤ 2^e'
    have := le2_mono h1' (u' := (e + 1).toNat) (v' := (-(e + 1)).toNat) (by omega)
    omega
  · by_cases hgt : e' < e
    · have := le2_mono h1 (u' := (e' + 1).toNat) (v' := (-(e' + 1)).toNat) (by omega)
      omega
    · omega

theorem floorLog2Frac_eq {n d : Nat} (hn : 0 < n) (hd : 0 < d) {e : Int}
    (h1 : Le2 e n d) (h2 : Lt2 (e + 1) n d) : floorLog2Frac n d = e :=
  let ⟨a, b⟩ := floorLog2Frac_spec hn hd
  floorLog2_unique hd a b h1 h2

end F64R
end Nl
