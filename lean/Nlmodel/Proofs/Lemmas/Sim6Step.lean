/- Stage 6: machine configurations in the frame view (`below ++ locs ++ ops`, frames, memory, output) and one
   lemma per instruction, including `Call`, `Return`, `ReturnValue` (which run the collector). -/
import Nlmodel.Proofs.Lemmas.Sim6Frag
namespace Nl
namespace Sim6
open Spec Sim
open SimF (frame_push frame_local frame_setLocal frame_size frame_truncate pop_frame call_stack)

/-- the machine `s0` in the frame `below ++ locs ++ ops` (base pointer = `below.size`) with suspended callers `fr`,
    memory `m` and output `out` -/
def mk6 (s0 : VM) (ip : Nat) (below locs ops g : Array Value) (l : Value) (fr : List Frame) (m : Mem) (out : List Text) : VM :=
  { s0 with ip := ip, stack := below ++ locs ++ ops, globals := g, last := l, frames := fr, depth := fr.length, bp := below.size,
            mem := m, out := out }

@[simp] theorem mk6_ip (s0 ip below locs ops g l fr m out) : (mk6 s0 ip below locs ops g l fr m out).ip = ip := rfl
@[simp] theorem mk6_stack (s0 ip below locs ops g l fr m out) : (mk6 s0 ip below locs ops g l fr m out).stack = below ++ locs ++ ops := rfl
@[simp] theorem mk6_globals (s0 ip below locs ops g l fr m out) : (mk6 s0 ip below locs ops g l fr m out).globals = g := rfl
@[simp] theorem mk6_last (s0 ip below locs ops g l fr m out) : (mk6 s0 ip below locs ops g l fr m out).last = l := rfl
@[simp] theorem mk6_frames (s0 ip below locs ops g l fr m out) : (mk6 s0 ip below locs ops g l fr m out).frames = fr := rfl
@[simp] theorem mk6_depth (s0 ip below locs ops g l fr m out) : (mk6 s0 ip below locs ops g l fr m out).depth = fr.length := rfl
@[simp] theorem mk6_bp (s0 ip below locs ops g l fr m out) : (mk6 s0 ip below locs ops g l fr m out).bp = below.size := rfl
@[simp] theorem mk6_cvals (s0 ip below locs ops g l fr m out) : (mk6 s0 ip below locs ops g l fr m out).cvals = s0.cvals := rfl
@[simp] theorem mk6_mem (s0 ip below locs ops g l fr m out) : (mk6 s0 ip below locs ops g l fr m out).mem = m := rfl
@[simp] theorem mk6_out (s0 ip below locs ops g l fr m out) : (mk6 s0 ip below locs ops g l fr m out).out = out := rfl

/-- type soundness of the machine's values travels along runs -/
theorem wt_execN {C : Code} : ∀ (n : Nat) (s s' : VM), TI.WT s → execN C n s = some s' → TI.WT s'
  | 0, s, s', h, he => by simp only [execN, Option.some.injEq] at he; subst he; exact h
  | n + 1, s, s', h, he => by
    simp only [execN] at he
    have := TI.step_wt C s h
    cases hs : step C s with
    | next s1 => rw [hs] at he this; exact wt_execN n s1 s' this he
    | halt v s1 => rw [hs] at he; cases he
    | error e s1 => rw [hs] at he; cases he
    | fault site => rw [hs] at he; cases he

section steps
variable {C : Code} {s0 : VM} {i : Nat} {below locs ops g : Array Value} {l : Value} {fr : List Frame} {m : Mem} {out : List Text}
  {rest : List Instr}

theorem step_exec6 {ins : Instr} (h : CodeAt C i (ins :: rest)) :
    step C (mk6 s0 i below locs ops g l fr m out) = exec ins (i + ins.size) (mk6 s0 i below locs ops g l fr m out) := by
  rw [step_at (s := mk6 s0 i below locs ops g l fr m out) (by simpa using h)]; rfl

theorem step6_null (h : CodeAt C i (.null :: rest)) :
    step C (mk6 s0 i below locs ops g l fr m out) = .next (mk6 s0 (i + 1) below locs (ops.push .null) g l fr m out) := by
  rw [step_exec6 h]; simp only [exec, mk6, frame_push, Instr.size]

theorem step6_true (h : CodeAt C i (.true_ :: rest)) :
    step C (mk6 s0 i below locs ops g l fr m out) = .next (mk6 s0 (i + 1) below locs (ops.push (.bool true)) g l fr m out) := by
  rw [step_exec6 h]; simp only [exec, mk6, frame_push, Instr.size]

theorem step6_false (h : CodeAt C i (.false_ :: rest)) :
    step C (mk6 s0 i below locs ops g l fr m out) = .next (mk6 s0 (i + 1) below locs (ops.push (.bool false)) g l fr m out) := by
  rw [step_exec6 h]; simp only [exec, mk6, frame_push, Instr.size]

theorem step6_jump {t : Nat} (h : CodeAt C i (.jump t :: rest)) :
    step C (mk6 s0 i below locs ops g l fr m out) = .next (mk6 s0 t below locs ops g l fr m out) := by
  rw [step_exec6 h]; rfl

/-- a constant that is not a string is pushed as it is (an integer, a function, or the shared box of a float) -/
theorem step6_const {k : Nat} {v : Value} (h : CodeAt C i (.const k :: rest)) (hk : s0.cvals[k]? = some v) (hv : ∀ a, v ≠ .str a) :
    step C (mk6 s0 i below locs ops g l fr m out) = .next (mk6 s0 (i + 3) below locs (ops.push v) g l fr m out) := by
  rw [step_exec6 h]
  cases v <;> simp [exec, hk, mk6, frame_push, Instr.size] at hv ⊢

/-- a string constant is copied -/
theorem step6_const_str {k a0 : Nat} (h : CodeAt C i (.const k :: rest)) (hk : s0.cvals[k]? = some (.str a0)) :
    step C (mk6 s0 i below locs ops g l fr m out) =
      .next (mk6 s0 (i + 3) below locs (ops.push (m.allocStr (m.heap.strAt a0)).2) g l fr (m.allocStr (m.heap.strAt a0)).1 out) := by
  rw [step_exec6 h]
  simp [exec, hk, mk6, frame_push, Instr.size]

theorem step6_getGlobal {k : Nat} (h : CodeAt C i (.getGlobal k :: rest)) :
    step C (mk6 s0 i below locs ops g l fr m out) = .next (mk6 s0 (i + 3) below locs (ops.push (g.getD k .null)) g l fr m out) := by
  rw [step_exec6 h]; simp only [exec, mk6, frame_push, Instr.size]

theorem step6_getLocal {k : Nat} {v : Value} (h : CodeAt C i (.getLocal k :: rest)) (hk : locs[k]? = some v) :
    step C (mk6 s0 i below locs ops g l fr m out) = .next (mk6 s0 (i + 3) below locs (ops.push v) g l fr m out) := by
  rw [step_exec6 h]
  have hlt : k < locs.size := by
    rcases Array.getElem?_eq_some_iff.mp hk with ⟨hlt, _⟩; exact hlt
  simp only [exec, mk6, frame_local below locs ops k hlt, hk, frame_push, Instr.size]

theorem step6_pop {v : Value} (h : CodeAt C i (.pop :: rest)) :
    step C (mk6 s0 i below locs (ops.push v) g l fr m out) = .next (mk6 s0 (i + 1) below locs ops g v fr m out) := by
  rw [step_exec6 h]; simp only [exec, mk6_stack, pop_frame, Instr.size]; rfl

theorem step6_setGlobal {k : Nat} {v : Value} (h : CodeAt C i (.setGlobal k :: rest)) :
    step C (mk6 s0 i below locs (ops.push v) g l fr m out) = .next (mk6 s0 (i + 3) below locs ops (setGlobalArr g k v) l fr m out) := by
  rw [step_exec6 h]
  simp only [exec, mk6_stack, pop_frame, mk6_globals, Instr.size]
  rfl

theorem step6_setLocal {k : Nat} {v : Value} (h : CodeAt C i (.setLocal k :: rest)) (hk : k < locs.size) :
    step C (mk6 s0 i below locs (ops.push v) g l fr m out) = .next (mk6 s0 (i + 3) below (locs.setIfInBounds k v) ops g l fr m out) := by
  rw [step_exec6 h]
  have : below.size + k < (below ++ locs ++ ops).size := by rw [frame_size]; omega
  simp only [exec, mk6_stack, pop_frame, mk6_bp, this, ↓reduceIte, frame_setLocal below locs ops k v hk, Instr.size]
  rfl

theorem step6_jif {t : Nat} {b : Bool} (h : CodeAt C i (.jumpIfFalse t :: rest)) :
    step C (mk6 s0 i below locs (ops.push (.bool b)) g l fr m out) = .next (mk6 s0 (if b then i + 3 else t) below locs ops g l fr m out) := by
  rw [step_exec6 h]; simp only [exec, mk6_stack, pop_frame, Instr.size]; rfl

theorem step6_jif_err {t : Nat} {v : Value} (h : CodeAt C i (.jumpIfFalse t :: rest)) (hv : ∀ b, v ≠ .bool b) :
    ∃ s2, step C (mk6 s0 i below locs (ops.push v) g l fr m out) = .error .type s2 ∧ s2.out = out := by
  rw [step_exec6 h]
  cases v <;> simp only [exec, mk6_stack, pop_frame] <;> first | exact ⟨_, rfl, rfl⟩ | exact absurd rfl (hv _)

theorem step6_not {b : Bool} (h : CodeAt C i (.not :: rest)) :
    step C (mk6 s0 i below locs (ops.push (.bool b)) g l fr m out) = .next (mk6 s0 (i + 1) below locs (ops.push (.bool (!b))) g l fr m out) := by
  rw [step_exec6 h]; simp only [exec, mk6_stack, pop_frame, frame_push, Instr.size]; rfl

theorem step6_not_err {v : Value} (h : CodeAt C i (.not :: rest)) (hv : ∀ b, v ≠ .bool b) :
    ∃ s2, step C (mk6 s0 i below locs (ops.push v) g l fr m out) = .error .type s2 ∧ s2.out = out := by
  rw [step_exec6 h]
  cases v <;> simp only [exec, mk6_stack, pop_frame] <;> first | exact ⟨_, rfl, rfl⟩ | exact absurd rfl (hv _)

theorem step6_neg_int {j : Int} (h : CodeAt C i (.negate :: rest)) (hin : inRange (-j) = true) :
    step C (mk6 s0 i below locs (ops.push (.int j)) g l fr m out) = .next (mk6 s0 (i + 1) below locs (ops.push (.int (-j))) g l fr m out) := by
  rw [step_exec6 h]; simp only [exec, mk6_stack, pop_frame, hin, ↓reduceIte, frame_push, Instr.size]; rfl

theorem step6_neg_int_err {j : Int} (h : CodeAt C i (.negate :: rest)) (hin : ¬ inRange (-j) = true) :
    ∃ s2, step C (mk6 s0 i below locs (ops.push (.int j)) g l fr m out) = .error .type s2 ∧ s2.out = out := by
  rw [step_exec6 h]; simp only [exec, mk6_stack, pop_frame, hin]; exact ⟨_, rfl, rfl⟩

theorem step6_neg_float {a : Nat} (h : CodeAt C i (.negate :: rest)) :
    step C (mk6 s0 i below locs (ops.push (.float a)) g l fr m out) =
      .next (mk6 s0 (i + 1) below locs (ops.push (m.allocFloat (F64.neg (m.heap.floatAt a))).2) g l fr (m.allocFloat (F64.neg (m.heap.floatAt a))).1 out) := by
  rw [step_exec6 h]; simp only [exec, mk6_stack, pop_frame, mk6_mem, frame_push, Instr.size]; rfl

theorem step6_neg_err {v : Value} (h : CodeAt C i (.negate :: rest)) (hi : ∀ j, v ≠ .int j) (hf : ∀ a, v ≠ .float a) :
    ∃ s2, step C (mk6 s0 i below locs (ops.push v) g l fr m out) = .error .type s2 ∧ s2.out = out := by
  rw [step_exec6 h]
  cases v <;> simp only [exec, mk6_stack, pop_frame] <;> first | exact ⟨_, rfl, rfl⟩ | exact absurd rfl (hi _) | exact absurd rfl (hf _)

theorem pop_frame2 (below locs ops : Array Value) (a b : Value) :
    pop1 (below ++ locs ++ (ops.push a).push b) = some (b, below ++ locs ++ ops.push a) := pop_frame below locs (ops.push a) b

theorem step6_bin_ok {op : BinOp} {ma mb v : Value} {m' : Mem} (h : CodeAt C i (.bin op :: rest)) (hb : binop op ma mb m = .ok (v, m')) :
    step C (mk6 s0 i below locs ((ops.push ma).push mb) g l fr m out) = .next (mk6 s0 (i + 1) below locs (ops.push v) g l fr m' out) := by
  rw [step_exec6 h]; simp only [exec, mk6_stack, pop_frame, mk6_mem, hb, frame_push, Instr.size]; rfl

theorem step6_bin_err {op : BinOp} {ma mb : Value} {e : Err} (h : CodeAt C i (.bin op :: rest)) (hb : binop op ma mb m = .error e) :
    ∃ s2, step C (mk6 s0 i below locs ((ops.push ma).push mb) g l fr m out) = .error e s2 ∧ s2.out = out := by
  rw [step_exec6 h]; simp only [exec, mk6_stack, pop_frame, mk6_mem, hb]; exact ⟨_, rfl, rfl⟩

theorem step6_fused_ok {op : BinOp} {k idx : Nat} {ma mb v : Value} {m' : Mem} (h : CodeAt C i (.fused op k idx :: rest))
    (hl : locs[k]? = some ma) (hk : s0.cvals[idx]? = some mb) (hb : binop op ma mb m = .ok (v, m')) :
    step C (mk6 s0 i below locs ops g l fr m out) = .next (mk6 s0 (i + 5) below locs (ops.push v) g l fr m' out) := by
  rw [step_exec6 h]
  have hlt : k < locs.size := by
    rcases Array.getElem?_eq_some_iff.mp hl with ⟨hlt, _⟩; exact hlt
  simp only [exec, mk6_stack, mk6_bp, frame_local below locs ops k hlt, hl, mk6_cvals, hk, mk6_mem, hb, frame_push, Instr.size]
  rfl

theorem step6_fused_err {op : BinOp} {k idx : Nat} {ma mb : Value} {e : Err} (h : CodeAt C i (.fused op k idx :: rest))
    (hl : locs[k]? = some ma) (hk : s0.cvals[idx]? = some mb) (hb : binop op ma mb m = .error e) :
    ∃ s2, step C (mk6 s0 i below locs ops g l fr m out) = .error e s2 ∧ s2.out = out := by
  rw [step_exec6 h]
  have hlt : k < locs.size := by
    rcases Array.getElem?_eq_some_iff.mp hl with ⟨hlt, _⟩; exact hlt
  simp only [exec, mk6_stack, mk6_bp, frame_local below locs ops k hlt, hl, mk6_cvals, hk, mk6_mem, hb]
  exact ⟨_, rfl, rfl⟩

theorem popN_frame (below locs ops : Array Value) (ms : List Value) :
    popN (below ++ locs ++ (ops ++ ms.toArray)) ms.length = some (ms, below ++ locs ++ ops) := by
  have : below ++ locs ++ (ops ++ ms.toArray) = (below ++ locs ++ ops) ++ ms.toArray := by
    apply Array.ext'; simp
  rw [this]; exact SimH.popN_append _ ms

theorem step6_array {n : Nat} {ms : List Value} (h : CodeAt C i (.array n :: rest)) (hn : ms.length = n) :
    step C (mk6 s0 i below locs (ops ++ ms.toArray) g l fr m out) =
      .next (mk6 s0 (i + 3) below locs (ops.push (m.allocArr ms).2) g l fr (m.allocArr ms).1 out) := by
  rw [step_exec6 h]
  subst hn
  simp only [exec, mk6_stack, popN_frame, mk6_mem, frame_push, Instr.size]; rfl

theorem step6_builtin_ok {b : Builtin} {n : Nat} {ms : List Value} {v : Value} {m' : Mem} {out' : List Text}
    (h : CodeAt C i (.callBuiltin b.id n :: rest)) (hn : ms.length = n) (hb : callBuiltin b ms m out = .ok (v, m', out')) :
    step C (mk6 s0 i below locs (ops ++ ms.toArray) g l fr m out) = .next (mk6 s0 (i + 3) below locs (ops.push v) g l fr m' out') := by
  rw [step_exec6 h]
  subst hn
  have hid : Builtin.ofId b.id = some b := by cases b <;> rfl
  simp only [exec, mk6_stack, popN_frame, hid, mk6_mem, mk6_out, hb, frame_push, Instr.size]; rfl

theorem step6_builtin_err {b : Builtin} {n : Nat} {ms : List Value} {e : Err}
    (h : CodeAt C i (.callBuiltin b.id n :: rest)) (hn : ms.length = n) (hb : callBuiltin b ms m out = .error e) :
    ∃ s2, step C (mk6 s0 i below locs (ops ++ ms.toArray) g l fr m out) = .error e s2 ∧ s2.out = out := by
  rw [step_exec6 h]
  subst hn
  have hid : Builtin.ofId b.id = some b := by cases b <;> rfl
  simp only [exec, mk6_stack, popN_frame, hid, mk6_mem, mk6_out, hb]; exact ⟨_, rfl, rfl⟩

theorem step6_indexGet_ok {ma mb v : Value} {m' : Mem} (h : CodeAt C i (.indexGet :: rest)) (hb : indexGet ma mb m = .ok (v, m')) :
    step C (mk6 s0 i below locs ((ops.push ma).push mb) g l fr m out) = .next (mk6 s0 (i + 1) below locs (ops.push v) g l fr m' out) := by
  rw [step_exec6 h]; simp only [exec, mk6_stack, pop_frame, mk6_mem, hb, frame_push, Instr.size]; rfl

theorem step6_indexGet_err {ma mb : Value} {e : Err} (h : CodeAt C i (.indexGet :: rest)) (hb : indexGet ma mb m = .error e) :
    ∃ s2, step C (mk6 s0 i below locs ((ops.push ma).push mb) g l fr m out) = .error e s2 ∧ s2.out = out := by
  rw [step_exec6 h]; simp only [exec, mk6_stack, pop_frame, mk6_mem, hb]; exact ⟨_, rfl, rfl⟩

theorem step6_indexSet_ok {ma mb mc v : Value} {m' : Mem} (h : CodeAt C i (.indexSet :: rest)) (hb : indexSet ma mb mc m = .ok (v, m')) :
    step C (mk6 s0 i below locs (((ops.push ma).push mb).push mc) g l fr m out) = .next (mk6 s0 (i + 1) below locs (ops.push v) g l fr m' out) := by
  rw [step_exec6 h]; simp only [exec, mk6_stack, pop_frame, mk6_mem, hb, frame_push, Instr.size]; rfl

theorem step6_indexSet_err {ma mb mc : Value} {e : Err} (h : CodeAt C i (.indexSet :: rest)) (hb : indexSet ma mb mc m = .error e) :
    ∃ s2, step C (mk6 s0 i below locs (((ops.push ma).push mb).push mc) g l fr m out) = .error e s2 ∧ s2.out = out := by
  rw [step_exec6 h]; simp only [exec, mk6_stack, pop_frame, mk6_mem, hb]; exact ⟨_, rfl, rfl⟩

/-! ### calls and returns -/

theorem step6_call_raw {argc fip nlc : Nat} {ms : List Value} (h : CodeAt C i (.call argc :: rest)) (hlen : ms.length = argc) :
    (argc > nlc → ∃ s2, step C (mk6 s0 i below locs ((ops ++ ms.toArray).push (.fn fip nlc)) g l fr m out) = .error .argument s2 ∧ s2.out = out) ∧
    (argc ≤ nlc → (∃ s2, step C (mk6 s0 i below locs ((ops ++ ms.toArray).push (.fn fip nlc)) g l fr m out) = .error .index s2) ∨
      step C (mk6 s0 i below locs ((ops ++ ms.toArray).push (.fn fip nlc)) g l fr m out) =
        .next (mk6 s0 fip (below ++ locs ++ ops) (ms.toArray ++ Array.replicate (nlc - argc) .null) #[] g l
          ({ ip := i + 2, bp := below.size } :: fr) m out)) := by
  rw [step_exec6 h]
  constructor
  · intro hgt
    exact ⟨_, by simp only [exec, mk6_stack, pop_frame, hgt, ↓reduceIte]; rfl, rfl⟩
  · intro hle
    have hng : ¬ argc > nlc := by omega
    have hsz : ¬ (below ++ locs ++ (ops ++ ms.toArray)).size < argc := by simp; omega
    simp only [exec, mk6_stack, pop_frame, hng, ↓reduceIte, mk6_frames]
    split
    · exact .inl ⟨_, rfl⟩
    · right
      simp only [mk6_bp, Instr.size]
      simp only [mk6, call_stack]
      congr 2
      simp [← hlen]; omega

/-- `Call argc` with the callee on top of the arguments: wrong number of arguments, the stack/frame limit
    (`AtLimit`), or the callee's activation -/
theorem step6_call {argc fip nlc : Nat} {ms : List Value} (h : CodeAt C i (.call argc :: rest)) (hlen : ms.length = argc) :
    (argc > nlc → ∃ s2, step C (mk6 s0 i below locs ((ops ++ ms.toArray).push (.fn fip nlc)) g l fr m out) = .error .argument s2 ∧ s2.out = out) ∧
    (argc ≤ nlc → AtLimit C (mk6 s0 i below locs ((ops ++ ms.toArray).push (.fn fip nlc)) g l fr m out) ∨
      step C (mk6 s0 i below locs ((ops ++ ms.toArray).push (.fn fip nlc)) g l fr m out) =
        .next (mk6 s0 fip (below ++ locs ++ ops) (ms.toArray ++ Array.replicate (nlc - argc) .null) #[] g l
          ({ ip := i + 2, bp := below.size } :: fr) m out)) := by
  obtain ⟨h1, h2⟩ := step6_call_raw (s0 := s0) (below := below) (locs := locs) (ops := ops) (g := g) (l := l) (fr := fr)
    (m := m) (out := out) (fip := fip) (nlc := nlc) (ms := ms) h hlen
  refine ⟨h1, fun hle => ?_⟩
  rcases h2 hle with ⟨s2, hs2⟩ | hn
  · exact .inl (AtLimit.of_call_error (by rw [mk6_ip]; exact h.head) (by rw [mk6_stack]; exact pop_frame _ _ _ _) hle hs2)
  · exact .inr hn

theorem step6_call_nonfn {argc : Nat} {v : Value} (h : CodeAt C i (.call argc :: rest)) (hv : ∀ a b, v ≠ .fn a b) :
    ∃ s2, step C (mk6 s0 i below locs (ops.push v) g l fr m out) = .error .type s2 ∧ s2.out = out := by
  rw [step_exec6 h]
  cases v <;> simp only [exec, mk6_stack, pop_frame] <;> first | exact ⟨_, rfl, rfl⟩ | exact absurd rfl (hv _ _)

/-- the `isEmpty` shortcut of `doReturn` is the one `GC.run` takes itself -/
theorem gc_shortcut (m : Mem) (roots : List Value) : (if m.managed.isEmpty then m else GC.run m roots) = GC.run m roots := by
  unfold GC.run
  split <;> rfl

/-- the roots of the collection at a return from the frame `below ++ locs ++ ops` -/
def retRoots (s0 : VM) (below g : Array Value) (extra : List Value) : List Value :=
  below.toList ++ s0.cvals.toList ++ g.toList ++ extra

theorem gc_run_empty (m : Mem) (roots : List Value) (h : m.managed.isEmpty = true) : GC.run m roots = m := by
  unfold GC.run; simp [h]

theorem step6_retv {v : Value} {fr0 : Frame} (h : CodeAt C i (.retv :: rest)) :
    step C (mk6 s0 i below locs (ops.push v) g l (fr0 :: fr) m out) =
      .next { s0 with ip := fr0.ip, stack := below.push v, globals := g, last := l, frames := fr, depth := fr.length, bp := fr0.bp,
                      mem := GC.run m (retRoots s0 below g [l, v]), out := out } := by
  rw [step_exec6 h]
  have hsz : ¬ (below ++ locs ++ ops).size < below.size := by simp
  by_cases hm : m.managed.isEmpty = true
  · rw [gc_run_empty m _ hm]
    simp only [exec, mk6_stack, pop_frame, doReturn, mk6_frames, mk6_bp, hsz, ↓reduceIte, mk6_mem, hm]
    rw [Array.append_assoc, frame_truncate]
    rfl
  · simp only [exec, mk6_stack, pop_frame, doReturn, mk6_frames, mk6_bp, hsz, ↓reduceIte, mk6_mem, hm]
    rw [Array.append_assoc, frame_truncate]
    rfl

theorem step6_ret {fr0 : Frame} (h : CodeAt C i (.ret :: rest)) :
    step C (mk6 s0 i below locs ops g l (fr0 :: fr) m out) =
      .next { s0 with ip := fr0.ip, stack := below.push .null, globals := g, last := l, frames := fr, depth := fr.length, bp := fr0.bp,
                      mem := GC.run m (retRoots s0 below g [l]), out := out } := by
  rw [step_exec6 h]
  have hsz : ¬ (below ++ locs ++ ops).size < below.size := by simp
  by_cases hm : m.managed.isEmpty = true
  · rw [gc_run_empty m _ hm]
    simp only [exec, mk6_stack, doReturn, mk6_frames, mk6_bp, hsz, ↓reduceIte, mk6_mem, hm]
    rw [Array.append_assoc, frame_truncate]
    rfl
  · simp only [exec, mk6_stack, doReturn, mk6_frames, mk6_bp, hsz, ↓reduceIte, mk6_mem, hm]
    rw [Array.append_assoc, frame_truncate]
    rfl

end steps
end Sim6
end Nl
