/- Stage 6: assignment to globals and locals, binary operators (with boxing of results), fused instructions. -/
import Nlmodel.Proofs.Lemmas.Sim6Expr
namespace Nl
namespace Sim6
open Spec Sim
open SimH (AMap isStrCell isArrCell Grow PoolH MemOK sameKind LitF)
open SimF (FT FnInfo FTInj paramScope bigScope)

theorem bind_store (st : SState) (r : Ref) (v : SVal) : (st.bind r v).store = st.store := by
  cases r with
  | mk b slot => cases slot <;> simp [SState.bind, isGlobalSlot]

theorem bind_out (st : SState) (r : Ref) (v : SVal) : (st.bind r v).out = st.out := by
  cases r with
  | mk b slot => cases slot <;> simp [SState.bind, isGlobalSlot]

theorem unbind_store (st : SState) (r : Ref) : (st.unbind r).store = st.store := by
  cases r with
  | mk b slot => cases slot <;> simp [SState.unbind, isGlobalSlot]

section binds
variable {W : World} {Γb Λ : Gam} {nl : Nat} {c : Cfg}

/-- binding a global -/
theorem inv6_bindG (hok : GamOK Γb) (hinv : Inv6 W Γb Λ nl c) (b k : Nat) (hm : (b, k) ∈ Γb) (v : SVal) (mv : Value)
    (hv : VR6 W c.μ c.st c.m.heap v mv) (ip' : Nat) (ops' : Array Value) :
    Inv6 W Γb Λ nl ⟨c.μ, c.st.bind ⟨b, .global k⟩ v, ip', c.locs, ops', setGlobalArr c.g k mv, c.l, c.m, c.out⟩ := by
  have hst : (c.st.bind ⟨b, .global k⟩ v).store = c.st.store := bind_store _ _ _
  have hgr : Grow c.μ c.st c.m.heap c.μ (c.st.bind ⟨b, .global k⟩ v) c.m.heap := SimH.grow_store_eq hst
  refine ⟨?_, ?_, ?_, hinv.size, by simpa [SState.bind, isGlobalSlot] using hinv.out, hinv.hi.store_eq hst⟩
  · intro b' k' hm' w hw
    simp only [SState.bind, isGlobalSlot, ↓reduceIte] at hw
    obtain ⟨u1, u2⟩ := gam_unique hok hm hm'
    by_cases hb : b = b'
    · have hk := u1 hb
      subst hb; subst hk
      rw [envGet_envSet_same] at hw
      injection hw with hw; subst hw
      exact ⟨mv, hv.grow hgr, setGlobalArr_same c.g k mv⟩
    · have hk : k' ≠ k := fun e => hb (u2 e.symm)
      rw [envGet_envSet_other _ _ _ _ (fun e => hb e.symm)] at hw
      obtain ⟨mw, h1, h2⟩ := hinv.relG b' k' hm' w hw
      exact ⟨mw, h1.grow hgr, by show (setGlobalArr c.g k mv).getD k' .null = mw; rw [setGlobalArr_other c.g k k' mv hk]; exact h2⟩
  · intro b' k' hm' w hw
    have : (c.st.bind ⟨b, .global k⟩ v).lenv = c.st.lenv := by simp [SState.bind, isGlobalSlot]
    simp only [this] at hw
    obtain ⟨mw, h1, h2⟩ := hinv.relL b' k' hm' w hw
    exact ⟨mw, h1.grow hgr, h2⟩
  · have : (c.st.bind ⟨b, .global k⟩ v).last = c.st.last := by simp [SState.bind, isGlobalSlot]
    show VR6 W c.μ (c.st.bind ⟨b, .global k⟩ v) c.m.heap (c.st.bind ⟨b, .global k⟩ v).last c.l
    rw [this]; exact hinv.last.grow hgr

/-- binding a local -/
theorem inv6_bindL (hok : GamOK Λ) (hinv : Inv6 W Γb Λ nl c) (b k : Nat) (hm : (b, k) ∈ Λ) (hk : k < c.locs.size) (v : SVal) (mv : Value)
    (hv : VR6 W c.μ c.st c.m.heap v mv) (ip' : Nat) (ops' : Array Value) :
    Inv6 W Γb Λ nl ⟨c.μ, c.st.bind ⟨b, .loc k⟩ v, ip', c.locs.setIfInBounds k mv, ops', c.g, c.l, c.m, c.out⟩ := by
  have hst : (c.st.bind ⟨b, .loc k⟩ v).store = c.st.store := bind_store _ _ _
  have hgr : Grow c.μ c.st c.m.heap c.μ (c.st.bind ⟨b, .loc k⟩ v) c.m.heap := SimH.grow_store_eq hst
  refine ⟨?_, ?_, ?_, by simp [hinv.size], by simpa [SState.bind, isGlobalSlot] using hinv.out, hinv.hi.store_eq hst⟩
  · intro b' k' hm' w hw
    have : (c.st.bind ⟨b, .loc k⟩ v).genv = c.st.genv := by simp [SState.bind, isGlobalSlot]
    simp only [this] at hw
    obtain ⟨mw, h1, h2⟩ := hinv.relG b' k' hm' w hw
    exact ⟨mw, h1.grow hgr, h2⟩
  · intro b' k' hm' w hw
    simp only [SState.bind, isGlobalSlot, Bool.false_eq_true, ↓reduceIte] at hw
    obtain ⟨u1, u2⟩ := gam_unique hok hm hm'
    by_cases hb : b = b'
    · have hk' := u1 hb
      subst hb; subst hk'
      rw [envGet_envSet_same] at hw
      injection hw with hw; subst hw
      exact ⟨mv, hv.grow hgr, by simp [Array.getElem?_setIfInBounds, hk]⟩
    · have hkk : k' ≠ k := fun e => hb (u2 e.symm)
      rw [envGet_envSet_other _ _ _ _ (fun e => hb e.symm)] at hw
      obtain ⟨mw, h1, h2⟩ := hinv.relL b' k' hm' w hw
      exact ⟨mw, h1.grow hgr, by
        show (c.locs.setIfInBounds k mv)[k']? = some mw
        rw [Array.getElem?_setIfInBounds]; simp [Ne.symm hkk, h2]⟩
  · have : (c.st.bind ⟨b, .loc k⟩ v).last = c.st.last := by simp [SState.bind, isGlobalSlot]
    show VR6 W c.μ (c.st.bind ⟨b, .loc k⟩ v) c.m.heap (c.st.bind ⟨b, .loc k⟩ v).last c.l
    rw [this]; exact hinv.last.grow hgr

end binds

/-- an operator never answers "the argument itself" -/
theorem binopCore_not_same (op : BinOp) (l r : View) (p : PRes) (h : binopCore op l r = .ok p) : p ≠ .same := by
  intro e; subst e
  cases op <;> cases l <;> cases r <;>
    simp only [binopCore, View.ty, BinOp.isArith, BinOp.isOrder, intArith] at h <;>
    (repeat' split at h) <;> (first | (simp at h; done) | (injection h with h; cases h) | skip)

theorem sbox_arg (st : SState) (a a' : SVal) (p : PRes) (hp : p ≠ .same) : st.box a p = st.box a' p := by
  cases p <;> first | rfl | exact absurd rfl hp

theorem mbox_arg (m : Mem) (a a' : Value) (p : PRes) (hp : p ≠ .same) : m.box a p = m.box a' p := by
  cases p <;> first | rfl | exact absurd rfl hp

section expr
variable {W : World} {nl : Nat} {fn : Bool} {Γ Γx Λ : Gam} {ab : Bool} {lp : LoopCtx} {cs : List Const}
  {below : Array Value} {fr : List Frame} {c : Cfg}

theorem pe6_assignG (f : Nat) (ih : PE6 W f) (b k : Nat) (hm : (b, k) ∈ Γ) (e1 : RExpr) (h1 : ZE nl fn Γ Λ ab e1) (hsc : Sc6 W fn Γ Γx Λ)
    (hinv : Inv6 W (bigScope fn Γ Γx) Λ nl c) (hwt : TI.WT (c.vm W below fr))
    (hcode : CodeAt W.C c.ip (emitE (.assignVar ⟨b, .global k⟩ e1) c.ip lp cs).1)
    (hext : Ext (emitE (.assignVar ⟨b, .global k⟩ e1) c.ip lp cs).2 W.CS) :
    GoalV6 W (bigScope fn Γ Γx) Λ nl below fr fn ab lp c (c.ip + sizeE (.assignVar ⟨b, .global k⟩ e1)) c.ops
      (evalE (f + 1) (.assignVar ⟨b, .global k⟩ e1) c.st) := by
  simp only [emitE, getVar, setVar] at hcode hext
  obtain ⟨hc1, hc2⟩ := hcode.append
  rw [emitE_size] at hc2
  rw [evalE_assign]
  simp only [sizeE]
  refine GoalG.bind (ih nl fn Γ Γx Λ ab e1 h1 c lp cs below fr hsc hinv hwt hc1 hext) (.inr ⟨rfl, rfl⟩) ?_
  rintro v st1 - ⟨mv, μ1, m1, hmv, locs1, g1, l1, out1, n, hn, hinv1, hk1⟩
  have hst : (st1.bind ⟨b, .global k⟩ v).store = st1.store := bind_store _ _ _
  have hgr : Grow μ1 st1 m1.heap μ1 (st1.bind ⟨b, .global k⟩ v) m1.heap := SimH.grow_store_eq hst
  have hinv2 := inv6_bindG hsc.okb hinv1 b k (hsc.sub _ hm) v mv hmv (c.ip + (sizeE e1 + 6)) (c.ops.push mv)
  refine .inr ⟨mv, μ1, m1, hmv.grow hgr, locs1, setGlobalArr g1 k mv, l1, out1, n + 2, ?_, hinv2, hk1.trans (Keep.of_grow hgr _)⟩
  have h2 := execN_step W.C n _ _ _ hn (step6_setGlobal hc2)
  have h3 := execN_step W.C (n + 1) _ _ _ h2 (step6_getGlobal (by simpa [Instr.size] using hc2.tail))
  rw [setGlobalArr_same] at h3
  rw [h3]; congr 2

theorem pe6_assignL (f : Nat) (ih : PE6 W f) (b k : Nat) (hm : (b, k) ∈ Λ) (hk : k < nl) (e1 : RExpr) (h1 : ZE nl fn Γ Λ ab e1)
    (hsc : Sc6 W fn Γ Γx Λ) (hinv : Inv6 W (bigScope fn Γ Γx) Λ nl c) (hwt : TI.WT (c.vm W below fr))
    (hcode : CodeAt W.C c.ip (emitE (.assignVar ⟨b, .loc k⟩ e1) c.ip lp cs).1)
    (hext : Ext (emitE (.assignVar ⟨b, .loc k⟩ e1) c.ip lp cs).2 W.CS) :
    GoalV6 W (bigScope fn Γ Γx) Λ nl below fr fn ab lp c (c.ip + sizeE (.assignVar ⟨b, .loc k⟩ e1)) c.ops
      (evalE (f + 1) (.assignVar ⟨b, .loc k⟩ e1) c.st) := by
  simp only [emitE, getVar, setVar] at hcode hext
  obtain ⟨hc1, hc2⟩ := hcode.append
  rw [emitE_size] at hc2
  rw [evalE_assign]
  simp only [sizeE]
  refine GoalG.bind (ih nl fn Γ Γx Λ ab e1 h1 c lp cs below fr hsc hinv hwt hc1 hext) (.inr ⟨rfl, rfl⟩) ?_
  rintro v st1 - ⟨mv, μ1, m1, hmv, locs1, g1, l1, out1, n, hn, hinv1, hk1⟩
  have hk1' : k < locs1.size := by have := hinv1.size; simp only at this; omega
  have hst : (st1.bind ⟨b, .loc k⟩ v).store = st1.store := bind_store _ _ _
  have hgr : Grow μ1 st1 m1.heap μ1 (st1.bind ⟨b, .loc k⟩ v) m1.heap := SimH.grow_store_eq hst
  have hinv2 := inv6_bindL hsc.okl hinv1 b k hm hk1' v mv hmv (c.ip + (sizeE e1 + 6)) (c.ops.push mv)
  refine .inr ⟨mv, μ1, m1, hmv.grow hgr, locs1.setIfInBounds k mv, g1, l1, out1, n + 2, ?_, hinv2, hk1.trans (Keep.of_grow hgr _)⟩
  have h2 := execN_step W.C n _ _ _ hn (step6_setLocal hc2 hk1')
  have h3 := execN_step W.C (n + 1) _ _ _ h2
    (step6_getLocal (v := mv) (by simpa [Instr.size] using hc2.tail) (by simp [Array.getElem?_setIfInBounds, hk1']))
  rw [h3]; congr 2

theorem pe6_bin (hW : WOK6 W) (f : Nat) (ih : PE6 W f) (el : RExpr) (op : BinOp) (er : RExpr) (hnf : fusedCandidate el op er = none)
    (hl : ZE nl fn Γ Λ ab el) (hr : ZE nl fn Γ Λ false er) (hsc : Sc6 W fn Γ Γx Λ)
    (hinv : Inv6 W (bigScope fn Γ Γx) Λ nl c) (hwt : TI.WT (c.vm W below fr))
    (hcode : CodeAt W.C c.ip (emitE (.infix el op er) c.ip lp cs).1) (hext : Ext (emitE (.infix el op er) c.ip lp cs).2 W.CS) :
    GoalV6 W (bigScope fn Γ Γx) Λ nl below fr fn ab lp c (c.ip + sizeE (.infix el op er)) c.ops (evalE (f + 1) (.infix el op er) c.st) := by
  simp only [emitE, hnf] at hcode hext
  obtain ⟨hc12, hc3⟩ := hcode.append
  obtain ⟨hc1, hc2⟩ := hc12.append
  rw [emitE_size] at hc2
  simp only [codeSize_append, emitE_size, ← Nat.add_assoc] at hc3
  have hext1 : Ext (emitE el c.ip lp cs).2 W.CS := (emitE_ext er _ _ _).trans hext
  rw [evalE_infix]
  simp only [sizeE, hnf]
  refine GoalG.bind (ih nl fn Γ Γx Λ ab el hl c lp cs below fr hsc hinv hwt hc1 hext1) (.inr ⟨rfl, rfl⟩) ?_
  rintro a st1 - ⟨ma, μ1, m1, hma, locs1, g1, l1, out1, n1, hn1, hinv1, hk1⟩
  have hwt1 := wt_execN n1 _ _ hwt hn1
  refine GoalV6.prefix (c1 := ⟨μ1, st1, c.ip + sizeE el, locs1, c.ops.push ma, g1, l1, m1, out1⟩) n1 hn1 hk1 ?_
  have ihr := ih nl fn Γ Γx Λ false er hr ⟨μ1, st1, c.ip + sizeE el, locs1, c.ops.push ma, g1, l1, m1, out1⟩ lp (emitE el c.ip lp cs).2 below fr
    hsc hinv1 hwt1 hc2 hext
  refine GoalG.bind ihr (.inl rfl) ?_
  rintro b st2 - ⟨mb, μ2, m2, hmb, locs2, g2, l2, out2, n2, hn2, hinv2, hk2⟩
  have hma2 : VR6 W μ2 st2 m2.heap a ma := hk2 a ma (fixedOf_push_mem below c.ops ma) hma
  have hrel := binop_rel6 hW.inj hinv2.hi op a b ma mb hma2 hmb
  have hkeep : Keep W μ1 st1 m1.heap μ2 st2 m2.heap (fixedOf below c.ops) := hk2.mono (fixedOf_push_sub below c.ops ma)
  simp only [specBin]
  cases hcore : binopCore op (st2.view a) (st2.view b) with
  | error e =>
    rw [hcore] at hrel
    obtain ⟨s2, hs2, ho2⟩ := step6_bin_err (s0 := W.s0) (below := below) (locs := locs2) (ops := c.ops) (g := g2) (l := l2) (fr := fr)
      (out := out2) hc3 hrel
    exact .inr ⟨n2, _, s2, hn2, hs2, by rw [ho2]; exact hinv2.out.symm⟩
  | ok p =>
    rw [hcore] at hrel
    obtain ⟨μ3, mr, m3, hb, hi3, hg3, hv3⟩ := hrel
    obtain ⟨hse, hso⟩ := sameEnv_box st2 a p
    refine .inr ⟨mr, μ3, m3, hv3, locs2, g2, l2, out2, n2 + 1, ?_, hinv2.move _ _ hg3 hse (by rw [hso]; exact hinv2.out) hi3,
      hkeep.trans (Keep.of_grow hg3 _)⟩
    rw [execN_step W.C n2 _ _ _ hn2 (step6_bin_ok hc3 hb)]
    congr 2; simp only; omega

/-- the fused instruction: local `k` against the integer constant `v` -/
theorem fused_core (hW : WOK6 W) (op' : BinOp) (k idx : Nat) (v : Int) (a : SVal) (ma : Value) (sarg : SVal)
    {Γb : Gam} (hinv : Inv6 W Γb Λ nl c) (hma : VR6 W c.μ c.st c.m.heap a ma) (hl : c.locs[k]? = some ma)
    (hk : W.s0.cvals[idx]? = some (.int v)) {rest : List Instr} (hcode : CodeAt W.C c.ip (.fused op' k idx :: rest)) :
    GoalV6 W Γb Λ nl below fr fn ab lp c (c.ip + 5) c.ops
      (match binopCore op' (c.st.view a) (.int v) with
        | .ok p => .val (c.st.box sarg p).1 (c.st.box sarg p).2
        | .error e => .err e c.st) := by
  have hrel := binop_rel6 hW.inj hinv.hi op' a (.int v) ma (.int v) hma rfl
  have hv : c.st.view (.int v) = .int v := rfl
  rw [hv] at hrel
  cases hcore : binopCore op' (c.st.view a) (.int v) with
  | error e =>
    rw [hcore] at hrel
    obtain ⟨s2, hs2, ho2⟩ := step6_fused_err (s0 := W.s0) (below := below) (ops := c.ops) (g := c.g) (l := c.l) (fr := fr)
      (out := c.out) hcode hl hk hrel
    exact .inr ⟨0, _, s2, rfl, hs2, by rw [ho2]; exact hinv.out.symm⟩
  | ok p =>
    rw [hcore] at hrel
    obtain ⟨μ3, mr, m3, hb, hi3, hg3, hv3⟩ := hrel
    have hp := binopCore_not_same op' _ _ p hcore
    rw [sbox_arg c.st a sarg p hp] at hi3 hg3 hv3
    obtain ⟨hse, hso⟩ := sameEnv_box c.st sarg p
    exact .inr ⟨mr, μ3, m3, hv3, c.locs, c.g, c.l, c.out, 1, execN_one W.C _ _ (step6_fused_ok hcode hl hk hb),
      hinv.move _ _ hg3 hse (by rw [hso]; exact hinv.out) hi3, Keep.of_grow hg3 _⟩

theorem pe6_fusedL (hW : WOK6 W) (f : Nat) (b k : Nat) (op : BinOp) (v : Int) (hm : (b, k) ∈ Λ)
    (hfc : fusedCandidate (.var ⟨b, .loc k⟩) op (.int v) = some (op, k, v))
    (hinv : Inv6 W (bigScope fn Γ Γx) Λ nl c)
    (hcode : CodeAt W.C c.ip (emitE (.infix (.var ⟨b, .loc k⟩) op (.int v)) c.ip lp cs).1)
    (hext : Ext (emitE (.infix (.var ⟨b, .loc k⟩) op (.int v)) c.ip lp cs).2 W.CS) :
    GoalV6 W (bigScope fn Γ Γx) Λ nl below fr fn ab lp c (c.ip + sizeE (.infix (.var ⟨b, .loc k⟩) op (.int v))) c.ops
      (evalE (f + 1) (.infix (.var ⟨b, .loc k⟩) op (.int v)) c.st) := by
  simp only [emitE, hfc] at hcode hext
  have hk := hinv.hi.pool.ints _ v (hext.get _ _ (addConst_int_index cs v))
  simp only [sizeE, hfc]
  cases f with
  | zero => simp only [evalE]; exact .inr trivial
  | succ f =>
    simp only [evalE, SState.lookup, isGlobalSlot, Bool.false_eq_true, ↓reduceIte]
    cases hl : envGet c.st.lenv b with
    | none => exact .inr trivial
    | some a =>
      obtain ⟨ma, hma, hg⟩ := hinv.relL b k hm a hl
      have := fused_core (below := below) (fr := fr) (fn := fn) (ab := ab) (lp := lp) hW op k _ v a ma a hinv hma hg hk hcode
      have hv : c.st.view (.int v) = .int v := rfl
      simp only [hv]
      cases hcore : binopCore op (c.st.view a) (.int v) with
      | error e => rw [hcore] at this; exact this
      | ok p => rw [hcore] at this; exact this

theorem pe6_fusedR (hW : WOK6 W) (f : Nat) (b k : Nat) (op op' : BinOp) (v : Int) (hm : (b, k) ∈ Λ)
    (hmir : mirrorOp op = some op')
    (hinv : Inv6 W (bigScope fn Γ Γx) Λ nl c)
    (hcode : CodeAt W.C c.ip (emitE (.infix (.int v) op (.var ⟨b, .loc k⟩)) c.ip lp cs).1)
    (hext : Ext (emitE (.infix (.int v) op (.var ⟨b, .loc k⟩)) c.ip lp cs).2 W.CS) :
    GoalV6 W (bigScope fn Γ Γx) Λ nl below fr fn ab lp c (c.ip + sizeE (.infix (.int v) op (.var ⟨b, .loc k⟩))) c.ops
      (evalE (f + 1) (.infix (.int v) op (.var ⟨b, .loc k⟩)) c.st) := by
  have hfc : fusedCandidate (.int v) op (.var ⟨b, .loc k⟩) = some (op', k, v) := by simp [fusedCandidate, hmir]
  simp only [emitE, hfc] at hcode hext
  have hk := hinv.hi.pool.ints _ v (hext.get _ _ (addConst_int_index cs v))
  simp only [sizeE, hfc]
  cases f with
  | zero => simp only [evalE]; exact .inr trivial
  | succ f =>
    simp only [evalE, SState.lookup, isGlobalSlot, Bool.false_eq_true, ↓reduceIte]
    cases hl : envGet c.st.lenv b with
    | none => exact .inr trivial
    | some a =>
      obtain ⟨ma, hma, hg⟩ := hinv.relL b k hm a hl
      have := fused_core (below := below) (fr := fr) (fn := fn) (ab := ab) (lp := lp) hW op' k _ v a ma (.int v) hinv hma hg hk hcode
      have hv : c.st.view (.int v) = .int v := rfl
      simp only [hv]
      rw [C10.C10_mirror op op' v (c.st.view a) hmir]
      cases hcore : binopCore op' (c.st.view a) (.int v) with
      | error e => rw [hcore] at this; exact this
      | ok p => rw [hcore] at this; exact this

end expr
end Sim6
end Nl
