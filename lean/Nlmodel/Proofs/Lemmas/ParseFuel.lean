/- The fuel `parse` supplies to the parser model is sufficient: no call ever runs out of fuel.
   Potential argument: a call on `n` remaining tokens needs at most `3 n + c` levels of recursion,
   with a constant `c` per function ordered along the calls that consume nothing. -/
import Nlmodel.Model.Parser
namespace Nl
namespace PF

/-- not a fuel error; on success the remaining tokens are fewer (`strict`) / not more -/
def Good {α : Type} (n : Nat) (strict : Bool) : Except Err (α × List Token) → Prop
  | .ok (_, ts') => if strict then ts'.length < n else ts'.length ≤ n
  | .error e => e ≠ .fuel

theorem good_err {α : Type} (n : Nat) (b : Bool) (e : Err) (he : e ≠ .fuel) : Good (α := α) n b (.error e) := he

theorem Good.weaken {α : Type} {n m : Nat} {b : Bool} {r : Except Err (α × List Token)} (h : Good n b r) (hnm : n ≤ m) : Good m false r := by
  cases r with
  | error e => exact h
  | ok p =>
    obtain ⟨x, ts'⟩ := p
    cases b <;> simp only [Good, Bool.false_eq_true, ↓reduceIte] at h ⊢ <;> omega

theorem Good.mono {α : Type} {n m : Nat} {b : Bool} {r : Except Err (α × List Token)} (h : Good n b r) (hnm : n ≤ m) : Good m b r := by
  cases r with
  | error e => exact h
  | ok p =>
    obtain ⟨x, ts'⟩ := p
    cases b <;> simp only [Good, Bool.false_eq_true, ↓reduceIte] at h ⊢ <;> omega

theorem adv_len (ts : List Token) : (adv ts).length = ts.length - 1 := by cases ts <;> simp [adv]

theorem adv_len_lt (ts : List Token) (h : cur ts ≠ .eof) : (adv ts).length < ts.length := by
  cases ts with
  | nil => exact absurd rfl h
  | cons t r => simp [adv]

theorem skipOpt_len (t : Token) (ts : List Token) : (skipOpt t ts).length ≤ ts.length := by
  unfold skipOpt; split
  · rw [adv_len]; omega
  · exact Nat.le_refl _

theorem skipTok_len (t : Token) (ts ts' : List Token) (ht : t ≠ .eof) (h : skipTok t ts = .ok ts') : ts'.length < ts.length := by
  unfold skipTok at h
  split at h
  · rename_i hc
    injection h with h; subst h
    exact adv_len_lt ts (by rw [hc]; exact ht)
  · cases h

theorem skipTok_err (t : Token) (ts : List Token) (e : Err) (h : skipTok t ts = .error e) : e ≠ .fuel := by
  unfold skipTok at h
  split at h
  · cases h
  · injection h with h; subst h; decide

/-- `parseParams` with the fuel `parsePrefix` supplies (`length + 1`) -/
theorem params_good : ∀ (f : Nat) (ts : List Token), ts.length < f → Good ts.length false (parseParams f ts) := by
  intro f
  induction f with
  | zero => intro ts h; omega
  | succ f ih =>
    intro ts h
    simp only [parseParams]
    split
    · simp [Good]
    · rename_i n hc
      have hlt : (skipOpt .comma (adv ts)).length < ts.length :=
        Nat.lt_of_le_of_lt (skipOpt_len _ _) (adv_len_lt ts (by rw [hc]; intro h; cases h))
      have := ih (skipOpt .comma (adv ts)) (by omega)
      cases hr : parseParams f (skipOpt .comma (adv ts)) with
      | error e => rw [hr] at this; exact this
      | ok p =>
        obtain ⟨ps, ts'⟩ := p
        rw [hr] at this
        simp only [Good, Bool.false_eq_true, ↓reduceIte] at this ⊢
        omega
    · exact good_err _ _ _ (by decide)

structure All (f : Nat) : Prop where
  pre : ∀ ts, 3 * ts.length + 1 ≤ f → Good ts.length true (parsePrefix f ts)
  expr : ∀ p ts, 3 * ts.length + 2 ≤ f → Good ts.length true (parseExpr f p ts)
  loop : ∀ p l ts, 3 * ts.length + 1 ≤ f → Good ts.length false (parseLoop f p l ts)
  elems : ∀ close ts, 3 * ts.length + 3 ≤ f → Good ts.length false (parseElems f close ts)
  stmt : ∀ ts, 3 * ts.length + 3 ≤ f → Good ts.length true (parseStatement f ts)
  block : ∀ ts, 3 * ts.length + 2 ≤ f → Good ts.length true (parseBlock f ts)
  stmts : ∀ b ts, 3 * ts.length + 4 ≤ f → Good ts.length false (parseStmts f b ts)

/-- case analysis of a good sub-call (the parser's own `match`es are then reduced by `simp only [he]`) -/
theorem good_cases {α : Type} {m : Nat} {b1 : Bool} (r : Except Err (α × List Token)) (hr : Good m b1 r) :
    (∃ e, r = .error e ∧ e ≠ .fuel) ∨ (∃ x ts', r = .ok (x, ts') ∧ (if b1 then ts'.length < m else ts'.length ≤ m)) := by
  cases r with
  | error e => exact .inl ⟨e, rfl, hr⟩
  | ok p => obtain ⟨x, ts'⟩ := p; exact .inr ⟨x, ts', rfl, hr⟩

theorem skip_cases (t : Token) (ts : List Token) (ht : t ≠ .eof) :
    (∃ e, skipTok t ts = .error e ∧ e ≠ .fuel) ∨ (∃ ts', skipTok t ts = .ok ts' ∧ ts'.length < ts.length) := by
  cases h : skipTok t ts with
  | error e => exact .inl ⟨e, rfl, skipTok_err t ts e h⟩
  | ok ts' => exact .inr ⟨ts', rfl, skipTok_len t ts ts' ht h⟩

theorem good_ok {α : Type} {n : Nat} {x : α} {ts' : List Token} (h : ts'.length < n) : Good n true (.ok (x, ts')) := by
  simp only [Good, ↓reduceIte]; exact h

theorem good_ok_le {α : Type} {n : Nat} {x : α} {ts' : List Token} (h : ts'.length ≤ n) : Good n false (.ok (x, ts')) := by
  simp only [Good, Bool.false_eq_true, ↓reduceIte]; exact h

theorem binop_not_eof (ts : List Token) (op : Op) (h : (cur ts).binop = some op) : cur ts ≠ .eof := by
  intro e; rw [e] at h; cases h

section step
variable {f : Nat} (ih : All f)
include ih

theorem expr_succ (p : Nat) (ts : List Token) (h : 3 * ts.length + 2 ≤ f + 1) : Good ts.length true (parseExpr (f + 1) p ts) := by
  rw [parseExpr]
  rcases good_cases _ (ih.pre ts (by omega)) with ⟨e, he, hne⟩ | ⟨l, ts', he, hlt⟩ <;> simp only [he]
  · exact hne
  · simp only [↓reduceIte] at hlt
    rcases good_cases _ (ih.loop p l ts' (by omega)) with ⟨e, he2, hne⟩ | ⟨x, ts2, he2, hle⟩ <;> simp only [he2]
    · exact hne
    · simp only [Bool.false_eq_true, ↓reduceIte] at hle
      exact good_ok (by omega)

theorem elems_succ (close : Token) (ts : List Token) (h : 3 * ts.length + 3 ≤ f + 1) : Good ts.length false (parseElems (f + 1) close ts) := by
  rw [parseElems]
  split
  · exact good_ok_le (Nat.le_refl _)
  · rcases good_cases _ (ih.expr 0 ts (by omega)) with ⟨e, he, hne⟩ | ⟨x, ts1, he, hlt⟩ <;> simp only [he]
    · exact hne
    · simp only [↓reduceIte] at hlt
      have hl := skipOpt_len .comma ts1
      rcases good_cases _ (ih.elems close (skipOpt .comma ts1) (by omega)) with ⟨e, he2, hne⟩ | ⟨es, ts2, he2, hle⟩ <;> simp only [he2]
      · exact hne
      · simp only [Bool.false_eq_true, ↓reduceIte] at hle
        exact good_ok_le (by omega)

theorem block_succ (ts : List Token) (h : 3 * ts.length + 2 ≤ f + 1) : Good ts.length true (parseBlock (f + 1) ts) := by
  rw [parseBlock]
  rcases skip_cases .lbrace ts (by decide) with ⟨e, he, hne⟩ | ⟨ts1, he, h1⟩ <;> simp only [he]
  · exact hne
  · rcases good_cases _ (ih.stmts true ts1 (by omega)) with ⟨e, he2, hne⟩ | ⟨b, ts2, he2, hle⟩ <;> simp only [he2]
    · exact hne
    · simp only [Bool.false_eq_true, ↓reduceIte] at hle
      rcases skip_cases .rbrace ts2 (by decide) with ⟨e, he3, hne⟩ | ⟨ts3, he3, h3⟩ <;> simp only [he3]
      · exact hne
      · exact good_ok (by omega)

theorem stmts_succ (b : Bool) (ts : List Token) (h : 3 * ts.length + 4 ≤ f + 1) : Good ts.length false (parseStmts (f + 1) b ts) := by
  rw [parseStmts]
  split
  · exact good_ok_le (Nat.le_refl _)
  · rcases good_cases _ (ih.stmt ts (by omega)) with ⟨e, he, hne⟩ | ⟨x, ts1, he, hlt⟩ <;> simp only [he]
    · exact hne
    · simp only [↓reduceIte] at hlt
      rcases good_cases _ (ih.stmts b ts1 (by omega)) with ⟨e, he2, hne⟩ | ⟨bl, ts2, he2, hle⟩ <;> simp only [he2]
      · exact hne
      · simp only [Bool.false_eq_true, ↓reduceIte] at hle
        exact good_ok_le (by omega)

theorem stmt_succ (ts : List Token) (h : 3 * ts.length + 3 ≤ f + 1) : Good ts.length true (parseStatement (f + 1) ts) := by
  rw [parseStatement]
  split
  · -- stel
    rename_i hc
    have h1 : (adv ts).length < ts.length := adv_len_lt ts (by rw [hc]; decide)
    simp only
    split
    · rcases skip_cases .assign (adv (adv ts)) (by decide) with ⟨e, he, hne⟩ | ⟨ts2, he, h2⟩ <;> simp only [he]
      · exact hne
      · have := adv_len (adv ts)
        rcases good_cases _ (ih.expr 0 ts2 (by omega)) with ⟨e, he2, hne⟩ | ⟨x, ts3, he2, hlt⟩ <;> simp only [he2]
        · exact hne
        · simp only [↓reduceIte] at hlt
          have := skipOpt_len .semi ts3
          exact good_ok (by omega)
    · exact good_err _ _ _ (by decide)
  · rcases good_cases _ (ih.block ts (by omega)) with ⟨e, he, hne⟩ | ⟨b, ts1, he, hlt⟩ <;> simp only [he]
    · exact hne
    · simp only [↓reduceIte] at hlt
      have := skipOpt_len .semi ts1
      exact good_ok (by omega)
  · rename_i hc
    have h1 : (adv ts).length < ts.length := adv_len_lt ts (by rw [hc]; decide)
    rcases good_cases _ (ih.expr 0 (adv ts) (by omega)) with ⟨e, he, hne⟩ | ⟨x, ts1, he, hlt⟩ <;> simp only [he]
    · exact hne
    · simp only [↓reduceIte] at hlt
      have := skipOpt_len .semi ts1
      exact good_ok (by omega)
  · rename_i hc
    have h1 : (adv ts).length < ts.length := adv_len_lt ts (by rw [hc]; decide)
    have := skipOpt_len .semi (adv ts)
    exact good_ok (by omega)
  · rename_i hc
    have h1 : (adv ts).length < ts.length := adv_len_lt ts (by rw [hc]; decide)
    have := skipOpt_len .semi (adv ts)
    exact good_ok (by omega)
  · rcases good_cases _ (ih.expr 0 ts (by omega)) with ⟨e, he, hne⟩ | ⟨x, ts1, he, hlt⟩ <;> simp only [he]
    · exact hne
    · simp only [↓reduceIte] at hlt
      have := skipOpt_len .semi ts1
      exact good_ok (by omega)
theorem loop_succ (p : Nat) (l : Expr) (ts : List Token) (h : 3 * ts.length + 1 ≤ f + 1) : Good ts.length false (parseLoop (f + 1) p l ts) := by
  rw [parseLoop]
  simp only
  split
  · exact good_ok_le (Nat.le_refl _)
  · split
    · exact good_ok_le (Nat.le_refl _)
    · split
      · -- infix / op-assign
        rename_i op hop
        have h1 : (adv ts).length < ts.length := adv_len_lt ts (binop_not_eof ts op hop)
        split
        · exact good_err _ _ _ (by decide)
        · split
          · rename_i hc
            have h2 : (adv (adv ts)).length < (adv ts).length := adv_len_lt (adv ts) (by
              simp only [Bool.and_eq_true, decide_eq_true_eq] at hc; rw [hc.1]; decide)
            rcases good_cases _ (ih.expr 0 (adv (adv ts)) (by omega)) with ⟨e, he, hne⟩ | ⟨r, ts2, he, hlt⟩ <;> simp only [he]
            · exact hne
            · simp only [↓reduceIte] at hlt
              exact (ih.loop p _ ts2 (by omega)).mono (by omega)
          · rcases good_cases _ (ih.expr (cur ts).prec (adv ts) (by omega)) with ⟨e, he, hne⟩ | ⟨r, ts2, he, hlt⟩ <;> simp only [he]
            · exact hne
            · simp only [↓reduceIte] at hlt
              exact (ih.loop p _ ts2 (by omega)).mono (by omega)
      · split
        · -- assignment
          rename_i hc
          have h1 : (adv ts).length < ts.length := adv_len_lt ts (by rw [hc]; decide)
          split
          · exact good_err _ _ _ (by decide)
          · rcases good_cases _ (ih.expr 1 (adv ts) (by omega)) with ⟨e, he, hne⟩ | ⟨r, ts2, he, hlt⟩ <;> simp only [he]
            · exact hne
            · simp only [↓reduceIte] at hlt
              exact (ih.loop p _ ts2 (by omega)).mono (by omega)
        · -- call
          rename_i hc
          have h1 : (adv ts).length < ts.length := adv_len_lt ts (by rw [hc]; decide)
          split
          · exact good_err _ _ _ (by decide)
          · rcases good_cases _ (ih.elems .rparen (adv ts) (by omega)) with ⟨e, he, hne⟩ | ⟨as, ts1, he, hle⟩ <;> simp only [he]
            · exact hne
            · simp only [Bool.false_eq_true, ↓reduceIte] at hle
              have := adv_len ts1
              exact (ih.loop p _ (adv ts1) (by omega)).mono (by omega)
        · -- index
          rename_i hc
          have h1 : (adv ts).length < ts.length := adv_len_lt ts (by rw [hc]; decide)
          split
          · exact good_err _ _ _ (by decide)
          · rcases good_cases _ (ih.expr 0 (adv ts) (by omega)) with ⟨e, he, hne⟩ | ⟨i, ts1, he, hlt⟩ <;> simp only [he]
            · exact hne
            · simp only [↓reduceIte] at hlt
              rcases skip_cases .rbracket ts1 (by decide) with ⟨e, he2, hne⟩ | ⟨ts2, he2, h2⟩ <;> simp only [he2]
              · exact hne
              · exact (ih.loop p _ ts2 (by omega)).mono (by omega)
        · exact good_ok_le (Nat.le_refl _)
theorem pre_succ (ts : List Token) (h : 3 * ts.length + 1 ≤ f + 1) : Good ts.length true (parsePrefix (f + 1) ts) := by
  rw [parsePrefix]
  have hadv : ∀ t, cur ts = t → t ≠ .eof → (adv ts).length < ts.length := fun t e ht => adv_len_lt ts (by rw [e]; exact ht)
  split
  · -- int
    rename_i sx hc
    have h1 := hadv _ hc (by intro e; cases e)
    split
    · exact good_ok h1
    · rename_i e he
      unfold parseIntLit at he
      simp only at he
      split at he
      · cases he
      · injection he with he; subst he; exact good_err _ _ _ (by decide)
  · rename_i sx hc
    exact good_ok (hadv _ hc (by intro e; cases e))
  · rename_i hc; exact good_ok (hadv _ hc (by decide))
  · rename_i hc; exact good_ok (hadv _ hc (by decide))
  · rename_i sx hc; exact good_ok (hadv _ hc (by intro e; cases e))
  · -- ( e )
    rename_i hc
    have h1 := hadv _ hc (by decide)
    rcases good_cases _ (ih.expr 0 (adv ts) (by omega)) with ⟨e, he, hne⟩ | ⟨x, ts1, he, hlt⟩ <;> simp only [he]
    · exact hne
    · simp only [↓reduceIte] at hlt
      rcases skip_cases .rparen ts1 (by decide) with ⟨e, he2, hne⟩ | ⟨ts2, he2, h2⟩ <;> simp only [he2]
      · exact hne
      · exact good_ok (by omega)
  · -- als
    rename_i hc
    have h1 := hadv _ hc (by decide)
    rcases good_cases _ (ih.expr 0 (adv ts) (by omega)) with ⟨e, he, hne⟩ | ⟨c, ts1, he, hlt⟩ <;> simp only [he]
    · exact hne
    · simp only [↓reduceIte] at hlt
      rcases good_cases _ (ih.block ts1 (by omega)) with ⟨e, he2, hne⟩ | ⟨t, ts2, he2, hlt2⟩ <;> simp only [he2]
      · exact hne
      · simp only [↓reduceIte] at hlt2
        split
        · rename_i hce
          have h3 : (adv ts2).length < ts2.length := adv_len_lt ts2 (by rw [hce]; decide)
          split
          · rcases good_cases _ (ih.stmt (adv ts2) (by omega)) with ⟨e, he3, hne⟩ | ⟨st, ts4, he3, hlt4⟩ <;> simp only [he3]
            · exact hne
            · simp only [↓reduceIte] at hlt4
              exact good_ok (by omega)
          · rcases good_cases _ (ih.block (adv ts2) (by omega)) with ⟨e, he3, hne⟩ | ⟨eb, ts4, he3, hlt4⟩ <;> simp only [he3]
            · exact hne
            · simp only [↓reduceIte] at hlt4
              exact good_ok (by omega)
        · exact good_ok (by omega)
  · -- !
    rename_i hc
    have h1 := hadv _ hc (by decide)
    rcases good_cases _ (ih.expr (Token.prec .bang) (adv ts) (by omega)) with ⟨e, he, hne⟩ | ⟨x, ts1, he, hlt⟩ <;> simp only [he]
    · exact hne
    · simp only [↓reduceIte] at hlt
      exact good_ok (by omega)
  · -- unary minus
    rename_i hc
    have h1 := hadv _ hc (by decide)
    rcases good_cases _ (ih.expr (Token.prec .minus) (adv ts) (by omega)) with ⟨e, he, hne⟩ | ⟨x, ts1, he, hlt⟩ <;> simp only [he]
    · exact hne
    · simp only [↓reduceIte] at hlt
      exact good_ok (by omega)
  · rename_i n hc; exact good_ok (hadv _ hc (by intro e; cases e))
  · -- functie
    rename_i hc
    have h1 := hadv _ hc (by decide)
    simp only
    have key : ∀ (name : Text) (ts2 : List Token), ts2.length ≤ (adv ts).length →
        Good ts.length true
          (match skipTok Token.lparen ts2 with
          | Except.ok ts3 =>
            match parseParams (ts3.length + 1) ts3 with
            | Except.ok (ps, ts4) =>
              match skipTok Token.rparen ts4 with
              | Except.ok ts5 =>
                match parseBlock f ts5 with
                | Except.ok (b, ts6) => Except.ok (Expr.func name ps b, ts6)
                | Except.error e => Except.error e
              | Except.error e => Except.error e
            | Except.error e => Except.error e
          | Except.error e => Except.error e) := by
      intro name ts2 hq2
      rcases skip_cases .lparen ts2 (by decide) with ⟨e, he, hne⟩ | ⟨ts3, he, h3⟩ <;> simp only [he]
      · exact hne
      · rcases good_cases _ (params_good (ts3.length + 1) ts3 (by omega)) with ⟨e, he2, hne⟩ | ⟨ps, ts4, he2, hle4⟩ <;> simp only [he2]
        · exact hne
        · simp only [Bool.false_eq_true, ↓reduceIte] at hle4
          rcases skip_cases .rparen ts4 (by decide) with ⟨e, he3, hne⟩ | ⟨ts5, he3, h5⟩ <;> simp only [he3]
          · exact hne
          · rcases good_cases _ (ih.block ts5 (by omega)) with ⟨e, he4, hne⟩ | ⟨b, ts6, he4, hlt6⟩ <;> simp only [he4]
            · exact hne
            · simp only [↓reduceIte] at hlt6
              exact good_ok (by omega)
    refine key _ _ ?_
    split
    · simp only; rw [adv_len]; omega
    · exact Nat.le_refl _
  · -- zolang
    rename_i hc
    have h1 := hadv _ hc (by decide)
    rcases good_cases _ (ih.expr 0 (adv ts) (by omega)) with ⟨e, he, hne⟩ | ⟨c, ts1, he, hlt⟩ <;> simp only [he]
    · exact hne
    · simp only [↓reduceIte] at hlt
      rcases good_cases _ (ih.block ts1 (by omega)) with ⟨e, he2, hne⟩ | ⟨b, ts2, he2, hlt2⟩ <;> simp only [he2]
      · exact hne
      · simp only [↓reduceIte] at hlt2
        exact good_ok (by omega)
  · -- [ ... ]
    rename_i hc
    have h1 := hadv _ hc (by decide)
    rcases good_cases _ (ih.elems .rbracket (adv ts) (by omega)) with ⟨e, he, hne⟩ | ⟨vs, ts1, he, hle⟩ <;> simp only [he]
    · exact hne
    · simp only [Bool.false_eq_true, ↓reduceIte] at hle
      rcases skip_cases .rbracket ts1 (by decide) with ⟨e, he2, hne⟩ | ⟨ts2, he2, h2⟩ <;> simp only [he2]
      · exact hne
      · exact good_ok (by omega)
  · exact good_err _ _ _ (by decide)
end step

/-- every parser function, with fuel at least `3 * tokens + c`, never runs out of fuel, and consumes -/
theorem all : ∀ f, All f := by
  intro f
  induction f with
  | zero => exact ⟨fun _ h => by omega, fun _ _ h => by omega, fun _ _ _ h => by omega, fun _ _ h => by omega, fun _ h => by omega,
      fun _ h => by omega, fun _ _ h => by omega⟩
  | succ f ih =>
    exact ⟨pre_succ ih, expr_succ ih, loop_succ ih, elems_succ ih, stmt_succ ih, block_succ ih, stmts_succ ih⟩

/-- THE FUEL `parse` SUPPLIES IS SUFFICIENT: the parser model never answers with the model-only fuel error -/
theorem parseTokens_no_fuel (ts : List Token) : parseTokens ts ≠ .error .fuel := by
  unfold parseTokens
  have := (all (parseFuel ts)).stmts false ts (by unfold parseFuel; omega)
  cases hr : parseStmts (parseFuel ts) false ts with
  | error e => rw [hr] at this; simp only; intro h; injection h with h; exact this h
  | ok q => simp

end PF
end Nl
