/- Stage 6: the call expression: arguments, callee, `Call`, the callee's activation (parameters by position),
   the return through a collection, and the caller's view afterwards (re-established from the kept values). -/
import Nlmodel.Proofs.Lemmas.Sim6Ctl
namespace Nl
namespace Sim6
open Spec Sim
open SimH (AMap isStrCell isArrCell Grow PoolH MemOK sameKind LitF)
open SimF (FT FnInfo FTInj paramScope paramScopeFrom bigScope)

/-- parameters are bound by position: parameter `i` is argument `i`, missing ones are null -/
theorem params_rel6 {W : World} {μ : AMap} {st : SState} {h : Heap} : ∀ (ps : List Nat) (off : Nat) (xs : List SVal) (ms : List Value),
    VRL6 W μ st h xs ms → GamOK (paramScopeFrom off ps) → ∀ b j, (b, j) ∈ paramScopeFrom off ps → ∀ v, envGet (bindParams ps xs) b = some v →
    VR6 W μ st h v (ms.getD (j - off) .null)
  | [], _, _, _, _, _, b, j, hm, _, _ => by simp [paramScopeFrom] at hm
  | p :: ps, off, xs, ms, hvr, hok, b, j, hm, v, hv => by
    have hok' : GamOK (paramScopeFrom (off + 1) ps) := by
      unfold GamOK at hok ⊢; simp only [paramScopeFrom, List.pairwise_cons] at hok; exact hok.2
    by_cases hb : p = b
    · subst hb
      have hj : j = off := by
        have h0 : (p, off) ∈ paramScopeFrom off (p :: ps) := by simp [paramScopeFrom]
        exact ((gam_unique hok hm h0).1 rfl)
      subst hj
      cases xs with
      | nil =>
        cases ms with
        | nil =>
          simp only [bindParams, envGet, List.find?_cons, beq_self_eq_true, Option.some.injEq] at hv
          subst hv; simp [VR6]
        | cons m ms => simp [VRL6] at hvr
      | cons x xs =>
        cases ms with
        | nil => simp [VRL6] at hvr
        | cons m ms =>
          simp only [bindParams, envGet, List.find?_cons, beq_self_eq_true, Option.some.injEq] at hv
          subst hv; simpa using hvr.1
    · have hm' : (b, j) ∈ paramScopeFrom (off + 1) ps := by
        simp only [paramScopeFrom, List.mem_cons] at hm
        rcases hm with h | h
        · injection h with h1 _; exact absurd h1.symm hb
        · exact h
      have hj := (SimF.paramScopeFrom_mem ps (off + 1) b j hm').1
      have hne : (p == b) = false := by simpa using hb
      cases xs with
      | nil =>
        cases ms with
        | nil =>
          have hv' : envGet (bindParams ps []) b = some v := by
            simpa [bindParams, envGet, List.find?_cons, hne] using hv
          have := params_rel6 (W := W) (μ := μ) (st := st) (h := h) ps (off + 1) [] [] trivial hok' b j hm' v hv'
          simpa using this
        | cons m ms => simp [VRL6] at hvr
      | cons x xs =>
        cases ms with
        | nil => simp [VRL6] at hvr
        | cons m ms =>
          have hv' : envGet (bindParams ps xs) b = some v := by
            simpa [bindParams, envGet, List.find?_cons, hne] using hv
          have := params_rel6 ps (off + 1) xs ms hvr.2 hok' b j hm' v hv'
          have e : j - off = (j - (off + 1)) + 1 := by omega
          rw [e]; simpa using this

/-- what the call does once arguments and callee are evaluated -/
def specCall (f : Nat) (xs : List SVal) (fv : SVal) (st2 : SState) : Res SVal :=
  match fv with
  | .fn _ ps nl body =>
    if xs.length > nl then .err .argument st2
    else
      match evalBV f body { st2 with lenv := bindParams ps xs } with
      | .val v st3 => .val v { st3 with lenv := st2.lenv }
      | .ret v st3 => .val v { st3 with lenv := st2.lenv }
      | .brk st3 => .unspec st3
      | .cont st3 => .unspec st3
      | .err e st3 => .err e st3
      | .unspec st3 => .unspec st3
      | .fuel => .fuel
  | _ => .err .type st2

theorem evalE_call (f : Nat) (fe : RExpr) (as : RExprs) (st : SState) :
    evalE (f + 1) (.call fe as) st = bindR (evalEs f as st) (fun xs st1 => bindR (evalE f fe st1) (fun fv st2 => specCall f xs fv st2)) := by
  simp only [evalE]
  cases evalEs f as st with
  | val xs st1 =>
    simp only [bindR]
    cases evalE f fe st1 with
    | val fv st2 => cases fv <;> rfl
    | _ => rfl
  | _ => rfl

theorem mem_frame_of_below (below locs ops : Array Value) (x : Value) (h : x ∈ fixedOf below ops) : x ∈ (below ++ locs ++ ops).toList := by
  simp only [fixedOf, List.mem_append] at h
  simp only [Array.toList_append, List.mem_append]
  rcases h with h | h
  · exact .inl (.inl h)
  · exact .inr h

theorem mem_frame_of_loc (below locs ops : Array Value) (k : Nat) (x : Value) (h : locs[k]? = some x) : x ∈ (below ++ locs ++ ops).toList := by
  simp only [Array.toList_append, List.mem_append]
  refine .inl (.inr ?_)
  rw [← Array.getElem?_toList] at h
  exact List.mem_of_getElem? h

section
variable {W : World}

/-- a state of the semantics that differs in the local environment only -/
theorem vr6_lenv {μ : AMap} {st : SState} {h : Heap} (le : List (Nat × SVal)) {v : SVal} {mv : Value} :
    VR6 W μ st h v mv ↔ VR6 W μ { st with lenv := le } h v mv :=
  ⟨fun hv => hv.grow (SimH.grow_store_eq rfl), fun hv => hv.grow (SimH.grow_store_eq rfl)⟩

/-- the callee's activation: arguments are the first locals, the rest is null -/
theorem call_enter {Γb Λ : Gam} {nl : Nat} {c2 : Cfg} (hinv2 : Inv6 W Γb Λ nl c2) (info : FnInfo) (xs : List SVal) (ms : List Value) (argc : Nat)
    (hms : VRL6 W c2.μ c2.st c2.m.heap xs ms) (hlen : ms.length = argc) (hle : argc ≤ info.nl)
    (hpok : GamOK (paramScope info.ps)) (hpsz : ∀ p ∈ paramScope info.ps, p.2 < info.nl) (ip' : Nat) :
    Inv6 W Γb (paramScope info.ps) info.nl
      ⟨c2.μ, { c2.st with lenv := bindParams info.ps xs }, ip', ms.toArray ++ Array.replicate (info.nl - argc) .null, #[], c2.g, c2.l, c2.m, c2.out⟩ := by
  refine ⟨?_, ?_, (vr6_lenv _).1 hinv2.last, by simp [hlen]; omega, hinv2.out, hinv2.hi.store_eq rfl⟩
  · intro b k hm v hv
    obtain ⟨mv, h1, h2⟩ := hinv2.relG b k hm v hv
    exact ⟨mv, (vr6_lenv _).1 h1, h2⟩
  · intro b j hm v hv
    have hj := hpsz (b, j) hm
    have := params_rel6 (W := W) info.ps 0 xs ms hms hpok b j hm v hv
    exact ⟨_, (vr6_lenv _).1 this, by
      rw [Nat.sub_zero]
      exact SimF.args_locals ms (info.nl - argc) j (by simp only at hj; omega)⟩

/-- back in the caller: its view is re-established from the values kept across the callee's run -/
theorem call_back {Γb Λ : Gam} {nl : Nat} {below : Array Value} {c2 : Cfg} (hinv2 : Inv6 W Γb Λ nl c2) (ops : Array Value)
    (le : List (Nat × SVal)) {μ3 : AMap} {st3 : SState} {m3 : Mem} {g3 : Array Value} {l3 : Value} {out3 : List Text}
    (hrelG : RelG6 W Γb μ3 st3 m3.heap g3) (hl3 : VR6 W μ3 st3 m3.heap st3.last l3) (hout : st3.out = out3) (hi3 : HInv W μ3 st3 m3)
    (hk3 : Keep W c2.μ { c2.st with lenv := le } c2.m.heap μ3 st3 m3.heap (below ++ c2.locs ++ ops).toList) (ip' : Nat) (ops' : Array Value) :
    Inv6 W Γb Λ nl ⟨μ3, { st3 with lenv := c2.st.lenv }, ip', c2.locs, ops', g3, l3, m3, out3⟩ := by
  refine ⟨?_, ?_, (vr6_lenv _).1 hl3, hinv2.size, hout, hi3.store_eq rfl⟩
  · intro b k hm v hv
    obtain ⟨mv, h1, h2⟩ := hrelG b k hm v hv
    exact ⟨mv, (vr6_lenv _).1 h1, h2⟩
  · intro b k hm v hv
    obtain ⟨mv, h1, h2⟩ := hinv2.relL b k hm v hv
    exact ⟨mv, (vr6_lenv _).1 (hk3 v mv (mem_frame_of_loc below c2.locs ops k mv h2) ((vr6_lenv _).1 h1)), h2⟩

theorem pe6_call (hW : WOK6 W) (f : Nat) (ih : PAll6 W f) {nl : Nat} {fn : Bool} {Γ Γx Λ : Gam} {ab : Bool} {lp : LoopCtx} {cs : List Const}
    {below : Array Value} {fr : List Frame} {c : Cfg}
    (fe : RExpr) (as : RExprs) (has : ZEs nl fn Γ Λ as) (hfe : ZE nl fn Γ Λ false fe) (hsc : Sc6 W fn Γ Γx Λ)
    (hinv : Inv6 W (bigScope fn Γ Γx) Λ nl c) (hwt : TI.WT (c.vm W below fr))
    (hcode : CodeAt W.C c.ip (emitE (.call fe as) c.ip lp cs).1) (hext : Ext (emitE (.call fe as) c.ip lp cs).2 W.CS) :
    GoalV6 W (bigScope fn Γ Γx) Λ nl below fr fn ab lp c (c.ip + sizeE (.call fe as)) c.ops (evalE (f + 1) (.call fe as) c.st) := by
  simp only [emitE] at hcode hext
  obtain ⟨hc12, hc3⟩ := hcode.append
  obtain ⟨hc1, hc2⟩ := hc12.append
  rw [emitEs_size] at hc2
  have hc3 := hc3.cast (b := c.ip + sizeEs as + sizeE fe) (by simp [emitEs_size, emitE_size]; omega)
  have hext1 : Ext (emitEs as c.ip lp cs).2 W.CS := (emitE_ext fe _ _ _).trans hext
  rw [evalE_call]
  simp only [sizeE]
  refine GoalG.bind (ih.es nl fn Γ Γx Λ as has c lp cs below fr hsc hinv hwt hc1 hext1) (.inl rfl) ?_
  rintro xs st1 hr1 ⟨ms, μ1, m1, hms, locs1, g1, l1, out1, n1, hn1, hinv1, hk1⟩
  have hwt1 := wt_execN n1 _ _ hwt hn1
  have hlen : ms.length = as.length := by rw [← hms.length, SimF.evalEs_length f as c.st xs st1 hr1]
  have hxl : xs.length = as.length := SimF.evalEs_length f as c.st xs st1 hr1
  refine GoalV6.prefix (c1 := ⟨μ1, st1, c.ip + sizeEs as, locs1, c.ops ++ ms.toArray, g1, l1, m1, out1⟩) n1 hn1 hk1 ?_
  have ih2 := ih.e nl fn Γ Γx Λ false fe hfe ⟨μ1, st1, c.ip + sizeEs as, locs1, c.ops ++ ms.toArray, g1, l1, m1, out1⟩ lp _ below fr
    hsc hinv1 hwt1 hc2 hext
  refine GoalG.bind ih2 (.inl rfl) ?_
  rintro fv st2 - ⟨mf, μ2, m2, hmf, locs2, g2, l2, out2, n2, hn2, hinv2, hk2⟩
  have hms2 : VRL6 W μ2 st2 m2.heap xs ms := hms.imp (fun v mv hm hv => hk2 v mv (by
    simp only [fixedOf, List.mem_append, Array.toList_append, List.toList_toArray]; exact .inr (.inr hm)) hv)
  have hk12 : Keep W μ1 st1 m1.heap μ2 st2 m2.heap (fixedOf below c.ops) := hk2.mono (fixedOf_append_sub below c.ops ms)
  have hnonfn : (∀ a b, mf ≠ .fn a b) → Fails6 W.C (mk6 W.s0 (c.ip + sizeEs as) below locs1 (c.ops ++ ms.toArray) g1 l1 fr m1 out1) .type st2.out := by
    intro hnf
    obtain ⟨s2, hs2, ho2⟩ := step6_call_nonfn (s0 := W.s0) (below := below) (locs := locs2) (ops := c.ops ++ ms.toArray) (g := g2) (l := l2) (fr := fr)
      (m := m2) (out := out2) hc3 hnf
    exact ⟨n2, _, s2, hn2, hs2, by rw [ho2]; exact hinv2.out.symm⟩
  cases fv with
  | fn fid ps nlc body =>
    cases mf <;> simp only [VR6] at hmf <;> try exact absurd hmf id
    rename_i fip nlc'
    obtain ⟨info, hft, hip, hps, hnl, hbody, hnl', hΓg⟩ := hmf
    subst hnl'
    obtain ⟨hstep_gt, hstep_le⟩ := step6_call (s0 := W.s0) (below := below) (locs := locs2) (ops := c.ops) (g := g2) (l := l2) (fr := fr)
      (m := m2) (out := out2) (fip := fip) (nlc := nlc') (ms := ms) hc3 hlen
    simp only [specCall]
    by_cases hgt : xs.length > nlc'
    · simp only [hgt, ↓reduceIte]
      obtain ⟨s2, hs2, ho2⟩ := hstep_gt (by omega)
      exact .inr ⟨n2, _, s2, hn2, hs2, by rw [ho2]; exact hinv2.out.symm⟩
    · simp only [hgt, ↓reduceIte]
      rcases hstep_le (by omega) with hlim | hnext
      · exact .inl ⟨n2, _, hn2, hlim⟩
      -- the callee's activation
      obtain ⟨hfcode, hfext, ⟨Γ1, Λ1, hyb⟩, hpok, hpsz⟩ := hW.fns fid info hft
      subst hip; subst hps; subst hnl; subst hbody
      have hn3 := execN_step W.C n2 _ _ _ hn2 hnext
      have hwtc := wt_execN (n2 + 1) _ _ hwt1 hn3
      have hscf : Sc6 W true info.Γg (bigScope fn Γ Γx) (paramScope info.ps) :=
        ⟨hsc.okb, hpok, fun p hp => hsc.psub p (hΓg p hp), hsc.psub⟩
      have hinvf := call_enter hinv2 info xs ms as.length hms2 hlen (by omega) hpok hpsz info.ip
      have hbf := ih.bf info.nl info.Γg (bigScope fn Γ Γx) (paramScope info.ps) info.body Γ1 Λ1 hyb
        ⟨μ2, { st2 with lenv := bindParams info.ps xs }, info.ip, ms.toArray ++ Array.replicate (info.nl - as.length) Value.null, #[], g2, l2, m2, out2⟩
        info.cs (below ++ locs2 ++ c.ops) ({ ip := c.ip + sizeEs as + sizeE fe + 2, bp := below.size } :: fr) rfl hscf hinvf hwtc hfcode hfext
      rcases hbf with hbf | hbf
      · exact .inl (SimF.Ovf.after (n2 + 1) hn3 hbf)
      -- both normal completion and `antwoord` come back to the caller
      have hback : ∀ v st3, Returns6 W (bigScope fn Γ Γx) (below ++ locs2 ++ c.ops) ({ ip := c.ip + sizeEs as + sizeE fe + 2, bp := below.size } :: fr)
            ⟨μ2, { st2 with lenv := bindParams info.ps xs }, info.ip, ms.toArray ++ Array.replicate (info.nl - as.length) Value.null, #[], g2, l2, m2, out2⟩
            v st3 →
          GoalV6 W (bigScope fn Γ Γx) Λ nl below fr fn ab lp ⟨μ1, st1, c.ip + sizeEs as, locs1, c.ops ++ ms.toArray, g1, l1, m1, out1⟩
            (c.ip + (sizeEs as + sizeE fe + 2)) c.ops (.val v { st3 with lenv := st2.lenv }) := by
        intro v st3 hret
        obtain ⟨mv, g3, l3, m3, out3, μ3, n3, hn, hmv, hrel3, hl3, hout3, hi3, hk3⟩ := hret _ _ rfl
        have hinv3 := call_back (below := below) hinv2 c.ops (bindParams info.ps xs) hrel3 hl3 hout3 hi3 hk3
          (c.ip + (sizeEs as + sizeE fe + 2)) (c.ops.push mv)
        refine .inr ⟨mv, μ3, m3, (vr6_lenv _).1 hmv, locs2, g3, l3, out3, n2 + 1 + n3, ?_, hinv3, ?_⟩
        · rw [execN_add W.C _ _ _ _ _ hn3 hn]
          simp only [mk6, SimF.frame_push]
          congr 2 <;> omega
        · intro w mw hmem hw
          have h2 := hk12 w mw hmem hw
          exact (vr6_lenv _).1 (hk3 w mw (mem_frame_of_below below locs2 c.ops mw hmem) ((vr6_lenv _).1 h2))
      cases hr3 : evalBV f info.body { st2 with lenv := bindParams info.ps xs } with
      | val v st3 => rw [hr3] at hbf; exact hback v st3 hbf
      | ret v st3 => rw [hr3] at hbf; exact hback v st3 hbf.2
      | brk st3 => exact .inr trivial
      | cont st3 => exact .inr trivial
      | err er st3 => rw [hr3] at hbf; exact .inr (SimH.Fails5.after (n2 + 1) hn3 hbf)
      | unspec st3 => exact .inr trivial
      | fuel => exact .inr trivial
  | _ => exact .inr (hnonfn (fun a b e => by subst e; simp only [VR6] at hmf))

end
end Sim6
end Nl
