/- Stage 5: argument lists, array literals, builtin calls, indexing and index assignment. -/
import Nlmodel.Proofs.Lemmas.SimHOps
import Nlmodel.Proofs.Lemmas.SimFnCallE
namespace Nl
namespace SimH
open Spec Sim

theorem popN_append (stk : Array Value) (ms : List Value) : popN (stk ++ ms.toArray) ms.length = some (ms, stk) := by
  unfold popN
  have h1 : ms.length ≤ (stk ++ ms.toArray).size := by simp
  simp only [h1, ↓reduceIte]
  congr 1
  apply Prod.ext
  · simp
  · apply Array.ext'; simp

section steps
variable {C : Code} {s0 : VM} {i : Nat} {stk g : Array Value} {l : Value} {m : Mem} {out : List Text} {rest : List Instr}

theorem step_array {n : Nat} {ms : List Value} (h : CodeAt C i (.array n :: rest)) (hn : ms.length = n) :
    step C (setH s0 i (stk ++ ms.toArray) g l m out) = .next (setH s0 (i + 3) (stk.push (m.allocArr ms).2) g l (m.allocArr ms).1 out) := by
  rw [step_exec h]
  subst hn
  simp [exec, popN_append, setH, Instr.size]

theorem step_callBuiltin {b : Builtin} {n : Nat} {ms : List Value} (h : CodeAt C i (.callBuiltin b.id n :: rest)) (hn : ms.length = n) :
    step C (setH s0 i (stk ++ ms.toArray) g l m out) =
      (match callBuiltin b ms m out with
        | .ok (v, m', out') => .next (setH s0 (i + 3) (stk.push v) g l m' out')
        | .error e => .error e { (setH s0 (i + 3) stk g l m out) with stack := stk }) := by
  rw [step_exec h]
  subst hn
  have hid : Builtin.ofId b.id = some b := by cases b <;> rfl
  simp only [exec, setH_stack, popN_append, hid, setH_mem, setH_out, Instr.size]
  cases callBuiltin b ms m out with
  | ok r => obtain ⟨v, m', out'⟩ := r; rfl
  | error e => rfl

theorem step_indexGet {ma mb : Value} (h : CodeAt C i (.indexGet :: rest)) :
    step C (setH s0 i ((stk.push ma).push mb) g l m out) =
      (match indexGet ma mb m with
        | .ok (v, m') => .next (setH s0 (i + 1) (stk.push v) g l m' out)
        | .error e => .error e { (setH s0 (i + 1) stk g l m out) with stack := stk }) := by
  rw [step_exec h]
  simp only [exec, setH_stack, pop1_push, setH_mem, Instr.size]
  cases indexGet ma mb m with
  | ok r => obtain ⟨v, m'⟩ := r; rfl
  | error e => rfl

theorem step_indexSet {ma mb mc : Value} (h : CodeAt C i (.indexSet :: rest)) :
    step C (setH s0 i (((stk.push ma).push mb).push mc) g l m out) =
      (match indexSet ma mb mc m with
        | .ok (v, m') => .next (setH s0 (i + 1) (stk.push v) g l m' out)
        | .error e => .error e { (setH s0 (i + 1) stk g l m out) with stack := stk }) := by
  rw [step_exec h]
  simp only [exec, setH_stack, pop1_push, setH_mem, Instr.size]
  cases indexSet ma mb mc m with
  | ok r => obtain ⟨v, m'⟩ := r; rfl
  | error e => rfl
end steps

section cases
variable {s0 : VM} {CS : List Const} {C : Code} {Γ : Gam} {ab : Bool} {μ : AMap} {st : SState} {pos : Nat} {lp : LoopCtx} {cs : List Const}
  {stk g : Array Value} {l : Value} {m : Mem} {out : List Text}

theorem pes5_succ (f : Nat) (ih : PAll5 s0 CS C f) : PEs5 s0 CS C (f + 1) := by
  intro Γ es hx hok μ st pos lp cs stk g l m out hinv hcode hext
  cases hx with
  | nil =>
    simp only [evalEs, sizeEs]
    exact ⟨[], μ, m, trivial, g, l, out, 0, by simp [execN], hinv, Grow.refl _ _ _⟩
  | cons _ e rest he hrest =>
    simp only [emitEs] at hcode hext
    obtain ⟨hc1, hc2⟩ := hcode.append
    rw [emitE_size] at hc2
    have hext1 : Ext (emitE e pos lp cs).2 CS := (emitEs_ext rest _ _ _).trans hext
    have h1 := ih.e Γ false e he hok μ st pos lp cs stk g l m out hinv hc1 hext1
    simp only [evalEs, sizeEs]
    cases hr : evalE f e st with
    | val v st1 =>
      rw [hr] at h1
      obtain ⟨mv, μ1, m1, hmv, g1, l1, out1, n, hn, hinv1, hg1⟩ := h1
      have h2 := ih.es Γ rest hrest hok μ1 st1 (pos + sizeE e) lp _ (stk.push mv) g1 l1 m1 out1 hinv1 hc2 hext
      simp only
      cases hr2 : evalEs f rest st1 with
      | val vs st2 =>
        rw [hr2] at h2
        obtain ⟨ms, μ2, m2, hms, hre⟩ := h2
        have hre' := hre.prefix n hn hg1
        rw [SimF.push_append_list, Nat.add_assoc] at hre'
        obtain ⟨g2, l2, out2, k, hk, hinv2, hg2⟩ := hre
        have hg12 : Grow μ1 st1 m1.heap μ2 st2 m2.heap := hg2
        exact ⟨mv :: ms, μ2, m2, ⟨hmv.grow hg12, hms⟩, hre'⟩
      | err er st2 => rw [hr2] at h2; exact Fails5.after n hn h2
      | fuel => trivial
      | unspec _ => trivial
      | brk _ => rw [hr2] at h2; exact h2
      | cont _ => rw [hr2] at h2; exact h2
      | ret _ _ => rw [hr2] at h2; exact h2
    | err er st1 => rw [hr] at h1; exact h1
    | fuel => trivial
    | unspec _ => trivial
    | brk _ => rw [hr] at h1; exact absurd h1.1 (by simp)
    | cont _ => rw [hr] at h1; exact absurd h1.1 (by simp)
    | ret _ _ => rw [hr] at h1; exact h1

theorem pe5_arr (f : Nat) (ih : PAll5 s0 CS C f) (vs : RExprs) (hvs : HEs Γ vs) (hok : GamOK Γ) (hinv : Inv5 s0 CS Γ μ st g l m out)
    (hcode : CodeAt C pos (emitE (.arr vs) pos lp cs).1) (hext : Ext (emitE (.arr vs) pos lp cs).2 CS) :
    GoalV5 s0 CS C Γ ab lp μ pos stk g l m out (pos + sizeE (.arr vs)) stk st (evalE (f + 1) (.arr vs) st) := by
  simp only [emitE] at hcode hext
  obtain ⟨hc1, hc2⟩ := hcode.append
  rw [emitEs_size] at hc2
  have h1 := ih.es Γ vs hvs hok μ st pos lp cs stk g l m out hinv hc1 hext
  simp only [evalE, sizeE]
  cases hr : evalEs f vs st with
  | val xs st1 =>
    rw [hr] at h1
    obtain ⟨ms, μ1, m1, hms, g1, l1, out1, n, hn, hinv1, hg1⟩ := h1
    have hlen : ms.length = vs.length := by rw [← hms.length, SimF.evalEs_length f vs st xs st1 hr]
    obtain ⟨hinv2, hg2, hv2⟩ := inv_alloc_arr hinv1 xs ms hms
    simp only
    refine ⟨_, _, _, hv2, g1, l1, out1, n + 1, ?_, hinv2, hg1.trans hg2⟩
    rw [execN_step C n _ _ _ hn (step_array hc2 hlen)]; congr 2
  | err er st1 => rw [hr] at h1; exact h1
  | fuel => trivial
  | unspec _ => trivial
  | brk _ => rw [hr] at h1; exact h1.elim
  | cont _ => rw [hr] at h1; exact h1.elim
  | ret _ _ => rw [hr] at h1; exact h1.elim

theorem pe5_builtin (f : Nat) (ih : PAll5 s0 CS C f) (b : Builtin) (as : RExprs) (has : HEs Γ as) (hok : GamOK Γ) (hinv : Inv5 s0 CS Γ μ st g l m out)
    (hcode : CodeAt C pos (emitE (.callBuiltin b as) pos lp cs).1) (hext : Ext (emitE (.callBuiltin b as) pos lp cs).2 CS) :
    GoalV5 s0 CS C Γ ab lp μ pos stk g l m out (pos + sizeE (.callBuiltin b as)) stk st (evalE (f + 1) (.callBuiltin b as) st) := by
  simp only [emitE] at hcode hext
  obtain ⟨hc1, hc2⟩ := hcode.append
  rw [emitEs_size] at hc2
  have h1 := ih.es Γ as has hok μ st pos lp cs stk g l m out hinv hc1 hext
  have heval : evalE (f + 1) (.callBuiltin b as) st = (match evalEs f as st with
      | .val xs st1 => specBuiltin b xs st1
      | .brk s => .brk s | .cont s => .cont s | .ret v s => .ret v s
      | .err e s => .err e s | .unspec s => .unspec s | .fuel => .fuel) := by
    simp only [evalE]
    cases evalEs f as st with
    | val xs st1 => cases b <;> rfl
    | _ => rfl
  rw [heval]
  simp only [sizeE]
  cases hr : evalEs f as st with
  | val xs st1 =>
    rw [hr] at h1
    obtain ⟨ms, μ1, m1, hms, g1, l1, out1, n, hn, hinv1, hg1⟩ := h1
    have hlen : ms.length = as.length := by rw [← hms.length, SimF.evalEs_length f as st xs st1 hr]
    have hb := builtin_rel hinv1 b xs ms hms
    have hstep := step_callBuiltin (s0 := s0) (stk := stk) (g := g1) (l := l1) (m := m1) (out := out1) (b := b) hc2 hlen
    simp only
    cases hsb : specBuiltin b xs st1 with
    | val r st2 =>
      rw [hsb] at hb
      obtain ⟨μ2, mr, m2, out2, hcb, hinv2, hg2, hv2⟩ := hb
      rw [hcb] at hstep
      refine ⟨mr, μ2, m2, hv2, g1, l1, out2, n + 1, ?_, hinv2, hg1.trans hg2⟩
      rw [execN_step C n _ _ _ hn hstep]; congr 2
    | err e st2 =>
      rw [hsb] at hb
      rw [hb] at hstep
      exact ⟨n, _, _, hn, hstep, by simp only [setH_out]; exact (builtin_err_out b xs st1 e st2 hsb ▸ hinv1.out).symm⟩
    | fuel => trivial
    | unspec _ => trivial
    | brk _ => unfold specBuiltin at hsb; cases b <;> simp at hsb <;> (repeat' split at hsb) <;> simp at hsb
    | cont _ => unfold specBuiltin at hsb; cases b <;> simp at hsb <;> (repeat' split at hsb) <;> simp at hsb
    | ret _ _ => unfold specBuiltin at hsb; cases b <;> simp at hsb <;> (repeat' split at hsb) <;> simp at hsb
  | err er st1 => rw [hr] at h1; exact h1
  | fuel => trivial
  | unspec _ => trivial
  | brk _ => rw [hr] at h1; exact h1.elim
  | cont _ => rw [hr] at h1; exact h1.elim
  | ret _ _ => rw [hr] at h1; exact h1.elim

theorem pe5_index (f : Nat) (ih : PE5 s0 CS C f) (el ei : RExpr) (hl : HE Γ ab el) (hi : HE Γ false ei) (hok : GamOK Γ)
    (hinv : Inv5 s0 CS Γ μ st g l m out)
    (hcode : CodeAt C pos (emitE (.index el ei) pos lp cs).1) (hext : Ext (emitE (.index el ei) pos lp cs).2 CS) :
    GoalV5 s0 CS C Γ ab lp μ pos stk g l m out (pos + sizeE (.index el ei)) stk st (evalE (f + 1) (.index el ei) st) := by
  simp only [emitE] at hcode hext
  obtain ⟨hc12, hc3⟩ := hcode.append
  obtain ⟨hc1, hc2⟩ := hc12.append
  rw [emitE_size] at hc2
  simp only [codeSize_append, emitE_size, ← Nat.add_assoc] at hc3
  have hext1 : Ext (emitE el pos lp cs).2 CS := (emitE_ext ei _ _ _).trans hext
  have ihl := ih Γ ab el hl hok μ st pos lp cs stk g l m out hinv hc1 hext1
  simp only [evalE, sizeE]
  cases hrl : evalE f el st with
  | val a st1 =>
    rw [hrl] at ihl
    obtain ⟨ma, μ1, m1, hma, g1, l1, out1, n1, hn1, hinv1, hg1⟩ := ihl
    have ihr := ih Γ false ei hi hok μ1 st1 (pos + sizeE el) lp (emitE el pos lp cs).2 (stk.push ma) g1 l1 m1 out1 hinv1 hc2 hext
    simp only
    cases hrr : evalE f ei st1 with
    | val b st2 =>
      rw [hrr] at ihr
      obtain ⟨mb, μ2, m2, hmb, g2, l2, out2, n2, hn2, hinv2, hg2⟩ := ihr
      have hn12 := execN_add C n1 n2 _ _ _ hn1 hn2
      have hma2 := hma.grow hg2
      have hstep := step_indexGet (s0 := s0) (stk := stk) (g := g2) (l := l2) (m := m2) (out := out2) (ma := ma) (mb := mb) hc3
      have hrel := indexGet_rel hinv2 a b ma mb hma2 hmb
      simp only
      cases hget : sIndexGet a b st2 with
      | error e =>
        rw [hget] at hrel
        rw [hrel] at hstep
        exact ⟨n1 + n2, _, _, hn12, hstep, by simp only [setH_out]; exact hinv2.out.symm⟩
      | ok q =>
        obtain ⟨r, st3⟩ := q
        rw [hget] at hrel
        obtain ⟨μ3, mr, m3, hig, hinv3, hg3, hv3⟩ := hrel
        rw [hig] at hstep
        refine ⟨mr, μ3, m3, hv3, g2, l2, out2, n1 + n2 + 1, ?_, hinv3, (hg1.trans hg2).trans hg3⟩
        rw [execN_step C (n1 + n2) _ _ _ hn12 hstep]; congr 2; omega
    | err e st2 => rw [hrr] at ihr; exact Fails5.after n1 hn1 ihr
    | fuel => trivial
    | unspec _ => trivial
    | brk _ => rw [hrr] at ihr; exact absurd ihr.1 (by simp)
    | cont _ => rw [hrr] at ihr; exact absurd ihr.1 (by simp)
    | ret _ _ => rw [hrr] at ihr; exact ihr
  | err e st1 => rw [hrl] at ihl; exact ihl
  | fuel => trivial
  | unspec _ => trivial
  | brk _ => rw [hrl] at ihl; exact ihl
  | cont _ => rw [hrl] at ihl; exact ihl
  | ret _ _ => rw [hrl] at ihl; exact ihl

theorem pe5_assignIndex (f : Nat) (ih : PE5 s0 CS C f) (el ei ev : RExpr) (hl : HE Γ ab el) (hi : HE Γ false ei) (hv : HE Γ false ev) (hok : GamOK Γ)
    (hinv : Inv5 s0 CS Γ μ st g l m out)
    (hcode : CodeAt C pos (emitE (.assignIndex el ei ev) pos lp cs).1) (hext : Ext (emitE (.assignIndex el ei ev) pos lp cs).2 CS) :
    GoalV5 s0 CS C Γ ab lp μ pos stk g l m out (pos + sizeE (.assignIndex el ei ev)) stk st (evalE (f + 1) (.assignIndex el ei ev) st) := by
  simp only [emitE] at hcode hext
  obtain ⟨hc123, hc4⟩ := hcode.append
  obtain ⟨hc12, hc3⟩ := hc123.append
  obtain ⟨hc1, hc2⟩ := hc12.append
  rw [emitE_size] at hc2
  simp only [codeSize_append, emitE_size, ← Nat.add_assoc] at hc3 hc4
  have hext2 : Ext (emitE ei (pos + sizeE el) lp (emitE el pos lp cs).2).2 CS := (emitE_ext ev _ _ _).trans hext
  have hext1 : Ext (emitE el pos lp cs).2 CS := (emitE_ext ei _ _ _).trans hext2
  have ihl := ih Γ ab el hl hok μ st pos lp cs stk g l m out hinv hc1 hext1
  simp only [evalE, sizeE]
  cases hrl : evalE f el st with
  | val a st1 =>
    rw [hrl] at ihl
    obtain ⟨ma, μ1, m1, hma, g1, l1, out1, n1, hn1, hinv1, hg1⟩ := ihl
    have ihi := ih Γ false ei hi hok μ1 st1 (pos + sizeE el) lp (emitE el pos lp cs).2 (stk.push ma) g1 l1 m1 out1 hinv1 hc2 hext2
    simp only
    cases hri : evalE f ei st1 with
    | val b st2 =>
      rw [hri] at ihi
      obtain ⟨mb, μ2, m2, hmb, g2, l2, out2, n2, hn2, hinv2, hg2⟩ := ihi
      have ihv := ih Γ false ev hv hok μ2 st2 (pos + sizeE el + sizeE ei) lp _ ((stk.push ma).push mb) g2 l2 m2 out2 hinv2 hc3 hext
      simp only
      cases hrv : evalE f ev st2 with
      | val c st3 =>
        rw [hrv] at ihv
        obtain ⟨mc, μ3, m3, hmc, g3, l3, out3, n3, hn3, hinv3, hg3⟩ := ihv
        have hn123 := execN_add C (n1 + n2) n3 _ _ _ (execN_add C n1 n2 _ _ _ hn1 hn2) hn3
        have hma3 := (hma.grow hg2).grow hg3
        have hmb3 := hmb.grow hg3
        have hstep := step_indexSet (s0 := s0) (stk := stk) (g := g3) (l := l3) (m := m3) (out := out3) (ma := ma) (mb := mb) (mc := mc) hc4
        have hrel := indexSet_rel hinv3 a b c ma mb mc hma3 hmb3 hmc
        simp only
        cases hset : sIndexSet a b c st3 with
        | error e =>
          rw [hset] at hrel
          rw [hrel] at hstep
          exact ⟨n1 + n2 + n3, _, _, hn123, hstep, by simp only [setH_out]; exact hinv3.out.symm⟩
        | ok q =>
          obtain ⟨r, st4⟩ := q
          rw [hset] at hrel
          obtain ⟨mr, m4, his, hinv4, hg4, hv4⟩ := hrel
          rw [his] at hstep
          refine ⟨mr, μ3, m4, hv4, g3, l3, out3, n1 + n2 + n3 + 1, ?_, hinv4, ((hg1.trans hg2).trans hg3).trans hg4⟩
          rw [execN_step C (n1 + n2 + n3) _ _ _ hn123 hstep]; congr 2; omega
      | err e st3 => rw [hrv] at ihv; exact Fails5.after (n1 + n2) (execN_add C n1 n2 _ _ _ hn1 hn2) ihv
      | fuel => trivial
      | unspec _ => trivial
      | brk _ => rw [hrv] at ihv; exact absurd ihv.1 (by simp)
      | cont _ => rw [hrv] at ihv; exact absurd ihv.1 (by simp)
      | ret _ _ => rw [hrv] at ihv; exact ihv
    | err e st2 => rw [hri] at ihi; exact Fails5.after n1 hn1 ihi
    | fuel => trivial
    | unspec _ => trivial
    | brk _ => rw [hri] at ihi; exact absurd ihi.1 (by simp)
    | cont _ => rw [hri] at ihi; exact absurd ihi.1 (by simp)
    | ret _ _ => rw [hri] at ihi; exact ihi
  | err e st1 => rw [hrl] at ihl; exact ihl
  | fuel => trivial
  | unspec _ => trivial
  | brk _ => rw [hrl] at ihl; exact ihl
  | cont _ => rw [hrl] at ihl; exact ihl
  | ret _ _ => rw [hrl] at ihl; exact ihl

end cases
end SimH
end Nl
