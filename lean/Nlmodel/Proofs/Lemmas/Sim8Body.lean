/- Stage 8: function bodies; the induction on the fuel of the definitional semantics, all seven statements together -/
import Nlmodel.Proofs.Lemmas.Sim8BV
namespace Nl
namespace Sim8
open Spec Sim Sim6 Sim7
open SimH (AMap isStrCell isArrCell Grow PoolH MemOK sameKind LitF)
open SimF (FT FnInfo FTInj paramScope paramScopeFrom bigScope)

section
variable {W : World}

theorem pbf8_novalue (f : Nat) (ih : PAll8 W f) {Δ : Gam} {nl : Nat} {Γ Γx Λ Γ1 Λ1 : Gam} (s : RStmt) (hs : Z8S Δ nl true Γ Λ false s Γ1 Λ1)
    {μ : AMap} {st : SState} {ip : Nat} {locs g : Array Value} {l : Value} {m : Mem} {out : List Text} {cs : List Const}
    {below : Array Value} {fr : List Frame}
    (hsc : Sc7 W Δ true Γ Γx Λ) (hinv : Inv6 W Γx Λ nl ⟨μ, st, ip, locs, #[], g, l, m, out⟩)
    (hwt : TI.WT (Cfg.vm W below fr ⟨μ, st, ip, locs, #[], g, l, m, out⟩))
    (heval : evalBV (f + 1) (.cons s .nil) st = Sim.liftU (evalS f s st) (fun st1 => .val .null st1))
    (hasf : ∀ is, asFnBody (.cons s .nil) is = is ++ [.ret])
    (hcode : CodeAt W.C ip (asFnBody (.cons s .nil) (emitB (.cons s .nil) ip none cs).1))
    (hext : Ext (emitB (.cons s .nil) ip none cs).2 W.CS) (hft : FtB W.ft Δ (.cons s .nil) ip none cs) :
    GoalF6 W Γx Λ nl below fr ⟨μ, st, ip, locs, #[], g, l, m, out⟩ (evalBV (f + 1) (.cons s .nil) st) := by
  rw [hasf] at hcode
  simp only [emitB, List.append_nil] at hcode hext
  obtain ⟨hc1, hc2⟩ := hcode.append
  rw [emitS_size] at hc2
  have h := ih.s nl true Γ Γx Λ false s Γ1 Λ1 hs ⟨μ, st, ip, locs, #[], g, l, m, out⟩ none cs below fr hsc
    (by simpa [bigScope] using hinv) hwt hc1 hext hft.single
  obtain ⟨_, ⟨d, hd⟩, _⟩ := sc7_stepS hsc hs
  simp only [bigScope, ↓reduceIte] at h hd
  rw [heval, liftU_bindR]
  exact goalF_of_stmt6 hwt d hd h hc2

theorem pbf8_succ (hW : WOK8 W) (f : Nat) (ih : PAll8 W f) : PBF8 W (f + 1) := by
  intro Δ nl Γ Γx Λ b Γ2 Λ2 hx c cs below fr hops hsc hinv hwt hcode hext hft
  obtain ⟨μ, st, ip, locs, ops, g, l, m, out⟩ := c
  simp only at hops
  subst hops
  cases hx with
  | nil _ _ _ =>
    simp only [asFnBody] at hcode
    simp only [evalBV]
    have h1 := execN_one W.C _ _ (step6_null (s0 := W.s0) (below := below) (locs := locs) (ops := #[]) (g := g) (l := l) (fr := fr)
      (m := m) (out := out) hcode)
    exact .inr (returns_ret (c := ⟨μ, st, ip, locs, #[], g, l, m, out⟩) hwt h1 (hinv.reip _ _) (Keep.refl _ _ _ _ _)
      (by simpa [Instr.size] using hcode.tail))
  | cons _ _ _ Γ1 Λ1 _ _ s rest hs hrest =>
    cases rest with
    | nil =>
      cases hrest
      cases hs with
      | expr _ _ _ e _ _ he =>
        have hcode' : CodeAt W.C ip ((emitE e ip none cs).1 ++ [.retv]) := by
          simpa [asFnBody, RBlock.tailKind, emitB, emitS] using hcode
        obtain ⟨hc1, hc2⟩ := hcode'.append
        rw [emitE_size] at hc2
        have hext' : Ext (emitE e ip none cs).2 W.CS := by simpa [emitB, emitS] using hext
        have h := GoalV8.close_ext hsc (z8e_ext e he) (ih.e nl true Γ Γx Λ false e _ _ he ⟨μ, st, ip, locs, #[], g, l, m, out⟩ none cs below fr hsc
          (by simpa [bigScope] using hinv) hwt hc1 hext' hft.single.expr)
        simp only [bigScope, ↓reduceIte] at h
        simp only [evalBV]
        exact goalF_of_value6 hwt h hc2
      | block _ _ _ b' Γ3 Λ3 hb' =>
        cases b' with
        | nil =>
          exact pbf8_novalue f ih _ (.block _ _ _ _ _ _ hb') hsc hinv hwt (by simp only [evalBV]; exact liftU_eq _ _)
            (by intro c; simp [asFnBody, RBlock.tailKind]) hcode hext hft
        | cons s' b'' =>
          have hcode' : CodeAt W.C ip (asFnBody (.cons s' b'') (emitB (.cons s' b'') ip none cs).1) := by
            have : (emitB (.cons (.block (.cons s' b'')) .nil) ip none cs).1 = (emitB (.cons s' b'') ip none cs).1 := by
              simp [emitB, emitS]
            simp only at hcode
            rw [this] at hcode
            simpa [asFnBody, RBlock.tailKind] using hcode
          have hext' : Ext (emitB (.cons s' b'') ip none cs).2 W.CS := by
            have : (emitB (.cons (.block (.cons s' b'')) .nil) ip none cs).2 = (emitB (.cons s' b'') ip none cs).2 := by
              simp [emitB, emitS]
            simp only at hext
            rw [this] at hext; exact hext
          have h := ih.bf nl Γ Γx Λ _ Γ3 Λ3 hb' ⟨μ, st, ip, locs, #[], g, l, m, out⟩ cs below fr rfl hsc hinv hwt hcode' hext' hft.single.block
          simp only [evalBV]
          exact h
      | letG _ _ _ bb k e _ _ hfn hf he => cases hfn
      | letL _ _ _ bb k e _ _ hfn hf hk he =>
        exact pbf8_novalue f ih _ (.letL _ _ _ bb k e _ _ hfn hf hk he) hsc hinv hwt (by simp only [evalBV]; exact liftU_eq _ _)
          (by intro c; simp [asFnBody, RBlock.tailKind]) hcode hext hft
      | ret _ _ _ e _ _ hfn he =>
        have hcode' : CodeAt W.C ip (emitS (.ret e) ip none cs).1 := by
          simpa [asFnBody, RBlock.tailKind, emitB] using hcode
        have hext' : Ext (emitS (.ret e) ip none cs).2 W.CS := by simpa [emitB] using hext
        have h := ih.s nl true Γ Γx Λ false (.ret e) _ _ (.ret _ _ _ e _ _ hfn he) ⟨μ, st, ip, locs, #[], g, l, m, out⟩ none cs below fr hsc
          (by simpa [bigScope] using hinv) hwt hcode' hext' hft.single
        simp only [bigScope, ↓reduceIte] at h
        have heval : evalBV (f + 1) (.cons (.ret e) .nil) st = Sim.liftU (evalS f (.ret e) st) (fun st1 => .val .null st1) := by
          simp only [evalBV]; exact liftU_eq _ _
        rw [heval, liftU_bindR]
        refine GoalG.bind h (.inr ⟨rfl, rfl⟩) ?_
        intro u st1 hr _
        exact absurd hr (SimF.evalS_ret_not_val f e st st1)
    | cons s2 rest2 =>
      have e1 : (emitB (.cons s (.cons s2 rest2)) ip none cs).1 =
          (emitS s ip none cs).1 ++ (emitB (.cons s2 rest2) (ip + sizeS s) none (emitS s ip none cs).2).1 := by rw [emitB]
      have e2 : (emitB (.cons s (.cons s2 rest2)) ip none cs).2 =
          (emitB (.cons s2 rest2) (ip + sizeS s) none (emitS s ip none cs).2).2 := by rw [emitB]
      have hcode' := hcode
      simp only at hcode' hext
      rw [e1, SimF.asFnBody_seq] at hcode'
      rw [e2] at hext
      obtain ⟨hc1, hc2⟩ := hcode'.append
      rw [emitS_size] at hc2
      have hext1 : Ext (emitS s ip none cs).2 W.CS := (emitB_ext _ _ _ _).trans hext
      have h1 := ih.s nl true Γ Γx Λ false s Γ1 Λ1 hs ⟨μ, st, ip, locs, #[], g, l, m, out⟩ none cs below fr hsc
        (by simpa [bigScope] using hinv) hwt hc1 hext1 hft.cons.1
      obtain ⟨hsc1, ⟨d, hd⟩, ⟨e, he⟩⟩ := sc7_stepS hsc hs
      simp only [bigScope, ↓reduceIte] at h1 hd
      have heval : evalBV (f + 1) (.cons s (.cons s2 rest2)) st = Sim.liftU (evalS f s st) (fun st1 => evalBV f (.cons s2 rest2) st1) := by
        cases s <;> (simp only [evalBV]; exact liftU_eq _ _)
      simp only
      rw [heval, liftU_bindR]
      refine GoalG.bind h1 (.inr ⟨rfl, rfl⟩) ?_
      rintro u st1 - ⟨μ1, m1, locs1, g1, l1, out1, n, hn, hinv1, hk1⟩
      have hwt1 := wt_execN n _ _ hwt hn
      have h2 := ih.bf nl Γ1 Γx Λ1 (.cons s2 rest2) Γ2 Λ2 hrest ⟨μ1, st1, ip + sizeS s, locs1, #[], g1, l1, m1, out1⟩ _ below fr rfl hsc1 hinv1 hwt1 hc2 hext hft.cons.2
      refine GoalF6.prefix (c1 := ⟨μ1, st1, ip + sizeS s, locs1, #[], g1, l1, m1, out1⟩) n hn hk1 ?_
      rw [he] at h2
      exact GoalG.weaken (Γb := Γx) (Λ := Λ) [] e (fun _ _ x => x) h2

theorem pall8 (hW : WOK8 W) : ∀ f, PAll8 W f
  | 0 => ⟨by unfold PE8; intros; simp only [evalE]; exact .inr trivial,
          by unfold PEs8; intros; simp only [evalEs]; exact .inr trivial,
          by unfold PBV8; intros; simp only [evalBV]; exact .inr trivial,
          by unfold PS8; intros; simp only [evalS]; exact .inr trivial,
          by unfold PB8; intros; simp only [evalB]; exact .inr trivial,
          by unfold PL8; intros; simp only [evalLoop]; exact .inr trivial,
          by unfold PBF8; intros; simp only [evalBV]; exact .inr trivial⟩
  | f + 1 =>
    have ih := pall8 hW f
    ⟨pe8_succ hW f ih, pes8_succ f ih, pbv8_succ hW f ih, ps8_succ hW f ih, pb8_succ f ih, pl8_succ f ih, pbf8_succ hW f ih⟩

end
end Sim8
end Nl
