/- Stage 8: variables, assignment, unary and binary operators, fused instructions, function literals (named ones too),
   over the stage-8 fragment: every compound case threads the scopes its sub-expressions declare. -/
import Nlmodel.Proofs.Lemmas.Sim8Goal
namespace Nl
namespace Sim8
open Spec Sim Sim6 Sim7
open SimH (AMap isStrCell isArrCell Grow PoolH MemOK sameKind LitF)
open SimF (FT FnInfo FTInj paramScope bigScope selfTail func_layout)

/-! ### expressions -/
section expr
variable {W : World} {Δ : Gam} {nl : Nat} {fn : Bool} {Γ Γx Λ Γ1 Λ1 Γ2 Λ2 : Gam} {ab : Bool} {lp : LoopCtx} {cs : List Const}
  {below : Array Value} {fr : List Frame} {c : Cfg}

theorem pe8_not (f : Nat) (ih : PE8 W f) (e1 : RExpr) (h1 : Z8E Δ nl fn Γ Λ ab e1 Γ1 Λ1) (hsc : Sc7 W Δ fn Γ Γx Λ)
    (hinv : Inv6 W (bigScope fn Γ Γx) Λ nl c) (hwt : TI.WT (c.vm W below fr))
    (hcode : CodeAt W.C c.ip (emitE (.not e1) c.ip lp cs).1) (hext : Ext (emitE (.not e1) c.ip lp cs).2 W.CS)
    (hft : FtE W.ft Δ (.not e1) c.ip lp cs) :
    GoalV8 W (bigScope fn Γ Γx) Λ nl below fr (bigScope fn Γ1 Γx) Λ1 fn ab lp c (c.ip + sizeE (.not e1)) c.ops (evalE (f + 1) (.not e1) c.st) := by
  simp only [emitE] at hcode hext
  obtain ⟨hc1, hc2⟩ := hcode.append
  rw [emitE_size] at hc2
  rw [evalE_not]
  simp only [sizeE]
  refine GoalG.bind (ih nl fn Γ Γx Λ ab e1 Γ1 Λ1 h1 c lp cs below fr hsc hinv hwt hc1 hext hft.not) (.inr ⟨rfl, rfl⟩) ?_
  rintro v st1 - ⟨mv, μ1, m1, hmv, locs1, g1, l1, out1, n, hn, hinv1, hk1⟩
  have herr : (∀ b, mv ≠ .bool b) → Fails6 W.C (c.vm W below fr) .type st1.out := by
    intro hnb
    obtain ⟨s2, hs2, ho2⟩ := step6_not_err (s0 := W.s0) (below := below) (locs := locs1) (ops := c.ops) (g := g1) (l := l1) (fr := fr) (m := m1)
      (out := out1) hc2 hnb
    exact ⟨n, _, s2, hn, hs2, by rw [ho2]; exact hinv1.out.symm⟩
  cases v with
  | bool bb =>
    rw [VR6.bool_iff] at hmv; subst hmv
    refine .inr ⟨.bool (!bb), μ1, m1, rfl, locs1, g1, l1, out1, n + 1, ?_, hinv1.reip _ _, hk1⟩
    rw [execN_step W.C n _ _ _ hn (step6_not hc2), Nat.add_assoc]
  | _ => exact .inr (herr (fun b e => by subst e; simp only [VR6] at hmv))

theorem pe8_neg (f : Nat) (ih : PE8 W f) (e1 : RExpr) (h1 : Z8E Δ nl fn Γ Λ ab e1 Γ1 Λ1) (hsc : Sc7 W Δ fn Γ Γx Λ)
    (hinv : Inv6 W (bigScope fn Γ Γx) Λ nl c) (hwt : TI.WT (c.vm W below fr))
    (hcode : CodeAt W.C c.ip (emitE (.neg e1) c.ip lp cs).1) (hext : Ext (emitE (.neg e1) c.ip lp cs).2 W.CS)
    (hft : FtE W.ft Δ (.neg e1) c.ip lp cs) :
    GoalV8 W (bigScope fn Γ Γx) Λ nl below fr (bigScope fn Γ1 Γx) Λ1 fn ab lp c (c.ip + sizeE (.neg e1)) c.ops (evalE (f + 1) (.neg e1) c.st) := by
  simp only [emitE] at hcode hext
  obtain ⟨hc1, hc2⟩ := hcode.append
  rw [emitE_size] at hc2
  rw [evalE_neg]
  simp only [sizeE]
  refine GoalG.bind (ih nl fn Γ Γx Λ ab e1 Γ1 Λ1 h1 c lp cs below fr hsc hinv hwt hc1 hext hft.neg) (.inr ⟨rfl, rfl⟩) ?_
  rintro v st1 - ⟨mv, μ1, m1, hmv, locs1, g1, l1, out1, n, hn, hinv1, hk1⟩
  have herr : (∀ j, mv ≠ .int j) → (∀ a, mv ≠ .float a) → Fails6 W.C (c.vm W below fr) .type st1.out := by
    intro hni hnf
    obtain ⟨s2, hs2, ho2⟩ := step6_neg_err (s0 := W.s0) (below := below) (locs := locs1) (ops := c.ops) (g := g1) (l := l1) (fr := fr) (m := m1)
      (out := out1) hc2 hni hnf
    exact ⟨n, _, s2, hn, hs2, by rw [ho2]; exact hinv1.out.symm⟩
  cases v with
  | int j =>
    rw [VR6.int_iff] at hmv; subst hmv
    by_cases hin : inRange (-j) = true
    · simp only [specNeg, hin, ↓reduceIte]
      refine .inr ⟨.int (-j), μ1, m1, rfl, locs1, g1, l1, out1, n + 1, ?_, hinv1.reip _ _, hk1⟩
      rw [execN_step W.C n _ _ _ hn (step6_neg_int hc2 hin), Nat.add_assoc]
    · simp only [specNeg, hin, Bool.false_eq_true, ↓reduceIte]
      obtain ⟨s2, hs2, ho2⟩ := step6_neg_int_err (s0 := W.s0) (below := below) (locs := locs1) (ops := c.ops) (g := g1) (l := l1) (fr := fr)
        (m := m1) (out := out1) hc2 hin
      exact .inr ⟨n, _, s2, hn, hs2, by rw [ho2]; exact hinv1.out.symm⟩
  | float x =>
    cases mv <;> simp only [VR6] at hmv
    rename_i a'
    obtain ⟨hi2, hg2, hv2⟩ := hinv_alloc_float hinv1.hi (F64.neg x)
    have hfa : m1.heap.floatAt a' = x := by simp [Heap.floatAt, hmv]
    have hstep := step6_neg_float (s0 := W.s0) (below := below) (locs := locs1) (ops := c.ops) (g := g1) (l := l1) (fr := fr) (m := m1)
      (out := out1) (a := a') hc2
    rw [hfa] at hstep
    refine .inr ⟨_, μ1, _, hv2, locs1, g1, l1, out1, n + 1, ?_, hinv1.move _ _ hg2 (SameEnv.refl _) hinv1.out hi2,
      hk1.trans (Keep.of_grow hg2 _)⟩
    rw [execN_step W.C n _ _ _ hn hstep, Nat.add_assoc]
  | _ => exact .inr (herr (fun b e => by subst e; simp only [VR6] at hmv) (fun b e => by subst e; simp only [VR6] at hmv))

theorem pe8_assignG (f : Nat) (ih : PE8 W f) (b k : Nat) (hm : (b, k) ∈ Γ) (e1 : RExpr) (h1 : Z8E Δ nl fn Γ Λ ab e1 Γ1 Λ1) (hsc : Sc7 W Δ fn Γ Γx Λ)
    (hinv : Inv6 W (bigScope fn Γ Γx) Λ nl c) (hwt : TI.WT (c.vm W below fr))
    (hcode : CodeAt W.C c.ip (emitE (.assignVar ⟨b, .global k⟩ e1) c.ip lp cs).1)
    (hext : Ext (emitE (.assignVar ⟨b, .global k⟩ e1) c.ip lp cs).2 W.CS)
    (hft : FtE W.ft Δ (.assignVar ⟨b, .global k⟩ e1) c.ip lp cs) :
    GoalV8 W (bigScope fn Γ Γx) Λ nl below fr (bigScope fn Γ1 Γx) Λ1 fn ab lp c (c.ip + sizeE (.assignVar ⟨b, .global k⟩ e1)) c.ops
      (evalE (f + 1) (.assignVar ⟨b, .global k⟩ e1) c.st) := by
  simp only [emitE, getVar, setVar] at hcode hext
  obtain ⟨hc1, hc2⟩ := hcode.append
  rw [emitE_size] at hc2
  rw [evalE_assign]
  simp only [sizeE]
  refine GoalG.bind (ih nl fn Γ Γx Λ ab e1 Γ1 Λ1 h1 c lp cs below fr hsc hinv hwt hc1 hext hft.assignVar) (.inr ⟨rfl, rfl⟩) ?_
  rintro v st1 - ⟨mv, μ1, m1, hmv, locs1, g1, l1, out1, n, hn, hinv1, hk1⟩
  have hst : (st1.bind ⟨b, .global k⟩ v).store = st1.store := bind_store _ _ _
  have hgr : Grow μ1 st1 m1.heap μ1 (st1.bind ⟨b, .global k⟩ v) m1.heap := SimH.grow_store_eq hst
  obtain ⟨hsc1, ⟨d, hd⟩, _⟩ := sc7_ext hsc (z8e_ext e1 h1)
  have hm1 : (b, k) ∈ bigScope fn Γ1 Γx := by rw [hd]; exact List.mem_append_right _ (hsc.sub _ hm)
  have hinv2 := inv6_bindG hsc1.okb hinv1 b k hm1 v mv hmv (c.ip + (sizeE e1 + 6)) (c.ops.push mv)
  refine .inr ⟨mv, μ1, m1, hmv.grow hgr, locs1, setGlobalArr g1 k mv, l1, out1, n + 2, ?_, hinv2, hk1.trans (Keep.of_grow hgr _)⟩
  have h2 := execN_step W.C n _ _ _ hn (step6_setGlobal hc2)
  have h3 := execN_step W.C (n + 1) _ _ _ h2 (step6_getGlobal (by simpa [Instr.size] using hc2.tail))
  rw [setGlobalArr_same] at h3
  rw [h3]; congr 2

theorem pe8_assignL (f : Nat) (ih : PE8 W f) (b k : Nat) (hm : (b, k) ∈ Λ) (hk : k < nl) (e1 : RExpr) (h1 : Z8E Δ nl fn Γ Λ ab e1 Γ1 Λ1)
    (hsc : Sc7 W Δ fn Γ Γx Λ) (hinv : Inv6 W (bigScope fn Γ Γx) Λ nl c) (hwt : TI.WT (c.vm W below fr))
    (hcode : CodeAt W.C c.ip (emitE (.assignVar ⟨b, .loc k⟩ e1) c.ip lp cs).1)
    (hext : Ext (emitE (.assignVar ⟨b, .loc k⟩ e1) c.ip lp cs).2 W.CS)
    (hft : FtE W.ft Δ (.assignVar ⟨b, .loc k⟩ e1) c.ip lp cs) :
    GoalV8 W (bigScope fn Γ Γx) Λ nl below fr (bigScope fn Γ1 Γx) Λ1 fn ab lp c (c.ip + sizeE (.assignVar ⟨b, .loc k⟩ e1)) c.ops
      (evalE (f + 1) (.assignVar ⟨b, .loc k⟩ e1) c.st) := by
  simp only [emitE, getVar, setVar] at hcode hext
  obtain ⟨hc1, hc2⟩ := hcode.append
  rw [emitE_size] at hc2
  rw [evalE_assign]
  simp only [sizeE]
  refine GoalG.bind (ih nl fn Γ Γx Λ ab e1 Γ1 Λ1 h1 c lp cs below fr hsc hinv hwt hc1 hext hft.assignVar) (.inr ⟨rfl, rfl⟩) ?_
  rintro v st1 - ⟨mv, μ1, m1, hmv, locs1, g1, l1, out1, n, hn, hinv1, hk1⟩
  have hk1' : k < locs1.size := by have := hinv1.size; simp only at this; omega
  have hst : (st1.bind ⟨b, .loc k⟩ v).store = st1.store := bind_store _ _ _
  have hgr : Grow μ1 st1 m1.heap μ1 (st1.bind ⟨b, .loc k⟩ v) m1.heap := SimH.grow_store_eq hst
  obtain ⟨hsc1, _, ⟨d, hd⟩⟩ := sc7_ext hsc (z8e_ext e1 h1)
  have hm1 : (b, k) ∈ Λ1 := by rw [hd]; exact List.mem_append_right _ hm
  have hinv2 := inv6_bindL hsc1.okl hinv1 b k hm1 hk1' v mv hmv (c.ip + (sizeE e1 + 6)) (c.ops.push mv)
  refine .inr ⟨mv, μ1, m1, hmv.grow hgr, locs1.setIfInBounds k mv, g1, l1, out1, n + 2, ?_, hinv2, hk1.trans (Keep.of_grow hgr _)⟩
  have h2 := execN_step W.C n _ _ _ hn (step6_setLocal hc2 hk1')
  have h3 := execN_step W.C (n + 1) _ _ _ h2
    (step6_getLocal (v := mv) (by simpa [Instr.size] using hc2.tail) (by simp [Array.getElem?_setIfInBounds, hk1']))
  rw [h3]; congr 2

theorem pe8_bin (hW : WOK8 W) (f : Nat) (ih : PE8 W f) (el : RExpr) (op : BinOp) (er : RExpr) (hnf : fusedCandidate el op er = none)
    (hl : Z8E Δ nl fn Γ Λ ab el Γ1 Λ1) (hr : Z8E Δ nl fn Γ1 Λ1 false er Γ2 Λ2) (hsc : Sc7 W Δ fn Γ Γx Λ)
    (hinv : Inv6 W (bigScope fn Γ Γx) Λ nl c) (hwt : TI.WT (c.vm W below fr))
    (hcode : CodeAt W.C c.ip (emitE (.infix el op er) c.ip lp cs).1) (hext : Ext (emitE (.infix el op er) c.ip lp cs).2 W.CS)
    (hft : FtE W.ft Δ (.infix el op er) c.ip lp cs) :
    GoalV8 W (bigScope fn Γ Γx) Λ nl below fr (bigScope fn Γ2 Γx) Λ2 fn ab lp c (c.ip + sizeE (.infix el op er)) c.ops (evalE (f + 1) (.infix el op er) c.st) := by
  simp only [emitE, hnf] at hcode hext
  obtain ⟨hc12, hc3⟩ := hcode.append
  obtain ⟨hc1, hc2⟩ := hc12.append
  rw [emitE_size] at hc2
  simp only [codeSize_append, emitE_size, ← Nat.add_assoc] at hc3
  have hext1 : Ext (emitE el c.ip lp cs).2 W.CS := (emitE_ext er _ _ _).trans hext
  rw [evalE_infix]
  simp only [sizeE, hnf]
  refine GoalG.bind (ih nl fn Γ Γx Λ ab el Γ1 Λ1 hl c lp cs below fr hsc hinv hwt hc1 hext1 (hft.infix hnf).1) (.inr ⟨rfl, rfl⟩) ?_
  rintro a st1 - ⟨ma, μ1, m1, hma, locs1, g1, l1, out1, n1, hn1, hinv1, hk1⟩
  have hwt1 := wt_execN n1 _ _ hwt hn1
  have hx1 := z8e_ext el hl
  have hsc1 := (sc7_ext hsc hx1).1
  refine GoalV8.prefix (c1 := ⟨μ1, st1, c.ip + sizeE el, locs1, c.ops.push ma, g1, l1, m1, out1⟩) n1 hn1 hk1 ?_
  have ihr := ih nl fn Γ1 Γx Λ1 false er Γ2 Λ2 hr ⟨μ1, st1, c.ip + sizeE el, locs1, c.ops.push ma, g1, l1, m1, out1⟩ lp (emitE el c.ip lp cs).2 below fr
    hsc1 hinv1 hwt1 hc2 hext (hft.infix hnf).2
  refine GoalG.bind (GoalG.from_ext hsc hx1 ihr) (.inl rfl) ?_
  rintro b st2 - ⟨mb, μ2, m2, hmb, locs2, g2, l2, out2, n2, hn2, hinv2, hk2⟩
  have hma2 : VR6 W μ2 st2 m2.heap a ma := hk2 a ma (fixedOf_push_mem below c.ops ma) hma
  have hrel := binop_rel6 hW.inj hinv2.hi op a b ma mb hma2 hmb
  have hkeep : Keep W μ1 st1 m1.heap μ2 st2 m2.heap (fixedOf below c.ops) := hk2.mono (fixedOf_push_sub below c.ops ma)
  simp only [specBin]
  cases hcore : binopCore op (st2.view a) (st2.view b) with
  | error e =>
    rw [hcore] at hrel
    obtain ⟨s2, hs2, ho2⟩ := step6_bin_err (s0 := W.s0) (below := below) (locs := locs2) (ops := c.ops) (g := g2) (l := l2) (fr := fr)
      (out := out2) hc3 hrel
    exact .inr ⟨n2, _, s2, hn2, hs2, by rw [ho2]; exact hinv2.out.symm⟩
  | ok p =>
    rw [hcore] at hrel
    obtain ⟨μ3, mr, m3, hb, hi3, hg3, hv3⟩ := hrel
    obtain ⟨hse, hso⟩ := sameEnv_box st2 a p
    refine .inr ⟨mr, μ3, m3, hv3, locs2, g2, l2, out2, n2 + 1, ?_, hinv2.move _ _ hg3 hse (by rw [hso]; exact hinv2.out) hi3,
      hkeep.trans (Keep.of_grow hg3 _)⟩
    rw [execN_step W.C n2 _ _ _ hn2 (step6_bin_ok hc3 hb)]
    congr 2; simp only; omega

/-- the fused instruction: local `k` against the integer constant `v` -/
theorem fused_core8 (hW : WOK8 W) (op' : BinOp) (k idx : Nat) (v : Int) (a : SVal) (ma : Value) (sarg : SVal)
    {Γb : Gam} (hinv : Inv6 W Γb Λ nl c) (hma : VR6 W c.μ c.st c.m.heap a ma) (hl : c.locs[k]? = some ma)
    (hk : W.s0.cvals[idx]? = some (.int v)) {rest : List Instr} (hcode : CodeAt W.C c.ip (.fused op' k idx :: rest)) :
    GoalV6 W Γb Λ nl below fr fn ab lp c (c.ip + 5) c.ops
      (match binopCore op' (c.st.view a) (.int v) with
        | .ok p => .val (c.st.box sarg p).1 (c.st.box sarg p).2
        | .error e => .err e c.st) := by
  have hrel := binop_rel6 hW.inj hinv.hi op' a (.int v) ma (.int v) hma rfl
  have hv : c.st.view (.int v) = .int v := rfl
  rw [hv] at hrel
  cases hcore : binopCore op' (c.st.view a) (.int v) with
  | error e =>
    rw [hcore] at hrel
    obtain ⟨s2, hs2, ho2⟩ := step6_fused_err (s0 := W.s0) (below := below) (ops := c.ops) (g := c.g) (l := c.l) (fr := fr)
      (out := c.out) hcode hl hk hrel
    exact .inr ⟨0, _, s2, rfl, hs2, by rw [ho2]; exact hinv.out.symm⟩
  | ok p =>
    rw [hcore] at hrel
    obtain ⟨μ3, mr, m3, hb, hi3, hg3, hv3⟩ := hrel
    have hp := binopCore_not_same op' _ _ p hcore
    rw [sbox_arg c.st a sarg p hp] at hi3 hg3 hv3
    obtain ⟨hse, hso⟩ := sameEnv_box c.st sarg p
    exact .inr ⟨mr, μ3, m3, hv3, c.locs, c.g, c.l, c.out, 1, execN_one W.C _ _ (step6_fused_ok hcode hl hk hb),
      hinv.move _ _ hg3 hse (by rw [hso]; exact hinv.out) hi3, Keep.of_grow hg3 _⟩

theorem pe8_fusedL (hW : WOK8 W) (f : Nat) (b k : Nat) (op : BinOp) (v : Int) (hm : (b, k) ∈ Λ)
    (hfc : fusedCandidate (.var ⟨b, .loc k⟩) op (.int v) = some (op, k, v))
    (hinv : Inv6 W (bigScope fn Γ Γx) Λ nl c)
    (hcode : CodeAt W.C c.ip (emitE (.infix (.var ⟨b, .loc k⟩) op (.int v)) c.ip lp cs).1)
    (hext : Ext (emitE (.infix (.var ⟨b, .loc k⟩) op (.int v)) c.ip lp cs).2 W.CS) :
    GoalV6 W (bigScope fn Γ Γx) Λ nl below fr fn ab lp c (c.ip + sizeE (.infix (.var ⟨b, .loc k⟩) op (.int v))) c.ops
      (evalE (f + 1) (.infix (.var ⟨b, .loc k⟩) op (.int v)) c.st) := by
  simp only [emitE, hfc] at hcode hext
  have hk := hinv.hi.pool.ints _ v (hext.get _ _ (addConst_int_index cs v))
  simp only [sizeE, hfc]
  cases f with
  | zero => simp only [evalE]; exact .inr trivial
  | succ f =>
    simp only [evalE, SState.lookup, isGlobalSlot, Bool.false_eq_true, ↓reduceIte]
    cases hl : envGet c.st.lenv b with
    | none => exact .inr trivial
    | some a =>
      obtain ⟨ma, hma, hg⟩ := hinv.relL b k hm a hl
      have := fused_core8 (below := below) (fr := fr) (fn := fn) (ab := ab) (lp := lp) hW op k _ v a ma a hinv hma hg hk hcode
      have hv : c.st.view (.int v) = .int v := rfl
      simp only [hv]
      cases hcore : binopCore op (c.st.view a) (.int v) with
      | error e => rw [hcore] at this; exact this
      | ok p => rw [hcore] at this; exact this

theorem pe8_fusedR (hW : WOK8 W) (f : Nat) (b k : Nat) (op op' : BinOp) (v : Int) (hm : (b, k) ∈ Λ)
    (hmir : mirrorOp op = some op')
    (hinv : Inv6 W (bigScope fn Γ Γx) Λ nl c)
    (hcode : CodeAt W.C c.ip (emitE (.infix (.int v) op (.var ⟨b, .loc k⟩)) c.ip lp cs).1)
    (hext : Ext (emitE (.infix (.int v) op (.var ⟨b, .loc k⟩)) c.ip lp cs).2 W.CS) :
    GoalV6 W (bigScope fn Γ Γx) Λ nl below fr fn ab lp c (c.ip + sizeE (.infix (.int v) op (.var ⟨b, .loc k⟩))) c.ops
      (evalE (f + 1) (.infix (.int v) op (.var ⟨b, .loc k⟩)) c.st) := by
  have hfc : fusedCandidate (.int v) op (.var ⟨b, .loc k⟩) = some (op', k, v) := by simp [fusedCandidate, hmir]
  simp only [emitE, hfc] at hcode hext
  have hk := hinv.hi.pool.ints _ v (hext.get _ _ (addConst_int_index cs v))
  simp only [sizeE, hfc]
  cases f with
  | zero => simp only [evalE]; exact .inr trivial
  | succ f =>
    simp only [evalE, SState.lookup, isGlobalSlot, Bool.false_eq_true, ↓reduceIte]
    cases hl : envGet c.st.lenv b with
    | none => exact .inr trivial
    | some a =>
      obtain ⟨ma, hma, hg⟩ := hinv.relL b k hm a hl
      have := fused_core8 (below := below) (fr := fr) (fn := fn) (ab := ab) (lp := lp) hW op' k _ v a ma (.int v) hinv hma hg hk hcode
      have hv : c.st.view (.int v) = .int v := rfl
      simp only [hv]
      rw [C10.C10_mirror op op' v (c.st.view a) hmir]
      cases hcore : binopCore op' (c.st.view a) (.int v) with
      | error e => rw [hcore] at this; exact this
      | ok p => rw [hcore] at this; exact this

/-! ### function literals -/

/-- an ANONYMOUS function literal: `Jump` over the body, `Const k` pushes the function value -/
theorem pe8_func (hW : WOK8 W) (f : Nat) (fid : Nat) (ps : List Nat) (nlf : Nat) (body : RBlock)
    (hsc : Sc7 W Δ fn Γ Γx Λ) (hinv : Inv6 W (bigScope fn Γ Γx) Λ nl c)
    (hcode : CodeAt W.C c.ip (emitE (.func fid none ps nlf body) c.ip lp cs).1)
    (hext : Ext (emitE (.func fid none ps nlf body) c.ip lp cs).2 W.CS)
    (hft : FtE W.ft Δ (.func fid none ps nlf body) c.ip lp cs) :
    GoalV6 W (bigScope fn Γ Γx) Λ nl below fr fn ab lp c (c.ip + sizeE (.func fid none ps nlf body)) c.ops
      (evalE (f + 1) (.func fid none ps nlf body) c.st) := by
  obtain ⟨hj, _, hc3, hpl, hsz⟩ := func_layout fid none ps nlf body hcode
  rw [hpl] at hext
  have hk := hW.cfn _ _ _ (hext.get _ _ (SimF.addConst_fn_index (emitB body (c.ip + 3) none cs).2 (c.ip + 3) nlf))
  simp only [selfTail, List.length_nil, List.append_nil] at hc3 hsz
  simp only [evalE]
  have s1 := execN_one W.C _ _ (step6_jump (s0 := W.s0) (below := below) (locs := c.locs) (ops := c.ops) (g := c.g) (l := c.l) (fr := fr)
    (m := c.m) (out := c.out) hj)
  have s2 := execN_step W.C 1 _ _ _ s1 (step6_const hc3 hk (by simp))
  refine .inr ⟨.fn (c.ip + 3) nlf, c.μ, c.m, vr7_fn hsc.pi hft.func.1 _ _ _, c.locs, c.g, c.l, c.out, 2, ?_, hinv.reip _ _, Keep.refl _ _ _ _ _⟩
  refine s2.trans ?_
  rw [hsz]; congr 2; omega

/-- a NAMED function literal whose name is a fresh LOCAL of the enclosing function: `Jump`, `Const k`, `SetLocal`, `Const k`;
    afterwards the name is in scope -/
theorem pe8_fdefL (hW : WOK8 W) (f : Nat) (fid b k : Nat) (ps : List Nat) (nlf : Nat) (body : RBlock)
    (hf : ∀ p ∈ Λ, p.1 ≠ b ∧ p.2 ≠ k) (hk : k < nl) {Γb : Gam} (hokl : GamOK Λ) (hpi : ∀ p ∈ Δ, p ∈ W.Γp) (hinv : Inv6 W Γb Λ nl c)
    (hcode : CodeAt W.C c.ip (emitE (.func fid (some ⟨b, .loc k⟩) ps nlf body) c.ip lp cs).1)
    (hext : Ext (emitE (.func fid (some ⟨b, .loc k⟩) ps nlf body) c.ip lp cs).2 W.CS)
    (hft : FtE W.ft Δ (.func fid (some ⟨b, .loc k⟩) ps nlf body) c.ip lp cs) :
    GoalG W Γb Λ nl below fr fn ab lp c.ops c
      (VCV W Γb ((b, k) :: Λ) nl below fr (c.ip + sizeE (.func fid (some ⟨b, .loc k⟩) ps nlf body)) c.ops c)
      (evalE (f + 1) (.func fid (some ⟨b, .loc k⟩) ps nlf body) c.st) := by
  obtain ⟨hj, _, hc3, hpl, hsz⟩ := func_layout fid (some ⟨b, .loc k⟩) ps nlf body hcode
  rw [hpl] at hext
  have hkc := hW.cfn _ _ _ (hext.get _ _ (SimF.addConst_fn_index (emitB body (c.ip + 3) none cs).2 (c.ip + 3) nlf))
  simp only [selfTail, setVar, List.length_cons, List.length_nil] at hc3 hsz
  have hk' : k < c.locs.size := by rw [hinv.size]; exact hk
  simp only [evalE]
  have s1 := execN_one W.C _ _ (step6_jump (s0 := W.s0) (below := below) (locs := c.locs) (ops := c.ops) (g := c.g) (l := c.l) (fr := fr)
    (m := c.m) (out := c.out) hj)
  have s2 := execN_step W.C 1 _ _ _ s1 (step6_const hc3 hkc (by simp))
  have s3 := execN_step W.C 2 _ _ _ s2 (step6_setLocal (by simpa [Instr.size] using hc3.tail) hk')
  have s4 := execN_step W.C 3 _ _ _ s3 (step6_const (by simpa [Instr.size] using hc3.tail.tail) hkc (by simp))
  have h0 := inv6_unbindL b k hf hinv c.ip c.ops
  have h1 := inv6_bindL (gamOK_cons hokl b k hf) h0 b k List.mem_cons_self hk' (.fn fid ps nlf body) (.fn (c.ip + 3) nlf)
    (vr7_fn hpi hft.func.1 _ _ _) (c.ip + sizeE (.func fid (some ⟨b, .loc k⟩) ps nlf body)) (c.ops.push (.fn (c.ip + 3) nlf))
  simp only [SimF.bind_unbind] at h1
  refine .inr ⟨.fn (c.ip + 3) nlf, c.μ, c.m, vr7_fn hpi hft.func.1 _ _ _, c.locs.setIfInBounds k (.fn (c.ip + 3) nlf), c.g, c.l, c.out, 4, ?_, h1,
    Keep.of_grow (SimH.grow_store_eq (bind_store _ _ _)) _⟩
  refine s4.trans ?_
  rw [hsz]; congr 2; omega

/-- a NAMED function literal whose name is a fresh GLOBAL (outside any function): `Jump`, `Const k`, `SetGlobal`, `Const k` -/
theorem pe8_fdefG (hW : WOK8 W) (f : Nat) (fid b k : Nat) (ps : List Nat) (nlf : Nat) (body : RBlock)
    {Γb : Gam} (hf : ∀ p ∈ Γb, p.1 ≠ b ∧ p.2 ≠ k) (hokb : GamOK Γb) (hpi : ∀ p ∈ Δ, p ∈ W.Γp) (hinv : Inv6 W Γb Λ nl c)
    (hcode : CodeAt W.C c.ip (emitE (.func fid (some ⟨b, .global k⟩) ps nlf body) c.ip lp cs).1)
    (hext : Ext (emitE (.func fid (some ⟨b, .global k⟩) ps nlf body) c.ip lp cs).2 W.CS)
    (hft : FtE W.ft Δ (.func fid (some ⟨b, .global k⟩) ps nlf body) c.ip lp cs) :
    GoalG W Γb Λ nl below fr fn ab lp c.ops c
      (VCV W ((b, k) :: Γb) Λ nl below fr (c.ip + sizeE (.func fid (some ⟨b, .global k⟩) ps nlf body)) c.ops c)
      (evalE (f + 1) (.func fid (some ⟨b, .global k⟩) ps nlf body) c.st) := by
  obtain ⟨hj, _, hc3, hpl, hsz⟩ := func_layout fid (some ⟨b, .global k⟩) ps nlf body hcode
  rw [hpl] at hext
  have hkc := hW.cfn _ _ _ (hext.get _ _ (SimF.addConst_fn_index (emitB body (c.ip + 3) none cs).2 (c.ip + 3) nlf))
  simp only [selfTail, setVar, List.length_cons, List.length_nil] at hc3 hsz
  simp only [evalE]
  have s1 := execN_one W.C _ _ (step6_jump (s0 := W.s0) (below := below) (locs := c.locs) (ops := c.ops) (g := c.g) (l := c.l) (fr := fr)
    (m := c.m) (out := c.out) hj)
  have s2 := execN_step W.C 1 _ _ _ s1 (step6_const hc3 hkc (by simp))
  have s3 := execN_step W.C 2 _ _ _ s2 (step6_setGlobal (by simpa [Instr.size] using hc3.tail))
  have s4 := execN_step W.C 3 _ _ _ s3 (step6_const (by simpa [Instr.size] using hc3.tail.tail) hkc (by simp))
  have h0 := inv6_unbindG b k hf hinv c.ip c.ops
  have h1 := inv6_bindG (gamOK_cons hokb b k hf) h0 b k List.mem_cons_self (.fn fid ps nlf body) (.fn (c.ip + 3) nlf)
    (vr7_fn hpi hft.func.1 _ _ _) (c.ip + sizeE (.func fid (some ⟨b, .global k⟩) ps nlf body)) (c.ops.push (.fn (c.ip + 3) nlf))
  simp only [SimF.bind_unbind] at h1
  refine .inr ⟨.fn (c.ip + 3) nlf, c.μ, c.m, vr7_fn hpi hft.func.1 _ _ _, c.locs, setGlobalArr c.g k (.fn (c.ip + 3) nlf), c.l, c.out, 4, ?_, h1,
    Keep.of_grow (SimH.grow_store_eq (bind_store _ _ _)) _⟩
  refine s4.trans ?_
  rw [hsz]; congr 2; omega

/-- the same for any fuel -/
theorem pe8_fdefL' (hW : WOK8 W) (f : Nat) (fid b k : Nat) (ps : List Nat) (nlf : Nat) (body : RBlock)
    (hf : ∀ p ∈ Λ, p.1 ≠ b ∧ p.2 ≠ k) (hk : k < nl) {Γb : Gam} (hokl : GamOK Λ) (hpi : ∀ p ∈ Δ, p ∈ W.Γp) (hinv : Inv6 W Γb Λ nl c)
    (hcode : CodeAt W.C c.ip (emitE (.func fid (some ⟨b, .loc k⟩) ps nlf body) c.ip lp cs).1)
    (hext : Ext (emitE (.func fid (some ⟨b, .loc k⟩) ps nlf body) c.ip lp cs).2 W.CS)
    (hft : FtE W.ft Δ (.func fid (some ⟨b, .loc k⟩) ps nlf body) c.ip lp cs) :
    GoalG W Γb Λ nl below fr fn ab lp c.ops c
      (VCV W Γb ((b, k) :: Λ) nl below fr (c.ip + sizeE (.func fid (some ⟨b, .loc k⟩) ps nlf body)) c.ops c)
      (evalE f (.func fid (some ⟨b, .loc k⟩) ps nlf body) c.st) := by
  cases f with
  | zero => simp only [evalE]; exact .inr trivial
  | succ f => exact pe8_fdefL hW f fid b k ps nlf body hf hk hokl hpi hinv hcode hext hft

theorem pe8_fdefG' (hW : WOK8 W) (f : Nat) (fid b k : Nat) (ps : List Nat) (nlf : Nat) (body : RBlock)
    {Γb : Gam} (hf : ∀ p ∈ Γb, p.1 ≠ b ∧ p.2 ≠ k) (hokb : GamOK Γb) (hpi : ∀ p ∈ Δ, p ∈ W.Γp) (hinv : Inv6 W Γb Λ nl c)
    (hcode : CodeAt W.C c.ip (emitE (.func fid (some ⟨b, .global k⟩) ps nlf body) c.ip lp cs).1)
    (hext : Ext (emitE (.func fid (some ⟨b, .global k⟩) ps nlf body) c.ip lp cs).2 W.CS)
    (hft : FtE W.ft Δ (.func fid (some ⟨b, .global k⟩) ps nlf body) c.ip lp cs) :
    GoalG W Γb Λ nl below fr fn ab lp c.ops c
      (VCV W ((b, k) :: Γb) Λ nl below fr (c.ip + sizeE (.func fid (some ⟨b, .global k⟩) ps nlf body)) c.ops c)
      (evalE f (.func fid (some ⟨b, .global k⟩) ps nlf body) c.st) := by
  cases f with
  | zero => simp only [evalE]; exact .inr trivial
  | succ f => exact pe8_fdefG hW f fid b k ps nlf body hf hokb hpi hinv hcode hext hft

end expr
end Sim8
end Nl
