/- Stage 6: `ReturnValue` and `Return` in the simulation: the collection at the return is transparent for the
   invariant (restricted address map), the result, the globals, `last` and the caller's part of the stack. -/
import Nlmodel.Proofs.Lemmas.Sim6Call
namespace Nl
namespace Sim6
open Spec Sim
open SimH (AMap isStrCell isArrCell Grow PoolH MemOK sameKind LitF)
open SimF (FT FnInfo FTInj paramScope bigScope)

theorem getD_mem_or_scalar (g : Array Value) (k : Nat) : g.getD k .null ∈ g.toList ∨ (g.getD k .null).addr? = none := by
  rw [Array.getD_eq_getD_getElem?]
  cases hk : g[k]? with
  | none => exact .inr rfl
  | some w =>
    left
    rw [← Array.getElem?_toList] at hk
    exact List.mem_of_getElem? hk

section
variable {W : World} {Γb Λ : Gam} {nl : Nat} {below : Array Value} {fr : List Frame}

/-- the collection at a return, seen from the simulation -/
theorem ret_gc {μ1 : AMap} {st1 : SState} {m1 : Mem} {g1 : Array Value} {l1 : Value} (extra : List Value)
    (hi : HInv W μ1 st1 m1) (hk : GC.HeapKindOK m1.heap) (hkr : ∀ v ∈ retRoots W.s0 below g1 extra, GC.KindOK m1.heap v)
    (hrelG : RelG6 W Γb μ1 st1 m1.heap g1) (hlast : VR6 W μ1 st1 m1.heap st1.last l1) (hl : l1 ∈ extra) :
    HInv W (restrict μ1 (GC.run m1 (retRoots W.s0 below g1 extra)).heap) st1 (GC.run m1 (retRoots W.s0 below g1 extra)) ∧
    RelG6 W Γb (restrict μ1 (GC.run m1 (retRoots W.s0 below g1 extra)).heap) st1 (GC.run m1 (retRoots W.s0 below g1 extra)).heap g1 ∧
    VR6 W (restrict μ1 (GC.run m1 (retRoots W.s0 below g1 extra)).heap) st1 (GC.run m1 (retRoots W.s0 below g1 extra)).heap st1.last l1 ∧
    Keep W μ1 st1 m1.heap (restrict μ1 (GC.run m1 (retRoots W.s0 below g1 extra)).heap) st1 (GC.run m1 (retRoots W.s0 below g1 extra)).heap
      (below.toList ++ extra) := by
  have hcv : ∀ v, v ∈ W.s0.cvals.toList → v ∈ retRoots W.s0 below g1 extra := by
    intro v hv; simp only [retRoots, List.mem_append]; exact .inl (.inl (.inr hv))
  refine ⟨hinv_gc hi hk hkr hcv, ?_, ?_, ?_⟩
  · intro b k hm v hv
    obtain ⟨mv, h1, h2⟩ := hrelG b k hm v hv
    refine ⟨mv, vr6_gc_root hi hk hkr ?_ h1, h2⟩
    rw [← h2]
    rcases getD_mem_or_scalar g1 k with h | h
    · left; simp only [retRoots, List.mem_append]; exact .inl (.inr h)
    · exact .inr h
  · exact vr6_gc_root hi hk hkr (.inl (by simp only [retRoots, List.mem_append]; exact .inr hl)) hlast
  · intro v mv hm hv
    refine vr6_gc_root hi hk hkr (.inl ?_) hv
    simp only [retRoots, List.mem_append] at hm ⊢
    rcases hm with h | h
    · exact .inl (.inl (.inl h))
    · exact .inr h

/-- a value on top of the operands, then `ReturnValue` -/
theorem returns_retv {c : Cfg} {n e1 : Nat} {μ1 : AMap} {st1 : SState} {locs1 ops1 g1 : Array Value} {l1 : Value} {m1 : Mem} {out1 : List Text}
    {v : SVal} {mv : Value} {rest : List Instr} (hwt : TI.WT (c.vm W below fr))
    (hn : execN W.C n (c.vm W below fr) = some (mk6 W.s0 e1 below locs1 (ops1.push mv) g1 l1 fr m1 out1))
    (hinv1 : Inv6 W Γb Λ nl ⟨μ1, st1, e1, locs1, ops1.push mv, g1, l1, m1, out1⟩) (hmv : VR6 W μ1 st1 m1.heap v mv)
    (hk1 : Keep W c.μ c.st c.m.heap μ1 st1 m1.heap below.toList)
    (hret : CodeAt W.C e1 (.retv :: rest)) : Returns6 W Γb below fr c v st1 := by
  intro fr0 rest' hfr
  subst hfr
  have hwt1 := wt_execN n _ _ hwt hn
  obtain ⟨hk, hkr0⟩ := TI.wt_kinds hwt1
  have hkr : ∀ x ∈ retRoots W.s0 below g1 [l1, mv], GC.KindOK m1.heap x := by
    intro x hx
    apply hkr0 x
    simp only [retRoots, List.mem_append, List.mem_cons, List.not_mem_nil, or_false] at hx
    simp only [mk6_stack, mk6_cvals, mk6_globals, mk6_last, List.mem_append, Array.toList_append, Array.toList_push, List.mem_singleton]
    rcases hx with ((hx | hx) | hx) | hx | hx
    · exact .inl (.inl (.inl (.inl (.inl hx))))
    · exact .inl (.inl (.inr hx))
    · exact .inl (.inr hx)
    · exact .inr hx
    · exact .inl (.inl (.inl (.inr (.inr hx))))
  obtain ⟨h1, h2, h3, h4⟩ := ret_gc (W := W) (Γb := Γb) (below := below) [l1, mv] hinv1.hi hk hkr hinv1.relG hinv1.last (by simp)
  refine ⟨mv, g1, l1, _, out1, _, n + 1, execN_step W.C n _ _ _ hn (step6_retv hret), ?_, h2, h3, hinv1.out, h1, ?_⟩
  · exact h4 v mv (by simp) hmv
  · exact hk1.trans (h4.mono (fun x hx => List.mem_append_left _ hx))

/-- `Return`: the result is null -/
theorem returns_ret {c : Cfg} {n e1 : Nat} {μ1 : AMap} {st1 : SState} {locs1 ops1 g1 : Array Value} {l1 : Value} {m1 : Mem} {out1 : List Text}
    {rest : List Instr} (hwt : TI.WT (c.vm W below fr))
    (hn : execN W.C n (c.vm W below fr) = some (mk6 W.s0 e1 below locs1 ops1 g1 l1 fr m1 out1))
    (hinv1 : Inv6 W Γb Λ nl ⟨μ1, st1, e1, locs1, ops1, g1, l1, m1, out1⟩)
    (hk1 : Keep W c.μ c.st c.m.heap μ1 st1 m1.heap below.toList)
    (hret : CodeAt W.C e1 (.ret :: rest)) : Returns6 W Γb below fr c .null st1 := by
  intro fr0 rest' hfr
  subst hfr
  have hwt1 := wt_execN n _ _ hwt hn
  obtain ⟨hk, hkr0⟩ := TI.wt_kinds hwt1
  have hkr : ∀ x ∈ retRoots W.s0 below g1 [l1], GC.KindOK m1.heap x := by
    intro x hx
    apply hkr0 x
    simp only [retRoots, List.mem_append, List.mem_cons, List.not_mem_nil, or_false] at hx
    simp only [mk6_stack, mk6_cvals, mk6_globals, mk6_last, List.mem_append, Array.toList_append, List.mem_singleton]
    rcases hx with ((hx | hx) | hx) | hx
    · exact .inl (.inl (.inl (.inl (.inl hx))))
    · exact .inl (.inl (.inr hx))
    · exact .inl (.inr hx)
    · exact .inr hx
  obtain ⟨h1, h2, h3, h4⟩ := ret_gc (W := W) (Γb := Γb) (below := below) [l1] hinv1.hi hk hkr hinv1.relG hinv1.last (by simp)
  exact ⟨.null, g1, l1, _, out1, _, n + 1, execN_step W.C n _ _ _ hn (step6_ret hret), trivial, h2, h3, hinv1.out, h1,
    hk1.trans (h4.mono (fun x hx => List.mem_append_left _ hx))⟩

end
end Sim6
end Nl
