/-
  UTF-8 refinement, part 5: (U4) the byte-level `index_get_string` / `index_set_string` are the
  character-level string read / write of the model (`indexGet`/`indexSet` of Model/VM and
  `sIndexGet`/`sIndexSet` of Spec/Eval on strings), with the same error kinds.
-/
import Nlmodel.Proofs.Lemmas.Utf8Order
import Nlmodel.Model.VM
import Nlmodel.Spec.Eval
namespace Nl
namespace Utf8

/-! ### the bounds logic -/

/-- the byte-level bounds logic is the model's `normIndex` -/
theorem byteNormIndex_eq (len : Nat) (i : Int) :
    byteNormIndex len i = match normIndex len i with
      | some k => .ok k
      | none => .error .index := by
  unfold byteNormIndex normIndex
  generalize (if i < 0 then i + (len : Int) else i) = j
  simp only
  by_cases h0 : j < 0
  · rw [if_pos h0, if_neg (by simp; omega)]
  · by_cases h1 : j ≥ (len : Int)
    · rw [if_neg h0, if_pos h1, if_neg (by simp; omega)]
    · rw [if_neg h0, if_neg h1, if_pos (by simp; omega)]

theorem normIndex_lt (len : Nat) (i : Int) (k : Nat) (h : normIndex len i = some k) : k < len := by
  unfold normIndex at h
  generalize (if i < 0 then i + (len : Int) else i) = j at h
  simp only at h
  by_cases hc : (0 ≤ j && decide (j < (len : Int))) = true
  · rw [if_pos hc] at h
    simp only [Bool.and_eq_true, decide_eq_true_eq] at hc
    injection h with h
    omega
  · rw [if_neg hc] at h; cases h

/-- the cast `index as usize` of the Rust code, on a 64-bit machine -/
def asUsize (j : Int) : Int := j % 2 ^ 64

/-- why `byteNormIndex` may test `index < 0` instead of casting: for an `isize` index and a string
    of fewer than 2^63 characters, `index as usize >= strlen` holds exactly when
    `index < 0 ∨ index >= strlen` -/
theorem asUsize_ge_iff (strlen : Nat) (j : Int) (hl : (strlen : Int) < 2 ^ 63)
    (hj : -(2 ^ 63) ≤ j) (hj' : j < 2 ^ 63) :
    asUsize j ≥ strlen ↔ (j < 0 ∨ j ≥ strlen) := by
  unfold asUsize
  omega

/-! ### (U4) pure form -/

/-- (U4, read) `index_get_string` on the bytes of `cs` = the one-character text the model's string
    read produces (`[s.getD k ' ']` at `normIndex`), encoded; out of range = index error -/
theorem byteIndexGet_encode (cs : List Char) (idx : Int) :
    byteIndexGet (encode cs) idx =
      match normIndex cs.length idx with
      | some k => .ok (encode [cs.getD k ' '])
      | none => .error .index := by
  unfold byteIndexGet
  rw [countChars_encode, byteNormIndex_eq]
  cases hn : normIndex cs.length idx with
  | none => rfl
  | some k =>
    have hk := normIndex_lt _ _ _ hn
    simp only
    rw [nthSpan_encode_of_lt cs k hk]
    simp only
    rw [decodeAt_encode cs k hk]
    simp only
    rw [encode_singleton, List.getD_eq_getElem?_getD, List.getElem?_eq_getElem hk]
    rfl

/-- (U4, write) `index_set_string` on the bytes of `cs` with the bytes of `rs` = the model's
    string write `s.take k ++ r ++ s.drop (k+1)` at `normIndex`, encoded -/
theorem byteIndexSet_encode (cs rs : List Char) (idx : Int) :
    byteIndexSet (encode cs) idx (encode rs) =
      match normIndex cs.length idx with
      | some k => .ok (encode (cs.take k ++ rs ++ cs.drop (k + 1)))
      | none => .error .index := by
  unfold byteIndexSet
  rw [countChars_encode, byteNormIndex_eq]
  cases hn : normIndex cs.length idx with
  | none => rfl
  | some k =>
    have hk := normIndex_lt _ _ _ hn
    simp only
    rw [nthSpan_encode_of_lt cs k hk]
    simp only
    rw [byteReplace_encode cs rs k hk]

/-- (U4, write, with the argument check) a value that is not a string is a type error, but only
    after the index was found in range — the order of the model -/
theorem byteIndexSetV_encode (cs : List Char) (idx : Int) (v : Option (List Char)) :
    byteIndexSetV (encode cs) idx (v.map encode) =
      match normIndex cs.length idx with
      | some k =>
        match v with
        | some rs => .ok (encode (cs.take k ++ rs ++ cs.drop (k + 1)))
        | none => .error .type
      | none => .error .index := by
  unfold byteIndexSetV
  rw [countChars_encode, byteNormIndex_eq]
  cases hn : normIndex cs.length idx with
  | none => rfl
  | some k =>
    cases v with
    | none => rfl
    | some rs =>
      simp only [Option.map_some]
      rw [byteIndexSet_encode, hn]

/-! ### (U4) against the machine model and the definitional semantics -/

/-- the bytes of the value to insert, if it is a string -/
def valueBytes (h : Heap) : Value → Option (List UInt8)
  | .str b => some (encode (h.strAt b))
  | _ => none

/-- READ, machine model: `indexGet` on a string is `byteIndexGet` on its bytes, the resulting
    bytes being the contents of the new string box -/
theorem indexGet_str_bytes (a : Nat) (i : Int) (m : Mem) :
    indexGet (.str a) (.int i) m =
      match byteIndexGet (encode (m.heap.strAt a)) i with
      | .ok bs =>
        match decode bs with
        | some t => let (m', v) := m.allocStr t; .ok (v, m')
        | none => .error .fuel
      | .error e => .error e := by
  rw [byteIndexGet_encode]
  unfold indexGet
  simp only
  cases normIndex (m.heap.strAt a).length i with
  | none => rfl
  | some k => simp only [decode_encode]

/-- WRITE, machine model: `indexSet` on a string is `byteIndexSetV` on its bytes, the resulting
    bytes being the new contents of the target box -/
theorem indexSet_str_bytes (a : Nat) (i : Int) (value : Value) (m : Mem) :
    indexSet (.str a) (.int i) value m =
      match byteIndexSetV (encode (m.heap.strAt a)) i (valueBytes m.heap value) with
      | .ok bs =>
        match decode bs with
        | some t => .ok (value, { m with heap := m.heap.set a (.str t) })
        | none => .error .fuel
      | .error e => .error e := by
  have hv : valueBytes m.heap value =
      (match value with | .str b => some (m.heap.strAt b) | _ => none).map encode := by
    cases value <;> rfl
  rw [hv, byteIndexSetV_encode]
  unfold indexSet
  simp only
  cases normIndex (m.heap.strAt a).length i with
  | none => rfl
  | some k => cases value <;> simp only [decode_encode]

open Spec in
/-- READ, definitional semantics -/
theorem sIndexGet_str_bytes (a : Nat) (i : Int) (st : SState) :
    sIndexGet (.str a) (.int i) st =
      match byteIndexGet (encode (st.strAt a)) i with
      | .ok bs =>
        match decode bs with
        | some t => let (st', b) := st.alloc (.str t); .ok (.str b, st')
        | none => .error .fuel
      | .error e => .error e := by
  rw [byteIndexGet_encode]
  unfold sIndexGet
  simp only
  cases normIndex (st.strAt a).length i with
  | none => rfl
  | some k => simp only [decode_encode]

open Spec in
/-- the bytes of the value to insert, if it is a string (definitional semantics) -/
def sValueBytes (st : SState) : SVal → Option (List UInt8)
  | .str b => some (encode (st.strAt b))
  | _ => none

open Spec in
/-- WRITE, definitional semantics -/
theorem sIndexSet_str_bytes (a : Nat) (i : Int) (v : SVal) (st : SState) :
    sIndexSet (.str a) (.int i) v st =
      match byteIndexSetV (encode (st.strAt a)) i (sValueBytes st v) with
      | .ok bs =>
        match decode bs with
        | some t => .ok (v, { st with store := st.store.setIfInBounds a (.str t) })
        | none => .error .fuel
      | .error e => .error e := by
  have hv : sValueBytes st v =
      (match v with | .str b => some (st.strAt b) | _ => none).map encode := by
    cases v <;> rfl
  rw [hv, byteIndexSetV_encode]
  unfold sIndexSet
  simp only
  cases normIndex (st.strAt a).length i with
  | none => rfl
  | some k => cases v <;> simp only [decode_encode]

/-- (C14) `lengte` of a string, computed on the bytes as `chars().count()`, is the model's result -/
theorem length_bytes (s : Text) :
    builtinCore .length (.str s) = .ok (.int (countChars (encode s))) := by
  rw [countChars_encode]; rfl

/-- (C06/C15) the comparison operators of the model on strings, computed on the bytes -/
theorem binopCore_str_bytes (op : BinOp) (x y : Text) (h : op.isArith = false)
    (h' : op ≠ .and ∧ op ≠ .or) :
    binopCore op (.str x) (.str y) =
      .ok (.bool (cmpBy op (byteLt (encode x) (encode y)) (byteEq (encode x) (encode y)))) := by
  rw [cmpBy_bytes]
  cases op <;> simp_all [binopCore, View.ty, BinOp.isArith]

end Utf8
end Nl
