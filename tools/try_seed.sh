#!/bin/sh
# development aid: would the (work-copy) check $2 catch seeded change $1 (e.g. C08)?  Uses a private worktree + private harness build.
p=$1; c=$2; T=/tmp/try/${R:-m9}-$p
if [ ! -x $T/target/release/nlharness ]; then
  rm -rf $T; mkdir -p /tmp/try
  git -C /repo worktree add -q --detach $T/repo HEAD 2>/dev/null || { mkdir -p $T; git -C /repo worktree add -q --detach $T/repo HEAD; }
  git -C $T/repo apply /tmp/seed/cands/$p/${R:-m9}/patch.diff || exit 2
  cp -r /verif/harness $T/harness; sed -i "s#path = \"/repo\"#path = \"$T/repo\"#" $T/harness/Cargo.toml
  (cd $T/harness && CARGO_NET_OFFLINE=true CARGO_TARGET_DIR=$T/target cargo build --offline --release --quiet 2>&1 | grep -E "^error" | head -3)
  (cd $T/harness && CARGO_NET_OFFLINE=true CARGO_TARGET_DIR=$T/target cargo build --offline --quiet 2>&1 | grep -E "^error" | head -3)
fi
mkdir -p /tmp/try/out/${R:-m9}-$p-$c && cd /tmp/try/out/${R:-m9}-$p-$c && rm -rf checklib && cp -r /tmp/work/checklib . && ln -sfn /verif/lean lean && ln -sfn /verif/build build && cp /verif/known_findings.json /verif/check .
NL_HARNESS_EXE=$T/target/release/nlharness ./check $c --tier quick 2>&1 | grep -E "VIOLATION" | head -3
echo "done $p $c rc=$?"
