"""Directed generators for two parts of the language the type-directed generator (gen.py) does not reach:
functions as first-class values whose variables are re-assigned, and function literals nested in functions.
Every choice comes from the Rng passed in."""


def fnvalue_program(rng):
    """functions are values and their names are ordinary variables: names are re-assigned, swapped, copied, passed,
    returned, stored in arrays, declared in sibling blocks (slot re-use); every call is made by name, through a copy,
    through a parameter and from inside another function, before and after the re-assignment"""
    k = [rng.range(2, 90) for _ in range(12)]
    defs = [
        ("stap", 1, "functie stap(x) { x + %d }" % k[0]),
        ("maal", 1, "functie maal(x) { x * %d }" % k[1]),
        ("paar", 2, "functie paar(a, b) { a * %d + b }" % k[2]),
        ("nul", 0, "functie nul() { %d }" % k[3]),
        ("lijst", 1, "stel lijst = functie(x) { [x, %d] }" % k[4]),
        ("min", 2, "stel min = functie(a, b) { a - b - %d }" % k[5]),
    ]
    rng_defs = [d for d in defs if rng.chance(2, 3)] or defs[:2]
    names = [d[0] for d in rng_defs]
    ar = {d[0]: d[1] for d in rng_defs}
    lines = [d[2] + ";" for d in rng_defs]
    lines.append("functie twee_keer(f, x) { f(f(x)) };")
    lines.append("functie roep(f, a, b) { f(a, b) };")

    def call(n, through=None, first=None):
        k = ar.get(n, 1)
        if rng.chance(1, 80):
            k = rng.pick([0, 1, 2, 3])        # now and then a wrong count: the error paths
        args = [str(rng.below(9)) for _ in range(k)]
        if first is not None and args:
            args[0] = first
        return "%s(%s)" % (through or n, ", ".join(args))

    users = 0
    for _ in range(rng.range(4, 12)):
        c = rng.below(14)
        n = rng.pick(names)
        m = rng.pick(names)
        same = [x for x in names if ar.get(x) == ar.get(n)]      # re-assignment keeps the arity of a name (calls stay well-formed)
        if c in (0, 2, 11):
            # the `gebruikN` functions call other names: they are never the SOURCE or TARGET of a re-assignment or swap, so no name
            # a `gebruikN` body calls can come to denote a `gebruikN` function — re-assignment never builds an accidental unbounded
            # recursion (which the interpreter answers with its stack limit only after a collection per level: minutes, not a hang)
            same = [x for x in same if not x.startswith("gebruik")] or [n]
            if n.startswith("gebruik"):
                c = 12
            m = rng.pick(same)
        if c == 0:
            lines.append("%s = %s;" % (n, m))
            ar[n] = ar.get(m, 1)
        elif c == 1:
            a = ar.get(n, 1)
            ps = ["u", "v"][:a]
            body = rng.pick(["%d" % rng.below(99), "[%s]" % ", ".join(ps + ["%d" % rng.below(9)]), (ps[0] + " * %d" % rng.range(2, 50)) if ps else "0 - 1"])
            lines.append("%s = functie(%s) { %s };" % (n, ", ".join(ps), body))
            ar[n] = a
        elif c == 2:
            lines.append("stel hulp%d = %s; %s = %s; %s = hulp%d;" % (len(lines), n, n, m, m, len(lines)))
            ar[n], ar[m] = ar.get(m, 1), ar.get(n, 1)
        elif c == 3:
            lines.append("print(%s);" % call(n))
        elif c == 4:
            lines.append("stel kopie%d = %s; print(kopie%d == %s, %s);" % (len(lines), n, len(lines), n, call(n, "kopie%d" % len(lines))))
        elif c == 5:
            users += 1
            u = "gebruik%d" % users
            lines.append("functie %s(n) { [%s, %s] };" % (u, call(n, first="n"), call(m)))
            names.append(u)
            ar[u] = 1
        elif c == 6:
            ones = [x for x in names if ar.get(x) == 1 and not x.startswith("gebruik") and x != "lijst"]
            twos = [x for x in names if ar.get(x) == 2]
            if ones:
                lines.append("print(twee_keer(%s, %d));" % (rng.pick(ones), rng.below(9)))
            if twos:
                lines.append("print(roep(%s, %d, %d));" % (rng.pick(twos), rng.below(9), rng.below(9)))
        elif c == 7:
            lines.append("{ functie blok_a() { %d }; print(blok_a()); }" % rng.below(99))
            lines.append("{ stel blok_b = functie() { %d }; print(blok_b()); }" % rng.below(99))
        elif c == 8:
            qs = ["q", "w"][:ar.get(n, 1)]
            lines.append("{ functie %s(%s) { %s - %d }; print(%s); }" % (n, ", ".join(qs), qs[0] if qs else "0", rng.below(99), call(n)))      # shadowing in a block
            lines.append("print(%s);" % call(n))
        elif c == 9:
            fs = "fs%d" % len(lines)
            lines.append("stel %s = [%s, %s]; stel %sa = %s[0]; stel %sb = %s[-1]; print(%s, %s); %s[0] = %s; %sa = %s[0]; print(%s);"
                         % (fs, n, m, fs, fs, fs, fs, call(n, fs + "a"), call(m, fs + "b"), fs, m, fs, fs, call(m, fs + "a")))
        elif c == 10:
            ks = "kies%d" % len(lines)
            lines.append("functie %s(c) { als c { %s } anders { %s } }; stel %sj = %s(ja); stel %sn = %s(nee); print(%s, %s);"
                         % (ks, n, m, ks, ks, ks, ks, call(n, ks + "j"), call(m, ks + "n")))
        elif c == 11:
            lines.append("stel i%d = 0; zolang i%d < 2 { i%d += 1; print(%s); %s = %s; };" % (len(lines), len(lines), len(lines), call(n), n, m))
            ar[n] = ar.get(m, 1)
        else:
            lines.append("print(%s, %s);" % (call(n), call(m)))
    lines.append("[%s]" % ", ".join(call(n) for n in names[:4]))
    return "\n".join(lines)


def nested_fn_program(rng):
    """a function literal inside a function: the inner body mentions its own names, globals, and globals that the
    enclosing function shadows with parameters or locals of the same name (the language has no closures: the inner
    function sees its own names and the globals, nothing in between); a mention of a name that only the enclosing
    function has must be rejected"""
    gl = ["g", "h", "tel"]
    outer_params = [n for n in ["p", "g", "q"] if rng.chance(1, 2)]
    outer_locals = [n for n in ["l", "h", "tel", "m"] if rng.chance(1, 2)]
    inner_params = [n for n in ["a", "g", "l"] if rng.chance(1, 2)]
    pool = gl + ["p", "q", "l", "m", "a", "b"]

    def ex(names, d=0):
        n = rng.pick(names)
        c = rng.below(9 if d < 2 else 3)
        if c == 0:
            return n
        if c == 1:
            return "%s + %d" % (n, rng.below(9))
        if c == 2:
            return "%d < %s" % (rng.below(9), n)
        if c == 3:
            return "[%d, %d, %s]" % (rng.below(9), rng.below(9), ex(names, d + 1))
        if c == 4:
            return "(%s = %d)" % (n, rng.below(99))
        if c == 5:
            return "%d - %s" % (rng.below(9), n)
        if c == 6:
            return "[%s, %s]" % (ex(names, d + 1), ex(names, d + 1))
        if c == 7:
            return "als %s == %d { %s } anders { %s }" % (n, rng.below(3), ex(names, d + 1), ex(names, d + 1))
        return "%s * 2 + %s" % (n, rng.pick(names))

    # names the inner function may legally mention (mostly), and sometimes one it may not
    legal = list(dict.fromkeys(inner_params + gl + ["b"]))
    mention = legal if rng.chance(5, 6) else pool
    inner_body = ["stel b = %d;" % rng.below(9)]
    for _ in range(rng.range(1, 3)):
        inner_body.append(ex(mention) + ";")
    inner_body.append(ex(mention))
    lines = ["stel g = %d; stel h = %d; stel tel = %d;" % (rng.below(9), 10 + rng.below(9), 20 + rng.below(9))]
    lines.append("functie buiten(%s) {" % ", ".join(outer_params))
    for n in outer_locals:
        lines.append("  stel %s = %d;" % (n, 100 + rng.below(99)))
    lines.append("  stel binnen = functie(%s) { %s };" % (", ".join(inner_params), " ".join(inner_body)))
    args = ", ".join(str(rng.below(9)) for _ in inner_params)
    use = rng.pick(["binnen(%s)" % args, "[1, 2, binnen(%s)]" % args, "7 + binnen(%s)" % args, "[binnen(%s), %s]" % (args, ex(outer_params + outer_locals + gl)),
                    "stel r = binnen(%s); [r, %s]" % (args, ex(outer_params + outer_locals + gl))])
    lines.append("  " + use)
    lines.append("};")
    lines.append("[buiten(%s), g, h, tel]" % ", ".join(str(rng.below(9)) for _ in outer_params))
    return "\n".join(lines)


def big_code_programs():
    """top-level code longer than 64 KiB: operands of jumps and function entries are limited to 16 bits, positions of
    straight-line code are not - a call made from beyond byte 65535 must return to where it was made, a function defined
    beyond it must be entered there, and a loop whose jump target does not fit must be rejected (SyntaxError), all as in
    the model.  A filler statement `1;` compiles to 4 bytes (Const + Pop)."""
    out = []
    head = "functie tik(n) { n + 1 };\nstel t = 0;\n"
    for fill in (16000, 16370, 16380, 16384, 16390, 17000, 33000):
        body = "1;\n" * fill
        out.append(("big-code-call-after", head + body + "t = tik(t);\nt = tik(t) + tik(t);\n[t, tik(40)]"))
    out.append(("big-code-call-around", head + ("1;\n" * 16300) + "".join("t = tik(t);\n" for _ in range(60)) + "t"))
    out.append(("big-code-late-function", "stel t = 5;\n" + ("1;\n" * 17000) + "functie laat(n) { n * 2 };\n[laat(t), laat(laat(t))]"))
    out.append(("big-code-late-loop", "stel i = 0;\n" + ("1;\n" * 17000) + "zolang i < 3 { i += 1 };\ni"))
    out.append(("big-code-late-if", "stel i = 0;\n" + ("1;\n" * 17000) + "als i == 0 { i = 7 } anders { i = 9 };\ni"))
    out.append(("big-code-function-body", "functie groot(n) {\n" + ("1;\n" * 17000) + "n + 1 };\ngroot(1) + groot(2)"))
    return out


def iife_programs():
    """a function literal - named or anonymous, with parameters - called where it is written"""
    return [
        "functie dubbel(x) { x * 2 }(21)", "functie(x) { x * 2 }(21)", "(functie dubbel(x) { x * 2 })(21)", "functie dubbel(x) { x * 2 }(21) + 1",
        "stel r = functie som(a, b) { a + b }(1, 2); r", "[functie een() { 1 }(), functie twee() { 2 }()]", "functie f() { functie g(y) { y + 1 }(4) }()",
        "functie dubbel(x) { x * 2 }(21); dubbel(1)", "functie dubbel(x) { x * 2 }\n(21)", "functie dubbel(x) { x * 2 };\n(21)",
        "print(functie groet(n) { n }(\"hoi\"))", "functie fac(n) { als n < 2 { antwoord 1 }; n * fac(n - 1) }(5)",
    ]


def width_boundary_programs():
    """operand widths: one-byte operands (argument counts) around 255/256, two-byte operands (element counts) around
    65535/65536, slot and constant indices past 255: right value below the limit, SyntaxError (size limit, flagged by the
    model) above it - never a truncated operand"""
    out = []
    for n in (254, 255, 256, 257):
        ps = ", ".join("p%d" % i for i in range(n))
        args = ", ".join(str(i) for i in range(n))
        out.append(("width-params", "functie f(%s) { p0 + p%d }; f(%s)" % (ps, n - 1, args)))
        out.append(("width-args-fewer", "functie f(%s) { [p0, p%d] }; f(%s)" % (ps, n - 1, ", ".join(str(i) for i in range(n - 1)))))
        out.append(("width-locals", "functie f() { %s l0 + l%d }; f()" % (" ".join("stel l%d = %d;" % (i, i) for i in range(n)), n - 1)))
        out.append(("width-array", "stel a = [%s]; [lengte(a), a[0], a[-1], a[%d]]" % (", ".join(str(1000 + i) for i in range(n)), n - 2)))
        out.append(("width-consts-in-function", "functie f(x) { [%s][x] }; [f(0), f(%d), f(%d)]" % (", ".join(str(5000 + i) for i in range(n)), n - 1, n // 2)))
        out.append(("width-print-args", "print(\"%s\", %s)" % ("{} " * 3, args)))
        out.append(("width-globals", " ".join("stel g%d = %d;" % (i, i) for i in range(n)) + " [g0, g%d, g%d]" % (n - 1, n // 2)))
    for n in (65534, 65535, 65536, 65537):
        out.append(("width-array-16", "stel a = [%s]; [lengte(a), a[-1]]" % ", ".join(["7"] * n)))
    return out


def tail_shape_programs():
    """function bodies (and loop bodies, and top-level blocks) whose LAST statement is an `als`/`anders als`/`anders` chain or a
    block with branches that END DIFFERENTLY: in a value, in `antwoord`, in a declaration (no value), empty, in a nested chain, in
    a loop left by `stop` — in every combination, called so that EVERY branch is taken.  The compiler decides per block whether a
    trailing `Pop`/`Null`/`Return` is needed from the last instruction it emitted; a body whose branches disagree about that
    (one yields a value, the other has already returned) is where a missing epilogue makes control run off the end of the
    function body into the caller's code (C02), or leaves the wrong value (C11/C12)."""
    ends = [
        ("val", "n + 1"),
        ("ret", "antwoord n + 2"),
        ("decl", "stel t = n + 3"),
        ("empty", ""),
        ("retblock", "{ antwoord n + 4 }"),
        ("nested", "als n > 5 { antwoord 50 } anders { 60 }"),
        ("nestedret", "als n > 5 { 70 } anders { antwoord 80 }"),
        ("loopstop", "zolang ja { stop }"),
        ("assign", "n = n + 9"),
    ]
    out = []
    args = ["0", "1", "2", "7"]
    for la, a in ends:
        for lb, b in ends:
            body1 = "als n < 1 { %s } anders { %s }" % (a, b)
            body2 = "als n < 1 { %s } anders als n < 2 { %s } anders { %s }" % (a, b, a)
            body3 = "als n < 1 { %s }" % a if la == lb else None
            for body in (body1, body2, body3):
                if body is None:
                    continue
                calls = ", ".join("f(%s)" % x for x in args)
                # tail position of a function body; followed by the caller's own code (which must not be re-entered)
                out.append("stel teller = 0;\nfunctie f(n) { %s };\nteller = teller + 1;\nstel r = [%s];\nteller = teller + 100;\n[r, teller]" % (body, calls))
                # not in tail position: the value of the chain is discarded, the function goes on
                out.append("functie f(n) { %s; n * 1000 };\n[%s]" % (body, calls))
                # as an operand and as an argument
                out.append("functie f(n) { stel w = 10 + (%s); w };\n[%s]" % (body, calls) if "stel t" not in body else "functie f(n) { %s; 5 };\n[%s]" % (body, calls))
                # an early `antwoord` taken while the CALLEE holds pending operands (left operand, list elements, arguments)
                out.append("functie k(a, b, c) { a + b + c };\nfunctie f(n) { [1, 2, %s, 4] };\nfunctie g(n) { k(100, %s, 3) };\n[%s, g(0), g(7)]" % (body, body, calls))
            # a loop body ending in such a chain, inside a function and at top level
            out.append("functie f(n) { stel i = 0; stel s = 0; zolang i < 3 { i += 1; s = s + i; als i < 2 { %s } anders { %s } }; [i, s] };\n[f(0), f(1), f(7)]" % (a, b))
    return out


def failure_then_declaration_sessions():
    """retained sessions in which a line is REJECTED BY THE COMPILER at a chosen depth (top level, in a block, in a loop, in a
    function body, in a function body inside a loop, in nested functions) and later lines declare variables and functions,
    use block-local declarations under pending operands, call, and misuse `antwoord`/`stop` at top level: whatever the failed
    compilation left behind in the retained compiler (an open function context, an open scope, a loop context, a stale
    constant) must not change how later lines are compiled — their bytecode must be checkable top-level code"""
    fails = ["zz", "stel p = zz", "{ stel t = 1; zz }", "zolang ja { zz }", "functie f(a) { zz }", "functie f(a) { stel l = 1; { stel m = 2; zz } }",
             "zolang ja { functie f() { stel q = 1; zz } }", "functie f() { functie g() { zz } }", "functie f(a, b) { als a { zz } }",
             "functie f() { stop }", "functie f() { zolang ja { functie g() { volgende } } }", "10 + 20 + zz", "stel y = 5; stop",
             "functie f(a) { a + 7 + zz }", "[1, 2, functie() { zz }]", "f(functie(x) { x + zz })"]
    afters = [["stel t = 5; t", "t + 1"], ["1 + als ja { stel t = 5; t }"], ["functie k(a) { stel l = a; l + 1 }; k(2)"], ["antwoord 1", "7"],
              ["stop", "8"], ["stel a = 100; a + 7 + 8 + 10"], ["stel z = 5; z", "stel w = 10 + 20; w"], ["{ stel b = 1; { stel c = 2; b + c } }"],
              ["stel n = 0; zolang n < 3 { n += 1; stel d = n * 2; }; n"], ["functie r(n) { als n < 1 { antwoord 0 }; n + r(n - 1) }; r(4)"]]
    out = []
    for i, f in enumerate(fails):
        for j, a in enumerate(afters):
            out.append(["stel g0 = 1", f] + a + ["g0"])
            if (i + j) % 4 == 0:
                out.append([f, fails[(i + 3) % len(fails)]] + a + afters[(j + 1) % len(afters)])
    return out


def declare_then_fail_sessions():
    """a line that DECLARES variables (and assigns existing ones) and then fails at run time — directly, inside a call, inside a
    loop, after output: "a line that fails has no influence on later lines beyond the assignments it completed before failing" —
    the completed declarations and assignments are there on the next lines with their values (and nothing else changed)"""
    fails = ["1 / 0", "[][0]", "ja + 1", "functie d(n) { als n < 1 { 1 / 0 }; d(n - 1) }; d(20)", "stel i = 0; zolang ja { i += 1; als i > 3 { 1 / 0 } }",
             "lengte(1, 2)", "print(\"voor\"); 1 % 0"]
    decls = ["stel p = 2", "stel p = 2; stel q = p + 1", "a = a + 40; stel p = a", "stel p = 5; p = p * 2; stel q = 1", "stel t = (t = 5) + 1 / 0" ]
    reads = [["p"], ["p", "q"], ["[a, p]"], ["p + 1", "a"], ["stel r = 9", "r", "p"]]
    out = []
    for i, f in enumerate(fails):
        for j, d in enumerate(decls):
            line = d if "1 / 0" in d else d + "; " + f
            rd = reads[(i + j) % len(reads)]
            out.append(["stel a = 1", line] + rd + ["a"])
            out.append(["stel a = 1", "stel z = 0", line, "z"] + rd)
    return out


def rebinding_programs():
    """the callee of a call is WHATEVER VALUE THE NAME HOLDS WHEN THE CALL RUNS (round 9): call sites compiled before a
    re-assignment of the name and executed after it (inside an earlier function, earlier in a loop body, inside the function
    that replaces itself), names re-bound to non-callable values of every kind, at top level, in blocks and inside functions;
    an early-bound / cached callee gives the old function"""
    out = []
    non = ["5", "ja", "1.5", '"tekst"', "[1]", "leeg()", "type(1)"]
    for v in non:
        out.append("functie leeg() { }; stel x = %s; x(1)" % v)
        out.append("functie leeg() { }; functie w() { stel y = %s; y() }; w()" % v)
        out.append("functie leeg() { }; functie f() { 1 }; functie g() { f() }; stel a = g(); f = %s; [a, g()]" % v)
        out.append("functie leeg() { }; functie f(p) { p(2) }; f(%s)" % v)
    for scope in ("%s", "{ %s };", "functie hoofd() { %s }; hoofd()", "als ja { %s }"):
        for body in [
            "functie f() { 1 }; functie g() { f() }; stel a = g(); f = functie() { 2 }; [a, g(), f()]",
            "functie f() { 1 }; stel i = 0; stel r = []; zolang i < 3 { r = [r, f()]; f = functie() { 2 + i }; i += 1 }; r",
            "functie f() { f = functie() { 2 }; 1 }; [f(), f(), f()]",
            "functie f(n) { als n > 0 { f = functie(m) { m * 10 }; antwoord f(n - 1) }; n }; [f(3), f(3)]",
            "functie f() { 1 }; stel h = f; f = functie() { 3 }; [h(), f()]",
            "functie f() { 1 }; functie g() { 2 }; stel t = f; f = g; g = t; [f(), g()]",
            "functie f() { 1 }; stel k = 0; stel r = 0; zolang k < 2 { k += 1; als k == 2 { r = f() }; f = functie() { 9 } }; r",
            "functie f() { 1 }; functie g() { f() }; stel f2 = f; { stel f = functie() { 7 }; print(g(), f()) }; [g(), f2()]",
            "stel f = functie() { 1 }; functie g() { f() }; f = functie() { 2 }; g()",
            "functie f(a) { a + 1 }; functie twee(q) { q(q(1)) }; stel x = twee(f); f = functie(a) { a * 5 }; [x, twee(f)]",
        ]:
            out.append(scope % body)
    return out


def stale_slot_programs():
    """a FRESH activation: every slot a call does not bind is null whatever was written at that stack height before (round 9):
    a fuller earlier call, a deeper expression or literal, a deeper recursion, another function's locals"""
    out = []
    for np_ in (2, 3, 4, 6):
        ps = ["p%d" % i for i in range(np_)]
        f = "functie f(%s) { [%s] };" % (", ".join(ps), ", ".join(ps))
        full = "f(%s)" % ", ".join(str(10 + i) for i in range(np_))
        for na in range(0, np_):
            part = "f(%s)" % ", ".join(str(70 + i) for i in range(na))
            out.append("%s %s; %s" % (f, full, part))
            out.append("%s [%s]; %s" % (f, ", ".join('"s%d"' % i for i in range(np_ + 3)), part))
            out.append("%s functie diep(n) { stel a = n; stel b = [n]; stel c = \"x\"; als n > 0 { diep(n - 1) }; a }; diep(4); %s" % (f, part))
            out.append("%s stel r = [%s, %s, %s]; r" % (f, full, part, part))
            out.append("%s functie g() { stel u = 1; stel v = 2.5; stel w = [3]; %s }; [%s, g(), g()]" % (f, part, full))
            out.append("%s 1 + (2 + (3 + (4 + (5 + lengte(%s)))));  [%s, 1 + (2 * (3 + lengte(%s))), %s]" % (f, full, part, full, part))
    out.append("functie f(n, a, b) { als n > 0 { antwoord f(n - 1, n, [n]) }; [a, b] }; [f(3, 1, 1), f(0), f(2), f(0)]")
    out.append("functie f(a, b) { stel l = b; als a { l = 5 }; l }; [f(ja, 9), f(nee), f(ja), f(nee, 1), f(nee)]")
    return out


def failed_scope_leak_sessions():
    """retained sessions (round 9): a line REJECTED BY THE COMPILER after it declared names in some scope (a top-level block, an
    `als`/`zolang` body, a function's parameters and locals, nested blocks, the top level itself), once or several times in a row
    (with parse failures and run-time failures in between), then lines that merely USE those names: a name only a rejected line
    declared is undeclared (reference error), a global that a rejected line shadowed or re-declared still has its value.
    Returns (session, expected) pairs; expected[i] is None where only the model decides."""
    fails = [("{ stel t = 1; zz }", ["t"]), ("als ja { stel t = 2; stop }", ["t"]), ("zolang ja { stel t = 3; stel u = 4; zz }", ["t", "u"]),
             ("functie f(t) { zz }", ["t", "f"]), ("functie f() { stel t = 1; { stel u = 2; zz } }", ["t", "u", "f"]),
             ("{ { stel t = 1; stel u = t; antwoord 1 } }", ["t", "u"]), ("stel t = zz", ["t"]), ("stel t = 1; zz", ["t"]),
             ("stel t = 1; { stel u = 2; zz }", ["t", "u"]), ("stel t = functie(u) { zz }", ["t", "u"]), ("[1, { stel t = 5; zz }]", ["t"]),
             ("als nee { 1 } anders { stel t = 1; volgende }", ["t"]), ("{ stel g0 = 9; zz }", []), ("als ja { stel g0 = 2; stop }", []),
             ("stel g0 = g0 + zz", []), ("functie g0() { zz }", []), ("{ stel g0 = 5; { stel g0 = 6; zz } }", []), ("stel g0 = 3; stel g1 = zz", ["g1"])]
    between = [[], ["stel +"], ["1 / 0"], ["{ stel w = zz }"], ["stel v = 1; v"], ["stel +", "{ { zz } }"]]
    out = []
    for i, (f, names) in enumerate(fails):
        for j in range(len(between)):
            b = between[(i + j) % len(between)] if j else []
            s = ["stel g0 = 11", f] + b
            exp = [None] * len(s)
            for n in names:
                s.append(n)
                exp.append("err Reference")
                s.append("functie lees_%s() { %s }; 0" % (n, n))
                exp.append("err Reference")
            s += ["g0", "g0 = g0 + 1; g0", "{ stel t = 70; t }", "g0"]
            exp += ["ok i:11", "ok i:12", "ok i:70", "ok i:12"]
            out.append((s, exp))
            if j >= 2:
                # the same rejected line twice in a row, and two different ones
                f2 = fails[(i + j) % len(fails)][0]
                s2 = ["stel g0 = 11", f, f2] + b + [f] + [n for n in names] + ["g0"]
                out.append((s2, [None] * (3 + len(b) + 1) + ["err Reference"] * len(names) + ["ok i:11"]))
    return out


def operand_height_programs():
    """how HIGH the operand stack gets is bounded only at calls (round 9): array literals and argument lists nested so that the
    operands pending at once number 65 535, 65 536, 131 071 .. 131 073 (twice the frame limit), 200 000, 270 000 — the values
    must simply be computed (a fixed-size or unchecked stack dies here)"""
    def lit(n):
        return ", ".join(["0"] * n)
    out = []
    for total, levels in [(65535, 1), (65536, 2), (131071, 3), (131072, 3), (131073, 3), (131090, 3), (200000, 4), (270000, 5)]:
        counts = []
        left = total
        for k in range(levels):
            c = min(65534, left - (levels - 1 - k))
            counts.append(c)
            left -= c
        inner = "[%s]" % lit(counts[-1])
        for c in reversed(counts[:-1]):
            inner = "[%s, %s]" % (lit(c), inner)
        out.append(("operand-height", "lengte(%s)" % inner))
        out.append(("operand-height", "type(%s) == \"lijst\"" % inner.replace("[", "[1.5, ", 1)))
    out.append(("operand-height", "functie f(a, b) { lengte(b) }; f(1, [%s, [%s, f(2, [%s])]])" % (lit(65000), lit(65000), lit(3000))))
    return out


def deep_tower_programs():
    """values under DEEP nesting across collections (round 9): a heap value beneath a tower of D nested lists held by a global / a
    local / an argument while functions return (each return collects), for D around every power of two up to 8192 and around
    255/256/257, 511..515, 1023..1025: the value is still there afterwards and everything is released at the end"""
    out = []
    ds = [1, 2, 3, 15, 16, 17, 63, 64, 65, 127, 128, 129, 254, 255, 256, 257, 258, 300, 511, 512, 513, 514, 515, 516, 600, 1023, 1024, 1025, 1026, 1500,
          2047, 2048, 2049, 3000, 4096, 4100, 8192, 8200]
    for d in ds:
        out.append("stel t = [2.5]; stel i = 0; zolang i < %d { t = [t]; i += 1 };\nfunctie f() { [0.5] }; f(); stel x = 7.25; stel y = f(); stel z = 1.5 + 2.0;\n"
                   "stel i = 0; zolang i < %d { t = t[0]; i += 1 }; [t[0], x, z, y]" % (d, d))
        if d % 2 == 0 or d > 500:
            out.append("functie toren(n) { stel t = [\"diep\", [3.5]]; stel i = 0; zolang i < n { t = [t, i]; i += 1 }; t };\nfunctie niets() { 0 };\n"
                       "functie af(t, n) { stel i = 0; zolang i < n { t = t[0]; i += 1 }; niets(); t };\nstel a = toren(%d); niets(); stel g = [1.25]; niets(); [af(a, %d), g, af(toren(%d), %d)]" % (d, d, d, d))
    return out


def offset_sweep_programs(top, full=False):
    """WHERE THE CODE LIES must not matter (round 9, C11): control-flow programs after n bytes of padding for EVERY n up to `top`, both
    parities, so that every loop head, loop exit, branch target and join point lands on every byte offset — a placeholder value,
    sentinel or table keyed on an absolute offset (1337, 0xFFFF, 256, ...) changes the control flow of exactly one of these"""
    bodies = [
        # loop with volgende and stop, an if/else inside, an inner loop that stops, a trailing if/else chain: many jump kinds at once
        ("stel i = 0; stel s = 0; zolang i < 6 { i += 1; als i == 2 { volgende }; als i == 5 { stop } anders { s = s + i }; "
         "stel j = 0; zolang ja { j += 1; als j > 2 { stop } }; s = s + j }; als s > 100 { 0 } anders als s > 5 { [i, s] } anders { 1 }", "ok a:[i:5 i:17]"),
        ("stel n = 0; stel k = 0; zolang k < 10 { k += 1; n = n + k }; n", "ok i:55"),
        ("functie f(a) { stel i = 0; zolang i < 4 { i += 1; als i == a { antwoord i * 10 } }; 0 - 1 }; [f(2), f(9)]", "ok a:[i:20 i:-1]"),
    ]
    out = []
    for n in range(top):
        for parity in ("", "-1;"):
            pad = parity + "ja;" * n
            ks = range(len(bodies)) if full else [(n + (1 if parity else 0)) % len(bodies)] + ([0] if n % 2 == 0 else [])
            for k in set(ks):
                out.append((pad + bodies[k][0], bodies[k][1]))
    return out


def inplace_then_builtin_programs():
    """builtins on a text that was MODIFIED IN PLACE (round 9, C14): a character replaced by text of the same BYTE size but another
    number of characters (é→ee, €→abc/éa, 😀→abcd/éé/€a) or of another size; then lengte/string/bool/type/int/float/print of it —
    a count, hash or rendering remembered from before the change is stale"""
    subs = [("é", ["ee", "e", "", "éé", "€"]), ("€", ["abc", "éa", "aé", "é", "", "😀", "a"]), ("😀", ["abcd", "éé", "€a", "a€", "é", "", "€€"]), ("a", ["é", "", "bc", "😀"])]
    out = []
    for c, rs in subs:
        for r in rs:
            for s0, ix in [("caf" + c, 3), (c + "5", 0), ("x" + c + "y" + c, -1), (c, 0), ("12" + c, 2)]:
                out.append('stel s = "%s"; stel n0 = lengte(s); s[%d] = "%s"; [lengte(s), n0, string(s), bool(s), type(s), s == "%s", lengte(string(s))]'
                           % (s0, ix, r, s0))
                out.append('stel s = "%s"; lengte(s); s[%d] = "%s"; lengte(s); s[0] = "%s"; print("{}|{}", s, lengte(s)); [s, lengte(s)]' % (s0, ix, r, r))
    out.append('stel s = "1é"; lengte(s); s[1] = "23"; [int(s), float(s), lengte(s)]')
    out.append('stel s = "€"; lengte(s); s[0] = "1.5"; [float(s), lengte(s), s]')
    return out


def shrinking_text_programs():
    """texts that get SHORTER or LONGER in place and are then read at every index (round 10): a character replaced by the empty
    text, by several characters, repeatedly; then s[i] for every i around the old and the new length, lengte, a further write at the
    old last index — a remembered length, cursor or offset is stale"""
    out = []
    for s0 in ["abc", "a", "héé", "a😀b", "xy"]:
        n = len(s0)
        for ix in range(-n, n):
            for r in ["", "pq", "é", "€€€"]:
                reads = ", ".join("s[%d]" % j for j in range(0, max(0, n - 1 + len(r))))
                out.append('stel s = "%s"; s[%d] = "%s"; [lengte(s), s, %s]' % (s0, ix, r, reads or "0"))
                for j in (-1, n - 1, n - 2 + len(r), n - 1 + len(r), 0, -(n - 1 + len(r)) - 1):
                    out.append('stel s = "%s"; s[%d] = "%s"; s[%d]' % (s0, ix, r, j))
                    out.append('stel s = "%s"; s[%d] = "%s"; s[%d] = "Z"; s' % (s0, ix, r, j))
        out.append('stel s = "%s"; stel i = 0; zolang lengte(s) > 0 { s[0] = ""; i += 1 }; [i, s, lengte(s)]' % s0)
        out.append('stel s = "%s"; stel t = s; s[1 - 1] = ""; [t, lengte(t), s == t]' % s0)
    # read, then write in front of the read position, then read again (a cursor remembered by the read)
    for s0, k, i, r in [("aébcd", 3, 1, "xy"), ("aébcd", 4, 1, "xy"), ("a€bcd", 2, 1, "xyz"), ("a€bcd", 3, 1, "éx"), ("😀bcde", 2, 0, "éé"), ("abcdef", 4, 2, "")]:
        out.append('stel s = "%s"; stel v = s[%d]; s[%d] = "%s"; [v, s[%d], s[%d], s]' % (s0, k, i, r, k, k - 1))
        out.append('stel s = "%s"; stel t = s; stel j = 0; stel acc = ""; zolang j < lengte(s) { acc = acc + s[j]; als j == %d { t[%d] = "%s" }; j += 1 }; [acc, s]' % (s0, k, i, r))
    return out


def named_literal_clash_programs():
    """a NAMED function literal in every expression position whose name clashes with a name already in scope (round 10): the target
    of the assignment it stands in, an outer variable, a global seen from inside a function or block, a parameter, the function it
    stands in — the literal declares its name in the scope where it STANDS, at the moment it is evaluated, and nowhere else"""
    out = []
    for scope in ("%s", "{ %s };", "functie hoofd() { %s }; hoofd()", "als ja { %s }"):
        for body in [
            "stel a = 1; a = functie a() { 7 }; a()",
            "stel a = 1; { a = functie a() { 7 }; }; a()",
            "stel a = 1; { a = functie a() { 7 }; a() }",
            "stel a = 1; stel b = functie a() { 7 }; [b(), a()]",
            "stel a = 1; stel r = [functie a() { 7 }, 2]; stel h = r[0]; [h(), a()]",
            "stel a = 1; functie t(f) { f() }; [t(functie a() { 7 }), a()]",
            "stel a = 1; stel w = 0; zolang w < 2 { w += 1; a = functie a() { 7 + w } }; a()",
            "stel a = 1; functie zet() { a = functie a() { 42 }; 0 }; zet(); a()",
            "stel a = 1; functie zet(a) { a = functie a() { 42 }; a() }; [zet(5), a]",
            "stel a = 5; functie g() { functie a() { 9 }; a() }; [g(), a, g()]",
            "stel a = 5; functie g() { functie a() { 9 }; 0 }; g(); a + 1",
            "stel a = 5; functie g(n) { als n > 0 { functie a() { n }; antwoord g(n - 1) + a() }; 0 }; [g(3), a]",
            "stel a = 5; stel v = a + functie a() { 1 }() + a",
        ]:
            out.append(scope % body)
    out.append("a = functie a() { 1 }")
    out.append("{ a = functie a() { 1 } }")
    out.append("functie f() { b = functie b() { 1 }; 0 }; f()")
    return out


def long_prefix_text_pairs(rng, n):
    """pairs of texts that share a LONG common prefix (0..20 bytes) with characters of every width straddling every byte offset
    (round 10, C06): ordering and equality must be decided by the first differing character wherever it lies; returns source
    programs comparing them with all six operators, literal and variable operands"""
    chars = ["a", "b", "z", "0", "é", "ë", "ß", "€", "日", "😀", "\U00010000"]
    out = []
    for _ in range(n):
        pre = "".join(rng.pick(chars) for _ in range(rng.below(9)))
        x = pre + "".join(rng.pick(chars) for _ in range(rng.below(3)))
        y = pre + "".join(rng.pick(chars) for _ in range(rng.below(3)))
        ops = ["<", "<=", ">", ">=", "==", "!="]
        out.append("[%s]" % ", ".join('"%s" %s "%s"' % (x, op, y) for op in ops))
        out.append('stel p = "%s"; stel q = "%s"; functie c(u, v) { [u < v, u >= v, u == v] }; [c(p, q), c(q, p), p > q]' % (x, y))
    for k in range(0, 13):
        for c in ["é", "€", "😀"]:
            pre = "1234567890123"[:k] + c
            for a, b in [("1", "2"), ("", "x"), ("é", "e"), ("z", "é")]:
                out.append('["%s" < "%s", "%s" > "%s", "%s" == "%s", "%s" <= "%s"]' % (pre + a, pre + b, pre + a, pre + b, pre + a, pre + b, pre + b, pre + a))
    return out


def fresh_result_programs():
    """every value a builtin, an index read, a concatenation or a literal PRODUCES is a fresh value of that evaluation (round 10):
    changing it in place must not change what producing it again gives, in the same run - across function returns (collections),
    in loops, for every type name and every short text (an interned / cached / shared result object)"""
    prods = ['type(1)', 'type(2.5)', 'type("s")', 'type(ja)', 'type([1])', 'type(type)', 'string(12)', 'string(1.5)', 'string(ja)', 'string("kat")', 'string([1, 2])',
             '"hallo"[0]', '"hallo"[-1]', '"é€"[1]', '"a" + "b"', '"lit"', '"" + "x"']
    out = []
    for p in prods:
        out.append('stel t = %s; t[0] = "?"; [%s, t, %s == t]' % (p, p, p))
        out.append('functie niets() { 0 }; stel t = %s; t[0] = "??"; niets(); stel u = %s; niets(); [u, t, lengte(u), lengte(t)]' % (p, p))
        out.append('stel r = []; stel i = 0; zolang i < 3 { stel t = %s; r = [r, t + ""]; t[0] = string(i); i += 1 }; [r, %s]' % (p, p))
        out.append('functie maak() { %s }; stel a = maak(); stel b = maak(); a[0] = "#"; [a, b, maak()]' % p)
        out.append('stel a = %s; stel b = %s; a[0] = "#"; [a, b]' % (p, p))
        out.append('stel a = %s; stel b = %s; stel c = %s; b[0] = "##"; [a, b, c, a == c]' % (p, p, p))
    # two READS that yield the same character (from one text, from two texts, in a loop) are two values
    for s0, i, j in [("hallo", 2, 3), ("aaa", 0, 2), ("banaan", 1, 3), ("xé€x", 0, 3), ("éé", 0, 1)]:
        out.append('stel s = "%s"; stel x = s[%d]; stel y = s[%d]; x[0] = "L"; [x, y, s]' % (s0, i, j))
        out.append('stel s = "%s"; stel t = "%s"; stel x = s[%d]; stel y = t[%d]; y[0] = "QQ"; [x, y, lengte(x)]' % (s0, s0, i, i))
        out.append('stel s = "%s"; stel r = []; stel k = 0; zolang k < lengte(s) { r = [r, s[k]]; k += 1 }; stel e = r[1]; e[0] = "#"; [r, s[%d]]' % (s0, i))
    return out


def float_spelling_programs():
    """float literals keep their exact spelling (round 10): any number of digits after (and before) the point - up to and beyond
    the 22 decimals where a power of ten stops being exact, the 308/324 decimals where values become subnormal / zero - with short
    and long mantissas; each is read as the correctly rounded double (the model reads exactly), as literal and through float()"""
    out = []
    tails = ["1", "5", "25", "9", "123456789", "9007199254740993", "4999999999999999", "17976931348623157"]
    for k in list(range(0, 40)) + list(range(40, 340, 7)) + [300, 305, 306, 307, 308, 309, 320, 322, 323, 324, 325, 330, 400]:
        for t in (tails if k < 40 or k % 3 == 0 else tails[:3]):
            lit = "0." + "0" * k + t
            out.append("[%s, float(\"%s\") == %s, %s == %s]" % (lit, lit, lit, lit, lit))
    for k in list(range(0, 30)) + [100, 200, 290, 300, 305, 306, 307, 308]:
        for t in ("1", "9", "17976931348623157", "123456789"):
            lit = t + "0" * k + ".0"
            out.append("[%s, float(\"%s\") == %s]" % (lit, lit, lit))
            lit2 = t + "0" * k + "." + "0" * (k % 5) + "5"
            out.append("[%s, %s > %s]" % (lit2, lit2, t + "0" * k + ".0"))
    out.append("[0.00000000000000000000001 == 0.000000000000000000000010000000000000001, 0.00000000000000000000001 < 0.000000000000000000000010000000000000001]")
    return out


def alias_multiplicity_programs():
    """HOW MANY references lead to a heap value must not matter to a collection (round 10): k aliases of one float / text (globals,
    the pending value of an assignment statement, list elements, the same value handed down r recursion frames) next to g pieces of
    garbage and u literals that only the constant table holds, for every small k, g, u, r - then a function returns (collects) and
    everything is used again: a collector that COUNTS visits instead of objects stops early for exactly one of these"""
    out = []
    for k in range(1, 6):
        for g in range(0, 4):
            for kind, mk in (("float", "1.5 + 1.0"), ("text", 'string(12) + "x"')):
                al = " ".join("stel a%d = a0;" % i for i in range(1, k))
                gar = " ".join("[%d.5, \"g%d\"];" % (i, i) for i in range(g))
                lits = ' '.join('stel u%d = "lit%d";' % (i, i) for i in range(2))
                out.append('functie f() { 0 }; stel a0 = %s; %s %s f(); %s f(); [a0, a%d, "na", 2.25, "na" + "", u0, u1]' % (mk, al, gar, lits, k - 1))
                out.append('functie f() { "uit f" }; stel a0 = %s; %s a0 = a0; %s f(); [f(), a0, "lit", 0.5 + 0.25]' % (mk, al, gar))
                out.append('functie f() { 0 }; stel a0 = %s; stel l = [%s]; %s f(); "los"; f(); [l, "los", 3.5]' % (mk, ", ".join(["a0"] * k), gar))
    for r in range(1, 9):
        out.append('functie macht(x, n) { als n < 1 { antwoord 1.0 }; x * macht(x, n - 1) }; [macht(2.0, %d), "na", 0.125, macht(1.5, %d)]' % (r, r))
        out.append('functie diep(s, n) { als n < 1 { antwoord lengte(s) }; diep(s, n - 1) + 0 }; stel t = "tekst" + ""; [diep(t, %d), "lit", t, 4.5]' % r)
        out.append('functie geef(x, n) { als n < 1 { antwoord "klaar" }; geef(x, n - 1) }; geef(2.5 + 0.0, %d)' % r)
    return out


HASH_COLLIDING_NAMES = {"fnv1a": [["zhphds", "zwlpipq"], ["wuqn", "cfzdoa"], ["wzaikb", "momvjy"], ["liquid", "costarring"], ["altarage", "zinke"]],
    "fnv1": [["zmcuddi", "wfqbtrh"], ["suej", "kqmopa"], ["xmry", "jxmqjyi"]], "djb2": [["naoxcw", "hbtem"], ["mhlgo", "nfupey"], ["nnxkav", "ukgcl"]],
    "djb2x": [["oqaaefs", "atyajah"], ["zzvmqom", "kamo"], ["spdwbvw", "zhkj"]], "sdbm": [["pamddoq", "oowu"], ["yoctbvs", "hlopouc"], ["witlrw", "gsjcmgn"]],
    "java": [["sidswj", "twxrumm"], ["ygdvqpz", "gssqbs"], ["zsnlmyp", "tnre"], ["Aa", "BB"], ["AaAa", "BBBB"]], "crc32": [["efed", "nsrxctc"], ["ykwq", "bothohp"], ["qrvyzyw", "qndy"]],
    "adler32": [["mbpub", "ybacw"], ["sdog", "nmlf"], ["sdog", "mmod"]], "fnv1a64lo": [["fvvjuq", "mvcrtp"], ["dhariy", "dwuyube"], ["tsoi", "npruv"]],
    "fnv1a64fold": [["smncpcf", "axciecf"], ["uvxfe", "qfjahpi"], ["ruhidcs", "nshef"]],
    "prefix/length": [["teller_een", "teller_twee"], ["abcdefgh1", "abcdefgh2"], ["x" * 40 + "a", "x" * 40 + "b"], ["naam", "Naam"], ["a_b", "ab_"], ["e\u0301", "\u00e9"]]}


def colliding_name_programs():
    """identifiers are told apart by their FULL SPELLING (round 11): pairs of names that collide under the usual 32-bit string hashes
    (FNV-1/1a, djb2, sdbm, Java, CRC-32, Adler-32, folded 64-bit FNV), that share long prefixes, differ in case or only in the last
    character, or are canonically equivalent Unicode spellings - a symbol table keyed by a hash, a prefix or a normalised form merges them"""
    out = []
    for kind, pairs in HASH_COLLIDING_NAMES.items():
        for a, b in pairs:
            for x, y in ((a, b), (b, a)):
                out.append("stel %s = 1; %s" % (x, y))
                out.append("stel %s = 1; stel %s = 2; [%s, %s]" % (x, y, x, y))
                out.append("stel %s = 1; { stel %s = 2; %s = 3 }; %s" % (x, y, y, x))
                out.append("stel %s = 1; functie(%s) { %s }(2)" % (x, y, x))
                out.append("functie %s() { 1 }; functie %s() { 2 }; [%s(), %s()]" % (x, y, x, y))
                out.append("stel %s = 1; functie f() { %s }; f()" % (x, y))
    return out


def backslash_wide_programs():
    """a backslash directly before a character of ANY width inside a text literal (round 11): an unknown escape is kept as written,
    whatever the next character is - 1 to 4 bytes, the boundary code points, combining marks; also at the end, doubled, after a
    known escape, and in comments"""
    wide = ["é", "ß", "Ü", "€", "日", "😀", "\u0080", "\u07ff", "\u0800", "\uffff", "\U00010000", "\U0010ffff", "\u0301", "q", "0", " "]
    out = []
    for c in wide:
        for tpl in ['"\\%s"', '"a\\%s"', '"\\%sb"', '"\\\\%s"', '"\\n\\%s"', '"\\%s\\%s"', '"C:\\%sbung\\map"', '"%s\\"x', '1 // \\%s\n+ 2']:
            lit = tpl.replace("%s", c)
            if lit.startswith('"') and lit.endswith('"'):
                out.append("stel s = %s; [lengte(s), s, s[0], s[-1]]" % lit)
            out.append(lit)
    return out


def float_alias_programs():
    """numbers are VALUES: a float reached through two names is not changed through the other one (round 11): a computed float (not a
    literal) aliased by a second variable, a list slot, a parameter, a global read inside a function - then `a = a OP y` / `a OP= y` in
    every operator, in loops, through calls; the alias keeps the old value"""
    out = []
    for op in ["+", "-", "*", "/"]:
        for upd in ("a = a %s 2.0" % op, "a %s= 2.0" % op, "a = a %s b" % op, "a = (a %s 1.5) %s 1.0" % (op, op)):
            out.append("stel a = 0.5 + 1.0; stel b = a; %s; [a, b, b == 1.5]" % upd)
            out.append("stel a = 0.5 + 1.0; stel l = [a, 7]; %s; [a, l, l[0] == 1.5]" % upd.replace(" b", " l[0]"))
            out.append("stel g = 0.25 * 6.0; functie f(a) { stel b = 1.0; %s; a }; [f(g), g, g == 1.5]" % upd)
            out.append("functie mk() { 0.5 + 1.0 }; stel a = mk(); stel b = a; stel i = 0; zolang i < 3 { i += 1; %s }; [a, b]" % upd)
    out.append("stel a = 1.0 / 3.0; stel b = a; stel t = a + (a = a + 1.0); [a, b, t]")
    out.append("stel s = 0.0 + 0.0; stel keep = []; stel i = 0; zolang i < 4 { i += 1; keep = [keep, s]; s += 0.5 }; [keep, s]")
    out.append("functie acc(x, n) { als n < 1 { antwoord x }; stel y = x; x = x + 1.0; [acc(x, n - 1), y] }; acc(0.5 + 0.5, 3)")
    return out
