/- C09: operators of the fragment yield scalars; the slot count of a function body is parameters + declarations. -/
import Nlmodel.Spec.NameEvalFn
import Nlmodel.Proofs.Lemmas.ResolveFn
namespace Nl
namespace NameEvalFn
open SimF

/-! ## LEMMA 1 -/

theorem binopCore_scalar (op : BinOp) (l r : View) (p : PRes) (h : binopCore op l r = .ok p) :
    (∃ b, p = .bool b) ∨ (∃ i, p = .int i) ∨ (∃ x, p = .float x) := by
  cases op <;> cases l <;> cases r <;>
    simp only [binopCore, View.ty, BinOp.isArith, BinOp.isOrder, intArith] at h <;>
    (repeat' split at h) <;>
    (first
      | (simp at h; done)
      | (injection h with h; subst h; first | exact .inl ⟨_, rfl⟩ | exact .inr (.inl ⟨_, rfl⟩) | exact .inr (.inr ⟨_, rfl⟩)))

theorem boxN_of_binop (op : BinOp) (l r : View) (p : PRes) (h : binopCore op l r = .ok p) :
    (∃ b, p = .bool b ∧ boxN p = some (.bool b)) ∨ (∃ i, p = .int i ∧ boxN p = some (.int i)) ∨
      (∃ x, p = .float x ∧ boxN p = some (.float x)) := by
  rcases binopCore_scalar op l r p h with ⟨b, rfl⟩ | ⟨i, rfl⟩ | ⟨x, rfl⟩
  · exact .inl ⟨b, rfl, rfl⟩
  · exact .inr (.inl ⟨i, rfl, rfl⟩)
  · exact .inr (.inr ⟨x, rfl, rfl⟩)

/-! ## LEMMA 2 -/

theorem msOf_define (st : RState) (n : Text) (h : st.ctxs ≠ []) :
    (st.define n).1.ctxs ≠ [] ∧ msOf (st.define n).1 = msOf st + 1 := by
  cases hc : st.ctxs with
  | nil => exact absurd hc h
  | cons c cs =>
    simp only [RState.define, hc, msOf, Ctx.define]
    cases c.scopes <;> simp

theorem msOf_enter (st : RState) (h : st.ctxs ≠ []) :
    st.enterScope.ctxs ≠ [] ∧ msOf st.enterScope = msOf st := by
  cases hc : st.ctxs with
  | nil => exact absurd hc h
  | cons c cs => simp [RState.enterScope, hc, msOf]

theorem msOf_leave (st : RState) (h : st.ctxs ≠ []) :
    st.leaveScope.ctxs ≠ [] ∧ msOf st.leaveScope = msOf st := by
  cases hc : st.ctxs with
  | nil => exact absurd hc h
  | cons c cs => simp [RState.leaveScope, hc, msOf]

theorem msOf_params : ∀ (ps : List Text) (st : RState), st.ctxs ≠ [] →
    (defineParams st ps).1.ctxs ≠ [] ∧ msOf (defineParams st ps).1 = msOf st + ps.length
  | [], st, h => ⟨h, rfl⟩
  | p :: ps, st, h => by
    obtain ⟨h1, h2⟩ := msOf_define st p h
    obtain ⟨h3, h4⟩ := msOf_params ps (st.define p).1 h1
    have hst : (defineParams st (p :: ps)).1 = (defineParams (st.define p).1 ps).1 := by
      simp only [defineParams]
    rw [hst]
    refine ⟨h3, ?_⟩
    rw [h4, h2, List.length_cons]; omega

/-- the context stack stays non-empty and `max_size` grows by `n` -/
def Grows (st st' : RState) (n : Nat) : Prop := st'.ctxs ≠ [] ∧ msOf st' = msOf st + n

theorem Grows.refl (st : RState) (h : st.ctxs ≠ []) : Grows st st 0 := ⟨h, rfl⟩

theorem Grows.trans {a b c : RState} {m n : Nat} (h1 : Grows a b m) (h2 : Grows b c n) : Grows a c (m + n) :=
  ⟨h2.1, by rw [h2.2, h1.2]; omega⟩

mutual
theorem cE (fn : Bool) : (e : Expr) → ∀ (ab : Bool) (st : RState) (e' : RExpr) (st' : RState),
    SrcE fn ab e → st.ctxs ≠ [] → resolveE e st = .ok (e', st') → Grows st st' (letsE e)
  | .int v, ab, st, e', st', _, hne, h => by
    simp only [resolveE] at h; injection h with h; injection h with h1 h2; subst h1; subst h2
    simp only [letsE]; exact Grows.refl _ hne
  | .bool b, ab, st, e', st', _, hne, h => by
    simp only [resolveE] at h; injection h with h; injection h with h1 h2; subst h1; subst h2
    simp only [letsE]; exact Grows.refl _ hne
  | .ident n, ab, st, e', st', _, hne, h => by
    simp only [resolveE] at h
    cases hr : st.resolve n with
    | none => simp [hr] at h
    | some r =>
      simp only [hr] at h
      injection h with h; injection h with h1 h2; subst h1; subst h2
      simp only [letsE]; exact Grows.refl _ hne
  | .pre op r, ab, st, e', st', hs, hne, h => by
    simp only [resolveE] at h
    cases hr : resolveE r st with
    | error er => simp [hr] at h
    | ok p =>
      obtain ⟨r1, st1⟩ := p
      simp only [hr] at h
      cases hs with
      | not _ _ hsr =>
        injection h with h; injection h with h1 h2; subst h1; subst h2
        simp only [letsE]; exact cE fn r ab st r1 st1 hsr hne hr
      | neg _ _ hsr =>
        injection h with h; injection h with h1 h2; subst h1; subst h2
        simp only [letsE]; exact cE fn r ab st r1 st1 hsr hne hr
      | negate _ _ hsr =>
        injection h with h; injection h with h1 h2; subst h1; subst h2
        simp only [letsE]; exact cE fn r ab st r1 st1 hsr hne hr
  | .assign l r, ab, st, e', st', hs, hne, h => by
    cases hs with
    | assign _ n _ hsr =>
      simp only [resolveE] at h
      cases hres : st.resolve n with
      | none => simp [hres] at h
      | some ref =>
        simp only [hres] at h
        cases hr : resolveE r st with
        | error er => simp [hr] at h
        | ok p =>
          obtain ⟨r1, st1⟩ := p
          simp only [hr] at h
          injection h with h; injection h with h1 h2; subst h1; subst h2
          have := cE fn r ab st r1 st1 hsr hne hr
          simp only [letsE, Nat.zero_add]; exact this
  | .infix l op r, ab, st, e', st', hs, hne, h => by
    cases hs with
    | bin _ _ _ _ bop hop hsl hsr =>
      simp only [resolveE] at h
      cases hl : resolveE l st with
      | error er => simp [hl] at h
      | ok p =>
        obtain ⟨l1, st1⟩ := p
        simp only [hl] at h
        have g1 := cE fn l ab st l1 st1 hsl hne hl
        cases hr : resolveE r st1 with
        | error er => simp [hr] at h
        | ok q =>
          obtain ⟨r1, st2⟩ := q
          simp only [hr, hop] at h
          injection h with h; injection h with h1 h2; subst h1; subst h2
          have g2 := cE fn r false st1 r1 st2 hsr g1.1 hr
          simp only [letsE]; exact g1.trans g2
  | .ifE c t e, ab, st, e', st', hs, hne, h => by
    cases hs with
    | ifE _ _ _ _ hsc hst hse =>
      simp only [resolveE] at h
      cases hc : resolveE c st with
      | error er => simp [hc] at h
      | ok p =>
        obtain ⟨c1, st1⟩ := p
        simp only [hc] at h
        have g1 := cE fn c ab st c1 st1 hsc hne hc
        cases ht : resolveB t st1 with
        | error er => simp [ht] at h
        | ok q =>
          obtain ⟨t1, st2⟩ := q
          simp only [ht] at h
          have g2 := cB fn t ab st1 t1 st2 hst g1.1 ht
          cases he : resolveO e st2 with
          | error er => simp [he] at h
          | ok w =>
            obtain ⟨e1, st3⟩ := w
            simp only [he] at h
            injection h with h; injection h with h1 h2; subst h1; subst h2
            have g3 := cO fn e ab st2 e1 st3 hse g2.1 he
            simp only [letsE]; exact (g1.trans g2).trans g3
  | .whileE c b, ab, st, e', st', hs, hne, h => by
    cases hs with
    | whileE _ _ _ hsc hsb =>
      simp only [resolveE] at h
      cases hc : resolveE c { st with loopDepth := st.loopDepth + 1 } with
      | error er => simp [hc] at h
      | ok p =>
        obtain ⟨c1, st1⟩ := p
        simp only [hc] at h
        have g1 := cE fn c false _ c1 st1 hsc (show ({ st with loopDepth := st.loopDepth + 1 } : RState).ctxs ≠ [] from hne) hc
        cases hb : resolveB b st1 with
        | error er => simp [hb] at h
        | ok q =>
          obtain ⟨b1, st2⟩ := q
          simp only [hb] at h
          injection h with h; injection h with h1 h2; subst h1; subst h2
          have g2 := cB fn b true st1 b1 st2 hsb g1.1 hb
          have g := g1.trans g2
          simp only [letsE]
          exact ⟨g.1, g.2⟩
  | .call f as, ab, st, e', st', hs, hne, h => by
    cases hs with
    | call _ _ _ hnb hsas hsf =>
      rw [resolveE_call f as st hnb] at h
      cases has : resolveEs as st with
      | error er => simp [has] at h
      | ok p =>
        obtain ⟨as1, st1⟩ := p
        simp only [has] at h
        have g1 := cEs fn as st as1 st1 hsas hne has
        cases hf : resolveE f st1 with
        | error er => simp [hf] at h
        | ok q =>
          obtain ⟨f1, st2⟩ := q
          simp only [hf] at h
          injection h with h; injection h with h1 h2; subst h1; subst h2
          have g2 := cE fn f false st1 f1 st2 hsf g1.1 hf
          simp only [letsE]; exact g1.trans g2
  | .float _, _, _, _, _, hs, _, _ => by cases hs
  | .str _, _, _, _, _, hs, _, _ => by cases hs
  | .func _ _ _, _, _, _, _, hs, _, _ => by cases hs
  | .arr _, _, _, _, _, hs, _, _ => by cases hs
  | .index _ _, _, _, _, _, hs, _, _ => by cases hs

theorem cEs (fn : Bool) : (es : Exprs) → ∀ (st : RState) (es' : RExprs) (st' : RState),
    SrcEs fn es → st.ctxs ≠ [] → resolveEs es st = .ok (es', st') → Grows st st' (letsEs es)
  | .nil, st, es', st', _, hne, h => by
    simp only [resolveEs] at h; injection h with h; injection h with h1 h2; subst h1; subst h2
    simp only [letsEs]; exact Grows.refl _ hne
  | .cons e es, st, es', st', hs, hne, h => by
    cases hs with
    | cons _ _ hse hses =>
      simp only [resolveEs] at h
      cases he : resolveE e st with
      | error er => simp [he] at h
      | ok p =>
        obtain ⟨e1, st1⟩ := p
        simp only [he] at h
        have g1 := cE fn e false st e1 st1 hse hne he
        cases hes : resolveEs es st1 with
        | error er => simp [hes] at h
        | ok q =>
          obtain ⟨es1, st2⟩ := q
          simp only [hes] at h
          injection h with h; injection h with h1 h2; subst h1; subst h2
          have g2 := cEs fn es st1 es1 st2 hses g1.1 hes
          simp only [letsEs]; exact g1.trans g2

theorem cO (fn : Bool) : (o : OptBlock) → ∀ (ab : Bool) (st : RState) (o' : ROptBlock) (st' : RState),
    SrcO fn ab o → st.ctxs ≠ [] → resolveO o st = .ok (o', st') → Grows st st' (letsO o)
  | .none, ab, st, o', st', _, hne, h => by
    simp only [resolveO] at h; injection h with h; injection h with h1 h2; subst h1; subst h2
    simp only [letsO]; exact Grows.refl _ hne
  | .some b, ab, st, o', st', hs, hne, h => by
    cases hs with
    | some _ _ hsb =>
      simp only [resolveO] at h
      cases hb : resolveB b st with
      | error er => simp [hb] at h
      | ok q =>
        obtain ⟨b1, st1⟩ := q
        simp only [hb] at h
        injection h with h; injection h with h1 h2; subst h1; subst h2
        simp only [letsO]; exact cB fn b ab st b1 st1 hsb hne hb

theorem cS (fn : Bool) : (s : Stmt) → ∀ (ab : Bool) (st : RState) (s' : RStmt) (st' : RState),
    SrcS fn ab s → st.ctxs ≠ [] → resolveS s st = .ok (s', st') → Grows st st' (letsS s)
  | .expr e, ab, st, s', st', hs, hne, h => by
    cases hs with
    | expr _ _ hse =>
      simp only [resolveS] at h
      cases hr : resolveE e st with
      | error er => simp [hr] at h
      | ok p =>
        obtain ⟨e1, st1⟩ := p
        simp only [hr] at h
        injection h with h; injection h with h1 h2; subst h1; subst h2
        simp only [letsS]; exact cE fn e ab st e1 st1 hse hne hr
  | .letS n e, ab, st, s', st', hs, hne, h => by
    cases hs with
    | letS _ _ _ hse =>
      simp only [resolveS] at h
      obtain ⟨hne1, hms1⟩ := msOf_define st n hne
      cases hr : resolveE e (st.define n).1 with
      | error er => simp [hr] at h
      | ok p =>
        obtain ⟨e1, st1⟩ := p
        simp only [hr] at h
        injection h with h; injection h with h1 h2; subst h1; subst h2
        have g := cE fn e ab _ e1 st1 hse hne1 hr
        simp only [letsS]
        exact (show Grows st (st.define n).1 1 from ⟨hne1, hms1⟩).trans g
  | .block b, ab, st, s', st', hs, hne, h => by
    cases hs with
    | block _ _ hsb =>
      simp only [resolveS] at h
      cases hb : resolveB b st with
      | error er => simp [hb] at h
      | ok q =>
        obtain ⟨b1, st1⟩ := q
        simp only [hb] at h
        injection h with h; injection h with h1 h2; subst h1; subst h2
        simp only [letsS]; exact cB fn b ab st b1 st1 hsb hne hb
  | .brk, ab, st, s', st', hs, hne, h => by
    simp only [resolveS] at h
    split at h
    · cases h
    · injection h with h; injection h with h1 h2; subst h1; subst h2
      simp only [letsS]; exact Grows.refl _ hne
  | .cont, ab, st, s', st', hs, hne, h => by
    simp only [resolveS] at h
    split at h
    · cases h
    · injection h with h; injection h with h1 h2; subst h1; subst h2
      simp only [letsS]; exact Grows.refl _ hne
  | .ret e, ab, st, s', st', hs, hne, h => by
    cases hs with
    | ret _ _ hfn hse =>
      simp only [resolveS] at h
      split at h
      · cases h
      · cases hr : resolveE e st with
        | error er => simp [hr] at h
        | ok p =>
          obtain ⟨e1, st1⟩ := p
          simp only [hr] at h
          injection h with h; injection h with h1 h2; subst h1; subst h2
          simp only [letsS]; exact cE fn e ab st e1 st1 hse hne hr

theorem cSs (fn : Bool) : (b : Block) → ∀ (ab : Bool) (st : RState) (b' : RBlock) (st' : RState),
    SrcB fn ab b → st.ctxs ≠ [] → resolveSs b st = .ok (b', st') → Grows st st' (letsB b)
  | .nil, ab, st, b', st', _, hne, h => by
    simp only [resolveSs] at h; injection h with h; injection h with h1 h2; subst h1; subst h2
    simp only [letsB]; exact Grows.refl _ hne
  | .cons s rest, ab, st, b', st', hs, hne, h => by
    cases hs with
    | cons _ _ _ hss hsrest =>
      simp only [resolveSs] at h
      cases hr : resolveS s st with
      | error er => simp [hr] at h
      | ok p =>
        obtain ⟨s1, st1⟩ := p
        simp only [hr] at h
        have g1 := cS fn s ab st s1 st1 hss hne hr
        cases hr2 : resolveSs rest st1 with
        | error er => simp [hr2] at h
        | ok q =>
          obtain ⟨b1, st2⟩ := q
          simp only [hr2] at h
          injection h with h; injection h with h1 h2; subst h1; subst h2
          have g2 := cSs fn rest ab st1 b1 st2 hsrest g1.1 hr2
          simp only [letsB]; exact g1.trans g2

theorem cB (fn : Bool) : (b : Block) → ∀ (ab : Bool) (st : RState) (b' : RBlock) (st' : RState),
    SrcB fn ab b → st.ctxs ≠ [] → resolveB b st = .ok (b', st') → Grows st st' (letsB b)
  | .nil, ab, st, b', st', _, hne, h => by
    simp only [resolveB] at h; injection h with h; injection h with h1 h2; subst h1; subst h2
    simp only [letsB]; exact Grows.refl _ hne
  | .cons s rest, ab, st, b', st', hs, hne, h => by
    cases hs with
    | cons _ _ _ hss hsrest =>
      simp only [resolveB] at h
      obtain ⟨hne0, hms0⟩ := msOf_enter st hne
      cases hr : resolveS s st.enterScope with
      | error er => simp [hr] at h
      | ok p =>
        obtain ⟨s1, st1⟩ := p
        simp only [hr] at h
        have g1 := cS fn s ab st.enterScope s1 st1 hss hne0 hr
        cases hr2 : resolveSs rest st1 with
        | error er => simp [hr2] at h
        | ok q =>
          obtain ⟨b1, st2⟩ := q
          simp only [hr2] at h
          injection h with h; injection h with h1 h2; subst h1; subst h2
          have g2 := cSs fn rest ab st1 b1 st2 hsrest g1.1 hr2
          obtain ⟨hne3, hms3⟩ := msOf_leave st2 g2.1
          have g := g1.trans g2
          simp only [letsB]
          exact ⟨hne3, by rw [hms3, g.2, hms0]⟩
end

/-- the resolver's `max_size` of a function literal at top level = parameters + declarations of the body (U3) -/
theorem msOf_body (st1 : RState) (sc1 : List (Text × Nat)) (F : Nat) (hinv : RInv false st1 [sc1] [] F) (ps : List Text) (body : Block)
    (hb : SrcB true false body) (b' : RBlock) (st4 : RState)
    (hr : resolveB body (defineParams (fnEnter st1) ps).1 = .ok (b', st4)) : msOf st4 = nlocals ps body := by
  have h0 : (fnEnter st1).ctxs ≠ [] := by simp [fnEnter]
  have hm0 : msOf (fnEnter st1) = 0 := by simp [fnEnter, msOf]
  obtain ⟨h1, hm1⟩ := msOf_params ps (fnEnter st1) h0
  have g := cB true body false _ b' st4 hb h1 hr
  rw [g.2, hm1, hm0, nlocals]; omega

#print axioms binopCore_scalar
#print axioms boxN_of_binop
#print axioms cB
#print axioms msOf_body

end NameEvalFn
end Nl
