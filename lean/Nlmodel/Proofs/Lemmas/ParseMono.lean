/- More fuel never changes a successful parse (all parser functions). -/
import Nlmodel.Model.Parser
namespace Nl
namespace PM

structure Mono (f : Nat) : Prop where
  pre : ∀ ts r, parsePrefix f ts = .ok r → parsePrefix (f + 1) ts = .ok r
  expr : ∀ p ts r, parseExpr f p ts = .ok r → parseExpr (f + 1) p ts = .ok r
  loop : ∀ p l ts r, parseLoop f p l ts = .ok r → parseLoop (f + 1) p l ts = .ok r
  elems : ∀ c ts r, parseElems f c ts = .ok r → parseElems (f + 1) c ts = .ok r
  stmt : ∀ ts r, parseStatement f ts = .ok r → parseStatement (f + 1) ts = .ok r
  block : ∀ ts r, parseBlock f ts = .ok r → parseBlock (f + 1) ts = .ok r
  stmts : ∀ b ts r, parseStmts f b ts = .ok r → parseStmts (f + 1) b ts = .ok r

theorem params_mono : ∀ f ts r, parseParams f ts = .ok r → parseParams (f + 1) ts = .ok r := by
  intro f
  induction f with
  | zero => intro ts r h; simp [parseParams] at h
  | succ f ih =>
    intro ts r h
    rw [parseParams] at h ⊢
    split at h
    · exact h
    · cases h1 : parseParams f (skipOpt .comma (adv ts)) with
      | error e => rw [h1] at h; cases h
      | ok q => obtain ⟨ps, ts'⟩ := q; rw [h1] at h; rw [ih _ _ h1]; exact h
    · cases h

/-- more fuel for `parseParams`, any amount -/
theorem params_mono_le (f g : Nat) (hfg : f ≤ g) (ts : List Token) (r : List Text × List Token) (h : parseParams f ts = .ok r) :
    parseParams g ts = .ok r := by
  induction hfg with
  | refl => exact h
  | step _ ih => exact params_mono _ _ _ ih

section step
variable {f : Nat} (ih : Mono f)
include ih

theorem expr_succ (p : Nat) (ts : List Token) (r : Expr × List Token) (h : parseExpr (f + 1) p ts = .ok r) : parseExpr (f + 2) p ts = .ok r := by
  rw [parseExpr] at h ⊢
  cases h1 : parsePrefix f ts with
  | error e => rw [h1] at h; cases h
  | ok q => obtain ⟨l, ts'⟩ := q; rw [h1] at h; rw [ih.pre _ _ h1]; exact ih.loop _ _ _ _ h

theorem elems_succ (c : Token) (ts : List Token) (r : Exprs × List Token) (h : parseElems (f + 1) c ts = .ok r) : parseElems (f + 2) c ts = .ok r := by
  rw [parseElems] at h ⊢
  split at h
  · rename_i hc; simp only [hc, ↓reduceIte]; exact h
  · rename_i hc
    simp only [hc, ↓reduceIte]
    cases h1 : parseExpr f 0 ts with
    | error e => rw [h1] at h; cases h
    | ok q =>
      obtain ⟨e, ts1⟩ := q
      rw [h1] at h; rw [ih.expr _ _ _ h1]
      simp only at h ⊢
      cases h2 : parseElems f c (skipOpt .comma ts1) with
      | error e => rw [h2] at h; cases h
      | ok q2 => obtain ⟨es, ts2⟩ := q2; rw [h2] at h; rw [ih.elems _ _ _ h2]; exact h

theorem block_succ (ts : List Token) (r : Block × List Token) (h : parseBlock (f + 1) ts = .ok r) : parseBlock (f + 2) ts = .ok r := by
  rw [parseBlock] at h ⊢
  cases h0 : skipTok .lbrace ts with
  | error e => rw [h0] at h; cases h
  | ok ts1 =>
    rw [h0] at h; simp only at h ⊢
    cases h1 : parseStmts f true ts1 with
    | error e => rw [h1] at h; cases h
    | ok q => obtain ⟨b, ts2⟩ := q; rw [h1] at h; rw [ih.stmts _ _ _ h1]; exact h

theorem stmts_succ (b : Bool) (ts : List Token) (r : Block × List Token) (h : parseStmts (f + 1) b ts = .ok r) : parseStmts (f + 2) b ts = .ok r := by
  rw [parseStmts] at h ⊢
  split at h
  · rename_i hc; simp only [hc, ↓reduceIte]; exact h
  · rename_i hc
    simp only [hc, ↓reduceIte]
    cases h1 : parseStatement f ts with
    | error e => rw [h1] at h; cases h
    | ok q =>
      obtain ⟨s, ts1⟩ := q
      rw [h1] at h; rw [ih.stmt _ _ h1]
      simp only at h ⊢
      cases h2 : parseStmts f b ts1 with
      | error e => rw [h2] at h; cases h
      | ok q2 => obtain ⟨bl, ts2⟩ := q2; rw [h2] at h; rw [ih.stmts _ _ _ h2]; exact h

theorem stmt_succ (ts : List Token) (r : Stmt × List Token) (h : parseStatement (f + 1) ts = .ok r) : parseStatement (f + 2) ts = .ok r := by
  rw [parseStatement] at h ⊢
  split at h
  · simp only at h ⊢
    split at h
    · cases h0 : skipTok .assign (adv (adv ts)) with
      | error e => rw [h0] at h; cases h
      | ok ts2 =>
        rw [h0] at h; simp only at h ⊢
        cases h1 : parseExpr f 0 ts2 with
        | error e => rw [h1] at h; cases h
        | ok q => obtain ⟨e, ts3⟩ := q; rw [h1] at h; rw [ih.expr _ _ _ h1]; exact h
    · cases h
  · cases h1 : parseBlock f ts with
    | error e => rw [h1] at h; cases h
    | ok q => obtain ⟨b, ts1⟩ := q; rw [h1] at h; rw [ih.block _ _ h1]; exact h
  · cases h1 : parseExpr f 0 (adv ts) with
    | error e => rw [h1] at h; cases h
    | ok q => obtain ⟨e, ts1⟩ := q; rw [h1] at h; rw [ih.expr _ _ _ h1]; exact h
  · exact h
  · exact h
  · cases h1 : parseExpr f 0 ts with
    | error e => rw [h1] at h; cases h
    | ok q => obtain ⟨e, ts1⟩ := q; rw [h1] at h; rw [ih.expr _ _ _ h1]; exact h
theorem loop_succ (p : Nat) (l : Expr) (ts : List Token) (r : Expr × List Token) (h : parseLoop (f + 1) p l ts = .ok r) :
    parseLoop (f + 2) p l ts = .ok r := by
  rw [parseLoop] at h ⊢
  simp only at h ⊢
  by_cases c1 : cur ts = .semi
  · simp only [c1, ↓reduceIte] at h ⊢; exact h
  · simp only [c1, ↓reduceIte] at h ⊢
    by_cases c2 : (!decide (p < (cur ts).prec)) = true
    · simp only [c2, ↓reduceIte] at h ⊢; exact h
    · simp only [c2, ↓reduceIte, Bool.false_eq_true] at h ⊢
      split at h
      · by_cases c3 : isFunc l = true
        · simp only [c3, ↓reduceIte] at h; cases h
        · simp only [c3, ↓reduceIte, Bool.false_eq_true] at h ⊢
          by_cases c4 : (decide (cur (adv ts) = Token.assign) && isIdent l) = true
          · simp only [c4, ↓reduceIte] at h ⊢
            cases h1 : parseExpr f 0 (adv (adv ts)) with
            | error e => rw [h1] at h; cases h
            | ok q => obtain ⟨x, ts2⟩ := q; rw [h1] at h; rw [ih.expr _ _ _ h1]; exact ih.loop _ _ _ _ h
          · simp only [c4, ↓reduceIte, Bool.false_eq_true] at h ⊢
            cases h1 : parseExpr f (cur ts).prec (adv ts) with
            | error e => rw [h1] at h; cases h
            | ok q => obtain ⟨x, ts2⟩ := q; rw [h1] at h; rw [ih.expr _ _ _ h1]; exact ih.loop _ _ _ _ h
      · split at h
        · by_cases c3 : (!assignable l) = true
          · simp only [c3, ↓reduceIte] at h; cases h
          · simp only [c3, ↓reduceIte, Bool.false_eq_true] at h ⊢
            cases h1 : parseExpr f 1 (adv ts) with
            | error e => rw [h1] at h; cases h
            | ok q => obtain ⟨x, ts2⟩ := q; rw [h1] at h; rw [ih.expr _ _ _ h1]; exact ih.loop _ _ _ _ h
        · by_cases c3 : (!callable l) = true
          · simp only [c3, ↓reduceIte] at h; cases h
          · simp only [c3, ↓reduceIte, Bool.false_eq_true] at h ⊢
            cases h1 : parseElems f .rparen (adv ts) with
            | error e => rw [h1] at h; cases h
            | ok q => obtain ⟨x, ts2⟩ := q; rw [h1] at h; rw [ih.elems _ _ _ h1]; exact ih.loop _ _ _ _ h
        · by_cases c3 : (!indexable l) = true
          · simp only [c3, ↓reduceIte] at h; cases h
          · simp only [c3, ↓reduceIte, Bool.false_eq_true] at h ⊢
            cases h1 : parseExpr f 0 (adv ts) with
            | error e => rw [h1] at h; cases h
            | ok q =>
              obtain ⟨x, ts1⟩ := q
              rw [h1] at h; rw [ih.expr _ _ _ h1]
              simp only at h ⊢
              cases h2 : skipTok .rbracket ts1 with
              | error e => rw [h2] at h; cases h
              | ok ts2 => rw [h2] at h; exact ih.loop _ _ _ _ h
        · exact h

theorem pre_succ (ts : List Token) (r : Expr × List Token) (h : parsePrefix (f + 1) ts = .ok r) : parsePrefix (f + 2) ts = .ok r := by
  rw [parsePrefix] at h ⊢
  split at h
  · exact h
  · exact h
  · exact h
  · exact h
  · exact h
  · -- ( e )
    cases h1 : parseExpr f 0 (adv ts) with
    | error e => rw [h1] at h; cases h
    | ok q => obtain ⟨x, ts1⟩ := q; rw [h1] at h; rw [ih.expr _ _ _ h1]; exact h
  · -- als
    cases h1 : parseExpr f 0 (adv ts) with
    | error e => rw [h1] at h; cases h
    | ok q =>
      obtain ⟨c, ts1⟩ := q
      rw [h1] at h; rw [ih.expr _ _ _ h1]
      simp only at h ⊢
      cases h2 : parseBlock f ts1 with
      | error e => rw [h2] at h; cases h
      | ok q2 =>
        obtain ⟨t, ts2⟩ := q2
        rw [h2] at h; rw [ih.block _ _ h2]
        simp only at h ⊢
        by_cases c1 : cur ts2 = .kwElse
        · simp only [c1, ↓reduceIte] at h ⊢
          by_cases c2 : cur (adv ts2) = .kwIf
          · simp only [c2, ↓reduceIte] at h ⊢
            cases h3 : parseStatement f (adv ts2) with
            | error e => rw [h3] at h; cases h
            | ok q3 => obtain ⟨st, ts4⟩ := q3; rw [h3] at h; rw [ih.stmt _ _ h3]; exact h
          · simp only [c2, ↓reduceIte] at h ⊢
            cases h3 : parseBlock f (adv ts2) with
            | error e => rw [h3] at h; cases h
            | ok q3 => obtain ⟨eb, ts4⟩ := q3; rw [h3] at h; rw [ih.block _ _ h3]; exact h
        · simp only [c1, ↓reduceIte] at h ⊢; exact h
  · cases h1 : parseExpr f (Token.prec .bang) (adv ts) with
    | error e => rw [h1] at h; cases h
    | ok q => obtain ⟨x, ts1⟩ := q; rw [h1] at h; rw [ih.expr _ _ _ h1]; exact h
  · cases h1 : parseExpr f (Token.prec .minus) (adv ts) with
    | error e => rw [h1] at h; cases h
    | ok q => obtain ⟨x, ts1⟩ := q; rw [h1] at h; rw [ih.expr _ _ _ h1]; exact h
  · exact h
  · -- functie
    simp only at h ⊢
    generalize hsk : skipTok Token.lparen _ = sk at h ⊢
    cases sk with
    | error e => cases h
    | ok ts3 =>
      simp only at h ⊢
      cases h1 : parseParams (ts3.length + 1) ts3 with
      | error e => rw [h1] at h; cases h
      | ok q =>
        obtain ⟨ps, ts4⟩ := q
        rw [h1] at h; simp only at h ⊢
        cases h2 : skipTok .rparen ts4 with
        | error e => rw [h2] at h; cases h
        | ok ts5 =>
          rw [h2] at h; simp only at h ⊢
          cases h3 : parseBlock f ts5 with
          | error e => rw [h3] at h; cases h
          | ok q3 => obtain ⟨b, ts6⟩ := q3; rw [h3] at h; rw [ih.block _ _ h3]; exact h
  · cases h1 : parseExpr f 0 (adv ts) with
    | error e => rw [h1] at h; cases h
    | ok q =>
      obtain ⟨c, ts1⟩ := q
      rw [h1] at h; rw [ih.expr _ _ _ h1]
      simp only at h ⊢
      cases h2 : parseBlock f ts1 with
      | error e => rw [h2] at h; cases h
      | ok q2 => obtain ⟨b, ts2⟩ := q2; rw [h2] at h; rw [ih.block _ _ h2]; exact h
  · cases h1 : parseElems f .rbracket (adv ts) with
    | error e => rw [h1] at h; cases h
    | ok q => obtain ⟨vs, ts1⟩ := q; rw [h1] at h; rw [ih.elems _ _ _ h1]; exact h
  · cases h
end step

theorem mono : ∀ f, Mono f := by
  intro f
  induction f with
  | zero =>
    exact ⟨fun _ _ h => by simp [parsePrefix] at h, fun _ _ _ h => by simp [parseExpr] at h, fun _ _ _ _ h => by simp [parseLoop] at h,
      fun _ _ _ h => by simp [parseElems] at h, fun _ _ h => by simp [parseStatement] at h, fun _ _ h => by simp [parseBlock] at h,
      fun _ _ _ h => by simp [parseStmts] at h⟩
  | succ f ih => exact ⟨pre_succ ih, expr_succ ih, loop_succ ih, elems_succ ih, stmt_succ ih, block_succ ih, stmts_succ ih⟩

end PM
end Nl
