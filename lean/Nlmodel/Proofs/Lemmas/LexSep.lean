/- C08: the tokenizer skips every separator the renderer may write. -/
import Nlmodel.Proofs.Lemmas.Lexer
import Nlmodel.Model.Printer
namespace Nl
namespace LR

def punctChars : List Char :=
  ['=', '!', '<', '>', '&', '|', '/', ';', ',', '.', '(', ')', '{', '}', '[', ']', '-', '+', '*', '^', '%', '"', '#']

/-- what the theorems assume about the Unicode classes (checked against the table dumped from the
    running Rust `std` by the C08 check) -/
structure CCWF (cc : CharClass) : Prop where
  alnum_of_alpha : ∀ c, cc.alpha c = true → cc.alnum c = true
  ascii_alpha : ∀ c : Char, c.isAlpha = true → cc.alpha c = true
  digit_alnum : ∀ c : Char, c.isDigit = true → cc.alnum c = true
  digit_not_alpha : ∀ c : Char, c.isDigit = true → cc.alpha c = false
  ws_not : ∀ c, isWs c = true → cc.alnum c = false
  punct_not : ∀ c ∈ punctChars, cc.alnum c = false

/-- one call of the tokenizer with enough fuel -/
def tok (cc : CharClass) (cs : Text) : Option (Token × Text) := nextToken cc (cs.length + 1) cs

def lexAll (cc : CharClass) (cs : Text) : List Token := lexF cc (cs.length + 1) cs

theorem lex_eq_lexAll (cc : CharClass) (cs : Text) : lex cc cs = lexAll cc cs := rfl

theorem lexAll_unfold (cc : CharClass) (cs : Text) :
    lexAll cc cs = match tok cc cs with
      | none => []
      | some (t, rest) => t :: lexAll cc rest := by
  unfold lexAll tok
  rw [lexF]
  cases h : nextToken cc (cs.length + 1) cs with
  | none => rfl
  | some p =>
    obtain ⟨t, rest⟩ := p
    have := nextToken_progress cc _ cs t rest h
    simp only
    rw [lexF_fuel cc cs.length (rest.length + 1) rest this (by omega)]

variable {cc : CharClass}

theorem not_alpha_of_not_alnum (h : CCWF cc) (c : Char) (hc : cc.alnum c = false) : cc.alpha c = false := by
  cases ha : cc.alpha c with
  | false => rfl
  | true => rw [h.alnum_of_alpha c ha] at hc; cases hc

theorem ws_facts (h : CCWF cc) (c : Char) (hw : isWs c = true) :
    identStart cc c = false ∧ isDigit c = false ∧ c ≠ '"' := by
  have h1 := h.ws_not c hw
  have h2 := not_alpha_of_not_alnum h c h1
  have hcases : c.val = 0x09 ∨ c.val = 0x0A ∨ c.val = 0x0B ∨ c.val = 0x0C ∨ c.val = 0x0D ∨ c.val = 0x20
      ∨ c.val = 0x85 ∨ c.val = 0x200E ∨ c.val = 0x200F ∨ c.val = 0x2028 ∨ c.val = 0x2029 := by
    simpa [isWs, or_assoc] using hw
  have hne : ∀ (d : Char), (d.val ≠ 0x09 ∧ d.val ≠ 0x0A ∧ d.val ≠ 0x0B ∧ d.val ≠ 0x0C ∧ d.val ≠ 0x0D ∧ d.val ≠ 0x20
      ∧ d.val ≠ 0x85 ∧ d.val ≠ 0x200E ∧ d.val ≠ 0x200F ∧ d.val ≠ 0x2028 ∧ d.val ≠ 0x2029) → c ≠ d := by
    intro d hd e; subst e
    rcases hcases with h | h | h | h | h | h | h | h | h | h | h <;> simp [h] at hd
  refine ⟨?_, ?_, hne '"' (by decide)⟩
  · simp only [identStart, h2, Bool.false_or, decide_eq_false_iff_not]
    exact hne '_' (by decide)
  · cases hd : isDigit c with
    | false => rfl
    | true => have := h.digit_alnum c hd; rw [h1] at this; cases this

/-- whitespace is skipped -/
theorem tok_ws (h : CCWF cc) (c : Char) (r : Text) (hw : isWs c = true) : tok cc (c :: r) = tok cc r := by
  obtain ⟨h1, h2, h3⟩ := ws_facts h c hw
  unfold tok
  simp only [List.length_cons]
  rw [nextToken]
  simp [h1, h2, h3, hw]

/-- a line comment is skipped up to its newline -/
theorem tok_comment (h : CCWF cc) (cs : Text) : tok cc ('/' :: '/' :: cs) = tok cc (skipLine ('/' :: cs)) := by
  have hsl : cc.alnum '/' = false := h.punct_not '/' (by decide)
  have hal := not_alpha_of_not_alnum h '/' hsl
  unfold tok
  simp only [List.length_cons]
  rw [nextToken]
  have h1 : identStart cc '/' = false := by simp [identStart, hal]
  have h2 : isDigit '/' = false := by decide
  have h3 : isWs '/' = false := by decide
  simp only [h1, h2, h3, Bool.false_eq_true, ↓reduceIte, List.head?_cons, Bool.and_self, decide_true, show ('/' : Char) ≠ '"' by decide]
  have := skipLine_len ('/' :: cs)
  simp only [List.length_cons] at this
  exact nextToken_fuel cc _ _ _ (by omega) (by omega)

/-- a separator: skipped by the tokenizer, and starting (if at all) with a whitespace character or with `/` -/
structure SepOK (cc : CharClass) (s : Text) : Prop where
  skip : ∀ r, tok cc (s ++ r) = tok cc r
  head : s = [] ∨ (∃ c r, s = c :: r ∧ isWs c = true) ∨ (∃ r, s = '/' :: r)

theorem sepOK_nil : SepOK cc [] := ⟨fun _ => rfl, .inl rfl⟩

theorem sepOK_ws (h : CCWF cc) (c : Char) (s : Text) (hw : isWs c = true) (hs : SepOK cc s) : SepOK cc (c :: s) :=
  ⟨fun r => by rw [List.cons_append, tok_ws h c _ hw]; exact hs.skip r, .inr (.inl ⟨c, s, rfl, hw⟩)⟩

theorem skipLine_body (body r : Text) (hb : '\n' ∉ body) : skipLine (body ++ '\n' :: r) = '\n' :: r := by
  induction body with
  | nil => simp [skipLine]
  | cons c b ih =>
    have hc : c ≠ '\n' := fun e => hb (by simp [e])
    have hb' : '\n' ∉ b := fun e => hb (by simp [e])
    simp only [List.cons_append, skipLine, hc, ne_eq, not_false_eq_true, ↓reduceIte]
    exact ih hb'

theorem sepOK_comment (h : CCWF cc) (body s : Text) (hb : '\n' ∉ body) (hs : SepOK cc s) : SepOK cc ('/' :: '/' :: body ++ '\n' :: s) := by
  refine ⟨fun r => ?_, .inr (.inr ⟨_, rfl⟩)⟩
  have e : ('/' :: '/' :: body ++ '\n' :: s) ++ r = '/' :: '/' :: (body ++ '\n' :: (s ++ r)) := by simp
  rw [e, tok_comment h]
  have : skipLine ('/' :: (body ++ '\n' :: (s ++ r))) = '\n' :: (s ++ r) := by
    have := skipLine_body ('/' :: body) (s ++ r) (fun hm => (List.mem_cons.mp hm).elim (fun e => absurd e (by decide)) hb)
    simpa using this
  rw [this, tok_ws h '\n' _ (by decide)]
  exact hs.skip r

theorem sepTable_ok (h : CCWF cc) : ∀ s ∈ sepTable, SepOK cc s := by
  have ws : ∀ (c : Char) (s : Text), isWs c = true → SepOK cc s → SepOK cc (c :: s) := fun c s => sepOK_ws h c s
  intro s hs
  simp only [sepTable, List.mem_cons, List.not_mem_nil, or_false] at hs
  rcases hs with rfl | rfl | rfl | rfl | rfl | rfl | rfl | rfl | rfl | rfl | rfl | rfl | rfl | rfl | rfl | rfl | rfl | rfl | rfl
  · exact sepOK_nil
  · exact ws _ _ (by decide) sepOK_nil
  · exact ws _ _ (by decide) sepOK_nil
  · exact ws _ _ (by decide) sepOK_nil
  · exact ws _ _ (by decide) (ws _ _ (by decide) sepOK_nil)
  · exact ws _ _ (by decide) (ws _ _ (by decide) sepOK_nil)
  · exact ws _ _ (by decide) sepOK_nil
  · exact ws _ _ (by decide) sepOK_nil
  · exact ws _ _ (by decide) sepOK_nil
  · exact ws _ _ (by decide) sepOK_nil
  · exact ws _ _ (by decide) sepOK_nil
  · exact ws _ _ (by decide) sepOK_nil
  · exact ws _ _ (by decide) sepOK_nil
  · exact sepOK_comment h [' ', 'c'] [] (by decide) sepOK_nil
  · exact sepOK_comment h [] [] (by decide) sepOK_nil
  · exact ws ' ' _ (by decide) (sepOK_comment h " x \"y\" z".toList [' '] (by decide) (ws _ _ (by decide) sepOK_nil))
  · exact ws _ _ (by decide) (ws _ _ (by decide) sepOK_nil)
  · exact sepOK_comment h " é".toList [] (by decide) sepOK_nil
  · exact sepOK_comment h " één → 😀 日本語".toList [] (by decide) sepOK_nil

theorem sepAt_ok (h : CCWF cc) (k : Nat) : SepOK cc (sepAt k) := by
  unfold sepAt
  have hlen : k % sepTable.length < sepTable.length := Nat.mod_lt _ (by decide)
  rw [List.getD_eq_getElem?_getD, List.getElem?_eq_getElem hlen]
  exact sepTable_ok h _ (List.getElem_mem hlen)

end LR
end Nl
