/-
  Model of `src/parser.rs` (after repairs F4–F7): the Pratt parser over the token list, with the same
  decision points and the same error *kinds* at each of them.  Every function takes fuel (depth of
  the call tree); `parse` supplies enough (theorem `parse_fuel_sufficient`, Proofs/C05).
-/
import Nlmodel.Model.Ast
import Nlmodel.Model.Float
namespace Nl

/-- error kinds of `object::Error`, plus the model-only `fuel` (never produced by `parse`/`eval`
    with the fuel they supply: theorem) -/
inductive Err where
  | syntax | reference | type | index | argument | fuel
  deriving DecidableEq, Repr, Inhabited

def Err.name : Err → String
  | .syntax => "Syntax" | .reference => "Reference" | .type => "Type" | .index => "Index"
  | .argument => "Argument" | .fuel => "FUEL"

/-- 61-bit integer range of `object.rs` -/
def MAX_INT : Int := 2 ^ 60 - 1
def MIN_INT : Int := -(2 ^ 60)
def inRange (i : Int) : Bool := MIN_INT ≤ i && i ≤ MAX_INT

/-- `Precedence` as numbers: Lowest 0, Assign 1, OrAnd 2, Equals 3, LessGreater 4, Sum 5,
    Product 6, Method 7, Call 8, Index 9 -/
def Token.prec : Token → Nat
  | .assign => 1
  | .or | .and => 2
  | .eq | .neq => 3
  | .lt | .gt | .lte | .gte => 4
  | .plus | .minus => 5
  | .slash | .star | .percent => 6
  | .dot => 7
  | .lparen => 8
  | .lbracket => 9
  | _ => 0

/-- `impl From<Token> for Operator`, restricted to the tokens the parser converts -/
def Token.binop : Token → Option Op
  | .plus => some .add | .minus => some .sub | .slash => some .div | .star => some .mul
  | .percent => some .mod | .and => some .and | .or => some .or
  | .gt => some .gt | .gte => some .gte | .lt => some .lt | .lte => some .lte
  | .eq => some .eq | .neq => some .neq
  | _ => none

def cur : List Token → Token
  | [] => .eof
  | t :: _ => t

def adv : List Token → List Token
  | [] => []
  | _ :: ts => ts

/-- `skip(t)` -/
def skipTok (t : Token) (ts : List Token) : Except Err (List Token) :=
  if cur ts = t then .ok (adv ts) else .error .syntax

/-- `skip_optional(t)` -/
def skipOpt (t : Token) (ts : List Token) : List Token :=
  if cur ts = t then adv ts else ts

/-- string literal decoding (one left-to-right pass, F7) -/
def unescape : Text → Text
  | [] => []
  | '\\' :: '"' :: r => '"' :: unescape r
  | '\\' :: '\\' :: r => '\\' :: unescape r
  | '\\' :: 'n' :: r => '\n' :: unescape r
  | '\\' :: 't' :: r => '\t' :: unescape r
  | c :: r => c :: unescape r

/-- integer literal (F4): decimal digits, at most MAX_INT -/
def parseIntLit (s : Text) : Except Err Expr :=
  let v : Int := F64.digitsToNat s
  if v ≤ MAX_INT then .ok (.int v) else .error .syntax

/-- float literal `d+ . d*` -/
def parseFloatLit (s : Text) : Expr :=
  match F64.parseDec s with
  | some b => .float b
  | none => .float 0     -- unreachable for tokens the lexer produces (`lex_float_parses`)

/-- parameter list: `while cur != ')' { ident; skip_optional(',') }` (F5: anything else is an error) -/
def parseParams : Nat → List Token → Except Err (List Text × List Token)
  | 0, _ => .error .fuel
  | f + 1, ts =>
    match cur ts with
    | .rparen => .ok ([], ts)
    | .ident n =>
      match parseParams f (skipOpt .comma (adv ts)) with
      | .ok (ps, ts') => .ok (n :: ps, ts')
      | .error e => .error e
    | _ => .error .syntax

def isFunc : Expr → Bool | .func .. => true | _ => false
def isIdent : Expr → Bool | .ident _ => true | _ => false
def callable : Expr → Bool | .ident _ => true | .func .. => true | _ => false
def indexable : Expr → Bool | .ident _ => true | .arr _ => true | .str _ => true | _ => false
def assignable : Expr → Bool | .ident _ => true | .index .. => true | _ => false

mutual
/-- `parse_expr(precedence)` -/
def parseExpr : Nat → Nat → List Token → Except Err (Expr × List Token)
  | 0, _, _ => .error .fuel
  | f + 1, p, ts =>
    match parsePrefix f ts with
    | .ok (l, ts') => parseLoop f p l ts'
    | .error e => .error e

/-- the `match self.current_token` at the head of `parse_expr` -/
def parsePrefix : Nat → List Token → Except Err (Expr × List Token)
  | 0, _ => .error .fuel
  | f + 1, ts =>
    match cur ts with
    | .int s =>
      match parseIntLit s with
      | .ok e => .ok (e, adv ts)
      | .error e => .error e
    | .float s => .ok (parseFloatLit s, adv ts)
    | .kwTrue => .ok (.bool true, adv ts)
    | .kwFalse => .ok (.bool false, adv ts)
    | .str s => .ok (.str (unescape s), adv ts)
    | .lparen =>
      match parseExpr f 0 (adv ts) with
      | .ok (e, ts') =>
        match skipTok .rparen ts' with
        | .ok ts'' => .ok (e, ts'')
        | .error e => .error e
      | .error e => .error e
    | .kwIf =>
      match parseExpr f 0 (adv ts) with
      | .ok (c, ts1) =>
        match parseBlock f ts1 with
        | .ok (t, ts2) =>
          if cur ts2 = .kwElse then
            let ts3 := adv ts2
            if cur ts3 = .kwIf then
              match parseStatement f ts3 with
              | .ok (s, ts4) => .ok (.ifE c t (.some (.cons s .nil)), ts4)
              | .error e => .error e
            else
              match parseBlock f ts3 with
              | .ok (e, ts4) => .ok (.ifE c t (.some e), ts4)
              | .error e => .error e
          else .ok (.ifE c t .none, ts2)
        | .error e => .error e
      | .error e => .error e
    | .bang =>
      match parseExpr f (Token.prec .bang) (adv ts) with
      | .ok (r, ts') => .ok (.pre .not r, ts')
      | .error e => .error e
    | .minus =>
      match parseExpr f (Token.prec .minus) (adv ts) with
      | .ok (r, ts') => .ok (.pre .sub r, ts')
      | .error e => .error e
    | .ident n => .ok (.ident n, adv ts)
    | .kwFunc =>
      let ts1 := adv ts
      let (name, ts2) := match cur ts1 with
        | .ident n => (n, adv ts1)
        | _ => ([], ts1)
      match skipTok .lparen ts2 with
      | .ok ts3 =>
        match parseParams (ts3.length + 1) ts3 with
        | .ok (ps, ts4) =>
          match skipTok .rparen ts4 with
          | .ok ts5 =>
            match parseBlock f ts5 with
            | .ok (b, ts6) => .ok (.func name ps b, ts6)
            | .error e => .error e
          | .error e => .error e
        | .error e => .error e
      | .error e => .error e
    | .kwWhile =>
      match parseExpr f 0 (adv ts) with
      | .ok (c, ts1) =>
        match parseBlock f ts1 with
        | .ok (b, ts2) => .ok (.whileE c b, ts2)
        | .error e => .error e
      | .error e => .error e
    | .lbracket =>
      match parseElems f .rbracket (adv ts) with
      | .ok (vs, ts1) =>
        match skipTok .rbracket ts1 with
        | .ok ts2 => .ok (.arr vs, ts2)
        | .error e => .error e
      | .error e => .error e
    | _ => .error .syntax

/-- the `while` loop of `parse_expr` -/
def parseLoop : Nat → Nat → Expr → List Token → Except Err (Expr × List Token)
  | 0, _, _, _ => .error .fuel
  | f + 1, p, l, ts =>
    let t := cur ts
    if t = .semi then .ok (l, ts)
    else if !(p < t.prec) then .ok (l, ts)
    else
      match t.binop with
      | some op =>
        -- parse_infix_expr
        if isFunc l then .error .type
        else
          let ts1 := adv ts
          if cur ts1 = .assign && isIdent l then
            -- parse_op_assign_expression
            match parseExpr f 0 (adv ts1) with
            | .ok (r, ts2) => parseLoop f p (.assign l (.infix l op r)) ts2
            | .error e => .error e
          else
            match parseExpr f t.prec ts1 with
            | .ok (r, ts2) => parseLoop f p (.infix l op r) ts2
            | .error e => .error e
      | none =>
        match t with
        | .assign =>
          if !assignable l then .error .type
          else
            match parseExpr f 1 (adv ts) with
            | .ok (r, ts2) => parseLoop f p (.assign l r) ts2
            | .error e => .error e
        | .lparen =>
          if !callable l then .error .type
          else
            match parseElems f .rparen (adv ts) with
            | .ok (as, ts1) => parseLoop f p (.call l as) (adv ts1)
            | .error e => .error e
        | .lbracket =>
          if !indexable l then .error .type
          else
            match parseExpr f 0 (adv ts) with
            | .ok (i, ts1) =>
              match skipTok .rbracket ts1 with
              | .ok ts2 => parseLoop f p (.index l i) ts2
              | .error e => .error e
            | .error e => .error e
        | _ => .ok (l, ts)

/-- `while cur != close { parse_expr(Lowest); skip_optional(',') }` (call arguments, array elements) -/
def parseElems : Nat → Token → List Token → Except Err (Exprs × List Token)
  | 0, _, _ => .error .fuel
  | f + 1, close, ts =>
    if cur ts = close then .ok (.nil, ts)
    else
      match parseExpr f 0 ts with
      | .ok (e, ts1) =>
        match parseElems f close (skipOpt .comma ts1) with
        | .ok (es, ts2) => .ok (.cons e es, ts2)
        | .error e => .error e
      | .error e => .error e

/-- `parse_statement` -/
def parseStatement : Nat → List Token → Except Err (Stmt × List Token)
  | 0, _ => .error .fuel
  | f + 1, ts =>
    match cur ts with
    | .kwDeclare =>
      let ts1 := adv ts
      match cur ts1 with
      | .ident n =>
        match skipTok .assign (adv ts1) with
        | .ok ts2 =>
          match parseExpr f 0 ts2 with
          | .ok (e, ts3) => .ok (.letS n e, skipOpt .semi ts3)
          | .error e => .error e
        | .error e => .error e
      | _ => .error .syntax
    | .lbrace =>
      match parseBlock f ts with
      | .ok (b, ts1) => .ok (.block b, skipOpt .semi ts1)
      | .error e => .error e
    | .kwReturn =>
      match parseExpr f 0 (adv ts) with
      | .ok (e, ts1) => .ok (.ret e, skipOpt .semi ts1)
      | .error e => .error e
    | .kwContinue => .ok (.cont, skipOpt .semi (adv ts))
    | .kwBreak => .ok (.brk, skipOpt .semi (adv ts))
    | _ =>
      match parseExpr f 0 ts with
      | .ok (e, ts1) => .ok (.expr e, skipOpt .semi ts1)
      | .error e => .error e

/-- `parse_block_statement` -/
def parseBlock : Nat → List Token → Except Err (Block × List Token)
  | 0, _ => .error .fuel
  | f + 1, ts =>
    match skipTok .lbrace ts with
    | .ok ts1 =>
      match parseStmts f true ts1 with
      | .ok (b, ts2) =>
        match skipTok .rbrace ts2 with
        | .ok ts3 => .ok (b, ts3)
        | .error e => .error e
      | .error e => .error e
    | .error e => .error e

/-- statement loop; `inBlock` = also stop at `}` -/
def parseStmts : Nat → Bool → List Token → Except Err (Block × List Token)
  | 0, _, _ => .error .fuel
  | f + 1, inBlock, ts =>
    if cur ts = .eof || (inBlock && cur ts = .rbrace) then .ok (.nil, ts)
    else
      match parseStatement f ts with
      | .ok (s, ts1) =>
        match parseStmts f inBlock ts1 with
        | .ok (b, ts2) => .ok (.cons s b, ts2)
        | .error e => .error e
      | .error e => .error e
end

/-- fuel supplied by `parse` -/
def parseFuel (ts : List Token) : Nat := 4 * ts.length + 16

/-- `parser::parse` on a token list -/
def parseTokens (ts : List Token) : Except Err Block :=
  match parseStmts (parseFuel ts) false ts with
  | .ok (b, _) => .ok b
  | .error e => .error e

def parse (cc : CharClass) (src : Text) : Except Err Block := parseTokens (lex cc src)

end Nl
