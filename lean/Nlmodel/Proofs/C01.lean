/-
  C01 — Running a program yields exactly what its source text denotes.
  Property statements only; helper lemmas live in Proofs/Lemmas.
-/
import Nlmodel.Model.Pipeline
namespace Nl
namespace C01

/-- More instruction budget never changes a finished run: if the machine model halts, fails or
    faults within `n` steps, it gives the same outcome with any larger budget.  (This is what makes
    "there is a budget for which the run ends in o" a well-defined outcome of a program.) -/
theorem C01_budget_mono (c : Code) (n k : Nat) (s : VM)
    (h : ∀ s', runSteps c n s ≠ .budget s') :
    runSteps c (n + k) s = runSteps c n s := by
  induction n generalizing s with
  | zero => exact absurd rfl (h s)
  | succ n ih =>
    have e : n + 1 + k = (n + k) + 1 := by omega
    rw [e]
    simp only [runSteps] at h ⊢
    cases hs : step c s with
    | next s' =>
      simp only [hs] at h ⊢
      exact ih s' h
    | halt v s' => rfl
    | error e s' => rfl
    | fault site => rfl

end C01
end Nl
