/- C07 extras, X1: compound assignment `a op= e` is `a = a op (e)`. -/
import Nlmodel.Proofs.Lemmas.C07ExtraParen
namespace Nl
namespace C07X
open RT RTF

/-- the tree of `a op= e` -/
def compoundTree (a : Text) (op : Op) (e : Expr) : Expr := .assign (.ident a) (.infix (.ident a) op e)

/-- tokens of `a op= e` (the tokenizer has no compound tokens: `+=` is `+` directly followed by `=`, and the parser
    accepts ANY of the 13 binary operators in this position, e.g. `a &&= e`, not only `+ - * / %`) -/
def compoundToks (a : Text) (op : Op) (e : Expr) : List Token := .ident a :: opToken op :: .assign :: printE e

/-- tokens of `a = a op (e)` -/
def explicitToks (a : Text) (op : Op) (e : Expr) : List Token :=
  .ident a :: .assign :: .ident a :: opToken op :: paren (printE e)

/-- (X1, explicit tree) `a op= e rest` parses, at every level below the operator's, to `assign a (infix a op e)` -/
theorem X1_compound_tree (a : Text) (op : Op) (hop : isBin op) (e : Expr) (he : WE e) (p : Nat) (hp : p < docLevel op)
    (rest : List Token) (hne : NoElse rest) (hs : Stops 0 rest) :
    ∃ f, parseExpr f p (compoundToks a op e ++ rest) = .ok (compoundTree a op e, rest) := by
  obtain ⟨f, h⟩ := top_ok e he rest hne hs
  refine ⟨f + 1 + 1 + 1, expr_of_prefix (ident_prefix (f + 1) a _) ?_⟩
  show parseLoop _ p _ (opToken op :: .assign :: (printE e ++ rest)) = _
  rw [loop_compound (f + 1) p a op hop _ hp, expr_le (Nat.le_succ f) h]
  exact parseLoop_stop f p _ rest (stops_mono hs (Nat.zero_le _))

/-- (X1, explicit tree of the long form) `a = a op (e) rest` parses to the same tree -/
theorem X1_explicit_tree (a : Text) (op : Op) (hop : isBin op) (e : Expr) (he : WE e)
    (rest : List Token) (hs : Stops 0 rest) :
    ∃ f, parseExpr f 0 (explicitToks a op e ++ rest) = .ok (compoundTree a op e, rest) := by
  obtain ⟨_, _, o3, _, _, _⟩ := op_facts op hop
  obtain ⟨f, h⟩ := (X3_parens_iff e he 0 (docLevel op) rest (e, rest)).2 ⟨1, loop_stop (stops_mono hs (Nat.zero_le _))⟩
  have hp1 : parens 1 (printE e) = paren (printE e) := rfl
  rw [hp1] at h
  -- `a op (e)` at level 1
  have hinner : parseExpr (f + 1 + 1 + 1) 1 (.ident a :: opToken op :: (paren (printE e) ++ rest)) =
      .ok (.infix (.ident a) op e, rest) := by
    refine expr_of_prefix (ident_prefix (f + 1) a _) ?_
    rw [loop_step (f + 1) 1 (.ident a) op hop _ (by omega) (by simp [isFunc]) (paren_head_ne_assign _ rest),
      expr_le (Nat.le_succ f) h]
    exact parseLoop_stop f 1 _ rest (stops_mono hs (Nat.zero_le _))
  refine ⟨f + 3 + 1 + 1, ?_⟩
  have hts : explicitToks a op e ++ rest = .ident a :: .assign :: (.ident a :: opToken op :: (paren (printE e) ++ rest)) := by
    simp [explicitToks]
  rw [hts]
  refine expr_of_prefix (ident_prefix (f + 3) a _) ?_
  rw [loop_assign (f + 3) 0 (.ident a) rfl rfl, hinner]
  exact parseLoop_stop (f + 2) 0 _ rest hs

/-- (X1, equality of the two parses) from some fuel on, `a op= e` and `a = a op (e)` give the same answer, which
    is the tree `assign a (infix a op e)` -/
theorem X1_compound_eq_explicit (a : Text) (op : Op) (hop : isBin op) (e : Expr) (he : WE e)
    (rest : List Token) (hne : NoElse rest) (hs : Stops 0 rest) :
    ∃ f0, ∀ f, f0 ≤ f →
      parseExpr f 0 (compoundToks a op e ++ rest) = parseExpr f 0 (explicitToks a op e ++ rest) ∧
      parseExpr f 0 (compoundToks a op e ++ rest) = .ok (compoundTree a op e, rest) := by
  obtain ⟨o1, o2, o3, _⟩ := op_facts op hop
  obtain ⟨f1, h1⟩ := X1_compound_tree a op hop e he 0 (by omega) rest hne hs
  obtain ⟨f2, h2⟩ := X1_explicit_tree a op hop e he rest hs
  refine ⟨max f1 f2, fun f hf => ?_⟩
  have e1 := expr_le (Nat.le_trans (Nat.le_max_left f1 f2) hf) h1
  have e2 := expr_le (Nat.le_trans (Nat.le_max_right f1 f2) hf) h2
  exact ⟨e1.trans e2.symm, e1⟩

/-! ### statements and programs -/

/-- an expression statement -/
theorem stmt_of_expr {f : Nat} {ts ts1 : List Token} {e : Expr} (hc : exprStart (cur ts) = true)
    (h : parseExpr f 0 ts = .ok (e, ts1)) : parseStatement (f + 1) ts = .ok (.expr e, skipOpt .semi ts1) := by
  rw [parseStatement]
  split
  · rename_i hx; rw [hx] at hc; simp [exprStart] at hc
  · rename_i hx; rw [hx] at hc; simp [exprStart] at hc
  · rename_i hx; rw [hx] at hc; simp [exprStart] at hc
  · rename_i hx; rw [hx] at hc; simp [exprStart] at hc
  · rename_i hx; rw [hx] at hc; simp [exprStart] at hc
  · rw [h]

/-- a statement spelled `X` in the middle of a printed program, with the fuel `parse` supplies -/
theorem program_with_stmt (b1 b2 : Block) (h1 : WB b1) (h2 : WB b2) (X : List Token) (s : Stmt)
    (hX : ∀ rest, cur (X ++ rest) ≠ .eof ∧ cur (X ++ rest) ≠ .rbrace ∧ ∃ f, parseStatement f (X ++ rest) = .ok (s, rest)) :
    parseTokens (printStmts b1 ++ (X ++ printStmts b2)) = .ok (b1.append (.cons s b2)) := by
  obtain ⟨f2, g2⟩ := gB b2 h2 false [] (.inl rfl)
  simp only [List.append_nil] at g2
  obtain ⟨c1, c2, f1, g1⟩ := hX (printStmts b2)
  obtain ⟨f, g⟩ := stmts_prefix b1 h1 false _ _ [] ⟨_, stmts_step c1 c2 g1 g2⟩
  exact parseTokens_of_stmts g

/-- (X1, program level, with the fuel `parse` supplies) the statement `a op= e;` anywhere between printed
    statements is the statement `a = a op (e);` -/
theorem X1_program (b1 b2 : Block) (h1 : WB b1) (h2 : WB b2) (a : Text) (op : Op) (hop : isBin op) (e : Expr) (he : WE e) :
    parseTokens (printStmts b1 ++ ((compoundToks a op e ++ [.semi]) ++ printStmts b2))
      = .ok (b1.append (.cons (.expr (compoundTree a op e)) b2)) ∧
    parseTokens (printStmts b1 ++ ((compoundToks a op e ++ [.semi]) ++ printStmts b2))
      = parseTokens (printStmts b1 ++ ((explicitToks a op e ++ [.semi]) ++ printStmts b2)) := by
  obtain ⟨o1, o2, o3, _⟩ := op_facts op hop
  have A := program_with_stmt b1 b2 h1 h2 (compoundToks a op e ++ [.semi]) (.expr (compoundTree a op e)) (by
    intro rest
    refine ⟨by simp [compoundToks, cur], by simp [compoundToks, cur], ?_⟩
    obtain ⟨f, h⟩ := X1_compound_tree a op hop e he 0 (by omega) (.semi :: rest) (by simp [NoElse, cur]) (.inl rfl)
    refine ⟨f + 1, ?_⟩
    have hts : (compoundToks a op e ++ [.semi]) ++ rest = compoundToks a op e ++ .semi :: rest := by simp
    rw [hts, stmt_of_expr (by simp [compoundToks, cur, exprStart]) h]
    simp [skipOpt, cur, adv])
  have B := program_with_stmt b1 b2 h1 h2 (explicitToks a op e ++ [.semi]) (.expr (compoundTree a op e)) (by
    intro rest
    refine ⟨by simp [explicitToks, cur], by simp [explicitToks, cur], ?_⟩
    obtain ⟨f, h⟩ := X1_explicit_tree a op hop e he (.semi :: rest) (.inl rfl)
    refine ⟨f + 1, ?_⟩
    have hts : (explicitToks a op e ++ [.semi]) ++ rest = explicitToks a op e ++ .semi :: rest := by simp
    rw [hts, stmt_of_expr (by simp [explicitToks, cur, exprStart]) h]
    simp [skipOpt, cur, adv])
  exact ⟨A, A.trans B.symm⟩

/-- text level: whatever is proved about `parseTokens ts` holds for `parse` of every spelling of `ts` -/
theorem parse_render (cc : CharClass) (hcc : LR.CCWF cc) (ts : List Token) (hw : ∀ t ∈ ts, LR.WFTok cc t) (ks : List Nat) :
    parse cc (render ts ks) = parseTokens ts := by
  unfold parse
  rw [C08.C08_lex_render cc hcc ts ks hw]

/-- an INDEXED target is not supported: `a[0] += 1;` is a syntax error (the `=` is then parsed as the start of the
    right operand of `+`), while `a[0] = a[0] + (1);` parses — kernel-checked -/
theorem X1_indexed_target_is_error :
    parseTokens [.ident ['a'], .lbracket, .int ['0'], .rbracket, .plus, .assign, .int ['1'], .semi] = .error .syntax ∧
    parseTokens [.ident ['a'], .lbracket, .int ['0'], .rbracket, .assign, .ident ['a'], .lbracket, .int ['0'], .rbracket,
        .plus, .lparen, .int ['1'], .rparen, .semi]
      = .ok (.cons (.expr (.assign (.index (.ident ['a']) (.int 0))
          (.infix (.index (.ident ['a']) (.int 0)) .add (.int 1)))) .nil) := by
  constructor <;> rfl

/-- non-vacuity: `a += b * 2;` -/
example : parseTokens [.ident ['a'], .plus, .assign, .ident ['b'], .star, .int ['2'], .semi]
    = .ok (.cons (.expr (compoundTree ['a'] .add (.infix (.ident ['b']) .mul (.int 2)))) .nil) := by rfl

end C07X
end Nl
