/- Stage 6, property R1 of the resolver: whatever the resolver produces for a source program of the syntactic class
   `S6Top` (functions + heap values) is a stage-6 program (`ZTop`), so the end-to-end theorems of stage 6 need no
   validation of the resolver's output for this class. Merge of ResolveFn*.lean (stage 4) and ResolveHeap.lean (stage 5). -/
import Nlmodel.Proofs.Lemmas.Sim6Check
import Nlmodel.Proofs.Lemmas.ResolveFn
namespace Nl
namespace Sim6
open Spec Sim
open SimH (LitF litFb litFb_sound)
open SimF (FT FnInfo paramScope paramScopeFrom FDef LEq RInv Scs lim gamOf lamOf msOf RefOK nonBuiltin fnEnter fnExit
  fusedCandidate_varL fusedCandidate_intL)

/-! ## helpers: the fragment only looks at the MEMBERS of the local scope; derived rules -/

mutual
theorem permE6 (nl : Nat) (fn : Bool) : (e : RExpr) → ∀ (Γ Λ Λ' : Gam) (ab : Bool), LEq Λ Λ' → ZE nl fn Γ Λ ab e → ZE nl fn Γ Λ' ab e
  | .int v, Γ, Λ, Λ', ab, _, _ => .int _ _ _ v
  | .bool b, Γ, Λ, Λ', ab, _, _ => .bool _ _ _ b
  | .float x, Γ, Λ, Λ', ab, _, h => by cases h with | float _ _ _ _ hx => exact .float _ _ _ x hx
  | .str s, Γ, Λ, Λ', ab, _, _ => .str _ _ _ s
  | .not e, Γ, Λ, Λ', ab, hl, h => by
    cases h with
    | not _ _ _ _ he => exact .not _ _ _ e (permE6 nl fn e Γ Λ Λ' ab hl he)
  | .neg e, Γ, Λ, Λ', ab, hl, h => by
    cases h with
    | neg _ _ _ _ he => exact .neg _ _ _ e (permE6 nl fn e Γ Λ Λ' ab hl he)
  | .infix l op r, Γ, Λ, Λ', ab, hl, h => by
    cases h with
    | bin _ _ _ _ _ _ hfc h1 h2 => exact .bin _ _ _ l op r hfc (permE6 nl fn l Γ Λ Λ' ab hl h1) (permE6 nl fn r Γ Λ Λ' false hl h2)
    | fusedL _ _ _ b k _ v hm hk hfc => exact .fusedL _ _ _ b k op v ((hl _).1 hm) hk hfc
    | fusedR _ _ _ b k _ op' v hm hk hmo => exact .fusedR _ _ _ b k op op' v ((hl _).1 hm) hk hmo
  | .var r, Γ, Λ, Λ', ab, hl, h => by
    cases h with
    | varG _ _ _ b k hm => exact .varG _ _ _ b k hm
    | varL _ _ _ b k hm hk => exact .varL _ _ _ b k ((hl _).1 hm) hk
  | .assignVar r e, Γ, Λ, Λ', ab, hl, h => by
    cases h with
    | assignG _ _ _ b k _ hm he => exact .assignG _ _ _ b k e hm (permE6 nl fn e Γ Λ Λ' ab hl he)
    | assignL _ _ _ b k _ hm hk he => exact .assignL _ _ _ b k e ((hl _).1 hm) hk (permE6 nl fn e Γ Λ Λ' ab hl he)
  | .arr vs, Γ, Λ, Λ', ab, hl, h => by
    cases h with | arr _ _ _ _ hvs => exact .arr _ _ _ vs (permEs6 nl fn vs Γ Λ Λ' hl hvs)
  | .index l i, Γ, Λ, Λ', ab, hl, h => by
    cases h with
    | index _ _ _ _ _ h1 h2 => exact .index _ _ _ l i (permE6 nl fn l Γ Λ Λ' ab hl h1) (permE6 nl fn i Γ Λ Λ' false hl h2)
  | .assignIndex l i v, Γ, Λ, Λ', ab, hl, h => by
    cases h with
    | assignIndex _ _ _ _ _ _ h1 h2 h3 =>
      exact .assignIndex _ _ _ l i v (permE6 nl fn l Γ Λ Λ' ab hl h1) (permE6 nl fn i Γ Λ Λ' false hl h2) (permE6 nl fn v Γ Λ Λ' false hl h3)
  | .callBuiltin b as, Γ, Λ, Λ', ab, hl, h => by
    cases h with | builtin _ _ _ _ _ has => exact .builtin _ _ _ b as (permEs6 nl fn as Γ Λ Λ' hl has)
  | .ifE c t e, Γ, Λ, Λ', ab, hl, h => by
    cases h with
    | ifE _ _ _ _ _ _ Γ1 Λ1 hc ht he =>
      obtain ⟨Λ1', _, ht'⟩ := permB6 nl fn t Γ Λ Λ' ab Γ1 Λ1 hl ht
      exact .ifE _ _ _ c t e Γ1 Λ1' (permE6 nl fn c Γ Λ Λ' ab hl hc) ht' (permO6 nl fn e Γ Λ Λ' ab hl he)
  | .whileE c b, Γ, Λ, Λ', ab, hl, h => by
    cases h with
    | whileE _ _ _ _ _ Γ1 Λ1 hc hb =>
      obtain ⟨Λ1', _, hb'⟩ := permB6 nl fn b Γ Λ Λ' true Γ1 Λ1 hl hb
      exact .whileE _ _ _ c b Γ1 Λ1' (permE6 nl fn c Γ Λ Λ' false hl hc) hb'
  | .call f as, Γ, Λ, Λ', ab, hl, h => by
    cases h with
    | call _ _ _ _ _ has hf => exact .call _ _ _ f as (permEs6 nl fn as Γ Λ Λ' hl has) (permE6 nl fn f Γ Λ Λ' false hl hf)
  | .func _ _ _ _ _, _, _, _, _, _, h => by cases h
theorem permEs6 (nl : Nat) (fn : Bool) : (es : RExprs) → ∀ (Γ Λ Λ' : Gam), LEq Λ Λ' → ZEs nl fn Γ Λ es → ZEs nl fn Γ Λ' es
  | .nil, Γ, Λ, Λ', _, _ => .nil _ _
  | .cons e es, Γ, Λ, Λ', hl, h => by
    cases h with
    | cons _ _ _ _ he hes => exact .cons _ _ e es (permE6 nl fn e Γ Λ Λ' false hl he) (permEs6 nl fn es Γ Λ Λ' hl hes)
theorem permO6 (nl : Nat) (fn : Bool) : (o : ROptBlock) → ∀ (Γ Λ Λ' : Gam) (ab : Bool), LEq Λ Λ' → ZO nl fn Γ Λ ab o → ZO nl fn Γ Λ' ab o
  | .none, Γ, Λ, Λ', ab, _, _ => .none _ _ _
  | .some b, Γ, Λ, Λ', ab, hl, h => by
    cases h with
    | some _ _ _ _ Γ1 Λ1 hb =>
      obtain ⟨Λ1', _, hb'⟩ := permB6 nl fn b Γ Λ Λ' ab Γ1 Λ1 hl hb
      exact .some _ _ _ b Γ1 Λ1' hb'
theorem permS6 (nl : Nat) (fn : Bool) : (s : RStmt) → ∀ (Γ Λ Λ' : Gam) (ab : Bool) (Γ1 Λ1 : Gam), LEq Λ Λ' → ZS nl fn Γ Λ ab s Γ1 Λ1 →
    ∃ Λ1', LEq Λ1 Λ1' ∧ ZS nl fn Γ Λ' ab s Γ1 Λ1'
  | .expr e, Γ, Λ, Λ', ab, Γ1, Λ1, hl, h => by
    cases h with
    | expr _ _ _ _ he => exact ⟨Λ', hl, .expr _ _ _ e (permE6 nl fn e Γ Λ Λ' ab hl he)⟩
  | .letS r e, Γ, Λ, Λ', ab, Γ1, Λ1, hl, h => by
    cases h with
    | letG _ _ _ b k _ hfn hf he => exact ⟨Λ', hl, .letG _ _ _ b k e hfn hf (permE6 nl fn e _ Λ Λ' ab hl he)⟩
    | letL _ _ _ b k _ hfn hf hk he =>
      exact ⟨(b, k) :: Λ', hl.cons _, .letL _ _ _ b k e hfn (fun p hp => hf p ((hl p).2 hp)) hk
        (permE6 nl fn e Γ _ _ ab (hl.cons _) he)⟩
  | .block b, Γ, Λ, Λ', ab, Γ1, Λ1, hl, h => by
    cases h with
    | block _ _ _ _ Γ2 Λ2 hb =>
      obtain ⟨Λ2', _, hb'⟩ := permB6 nl fn b Γ Λ Λ' ab Γ2 Λ2 hl hb
      exact ⟨Λ', hl, .block _ _ _ b Γ2 Λ2' hb'⟩
  | .brk, Γ, Λ, Λ', ab, Γ1, Λ1, hl, h => by
    cases h with
    | brk => exact ⟨Λ', hl, .brk _ _⟩
  | .cont, Γ, Λ, Λ', ab, Γ1, Λ1, hl, h => by
    cases h with
    | cont => exact ⟨Λ', hl, .cont _ _⟩
  | .ret e, Γ, Λ, Λ', ab, Γ1, Λ1, hl, h => by
    cases h with
    | ret _ _ _ _ hfn he => exact ⟨Λ', hl, .ret _ _ _ e hfn (permE6 nl fn e Γ Λ Λ' ab hl he)⟩
theorem permB6 (nl : Nat) (fn : Bool) : (b : RBlock) → ∀ (Γ Λ Λ' : Gam) (ab : Bool) (Γ1 Λ1 : Gam), LEq Λ Λ' → ZB nl fn Γ Λ ab b Γ1 Λ1 →
    ∃ Λ1', LEq Λ1 Λ1' ∧ ZB nl fn Γ Λ' ab b Γ1 Λ1'
  | .nil, Γ, Λ, Λ', ab, Γ1, Λ1, hl, h => by
    cases h with
    | nil => exact ⟨Λ', hl, .nil _ _ _⟩
  | .cons s b, Γ, Λ, Λ', ab, Γ1, Λ1, hl, h => by
    cases h with
    | cons _ _ _ Γ2 Λ2 _ _ _ _ hs hb =>
      obtain ⟨Λ2', hl2, hs'⟩ := permS6 nl fn s Γ Λ Λ' ab Γ2 Λ2 hl hs
      obtain ⟨Λ1', hl1, hb'⟩ := permB6 nl fn b Γ2 Λ2 Λ2' ab Γ1 Λ1 hl2 hb
      exact ⟨Λ1', hl1, .cons _ _ _ Γ2 Λ2' _ _ s b hs' hb'⟩
end

/-- derived rule: a binary operator on two expressions of the fragment is in the fragment, fused or not -/
theorem ze_infix {nl : Nat} {fn : Bool} {Γ Λ : Gam} {ab : Bool} (l : RExpr) (op : BinOp) (r : RExpr)
    (hl : ZE nl fn Γ Λ ab l) (hr : ZE nl fn Γ Λ false r) : ZE nl fn Γ Λ ab (.infix l op r) := by
  cases hfc : fusedCandidate l op r with
  | none => exact .bin _ _ _ l op r hfc hl hr
  | some p =>
    unfold fusedCandidate at hfc
    split at hfc
    · rename_i b k v
      cases hl with
      | varL _ _ _ _ _ hm hk =>
        have hfc' : fusedCandidate (.var ⟨b, .loc k⟩) op (.int v) = some p := by unfold fusedCandidate; exact hfc
        have hp := fusedCandidate_varL b k op v p hfc'
        subst hp
        exact .fusedL _ _ _ b k op v hm hk hfc'
    · rename_i v b k
      cases hr with
      | varL _ _ _ _ _ hm hk =>
        split at hfc
        · rename_i op' hmo; exact .fusedR _ _ _ b k op op' v hm hk hmo
        · cases hfc
    · cases hfc

theorem ze_var {nl fn Γ Λ ab} (r : Ref) (h : RefOK nl Γ Λ r) : ZE nl fn Γ Λ ab (.var r) := by
  obtain ⟨b, s⟩ := r
  cases s with
  | global k => exact .varG _ _ _ b k h
  | loc k => exact .varL _ _ _ b k h.1 h.2

theorem ze_assign {nl fn Γ Λ ab} (r : Ref) (e : RExpr) (h : RefOK nl Γ Λ r) (he : ZE nl fn Γ Λ ab e) : ZE nl fn Γ Λ ab (.assignVar r e) := by
  obtain ⟨b, s⟩ := r
  cases s with
  | global k => exact .assignG _ _ _ b k e h he
  | loc k => exact .assignL _ _ _ b k e h.1 h.2 he

/-- a `stel` in the fragment: the statement rule that goes with `SimF.rinv_define` -/
theorem rinv_define6 (fn : Bool) (st : RState) (sc : List (Text × Nat)) (scs gscs : Scs) (F : Nat) (h : RInv fn st (sc :: scs) gscs F) (n : Text) :
    ∀ (nl : Nat) (ab : Bool) (e : RExpr), lim fn (st.define n).1 ≤ nl →
      ZE nl fn (gamOf fn gscs (((n, st.nextId) :: sc) :: scs)) (lamOf fn (((n, st.nextId) :: sc) :: scs)) ab e →
      ZS nl fn (gamOf fn gscs (sc :: scs)) (lamOf fn (sc :: scs)) ab (.letS (st.define n).2 e)
        (gamOf fn gscs (((n, st.nextId) :: sc) :: scs)) (lamOf fn (((n, st.nextId) :: sc) :: scs)) := by
  have hfs : ∀ p ∈ G (sc :: scs), p.1 ≠ st.nextId ∧ p.2 ≠ (sc :: scs).flatten.length := by
    intro p hp
    obtain ⟨h1, m, h2⟩ := slotsOf_bounds _ p hp
    have := h.fresh (m, p.1) h2
    simp only at this
    exact ⟨by omega, by omega⟩
  cases fn with
  | false =>
    obtain ⟨ms, hs⟩ := h.shapeF rfl
    have hd : st.define n = ({ st with ctxs := [{ isGlobal := true, maxSize := ms + 1, scopes := ((n, st.nextId) :: sc) :: scs }], nextId := st.nextId + 1 },
        ⟨st.nextId, .global (sc :: scs).flatten.length⟩) := by
      unfold RState.define
      rw [hs]
      simp only [Ctx.define, Ctx.totalLen, Ctx.flat, ↓reduceIte]
    rw [hd]
    intro nl ab e _ he
    have he' : ZE nl false ((st.nextId, (sc :: scs).flatten.length) :: G (sc :: scs)) [] ab e := by
      simpa [gamOf, lamOf, G, slotsOf] using he
    have := ZS.letG (G (sc :: scs)) [] ab st.nextId (sc :: scs).flatten.length e rfl hfs he'
    simpa [gamOf, lamOf, G, slotsOf] using this
  | true =>
    obtain ⟨ms, gms, hs, hle, hg⟩ := h.shapeT rfl
    have hd : st.define n = ({ st with ctxs := [{ isGlobal := false, maxSize := ms + 1, scopes := ((n, st.nextId) :: sc) :: scs },
          { isGlobal := true, maxSize := gms, scopes := gscs }], nextId := st.nextId + 1 },
        ⟨st.nextId, .loc (sc :: scs).flatten.length⟩) := by
      unfold RState.define
      rw [hs]
      simp only [Ctx.define, Ctx.totalLen, Ctx.flat, Bool.false_eq_true, ↓reduceIte]
    rw [hd]
    intro nl ab e hnl he
    have hk : (sc :: scs).flatten.length < nl := by
      simp only [lim, msOf] at hnl
      simp only [List.flatten_cons, List.length_append] at hle ⊢; omega
    have he' : ZE nl true (G gscs) ((st.nextId, (sc :: scs).flatten.length) :: G (sc :: scs)) ab e := by
      simpa [gamOf, lamOf, G, slotsOf] using he
    have := ZS.letL (G gscs) (G (sc :: scs)) ab st.nextId (sc :: scs).flatten.length e rfl hfs hk he'
    simpa [gamOf, lamOf, G, slotsOf] using this

/-! ## the source fragment of stage 6 -/

mutual
/-- source expressions of stage 6. `fn` = inside a function body; the flag `ab` has the meaning it has in `ZE`.
    No function literal here: they are whole top-level statements (`S6Top`). -/
inductive S6E (fn : Bool) : Bool → Expr → Prop where
  | int (ab) (v : Int) : S6E fn ab (.int v)
  | bool (ab) (b : Bool) : S6E fn ab (.bool b)
  | float (ab) (x : UInt64) : LitF x → S6E fn ab (.float x)
  | str (ab) (s : Text) : S6E fn ab (.str s)
  | ident (ab) (n : Text) : S6E fn ab (.ident n)
  | not (ab) (e : Expr) : S6E fn ab e → S6E fn ab (.pre .not e)
  | neg (ab) (e : Expr) : S6E fn ab e → S6E fn ab (.pre .sub e)
  | negate (ab) (e : Expr) : S6E fn ab e → S6E fn ab (.pre .negate e)
  | bin (ab) (l : Expr) (op : Op) (r : Expr) (bop : BinOp) : opToBin op = some bop → S6E fn ab l → S6E fn false r → S6E fn ab (.infix l op r)
  | assign (ab) (n : Text) (e : Expr) : S6E fn ab e → S6E fn ab (.assign (.ident n) e)
  | assignIndex (ab) (a i v : Expr) : S6E fn ab a → S6E fn false i → S6E fn false v → S6E fn ab (.assign (.index a i) v)
  | arr (ab) (vs : Exprs) : S6Es fn vs → S6E fn ab (.arr vs)
  | index (ab) (l i : Expr) : S6E fn ab l → S6E fn false i → S6E fn ab (.index l i)
  /-- the resolver looks the NAME up among the builtins first, before any variable -/
  | builtin (ab) (n : Text) (as : Exprs) (b : Builtin) : Builtin.resolve n = some b → S6Es fn as → S6E fn ab (.call (.ident n) as)
  | call (ab) (f : Expr) (as : Exprs) : nonBuiltin f = true → S6Es fn as → S6E fn false f → S6E fn ab (.call f as)
  | ifE (ab) (c : Expr) (t : Block) (e : OptBlock) : S6E fn ab c → S6B fn ab t → S6O fn ab e → S6E fn ab (.ifE c t e)
  | whileE (ab) (c : Expr) (b : Block) : S6E fn false c → S6B fn true b → S6E fn ab (.whileE c b)
inductive S6Es (fn : Bool) : Exprs → Prop where
  | nil : S6Es fn .nil
  | cons (e : Expr) (es : Exprs) : S6E fn false e → S6Es fn es → S6Es fn (.cons e es)
inductive S6O (fn : Bool) : Bool → OptBlock → Prop where
  | none (ab) : S6O fn ab .none
  | some (ab) (b : Block) : S6B fn ab b → S6O fn ab (.some b)
inductive S6S (fn : Bool) : Bool → Stmt → Prop where
  | expr (ab) (e : Expr) : S6E fn ab e → S6S fn ab (.expr e)
  | letS (ab) (n : Text) (e : Expr) : S6E fn ab e → S6S fn ab (.letS n e)
  | block (ab) (b : Block) : S6B fn ab b → S6S fn ab (.block b)
  | brk : S6S fn true .brk
  | cont : S6S fn true .cont
  | ret (ab) (e : Expr) : fn = true → S6E fn ab e → S6S fn ab (.ret e)
inductive S6B (fn : Bool) : Bool → Block → Prop where
  | nil (ab) : S6B fn ab .nil
  | cons (ab) (s : Stmt) (b : Block) : S6S fn ab s → S6B fn ab b → S6B fn ab (.cons s b)
end

/-- source programs of stage 6: plain statements, `functie name(ps) { body }` and `stel f = functie(ps) { body }` in sequence -/
inductive S6Top : Block → Prop where
  | nil : S6Top .nil
  | stmt (s : Stmt) (rest : Block) : S6S false false s → S6Top rest → S6Top (.cons s rest)
  | named (name : Text) (ps : List Text) (body rest : Block) : name.isEmpty = false → S6B true false body → S6Top rest →
      S6Top (.cons (.expr (.func name ps body)) rest)
  | letF (f : Text) (ps : List Text) (body rest : Block) : S6B true false body → S6Top rest →
      S6Top (.cons (.letS f (.func [] ps body)) rest)

/-- the conclusion for an expression: invariant kept, more slots handed out, tree in the fragment for every final slot count -/
def RPE6 (fn ab : Bool) (scs gscs : Scs) (F : Nat) (st : RState) (e' : RExpr) (st' : RState) : Prop :=
  RInv fn st' scs gscs F ∧ lim fn st ≤ lim fn st' ∧ ∀ nl, lim fn st' ≤ nl → ZE nl fn (gamOf fn gscs scs) (lamOf fn scs) ab e'

mutual
theorem r6E (fn : Bool) : (e : Expr) → ∀ (ab : Bool) (scs gscs : Scs) (F : Nat) (st : RState) (e' : RExpr) (st' : RState),
    S6E fn ab e → RInv fn st scs gscs F → resolveE e st = .ok (e', st') → RPE6 fn ab scs gscs F st e' st'
  | .int v, ab, scs, gscs, F, st, e', st', _, hinv, h => by
    simp only [resolveE] at h; injection h with h; injection h with h1 h2; subst h1; subst h2
    exact ⟨hinv, Nat.le_refl _, fun nl _ => .int _ _ _ v⟩
  | .bool b, ab, scs, gscs, F, st, e', st', _, hinv, h => by
    simp only [resolveE] at h; injection h with h; injection h with h1 h2; subst h1; subst h2
    exact ⟨hinv, Nat.le_refl _, fun nl _ => .bool _ _ _ b⟩
  | .float x, ab, scs, gscs, F, st, e', st', hs, hinv, h => by
    simp only [resolveE] at h; injection h with h; injection h with h1 h2; subst h1; subst h2
    cases hs with
    | float _ _ hl => exact ⟨hinv, Nat.le_refl _, fun nl _ => .float _ _ _ x hl⟩
  | .str s, ab, scs, gscs, F, st, e', st', _, hinv, h => by
    simp only [resolveE] at h; injection h with h; injection h with h1 h2; subst h1; subst h2
    exact ⟨hinv, Nat.le_refl _, fun nl _ => .str _ _ _ s⟩
  | .ident n, ab, scs, gscs, F, st, e', st', _, hinv, h => by
    simp only [resolveE] at h
    cases hr : st.resolve n with
    | none => simp [hr] at h
    | some r =>
      simp only [hr] at h
      injection h with h; injection h with h1 h2; subst h1; subst h2
      exact ⟨hinv, Nat.le_refl _, fun nl hnl => ze_var r (SimF.rinv_resolve fn st scs gscs F hinv n r hr nl hnl)⟩
  | .pre op r, ab, scs, gscs, F, st, e', st', hs, hinv, h => by
    simp only [resolveE] at h
    cases hr : resolveE r st with
    | error er => simp [hr] at h
    | ok p =>
      obtain ⟨r1, st1⟩ := p
      simp only [hr] at h
      cases hs with
      | not _ _ hsr =>
        injection h with h; injection h with h1 h2; subst h1; subst h2
        obtain ⟨hi, hle, hx⟩ := r6E fn r ab scs gscs F st r1 st1 hsr hinv hr
        exact ⟨hi, hle, fun nl hnl => .not _ _ _ r1 (hx nl hnl)⟩
      | neg _ _ hsr =>
        injection h with h; injection h with h1 h2; subst h1; subst h2
        obtain ⟨hi, hle, hx⟩ := r6E fn r ab scs gscs F st r1 st1 hsr hinv hr
        exact ⟨hi, hle, fun nl hnl => .neg _ _ _ r1 (hx nl hnl)⟩
      | negate _ _ hsr =>
        injection h with h; injection h with h1 h2; subst h1; subst h2
        obtain ⟨hi, hle, hx⟩ := r6E fn r ab scs gscs F st r1 st1 hsr hinv hr
        exact ⟨hi, hle, fun nl hnl => .neg _ _ _ r1 (hx nl hnl)⟩
  | .assign (.ident n) r, ab, scs, gscs, F, st, e', st', hs, hinv, h => by
    cases hs with
    | assign _ _ _ hsr =>
      simp only [resolveE] at h
      cases hres : st.resolve n with
      | none => simp [hres] at h
      | some ref =>
        simp only [hres] at h
        cases hr : resolveE r st with
        | error er => simp [hr] at h
        | ok p =>
          obtain ⟨r1, st1⟩ := p
          simp only [hr] at h
          injection h with h; injection h with h1 h2; subst h1; subst h2
          obtain ⟨hi, hle, hx⟩ := r6E fn r ab scs gscs F st r1 st1 hsr hinv hr
          exact ⟨hi, hle, fun nl hnl => ze_assign ref r1 (SimF.rinv_resolve fn st scs gscs F hinv n ref hres nl (Nat.le_trans hle hnl)) (hx nl hnl)⟩
  | .assign (.index a i) r, ab, scs, gscs, F, st, e', st', hs, hinv, h => by
    cases hs with
    | assignIndex _ _ _ _ hsa hsi hsr =>
      simp only [resolveE] at h
      cases ha : resolveE a st with
      | error er => simp [ha] at h
      | ok p =>
        obtain ⟨a1, st1⟩ := p
        simp only [ha] at h
        obtain ⟨hi1, hle1, hxa⟩ := r6E fn a ab scs gscs F st a1 st1 hsa hinv ha
        cases hi : resolveE i st1 with
        | error er => simp [hi] at h
        | ok q =>
          obtain ⟨i1, st2⟩ := q
          simp only [hi] at h
          obtain ⟨hi2, hle2, hxi⟩ := r6E fn i false scs gscs F st1 i1 st2 hsi hi1 hi
          cases hr : resolveE r st2 with
          | error er => simp [hr] at h
          | ok w =>
            obtain ⟨r1, st3⟩ := w
            simp only [hr] at h
            injection h with h; injection h with h1 h2; subst h1; subst h2
            obtain ⟨hi3, hle3, hxr⟩ := r6E fn r false scs gscs F st2 r1 st3 hsr hi2 hr
            exact ⟨hi3, Nat.le_trans hle1 (Nat.le_trans hle2 hle3), fun nl hnl =>
              .assignIndex _ _ _ a1 i1 r1 (hxa nl (Nat.le_trans hle2 (Nat.le_trans hle3 hnl))) (hxi nl (Nat.le_trans hle3 hnl)) (hxr nl hnl)⟩
  | .infix l op r, ab, scs, gscs, F, st, e', st', hs, hinv, h => by
    cases hs with
    | bin _ _ _ _ bop hop hsl hsr =>
      simp only [resolveE] at h
      cases hl : resolveE l st with
      | error er => simp [hl] at h
      | ok p =>
        obtain ⟨l1, st1⟩ := p
        simp only [hl] at h
        obtain ⟨hi1, hle1, hxl⟩ := r6E fn l ab scs gscs F st l1 st1 hsl hinv hl
        cases hr : resolveE r st1 with
        | error er => simp [hr] at h
        | ok q =>
          obtain ⟨r1, st2⟩ := q
          simp only [hr, hop] at h
          injection h with h; injection h with h1 h2; subst h1; subst h2
          obtain ⟨hi2, hle2, hxr⟩ := r6E fn r false scs gscs F st1 r1 st2 hsr hi1 hr
          exact ⟨hi2, Nat.le_trans hle1 hle2, fun nl hnl => ze_infix l1 bop r1 (hxl nl (Nat.le_trans hle2 hnl)) (hxr nl hnl)⟩
  | .arr vs, ab, scs, gscs, F, st, e', st', hs, hinv, h => by
    cases hs with
    | arr _ _ hsv =>
      simp only [resolveE] at h
      cases hv : resolveEs vs st with
      | error er => simp [hv] at h
      | ok p =>
        obtain ⟨vs1, st1⟩ := p
        simp only [hv] at h
        injection h with h; injection h with h1 h2; subst h1; subst h2
        obtain ⟨hi, hle, hx⟩ := r6Es fn vs scs gscs F st vs1 st1 hsv hinv hv
        exact ⟨hi, hle, fun nl hnl => .arr _ _ _ vs1 (hx nl hnl)⟩
  | .index l i, ab, scs, gscs, F, st, e', st', hs, hinv, h => by
    cases hs with
    | index _ _ _ hsl hsi =>
      simp only [resolveE] at h
      cases hl : resolveE l st with
      | error er => simp [hl] at h
      | ok p =>
        obtain ⟨l1, st1⟩ := p
        simp only [hl] at h
        obtain ⟨hi1, hle1, hxl⟩ := r6E fn l ab scs gscs F st l1 st1 hsl hinv hl
        cases hr : resolveE i st1 with
        | error er => simp [hr] at h
        | ok q =>
          obtain ⟨i1, st2⟩ := q
          simp only [hr] at h
          injection h with h; injection h with h1 h2; subst h1; subst h2
          obtain ⟨hi2, hle2, hxi⟩ := r6E fn i false scs gscs F st1 i1 st2 hsi hi1 hr
          exact ⟨hi2, Nat.le_trans hle1 hle2, fun nl hnl => .index _ _ _ l1 i1 (hxl nl (Nat.le_trans hle2 hnl)) (hxi nl hnl)⟩
  | .ifE c t e, ab, scs, gscs, F, st, e', st', hs, hinv, h => by
    cases hs with
    | ifE _ _ _ _ hsc hst hse =>
      simp only [resolveE] at h
      cases hc : resolveE c st with
      | error er => simp [hc] at h
      | ok p =>
        obtain ⟨c1, st1⟩ := p
        simp only [hc] at h
        obtain ⟨hi1, hle1, hxc⟩ := r6E fn c ab scs gscs F st c1 st1 hsc hinv hc
        cases ht : resolveB t st1 with
        | error er => simp [ht] at h
        | ok q =>
          obtain ⟨t1, st2⟩ := q
          simp only [ht] at h
          obtain ⟨hi2, hle2, hxt⟩ := r6B fn t ab scs gscs F st1 t1 st2 hst hi1 ht
          cases he : resolveO e st2 with
          | error er => simp [he] at h
          | ok w =>
            obtain ⟨e1, st3⟩ := w
            simp only [he] at h
            injection h with h; injection h with h1 h2; subst h1; subst h2
            obtain ⟨hi3, hle3, hxe⟩ := r6O fn e ab scs gscs F st2 e1 st3 hse hi2 he
            refine ⟨hi3, Nat.le_trans hle1 (Nat.le_trans hle2 hle3), fun nl hnl => ?_⟩
            obtain ⟨Γ1, Λ1, hb⟩ := hxt nl (Nat.le_trans hle3 hnl)
            exact .ifE _ _ _ c1 t1 e1 Γ1 Λ1 (hxc nl (Nat.le_trans hle2 (Nat.le_trans hle3 hnl))) hb (hxe nl hnl)
  | .whileE c b, ab, scs, gscs, F, st, e', st', hs, hinv, h => by
    cases hs with
    | whileE _ _ _ hsc hsb =>
      simp only [resolveE] at h
      cases hc : resolveE c { st with loopDepth := st.loopDepth + 1 } with
      | error er => simp [hc] at h
      | ok p =>
        obtain ⟨c1, st1⟩ := p
        simp only [hc] at h
        obtain ⟨hi1, hle1, hxc⟩ := r6E fn c false scs gscs F _ c1 st1 hsc (SimF.rinv_loop fn st scs gscs F _ hinv) hc
        rw [SimF.lim_loop] at hle1
        cases hb : resolveB b st1 with
        | error er => simp [hb] at h
        | ok q =>
          obtain ⟨b1, st2⟩ := q
          simp only [hb] at h
          injection h with h; injection h with h1 h2; subst h1; subst h2
          obtain ⟨hi2, hle2, hxb⟩ := r6B fn b true scs gscs F st1 b1 st2 hsb hi1 hb
          refine ⟨SimF.rinv_loop fn st2 scs gscs F _ hi2, by rw [SimF.lim_loop]; exact Nat.le_trans hle1 hle2, fun nl hnl => ?_⟩
          rw [SimF.lim_loop] at hnl
          obtain ⟨Γ1, Λ1, hbb⟩ := hxb nl hnl
          exact .whileE _ _ _ c1 b1 Γ1 Λ1 (hxc nl (Nat.le_trans hle2 hnl)) hbb
  | .call f as, ab, scs, gscs, F, st, e', st', hs, hinv, h => by
    cases hs with
    | builtin _ n _ b hb hsa =>
      simp only [resolveE] at h
      cases ha : resolveEs as st with
      | error er => simp [ha] at h
      | ok p =>
        obtain ⟨as1, st1⟩ := p
        simp only [ha, hb] at h
        injection h with h; injection h with h1 h2; subst h1; subst h2
        obtain ⟨hi, hle, hx⟩ := r6Es fn as scs gscs F st as1 st1 hsa hinv ha
        exact ⟨hi, hle, fun nl hnl => .builtin _ _ _ b as1 (hx nl hnl)⟩
    | call _ _ _ hnb hsas hsf =>
      rw [SimF.resolveE_call f as st hnb] at h
      cases has : resolveEs as st with
      | error er => simp [has] at h
      | ok p =>
        obtain ⟨as1, st1⟩ := p
        simp only [has] at h
        obtain ⟨hi1, hle1, hxas⟩ := r6Es fn as scs gscs F st as1 st1 hsas hinv has
        cases hf : resolveE f st1 with
        | error er => simp [hf] at h
        | ok q =>
          obtain ⟨f1, st2⟩ := q
          simp only [hf] at h
          injection h with h; injection h with h1 h2; subst h1; subst h2
          obtain ⟨hi2, hle2, hxf⟩ := r6E fn f false scs gscs F st1 f1 st2 hsf hi1 hf
          exact ⟨hi2, Nat.le_trans hle1 hle2, fun nl hnl => .call _ _ _ f1 as1 (hxas nl (Nat.le_trans hle2 hnl)) (hxf nl hnl)⟩
  | .func _ _ _, _, _, _, _, _, _, _, hs, _, _ => by cases hs
  | .assign (.infix _ _ _) _, _, _, _, _, _, _, _, hs, _, _ => by cases hs
  | .assign (.pre _ _) _, _, _, _, _, _, _, _, hs, _, _ => by cases hs
  | .assign (.int _) _, _, _, _, _, _, _, _, hs, _, _ => by cases hs
  | .assign (.float _) _, _, _, _, _, _, _, _, hs, _, _ => by cases hs
  | .assign (.bool _) _, _, _, _, _, _, _, _, hs, _, _ => by cases hs
  | .assign (.ifE _ _ _) _, _, _, _, _, _, _, _, hs, _, _ => by cases hs
  | .assign (.func _ _ _) _, _, _, _, _, _, _, _, hs, _, _ => by cases hs
  | .assign (.call _ _) _, _, _, _, _, _, _, _, hs, _, _ => by cases hs
  | .assign (.assign _ _) _, _, _, _, _, _, _, _, hs, _, _ => by cases hs
  | .assign (.str _) _, _, _, _, _, _, _, _, hs, _, _ => by cases hs
  | .assign (.arr _) _, _, _, _, _, _, _, _, hs, _, _ => by cases hs
  | .assign (.whileE _ _) _, _, _, _, _, _, _, _, hs, _, _ => by cases hs

theorem r6Es (fn : Bool) : (es : Exprs) → ∀ (scs gscs : Scs) (F : Nat) (st : RState) (es' : RExprs) (st' : RState),
    S6Es fn es → RInv fn st scs gscs F → resolveEs es st = .ok (es', st') →
    RInv fn st' scs gscs F ∧ lim fn st ≤ lim fn st' ∧ ∀ nl, lim fn st' ≤ nl → ZEs nl fn (gamOf fn gscs scs) (lamOf fn scs) es'
  | .nil, scs, gscs, F, st, es', st', _, hinv, h => by
    simp only [resolveEs] at h; injection h with h; injection h with h1 h2; subst h1; subst h2
    exact ⟨hinv, Nat.le_refl _, fun nl _ => .nil _ _⟩
  | .cons e es, scs, gscs, F, st, es', st', hs, hinv, h => by
    cases hs with
    | cons _ _ hse hses =>
      simp only [resolveEs] at h
      cases he : resolveE e st with
      | error er => simp [he] at h
      | ok p =>
        obtain ⟨e1, st1⟩ := p
        simp only [he] at h
        obtain ⟨hi1, hle1, hxe⟩ := r6E fn e false scs gscs F st e1 st1 hse hinv he
        cases hes : resolveEs es st1 with
        | error er => simp [hes] at h
        | ok q =>
          obtain ⟨es1, st2⟩ := q
          simp only [hes] at h
          injection h with h; injection h with h1 h2; subst h1; subst h2
          obtain ⟨hi2, hle2, hxes⟩ := r6Es fn es scs gscs F st1 es1 st2 hses hi1 hes
          exact ⟨hi2, Nat.le_trans hle1 hle2, fun nl hnl => .cons _ _ e1 es1 (hxe nl (Nat.le_trans hle2 hnl)) (hxes nl hnl)⟩

theorem r6O (fn : Bool) : (o : OptBlock) → ∀ (ab : Bool) (scs gscs : Scs) (F : Nat) (st : RState) (o' : ROptBlock) (st' : RState),
    S6O fn ab o → RInv fn st scs gscs F → resolveO o st = .ok (o', st') →
    RInv fn st' scs gscs F ∧ lim fn st ≤ lim fn st' ∧ ∀ nl, lim fn st' ≤ nl → ZO nl fn (gamOf fn gscs scs) (lamOf fn scs) ab o'
  | .none, ab, scs, gscs, F, st, o', st', _, hinv, h => by
    simp only [resolveO] at h; injection h with h; injection h with h1 h2; subst h1; subst h2
    exact ⟨hinv, Nat.le_refl _, fun nl _ => .none _ _ _⟩
  | .some b, ab, scs, gscs, F, st, o', st', hs, hinv, h => by
    cases hs with
    | some _ _ hsb =>
      simp only [resolveO] at h
      cases hb : resolveB b st with
      | error er => simp [hb] at h
      | ok q =>
        obtain ⟨b1, st1⟩ := q
        simp only [hb] at h
        injection h with h; injection h with h1 h2; subst h1; subst h2
        obtain ⟨hi, hle, hxb⟩ := r6B fn b ab scs gscs F st b1 st1 hsb hinv hb
        refine ⟨hi, hle, fun nl hnl => ?_⟩
        obtain ⟨Γ1, Λ1, hbb⟩ := hxb nl hnl
        exact .some _ _ _ b1 Γ1 Λ1 hbb

theorem r6S (fn : Bool) : (s : Stmt) → ∀ (ab : Bool) (sc : List (Text × Nat)) (scs gscs : Scs) (F : Nat) (st : RState) (s' : RStmt) (st' : RState),
    S6S fn ab s → RInv fn st (sc :: scs) gscs F → resolveS s st = .ok (s', st') →
    ∃ sc', RInv fn st' (sc' :: scs) gscs F ∧ lim fn st ≤ lim fn st' ∧
      ∀ nl, lim fn st' ≤ nl → ZS nl fn (gamOf fn gscs (sc :: scs)) (lamOf fn (sc :: scs)) ab s' (gamOf fn gscs (sc' :: scs)) (lamOf fn (sc' :: scs))
  | .expr e, ab, sc, scs, gscs, F, st, s', st', hs, hinv, h => by
    cases hs with
    | expr _ _ hse =>
      simp only [resolveS] at h
      cases hr : resolveE e st with
      | error er => simp [hr] at h
      | ok p =>
        obtain ⟨e1, st1⟩ := p
        simp only [hr] at h
        injection h with h; injection h with h1 h2; subst h1; subst h2
        obtain ⟨hi, hle, hx⟩ := r6E fn e ab _ gscs F st e1 st1 hse hinv hr
        exact ⟨sc, hi, hle, fun nl hnl => .expr _ _ _ e1 (hx nl hnl)⟩
  | .letS n e, ab, sc, scs, gscs, F, st, s', st', hs, hinv, h => by
    cases hs with
    | letS _ _ _ hse =>
      simp only [resolveS] at h
      obtain ⟨hinv1, _⟩ := SimF.rinv_define fn st sc scs gscs F hinv n
      have hlet := rinv_define6 fn st sc scs gscs F hinv n
      cases hr : resolveE e (st.define n).1 with
      | error er => simp [hr] at h
      | ok p =>
        obtain ⟨e1, st1⟩ := p
        simp only [hr] at h
        injection h with h; injection h with h1 h2; subst h1; subst h2
        obtain ⟨hi, hle, hx⟩ := r6E fn e ab _ gscs F _ e1 st1 hse hinv1 hr
        exact ⟨(n, st.nextId) :: sc, hi, Nat.le_trans (SimF.lim_define_le fn st n) hle,
          fun nl hnl => hlet nl ab e1 (Nat.le_trans hle hnl) (hx nl hnl)⟩
  | .block b, ab, sc, scs, gscs, F, st, s', st', hs, hinv, h => by
    cases hs with
    | block _ _ hsb =>
      simp only [resolveS] at h
      cases hb : resolveB b st with
      | error er => simp [hb] at h
      | ok q =>
        obtain ⟨b1, st1⟩ := q
        simp only [hb] at h
        injection h with h; injection h with h1 h2; subst h1; subst h2
        obtain ⟨hi, hle, hxb⟩ := r6B fn b ab _ gscs F st b1 st1 hsb hinv hb
        refine ⟨sc, hi, hle, fun nl hnl => ?_⟩
        obtain ⟨Γ1, Λ1, hbb⟩ := hxb nl hnl
        exact .block _ _ _ b1 Γ1 Λ1 hbb
  | .brk, ab, sc, scs, gscs, F, st, s', st', hs, hinv, h => by
    cases hs
    simp only [resolveS] at h
    split at h
    · cases h
    · injection h with h; injection h with h1 h2; subst h1; subst h2
      exact ⟨sc, hinv, Nat.le_refl _, fun nl _ => .brk _ _⟩
  | .cont, ab, sc, scs, gscs, F, st, s', st', hs, hinv, h => by
    cases hs
    simp only [resolveS] at h
    split at h
    · cases h
    · injection h with h; injection h with h1 h2; subst h1; subst h2
      exact ⟨sc, hinv, Nat.le_refl _, fun nl _ => .cont _ _⟩
  | .ret e, ab, sc, scs, gscs, F, st, s', st', hs, hinv, h => by
    cases hs with
    | ret _ _ hfn hse =>
      simp only [resolveS] at h
      split at h
      · cases h
      · cases hr : resolveE e st with
        | error er => simp [hr] at h
        | ok p =>
          obtain ⟨e1, st1⟩ := p
          simp only [hr] at h
          injection h with h; injection h with h1 h2; subst h1; subst h2
          obtain ⟨hi, hle, hx⟩ := r6E fn e ab _ gscs F st e1 st1 hse hinv hr
          exact ⟨sc, hi, hle, fun nl hnl => .ret _ _ _ e1 hfn (hx nl hnl)⟩

theorem r6Ss (fn : Bool) : (b : Block) → ∀ (ab : Bool) (sc : List (Text × Nat)) (scs gscs : Scs) (F : Nat) (st : RState) (b' : RBlock) (st' : RState),
    S6B fn ab b → RInv fn st (sc :: scs) gscs F → resolveSs b st = .ok (b', st') →
    ∃ sc', RInv fn st' (sc' :: scs) gscs F ∧ lim fn st ≤ lim fn st' ∧
      ∀ nl, lim fn st' ≤ nl → ZB nl fn (gamOf fn gscs (sc :: scs)) (lamOf fn (sc :: scs)) ab b' (gamOf fn gscs (sc' :: scs)) (lamOf fn (sc' :: scs))
  | .nil, ab, sc, scs, gscs, F, st, b', st', _, hinv, h => by
    simp only [resolveSs] at h; injection h with h; injection h with h1 h2; subst h1; subst h2
    exact ⟨sc, hinv, Nat.le_refl _, fun nl _ => .nil _ _ _⟩
  | .cons s rest, ab, sc, scs, gscs, F, st, b', st', hs, hinv, h => by
    cases hs with
    | cons _ _ _ hss hsrest =>
      simp only [resolveSs] at h
      cases hr : resolveS s st with
      | error er => simp [hr] at h
      | ok p =>
        obtain ⟨s1, st1⟩ := p
        simp only [hr] at h
        obtain ⟨sc1, hi1, hle1, hx1⟩ := r6S fn s ab sc scs gscs F st s1 st1 hss hinv hr
        cases hr2 : resolveSs rest st1 with
        | error er => simp [hr2] at h
        | ok q =>
          obtain ⟨b1, st2⟩ := q
          simp only [hr2] at h
          injection h with h; injection h with h1 h2; subst h1; subst h2
          obtain ⟨sc2, hi2, hle2, hx2⟩ := r6Ss fn rest ab sc1 scs gscs F st1 b1 st2 hsrest hi1 hr2
          exact ⟨sc2, hi2, Nat.le_trans hle1 hle2, fun nl hnl => .cons _ _ _ _ _ _ _ _ _ (hx1 nl (Nat.le_trans hle2 hnl)) (hx2 nl hnl)⟩

theorem r6B (fn : Bool) : (b : Block) → ∀ (ab : Bool) (scs gscs : Scs) (F : Nat) (st : RState) (b' : RBlock) (st' : RState),
    S6B fn ab b → RInv fn st scs gscs F → resolveB b st = .ok (b', st') →
    RInv fn st' scs gscs F ∧ lim fn st ≤ lim fn st' ∧
      ∀ nl, lim fn st' ≤ nl → ∃ Γ1 Λ1, ZB nl fn (gamOf fn gscs scs) (lamOf fn scs) ab b' Γ1 Λ1
  | .nil, ab, scs, gscs, F, st, b', st', _, hinv, h => by
    simp only [resolveB] at h; injection h with h; injection h with h1 h2; subst h1; subst h2
    exact ⟨hinv, Nat.le_refl _, fun nl _ => ⟨_, _, .nil _ _ _⟩⟩
  | .cons s rest, ab, scs, gscs, F, st, b', st', hs, hinv, h => by
    cases hs with
    | cons _ _ _ hss hsrest =>
      simp only [resolveB] at h
      obtain ⟨hinv0, hl0⟩ := SimF.rinv_enter fn st scs gscs F hinv
      cases hr : resolveS s st.enterScope with
      | error er => simp [hr] at h
      | ok p =>
        obtain ⟨s1, st1⟩ := p
        simp only [hr] at h
        obtain ⟨sc1, hi1, hle1, hx1⟩ := r6S fn s ab [] scs gscs F st.enterScope s1 st1 hss hinv0 hr
        cases hr2 : resolveSs rest st1 with
        | error er => simp [hr2] at h
        | ok q =>
          obtain ⟨b1, st2⟩ := q
          simp only [hr2] at h
          injection h with h; injection h with h1 h2; subst h1; subst h2
          obtain ⟨sc2, hi2, hle2, hx2⟩ := r6Ss fn rest ab sc1 scs gscs F st1 b1 st2 hsrest hi1 hr2
          obtain ⟨hi3, hl3⟩ := SimF.rinv_leave fn st2 sc2 scs gscs F hi2
          refine ⟨hi3, by rw [hl3, ← hl0]; exact Nat.le_trans hle1 hle2, fun nl hnl => ?_⟩
          rw [hl3] at hnl
          have h1 := hx1 nl (Nat.le_trans hle2 hnl)
          rw [SimF.gamOf_enter, SimF.lamOf_enter] at h1
          exact ⟨_, _, .cons _ _ _ _ _ _ _ _ _ h1 (hx2 nl hnl)⟩
end

end Sim6
end Nl
