/- The managed list of the run's collector never lists an address twice and lists only allocated
   addresses — in every state any run reaches. -/
import Nlmodel.Proofs.Lemmas.MemInv
import Nlmodel.Proofs.Lemmas.GCFinish
namespace Nl
open GC

def ManOK (m : Mem) : Prop := m.managed.Nodup ∧ ∀ a, a ∈ m.managed → a < m.heap.cells.size

theorem freeAll_size (l : List Nat) : ∀ (h : Heap), (freeAll h l).cells.size = h.cells.size := by
  induction l with
  | nil => intro h; rfl
  | cons x l ih => intro h; simp only [freeAll, List.foldl_cons] at ih ⊢; rw [ih]; simp [Heap.free, Heap.set]

theorem manOK_alloc (m : Mem) (c : Cell) (h : ManOK m) :
    ManOK { heap := (m.heap.alloc c).1, managed := m.heap.cells.size :: m.managed } := by
  have hs : (m.heap.alloc c).1.cells.size = m.heap.cells.size + 1 := by simp [Heap.alloc]
  refine ⟨List.nodup_cons.2 ⟨fun hin => ?_, h.1⟩, fun a ha => ?_⟩
  · have := h.2 _ hin; omega
  · show a < (m.heap.alloc c).1.cells.size
    rw [hs]
    cases List.mem_cons.1 ha with
    | inl e => omega
    | inr e => have := h.2 a e; omega

theorem manOK_closed : MemClosed ManOK where
  allocF m x h := manOK_alloc m (.float x) h
  allocS m s h := manOK_alloc m (.str s) h
  allocA m vs h := manOK_alloc m (.arr vs) h
  set m a c h := ⟨h.1, fun x hx => by show x < (m.heap.set a c).cells.size; simp only [Heap.set, Array.size_setIfInBounds]; exact h.2 x hx⟩
  gc m roots h := by
    unfold GC.run
    split
    · exact h
    · refine ⟨List.Nodup.sublist List.filter_sublist h.1, fun a ha => ?_⟩
      show a < (freeAll _ _).cells.size
      rw [freeAll_size]
      exact h.2 a (List.mem_filter.1 ha).1

/-- in every state a run of any program reaches (fresh machine or session) -/
theorem run_manOK (prev : VM) (bc : Bytecode) (n : Nat) : (runSteps bc.code n (prev.start bc)).MemP ManOK :=
  run_closed manOK_closed prev bc ⟨List.nodup_nil, fun a h => (by cases h)⟩ n

/-- the hand-over of the result followed by the drop of the collector frees exactly what a collection
    with the result as its only root would free -/
theorem finish_is_collection (m : Mem) (v : Value) (hnd : m.managed.Nodup) :
    (destroy { m with managed := untrace m.heap (m.managed.length + 1) m.managed v }).heap = (GC.run m [v]).heap := by
  have e := untrace_eq m.heap m.managed hnd (m.managed.length + 1) [] v
  rw [sub_nil] at e
  simp only [destroy, e]
  unfold GC.run
  split
  · rename_i hemp
    have : m.managed = [] := by simpa using hemp
    simp [this, sub, freeAll]
  · simp only [markAll, List.foldl_cons, List.foldl_nil, sub]

end Nl
