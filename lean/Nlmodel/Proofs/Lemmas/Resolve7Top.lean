/- Stage 7, property R1 of the resolver at program level: the induction over the top-level sequence, a decidable
   SOURCE-level check, and the end-to-end theorems of stage 7 WITHOUT validation of the resolver's output. -/
import Nlmodel.Proofs.Lemmas.Resolve7
import Nlmodel.Proofs.Lemmas.Sim7Example
namespace Nl
namespace Sim7
open Spec Sim Sim6
open SimH (LitF litFb litFb_sound)
open SimF (FT FnInfo paramScope paramScopeFrom LEq Scs lim gamOf lamOf msOf RefOK nonBuiltin fnEnter fnExit)
open Sim6 (builtinName)

theorem r7E (e : Expr) (mid : List Ctx) (Δ : Gam) (fn lit ab : Bool) (scs gscs : Scs) (st : RState) (e' : RExpr) (st' : RState)
    (hs : S7E fn lit ab e) (hΔ : DelOK fn lit Δ gscs scs) (hinv : RInv7 mid fn st scs gscs) (h : resolveE e st = .ok (e', st')) :
    RPE7 mid Δ fn ab scs gscs st e' st' :=
  (r7all (sizeOf e)).e e (Nat.le_refl _) mid Δ fn lit ab scs gscs st e' st' hs hΔ hinv h

theorem r7B (b : Block) (mid : List Ctx) (Δ : Gam) (fn ab : Bool) (scs gscs : Scs) (st : RState) (b' : RBlock) (st' : RState)
    (hs : S7B fn ab b) (hΔ : fn = true → Δ = G gscs) (hinv : RInv7 mid fn st scs gscs) (h : resolveB b st = .ok (b', st')) :
    RInv7 mid fn st' scs gscs ∧ lim fn st ≤ lim fn st' ∧
      ∀ nl, lim fn st' ≤ nl → ∃ Γ1 Λ1, Z7B Δ nl fn (gamOf fn gscs scs) (lamOf fn scs) ab b' Γ1 Λ1 :=
  (r7all (sizeOf b)).b b (Nat.le_refl _) mid Δ fn ab scs gscs st b' st' hs hΔ hinv h

theorem G_cons_single (n : Text) (id : Nat) (sc : List (Text × Nat)) : G [(n, id) :: sc] = (id, sc.length) :: G [sc] := by
  simp [G, slotsOf]

/-! ## R1 for stage 7 -/

theorem rTop7 : (b : Block) → ∀ (sc : List (Text × Nat)) (st : RState) (b' : RBlock) (st' : RState),
    S7Top b → RInv7 [] false st [sc] [] → resolveSs b st = .ok (b', st') → ∃ Γ', ZTop7 (G [sc]) b' Γ'
  | .nil, sc, st, b', st', _, hinv, h => by
    simp only [resolveSs] at h; injection h with h; injection h with h1 h2; subst h1; subst h2
    exact ⟨_, .nil _⟩
  | .cons s rest, sc, st, b', st', hs, hinv, h => by
    simp only [resolveSs] at h
    cases hs with
    | exprS e _ hse hrest =>
      simp only [resolveS] at h
      cases hr : resolveE e st with
      | error er => simp [hr] at h
      | ok p =>
        obtain ⟨e1, st1⟩ := p
        simp only [hr] at h
        obtain ⟨hi1, _, hx1⟩ := r7E e [] (G [sc]) false true false [sc] [] st e1 st1 hse ⟨(fun hc => by cases hc), fun _ _ => rfl⟩ hinv hr
        cases hr2 : resolveSs rest st1 with
        | error er => simp [hr2] at h
        | ok q =>
          obtain ⟨b1, st2⟩ := q
          simp only [hr2] at h
          injection h with h; injection h with h1 h2; subst h1; subst h2
          obtain ⟨Γ', hy⟩ := rTop7 rest sc st1 b1 st2 hrest hi1 hr2
          have he := hx1 0 (Nat.le_refl _)
          simp only [gamOf, lamOf] at he
          exact ⟨Γ', .exprS _ _ e1 b1 he hy⟩
    | letS n e _ hse hrest =>
      simp only [resolveS] at h
      have hinv1 := rinv7_define false st sc [] [] hinv n
      have href := rinv7_define_refF st sc [] [] hinv n
      have hfs := rinv7_fresh_slot false st sc [] [] hinv
      simp only [List.flatten_cons, List.flatten_nil, List.append_nil] at href hfs
      cases hr : resolveE e (st.define n).1 with
      | error er => simp [hr] at h
      | ok p =>
        obtain ⟨e1, st1⟩ := p
        simp only [hr] at h
        obtain ⟨hi1, _, hx1⟩ := r7E e [] (G [(n, st.nextId) :: sc]) false true false [(n, st.nextId) :: sc] [] _ e1 st1 hse
          ⟨(fun hc => by cases hc), fun _ _ => rfl⟩ hinv1 hr
        cases hr2 : resolveSs rest st1 with
        | error er => simp [hr2] at h
        | ok q =>
          obtain ⟨b1, st2⟩ := q
          simp only [hr2] at h
          injection h with h; injection h with h1 h2; subst h1; subst h2
          obtain ⟨Γ', hy⟩ := rTop7 rest ((n, st.nextId) :: sc) st1 b1 st2 hrest hi1 hr2
          have he := hx1 0 (Nat.le_refl _)
          simp only [gamOf, lamOf] at he
          rw [G_cons_single] at he hy
          rw [href]
          exact ⟨Γ', .letS _ _ st.nextId sc.length e1 b1 hfs he hy⟩
    | blockS b _ hsb hrest =>
      simp only [resolveS] at h
      cases hr : resolveB b st with
      | error er => simp [hr] at h
      | ok p =>
        obtain ⟨b0, st1⟩ := p
        simp only [hr] at h
        obtain ⟨hi1, _, hx1⟩ := r7B b [] (G [sc]) false false [sc] [] st b0 st1 hsb (fun hc => by cases hc) hinv hr
        cases hr2 : resolveSs rest st1 with
        | error er => simp [hr2] at h
        | ok q =>
          obtain ⟨b1, st2⟩ := q
          simp only [hr2] at h
          injection h with h; injection h with h1 h2; subst h1; subst h2
          obtain ⟨Γ', hy⟩ := rTop7 rest sc st1 b1 st2 hrest hi1 hr2
          obtain ⟨Γ1, Λ1, hb⟩ := hx1 0 (Nat.le_refl _)
          simp only [gamOf, lamOf] at hb
          exact ⟨Γ', .blockS _ _ b0 Γ1 Λ1 b1 hb hy⟩
    | named name ps body _ hname hsb hrest =>
      rw [SimF.resolveS_named name ps body st hname] at h
      have hinv1 := rinv7_define false st sc [] [] hinv name
      have href := rinv7_define_refF st sc [] [] hinv name
      have hfs := rinv7_fresh_slot false st sc [] [] hinv
      simp only [List.flatten_cons, List.flatten_nil, List.append_nil] at href hfs
      cases hb : resolveB body (defineParams (fnEnter (st.define name).1) ps).1 with
      | error er => simp [hb] at h
      | ok p =>
        obtain ⟨body1, st4⟩ := p
        simp only [hb] at h
        obtain ⟨⟨Γb, Λb, hyb⟩, hok, hbd, hinv2, _⟩ := func_exit7 (Δ := G [(name, st.nextId) :: sc]) (lit := true) hinv1
          ⟨(fun hc => by cases hc), fun _ _ => rfl⟩ (.inr rfl) ps body body1 st4
          (fun mid' gscs' psc h3 hd => r7B body mid' _ true false [psc] gscs' _ body1 st4 hsb (fun _ => hd) h3 hb)
        cases hr2 : resolveSs rest (fnExit st4 (st.define name).1) with
        | error er => simp [hr2] at h
        | ok q =>
          obtain ⟨b1, st2⟩ := q
          simp only [hr2] at h
          injection h with h; injection h with h1 h2; subst h1; subst h2
          obtain ⟨Γ', hy⟩ := rTop7 rest ((name, st.nextId) :: sc) _ b1 st2 hrest hinv2 hr2
          rw [G_cons_single] at hyb hy
          rw [href]
          exact ⟨Γ', .fdef _ _ _ st.nextId sc.length _ (msOf st4) body1 Γb Λb b1 hfs hyb hok hbd hy⟩

/-- R1 for stage 7: the resolver turns every source program of the class `S7Top` into a stage-7 program -/
theorem resolve_ztop7 (ast : Block) (hs : S7Top ast) (r : RBlock) (h : resolveProgram ast = .ok r) : ∃ Γ', ZTop7 [] r Γ' := by
  unfold resolveProgram at h
  cases hr : resolveSs ast {} with
  | error er => simp [hr] at h
  | ok q =>
    obtain ⟨b, st'⟩ := q
    simp only [hr] at h
    injection h with h; subst h
    have hinv : RInv7 [] false ({} : RState) [[]] [] :=
      ⟨fun _ => ⟨0, rfl⟩, (fun hc => by cases hc), (by intro p hp; simp at hp), (fun hc => by cases hc)⟩
    obtain ⟨Γ', hy⟩ := rTop7 ast [] {} b st' hs hinv hr
    exact ⟨Γ', by simpa [G, slotsOf] using hy⟩

/-- END TO END FROM SOURCE TREES, stage 7, WITHOUT validation: for a parsed program of the syntactic class `S7Top`,
    compiling and running it (collections at every return) agrees with the definitional semantics, or stops at the
    machine's stack/frame limit -/
theorem program7_syntactic (ast : Block) (r : RBlock) (bc : Bytecode) (hc : compileProgram ast = .ok (r, bc)) (hin : S7Top ast) (F : Nat) :
    HitsLimit bc ∨
    match evalB F r {} with
    | .val () st' => ∃ mv n s', (∀ k, runSteps bc.code (n + k) (VM.start {} bc) = .value mv s') ∧
        s'.mem.heap.tree treeDepth [] mv = st'.tree treeDepth [] st'.last ∧ s'.out = st'.out ∧
        (finishValue mv s').mem.heap.tree treeDepth [] mv = s'.mem.heap.tree treeDepth [] mv
    | .err er ste => ∃ n s', (∀ k, runSteps bc.code (n + k) (VM.start {} bc) = .error er s') ∧ s'.out = ste.out
    | .brk _ => False
    | .cont _ => False
    | .ret _ _ => False
    | _ => True := by
  unfold compileProgram at hc
  cases hr : resolveProgram ast with
  | error e => simp [hr] at hc
  | ok r' =>
    simp only [hr] at hc
    cases hcr : compileR r' with
    | error e => simp [hcr] at hc
    | ok bc' =>
      simp only [hcr] at hc
      injection hc with hc; injection hc with h1 h2; subst h1; subst h2
      obtain ⟨Γ', hy⟩ := resolve_ztop7 ast hin r' hr
      exact top_program7 r' Γ' hy (resolve_fids_distinct ast r' hr) bc' hcr F

/-! ## a decidable check for the source class -/

mutual
def src7E (fn lit ab : Bool) : Expr → Bool
  | .int _ => true
  | .bool _ => true
  | .float x => litFb x
  | .str _ => true
  | .ident _ => true
  | .pre op e => SimF.preOk op && src7E fn lit ab e
  | .infix l op r => (opToBin op).isSome && src7E fn lit ab l && src7E fn lit false r
  | .assign (.ident _) e => src7E fn lit ab e
  | .assign (.index a i) e => src7E fn lit ab a && src7E fn lit false i && src7E fn lit false e
  | .assign _ _ => false
  | .arr vs => src7Es fn lit vs
  | .index l i => src7E fn lit ab l && src7E fn lit false i
  | .ifE c t e => src7E fn lit ab c && src7B fn ab t && src7O fn ab e
  | .whileE c b => src7E fn lit false c && src7B fn true b
  | .call f as => src7Es fn lit as && (builtinName f || src7E fn lit false f)
  | .func name _ body => name.isEmpty && (fn || lit) && src7B true false body
/-- a NAMED function literal (as a statement of a function body) -/
def src7Named (fn : Bool) : Expr → Bool
  | .func name _ body => fn && !name.isEmpty && src7B true false body
  | _ => false
def src7Es (fn lit : Bool) : Exprs → Bool
  | .nil => true
  | .cons e es => src7E fn lit false e && src7Es fn lit es
def src7O (fn ab : Bool) : OptBlock → Bool
  | .none => true
  | .some b => src7B fn ab b
def src7S (fn ab : Bool) : Stmt → Bool
  | .expr e => src7Named fn e || src7E fn fn ab e
  | .letS _ e => src7E fn fn ab e
  | .block b => src7B fn ab b
  | .brk => ab
  | .cont => ab
  | .ret e => fn && src7E fn fn ab e
def src7B (fn ab : Bool) : Block → Bool
  | .nil => true
  | .cons s b => src7S fn ab s && src7B fn ab b
end

mutual
theorem src7E_sound : (e : Expr) → ∀ (fn lit ab : Bool), src7E fn lit ab e = true → S7E fn lit ab e
  | .int v, fn, lit, ab, _ => .int ab v
  | .bool b, fn, lit, ab, _ => .bool ab b
  | .float x, fn, lit, ab, h => by simp only [src7E] at h; exact .float ab x (litFb_sound x h)
  | .str s, fn, lit, ab, _ => .str ab s
  | .ident n, fn, lit, ab, _ => .ident ab n
  | .pre op e, fn, lit, ab, h => by
    simp only [src7E, Bool.and_eq_true] at h
    have he := src7E_sound e fn lit ab h.2
    cases op with
    | not => exact .not ab e he
    | sub => exact .neg ab e he
    | negate => exact .negate ab e he
    | _ => simp [SimF.preOk] at h
  | .infix l op r, fn, lit, ab, h => by
    simp only [src7E, Bool.and_eq_true] at h
    cases hop : opToBin op with
    | none => simp [hop] at h
    | some bop => exact .bin ab l op r bop hop (src7E_sound l fn lit ab h.1.2) (src7E_sound r fn lit false h.2)
  | .assign (.ident n) e, fn, lit, ab, h => by
    simp only [src7E] at h
    exact .assign ab n e (src7E_sound e fn lit ab h)
  | .assign (.index a i) e, fn, lit, ab, h => by
    simp only [src7E, Bool.and_eq_true] at h
    exact .assignIndex ab a i e (src7E_sound a fn lit ab h.1.1) (src7E_sound i fn lit false h.1.2) (src7E_sound e fn lit false h.2)
  | .arr vs, fn, lit, ab, h => by simp only [src7E] at h; exact .arr ab vs (src7Es_sound vs fn lit h)
  | .index l i, fn, lit, ab, h => by
    simp only [src7E, Bool.and_eq_true] at h
    exact .index ab l i (src7E_sound l fn lit ab h.1) (src7E_sound i fn lit false h.2)
  | .ifE c t e, fn, lit, ab, h => by
    simp only [src7E, Bool.and_eq_true] at h
    exact .ifE ab c t e (src7E_sound c fn lit ab h.1.1) (src7B_sound t fn ab h.1.2) (src7O_sound e fn ab h.2)
  | .whileE c b, fn, lit, ab, h => by
    simp only [src7E, Bool.and_eq_true] at h
    exact .whileE ab c b (src7E_sound c fn lit false h.1) (src7B_sound b fn true h.2)
  | .call f as, fn, lit, ab, h => by
    simp only [src7E, Bool.and_eq_true, Bool.or_eq_true] at h
    have has := src7Es_sound as fn lit h.1
    by_cases hb : builtinName f = true
    · cases f with
      | ident n =>
        simp only [builtinName, Option.isSome_iff_exists] at hb
        obtain ⟨b, hb⟩ := hb
        exact .builtin ab n as b hb has
      | _ => simp [builtinName] at hb
    · have hf : src7E fn lit false f = true := by
        rcases h.2 with h2 | h2
        · exact absurd h2 hb
        · exact h2
      have hnb : nonBuiltin f = true := by
        cases f with
        | ident n =>
          simp only [builtinName, Bool.not_eq_true, Option.isSome_eq_false_iff, Option.isNone_iff_eq_none] at hb
          simp [nonBuiltin, hb]
        | _ => rfl
      exact .call ab f as hnb has (src7E_sound f fn lit false hf)
  | .func name ps body, fn, lit, ab, h => by
    simp only [src7E, Bool.and_eq_true, Bool.or_eq_true, List.isEmpty_iff] at h
    obtain ⟨⟨hn, hc⟩, hb⟩ := h
    subst hn
    exact .func ab ps body hc (src7B_sound body true false hb)
  | .assign (.infix _ _ _) _, fn, lit, _, h => by simp [src7E] at h
  | .assign (.pre _ _) _, fn, lit, _, h => by simp [src7E] at h
  | .assign (.int _) _, fn, lit, _, h => by simp [src7E] at h
  | .assign (.float _) _, fn, lit, _, h => by simp [src7E] at h
  | .assign (.bool _) _, fn, lit, _, h => by simp [src7E] at h
  | .assign (.ifE _ _ _) _, fn, lit, _, h => by simp [src7E] at h
  | .assign (.func _ _ _) _, fn, lit, _, h => by simp [src7E] at h
  | .assign (.call _ _) _, fn, lit, _, h => by simp [src7E] at h
  | .assign (.assign _ _) _, fn, lit, _, h => by simp [src7E] at h
  | .assign (.str _) _, fn, lit, _, h => by simp [src7E] at h
  | .assign (.arr _) _, fn, lit, _, h => by simp [src7E] at h
  | .assign (.whileE _ _) _, fn, lit, _, h => by simp [src7E] at h
theorem src7Named_sound : (e : Expr) → ∀ (fn : Bool), src7Named fn e = true →
    ∃ name ps body, e = .func name ps body ∧ fn = true ∧ name.isEmpty = false ∧ S7B true false body
  | .func name ps body, fn, h => by
    simp only [src7Named, Bool.and_eq_true, Bool.not_eq_true'] at h
    exact ⟨name, ps, body, rfl, h.1.1, h.1.2, src7B_sound body true false h.2⟩
  | .int _, _, h => by simp [src7Named] at h
  | .float _, _, h => by simp [src7Named] at h
  | .bool _, _, h => by simp [src7Named] at h
  | .str _, _, h => by simp [src7Named] at h
  | .ident _, _, h => by simp [src7Named] at h
  | .pre _ _, _, h => by simp [src7Named] at h
  | .infix _ _ _, _, h => by simp [src7Named] at h
  | .ifE _ _ _, _, h => by simp [src7Named] at h
  | .call _ _, _, h => by simp [src7Named] at h
  | .assign _ _, _, h => by simp [src7Named] at h
  | .arr _, _, h => by simp [src7Named] at h
  | .index _ _, _, h => by simp [src7Named] at h
  | .whileE _ _, _, h => by simp [src7Named] at h
theorem src7Es_sound : (es : Exprs) → ∀ (fn lit : Bool), src7Es fn lit es = true → S7Es fn lit es
  | .nil, fn, lit, _ => .nil
  | .cons e es, fn, lit, h => by
    simp only [src7Es, Bool.and_eq_true] at h
    exact .cons e es (src7E_sound e fn lit false h.1) (src7Es_sound es fn lit h.2)
theorem src7O_sound : (o : OptBlock) → ∀ (fn ab : Bool), src7O fn ab o = true → S7O fn ab o
  | .none, fn, ab, _ => .none ab
  | .some b, fn, ab, h => by
    simp only [src7O] at h
    exact .some ab b (src7B_sound b fn ab h)
theorem src7S_sound : (s : Stmt) → ∀ (fn ab : Bool), src7S fn ab s = true → S7S fn ab s
  | .expr e, fn, ab, h => by
    simp only [src7S, Bool.or_eq_true] at h
    by_cases hn : src7Named fn e = true
    · obtain ⟨name, ps, body, he, hfn, hname, hb⟩ := src7Named_sound e fn hn
      subst he
      exact .fdef ab name ps body hfn hname hb
    · rcases h with h | h
      · exact absurd h hn
      · exact .expr ab e (src7E_sound e fn fn ab h)
  | .letS n e, fn, ab, h => by simp only [src7S] at h; exact .letS ab n e (src7E_sound e fn fn ab h)
  | .block b, fn, ab, h => by simp only [src7S] at h; exact .block ab b (src7B_sound b fn ab h)
  | .brk, fn, ab, h => by simp only [src7S] at h; subst h; exact .brk
  | .cont, fn, ab, h => by simp only [src7S] at h; subst h; exact .cont
  | .ret e, fn, ab, h => by
    simp only [src7S, Bool.and_eq_true] at h
    exact .ret ab e h.1 (src7E_sound e fn fn ab h.2)
theorem src7B_sound : (b : Block) → ∀ (fn ab : Bool), src7B fn ab b = true → S7B fn ab b
  | .nil, fn, ab, _ => .nil ab
  | .cons s b, fn, ab, h => by
    simp only [src7B, Bool.and_eq_true] at h
    exact .cons ab s b (src7S_sound s fn ab h.1) (src7B_sound b fn ab h.2)
end

/-- the decidable check for source programs of stage 7 -/
def src7Top : Block → Bool
  | .nil => true
  | .cons s rest =>
    (match s with
     | .expr e => src7TopNamed e || src7E false true false e
     | .letS _ e => src7E false true false e
     | .block b => src7B false false b
     | _ => false) && src7Top rest
where
  /-- `functie name(ps) { body }` as a top-level statement -/
  src7TopNamed : Expr → Bool
    | .func name _ body => !name.isEmpty && src7B true false body
    | _ => false

theorem src7TopNamed_sound (e : Expr) (h : src7Top.src7TopNamed e = true) :
    ∃ name ps body, e = .func name ps body ∧ name.isEmpty = false ∧ S7B true false body := by
  cases e with
  | func name ps body =>
    simp only [src7Top.src7TopNamed, Bool.and_eq_true, Bool.not_eq_true'] at h
    exact ⟨name, ps, body, rfl, h.1, src7B_sound body true false h.2⟩
  | _ => simp [src7Top.src7TopNamed] at h

theorem src7Top_sound : (b : Block) → src7Top b = true → S7Top b
  | .nil, _ => .nil
  | .cons (.expr e) rest, h => by
    simp only [src7Top, Bool.and_eq_true, Bool.or_eq_true] at h
    have hrest := src7Top_sound rest h.2
    by_cases hn : src7Top.src7TopNamed e = true
    · obtain ⟨name, ps, body, he, hname, hb⟩ := src7TopNamed_sound e hn
      subst he
      exact .named name ps body rest hname hb hrest
    · rcases h.1 with h1 | h1
      · exact absurd h1 hn
      · exact .exprS e rest (src7E_sound e false true false h1) hrest
  | .cons (.letS n e) rest, h => by
    simp only [src7Top, Bool.and_eq_true] at h
    exact .letS n e rest (src7E_sound e false true false h.1) (src7Top_sound rest h.2)
  | .cons (.block b) rest, h => by
    simp only [src7Top, Bool.and_eq_true] at h
    exact .blockS b rest (src7B_sound b false false h.1) (src7Top_sound rest h.2)
  | .cons (.ret _) rest, h => by simp [src7Top] at h
  | .cons .brk rest, h => by simp [src7Top] at h
  | .cons .cont rest, h => by simp [src7Top] at h

/-- THE OBSERVATION ITSELF, stage 7, with the SOURCE-level check only (no validation of the resolver's output): for a
    text whose parsed tree passes `src7Top` and compiles, whatever the definitional semantics answers with some fuel is
    exactly what `eval` answers on the machine for every large enough instruction budget, unless the machine stops at
    its stack/frame limit -/
theorem eval_text7_checked (cc : CharClass) (src : Text) (ast : Block) (r : RBlock) (bc : Bytecode) (hp : parse cc src = .ok ast)
    (hs : src7Top ast = true) (hc : compileProgram ast = .ok (r, bc)) (F : Nat) :
    TextHitsLimit cc src ∨
    match specText cc F src with
    | .value t out => ∃ n, ∀ k, evalText cc (n + k) src = .value t out
    | .error e out => ∃ n, ∀ k, evalText cc (n + k) src = .error e out
    | .fault _ => False
    | _ => True := by
  have hsim := program7_syntactic ast r bc hc (src7Top_sound ast hs) F
  have hres : resolveProgram ast = .ok r := by
    unfold compileProgram at hc
    cases hr : resolveProgram ast with
    | error e => simp [hr] at hc
    | ok r' =>
      simp only [hr] at hc
      cases hcr : compileR r' with
      | error e => simp [hcr] at hc
      | ok bc' => simp only [hcr] at hc; injection hc with hc; injection hc with h1 h2; rw [h1]
  rcases hsim with hlim | hsim
  · exact .inl (TextHitsLimit.of hp hc hlim)
  right
  simp only [specText, hp, hres, Spec.evalProgram]
  cases hr : evalB F r {} with
  | val u st' =>
    rw [hr] at hsim
    obtain ⟨mv, n, s', hn, ht, ho, hf⟩ := hsim
    refine ⟨n, fun k => ?_⟩
    simp only [evalText, hp, hc, VM.run, hn k]
    rw [hf, ht]
    have : (finishValue mv s').out = s'.out := rfl
    rw [this, ho]
  | err er ste =>
    rw [hr] at hsim
    obtain ⟨n, s', hn, ho⟩ := hsim
    refine ⟨n, fun k => ?_⟩
    simp only [evalText, hp, hc, VM.run, hn k]
    have : (finishError s').out = s'.out := rfl
    rw [this, ho]
  | fuel => trivial
  | brk _ => rw [hr] at hsim; exact hsim.elim
  | cont _ => rw [hr] at hsim; exact hsim.elim
  | ret _ _ => rw [hr] at hsim; exact hsim.elim
  | unspec _ => trivial

/-! ## non-vacuity -/

/-- the example programs of `Sim7Example` with literals outside top-level blocks are in the SOURCE class (kernel-evaluated) -/
example : src7Top ex7Ast1 = true := by decide
example : src7Top ex7Ast1b = true := by decide
example : src7Top ex7Ast2 = true := by decide
example : src7Top ex7Ast3 = true := by decide
example : src7Top ex7Ast4 = true := by decide
/-- a literal inside a top-level block is outside the SOURCE class (the validation route `inFragment7` covers `ex7Ast5`) -/
example : src7Top ex7Ast5 = false := by decide

end Sim7
end Nl
