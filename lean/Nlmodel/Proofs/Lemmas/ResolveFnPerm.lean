/- Stage 4, helpers for R1: the fragment predicates only look at the MEMBERS of the local scope; a derived rule for binary operators. -/
import Nlmodel.Proofs.Lemmas.SimFnValidate
namespace Nl
namespace SimF
open Spec Sim

/-- two scopes with the same members -/
def LEq (Λ Λ' : Gam) : Prop := ∀ p, p ∈ Λ ↔ p ∈ Λ'

theorem LEq.refl (Λ : Gam) : LEq Λ Λ := fun _ => Iff.rfl

theorem LEq.cons {Λ Λ' : Gam} (h : LEq Λ Λ') (q : Nat × Nat) : LEq (q :: Λ) (q :: Λ') := by
  intro p
  simp only [List.mem_cons]
  exact ⟨fun h' => h'.imp id (h p).1, fun h' => h'.imp id (h p).2⟩

mutual
theorem permE (nl : Nat) (fn : Bool) : (e : RExpr) → ∀ (Γ Λ Λ' : Gam) (ab : Bool), LEq Λ Λ' → YE nl fn Γ Λ ab e → YE nl fn Γ Λ' ab e
  | .int v, Γ, Λ, Λ', ab, _, _ => .int _ _ _ v
  | .bool b, Γ, Λ, Λ', ab, _, _ => .bool _ _ _ b
  | .not e, Γ, Λ, Λ', ab, hl, h => by
    cases h with
    | not _ _ _ _ he => exact .not _ _ _ e (permE nl fn e Γ Λ Λ' ab hl he)
  | .neg e, Γ, Λ, Λ', ab, hl, h => by
    cases h with
    | neg _ _ _ _ he => exact .neg _ _ _ e (permE nl fn e Γ Λ Λ' ab hl he)
  | .infix l op r, Γ, Λ, Λ', ab, hl, h => by
    cases h with
    | bin _ _ _ _ _ _ hfc h1 h2 => exact .bin _ _ _ l op r hfc (permE nl fn l Γ Λ Λ' ab hl h1) (permE nl fn r Γ Λ Λ' false hl h2)
    | fusedL _ _ _ b k _ v hm hk hfc => exact .fusedL _ _ _ b k op v ((hl _).1 hm) hk hfc
    | fusedR _ _ _ b k _ op' v hm hk hmo => exact .fusedR _ _ _ b k op op' v ((hl _).1 hm) hk hmo
  | .var r, Γ, Λ, Λ', ab, hl, h => by
    cases h with
    | varG _ _ _ b k hm => exact .varG _ _ _ b k hm
    | varL _ _ _ b k hm hk => exact .varL _ _ _ b k ((hl _).1 hm) hk
  | .assignVar r e, Γ, Λ, Λ', ab, hl, h => by
    cases h with
    | assignG _ _ _ b k _ hm he => exact .assignG _ _ _ b k e hm (permE nl fn e Γ Λ Λ' ab hl he)
    | assignL _ _ _ b k _ hm hk he => exact .assignL _ _ _ b k e ((hl _).1 hm) hk (permE nl fn e Γ Λ Λ' ab hl he)
  | .ifE c t e, Γ, Λ, Λ', ab, hl, h => by
    cases h with
    | ifE _ _ _ _ _ _ Γ1 Λ1 hc ht he =>
      obtain ⟨Λ1', _, ht'⟩ := permB nl fn t Γ Λ Λ' ab Γ1 Λ1 hl ht
      exact .ifE _ _ _ c t e Γ1 Λ1' (permE nl fn c Γ Λ Λ' ab hl hc) ht' (permO nl fn e Γ Λ Λ' ab hl he)
  | .whileE c b, Γ, Λ, Λ', ab, hl, h => by
    cases h with
    | whileE _ _ _ _ _ Γ1 Λ1 hc hb =>
      obtain ⟨Λ1', _, hb'⟩ := permB nl fn b Γ Λ Λ' true Γ1 Λ1 hl hb
      exact .whileE _ _ _ c b Γ1 Λ1' (permE nl fn c Γ Λ Λ' false hl hc) hb'
  | .call f as, Γ, Λ, Λ', ab, hl, h => by
    cases h with
    | call _ _ _ _ _ has hf => exact .call _ _ _ f as (permEs nl fn as Γ Λ Λ' hl has) (permE nl fn f Γ Λ Λ' false hl hf)
  | .float _, _, _, _, _, _, h => by cases h
  | .str _, _, _, _, _, _, h => by cases h
  | .assignIndex _ _ _, _, _, _, _, _, h => by cases h
  | .func _ _ _ _ _, _, _, _, _, _, h => by cases h
  | .callBuiltin _ _, _, _, _, _, _, h => by cases h
  | .arr _, _, _, _, _, _, h => by cases h
  | .index _ _, _, _, _, _, _, h => by cases h
theorem permEs (nl : Nat) (fn : Bool) : (es : RExprs) → ∀ (Γ Λ Λ' : Gam), LEq Λ Λ' → YEs nl fn Γ Λ es → YEs nl fn Γ Λ' es
  | .nil, Γ, Λ, Λ', _, _ => .nil _ _
  | .cons e es, Γ, Λ, Λ', hl, h => by
    cases h with
    | cons _ _ _ _ he hes => exact .cons _ _ e es (permE nl fn e Γ Λ Λ' false hl he) (permEs nl fn es Γ Λ Λ' hl hes)
theorem permO (nl : Nat) (fn : Bool) : (o : ROptBlock) → ∀ (Γ Λ Λ' : Gam) (ab : Bool), LEq Λ Λ' → YO nl fn Γ Λ ab o → YO nl fn Γ Λ' ab o
  | .none, Γ, Λ, Λ', ab, _, _ => .none _ _ _
  | .some b, Γ, Λ, Λ', ab, hl, h => by
    cases h with
    | some _ _ _ _ Γ1 Λ1 hb =>
      obtain ⟨Λ1', _, hb'⟩ := permB nl fn b Γ Λ Λ' ab Γ1 Λ1 hl hb
      exact .some _ _ _ b Γ1 Λ1' hb'
theorem permS (nl : Nat) (fn : Bool) : (s : RStmt) → ∀ (Γ Λ Λ' : Gam) (ab : Bool) (Γ1 Λ1 : Gam), LEq Λ Λ' → YS nl fn Γ Λ ab s Γ1 Λ1 →
    ∃ Λ1', LEq Λ1 Λ1' ∧ YS nl fn Γ Λ' ab s Γ1 Λ1'
  | .expr e, Γ, Λ, Λ', ab, Γ1, Λ1, hl, h => by
    cases h with
    | expr _ _ _ _ he => exact ⟨Λ', hl, .expr _ _ _ e (permE nl fn e Γ Λ Λ' ab hl he)⟩
  | .letS r e, Γ, Λ, Λ', ab, Γ1, Λ1, hl, h => by
    cases h with
    | letG _ _ _ b k _ hfn hf he => exact ⟨Λ', hl, .letG _ _ _ b k e hfn hf (permE nl fn e _ Λ Λ' ab hl he)⟩
    | letL _ _ _ b k _ hfn hf hk he =>
      exact ⟨(b, k) :: Λ', hl.cons _, .letL _ _ _ b k e hfn (fun p hp => hf p ((hl p).2 hp)) hk
        (permE nl fn e Γ _ _ ab (hl.cons _) he)⟩
  | .block b, Γ, Λ, Λ', ab, Γ1, Λ1, hl, h => by
    cases h with
    | block _ _ _ _ Γ2 Λ2 hb =>
      obtain ⟨Λ2', _, hb'⟩ := permB nl fn b Γ Λ Λ' ab Γ2 Λ2 hl hb
      exact ⟨Λ', hl, .block _ _ _ b Γ2 Λ2' hb'⟩
  | .brk, Γ, Λ, Λ', ab, Γ1, Λ1, hl, h => by
    cases h with
    | brk => exact ⟨Λ', hl, .brk _ _⟩
  | .cont, Γ, Λ, Λ', ab, Γ1, Λ1, hl, h => by
    cases h with
    | cont => exact ⟨Λ', hl, .cont _ _⟩
  | .ret e, Γ, Λ, Λ', ab, Γ1, Λ1, hl, h => by
    cases h with
    | ret _ _ _ _ hfn he => exact ⟨Λ', hl, .ret _ _ _ e hfn (permE nl fn e Γ Λ Λ' ab hl he)⟩
theorem permB (nl : Nat) (fn : Bool) : (b : RBlock) → ∀ (Γ Λ Λ' : Gam) (ab : Bool) (Γ1 Λ1 : Gam), LEq Λ Λ' → YB nl fn Γ Λ ab b Γ1 Λ1 →
    ∃ Λ1', LEq Λ1 Λ1' ∧ YB nl fn Γ Λ' ab b Γ1 Λ1'
  | .nil, Γ, Λ, Λ', ab, Γ1, Λ1, hl, h => by
    cases h with
    | nil => exact ⟨Λ', hl, .nil _ _ _⟩
  | .cons s b, Γ, Λ, Λ', ab, Γ1, Λ1, hl, h => by
    cases h with
    | cons _ _ _ Γ2 Λ2 _ _ _ _ hs hb =>
      obtain ⟨Λ2', hl2, hs'⟩ := permS nl fn s Γ Λ Λ' ab Γ2 Λ2 hl hs
      obtain ⟨Λ1', hl1, hb'⟩ := permB nl fn b Γ2 Λ2 Λ2' ab Γ1 Λ1 hl2 hb
      exact ⟨Λ1', hl1, .cons _ _ _ Γ2 Λ2' _ _ s b hs' hb'⟩
end

/-- derived rule: a binary operator on two expressions of the fragment is in the fragment, fused or not -/
theorem ye_infix {nl : Nat} {fn : Bool} {Γ Λ : Gam} {ab : Bool} (l : RExpr) (op : BinOp) (r : RExpr)
    (hl : YE nl fn Γ Λ ab l) (hr : YE nl fn Γ Λ false r) : YE nl fn Γ Λ ab (.infix l op r) := by
  cases hfc : fusedCandidate l op r with
  | none => exact .bin _ _ _ l op r hfc hl hr
  | some p =>
    unfold fusedCandidate at hfc
    split at hfc
    · rename_i b k v
      cases hl with
      | varL _ _ _ _ _ hm hk =>
        have hfc' : fusedCandidate (.var ⟨b, .loc k⟩) op (.int v) = some p := by unfold fusedCandidate; exact hfc
        have hp := fusedCandidate_varL b k op v p hfc'
        subst hp
        exact .fusedL _ _ _ b k op v hm hk hfc'
    · rename_i v b k
      cases hr with
      | varL _ _ _ _ _ hm hk =>
        split at hfc
        · rename_i op' hmo; exact .fusedR _ _ _ b k op op' v hm hk hmo
        · cases hfc
    · cases hfc

end SimF
end Nl
