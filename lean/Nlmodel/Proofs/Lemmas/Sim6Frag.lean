/- Stage 6: the fragment — the union of stage 4 (functions, calls, locals, `antwoord`, control flow) and
   stage 5 (floats, strings, arrays, indexing, index assignment, builtins) — as predicates on resolved trees. -/
import Nlmodel.Proofs.Lemmas.Sim6Ops
namespace Nl
namespace Sim6
open Spec Sim
open SimH (LitF)
open SimF (paramScope paramScopeFrom)

mutual
/-- expressions. `nl` = number of local slots of the enclosing function (0 at top level), `fn` = inside a
    function body, `Γ` = global scope visible here, `Λ` = local scope, `ab` = `stop`/`volgende` allowed here -/
inductive ZE (nl : Nat) (fn : Bool) : Gam → Gam → Bool → RExpr → Prop where
  | int (Γ Λ ab) (v : Int) : ZE nl fn Γ Λ ab (.int v)
  | bool (Γ Λ ab) (b : Bool) : ZE nl fn Γ Λ ab (.bool b)
  | float (Γ Λ ab) (x : UInt64) : LitF x → ZE nl fn Γ Λ ab (.float x)
  | str (Γ Λ ab) (s : Text) : ZE nl fn Γ Λ ab (.str s)
  | not (Γ Λ ab) (e : RExpr) : ZE nl fn Γ Λ ab e → ZE nl fn Γ Λ ab (.not e)
  | neg (Γ Λ ab) (e : RExpr) : ZE nl fn Γ Λ ab e → ZE nl fn Γ Λ ab (.neg e)
  | bin (Γ Λ ab) (l : RExpr) (op : BinOp) (r : RExpr) : fusedCandidate l op r = none →
      ZE nl fn Γ Λ ab l → ZE nl fn Γ Λ false r → ZE nl fn Γ Λ ab (.infix l op r)
  | fusedL (Γ Λ ab) (b k : Nat) (op : BinOp) (v : Int) : (b, k) ∈ Λ → k < nl →
      fusedCandidate (.var ⟨b, .loc k⟩) op (.int v) = some (op, k, v) → ZE nl fn Γ Λ ab (.infix (.var ⟨b, .loc k⟩) op (.int v))
  | fusedR (Γ Λ ab) (b k : Nat) (op op' : BinOp) (v : Int) : (b, k) ∈ Λ → k < nl → mirrorOp op = some op' →
      ZE nl fn Γ Λ ab (.infix (.int v) op (.var ⟨b, .loc k⟩))
  | varG (Γ Λ ab) (b k : Nat) : (b, k) ∈ Γ → ZE nl fn Γ Λ ab (.var ⟨b, .global k⟩)
  | varL (Γ Λ ab) (b k : Nat) : (b, k) ∈ Λ → k < nl → ZE nl fn Γ Λ ab (.var ⟨b, .loc k⟩)
  | assignG (Γ Λ ab) (b k : Nat) (e : RExpr) : (b, k) ∈ Γ → ZE nl fn Γ Λ ab e → ZE nl fn Γ Λ ab (.assignVar ⟨b, .global k⟩ e)
  | assignL (Γ Λ ab) (b k : Nat) (e : RExpr) : (b, k) ∈ Λ → k < nl → ZE nl fn Γ Λ ab e → ZE nl fn Γ Λ ab (.assignVar ⟨b, .loc k⟩ e)
  | arr (Γ Λ ab) (vs : RExprs) : ZEs nl fn Γ Λ vs → ZE nl fn Γ Λ ab (.arr vs)
  | index (Γ Λ ab) (l i : RExpr) : ZE nl fn Γ Λ ab l → ZE nl fn Γ Λ false i → ZE nl fn Γ Λ ab (.index l i)
  | assignIndex (Γ Λ ab) (l i v : RExpr) : ZE nl fn Γ Λ ab l → ZE nl fn Γ Λ false i → ZE nl fn Γ Λ false v →
      ZE nl fn Γ Λ ab (.assignIndex l i v)
  | builtin (Γ Λ ab) (b : Builtin) (as : RExprs) : ZEs nl fn Γ Λ as → ZE nl fn Γ Λ ab (.callBuiltin b as)
  | ifE (Γ Λ ab) (c : RExpr) (t : RBlock) (e : ROptBlock) (Γ1 Λ1 : Gam) : ZE nl fn Γ Λ ab c → ZB nl fn Γ Λ ab t Γ1 Λ1 → ZO nl fn Γ Λ ab e →
      ZE nl fn Γ Λ ab (.ifE c t e)
  | whileE (Γ Λ ab) (c : RExpr) (b : RBlock) (Γ1 Λ1 : Gam) : ZE nl fn Γ Λ false c → ZB nl fn Γ Λ true b Γ1 Λ1 → ZE nl fn Γ Λ ab (.whileE c b)
  | call (Γ Λ ab) (f : RExpr) (as : RExprs) : ZEs nl fn Γ Λ as → ZE nl fn Γ Λ false f → ZE nl fn Γ Λ ab (.call f as)
inductive ZEs (nl : Nat) (fn : Bool) : Gam → Gam → RExprs → Prop where
  | nil (Γ Λ) : ZEs nl fn Γ Λ .nil
  | cons (Γ Λ) (e : RExpr) (es : RExprs) : ZE nl fn Γ Λ false e → ZEs nl fn Γ Λ es → ZEs nl fn Γ Λ (.cons e es)
inductive ZO (nl : Nat) (fn : Bool) : Gam → Gam → Bool → ROptBlock → Prop where
  | none (Γ Λ ab) : ZO nl fn Γ Λ ab .none
  | some (Γ Λ ab) (b : RBlock) (Γ1 Λ1 : Gam) : ZB nl fn Γ Λ ab b Γ1 Λ1 → ZO nl fn Γ Λ ab (.some b)
inductive ZS (nl : Nat) (fn : Bool) : Gam → Gam → Bool → RStmt → Gam → Gam → Prop where
  | expr (Γ Λ ab) (e : RExpr) : ZE nl fn Γ Λ ab e → ZS nl fn Γ Λ ab (.expr e) Γ Λ
  | letG (Γ Λ ab) (b k : Nat) (e : RExpr) : fn = false → (∀ p ∈ Γ, p.1 ≠ b ∧ p.2 ≠ k) → ZE nl fn ((b, k) :: Γ) Λ ab e →
      ZS nl fn Γ Λ ab (.letS ⟨b, .global k⟩ e) ((b, k) :: Γ) Λ
  | letL (Γ Λ ab) (b k : Nat) (e : RExpr) : fn = true → (∀ p ∈ Λ, p.1 ≠ b ∧ p.2 ≠ k) → k < nl → ZE nl fn Γ ((b, k) :: Λ) ab e →
      ZS nl fn Γ Λ ab (.letS ⟨b, .loc k⟩ e) Γ ((b, k) :: Λ)
  | block (Γ Λ ab) (b : RBlock) (Γ1 Λ1 : Gam) : ZB nl fn Γ Λ ab b Γ1 Λ1 → ZS nl fn Γ Λ ab (.block b) Γ Λ
  | brk (Γ Λ) : ZS nl fn Γ Λ true .brk Γ Λ
  | cont (Γ Λ) : ZS nl fn Γ Λ true .cont Γ Λ
  | ret (Γ Λ ab) (e : RExpr) : fn = true → ZE nl fn Γ Λ ab e → ZS nl fn Γ Λ ab (.ret e) Γ Λ
inductive ZB (nl : Nat) (fn : Bool) : Gam → Gam → Bool → RBlock → Gam → Gam → Prop where
  | nil (Γ Λ ab) : ZB nl fn Γ Λ ab .nil Γ Λ
  | cons (Γ Λ ab) (Γ1 Λ1 Γ2 Λ2 : Gam) (s : RStmt) (b : RBlock) : ZS nl fn Γ Λ ab s Γ1 Λ1 → ZB nl fn Γ1 Λ1 ab b Γ2 Λ2 →
      ZB nl fn Γ Λ ab (.cons s b) Γ2 Λ2
end

theorem zs_scope {nl fn} {Γ Λ Γ1 Λ1 : Gam} {ab : Bool} {s : RStmt} (h : ZS nl fn Γ Λ ab s Γ1 Λ1) (hok : GamOK Γ) (hokl : GamOK Λ) :
    GamOK Γ1 ∧ GamOK Λ1 ∧ (∃ d, Γ1 = d ++ Γ) ∧ (∃ d, Λ1 = d ++ Λ) ∧ (fn = true → Γ1 = Γ) ∧ (fn = false → Λ1 = Λ) := by
  cases h with
  | expr => exact ⟨hok, hokl, ⟨[], rfl⟩, ⟨[], rfl⟩, fun _ => rfl, fun _ => rfl⟩
  | letG _ _ _ b k e hfn hf _ => exact ⟨gamOK_cons hok b k hf, hokl, ⟨[(b, k)], rfl⟩, ⟨[], rfl⟩, fun h => (by rw [hfn] at h; cases h), fun _ => rfl⟩
  | letL _ _ _ b k e hfn hf _ _ => exact ⟨hok, gamOK_cons hokl b k hf, ⟨[], rfl⟩, ⟨[(b, k)], rfl⟩, fun _ => rfl, fun h => (by rw [hfn] at h; cases h)⟩
  | block => exact ⟨hok, hokl, ⟨[], rfl⟩, ⟨[], rfl⟩, fun _ => rfl, fun _ => rfl⟩
  | brk => exact ⟨hok, hokl, ⟨[], rfl⟩, ⟨[], rfl⟩, fun _ => rfl, fun _ => rfl⟩
  | cont => exact ⟨hok, hokl, ⟨[], rfl⟩, ⟨[], rfl⟩, fun _ => rfl, fun _ => rfl⟩
  | ret => exact ⟨hok, hokl, ⟨[], rfl⟩, ⟨[], rfl⟩, fun _ => rfl, fun _ => rfl⟩

theorem zb_scope {nl fn} : ∀ (b : RBlock) {Γ Λ Γ1 Λ1 : Gam} {ab : Bool}, ZB nl fn Γ Λ ab b Γ1 Λ1 → GamOK Γ → GamOK Λ →
    GamOK Γ1 ∧ GamOK Λ1 ∧ (∃ d, Γ1 = d ++ Γ) ∧ (∃ d, Λ1 = d ++ Λ) ∧ (fn = true → Γ1 = Γ) ∧ (fn = false → Λ1 = Λ)
  | .nil, _, _, _, _, _, h, hok, hokl => by cases h; exact ⟨hok, hokl, ⟨[], rfl⟩, ⟨[], rfl⟩, fun _ => rfl, fun _ => rfl⟩
  | .cons s rest, _, _, _, _, _, h, hok, hokl => by
    cases h with
    | cons _ _ _ Γ1 Λ1 _ _ _ _ hs hb =>
      obtain ⟨hok1, hokl1, ⟨d1, e1⟩, ⟨c1, f1⟩, g1, k1⟩ := zs_scope hs hok hokl
      obtain ⟨hok2, hokl2, ⟨d2, e2⟩, ⟨c2, f2⟩, g2, k2⟩ := zb_scope rest hb hok1 hokl1
      exact ⟨hok2, hokl2, ⟨d2 ++ d1, by rw [e2, e1, List.append_assoc]⟩, ⟨c2 ++ c1, by rw [f2, f1, List.append_assoc]⟩,
        fun h => by rw [g2 h, g1 h], fun h => by rw [k2 h, k1 h]⟩

end Sim6
end Nl
