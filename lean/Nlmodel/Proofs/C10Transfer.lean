/-
  C10 — how the compiler chooses to implement an expression is unobservable: the part that rests on the C01 transfer theorems
  (kept apart from `Proofs/C10.lean`, whose machine-level lemmas the simulation proofs themselves import).
-/
import Nlmodel.Proofs.Lemmas.WrapExample
namespace Nl
namespace C10

/-! ### top level or inside a function (session 7, `Lemmas/Wrap*.lean`)

"The outcome of a computation does not depend on whether a variable lives at top level or inside a function": wrapping a program
into a function and calling it — `functie hoofd() { p }  hoofd()` — moves every top-level variable of `p` into a frame slot of an
activation.  In the DEFINITIONAL semantics this changes nothing (`C10_wrap_in_function_same_meaning`): the resolver gives `TE δ`-related
trees (same shape, `global k` ↔ `loc k'`, binder ids shifted by the one `hoofd` takes: mutual induction over the resolver), related
trees evaluate to related results at equal fuel from states that hold the same bindings in `genv` resp. `lenv` (induction on the fuel,
all five evaluators), and the value of the call is the value of the last statement.  For the whole stage-3 source fragment (integers,
booleans, operators, `stel`/assignment/shadowing/blocks, `als`/`anders`, `zolang`, `stop`/`volgende`), any program whose last statement
is an expression statement.  Through `C01_same_meaning_same_behaviour_with_functions` it transfers to the bytecode machine
(`C10_wrap_in_function_same_behaviour`), although the two programs are compiled completely differently (GetGlobal/SetGlobal vs
GetLocal/SetLocal and the fused local-constant instructions, a call frame). -/

theorem C10_wrap_in_function_same_meaning (p : Block) (hs : Sim.SB false p) (hl : Wrap.LastExpr p) (r : RBlock) (hr : resolveProgram p = .ok r) :
    ∃ r', resolveProgram (Wrap.wrap p) = .ok r' ∧ ∀ F,
      match Spec.evalProgram F r with
      | .value t out => Spec.evalProgram (F + 5) r' = .value t out
      | .error e out => Spec.evalProgram (F + 5) r' = .error e out
      | _ => True :=
  Wrap.wrap_same_meaning_as Wrap.hoofd (by decide) (by decide) p hs hl r hr

/-- ... and on the machine, for the VALUE case (the fragment has no `print`, so outputs are empty; error outcomes are transferred at the
    definitional level only by the theorem above): if the text `src1` denotes a value, then — unless one of the two runs stops at the machine's
    stack/frame limit — from some budget on `eval` answers the same for the program and for the program wrapped in a function
    (`hc1`, `hc2`: both fit the bytecode format) -/
theorem C10_wrap_in_function_same_behaviour (cc : CharClass) (src1 src2 : Text) (p : Block) (r1 r2 : RBlock) (b1 b2 : Bytecode)
    (hp1 : parse cc src1 = .ok p) (hp2 : parse cc src2 = .ok (Wrap.wrap p)) (hs : Sim.SB false p) (hl : Wrap.LastExpr p)
    (hc1 : compileProgram p = .ok (r1, b1)) (hc2 : compileProgram (Wrap.wrap p) = .ok (r2, b2))
    (F : Nat) (t : Tree) (out : List Text) (h1 : specText cc F src1 = .value t out) :
    TextHitsLimit cc src1 ∨ TextHitsLimit cc src2 ∨
    ∃ n, ∀ k, evalText cc (n + k) src1 = evalText cc (n + k) src2 :=
  Wrap.wrap_same_behaviour cc src1 src2 p r1 r2 b1 b2 hp1 hp2 hs hl hc1 hc2 F t out h1

end C10
end Nl
