/- parse (print t) = t for the WHOLE grammar (C07): every tree the parser can produce, printed by
   `Model/Printer`, parses back to exactly that tree.  Fuel is handled existentially with
   monotonicity (`ParseMono`) and then related to the fuel `parse` supplies (`ParseFuel`). -/
import Nlmodel.Proofs.Lemmas.Pratt
import Nlmodel.Proofs.Lemmas.ParseMono
import Nlmodel.Proofs.Lemmas.ParseFuel
import Nlmodel.Proofs.Lemmas.ParseStable
import Nlmodel.Proofs.C08
namespace Nl
namespace RTF
open RT

/-! ### more fuel, any amount -/

theorem le_ind {P : Nat → Prop} {f g : Nat} (hfg : f ≤ g) (h0 : P f) (hs : ∀ k, P k → P (k + 1)) : P g := by
  induction hfg with
  | refl => exact h0
  | step _ ih => exact hs _ ih

theorem pre_le {f g : Nat} (hfg : f ≤ g) {ts : List Token} {r} (h : parsePrefix f ts = .ok r) : parsePrefix g ts = .ok r :=
  le_ind (P := fun k => parsePrefix k ts = .ok r) hfg h (fun k hk => (PM.mono k).pre _ _ hk)
theorem expr_le {f g : Nat} (hfg : f ≤ g) {p : Nat} {ts : List Token} {r} (h : parseExpr f p ts = .ok r) : parseExpr g p ts = .ok r :=
  le_ind (P := fun k => parseExpr k p ts = .ok r) hfg h (fun k hk => (PM.mono k).expr _ _ _ hk)
theorem loop_le {f g : Nat} (hfg : f ≤ g) {p : Nat} {l : Expr} {ts : List Token} {r} (h : parseLoop f p l ts = .ok r) : parseLoop g p l ts = .ok r :=
  le_ind (P := fun k => parseLoop k p l ts = .ok r) hfg h (fun k hk => (PM.mono k).loop _ _ _ _ hk)
theorem elems_le {f g : Nat} (hfg : f ≤ g) {c : Token} {ts : List Token} {r} (h : parseElems f c ts = .ok r) : parseElems g c ts = .ok r :=
  le_ind (P := fun k => parseElems k c ts = .ok r) hfg h (fun k hk => (PM.mono k).elems _ _ _ hk)
theorem stmt_le {f g : Nat} (hfg : f ≤ g) {ts : List Token} {r} (h : parseStatement f ts = .ok r) : parseStatement g ts = .ok r :=
  le_ind (P := fun k => parseStatement k ts = .ok r) hfg h (fun k hk => (PM.mono k).stmt _ _ hk)
theorem block_le {f g : Nat} (hfg : f ≤ g) {ts : List Token} {r} (h : parseBlock f ts = .ok r) : parseBlock g ts = .ok r :=
  le_ind (P := fun k => parseBlock k ts = .ok r) hfg h (fun k hk => (PM.mono k).block _ _ hk)
theorem stmts_le {f g : Nat} (hfg : f ≤ g) {b : Bool} {ts : List Token} {r} (h : parseStmts f b ts = .ok r) : parseStmts g b ts = .ok r :=
  le_ind (P := fun k => parseStmts k b ts = .ok r) hfg h (fun k hk => (PM.mono k).stmts _ _ _ hk)

/-! ### the trees the parser can produce -/

def FloatRT (x : UInt64) : Prop := parseFloatLit (floatLit x) = .float x

def isIndex : Expr → Bool | .index .. => true | _ => false

mutual
inductive WE : Expr → Prop where
  | int (v : Int) : 0 ≤ v → v ≤ MAX_INT → WE (.int v)
  | float (x : UInt64) : FloatRT x → WE (.float x)
  | bool (b : Bool) : WE (.bool b)
  | str (s : Text) : WE (.str s)
  | ident (n : Text) : WE (.ident n)
  | pre (op : Op) (r : Expr) : (op = .not ∨ op = .sub) → WE r → WE (.pre op r)
  | bin (l : Expr) (op : Op) (r : Expr) : isBin op → isFunc l = false → WE l → WE r → WE (.infix l op r)
  | assign (l r : Expr) : assignable l = true → WE l → WE r → WE (.assign l r)
  | ifE (c : Expr) (t : Block) (e : OptBlock) : WE c → WB t → WO e → WE (.ifE c t e)
  | whileE (c : Expr) (b : Block) : WE c → WB b → WE (.whileE c b)
  | func (name : Text) (ps : List Text) (body : Block) : WB body → WE (.func name ps body)
  | call (f : Expr) (as : Exprs) : callable f = true → WE f → WEs as → WE (.call f as)
  | arr (vs : Exprs) : WEs vs → WE (.arr vs)
  | index (l i : Expr) : indexable l = true → WE l → WE i → WE (.index l i)
inductive WEs : Exprs → Prop where
  | nil : WEs .nil
  | cons (e : Expr) (es : Exprs) : WE e → WEs es → WEs (.cons e es)
inductive WS : Stmt → Prop where
  | letS (n : Text) (e : Expr) : WE e → WS (.letS n e)
  | ret (e : Expr) : WE e → WS (.ret e)
  | expr (e : Expr) : WE e → WS (.expr e)
  | block (b : Block) : WB b → WS (.block b)
  | brk : WS .brk
  | cont : WS .cont
inductive WB : Block → Prop where
  | nil : WB .nil
  | cons (s : Stmt) (b : Block) : WS s → WB b → WB (.cons s b)
inductive WO : OptBlock → Prop where
  | none : WO .none
  | some (b : Block) : WB b → WO (.some b)
end

/-! ### contexts -/

/-- what follows is not `anders` (so an `als` without else-branch ends where it should) -/
def NoElse (rest : List Token) : Prop := cur rest ≠ .kwElse

/-- the context in which the printed form of `e` stands: precedence `p` of the caller and the tokens after it -/
def Ctx (e : Expr) (p : Nat) (rest : List Token) : Prop :=
  NoElse rest ∧
  match e with
  | .infix _ op _ => p < docLevel op ∧ Stops (docLevel op) rest
  | .assign .. => p = 0 ∧ Stops 0 rest
  | .pre .. => Stops 0 rest
  | .call .. | .index .. => p ≤ 6
  | _ => True

/-- the statement proved for every well-formed expression -/
def G (e : Expr) : Prop :=
  ∀ p rest R, Ctx e p rest → (∃ f, parseLoop f p e rest = .ok R) → ∃ f, parseExpr f p (printE e ++ rest) = .ok R

theorem expr_of_prefix {f : Nat} {p : Nat} {ts ts' : List Token} {l : Expr} {R} (h1 : parsePrefix f ts = .ok (l, ts'))
    (h2 : parseLoop f p l ts' = .ok R) : parseExpr (f + 1) p ts = .ok R := by
  rw [parseExpr, h1]; exact h2

/-- prefix-complete expressions: `parsePrefix` alone returns the whole tree -/
theorem G_of_prefix (e : Expr) (hP : ∀ rest, NoElse rest → ∃ f, parsePrefix f (printE e ++ rest) = .ok (e, rest)) : G e := by
  intro p rest R hctx ⟨f1, h1⟩
  obtain ⟨f2, h2⟩ := hP rest hctx.1
  exact ⟨max f1 f2 + 1, expr_of_prefix (pre_le (Nat.le_max_right _ _) h2) (loop_le (Nat.le_max_left _ _) h1)⟩

theorem loop_stop {p : Nat} {l : Expr} {rest : List Token} (h : Stops p rest) : parseLoop 1 p l rest = .ok (l, rest) :=
  parseLoop_stop 0 p l rest h

theorem stops_mono {p q : Nat} {rest : List Token} (h : Stops p rest) (hpq : p ≤ q) : Stops q rest := by
  rcases h with h | h
  · exact .inl h
  · exact .inr (by omega)

/-- a top position: caller precedence 0, followed by something that stops every expression -/
theorem ctx_top (x : Expr) (hw : WE x) (rest : List Token) (hne : NoElse rest) (hs : Stops 0 rest) : Ctx x 0 rest := by
  refine ⟨hne, ?_⟩
  cases hw with
  | bin l op r hop _ _ _ =>
    have := (op_facts op hop).2.2.1
    exact ⟨by omega, stops_mono hs (Nat.zero_le _)⟩
  | assign l r _ _ _ => exact ⟨rfl, hs⟩
  | pre op r _ _ => exact hs
  | call f as _ _ _ => exact Nat.zero_le _
  | index l i _ _ _ => exact Nat.zero_le _
  | _ => trivial

/-- a parenthesised expression -/
theorem paren_ok (x : Expr) (hw : WE x) (hG : G x) (p : Nat) (rest : List Token) (R : Expr × List Token)
    (hl : ∃ f, parseLoop f p x rest = .ok R) : ∃ f, parseExpr f p (paren (printE x) ++ rest) = .ok R := by
  obtain ⟨f1, h1⟩ := hl
  have hs : Stops 0 (.rparen :: rest) := .inr (by simp [cur, Token.prec])
  obtain ⟨f2, h2⟩ := hG 0 (.rparen :: rest) (x, .rparen :: rest) (ctx_top x hw _ (by simp [NoElse, cur]) hs) ⟨1, loop_stop hs⟩
  have hts : paren (printE x) ++ rest = .lparen :: (printE x ++ (.rparen :: rest)) := by simp [paren, List.append_assoc]
  refine ⟨max f1 f2 + 2, ?_⟩
  have hp : parsePrefix (max f1 f2 + 1) (paren (printE x) ++ rest) = .ok (x, rest) := by
    rw [hts, parsePrefix]
    simp only [cur, adv]
    rw [expr_le (Nat.le_max_right f1 f2) h2]
    simp [skipTok, cur, adv]
  exact expr_of_prefix hp (loop_le (by omega) h1)

/-! ### first tokens -/

def exprStart : Token → Bool
  | .int _ | .float _ | .kwTrue | .kwFalse | .str _ | .ident _ | .lparen | .bang | .minus | .kwIf | .kwWhile | .kwFunc | .lbracket => true
  | _ => false

theorem head_expr : (e : Expr) → WE e → ∃ t tl, printE e = t :: tl ∧ exprStart t = true
  | .int v, _ => ⟨_, _, rfl, rfl⟩
  | .float x, _ => ⟨_, _, rfl, rfl⟩
  | .bool b, _ => by cases b <;> exact ⟨_, _, rfl, rfl⟩
  | .str s, _ => ⟨_, _, rfl, rfl⟩
  | .ident n, _ => ⟨_, _, rfl, rfl⟩
  | .pre op r, hw => by
    cases hw with
    | pre _ _ hop _ => rcases hop with rfl | rfl <;> exact ⟨_, _, by simp only [printE, opToken]; rfl, rfl⟩
  | .infix l op r, hw => by
    cases hw with
    | bin _ _ _ _ _ hl _ =>
      simp only [printE]
      split
      · exact ⟨.lparen, _, by simp only [paren, List.cons_append]; rfl, rfl⟩
      · obtain ⟨t, tl, ht, hs⟩ := head_expr l hl
        exact ⟨t, _, by rw [ht]; rfl, hs⟩
  | .assign l r, hw => by
    cases hw with
    | assign _ _ _ hl _ =>
      obtain ⟨t, tl, ht, hs⟩ := head_expr l hl
      exact ⟨t, _, by simp only [printE]; rw [ht]; rfl, hs⟩
  | .ifE c t e, _ => ⟨_, _, by simp only [printE]; rfl, rfl⟩
  | .whileE c b, _ => ⟨_, _, by simp only [printE]; rfl, rfl⟩
  | .func n ps b, _ => ⟨_, _, by simp only [printE]; rfl, rfl⟩
  | .call f as, hw => by
    cases hw with
    | call _ _ _ hf _ =>
      obtain ⟨t, tl, ht, hs⟩ := head_expr f hf
      exact ⟨t, _, by simp only [printE]; rw [ht]; rfl, hs⟩
  | .arr vs, _ => ⟨_, _, by simp only [printE]; rfl, rfl⟩
  | .index l i, hw => by
    cases hw with
    | index _ _ _ hl _ =>
      obtain ⟨t, tl, ht, hs⟩ := head_expr l hl
      exact ⟨t, _, by simp only [printE]; rw [ht]; rfl, hs⟩

theorem cur_expr (e : Expr) (hw : WE e) (rest : List Token) : exprStart (cur (printE e ++ rest)) = true := by
  obtain ⟨t, tl, ht, hs⟩ := head_expr e hw
  rw [ht]; exact hs

/-! ### atoms -/

theorem G_int (v : Int) (h0 : 0 ≤ v) (h1 : v ≤ MAX_INT) : G (.int v) := by
  refine G_of_prefix _ (fun rest _ => ⟨1, ?_⟩)
  simp only [printE, List.singleton_append]
  rw [parsePrefix]
  simp only [cur, adv]
  have hv : ((v.toNat : Nat) : Int) = v := Int.toNat_of_nonneg h0
  rw [parseIntLit_natToDec v.toNat (by omega), hv]

theorem G_float (x : UInt64) (h : FloatRT x) : G (.float x) := by
  refine G_of_prefix _ (fun rest _ => ⟨1, ?_⟩)
  simp only [printE, List.singleton_append]
  rw [parsePrefix]
  simp only [cur, adv]
  rw [h]

theorem G_bool (b : Bool) : G (.bool b) := by
  refine G_of_prefix _ (fun rest _ => ⟨1, ?_⟩)
  cases b <;> simp only [printE, List.singleton_append] <;> rw [parsePrefix] <;> rfl

theorem G_str (t : Text) : G (.str t) := by
  refine G_of_prefix _ (fun rest _ => ⟨1, ?_⟩)
  simp only [printE, List.singleton_append]
  rw [parsePrefix]
  simp only [cur, adv, C08.C08_unescape_escape]

theorem G_ident (n : Text) : G (.ident n) := by
  refine G_of_prefix _ (fun rest _ => ⟨1, ?_⟩)
  simp only [printE, List.singleton_append]
  rw [parsePrefix]
  rfl

/-! ### compound expressions (induction hypotheses as parameters) -/

theorem atomic_ctx (r : Expr) (hr : WE r) (ha : isAtomic r = true) (p : Nat) (hp : p ≤ 6) (rest : List Token) (hne : NoElse rest) : Ctx r p rest := by
  refine ⟨hne, ?_⟩
  cases hr <;> simp_all [isAtomic]

/-- an operand that is printed bare when atomic and parenthesised otherwise (prefix operators) -/
theorem operand_atomic (r : Expr) (hr : WE r) (gr : G r) (p : Nat) (hp : p ≤ 6) (rest : List Token) (hne : NoElse rest) (hs : Stops p rest) :
    ∃ f, parseExpr f p ((if isAtomic r then printE r else paren (printE r)) ++ rest) = .ok (r, rest) := by
  by_cases ha : isAtomic r = true
  · simp only [ha, ↓reduceIte]
    exact gr p rest (r, rest) (atomic_ctx r hr ha p hp rest hne) ⟨1, loop_stop hs⟩
  · simp only [ha, Bool.false_eq_true, ↓reduceIte]
    exact paren_ok r hr gr p rest (r, rest) ⟨1, loop_stop hs⟩

theorem G_pre (op : Op) (r : Expr) (hop : op = .not ∨ op = .sub) (hr : WE r) (gr : G r) : G (.pre op r) := by
  intro p rest R hctx ⟨f1, h1⟩
  have hs0 : Stops 0 rest := hctx.2
  rcases hop with rfl | rfl
  · obtain ⟨f2, h2⟩ := operand_atomic r hr gr 0 (by omega) rest hctx.1 hs0
    refine ⟨max f1 f2 + 2, expr_of_prefix (l := .pre .not r) (ts' := rest) ?_ (loop_le (by omega) h1)⟩
    simp only [printE, opToken, List.cons_append]
    rw [parsePrefix]
    simp only [cur, adv, Token.prec]
    rw [expr_le (Nat.le_max_right f1 f2) h2]
  · obtain ⟨f2, h2⟩ := operand_atomic r hr gr 5 (by omega) rest hctx.1 (stops_mono hs0 (by omega))
    refine ⟨max f1 f2 + 2, expr_of_prefix (l := .pre .sub r) (ts' := rest) ?_ (loop_le (by omega) h1)⟩
    simp only [printE, opToken, List.cons_append]
    rw [parsePrefix]
    simp only [cur, adv, Token.prec]
    rw [expr_le (Nat.le_max_right f1 f2) h2]

/-- argument lists / array elements -/
def GEs (es : Exprs) : Prop :=
  ∀ close rest, (close = .rparen ∨ close = .rbracket) →
    ∃ f, parseElems f close (printArgs es ++ close :: rest) = .ok (es, close :: rest)

theorem GEs_nil : GEs .nil := by
  intro close rest _
  refine ⟨1, ?_⟩
  simp only [printArgs, List.nil_append]
  rw [parseElems]
  simp [cur]

theorem GEs_cons (e : Expr) (es : Exprs) (he : WE e) (ge : G e) (ges : GEs es) : GEs (.cons e es) := by
  intro close rest hclose
  have hstop : Stops 0 (.comma :: (printArgs es ++ close :: rest)) := .inr (by simp [cur, Token.prec])
  obtain ⟨f1, h1⟩ := ge 0 (.comma :: (printArgs es ++ close :: rest)) (e, .comma :: (printArgs es ++ close :: rest))
    (ctx_top e he _ (by simp [NoElse, cur]) hstop) ⟨1, loop_stop hstop⟩
  obtain ⟨f2, h2⟩ := ges close rest hclose
  refine ⟨max f1 f2 + 1, ?_⟩
  have hts : printArgs (.cons e es) ++ close :: rest = printE e ++ (.comma :: (printArgs es ++ close :: rest)) := by
    simp [printArgs, List.append_assoc]
  rw [hts, parseElems]
  have hne : ¬ (cur (printE e ++ (.comma :: (printArgs es ++ close :: rest))) = close) := by
    intro hc
    have := cur_expr e he (.comma :: (printArgs es ++ close :: rest))
    rw [hc] at this
    rcases hclose with rfl | rfl <;> simp [exprStart] at this
  simp only [hne, ↓reduceIte]
  rw [expr_le (Nat.le_max_left f1 f2) h1]
  simp only [skipOpt, cur, adv, ↓reduceIte]
  rw [elems_le (Nat.le_max_right f1 f2) h2]

theorem G_arr (vs : Exprs) (gvs : GEs vs) : G (.arr vs) := by
  refine G_of_prefix _ (fun rest _ => ?_)
  obtain ⟨f, h⟩ := gvs .rbracket rest (.inr rfl)
  refine ⟨f + 1, ?_⟩
  have hts : printE (.arr vs) ++ rest = .lbracket :: (printArgs vs ++ .rbracket :: rest) := by simp [printE, List.append_assoc]
  rw [hts, parsePrefix]
  simp only [cur, adv]
  rw [h]
  simp [skipTok, cur, adv]

theorem G_call (fe : Expr) (as : Exprs) (hc : callable fe = true) (hf : WE fe) (gf : G fe) (gas : GEs as) : G (.call fe as) := by
  intro p rest R hctx ⟨f1, h1⟩
  have hp : p ≤ 6 := hctx.2
  obtain ⟨f2, h2⟩ := gas .rparen rest (.inl rfl)
  have hts : printE (.call fe as) ++ rest = printE fe ++ (.lparen :: (printArgs as ++ .rparen :: rest)) := by simp [printE, List.append_assoc]
  rw [hts]
  apply gf p _ R
  · refine ⟨by simp [NoElse, cur], ?_⟩
    cases fe <;> simp_all [callable]
  · refine ⟨max f1 f2 + 1, ?_⟩
    rw [parseLoop]
    have hsemi : ¬ (Token.lparen = Token.semi) := by decide
    have hcc : (!callable fe) = false := by simp [hc]
    simp only [cur, adv, hcc, hsemi, Token.binop, ↓reduceIte, Bool.false_eq_true]
    rw [elems_le (Nat.le_max_right f1 f2) h2]
    split
    · rename_i hcond
      have : Token.prec .lparen = 8 := rfl
      simp [this] at hcond; omega
    · exact loop_le (Nat.le_max_left f1 f2) h1

theorem G_index (l i : Expr) (hx : indexable l = true) (hl : WE l) (gl : G l) (hi : WE i) (gi : G i) : G (.index l i) := by
  intro p rest R hctx ⟨f1, h1⟩
  have hp : p ≤ 6 := hctx.2
  have hstop : Stops 0 (.rbracket :: rest) := .inr (by simp [cur, Token.prec])
  obtain ⟨f2, h2⟩ := gi 0 (.rbracket :: rest) (i, .rbracket :: rest) (ctx_top i hi _ (by simp [NoElse, cur]) hstop) ⟨1, loop_stop hstop⟩
  have hts : printE (.index l i) ++ rest = printE l ++ (.lbracket :: (printE i ++ .rbracket :: rest)) := by simp [printE, List.append_assoc]
  rw [hts]
  apply gl p _ R
  · refine ⟨by simp [NoElse, cur], ?_⟩
    cases l <;> simp_all [indexable]
  · refine ⟨max f1 f2 + 1, ?_⟩
    rw [parseLoop]
    have hsemi : ¬ (Token.lbracket = Token.semi) := by decide
    have hcc : (!indexable l) = false := by simp [hx]
    simp only [cur, adv, hcc, hsemi, Token.binop, ↓reduceIte, Bool.false_eq_true]
    rw [expr_le (Nat.le_max_right f1 f2) h2]
    simp only [skipTok, cur, adv, ↓reduceIte]
    split
    · rename_i hcond
      have : Token.prec .lbracket = 9 := rfl
      simp [this] at hcond; omega
    · exact loop_le (Nat.le_max_left f1 f2) h1

/-- a bare operand: its own level is above the caller's precedence -/
theorem ctx_bare (x : Expr) (hw : WE x) (p : Nat) (rest : List Token) (hne : NoElse rest) (hp : p < level x) (hp6 : p ≤ 6)
    (hs : Stops (level x) rest) : Ctx x p rest := by
  refine ⟨hne, ?_⟩
  cases hw with
  | bin l op r hop _ _ _ => exact ⟨by simpa [level] using hp, by simpa [level] using hs⟩
  | assign l r _ _ _ => simp [level, isAtomic] at hp
  | pre op r _ _ => simp [level, isAtomic] at hp
  | call f as _ _ _ => exact hp6
  | index l i _ _ _ => exact hp6
  | _ => trivial

theorem head_ne_assign (e : Expr) (hw : WE e) (rest : List Token) : cur (printE e ++ rest) ≠ .assign := by
  intro h
  have := cur_expr e hw rest
  rw [h] at this
  simp [exprStart] at this

theorem G_infix (l : Expr) (op : Op) (r : Expr) (hop : isBin op) (hfl : isFunc l = false) (hl : WE l) (gl : G l) (hr : WE r) (gr : G r) :
    G (.infix l op r) := by
  intro p rest R hctx ⟨f1, h1⟩
  obtain ⟨hne, hp, hstop⟩ := hctx
  obtain ⟨o1, o2, o3, o4, o5, o6⟩ := op_facts op hop
  -- the right operand, at the operator's own level
  have hright : ∃ f, parseExpr f (docLevel op) ((if level r ≤ docLevel op then paren (printE r) else printE r) ++ rest) = .ok (r, rest) := by
    by_cases hb : level r ≤ docLevel op
    · simp only [hb, ↓reduceIte]
      exact paren_ok r hr gr _ rest (r, rest) ⟨1, loop_stop hstop⟩
    · simp only [hb, ↓reduceIte]
      exact gr _ rest (r, rest) (ctx_bare r hr _ rest hne (by omega) o4 (stops_mono hstop (by omega))) ⟨1, loop_stop hstop⟩
  obtain ⟨f2, h2⟩ := hright
  have hra : cur ((if level r ≤ docLevel op then paren (printE r) else printE r) ++ rest) ≠ .assign := by
    by_cases hb : level r ≤ docLevel op
    · simp only [hb, ↓reduceIte]; exact paren_head_ne_assign _ rest
    · simp only [hb, ↓reduceIte]; exact head_ne_assign r hr rest
  -- one iteration of the loop at `l`
  have hloop : parseLoop (max f1 f2 + 1) p l (opToken op :: ((if level r ≤ docLevel op then paren (printE r) else printE r) ++ rest)) = .ok R := by
    rw [loop_step _ p l op hop _ hp (by simp [hfl]) hra, expr_le (Nat.le_max_right f1 f2) h2]
    exact loop_le (Nat.le_max_left f1 f2) h1
  have hts : printE (.infix l op r) ++ rest =
      (if level l < docLevel op then paren (printE l) else printE l) ++
        (opToken op :: ((if level r ≤ docLevel op then paren (printE r) else printE r) ++ rest)) := by
    simp [printE, List.append_assoc]
  rw [hts]
  by_cases hb : level l < docLevel op
  · simp only [hb, ↓reduceIte]
    exact paren_ok l hl gl p _ R ⟨_, hloop⟩
  · simp only [hb, ↓reduceIte]
    refine gl p _ R (ctx_bare l hl p _ (by simp only [NoElse, cur]; intro h; have := o2; rw [h] at this; cases this) (by omega) (by omega) ?_) ⟨_, hloop⟩
    exact .inr (by simp only [cur, o1]; omega)

def isAssign : Expr → Bool | .assign .. => true | _ => false

theorem print_assign (l r : Expr) :
    printE (.assign l r) = printE l ++ [.assign] ++ (if isAssign r then paren (printE r) else printE r) := by
  cases r <;> simp [printE, isAssign]

theorem G_assign (l r : Expr) (ha : assignable l = true) (hl : WE l) (gl : G l) (hr : WE r) (gr : G r) : G (.assign l r) := by
  intro p rest R hctx ⟨f1, h1⟩
  obtain ⟨hne, hp, hs0⟩ := hctx
  subst hp
  have hs1 : Stops 1 rest := stops_mono hs0 (by omega)
  have hright : ∃ f, parseExpr f 1 ((if isAssign r then paren (printE r) else printE r) ++ rest) = .ok (r, rest) := by
    by_cases hb : isAssign r = true
    · simp only [hb, ↓reduceIte]
      exact paren_ok r hr gr 1 rest (r, rest) ⟨1, loop_stop hs1⟩
    · simp only [hb, Bool.false_eq_true, ↓reduceIte]
      refine gr 1 rest (r, rest) ⟨hne, ?_⟩ ⟨1, loop_stop hs1⟩
      cases hr with
      | bin a op b hop _ _ _ =>
        have := (op_facts op hop).2.2.1
        exact ⟨by omega, stops_mono hs0 (Nat.zero_le _)⟩
      | assign a b _ _ _ => simp [isAssign] at hb
      | pre op b _ _ => exact hs0
      | call f as _ _ _ => show 1 ≤ 6; omega
      | index a i _ _ _ => show 1 ≤ 6; omega
      | _ => trivial
  obtain ⟨f2, h2⟩ := hright
  have hloop : parseLoop (max f1 f2 + 1) 0 l (.assign :: ((if isAssign r then paren (printE r) else printE r) ++ rest)) = .ok R := by
    rw [parseLoop]
    have hsemi : ¬ (Token.assign = Token.semi) := by decide
    have hcc : (!assignable l) = false := by simp [ha]
    simp only [cur, adv, hsemi, hcc, Token.binop, ↓reduceIte, Bool.false_eq_true]
    split
    · rename_i hcond
      have : Token.prec .assign = 1 := rfl
      simp [this] at hcond
    · rw [expr_le (Nat.le_max_right f1 f2) h2]
      exact loop_le (Nat.le_max_left f1 f2) h1
  have hts : printE (.assign l r) ++ rest = printE l ++ (.assign :: ((if isAssign r then paren (printE r) else printE r) ++ rest)) := by
    rw [print_assign]; simp [List.append_assoc]
  rw [hts]
  refine gl 0 _ R ⟨by simp [NoElse, cur], ?_⟩ ⟨_, hloop⟩
  cases hl <;> simp_all [assignable]

/-! ### statements and blocks -/

def GS (s : Stmt) : Prop := ∀ rest, ∃ f, parseStatement f (printS s ++ rest) = .ok (s, rest)

def GB (b : Block) : Prop :=
  ∀ inBlock rest, (cur rest = .eof ∨ (inBlock = true ∧ cur rest = .rbrace)) →
    ∃ f, parseStmts f inBlock (printStmts b ++ rest) = .ok (b, rest)

/-- an expression in a top position followed by `;` -/
theorem top_semi (e : Expr) (he : WE e) (ge : G e) (rest : List Token) :
    ∃ f, parseExpr f 0 (printE e ++ .semi :: rest) = .ok (e, .semi :: rest) :=
  ge 0 _ _ (ctx_top e he _ (by simp [NoElse, cur]) (.inl rfl)) ⟨1, loop_stop (.inl rfl)⟩

theorem GS_letS (n : Text) (e : Expr) (he : WE e) (ge : G e) : GS (.letS n e) := by
  intro rest
  obtain ⟨f, h⟩ := top_semi e he ge rest
  refine ⟨f + 1, ?_⟩
  have hts : printS (.letS n e) ++ rest = .kwDeclare :: .ident n :: .assign :: (printE e ++ .semi :: rest) := by simp [printS, List.append_assoc]
  rw [hts, parseStatement]
  simp only [cur, adv, skipTok, ↓reduceIte]
  rw [h]
  simp [skipOpt, cur, adv]

theorem GS_ret (e : Expr) (he : WE e) (ge : G e) : GS (.ret e) := by
  intro rest
  obtain ⟨f, h⟩ := top_semi e he ge rest
  refine ⟨f + 1, ?_⟩
  have hts : printS (.ret e) ++ rest = .kwReturn :: (printE e ++ .semi :: rest) := by simp [printS, List.append_assoc]
  rw [hts, parseStatement]
  simp only [cur, adv]
  rw [h]
  simp [skipOpt, cur, adv]

theorem GS_expr (e : Expr) (he : WE e) (ge : G e) : GS (.expr e) := by
  intro rest
  obtain ⟨f, h⟩ := top_semi e he ge rest
  refine ⟨f + 1, ?_⟩
  have hts : printS (.expr e) ++ rest = printE e ++ .semi :: rest := by simp [printS, List.append_assoc]
  have hc := cur_expr e he (.semi :: rest)
  rw [hts, parseStatement]
  split
  · rename_i hx; rw [hx] at hc; simp [exprStart] at hc
  · rename_i hx; rw [hx] at hc; simp [exprStart] at hc
  · rename_i hx; rw [hx] at hc; simp [exprStart] at hc
  · rename_i hx; rw [hx] at hc; simp [exprStart] at hc
  · rename_i hx; rw [hx] at hc; simp [exprStart] at hc
  · rw [h]; simp [skipOpt, cur, adv]

theorem GS_brk : GS .brk := by
  intro rest
  refine ⟨1, ?_⟩
  simp only [printS, List.cons_append, List.nil_append]
  rw [parseStatement]
  simp [cur, adv, skipOpt]

theorem GS_cont : GS .cont := by
  intro rest
  refine ⟨1, ?_⟩
  simp only [printS, List.cons_append, List.nil_append]
  rw [parseStatement]
  simp [cur, adv, skipOpt]

/-- a block in braces -/
theorem braces_ok (b : Block) (gb : GB b) (rest : List Token) : ∃ f, parseBlock f (braces (printStmts b) ++ rest) = .ok (b, rest) := by
  obtain ⟨f, h⟩ := gb true (.rbrace :: rest) (.inr ⟨rfl, rfl⟩)
  refine ⟨f + 1, ?_⟩
  have hts : braces (printStmts b) ++ rest = .lbrace :: (printStmts b ++ .rbrace :: rest) := by simp [braces, List.append_assoc]
  rw [hts, parseBlock]
  simp only [skipTok, cur, adv, ↓reduceIte]
  rw [h]
  simp

theorem GS_block (b : Block) (gb : GB b) : GS (.block b) := by
  intro rest
  obtain ⟨f, h⟩ := braces_ok b gb (.semi :: rest)
  refine ⟨f + 1, ?_⟩
  have hts : printS (.block b) ++ rest = braces (printStmts b) ++ .semi :: rest := by simp [printS, List.append_assoc]
  have hcur : cur (braces (printStmts b) ++ .semi :: rest) = .lbrace := by simp [braces, cur]
  rw [hts, parseStatement, hcur]
  simp only
  rw [h]
  simp [skipOpt, cur, adv]

theorem GB_nil : GB .nil := by
  intro inBlock rest h
  refine ⟨1, ?_⟩
  simp only [printStmts, List.nil_append]
  rw [parseStmts]
  rcases h with h | ⟨h1, h2⟩
  · simp [h]
  · simp [h1, h2]

/-- the first token of a printed statement neither ends the input nor closes a block -/
theorem cur_stmt (s : Stmt) (hs : WS s) (rest : List Token) : cur (printS s ++ rest) ≠ .eof ∧ cur (printS s ++ rest) ≠ .rbrace := by
  cases hs with
  | letS n e _ => simp [printS, cur]
  | ret e _ => simp [printS, cur]
  | expr e he =>
    have hc := cur_expr e he (.semi :: rest)
    have hts : printS (.expr e) ++ rest = printE e ++ .semi :: rest := by simp [printS, List.append_assoc]
    rw [hts]
    constructor <;> intro hx <;> rw [hx] at hc <;> simp [exprStart] at hc
  | block b _ => simp [printS, braces, cur]
  | brk => simp [printS, cur]
  | cont => simp [printS, cur]

theorem GB_cons (s : Stmt) (b : Block) (hs : WS s) (gs : GS s) (gb : GB b) : GB (.cons s b) := by
  intro inBlock rest h
  obtain ⟨f1, h1⟩ := gs (printStmts b ++ rest)
  obtain ⟨f2, h2⟩ := gb inBlock rest h
  refine ⟨max f1 f2 + 1, ?_⟩
  have hts : printStmts (.cons s b) ++ rest = printS s ++ (printStmts b ++ rest) := by simp [printStmts, List.append_assoc]
  obtain ⟨c1, c2⟩ := cur_stmt s hs (printStmts b ++ rest)
  rw [hts, parseStmts]
  have hcond : (decide (cur (printS s ++ (printStmts b ++ rest)) = Token.eof) || inBlock && decide (cur (printS s ++ (printStmts b ++ rest)) = Token.rbrace)) = false := by
    simp [c1, c2]
  simp only [hcond, Bool.false_eq_true, ↓reduceIte]
  rw [stmt_le (Nat.le_max_left f1 f2) h1]
  simp only
  rw [stmts_le (Nat.le_max_right f1 f2) h2]

/-! ### `als`, `zolang`, `functie` -/

theorem cur_cons (t : Token) (ts : List Token) : cur (t :: ts) = t := rfl
theorem adv_cons (t : Token) (ts : List Token) : adv (t :: ts) = ts := rfl

/-- a condition: an expression in a top position followed by `{` -/
theorem top_brace (e : Expr) (he : WE e) (ge : G e) (rest : List Token) :
    ∃ f, parseExpr f 0 (printE e ++ .lbrace :: rest) = .ok (e, .lbrace :: rest) :=
  ge 0 _ _ (ctx_top e he _ (by simp [NoElse, cur]) (.inr (by simp [cur, Token.prec]))) ⟨1, loop_stop (.inr (by simp [cur, Token.prec]))⟩

theorem G_while (c : Expr) (b : Block) (hc : WE c) (gc : G c) (gb : GB b) : G (.whileE c b) := by
  refine G_of_prefix _ (fun rest _ => ?_)
  have hb : braces (printStmts b) ++ rest = .lbrace :: (printStmts b ++ .rbrace :: rest) := by simp [braces, List.append_assoc]
  obtain ⟨f1, h1⟩ := top_brace c hc gc (printStmts b ++ .rbrace :: rest)
  obtain ⟨f2, h2⟩ := braces_ok b gb rest
  rw [hb] at h2
  refine ⟨max f1 f2 + 1, ?_⟩
  have hts : printE (.whileE c b) ++ rest = .kwWhile :: (printE c ++ .lbrace :: (printStmts b ++ .rbrace :: rest)) := by
    simp [printE, braces, List.append_assoc]
  rw [hts, parsePrefix]
  simp only [cur, adv]
  rw [expr_le (Nat.le_max_left f1 f2) h1]
  simp only
  rw [block_le (Nat.le_max_right f1 f2) h2]

theorem G_if_none (c : Expr) (t : Block) (hc : WE c) (gc : G c) (gt : GB t) : G (.ifE c t .none) := by
  refine G_of_prefix _ (fun rest hne => ?_)
  have hb : braces (printStmts t) ++ rest = .lbrace :: (printStmts t ++ .rbrace :: rest) := by simp [braces, List.append_assoc]
  obtain ⟨f1, h1⟩ := top_brace c hc gc (printStmts t ++ .rbrace :: rest)
  obtain ⟨f2, h2⟩ := braces_ok t gt rest
  rw [hb] at h2
  refine ⟨max f1 f2 + 1, ?_⟩
  have hts : printE (.ifE c t .none) ++ rest = .kwIf :: (printE c ++ .lbrace :: (printStmts t ++ .rbrace :: rest)) := by
    simp [printE, printO, braces, List.append_assoc]
  rw [hts, parsePrefix]
  simp only [cur_cons, adv_cons]
  rw [expr_le (Nat.le_max_left f1 f2) h1]
  simp only
  rw [block_le (Nat.le_max_right f1 f2) h2]
  have : ¬ (cur rest = Token.kwElse) := hne
  simp only [this, ↓reduceIte]

theorem G_if_some (c : Expr) (t e : Block) (hc : WE c) (gc : G c) (gt : GB t) (ge : GB e) : G (.ifE c t (.some e)) := by
  refine G_of_prefix _ (fun rest _ => ?_)
  have hbt : ∀ X, braces (printStmts t) ++ X = .lbrace :: (printStmts t ++ .rbrace :: X) := by intro X; simp [braces, List.append_assoc]
  have hbe : braces (printStmts e) ++ rest = .lbrace :: (printStmts e ++ .rbrace :: rest) := by simp [braces, List.append_assoc]
  obtain ⟨f1, h1⟩ := top_brace c hc gc (printStmts t ++ .rbrace :: (.kwElse :: .lbrace :: (printStmts e ++ .rbrace :: rest)))
  obtain ⟨f2, h2⟩ := braces_ok t gt (.kwElse :: .lbrace :: (printStmts e ++ .rbrace :: rest))
  obtain ⟨f3, h3⟩ := braces_ok e ge rest
  rw [hbt] at h2
  rw [hbe] at h3
  refine ⟨max f1 (max f2 f3) + 1, ?_⟩
  have hts : printE (.ifE c t (.some e)) ++ rest =
      .kwIf :: (printE c ++ .lbrace :: (printStmts t ++ .rbrace :: (.kwElse :: .lbrace :: (printStmts e ++ .rbrace :: rest)))) := by
    simp [printE, printO, braces, List.append_assoc]
  rw [hts, parsePrefix]
  simp only [cur, adv]
  rw [expr_le (Nat.le_max_left _ _) h1]
  simp only
  rw [block_le (Nat.le_trans (Nat.le_max_left f2 f3) (Nat.le_max_right f1 _)) h2]
  have h0 : ¬ (Token.lbrace = Token.kwIf) := by decide
  simp only [cur, adv, ↓reduceIte, h0]
  rw [block_le (Nat.le_trans (Nat.le_max_right f2 f3) (Nat.le_max_right f1 _)) h3]

theorem params_ok : ∀ (ps : List Text) (X : List Token) (f : Nat), ps.length < f →
    parseParams f (printParams ps ++ .rparen :: X) = .ok (ps, .rparen :: X)
  | [], X, f, h => by
    obtain ⟨g, rfl⟩ : ∃ g, f = g + 1 := ⟨f - 1, by omega⟩
    simp [printParams, parseParams, cur]
  | q :: ps, X, f, h => by
    obtain ⟨g, rfl⟩ : ∃ g, f = g + 1 := ⟨f - 1, by omega⟩
    simp only [printParams, List.cons_append]
    rw [parseParams]
    simp only [cur, adv, skipOpt, ↓reduceIte]
    rw [params_ok ps X g (by simp at h; omega)]

theorem printParams_len (ps : List Text) : (printParams ps).length = 2 * ps.length := by
  induction ps with
  | nil => rfl
  | cons q ps ih => simp [printParams, ih]; omega

theorem G_func (name : Text) (ps : List Text) (body : Block) (gb : GB body) : G (.func name ps body) := by
  refine G_of_prefix _ (fun rest _ => ?_)
  have hb : braces (printStmts body) ++ rest = .lbrace :: (printStmts body ++ .rbrace :: rest) := by simp [braces, List.append_assoc]
  obtain ⟨f2, h2⟩ := braces_ok body gb rest
  rw [hb] at h2
  refine ⟨f2 + 1, ?_⟩
  have hpar := params_ok ps (.lbrace :: (printStmts body ++ .rbrace :: rest))
      ((printParams ps ++ .rparen :: .lbrace :: (printStmts body ++ .rbrace :: rest)).length + 1)
      (by simp [printParams_len]; omega)
  by_cases hn : name.isEmpty = true
  · have hname : name = [] := by simpa using hn
    have hts : printE (.func name ps body) ++ rest =
        .kwFunc :: .lparen :: (printParams ps ++ .rparen :: .lbrace :: (printStmts body ++ .rbrace :: rest)) := by
      simp [printE, hn, braces, List.append_assoc]
    rw [hts, parsePrefix]
    simp only [cur, adv, skipTok, ↓reduceIte]
    rw [hpar]
    simp only [cur, adv, ↓reduceIte]
    rw [h2, hname]
  · have hts : printE (.func name ps body) ++ rest =
        .kwFunc :: .ident name :: .lparen :: (printParams ps ++ .rparen :: .lbrace :: (printStmts body ++ .rbrace :: rest)) := by
      simp [printE, hn, braces, List.append_assoc]
    rw [hts, parsePrefix]
    simp only [cur, adv, skipTok, ↓reduceIte]
    rw [hpar]
    simp only [cur, adv, ↓reduceIte]
    rw [h2]

/-! ### the whole grammar -/

mutual
theorem gE : (e : Expr) → WE e → G e
  | .int v, .int _ h0 h1 => G_int v h0 h1
  | .float x, .float _ h => G_float x h
  | .bool b, _ => G_bool b
  | .str t, _ => G_str t
  | .ident n, _ => G_ident n
  | .pre op r, .pre _ _ hop hr => G_pre op r hop hr (gE r hr)
  | .infix l op r, .bin _ _ _ hop hfl hl hr => G_infix l op r hop hfl hl (gE l hl) hr (gE r hr)
  | .assign l r, .assign _ _ ha hl hr => G_assign l r ha hl (gE l hl) hr (gE r hr)
  | .ifE c t .none, .ifE _ _ _ hc ht _ => G_if_none c t hc (gE c hc) (gB t ht)
  | .ifE c t (.some e), .ifE _ _ _ hc ht (.some _ he) => G_if_some c t e hc (gE c hc) (gB t ht) (gB e he)
  | .whileE c b, .whileE _ _ hc hb => G_while c b hc (gE c hc) (gB b hb)
  | .func name ps body, .func _ _ _ hb => G_func name ps body (gB body hb)
  | .call f as, .call _ _ hc hf has => G_call f as hc hf (gE f hf) (gEs as has)
  | .arr vs, .arr _ hvs => G_arr vs (gEs vs hvs)
  | .index l i, .index _ _ hx hl hi => G_index l i hx hl (gE l hl) hi (gE i hi)
theorem gEs : (es : Exprs) → WEs es → GEs es
  | .nil, _ => GEs_nil
  | .cons e es, .cons _ _ he hes => GEs_cons e es he (gE e he) (gEs es hes)
theorem gS : (s : Stmt) → WS s → GS s
  | .letS n e, .letS _ _ he => GS_letS n e he (gE e he)
  | .ret e, .ret _ he => GS_ret e he (gE e he)
  | .expr e, .expr _ he => GS_expr e he (gE e he)
  | .block b, .block _ hb => GS_block b (gB b hb)
  | .brk, _ => GS_brk
  | .cont, _ => GS_cont
theorem gB : (b : Block) → WB b → GB b
  | .nil, _ => GB_nil
  | .cons s b, .cons _ _ hs hb => GB_cons s b hs (gS s hs) (gB b hb)
end

/-- ROUND TRIP, WHOLE GRAMMAR, with the fuel `parse` itself supplies: the printed form of every
    well-formed program parses back to exactly that program -/
theorem print_parse_program (b : Block) (hb : WB b) : parseTokens (printProgram b) = .ok b := by
  obtain ⟨f, h⟩ := gB b hb false [] (.inl rfl)
  simp only [List.append_nil] at h
  unfold parseTokens printProgram
  have hgood := (PF.all (parseFuel (printStmts b))).stmts false (printStmts b) (by unfold parseFuel; omega)
  have key : parseStmts (parseFuel (printStmts b)) false (printStmts b) = .ok (b, []) := by
    by_cases hle : f ≤ parseFuel (printStmts b)
    · exact stmts_le hle h
    · have hne : parseStmts (parseFuel (printStmts b)) false (printStmts b) ≠ .error .fuel := by
        intro he; rw [he] at hgood; exact hgood rfl
      have := PSt.stmts_stable_le (Nat.le_of_lt (Nat.lt_of_not_le hle)) false (printStmts b) _ rfl hne
      rw [h] at this
      exact this.symm
  rw [key]

end RTF
end Nl
