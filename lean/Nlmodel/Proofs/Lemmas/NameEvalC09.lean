/- C09 stated purely on the name side (no resolver, no binder ids): the clauses of the property as theorems about the
   scope stack of `NameEval` and about the static rule `declared`; and a worked example (shadowing in nested blocks and a
   loop) on which both evaluators are computed and the correspondence theorem is instantiated. -/
import Nlmodel.Proofs.Lemmas.NameEvalSim2
import Nlmodel.Proofs.Lemmas.NameEvalStatic
namespace Nl
namespace NameEval
open Spec

/-! ### the environment: innermost visible declaration -/

/-- inside a block the outer names stay visible (a fresh scope hides nothing) -/
theorem lookup_push (ρ : NState) (m : Text) : lookup ρ.push.scopes m = lookup ρ.scopes m := by
  simp [NState.push, lookup, lookupScope]

/-- a declaration shadows: right after `stel x` the name `x` means the new binding, whatever was declared outside or
    earlier in the same block -/
theorem lookup_declare_same (ρ : NState) (x : Text) : lookup (ρ.declare x).scopes x = some none := by
  unfold NState.declare
  cases ρ.scopes <;> simp [lookup, lookupScope]

/-- ... and it disturbs no other name -/
theorem lookup_declare_other (ρ : NState) (x m : Text) (h : x ≠ m) : lookup (ρ.declare x).scopes m = lookup ρ.scopes m := by
  unfold NState.declare
  cases ρ.scopes <;> simp [lookup, lookupScope, h]

theorem updateScope_lookup_same (sc sc' : Scope) (n : Text) (v : SVal) (h : updateScope sc n v = some sc') :
    lookupScope sc' n = some (some v) := by
  induction sc generalizing sc' with
  | nil => simp [updateScope] at h
  | cons p rest ih =>
    obtain ⟨m, w⟩ := p
    simp only [updateScope] at h
    by_cases hm : m = n
    · simp only [hm, ↓reduceIte, Option.some.injEq] at h; subst h; simp [lookupScope]
    · simp only [hm, ↓reduceIte] at h
      cases hu : updateScope rest n v with
      | none => simp [hu] at h
      | some r' => simp only [hu, Option.some.injEq] at h; subst h; simp [lookupScope, hm, ih r' hu]

theorem updateScope_lookup_other (sc sc' : Scope) (n m : Text) (v : SVal) (h : updateScope sc n v = some sc') (hnm : m ≠ n) :
    lookupScope sc' m = lookupScope sc m := by
  induction sc generalizing sc' with
  | nil => simp [updateScope] at h
  | cons p rest ih =>
    obtain ⟨k, w⟩ := p
    simp only [updateScope] at h
    by_cases hk : k = n
    · have hkm : k ≠ m := fun hh => hnm (hh.symm.trans hk)
      simp only [hk, ↓reduceIte, Option.some.injEq] at h; subst h
      subst hk
      simp [lookupScope, hkm]
    · simp only [hk, ↓reduceIte] at h
      cases hu : updateScope rest n v with
      | none => simp [hu] at h
      | some r' =>
        simp only [hu, Option.some.injEq] at h; subst h
        simp only [lookupScope, ih r' hu]

theorem updateScope_none_lookup (sc : Scope) (n : Text) (v : SVal) (h : updateScope sc n v = none) : lookupScope sc n = none := by
  induction sc with
  | nil => rfl
  | cons p rest ih =>
    obtain ⟨m, w⟩ := p
    simp only [updateScope] at h
    by_cases hm : m = n
    · simp [hm] at h
    · simp only [hm, ↓reduceIte] at h
      cases hu : updateScope rest n v with
      | none => simp [lookupScope, hm, ih hu]
      | some r' => simp [hu] at h

/-- assignment through a name: afterwards the name has the assigned value ... -/
theorem update_lookup_same (ρs ρs' : List Scope) (n : Text) (v : SVal) (h : update ρs n v = some ρs') :
    lookup ρs' n = some (some v) := by
  induction ρs generalizing ρs' with
  | nil => simp [update] at h
  | cons sc rest ih =>
    simp only [update] at h
    cases hu : updateScope sc n v with
    | some sc' =>
      simp only [hu, Option.some.injEq] at h; subst h
      simp [lookup, updateScope_lookup_same sc sc' n v hu]
    | none =>
      simp only [hu] at h
      cases hr : update rest n v with
      | none => simp [hr] at h
      | some r' =>
        simp only [hr, Option.some.injEq] at h; subst h
        simp [lookup, updateScope_none_lookup sc n v hu, ih r' hr]

/-- ... and every OTHER name means what it meant -/
theorem update_lookup_other (ρs ρs' : List Scope) (n m : Text) (v : SVal) (h : update ρs n v = some ρs') (hnm : m ≠ n) :
    lookup ρs' m = lookup ρs m := by
  induction ρs generalizing ρs' with
  | nil => simp [update] at h
  | cons sc rest ih =>
    simp only [update] at h
    cases hu : updateScope sc n v with
    | some sc' =>
      simp only [hu, Option.some.injEq] at h; subst h
      simp only [lookup, updateScope_lookup_other sc sc' n m v hu hnm]
    | none =>
      simp only [hu] at h
      cases hr : update rest n v with
      | none => simp [hr] at h
      | some r' =>
        simp only [hr, Option.some.injEq] at h; subst h
        simp only [lookup, ih r' hr]

/-- C09 "an inner block may declare the same name without disturbing the outer variable": while `x` is shadowed by a
    declaration of the innermost scope, assigning through `x` changes that inner binding only; ALL enclosing scopes (in
    particular an outer `x` and its value) are literally unchanged -/
theorem assign_shadowed_leaves_outer (sc : Scope) (outer : List Scope) (x : Text) (w : Option SVal) (v : SVal) :
    update (((x, w) :: sc) :: outer) x v = some (((x, some v) :: sc) :: outer) := by
  simp [update, updateScope]

/-- C09 "a variable ceases to exist at the end of its block" + "the outer variable is what it was": a block that declares
    `x` (shadowing or not), gives it a value and ends leaves exactly the scopes it found -/
theorem block_end_restores (ρ : NState) (x : Text) (v : SVal) :
    ((ρ.push.declare x).assign x v).map (fun ρ' => ρ'.pop) = some ρ := by
  simp [NState.push, NState.declare, NState.assign, NState.pop, update, updateScope]

/-- C09 "a later declaration of the same name in the same block takes over for the code that follows it" -/
theorem later_stel_takes_over (sc : Scope) (outer : List Scope) (x : Text) (v w : SVal) :
    ∃ ρs1 ρs2, update (NState.declare { scopes := sc :: outer } x).scopes x v = some ρs1 ∧
      update (NState.declare { scopes := ρs1 } x).scopes x w = some ρs2 ∧ lookup ρs2 x = some (some w) := by
  simp [NState.declare, update, updateScope, lookup, lookupScope]

/-! ### the static rule -/

/-- C09 "a variable ceases to exist at the end of its block": a use of `x` after the block that declared it is NOT declared
    (unless an enclosing scope declares `x` too), so by `resolve_ok_iff_declared` the program is rejected with a reference
    error before it produces any output -/
theorem use_after_block_undeclared (sc : List (List Text)) (x : Text) (e : Expr) (b rest : Block) (h : visible sc x = false) :
    declared sc (.cons (.block (.cons (.letS x e) b)) (.cons (.expr (.ident x)) rest)) = false := by
  simp [declared, declSs, declS, declE, scopeAfter, h]

/-- the later `stel` is in scope for the code that follows it, the use before it is not -/
theorem use_before_stel_undeclared (sc : List (List Text)) (x : Text) (e : Expr) (rest : Block) (h : visible sc x = false) :
    declared sc (.cons (.expr (.ident x)) (.cons (.letS x e) rest)) = false := by
  simp [declared, declSs, declS, declE, h]

theorem use_after_stel_declared (s : List Text) (sc : List (List Text)) (x : Text) (e : Expr) (he : declE ((x :: s) :: sc) e = true) :
    declared (s :: sc) (.cons (.letS x e) (.cons (.expr (.ident x)) .nil)) = true := by
  simp [declared, declSs, declS, declE, scopeAfter, addName, visible, he]

/-- inside a nested block the outer declaration is visible -/
theorem inner_sees_outer (s : List Text) (sc : List (List Text)) (x : Text) (e : Expr) (he : declE ((x :: s) :: sc) e = true) :
    declared (s :: sc) (.cons (.letS x e) (.cons (.block (.cons (.expr (.ident x)) .nil)) .nil)) = true := by
  simp [declared, declSs, declS, declE, scopeAfter, addName, visible, he]

/-! ### TEST (non-vacuity): shadowing in nested blocks and a loop

    stel x = 1
    stel i = 0
    zolang i < 3 { stel x = i * 10;  i = i + 1;  { stel x = 100; x = x + 1 };  x }
    x + i                                  -- the outer x is still 1: the result is 4
-/

def tx : Text := ['x']
def ti : Text := ['i']

def demoBody : Block :=
  .cons (.letS tx (.infix (.ident ti) .mul (.int 10)))
  (.cons (.expr (.assign (.ident ti) (.infix (.ident ti) .add (.int 1))))
  (.cons (.block (.cons (.letS tx (.int 100)) (.cons (.expr (.assign (.ident tx) (.infix (.ident tx) .add (.int 1)))) .nil)))
  (.cons (.expr (.ident tx)) .nil)))

def demo : Block :=
  .cons (.letS tx (.int 1))
  (.cons (.letS ti (.int 0))
  (.cons (.expr (.whileE (.infix (.ident ti) .lt (.int 3)) demoBody))
  (.cons (.expr (.infix (.ident tx) .add (.ident ti))) .nil)))

/-- the observable part of an integer outcome -/
def obsInt : Spec.Outcome → Option (Int × List Text)
  | .value (.int i) out => some (i, out)
  | _ => none

theorem demo_fragment : Sim.SB false demo := by
  unfold demo demoBody
  repeat (first | constructor | rfl)

/-- TEST: the static rule accepts the program -/
example : declared [[]] demo = true := by decide

/-- TEST: the name-based evaluator on the source tree computes 1 + 3 = 4 (the loop's `x`s never touch the outer `x`).
    (`decide +kernel` = kernel evaluation of the Decidable instance; the elaborator-side `decide` runs out of memory here) -/
theorem demo_name_value : obsInt (NameEval.evalProgram 40 demo) = some (4, []) := by decide +kernel

/-- TEST: the value of the loop itself is the value of the last body evaluation: the body's `x` = 20 -/
example : obsInt (NameEval.evalProgram 40
    (.cons (.letS tx (.int 1)) (.cons (.letS ti (.int 0))
      (.cons (.expr (.whileE (.infix (.ident ti) .lt (.int 3)) demoBody)) .nil)))) = some (20, []) := by decide +kernel

/-- TEST: the definitional evaluator on the resolver's output computes the same -/
theorem demo_spec_value : (match resolveProgram demo with
    | .ok r => obsInt (Spec.evalProgram 40 r)
    | .error _ => none) = some (4, []) := by decide +kernel

/-- TEST: too little fuel is `.fuel` on both sides -/
example : (match NameEval.evalProgram 5 demo with | .fuel => true | _ => false) = true := by decide +kernel

/-- TEST: a use after the block is rejected -/
example : declared [[]] (.cons (.block (.cons (.letS tx (.int 1)) .nil)) (.cons (.expr (.ident tx)) .nil)) = false := by decide

/-- the correspondence theorem instantiated on the example: for EVERY fuel the two evaluators agree -/
theorem demo_agree : ∃ r, resolveProgram demo = .ok r ∧ ∀ F, NameEval.evalProgram F demo = Spec.evalProgram F r := by
  obtain ⟨r, hr⟩ := (resolve_ok_iff_declared demo demo_fragment).1 (by decide)
  exact ⟨r, hr, fun F => nameEval_eq_spec demo demo_fragment r hr F⟩

end NameEval
end Nl
