/-
  UTF-8 refinement: the target theorems (U1)-(U7) in one place, for all `cs rs : List Char` and
  all indices.  The byte-level model is Model/Utf8.lean; the proofs are in
  Utf8Enc / Utf8Scan / Utf8Decode / Utf8Order / Utf8Index; Utf8Test is the executable self-check.
-/
import Nlmodel.Proofs.Lemmas.Utf8Index
namespace Nl
namespace Utf8

/-- (U1) `chars().count()` on the bytes = number of code points -/
theorem U1 (cs : List Char) : countChars (encode cs) = cs.length :=
  countChars_encode cs

/-- (U2) `char_indices().nth(i)` + `len_utf8` finds exactly the byte span of `cs[i]` -/
theorem U2 (cs : List Char) (i off w : Nat) :
    nthSpan (encode cs) i = some (off, w) ↔
      ∃ h : i < cs.length, off = (encode (cs.take i)).length ∧ w = (encodeChar cs[i]).length :=
  nthSpan_encode_iff cs i off w

/-- (U2) ... and decoding there gives `cs[i]` -/
theorem U2_decode (cs : List Char) (i off w : Nat) (hs : nthSpan (encode cs) i = some (off, w)) :
    ∃ h : i < cs.length, decodeAt (encode cs) off = some cs[i] := by
  obtain ⟨h, _, _, hd⟩ := nthSpan_decodeAt cs i off w hs
  exact ⟨h, hd⟩

/-- (U3) the byte-level index assignment IS the character-level one -/
theorem U3 (cs rs : List Char) (i off w : Nat) (hs : nthSpan (encode cs) i = some (off, w)) :
    byteReplace (encode cs) off w (encode rs) = encode (cs.take i ++ rs ++ cs.drop (i + 1)) :=
  byteReplace_nthSpan cs rs i off w hs

/-- (U4) read -/
theorem U4_get (cs : List Char) (idx : Int) :
    byteIndexGet (encode cs) idx =
      match normIndex cs.length idx with
      | some k => .ok (encode [cs.getD k ' '])
      | none => .error .index :=
  byteIndexGet_encode cs idx

/-- (U4) write -/
theorem U4_set (cs rs : List Char) (idx : Int) :
    byteIndexSet (encode cs) idx (encode rs) =
      match normIndex cs.length idx with
      | some k => .ok (encode (cs.take k ++ rs ++ cs.drop (k + 1)))
      | none => .error .index :=
  byteIndexSet_encode cs rs idx

/-- (U5) -/
theorem U5 (a b : List Char) : encode a = encode b → a = b :=
  encode_injective a b

/-- (U6) -/
theorem U6 (a b : List Char) : byteLt (encode a) (encode b) = textLt a b :=
  byteLt_encode a b

/-- (U7) -/
theorem U7 (cs : List Char) : decode (encode cs) = some cs :=
  decode_encode cs

end Utf8
end Nl

#print axioms Nl.Utf8.U1
#print axioms Nl.Utf8.U2
#print axioms Nl.Utf8.U2_decode
#print axioms Nl.Utf8.U3
#print axioms Nl.Utf8.U4_get
#print axioms Nl.Utf8.U4_set
#print axioms Nl.Utf8.U5
#print axioms Nl.Utf8.U6
#print axioms Nl.Utf8.U7
#print axioms Nl.Utf8.byteIndexSetV_encode
#print axioms Nl.Utf8.indexGet_str_bytes
#print axioms Nl.Utf8.indexSet_str_bytes
#print axioms Nl.Utf8.sIndexGet_str_bytes
#print axioms Nl.Utf8.sIndexSet_str_bytes
#print axioms Nl.Utf8.byteEq_encode
#print axioms Nl.Utf8.binopCore_str_bytes
#print axioms Nl.Utf8.length_bytes
#print axioms Nl.Utf8.isCont_eq
#print axioms Nl.Utf8.encodeChar_eq_core
#print axioms Nl.Utf8.encodeChar_shape
#print axioms Nl.Utf8.asUsize_ge_iff
