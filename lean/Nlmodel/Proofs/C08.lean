/-
  C08 — tokenisation and literals are faithful to the text.
-/
import Nlmodel.Model.Printer
namespace Nl
namespace C08

/-- a string literal denotes precisely the characters written: decoding the escaped spelling of
    ANY text gives that text back -/
theorem C08_unescape_escape (s : Text) : unescape (escape s) = s := by
  induction s with
  | nil => rfl
  | cons c r ih =>
    by_cases h1 : c = '"'
    · subst h1; simp [escape, unescape, ih]
    · by_cases h2 : c = '\\'
      · subst h2; simp [escape, unescape, ih]
      · by_cases h3 : c = '\n'
        · subst h3; simp [escape, unescape, ih]
        · by_cases h4 : c = '\t'
          · subst h4; simp [escape, unescape, ih]
          · have he : escape (c :: r) = c :: escape r := by
              rw [escape.eq_def]
              split <;> simp_all
            rw [he]
            have hu : unescape (c :: escape r) = c :: unescape (escape r) := by
              rw [unescape.eq_def]
              split <;> simp_all
            rw [hu, ih]

end C08
end Nl
