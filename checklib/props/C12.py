"""C12 — calls bind arguments, isolate activations and resume the caller intact."""
import itertools

from .. import core, diff, gen
from ..core import hx
from .common_diff import run_cases, generic_replay

PROOF_MODULE = "Nlmodel.Proofs.C12"
PROOF_FILES = ["Nlmodel/Proofs/C12.lean", "Nlmodel/Model/VM.lean", "Nlmodel/Spec/Eval.lean"]
THEOREM_FILE = PROOF_FILES[0]
LEVEL_TEXT = ("Lean theorems on the machine model's flat stack with vm.rs's base-pointer arithmetic: Call places the new base pointer at the first argument (parameter i is argument i), null-initialises every other local slot (fresh activation), saves the caller's return address and base pointer, and touches nothing else; too many arguments / the 16-bit stack limit / a non-function callee are errors raised before anything is pushed; Return(Value) discards exactly the callee's part of the stack, pushes the result on the caller's part, which is unchanged below the callee's base pointer, and resumes the caller's frame. Definitional level: arguments are bound by position (missing ones null), the body runs in an activation containing the parameters only, and the caller's activation is put back exactly; antwoord from any depth ends the call. WHOLE CALLS (C12_call_simulation, instance of the forward simulation of C01 stage 4): in any frame `below ++ locals ++ operands` with any suspended callers, a call expression of the scalar/function fragment whose definitional evaluation gives v brings the machine to the instruction after the Call with `below` untouched, the caller's locals as the restored activation has them, exactly v pushed, and the same suspended callers - through recursion, nested calls, early antwoord and loops in the callee; the only other outcomes are the matching error or the machine's stack/frame limit. Tied to vm.rs/compiler.rs by real eval vs definitional evaluator vs machine model (step counts, stack height at Halt, collections) on programs with up to 6 functions of 0-4 parameters and 0-4 locals calling each other from every expression context, recursion to depth 200, and directed runs to the stack limit, and a frame-shape x boundary-depth matrix around the 65535-slot limit (value right below it, stack-overflow error at the same depth as the machine model above it).")
LEVEL_NOTE = ("Trusted: Lean kernel; whole calls are simulated for the scalar/function fragment (C12_call_simulation) AND for callees and arguments with heap values through every collection (C12_call_simulation_with_heap_values: below untouched, caller's locals and pending operands related after the call to what they were related to before); that NO callee of ANY accepted program pops below its own base pointer is the operand-height invariant of C02, now a theorem for every program the compiler model accepts (C02_compiler_verifiable); nested function literals are stage 7 of the C01 simulation.")
TECHNIQUE = "Lean 4 proof (call/return frame lemmas; whole-call forward simulation on the flat stack; activation isolation in the definitional semantics) + differential call-heavy programs and stack-limit matrix"
RULE = ("generated programs with up to 6 functions (0-4 parameters, 0-4 locals) calling each other directly, mutually and recursively (depth "
        "<= 200), from operands, array literals, argument lists, conditions, with functions stored in variables/arrays, passed and returned; "
        "directed runs to the frame and stack limits; non-trivial = distinct program compared on all three sides")


def call_program(rng):
    nf = rng.range(1, 6)
    lines = ["stel g0 = %d; stel g1 = %d;" % (rng.below(9), rng.below(9))]
    fns = []
    for k in range(nf):
        np_ = rng.below(5)
        nl = rng.below(5)
        ps = ["p%d" % i for i in range(np_)]
        body = []
        vis = list(ps) + ["g0", "g1"]
        for j in range(nl):
            body.append("  stel l%d = %s;" % (j, expr(rng, vis, fns, 2)))
            vis.append("l%d" % j)
        if rng.chance(1, 3) and vis:
            body.append("  als %s < %d { antwoord %s; };" % (rng.pick(vis), rng.below(20), expr(rng, vis, fns, 1)))
        if rng.chance(1, 4):
            body.append("  g%d = g%d + 1;" % (rng.below(2), rng.below(2)))
        body.append("  " + expr(rng, vis, fns, 2))
        lines.append("functie f%d(%s) {\n%s\n};" % (k, ", ".join(ps), "\n".join(body)))
        fns.append(("f%d" % k, np_))
    # recursion: direct and mutual
    if rng.chance(1, 2):
        lines.append("functie rec(n, acc) { als n < 1 { antwoord acc; }; stel keep = n * 2; stel r = rec(n - 1, acc + n); r + keep - keep };")
        fns.append(("rec", 2))
    if rng.chance(1, 3):
        lines.append("functie even(n) { als n == 0 { antwoord ja; }; odd(n - 1) }; functie odd(n) { als n == 0 { antwoord nee; }; even(n - 1) };")
        # odd is referenced before its definition inside even: only legal because both are globals defined before the first call
        lines[-1] = "stel odd = 0; functie even(n) { als n == 0 { antwoord ja; }; odd(n - 1) }; odd = functie(n) { als n == 0 { antwoord nee; }; even(n - 1) };"
        fns.append(("even", 1))
    vis = ["g0", "g1"]
    for _ in range(rng.range(2, 6)):
        c = rng.below(6)
        if c == 0:
            lines.append("stel v%d = %s;" % (len(vis), expr(rng, vis, fns, 3)))
            vis.append("v%d" % len(vis))
        elif c == 1:
            lines.append("print(%s);" % ", ".join(['"{} {}"', expr(rng, vis, fns, 2), expr(rng, vis, fns, 2)]))
        elif c == 2 and fns:
            f, n = rng.pick(fns)
            lines.append("stel h = %s; [h(%s), %s];" % (f, ", ".join(expr(rng, vis, fns, 1) for _ in range(n)), expr(rng, vis, fns, 2)))
        elif c == 3 and fns:
            f, n = rng.pick(fns)
            lines.append("functie apply(fn%s) { fn(%s) }; apply(%s);" % ("".join(", a%d" % i for i in range(n)), ", ".join("a%d" % i for i in range(n)),
                                                                      ", ".join([f] + [expr(rng, vis, fns, 1) for _ in range(n)])))
        else:
            lines.append(expr(rng, vis, fns, 3) + ";")
    lines.append("[g0, g1, %s]" % expr(rng, vis, fns, 3))
    return "\n".join(lines)


def expr(rng, vis, fns, d):
    c = rng.below(10)
    if d == 0 or c < 2:
        return rng.pick(vis) if vis and rng.chance(2, 3) else str(rng.below(20))
    if c < 5 and fns:
        f, n = rng.pick(fns)
        if f == "rec":
            return "rec(%d, %s)" % (rng.pick([0, 1, 2, 5, 30, 200]), expr(rng, vis, fns, d - 1))
        if f == "even":
            return "als even(%d) { 1 } anders { 0 }" % rng.pick([0, 1, 7, 50, 199])
        return "%s(%s)" % (f, ", ".join(expr(rng, vis, fns, d - 1) for _ in range(n)))
    if c == 5:
        return "[%s][%d]" % (", ".join(expr(rng, vis, fns, d - 1) for _ in range(2)), rng.below(2))
    if c == 6:
        return "(%s %s %s)" % (expr(rng, vis, fns, d - 1), rng.pick(["+", "-", "*"]), expr(rng, vis, fns, d - 1))
    if c == 7:
        return "als %s < %s { %s } anders { %s }" % (expr(rng, vis, fns, d - 1), expr(rng, vis, fns, d - 1), expr(rng, vis, fns, d - 1), expr(rng, vis, fns, d - 1))
    return "(%s + %s)" % (expr(rng, vis, fns, d - 1), expr(rng, vis, fns, d - 1))


DIRECTED = [
    "functie f(a, b) { [a, b] } f(1, 2)", "functie f(a, b) { [a, b] } f(1)", "functie f(a, b) { [a, b] } f()",
    "functie f(a) { a } f(1, 2)", "functie f() { stel x = 1; stel y = 2; x } f(7, 8)", "functie f() { stel x = 1; stel y = 2; x } f(7, 8, 9)",
    "stel t = []; functie f(x) { t = [t, x]; x } [f(1), f(2), f(3)]; t", "functie f(x) { print(x); x } f(1) + f(2) * f(3)",
    "functie f(x) { print(x); x } functie g(a, b, c) { [a, b, c] } g(f(1), f(2), f(3))",
    "functie f(n) { stel a = n; als n > 0 { f(n - 1); }; a } f(5)", "functie f(n) { stel a = [n]; als n > 0 { f(n - 1); }; a } f(4)",
    "functie mk() { functie(x) { x + 1 } } stel g = mk(); g(41)", "functie twice(f, x) { f(f(x)) } twice(functie(y) { y * 3 }, 2)",
    "stel fs = [functie(a) { a + 1 }, functie(a) { a * 2 }]; stel h = fs[1]; h(5)", "functie f() { f } f()() == f",
    "functie d(n) { als n < 1 { antwoord 0; }; 1 + d(n - 1) } d(200)", "functie d(n) { als n < 1 { antwoord 0; }; 1 + d(n - 1) } d(5000)",
    "functie d(n) { als n < 1 { antwoord 0; }; d(n - 1) + 1 } d(30000)", "functie d(n) { als n < 1 { antwoord 0; }; d(n - 1) + 1 } d(70000)",
    "functie f() { f() } f()", "functie f(a, b, c, d) { stel e = 1; stel g = 2; f(a, b, c, d) } f(1, 2, 3, 4)",
    "functie f(n) { [n, f(n + 1)] } f(0)", "functie big(a) { stel b = 1; stel c = 2; als a < 21000 { antwoord big(a + 1); }; a } big(0)",
    "functie big(a) { stel b = 1; stel c = 2; als a < 22000 { antwoord big(a + 1); }; a } big(0)",
    # a function inside a function sees its own activation and the globals, never the enclosing activation
    "stel stap = 100; functie mk(stap) { functie(x) { x * stap } } mk(3)(2)",
    "stel stap = 100; stel basis = 7; functie mk(stap, basis) { stel extra = 1; functie(x) { x * stap + basis } } mk(3, 4)(2)",
    "functie outer(a) { functie inner(b) { a } inner(1) } outer(5)",
    "stel a = 7; functie outer(a) { stel z = 1; functie inner(b) { a = a + b; a } [inner(1), a] } [outer(50), a]",
    "stel t = 0; functie outer(p, q) { stel l = 9; functie inner() { stel m = 3; t = t + m; m } inner() + l + p + q } [outer(1, 2), t]",
    "functie outer(n) { functie inner(n) { als n < 1 { antwoord 0 }; n + inner(n - 1) } inner(n) * 2 } outer(4)",
]


def limit_shapes(tier):
    """finite recursions that stop by themselves at depths just below / at / above the depth where the operand
    stack reaches the machine's 65535-slot limit, for several frame shapes: `nl` local slots per activation (`na` of
    them parameters), `p` operands pending in the caller while the call is made.  Below the boundary the value must
    be right, above it the run must end in the stack-overflow IndexError - at the same depth in the machine model."""
    out = []
    shapes = [(8, 0, 0), (8, 1, 1), (8, 1, 3), (12, 2, 0), (12, 2, 2), (12, 0, 3), (16, 3, 1), (9, 1, 2)]
    if tier != "quick":
        shapes += [(nl, na, p) for nl in (3, 5, 20) for na in (0, 1, 2) for p in (0, 1, 2, 3)]
    for nl, na, p in shapes:
        per = nl + p
        d0 = 65535 // per
        for depth in range(d0 - 3, d0 + 2):
            ps = ["a%d" % i for i in range(na)]
            body = ["stel l%d = %d;" % (i, i) for i in range(nl - na)]
            call = "f(%s)" % ", ".join(ps)
            for k in range(p):
                call = "%d + (%s)" % (k + 1, call)
            src = ("stel diepte = 0;\nfunctie f(%s) {\n  %s\n  diepte += 1;\n  als diepte >= %d { antwoord 0 };\n  %s\n}\nstel r = f(%s);\n[r, diepte]"
                   % (", ".join(ps), " ".join(body), depth, call, ", ".join(str(7 + i) for i in range(na))))
            out.append(("limit-shape", src))
    return out


def run(res, tier, rng, table_diffs=()):
    cases = [("directed", d) for d in DIRECTED] + limit_shapes(tier)
    for _ in range(600 if tier == "quick" else 12000):
        cases.append(("calls", call_program(rng.fork())))
    from .. import gen2
    cases += gen2.big_code_programs()
    cases += gen2.width_boundary_programs()
    cases += [("iife", p) for p in gen2.iife_programs()]
    cases += [("tail-shapes", p) for p in gen2.tail_shape_programs()]
    cases += [("rebinding", p) for p in gen2.rebinding_programs()]
    cases += [("stale-slots", p) for p in gen2.stale_slot_programs()]
    for _ in range(400 if tier == "quick" else 8000):
        cases.append(("fn-values", gen2.fnvalue_program(rng.fork())))
    for _ in range(200 if tier == "quick" else 4000):
        cases.append(("nested-fn", gen2.nested_fn_program(rng.fork())))
    run_cases(res, "C12", cases, budget=3000000)


replay = generic_replay("C12")
