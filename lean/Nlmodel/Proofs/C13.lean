/-
  C13 — arrays and strings: shared by reference, indexed exactly, measured in characters.
  Statements about index normalisation and about the store operations of the definitional
  semantics (`Spec.sIndexGet/sIndexSet`) and of the machine model (`indexGet/indexSet`).
-/
import Nlmodel.Model.Pipeline
import Nlmodel.Proofs.Lemmas.SimHOps
namespace Nl
namespace C13
open Spec

theorem norm_aux (len : Nat) (j : Int) (k : Nat) :
    (if (0 ≤ j && decide (j < (len:Int))) = true then some j.toNat else none) = some k ↔ (0 ≤ j ∧ j < len ∧ (k : Int) = j) := by
  by_cases h : (0 ≤ j && decide (j < (len:Int))) = true
  · rw [if_pos h]
    simp only [Bool.and_eq_true, decide_eq_true_eq] at h
    have ht := Int.toNat_of_nonneg h.1
    constructor
    · intro e
      injection e with e
      refine ⟨h.1, h.2, ?_⟩
      rw [← e, ht]
    · intro e
      have : ((j).toNat : Int) = (k : Int) := by rw [ht]; omega
      have : j.toNat = k := by exact_mod_cast this
      rw [this]
  · rw [if_neg h]
    simp only [Bool.and_eq_true, decide_eq_true_eq, not_and] at h
    constructor
    · intro e; cases e
    · intro e; exfalso; exact absurd e.2.1 (h e.1)

/-- element access counts from the front for indices >= 0 and from the back for negative ones;
    everything else is out of range -/
theorem C13_norm_index (len : Nat) (i : Int) (k : Nat) :
    normIndex len i = some k ↔
      ((0 ≤ i ∧ i < len ∧ (k : Int) = i) ∨ (i < 0 ∧ -(len : Int) ≤ i ∧ (k : Int) = len + i)) := by
  unfold normIndex
  by_cases hi : i < 0
  · have e1 : (if i < 0 then i + ↑len else i) = i + len := if_pos hi
    simp only [e1]
    rw [norm_aux]
    constructor
    · intro h; right; omega
    · intro h; omega
  · have e1 : (if i < 0 then i + ↑len else i) = i := if_neg hi
    simp only [e1]
    rw [norm_aux]
    constructor
    · intro h; left; omega
    · intro h; omega

/-- an index is in range exactly when it lies in `[-len, len)` -/
theorem C13_in_range_iff (len : Nat) (i : Int) :
    (normIndex len i).isSome ↔ (-(len : Int) ≤ i ∧ i < len) := by
  constructor
  · intro h
    obtain ⟨k, hk⟩ := Option.isSome_iff_exists.mp h
    rcases (C13_norm_index len i k).mp hk with h | h <;> omega
  · intro h
    by_cases hi : i < 0
    · exact Option.isSome_iff_exists.mpr ⟨(len + i).toNat, (C13_norm_index len i _).mpr (Or.inr ⟨hi, h.1, by omega⟩)⟩
    · exact Option.isSome_iff_exists.mpr ⟨i.toNat, (C13_norm_index len i _).mpr (Or.inl ⟨by omega, h.2, by omega⟩)⟩

/-- the normalised position is always inside the sequence -/
theorem C13_norm_lt (len : Nat) (i : Int) (k : Nat) (h : normIndex len i = some k) : k < len := by
  rcases (C13_norm_index len i k).mp h with h | h <;> omega

/-- an index that is not an integer is a type error; an integer out of range is an index error;
    in both cases the store is not touched (the result carries no new state) -/
theorem C13_get_errors (l i : SVal) (st : SState) :
    (∀ k, i ≠ .int k) → sIndexGet l i st = .error .type := by
  intro h
  cases i <;> first | rfl | (exact absurd rfl (h _))

theorem C13_set_errors (l i v : SVal) (st : SState) :
    (∀ k, i ≠ .int k) → sIndexSet l i v st = .error .type := by
  intro h
  cases i <;> first | rfl | (exact absurd rfl (h _))

theorem C13_set_out_of_range (a : Nat) (k : Int) (v : SVal) (st : SState)
    (h : normIndex (st.arrAt a).length k = none) : sIndexSet (.arr a) (.int k) v st = .error .index := by
  simp [sIndexSet, h]

/-- a write through address `a` is seen through EVERY alias of `a` (the array is a store cell, not
    a value), changes exactly position `j`, and leaves every other address untouched -/
theorem C13_alias (a : Nat) (k : Int) (v : SVal) (st st' : SState) (r : SVal) (j : Nat)
    (ha : a < st.store.size) (hj : normIndex (st.arrAt a).length k = some j)
    (h : sIndexSet (.arr a) (.int k) v st = .ok (r, st')) :
    r = v ∧ st'.arrAt a = (st.arrAt a).set j v ∧ (∀ b, b ≠ a → st'.store[b]? = st.store[b]?)
    ∧ st'.genv = st.genv ∧ st'.lenv = st.lenv := by
  simp only [sIndexSet, hj] at h
  injection h with h
  injection h with h1 h2
  subst h2
  refine ⟨h1.symm, ?_, ?_, rfl, rfl⟩
  · simp [SState.arrAt, Array.getElem?_setIfInBounds, ha]
  · intro b hb
    simp [Array.getElem?_setIfInBounds, Ne.symm hb]

/-- strings are measured, indexed and modified by character: replacing position `j` keeps every
    other character where it was (when the replacement is one character) -/
theorem C13_string_replace (s r : Text) (j : Nat) (hj : j < s.length) :
    (s.take j ++ r ++ s.drop (j + 1)).length = s.length - 1 + r.length
    ∧ (∀ p, p < j → (s.take j ++ r ++ s.drop (j + 1))[p]? = s[p]?) := by
  constructor
  · simp [List.length_append, List.length_take, List.length_drop]; omega
  · intro p hp
    have : p < (s.take j).length := by simp [List.length_take]; omega
    rw [List.append_assoc, List.getElem?_append_left this, List.getElem?_take_of_lt hp]

/-- `lengte` of a string is its number of code points -/
theorem C13_length_chars (s : Text) : builtinCore .length (.str s) = .ok (.int s.length) := rfl

example : normIndex 3 (-1) = some 2 ∧ normIndex 3 3 = none ∧ normIndex 0 (-1) = none := by decide

/-! ### the machine and the semantics agree on every read and write (stage 5 of the simulation) -/

/-- READING AN ELEMENT: whenever the store of the semantics and the machine heap are related (`SimH.Inv5`:
    an injective address map, cell-wise equal contents) and the operands are related, `a[i]` has the
    same outcome on both sides — the related element of an array (negative indices from the end), a
    fresh one-character string, or the same error kind -/
theorem C13_index_read_agrees {s0 : VM} {CS : List Const} {Γ : Sim.Gam} {μ : SimH.AMap} {st : SState} {g : Array Value} {l : Value} {m : Mem} {out : List Text}
    (hinv : SimH.Inv5 s0 CS Γ μ st g l m out) (a b : SVal) (ma mb : Value)
    (ha : SimH.VRh μ st m.heap a ma) (hb : SimH.VRh μ st m.heap b mb) :
    match sIndexGet a b st with
    | .ok (r, st') => ∃ μ' mr m', indexGet ma mb m = .ok (mr, m') ∧ SimH.Inv5 s0 CS Γ μ' st' g l m' out ∧
        SimH.Grow μ st m.heap μ' st' m'.heap ∧ SimH.VRh μ' st' m'.heap r mr
    | .error e => indexGet ma mb m = .error e :=
  SimH.indexGet_rel hinv a b ma mb ha hb

/-- WRITING AN ELEMENT: `a[i] = v` changes exactly one cell on each side — the cell both names of an
    aliased array denote (the address map is injective) — and the relation between the two heaps
    holds again afterwards, for every other array, string and variable as before; errors agree -/
theorem C13_index_write_agrees {s0 : VM} {CS : List Const} {Γ : Sim.Gam} {μ : SimH.AMap} {st : SState} {g : Array Value} {l : Value} {m : Mem} {out : List Text}
    (hinv : SimH.Inv5 s0 CS Γ μ st g l m out) (a b c : SVal) (ma mb mc : Value)
    (ha : SimH.VRh μ st m.heap a ma) (hb : SimH.VRh μ st m.heap b mb) (hc : SimH.VRh μ st m.heap c mc) :
    match sIndexSet a b c st with
    | .ok (r, st') => ∃ mr m', indexSet ma mb mc m = .ok (mr, m') ∧ SimH.Inv5 s0 CS Γ μ st' g l m' out ∧
        SimH.Grow μ st m.heap μ st' m'.heap ∧ SimH.VRh μ st' m'.heap r mr
    | .error e => indexSet ma mb mc m = .error e :=
  SimH.indexSet_rel hinv a b c ma mb mc ha hb hc

end C13
end Nl
