//! Collector operation sequences (C03/C04) on the real `GC`, independent of the VM.
//!
//! ops (space separated):
//!   F            allocate a float            -> new object id
//!   S            allocate a string           -> new object id
//!   A:i,j,..     allocate an array of the objects i,j,.. (`-` for none) -> new object id
//!   L:i:j        push object j onto array i
//!   R:i,j,..     collect with the root set {i,j,..}
//!   U:i          untrace object i (hand over to the caller)
//!   D            destroy the collector
//! The answer lists, after every op, the ids that are still allocated (`live`) and the ids the
//! collector still manages (`man`), both sorted.
use nederlang::object::{FromString, FromVec, Object, Type};
use nederlang::verif;
use nederlang::verif::GC;

fn ids(list: &str) -> Option<Vec<usize>> {
    if list.is_empty() || list == "-" {
        return Some(vec![]);
    }
    list.split(',').map(|s| s.parse().ok()).collect()
}

pub fn handle(ops: &[&str]) -> String {
    verif::heap_reset();
    let mut gc = GC::new();
    let mut objs: Vec<Object> = Vec::new();
    let mut out: Vec<String> = Vec::new();
    let addr = |o: &Object| o.verif_raw() & !7usize;
    for op in ops {
        let (head, rest) = match op.split_once(':') {
            Some((h, r)) => (h, r),
            None => (*op, ""),
        };
        // every object an op touches must still be allocated; otherwise the op sequence itself is
        // out of contract and the harness says so instead of touching freed memory
        let check = |is: &[usize], objs: &Vec<Object>| -> bool {
            is.iter().all(|i| *i < objs.len() && verif::is_live(addr(&objs[*i])))
        };
        match head {
            "F" => objs.push(Object::float(objs.len() as f64, &mut gc)),
            "S" => objs.push(Object::string(format!("s{}", objs.len()), &mut gc)),
            "A" => {
                let is = match ids(rest) {
                    Some(v) => v,
                    None => return "bad-op".into(),
                };
                if !check(&is, &objs) {
                    return format!("{} DEAD-OPERAND", out.join(" "));
                }
                let elems: Vec<Object> = is.iter().map(|i| objs[*i]).collect();
                objs.push(Object::array(elems, &mut gc));
            }
            "L" => {
                let (a, b) = match rest.split_once(':') {
                    Some(p) => p,
                    None => return "bad-op".into(),
                };
                let (a, b): (usize, usize) = match (a.parse(), b.parse()) {
                    (Ok(a), Ok(b)) => (a, b),
                    _ => return "bad-op".into(),
                };
                if !check(&[a, b], &objs) || objs[a].tag() != Type::Array {
                    return format!("{} DEAD-OPERAND", out.join(" "));
                }
                let item = objs[b];
                let mut target = objs[a];
                target.as_vec_mut().push(item);
            }
            "R" => {
                let is = match ids(rest) {
                    Some(v) => v,
                    None => return "bad-op".into(),
                };
                if !check(&is, &objs) {
                    return format!("{} DEAD-OPERAND", out.join(" "));
                }
                let roots: Vec<Object> = is.iter().map(|i| objs[*i]).collect();
                gc.run(&[roots.as_slice()]);
            }
            "U" => {
                let i: usize = match rest.parse() {
                    Ok(i) => i,
                    Err(_) => return "bad-op".into(),
                };
                if !check(&[i], &objs) {
                    return format!("{} DEAD-OPERAND", out.join(" "));
                }
                gc.untrace(objs[i]);
            }
            "D" => gc.destroy(),
            _ => return "bad-op".into(),
        }
        let live: Vec<String> = (0..objs.len())
            .filter(|i| verif::is_live(addr(&objs[*i])))
            .map(|i| i.to_string())
            .collect();
        let managed_raw = gc.verif_managed();
        let mut man: Vec<usize> = (0..objs.len())
            .filter(|i| managed_raw.contains(&addr(&objs[*i])))
            .collect();
        man.sort();
        let man: Vec<String> = man.iter().map(|i| i.to_string()).collect();
        out.push(format!("live={{{}}}man={{{}}}", live.join(","), man.join(",")));
    }
    // whatever the caller still owns is released by the caller: every live object once
    drop(gc);
    let h = verif::heap_stats();
    let remaining: Vec<Object> = objs.iter().copied().filter(|o| verif::is_live(addr(o))).collect();
    for o in remaining {
        o.free();
    }
    let h2 = verif::heap_stats();
    format!(
        "{} # afterdrop={} dfree={} uaf={} final={}",
        out.join(" "),
        h.live,
        h2.double_free,
        h2.use_after_free,
        h2.live
    )
}
