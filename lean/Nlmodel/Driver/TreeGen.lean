/- Driver-side generators of syntax trees for the C07 round trip (not part of the verified model):
   a seeded random generator over the whole grammar range, an enumerator of all binary-operator
   shapes, and a layout-variant printer (redundant parentheses, optional separators dropped). -/
import Nlmodel.Driver.Proto
import Nlmodel.Model.Printer
namespace Nl
namespace TreeGen

structure R where
  s : UInt64

def R.next (r : R) : R × UInt64 :=
  let x := r.s
  let x := x ^^^ (x >>> 12)
  let x := x ^^^ (x <<< 25)
  let x := x ^^^ (x >>> 27)
  (⟨x⟩, x * 0x2545F4914F6CDD1D)

def R.below (r : R) (n : Nat) : R × Nat :=
  let (r', v) := r.next
  (r', if n = 0 then 0 else (v.toNat >>> 11) % n)

def mkR (seed : Nat) : R := ⟨UInt64.ofNat (seed * 0x9E3779B97F4A7C15 + 0x1234567) ||| 1⟩

def binOps : Array Op := #[.add, .sub, .mul, .div, .mod, .gt, .gte, .lt, .lte, .eq, .neq, .and, .or]
def names : Array String := #["a", "b", "x", "y", "foo", "é", "_t", "k2", "n", "lijst"]
def strs : Array String := #["", "a", "hallo wereld", "q\"uote", "back\\slash", "nl\nline", "t\tab", "é日😀", "{}", "\\n"]
def floats : Array UInt64 := #[0x3FF8000000000000, 0x4016333333333333, 0x3FB999999999999A, 0x4059000000000000, 0x0,
  0x3FF0000000000000, 0x40C3880000000000, 0x3E7AD7F29ABCAF48, 0x7FEFFFFFFFFFFFFF, 0x0000000000000001]

def pickName (r : R) : R × Text :=
  let (r, i) := r.below names.size
  (r, (names[i]!).toList)

mutual
partial def genE (r : R) (d : Nat) : R × Expr :=
  let (r, c) := r.below (if d = 0 then 6 else 18)
  match c with
  | 0 => let (r, v) := r.below 1000; (r, .int v)
  | 1 => let (r, n) := pickName r; (r, .ident n)
  | 2 => let (r, b) := r.below 2; (r, .bool (b = 1))
  | 3 => let (r, i) := r.below strs.size; (r, .str (strs[i]!).toList)
  | 4 => let (r, i) := r.below floats.size; (r, .float floats[i]!)
  | 5 => let (r, v) := r.below 3; (r, .int (if v = 0 then MAX_INT else if v = 1 then 0 else 4294967296))
  | 6 | 7 | 8 | 9 =>
    let (r, i) := r.below binOps.size
    let (r, l) := genE r (d - 1)
    let (r, x) := genE r (d - 1)
    -- parser range: a function literal cannot be the left operand of a binary operator
    let l := match l with | .func .. => Expr.ident ['f'] | _ => l
    (r, .infix l binOps[i]! x)
  | 10 =>
    let (r, k) := r.below 2
    let (r, x) := genE r (d - 1)
    (r, .pre (if k = 0 then .not else .sub) x)
  | 11 =>
    let (r, n) := pickName r
    let (r, k) := r.below 3
    let (r, x) := genE r (d - 1)
    if k = 0 then
      let (r, i) := genE r (d - 1)
      (r, .assign (.index (.ident n) i) x)
    else (r, .assign (.ident n) x)
  | 12 =>
    let (r, c) := genE r (d - 1)
    let (r, t) := genB r (d - 1)
    let (r, k) := r.below 3
    if k = 0 then (r, .ifE c t .none)
    else if k = 1 then let (r, e) := genB r (d - 1); (r, .ifE c t (.some e))
    else
      let (r, c2) := genE r (d - 1)
      let (r, t2) := genB r (d - 1)
      (r, .ifE c t (.some (.cons (.expr (.ifE c2 t2 .none)) .nil)))
  | 13 =>
    let (r, c) := genE r (d - 1)
    let (r, b) := genB r (d - 1)
    (r, .whileE c b)
  | 14 =>
    let (r, k) := r.below 2
    let (r, n) := pickName r
    let (r, np) := r.below 4
    let (r, ps) := (List.range np).foldl (fun (acc : R × List Text) _ => let (r, p) := pickName acc.1; (r, p :: acc.2)) (r, [])
    let (r, b) := genB r (d - 1)
    (r, .func (if k = 0 then [] else n) ps b)
  | 15 =>
    let (r, k) := r.below 4
    let (r, as) := genEs r (d - 1)
    if k = 0 then
      -- an immediately called function literal: anonymous or named, with parameters
      let (r, b) := genB r (d - 1)
      let (r, nm) := r.below 2
      let (r, n) := pickName r
      let (r, np) := r.below 3
      let (r, ps) := (List.range np).foldl (fun (acc : R × List Text) _ => let (r, p) := pickName acc.1; (r, p :: acc.2)) (r, [])
      (r, .call (.func (if nm = 0 then [] else n) ps b) as)
    else let (r, n) := pickName r; (r, .call (.ident n) as)
  | 16 => let (r, vs) := genEs r (d - 1); (r, .arr vs)
  | _ =>
    let (r, k) := r.below 3
    let (r, i) := genE r (d - 1)
    if k = 0 then let (r, vs) := genEs r (d - 1); (r, .index (.arr vs) i)
    else if k = 1 then (r, .index (.str "abc".toList) i)
    else let (r, n) := pickName r; (r, .index (.ident n) i)

partial def genEs (r : R) (d : Nat) : R × Exprs :=
  let (r, n) := r.below 4
  (List.range n).foldl (fun (acc : R × Exprs) _ => let (r, e) := genE acc.1 d; (r, .cons e acc.2)) (r, .nil)

partial def genS (r : R) (d : Nat) : R × Stmt :=
  let (r, c) := r.below 10
  match c with
  | 0 | 1 => let (r, n) := pickName r; let (r, e) := genE r d; (r, .letS n e)
  | 2 => let (r, e) := genE r d; (r, .ret e)
  | 3 => if d = 0 then (r, .brk) else let (r, b) := genB r (d - 1); (r, .block b)
  | 4 => (r, .brk)
  | 5 => (r, .cont)
  | _ => let (r, e) := genE r d; (r, .expr e)

partial def genB (r : R) (d : Nat) : R × Block :=
  let (r, n) := r.below 4
  (List.range n).foldl (fun (acc : R × Block) _ => let (r, s) := genS acc.1 d; (r, .cons s acc.2)) (r, .nil)
end

/-! layout variants at the token level: drop optional separators where the next token cannot
    continue the expression; (redundant parentheses are added by `wrapE` on the tree printer) -/
def dropSeps : R → List Token → R × List Token
  | r, [] => (r, [])
  | r, t :: rest =>
    if t = .semi || t = .comma then
      let (r, k) := r.below 3
      if k = 0 && !continues rest then dropSeps r rest
      else let (r', out) := dropSeps r rest; (r', t :: out)
    else let (r', out) := dropSeps r rest; (r', t :: out)

/-- all tree shapes with exactly `n` binary operators over leaves a,b,c,d (Catalan many) -/
partial def shapes : Nat → List (List Op → List Text → Option (Expr × List Op × List Text))
  | 0 => [fun ops lv => match lv with | v :: rest => some (.ident v, ops, rest) | [] => none]
  | n + 1 =>
    (List.range (n + 1)).flatMap fun k =>
      (shapes k).flatMap fun sl =>
        (shapes (n - k)).map fun sr =>
          fun ops lv =>
            match ops with
            | op :: ops' =>
              match sl ops' lv with
              | some (l, ops1, lv1) =>
                match sr ops1 lv1 with
                | some (x, ops2, lv2) => some (.infix l op x, ops2, lv2)
                | none => none
              | none => none
            | [] => none

def leafNames : List Text := ["a".toList, "b".toList, "c".toList, "d".toList]

/-- the `idx`-th tree of the complete enumeration: shapes with 1..3 operators × all operator tuples -/
def enumTree (idx : Nat) : Option Expr :=
  let blocks : List (Nat × Nat) := [(1, 13), (2, 13 * 13 * 2), (3, 13 * 13 * 13 * 5)]
  let rec go (bs : List (Nat × Nat)) (i : Nat) : Option Expr :=
    match bs with
    | [] => none
    | (n, cnt) :: rest =>
      if i < cnt then
        let sh := shapes n
        let per := 13 ^ n
        let s := i / per
        let o := i % per
        let ops := (List.range n).map fun j => binOps[(o / 13 ^ j) % 13]!
        match sh[s]? with
        | some f => (f ops leafNames).map (·.1)
        | none => none
      else go rest (i - cnt)
  go blocks idx

def enumCount : Nat := 13 + 13 * 13 * 2 + 13 * 13 * 13 * 5

end TreeGen
end Nl
