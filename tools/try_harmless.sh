#!/bin/sh
# all 17 quick checks against a behaviour-preserving refactoring of /repo (private worktree + private harness build)
a=$1; T=/tmp/harmless/run/$a
rm -rf $T; mkdir -p $T
git -C /repo worktree add -q --detach $T/repo HEAD
git -C $T/repo apply /tmp/harmless/out/$a/patch.diff || { echo "patch does not apply"; exit 2; }
cp -r /verif/harness $T/harness; sed -i "s#path = \"/repo\"#path = \"$T/repo\"#" $T/harness/Cargo.toml
(cd $T/harness && CARGO_NET_OFFLINE=true CARGO_TARGET_DIR=$T/target cargo build --offline --release --quiet 2>&1 | grep -E "^error" | head -3)
(cd $T/harness && CARGO_NET_OFFLINE=true CARGO_TARGET_DIR=$T/target cargo build --offline --quiet 2>&1 | grep -E "^error" | head -3)
mkdir -p $T/out && cd $T/out && cp -r /verif/checklib . && ln -sfn /verif/lean lean && ln -sfn /verif/build build && cp /verif/known_findings.json /verif/check .
for i in 01 02 03 04 05 06 07 08 09 10 11 12 13 14 15 16 17; do
  NL_MODEL_WORKERS=6 NL_HARNESS_EXE=$T/target/release/nlharness NL_HARNESS_EXE_DEBUG=$T/target/debug/nlharness ./check C$i --tier quick > $T/out/log-C$i.txt 2>&1
  echo "$a C$i rc=$? $(grep -c VIOLATION $T/out/log-C$i.txt) $(grep VIOLATION $T/out/log-C$i.txt | head -1)"
done
