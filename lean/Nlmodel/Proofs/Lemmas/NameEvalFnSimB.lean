import Nlmodel.Proofs.Lemmas.NameEvalFnSimDefs
namespace Nl
namespace NameEvalFn
open Spec SimF Sim
open NameEval (All2 findBid bids postS)

/-- the result of a statement seen as the result of something in value position (`Sim.liftU` on the name side) -/
def liftN (r : FRes Unit) (k : FState → FRes NVal) : FRes NVal :=
  match r with
  | .val () st1 => k st1
  | .brk s => .brk s | .cont s => .cont s | .ret v s => .ret v s
  | .err e s => .err e s | .unspec s => .unspec s | .fuel => .fuel

theorem lift_rel {V : NVal → SVal → Prop} {VR : NVal → SVal → Prop} {P Q Rt' : FState → SState → Prop}
    {r : FRes Unit} {r' : Res Unit} {k : FState → FRes NVal} {k' : SState → Res SVal}
    (h : RelG (fun (_ _ : Unit) => True) VR P Q Rt' r r') (hk : ∀ ρ1 σ1, P ρ1 σ1 → RelG V VR Q Q Rt' (k ρ1) (k' σ1)) :
    RelG V VR Q Q Rt' (liftN r k) (liftU r' k') := by
  cases h with
  | val a b ρ σ hv h => cases a; cases b; exact hk _ _ h
  | brk ρ σ h => exact .brk _ _ h
  | cont ρ σ h => exact .cont _ _ h
  | ret v w ρ σ hv h => exact .ret _ _ _ _ hv h
  | err e ρ σ h => exact .err _ _ _ h
  | unspec ρ σ => exact .unspec _ _
  | fuel => exact .fuel

theorem qbs_succ (f : Nat) (q : QAll f) : QBs (f + 1) := by
  intro b fn ab sc scs gscs Tb F N st b' st' ρ σ hne hs hinv h hrel
  have toIn : ∀ {r : FRes NVal} {r' : Res SVal}, RE fn (sc :: scs) gscs Tb N r r' →
      RelG (VRel (GG fn scs Tb)) (VRel (topOf Tb)) (In fn scs gscs Tb N) (In fn scs gscs Tb N) (Rt fn Tb N) r r' :=
    fun hre => RelG.mono (fun a b hv => by rw [← GG_cons fn sc scs Tb hne]; exact hv)
      (fun _ _ h => ⟨sc, h⟩) (fun _ _ h => ⟨sc, h⟩) hre
  cases hs with
  | nil =>
    simp only [resolveSs] at h; injection h with h; injection h with h1 h2; subst h1
    simp only [NameEvalFn.evalBVs, Spec.evalBV]
    exact .val _ _ _ _ .null ⟨sc, hrel⟩
  | cons _ s rest hss hsrest =>
    simp only [resolveSs] at h
    cases hr : resolveS s st with
    | error er => simp [hr] at h
    | ok p =>
      obtain ⟨s1, st1⟩ := p
      simp only [hr] at h
      cases hr2 : resolveSs rest st1 with
      | error er => simp [hr2] at h
      | ok p2 =>
        obtain ⟨b1, st2⟩ := p2
        simp only [hr2] at h
        injection h with h; injection h with h1 h2; subst h1
        have hi1 := rS_post fn s ab sc scs gscs F st s1 st1 hss hinv hr
        have ih := q.s s fn ab sc scs gscs Tb F N st s1 st1 ρ σ hss hinv hr hrel
        have knull : ∀ ρ1 σ1, At fn (postS s st sc :: scs) gscs Tb N ρ1 σ1 →
            RelG (VRel (GG fn scs Tb)) (VRel (topOf Tb)) (In fn scs gscs Tb N) (In fn scs gscs Tb N) (Rt fn Tb N)
              ((fun st1 => FRes.val NVal.null st1) ρ1) ((fun st1 => Res.val SVal.null st1) σ1) :=
          fun ρ1 σ1 h1 => .val _ _ _ _ .null ⟨_, h1⟩
        cases hsrest with
        | nil =>
          simp only [resolveSs] at hr2; injection hr2 with hr2; injection hr2 with hr21 hr22; subst hr21
          cases hss with
          | expr _ e hse =>
            simp only [resolveS] at hr
            cases hre : resolveE e st with
            | error er => simp [hre] at hr
            | ok p3 =>
              obtain ⟨e1, st3⟩ := p3
              simp only [hre] at hr
              injection hr with hr; injection hr with hr1 hr2; subst hr1
              simp only [NameEvalFn.evalBVs, Spec.evalBV]
              exact toIn (q.e e fn ab _ gscs Tb F N st e1 st3 ρ σ hse hinv hre hrel)
          | block _ b0 hsb =>
            simp only [resolveS] at hr
            cases hb : resolveB b0 st with
            | error er => simp [hb] at hr
            | ok p3 =>
              obtain ⟨b01, st3⟩ := p3
              simp only [hb] at hr
              injection hr with hr; injection hr with hr1 hr2; subst hr1
              cases hsb with
              | nil =>
                simp only [resolveB] at hb; injection hb with hb; injection hb with hb1 hb2; subst hb1
                have hN : NameEvalFn.evalBVs (f + 1) (.cons (.block .nil) .nil) ρ =
                    liftN (NameEvalFn.evalS f (.block .nil) ρ) (fun st1 => .val .null st1) := by
                  simp only [NameEvalFn.evalBVs]; rfl
                have hS : Spec.evalBV (f + 1) (.cons (.block .nil) .nil) σ =
                    liftU (Spec.evalS f (.block .nil) σ) (fun st1 => .val .null st1) := by
                  simp only [Spec.evalBV]; exact liftU_eq _ _
                rw [hN, hS]
                exact lift_rel ih knull
              | cons _ s0 r0 hs0 hr0 =>
                have hshape : ∃ s01 r01, b01 = .cons s01 r01 := by
                  simp only [resolveB] at hb
                  cases hx : resolveS s0 st.enterScope with
                  | error er => simp [hx] at hb
                  | ok p4 =>
                    obtain ⟨s01, st4⟩ := p4
                    simp only [hx] at hb
                    cases hy : resolveSs r0 st4 with
                    | error er => simp [hy] at hb
                    | ok p5 =>
                      obtain ⟨r01, st5⟩ := p5
                      simp only [hy] at hb
                      injection hb with hb; injection hb with hb1 hb2
                      exact ⟨s01, r01, hb1.symm⟩
                obtain ⟨s01, r01, rfl⟩ := hshape
                simp only [NameEvalFn.evalBVs, Spec.evalBV]
                exact toIn (q.bv (.cons s0 r0) fn ab (sc :: scs) gscs Tb F N st _ st3 ρ σ (.cons _ _ _ hs0 hr0) hinv hb hrel)
          | letS _ n e hse =>
            simp only [resolveS] at hr
            cases hre : resolveE e (st.define n).1 with
            | error er => simp [hre] at hr
            | ok p3 =>
              obtain ⟨e1, st3⟩ := p3
              simp only [hre] at hr
              injection hr with hr; injection hr with hr1 hr2; subst hr1
              have hN : NameEvalFn.evalBVs (f + 1) (.cons (.letS n e) .nil) ρ =
                  liftN (NameEvalFn.evalS f (.letS n e) ρ) (fun st1 => .val .null st1) := by
                simp only [NameEvalFn.evalBVs]; rfl
              have hS : Spec.evalBV (f + 1) (.cons (.letS (st.define n).2 e1) .nil) σ =
                  liftU (Spec.evalS f (.letS (st.define n).2 e1) σ) (fun st1 => .val .null st1) := by
                simp only [Spec.evalBV]; exact liftU_eq _ _
              rw [hN, hS]
              exact lift_rel ih knull
          | brk =>
            simp only [resolveS] at hr
            split at hr
            · cases hr
            · injection hr with hr; injection hr with hr1 hr2; subst hr1
              have hN : NameEvalFn.evalBVs (f + 1) (.cons .brk .nil) ρ =
                  liftN (NameEvalFn.evalS f .brk ρ) (fun st1 => .val .null st1) := by
                simp only [NameEvalFn.evalBVs]; rfl
              have hS : Spec.evalBV (f + 1) (.cons .brk .nil) σ =
                  liftU (Spec.evalS f .brk σ) (fun st1 => .val .null st1) := by
                simp only [Spec.evalBV]; exact liftU_eq _ _
              rw [hN, hS]
              exact lift_rel ih knull
          | cont =>
            simp only [resolveS] at hr
            split at hr
            · cases hr
            · injection hr with hr; injection hr with hr1 hr2; subst hr1
              have hN : NameEvalFn.evalBVs (f + 1) (.cons .cont .nil) ρ =
                  liftN (NameEvalFn.evalS f .cont ρ) (fun st1 => .val .null st1) := by
                simp only [NameEvalFn.evalBVs]; rfl
              have hS : Spec.evalBV (f + 1) (.cons .cont .nil) σ =
                  liftU (Spec.evalS f .cont σ) (fun st1 => .val .null st1) := by
                simp only [Spec.evalBV]; exact liftU_eq _ _
              rw [hN, hS]
              exact lift_rel ih knull
          | ret _ e hfn hse =>
            simp only [resolveS] at hr
            split at hr
            · cases hr
            · cases hre : resolveE e st with
              | error er => simp [hre] at hr
              | ok p3 =>
                obtain ⟨e1, st3⟩ := p3
                simp only [hre] at hr
                injection hr with hr; injection hr with hr1 hr2; subst hr1
                have hN : NameEvalFn.evalBVs (f + 1) (.cons (.ret e) .nil) ρ =
                    liftN (NameEvalFn.evalS f (.ret e) ρ) (fun st1 => .val .null st1) := by
                  simp only [NameEvalFn.evalBVs]; rfl
                have hS : Spec.evalBV (f + 1) (.cons (.ret e1) .nil) σ =
                    liftU (Spec.evalS f (.ret e1) σ) (fun st1 => .val .null st1) := by
                  simp only [Spec.evalBV]; exact liftU_eq _ _
                rw [hN, hS]
                exact lift_rel ih knull
        | cons _ s2 rest2 hs2 hrest2 =>
          have hshape : ∃ s21 r21, b1 = .cons s21 r21 := by
            simp only [resolveSs] at hr2
            cases hx : resolveS s2 st1 with
            | error er => simp [hx] at hr2
            | ok p4 =>
              obtain ⟨s21, st4⟩ := p4
              simp only [hx] at hr2
              cases hy : resolveSs rest2 st4 with
              | error er => simp [hy] at hr2
              | ok p5 =>
                obtain ⟨r21, st5⟩ := p5
                simp only [hy] at hr2
                injection hr2 with hr2; injection hr2 with hb1 hb2
                exact ⟨s21, r21, hb1.symm⟩
          obtain ⟨s21, r21, rfl⟩ := hshape
          have hN : NameEvalFn.evalBVs (f + 1) (.cons s (.cons s2 rest2)) ρ =
              liftN (NameEvalFn.evalS f s ρ) (fun st1 => NameEvalFn.evalBVs f (.cons s2 rest2) st1) := by
            cases s <;> (simp only [NameEvalFn.evalBVs]; rfl)
          have hS : Spec.evalBV (f + 1) (.cons s1 (.cons s21 r21)) σ =
              liftU (Spec.evalS f s1 σ) (fun st1 => Spec.evalBV f (.cons s21 r21) st1) := by
            cases s1 <;> (simp only [Spec.evalBV]; exact liftU_eq _ _)
          rw [hN, hS]
          exact lift_rel ih fun ρ1 σ1 h1 =>
            q.bs (.cons s2 rest2) fn ab _ scs gscs Tb F N st1 _ st2 ρ1 σ1 hne (.cons _ _ _ hs2 hrest2) hi1 hr2 h1

end NameEvalFn
end Nl
