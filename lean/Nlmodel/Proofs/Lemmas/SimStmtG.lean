/- Forward simulation, stage 2: statements, sequences and whole programs over global scalar variables (C01). -/
import Nlmodel.Proofs.Lemmas.SimExprG
namespace Nl
namespace Sim
open Spec

theorem envGet_envDel_same (env : List (Nat × SVal)) (k : Nat) : envGet (envDel env k) k = none := by
  unfold envGet envDel
  have : (env.filter (fun p => p.1 != k)).find? (fun p => p.1 == k) = none := by
    rw [List.find?_eq_none]
    intro p hp
    have := (List.mem_filter.mp hp).2
    simpa using this
  rw [this]

theorem envGet_envDel_other (env : List (Nat × SVal)) (k j : Nat) (h : j ≠ k) :
    envGet (envDel env k) j = envGet env j := by
  unfold envGet envDel
  congr 1
  induction env with
  | nil => rfl
  | cons p rest ih =>
    simp only [List.filter_cons]
    by_cases hp : p.1 = k
    · have : (p.1 != k) = false := by simp [hp]
      have hpj : (p.1 == j) = false := by simp [hp, Ne.symm h]
      simp [this, List.find?_cons, hpj, ih]
    · have : (p.1 != k) = true := by simp [hp]
      simp only [this, ↓reduceIte, List.find?_cons]
      split
      · rfl
      · exact ih

/-- statements of stage 2: expression statements and declarations of global scalar variables -/
inductive WS : Gam → RStmt → Gam → Prop where
  | expr (Γ : Gam) (e : RExpr) : WE Γ e → WS Γ (.expr e) Γ
  | letS (Γ : Gam) (b k : Nat) (e : RExpr) : (∀ p ∈ Γ, p.1 ≠ b ∧ p.2 ≠ k) → WE ((b, k) :: Γ) e →
      WS Γ (.letS ⟨b, .global k⟩ e) ((b, k) :: Γ)

inductive WB : Gam → RBlock → Gam → Prop where
  | nil (Γ : Gam) : WB Γ .nil Γ
  | cons (Γ Γ1 Γ2 : Gam) (s : RStmt) (b : RBlock) : WS Γ s Γ1 → WB Γ1 b Γ2 → WB Γ (.cons s b) Γ2

def LastRel (st : SState) (l : Value) : Prop := toVal st.last = some l

def GoalS (Γ' : Gam) (C : Code) (s : VM) (pos sz : Nat) (st : SState) (r : Res Unit) : Prop :=
  match r with
  | .val () st' => ∃ g' l' n, execN C n s = some { s with ip := pos + sz, globals := g', last := l' } ∧
      Rel Γ' st' g' ∧ LastRel st' l' ∧ st'.out = st.out ∧ st'.lenv = st.lenv
  | .err er _ => ∃ n s1 s2, execN C n s = some s1 ∧ step C s1 = .error er s2
  | .fuel => True
  | .unspec _ => True
  | _ => False

theorem gamOK_cons {Γ : Gam} (hok : GamOK Γ) (b k : Nat) (hf : ∀ p ∈ Γ, p.1 ≠ b ∧ p.2 ≠ k) : GamOK ((b, k) :: Γ) := by
  unfold GamOK
  rw [List.pairwise_cons]
  exact ⟨fun p hp => ⟨fun e => (hf p hp).1 e.symm, fun e => (hf p hp).2 e.symm⟩, hok⟩

theorem rel_unbind {Γ : Gam} (st : SState) (g : Array Value) (b k : Nat) (hf : ∀ p ∈ Γ, p.1 ≠ b ∧ p.2 ≠ k)
    (hr : Rel Γ st g) : Rel ((b, k) :: Γ) (st.unbind ⟨b, .global k⟩) g := by
  intro b' k' hm v hv
  simp only [SState.unbind, isGlobalSlot, ↓reduceIte] at hv
  rcases List.mem_cons.mp hm with he | hm'
  · injection he with e1 e2
    subst e1
    rw [envGet_envDel_same] at hv
    cases hv
  · have hb : b' ≠ b := (hf (b', k') hm').1
    rw [envGet_envDel_other _ _ _ hb] at hv
    exact hr b' k' hm' v hv

theorem sim_ws (f : Nat) (Γ Γ' : Gam) (stmt : RStmt) (hws : WS Γ stmt Γ') (hok : GamOK Γ) (st : SState)
    (pos : Nat) (lp : LoopCtx) (cs : List Const) (C : Code) (s : VM)
    (hcode : CodeAt C pos (emitS stmt pos lp cs).1) (hpool : PoolOK s.cvals (emitS stmt pos lp cs).2)
    (hip : s.ip = pos) (hrel : Rel Γ st s.globals) (hlast : LastRel st s.last) :
    GamOK Γ' ∧ GoalS Γ' C s pos (sizeS stmt) st (evalS (f + 1) stmt st) := by
  cases hws with
  | expr e hwe =>
    refine ⟨hok, ?_⟩
    simp only [emitS] at hcode hpool
    obtain ⟨hc1, hc2⟩ := hcode.append
    have := sim_we Γ hok f e st hwe pos lp cs C s hc1 hpool hip hrel
    simp only [evalS]
    cases hr : evalE f e st with
    | val v st1 =>
      rw [hr] at this
      obtain ⟨mv, g1, n, hmv, hn, hrel1, hl1, ho1, hle1⟩ := this
      rw [emitE_size] at hc2
      let S1 : VM := { s with ip := pos + sizeE e, stack := s.stack.push mv, globals := g1 }
      have hs1 : step C S1 = .next { S1 with ip := pos + sizeE e + 1, stack := s.stack, last := mv } := by
        have := step_at (s := S1) (i := .pop) (rest := []) hc2
        rw [this]; simp [exec, S1, pop1_push, Instr.size]
      refine ⟨g1, mv, n + 1, ?_, hrel1, hmv, ho1, hle1⟩
      apply execN_add C n 1 s S1 _ hn
      simp only [execN, hs1, S1, sizeS]
      cases s; simp; omega
    | err er st1 => rw [hr] at this; exact this
    | fuel => trivial
    | unspec _ => trivial
    | brk _ => rw [hr] at this; exact this
    | cont _ => rw [hr] at this; exact this
    | ret _ _ => rw [hr] at this; exact this
  | letS b k e hf hwe =>
    have hok' := gamOK_cons hok b k hf
    refine ⟨hok', ?_⟩
    simp only [emitS, setVar] at hcode hpool
    obtain ⟨hc1, hc2⟩ := hcode.append
    have hrel0 := rel_unbind st s.globals b k hf hrel
    have := sim_we _ hok' f e (st.unbind ⟨b, .global k⟩) hwe pos lp cs C s hc1 hpool hip hrel0
    simp only [evalS]
    cases hr : evalE f e (st.unbind ⟨b, .global k⟩) with
    | val v st1 =>
      rw [hr] at this
      obtain ⟨mv, g1, n, hmv, hn, hrel1, hl1, ho1, hle1⟩ := this
      rw [emitE_size] at hc2
      let S1 : VM := { s with ip := pos + sizeE e, stack := s.stack.push mv, globals := g1 }
      have hs1 : step C S1 = .next { S1 with ip := pos + sizeE e + 3, stack := s.stack, globals := setGlobalArr g1 k mv } := by
        have := step_at (s := S1) (i := .setGlobal k) (rest := []) hc2
        rw [this]; simp [exec, S1, pop1_push, Instr.size, setGlobalArr]
      refine ⟨setGlobalArr g1 k mv, s.last, n + 1, ?_, rel_bind hok' st1 g1 b k List.mem_cons_self v mv hmv hrel1, ?_, ?_, ?_⟩
      · apply execN_add C n 1 s S1 _ hn
        simp only [execN, hs1, S1, sizeS]
        cases s; simp; omega
      · simp only [LastRel, SState.bind, isGlobalSlot, ↓reduceIte, hl1, SState.unbind]
        exact hlast
      · simp [SState.bind, isGlobalSlot, ho1, SState.unbind]
      · simp [SState.bind, isGlobalSlot, hle1, SState.unbind]
    | err er st1 => rw [hr] at this; exact this
    | fuel => trivial
    | unspec _ => trivial
    | brk _ => rw [hr] at this; exact this
    | cont _ => rw [hr] at this; exact this
    | ret _ _ => rw [hr] at this; exact this

theorem sim_wb : ∀ (b : RBlock) (Γ Γ' : Gam), WB Γ b Γ' → GamOK Γ → ∀ (F : Nat) (st : SState)
    (pos : Nat) (lp : LoopCtx) (cs : List Const) (C : Code) (s : VM),
    CodeAt C pos (emitB b pos lp cs).1 → PoolOK s.cvals (emitB b pos lp cs).2 → s.ip = pos →
    Rel Γ st s.globals → LastRel st s.last →
    GoalS Γ' C s pos (sizeB b) st (evalB F b st)
  | .nil, Γ, Γ', hwb, hok, F, st, pos, lp, cs, C, s, hcode, hpool, hip, hrel, hlast => by
    cases hwb
    cases F with
    | zero => simp [evalB, GoalS]
    | succ f =>
      simp only [evalB, GoalS, sizeB]
      exact ⟨s.globals, s.last, 0, by simp [execN, ← hip], hrel, hlast, by first | rfl | trivial, by first | rfl | trivial⟩
  | .cons stmt rest, Γ, Γ', hwb, hok, F, st, pos, lp, cs, C, s, hcode, hpool, hip, hrel, hlast => by
    cases hwb with
    | cons _ Γ1 _ _ _ hws hwb' =>
      cases F with
      | zero => simp [evalB, GoalS]
      | succ f =>
        simp only [emitB] at hcode hpool
        obtain ⟨hc1, hc2⟩ := hcode.append
        rw [emitS_size] at hc2
        simp only [evalB]
        cases f with
        | zero => simp [evalS, GoalS]
        | succ f' =>
          have hpool1 : PoolOK s.cvals (emitS stmt pos lp cs).2 := hpool.mono (emitB_ext rest _ _ _)
          obtain ⟨hok1, hgs⟩ := sim_ws f' Γ Γ1 stmt hws hok st pos lp cs C s hc1 hpool1 hip hrel hlast
          cases hr : evalS (f' + 1) stmt st with
          | val u st1 =>
            rw [hr] at hgs
            obtain ⟨g1, l1, n1, hn1, hrel1, hlast1, ho1, hle1⟩ := hgs
            let S1 : VM := { s with ip := pos + sizeS stmt, globals := g1, last := l1 }
            have ih := sim_wb rest Γ1 Γ' hwb' hok1 (f' + 1) st1 (pos + sizeS stmt) lp (emitS stmt pos lp cs).2 C S1
              hc2 hpool rfl hrel1 hlast1
            simp only
            cases hr2 : evalB (f' + 1) rest st1 with
            | val u2 st2 =>
              rw [hr2] at ih
              obtain ⟨g2, l2, n2, hn2, hrel2, hlast2, ho2, hle2⟩ := ih
              refine ⟨g2, l2, n1 + n2, ?_, hrel2, hlast2, by rw [ho2, ho1], by rw [hle2, hle1]⟩
              have := execN_add C n1 n2 s S1 _ hn1 hn2
              rw [this]
              simp only [S1, sizeB]
              cases s; simp; omega
            | err er st2 =>
              rw [hr2] at ih
              obtain ⟨n2, s1, s2, hn2, hs⟩ := ih
              exact ⟨n1 + n2, s1, s2, execN_add C n1 n2 s S1 _ hn1 hn2, hs⟩
            | fuel => trivial
            | unspec _ => trivial
            | brk _ => rw [hr2] at ih; exact ih
            | cont _ => rw [hr2] at ih; exact ih
            | ret _ _ => rw [hr2] at ih; exact ih
          | err er st1 => rw [hr] at hgs; exact hgs
          | fuel => trivial
          | unspec _ => trivial
          | brk _ => rw [hr] at hgs; exact hgs
          | cont _ => rw [hr] at hgs; exact hgs
          | ret _ _ => rw [hr] at hgs; exact hgs

theorem compile_general (p : RBlock) (bc : Bytecode) (hc : compileR p = .ok bc) :
    bc.code = (encodeAll ((emitB p 0 none []).1 ++ [.halt])).toArray ∧ bc.consts = (emitB p 0 none []).2
    ∧ ∀ i ∈ (emitB p 0 none []).1 ++ [.halt], i.wf := by
  unfold compileR at hc
  generalize hem : emitB p 0 none [] = em at hc
  obtain ⟨c, cs'⟩ := em
  simp only at hc
  split at hc
  · rename_i hfit
    injection hc with hc
    subst hc
    refine ⟨rfl, rfl, ?_⟩
    intro i hi
    simp only [Bool.and_eq_true, List.all_eq_true] at hfit
    exact fits_wf i (hfit.1 i hi)
  · simp at hc

/-- END TO END, stage 2: programs that are sequences of expression statements and declarations
    over global scalar variables (with assignment expressions), compiled by the compiler model and
    run on a fresh machine -/
theorem global_program (p : RBlock) (Γ' : Gam) (hwb : WB [] p Γ') (bc : Bytecode) (hc : compileR p = .ok bc) (F : Nat) :
    match evalB F p {} with
    | .val () st' => ∃ mv n, toVal st'.last = some mv ∧ st'.out = [] ∧
        ∀ k, ∃ s', runSteps bc.code (n + k) (VM.start {} bc) = .value mv s'
    | .err er _ => ∃ n, ∀ k, ∃ s', runSteps bc.code (n + k) (VM.start {} bc) = .error er s'
    | _ => True := by
  obtain ⟨hcode, hconsts, hwf⟩ := compile_general p bc hc
  have hall : CodeAt bc.code 0 ((emitB p 0 none []).1 ++ [.halt]) := ⟨hwf, [], [], by simp [hcode], rfl⟩
  obtain ⟨h1, hhalt⟩ := hall.append
  have hpool : PoolOK (VM.start {} bc).cvals (emitB p 0 none []).2 := by
    rw [← hconsts]; exact start_pool bc {}
  have hsim := sim_wb p [] Γ' hwb (by simp [GamOK]) F {} 0 none [] bc.code (VM.start {} bc) h1 hpool
    (by simp [VM.start]) (by intro b k hm; cases hm) (by simp [LastRel, toVal, VM.start])
  cases hr : evalB F p {} with
  | val u st' =>
    rw [hr] at hsim
    obtain ⟨g', l', n, hn, _, hlast, hout, _⟩ := hsim
    simp only
    refine ⟨l', n + 1, hlast, by simpa using hout, ?_⟩
    simp only [emitB_size, Nat.zero_add] at hhalt
    let S1 : VM := { (VM.start {} bc) with ip := 0 + sizeB p, globals := g', last := l' }
    have hs : step bc.code S1 = .halt l' { S1 with ip := sizeB p + 1 } := by
      have := step_at (s := S1) (i := .halt) (rest := []) (by simpa [S1] using hhalt)
      rw [this]; simp [exec, S1, Instr.size]
    intro k
    exact ⟨_, run_halt bc.code n _ S1 l' _ hn hs k⟩
  | err er st' =>
    rw [hr] at hsim
    obtain ⟨n, s1, s2, hn, hs⟩ := hsim
    simp only
    exact ⟨n + 1, fun k => ⟨s2, run_error bc.code n _ s1 er s2 hn hs k⟩⟩
  | fuel => trivial
  | brk _ => trivial
  | cont _ => trivial
  | ret _ _ => trivial
  | unspec _ => trivial

end Sim
end Nl
