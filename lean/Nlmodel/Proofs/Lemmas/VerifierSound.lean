/- Soundness of the bytecode checker: a checked program never faults (C02). -/
import Nlmodel.Proofs.Lemmas.VerifierStep
namespace Nl
namespace Verifier

theorem check_parts (bc : Bytecode) (c : Cert) (hc : check bc c = true) :
    c.get 0 = some (0, 0) ∧
    (∀ p ∈ fnTable bc.consts, p.1 ≠ 0 ∧ c.get p.1 = some (p.1, 0) ∧ nlocals (fnTable bc.consts) p.1 = p.2) := by
  unfold check at hc
  simp only [Bool.and_eq_true, List.all_eq_true, beq_iff_eq, bne_iff_ne, ne_eq] at hc
  obtain ⟨⟨⟨_, h0⟩, hf⟩, _⟩ := hc
  refine ⟨h0, ?_⟩
  intro p hp
  obtain ⟨⟨h1, h2⟩, h3⟩ := hf p hp
  exact ⟨h1, h2, h3⟩

theorem nlocals_zero (bc : Bytecode) (c : Cert) (hc : check bc c = true) : nlocals (fnTable bc.consts) 0 = 0 := by
  unfold nlocals
  cases hf : (fnTable bc.consts).find? (fun p => p.1 == 0) with
  | none => rfl
  | some p =>
    have hm := List.mem_of_find?_eq_some hf
    have hp := List.find?_some hf
    have := ((check_parts bc c hc).2 p hm).1
    simp at hp
    exact absurd hp this

/-- a whole step -/
theorem step_good (bc : Bytecode) (c : Cert) (hc : check bc c = true) (s : VM) (o h : Nat)
    (inv : Inv bc c s o h) : Good bc c (step bc.code s) := by
  -- the certified offset decodes and satisfies its rule
  have hdec : ∃ i, decodeAt bc.code s.ip = some i ∧
      checkInstr c (fnTable bc.consts) bc.consts.length (s.ip + i.size) i o h = true := by
    unfold check at hc
    simp only [Bool.and_eq_true, List.all_eq_true, List.mem_range] at hc
    obtain ⟨_, hall⟩ := hc
    have hg := inv.cert
    have hpc : s.ip < c.ent.size := by
      unfold Cert.get at hg
      cases he : c.ent[s.ip]? with
      | none => simp [he] at hg
      | some x => exact (Array.getElem?_eq_some_iff.mp he).1
    have := hall s.ip hpc
    rw [hg] at this
    simp only at this
    cases hd : decodeAt bc.code s.ip with
    | none => simp [hd] at this
    | some i => exact ⟨i, rfl, by simpa [hd] using this⟩
  obtain ⟨i, hd, hrule⟩ := hdec
  unfold step
  rw [hd]
  exact exec_good i s o h inv hrule

/-- a checked program never reaches a fault, in any number of steps -/
theorem run_never_faults (bc : Bytecode) (c : Cert) (hc : check bc c = true) :
    ∀ (n : Nat) (s : VM) (o h : Nat), Inv bc c s o h → ∀ site, runSteps bc.code n s ≠ .fault site := by
  intro n
  induction n with
  | zero => intro s o h _ site; simp [runSteps]
  | succ n ih =>
    intro s o h inv site
    have hg := step_good bc c hc s o h inv
    simp only [runSteps]
    cases hs : step bc.code s with
    | next s' =>
      rw [hs] at hg
      obtain ⟨o', h', inv'⟩ := hg
      exact ih s' o' h' inv' site
    | halt v s' => simp
    | error e s' => simp
    | fault st => rw [hs] at hg; exact absurd hg (by simp [Good])


theorem loadConsts_ok (bc : Bytecode) (c : Cert) (hc : check bc c = true) :
    ∀ (cs : List Const) (m : Mem) (vs : Array Value), (∀ k ∈ cs, k ∈ bc.consts) →
      HeapOK c (fnTable bc.consts) m.heap → (∀ v ∈ vs, ValOK c (fnTable bc.consts) v) →
      HeapOK c (fnTable bc.consts) (loadConsts cs (m, vs)).1.heap
      ∧ (∀ v ∈ (loadConsts cs (m, vs)).2, ValOK c (fnTable bc.consts) v)
      ∧ (loadConsts cs (m, vs)).2.size = vs.size + cs.length := by
  intro cs
  induction cs with
  | nil => intro m vs _ hm hv; exact ⟨hm, hv, by simp [loadConsts]⟩
  | cons k cs ih =>
    intro m vs hsub hm hv
    have hsub' : ∀ k' ∈ cs, k' ∈ bc.consts := fun k' hk' => hsub k' (List.mem_cons_of_mem _ hk')
    have push_ok : ∀ x, ValOK c (fnTable bc.consts) x → ∀ v ∈ vs.push x, ValOK c (fnTable bc.consts) v := by
      intro x hx v hv'
      rcases mem_push hv' with h1 | h1
      · exact hv v h1
      · subst h1; exact hx
    cases k with
    | int i =>
      simp only [loadConsts]
      obtain ⟨h1, h2, h3⟩ := ih m (vs.push (.int i)) hsub' hm (push_ok _ trivial)
      exact ⟨h1, h2, by simp at h3 ⊢; omega⟩
    | fn ip nl =>
      simp only [loadConsts]
      have hmem : (ip, nl) ∈ fnTable bc.consts := by
        unfold fnTable
        rw [List.mem_filterMap]
        exact ⟨.fn ip nl, hsub _ List.mem_cons_self, rfl⟩
      have hf := (check_parts bc c hc).2 (ip, nl) hmem
      obtain ⟨h1, h2, h3⟩ := ih m (vs.push (.fn ip nl)) hsub' hm (push_ok _ hf)
      exact ⟨h1, h2, by simp at h3 ⊢; omega⟩
    | float b =>
      simp only [loadConsts, Mem.allocFloat]
      obtain ⟨h1, h2, h3⟩ := ih { heap := (m.heap.alloc (.float b)).1, managed := (m.heap.alloc (.float b)).2 :: m.managed }
        (vs.push (.float (m.heap.alloc (.float b)).2)) hsub'
        (heapOK_alloc c _ _ (.float b) hm (by intro v hv; cases hv)) (push_ok _ trivial)
      exact ⟨h1, h2, by simp at h3 ⊢; omega⟩
    | str t =>
      simp only [loadConsts, Mem.allocStr]
      obtain ⟨h1, h2, h3⟩ := ih { heap := (m.heap.alloc (.str t)).1, managed := (m.heap.alloc (.str t)).2 :: m.managed }
        (vs.push (.str (m.heap.alloc (.str t)).2)) hsub'
        (heapOK_alloc c _ _ (.str t) hm (by intro v hv; cases hv)) (push_ok _ trivial)
      exact ⟨h1, h2, by simp at h3 ⊢; omega⟩

/-- the state in which every run starts satisfies the invariant, provided the retained globals and
    heap hold only checked function values (always true for `eval`, which starts from nothing) -/
theorem start_inv (bc : Bytecode) (c : Cert) (hc : check bc c = true) (prev : VM)
    (hg : ∀ v ∈ prev.globals, ValOK c (fnTable bc.consts) v)
    (hh : HeapOK c (fnTable bc.consts) prev.mem.heap) :
    Inv bc c (prev.start bc) 0 0 := by
  obtain ⟨h1, h2, h3⟩ := loadConsts_ok bc c hc bc.consts { heap := prev.mem.heap, managed := [] } #[]
    (fun k hk => hk) hh (by intro v hv; simp at hv)
  refine ⟨(check_parts bc c hc).1, ?_, FramesOK.main 0, ?_, hg, h2, ?_, h1, trivial⟩
  · simp [VM.start, nlocals_zero bc c hc]
  · intro v hv; simp [VM.start] at hv
  · simpa [VM.start] using h3


end Verifier
end Nl
