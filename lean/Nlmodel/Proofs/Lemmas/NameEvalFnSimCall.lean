/- NameEvalFn = Spec.eval on the resolver's output: the call case (fresh activation, arity rule, `antwoord`, caller's
   activation put back). -/
import Nlmodel.Proofs.Lemmas.NameEvalFnSimDefs
namespace Nl
namespace NameEvalFn
open Spec SimF Sim
open NameEval (All2 findBid bids postS)

theorem all2_len {α β : Type} {Rr : α → β → Prop} {l : List α} {l' : List β} (h : All2 Rr l l') : l.length = l'.length := by
  induction h with
  | nil => rfl
  | cons _ _ ih => simp [ih]

theorem builtinCallee_of_nonBuiltin (fe : Expr) (h : nonBuiltin fe = true) : builtinCallee fe = false := by
  cases fe <;> simp_all [nonBuiltin, builtinCallee]

theorem qe_call (f : Nat) (q : QAll f) : QCall (f + 1) := by
  intro fe as fn ab scs gscs Tb F N st e' st' ρ σ hs hinv h hrel
  cases hs with
  | call _ _ _ hnb hsas hsf =>
    rw [resolveE_call fe as st hnb] at h
    cases has : resolveEs as st with
    | error er => simp [has] at h
    | ok p =>
      obtain ⟨as1, st1⟩ := p
      simp only [has] at h
      obtain ⟨hi1, _, _⟩ := rEs fn as scs gscs F st as1 st1 hsas hinv has
      cases hf : resolveE fe st1 with
      | error er => simp [hf] at h
      | ok p2 =>
        obtain ⟨f1, st2⟩ := p2
        simp only [hf] at h
        injection h with h; injection h with h1 h2; subst h1
        have hbc := builtinCallee_of_nonBuiltin fe hnb
        have ih1 := q.es as fn scs gscs Tb F N st as1 st1 ρ σ hsas hinv has hrel
        simp only [NameEvalFn.evalE, Spec.evalE, hbc, Bool.false_eq_true, ↓reduceIte]
        rcases ih1.inv with ⟨xs, ws, ρ1, σ1, hn, hs, hxs, hr1⟩ | ⟨ρ1, σ1, hn, hs, hr1⟩ | ⟨ρ1, σ1, hn, hs, hr1⟩ |
          ⟨v, w, ρ1, σ1, hn, hs, hv, hr1⟩ | ⟨er, ρ1, σ1, hn, hs, hr1⟩ | ⟨ρ1, σ1, hn, hs⟩ | ⟨hn, hs⟩
        · simp only [hn, hs]
          have ih2 := q.e fe fn false scs gscs Tb F N st1 f1 st2 ρ1 σ1 hsf hi1 hf hr1
          rcases ih2.inv with ⟨a, b, ρ2, σ2, hn2, hs2, hv, hr2⟩ | ⟨ρ2, σ2, hn2, hs2, hr2⟩ | ⟨ρ2, σ2, hn2, hs2, hr2⟩ |
            ⟨v, w, ρ2, σ2, hn2, hs2, hv, hr2⟩ | ⟨er, ρ2, σ2, hn2, hs2, hr2⟩ | ⟨ρ2, σ2, hn2, hs2⟩ | ⟨hn2, hs2⟩
          · simp only [hn2, hs2]
            cases hv with
            | fn st0 sc1 F0 ps body rb st4 hinv0 hsb hrb hsuf =>
              simp only
              have hnl : msOf st4 = nlocals ps body := msOf_body st0 sc1 F0 hinv0 ps body hsb rb st4 hrb
              have hlen : xs.length = ws.length := all2_len hxs
              rw [hnl, hlen]
              by_cases hgt : ws.length > nlocals ps body
              · simp only [hgt, ↓reduceIte]
                exact .err _ _ _ hr2.g.out
              · simp only [hgt, ↓reduceIte]
                obtain ⟨hinv3, hr3⟩ := R.enterCall hr2 st0 sc1 F0 ps hinv0 hsuf xs ws hxs
                have ihb := q.bv body true false _ [sc1] (TT fn scs Tb) (F0 + 1) N _ rb st4 _ _ hsb hinv3 hrb hr3
                rcases ihb.inv with ⟨v3, w3, ρ3, σ3, hn3, hs3, hv3, hr3'⟩ | ⟨ρ3, σ3, hn3, hs3, hr3'⟩ | ⟨ρ3, σ3, hn3, hs3, hr3'⟩ |
                  ⟨v3, w3, ρ3, σ3, hn3, hs3, hv3, hr3'⟩ | ⟨er, ρ3, σ3, hn3, hs3, hr3'⟩ | ⟨ρ3, σ3, hn3, hs3⟩ | ⟨hn3, hs3⟩
                · simp only [hn3, hs3, finishCall]
                  exact .val _ _ _ _ hv3 (hr2.restore ρ3 σ3 hr3'.g)
                · simp only [hn3, hs3, finishCall]; exact .unspec _ _
                · simp only [hn3, hs3, finishCall]; exact .unspec _ _
                · simp only [hn3, hs3, finishCall]
                  exact .val _ _ _ _ hv3 (hr2.restore ρ3 σ3 hr3'.2.2)
                · simp only [hn3, hs3, finishCall]; exact .err _ _ _ hr3'
                · simp only [hn3, hs3, finishCall]; exact .unspec _ _
                · simp only [hn3, hs3, finishCall]; exact .fuel
            | null => exact .err _ _ _ hr2.g.out
            | bool _ => exact .err _ _ _ hr2.g.out
            | int _ => exact .err _ _ _ hr2.g.out
            | float _ => exact .err _ _ _ hr2.g.out
          · pass_on hn2 hs2 hr2
          · pass_on hn2 hs2 hr2
          · pass_ret hn2 hs2 hv hr2
          · pass_on hn2 hs2 hr2
          · pass_on hn2 hs2 hn2
          · pass_on hn2 hs2 hn2
        · pass_on hn hs hr1
        · pass_on hn hs hr1
        · pass_ret hn hs hv hr1
        · pass_on hn hs hr1
        · pass_on hn hs hn
        · pass_on hn hs hn

end NameEvalFn
end Nl
