/- Stage 4: the induction on the fuel of the definitional semantics, all seven statements together. -/
import Nlmodel.Proofs.Lemmas.SimFnBody
namespace Nl
namespace SimF
open Spec Sim

theorem pall {W : World} (hW : WOK W) : ∀ f, PAll W f
  | 0 => ⟨by unfold PE; intros; simp only [evalE]; exact .inr trivial,
          by unfold PEs; intros; simp only [evalEs]; exact .inr trivial,
          by unfold PBV; intros; simp only [evalBV]; exact .inr trivial,
          by unfold PS; intros; simp only [evalS]; exact .inr trivial,
          by unfold PB; intros; simp only [evalB]; exact .inr trivial,
          by unfold PL; intros; simp only [evalLoop]; exact .inr trivial,
          by unfold PBF; intros; simp only [evalBV]; exact .inr trivial⟩
  | f + 1 =>
    have ih := pall hW f
    ⟨pe_succ hW f ih, pes_succ f ih, pbv_succ f ih, ps_succ hW f ih, pb_succ f ih, pl_succ f ih, pbf_succ hW f ih⟩

end SimF
end Nl
