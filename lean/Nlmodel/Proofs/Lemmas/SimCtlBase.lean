/- Forward simulation, stage 3 (C01, C11): structured control flow over global scalar variables.
   Definitions: the fragment (`XE/XO/XS/XB`, with scoping and the flag "abrupt exit allowed here"),
   machine configurations, goals. -/
import Nlmodel.Proofs.Lemmas.SimStmtG
namespace Nl
namespace Sim
open Spec

/-- the machine `s0` with the four components that the fragment's code changes -/
def setv (s0 : VM) (ip : Nat) (stk g : Array Value) (l : Value) : VM :=
  { s0 with ip := ip, stack := stk, globals := g, last := l }

@[simp] theorem setv_ip (s0 : VM) (ip stk g l) : (setv s0 ip stk g l).ip = ip := rfl
@[simp] theorem setv_stack (s0 : VM) (ip stk g l) : (setv s0 ip stk g l).stack = stk := rfl
@[simp] theorem setv_globals (s0 : VM) (ip stk g l) : (setv s0 ip stk g l).globals = g := rfl
@[simp] theorem setv_last (s0 : VM) (ip stk g l) : (setv s0 ip stk g l).last = l := rfl
@[simp] theorem setv_cvals (s0 : VM) (ip stk g l) : (setv s0 ip stk g l).cvals = s0.cvals := rfl
@[simp] theorem setv_mem (s0 : VM) (ip stk g l) : (setv s0 ip stk g l).mem = s0.mem := rfl
@[simp] theorem setv_setv (s0 : VM) (ip stk g l ip' stk' g' l') :
    setv (setv s0 ip stk g l) ip' stk' g' l' = setv s0 ip' stk' g' l' := rfl
theorem setv_self (s : VM) : setv s s.ip s.stack s.globals s.last = s := by cases s; rfl

theorem execN_step (C : Code) (n : Nat) (s s1 s2 : VM) (h1 : execN C n s = some s1) (h2 : step C s1 = .next s2) :
    execN C (n + 1) s = some s2 :=
  execN_add C n 1 s s1 s2 h1 (by simp [execN, h2])

theorem execN_one (C : Code) (s s2 : VM) (h2 : step C s = .next s2) : execN C 1 s = some s2 := by
  simp [execN, h2]

/-! ### one lemma per instruction, on configurations -/
section steps
variable {C : Code} {s0 : VM} {i : Nat} {stk g : Array Value} {l : Value} {rest : List Instr}

theorem step_null (h : CodeAt C i (.null :: rest)) :
    step C (setv s0 i stk g l) = .next (setv s0 (i + 1) (stk.push .null) g l) := by
  rw [step_at (s := setv s0 i stk g l) (by simpa using h)]; rfl

theorem step_true (h : CodeAt C i (.true_ :: rest)) :
    step C (setv s0 i stk g l) = .next (setv s0 (i + 1) (stk.push (.bool true)) g l) := by
  rw [step_at (s := setv s0 i stk g l) (by simpa using h)]; rfl

theorem step_false (h : CodeAt C i (.false_ :: rest)) :
    step C (setv s0 i stk g l) = .next (setv s0 (i + 1) (stk.push (.bool false)) g l) := by
  rw [step_at (s := setv s0 i stk g l) (by simpa using h)]; rfl

theorem step_pop {v : Value} (h : CodeAt C i (.pop :: rest)) :
    step C (setv s0 i (stk.push v) g l) = .next (setv s0 (i + 1) stk g v) := by
  rw [step_at (s := setv s0 i (stk.push v) g l) (by simpa using h)]
  simp [exec, pop1_push, setv, Instr.size]

theorem step_jump {t : Nat} (h : CodeAt C i (.jump t :: rest)) :
    step C (setv s0 i stk g l) = .next (setv s0 t stk g l) := by
  rw [step_at (s := setv s0 i stk g l) (by simpa using h)]; rfl

theorem step_jif {t : Nat} {b : Bool} (h : CodeAt C i (.jumpIfFalse t :: rest)) :
    step C (setv s0 i (stk.push (.bool b)) g l) = .next (setv s0 (if b then i + 3 else t) stk g l) := by
  rw [step_at (s := setv s0 i (stk.push (.bool b)) g l) (by simpa using h)]
  simp [exec, pop1_push, setv, Instr.size]

theorem step_jif_err {t : Nat} {v : Value} (h : CodeAt C i (.jumpIfFalse t :: rest)) (hv : ∀ b, v ≠ .bool b) :
    ∃ s2, step C (setv s0 i (stk.push v) g l) = .error .type s2 := by
  rw [step_at (s := setv s0 i (stk.push v) g l) (by simpa using h)]
  cases v <;> simp [exec, pop1_push] at hv ⊢

theorem step_const_int {k : Nat} {v : Int} (h : CodeAt C i (.const k :: rest)) (hk : s0.cvals[k]? = some (.int v)) :
    step C (setv s0 i stk g l) = .next (setv s0 (i + 3) (stk.push (.int v)) g l) := by
  rw [step_at (s := setv s0 i stk g l) (by simpa using h)]
  simp [exec, hk, setv, Instr.size]

theorem step_getGlobal {k : Nat} (h : CodeAt C i (.getGlobal k :: rest)) :
    step C (setv s0 i stk g l) = .next (setv s0 (i + 3) (stk.push (g.getD k .null)) g l) := by
  rw [step_at (s := setv s0 i stk g l) (by simpa using h)]; rfl

theorem step_setGlobal {k : Nat} {v : Value} (h : CodeAt C i (.setGlobal k :: rest)) :
    step C (setv s0 i (stk.push v) g l) = .next (setv s0 (i + 3) stk (setGlobalArr g k v) l) := by
  rw [step_at (s := setv s0 i (stk.push v) g l) (by simpa using h)]
  simp only [exec, setv_stack, pop1_push, setv_globals, Instr.size]
  rfl

theorem step_exec {ins : Instr} (h : CodeAt C i (ins :: rest)) :
    step C (setv s0 i stk g l) = exec ins (i + ins.size) (setv s0 i stk g l) := by
  rw [step_at (s := setv s0 i stk g l) (by simpa using h)]; rfl
end steps

/-! ### the fragment -/

mutual
/-- expressions; `ab` = an abrupt exit (`stop`/`volgende`) of the innermost loop is allowed here,
    i.e. we are inside a loop body and no operand is pending since the body was entered -/
inductive XE : Gam → Bool → RExpr → Prop where
  | int (Γ ab) (v : Int) : XE Γ ab (.int v)
  | bool (Γ ab) (b : Bool) : XE Γ ab (.bool b)
  | not (Γ ab) (e : RExpr) : XE Γ ab e → XE Γ ab (.not e)
  | neg (Γ ab) (e : RExpr) : XE Γ ab e → XE Γ ab (.neg e)
  | bin (Γ ab) (l : RExpr) (op : BinOp) (r : RExpr) : XE Γ ab l → XE Γ false r → XE Γ ab (.infix l op r)
  | var (Γ ab) (b k : Nat) : (b, k) ∈ Γ → XE Γ ab (.var ⟨b, .global k⟩)
  | assign (Γ ab) (b k : Nat) (e : RExpr) : (b, k) ∈ Γ → XE Γ ab e → XE Γ ab (.assignVar ⟨b, .global k⟩ e)
  | ifE (Γ ab) (c : RExpr) (t : RBlock) (e : ROptBlock) (Γ1 : Gam) : XE Γ ab c → XB Γ ab t Γ1 → XO Γ ab e →
      XE Γ ab (.ifE c t e)
  | whileE (Γ ab) (c : RExpr) (b : RBlock) (Γ1 : Gam) : XE Γ false c → XB Γ true b Γ1 → XE Γ ab (.whileE c b)
inductive XO : Gam → Bool → ROptBlock → Prop where
  | none (Γ ab) : XO Γ ab .none
  | some (Γ ab) (b : RBlock) (Γ1 : Gam) : XB Γ ab b Γ1 → XO Γ ab (.some b)
inductive XS : Gam → Bool → RStmt → Gam → Prop where
  | expr (Γ ab) (e : RExpr) : XE Γ ab e → XS Γ ab (.expr e) Γ
  | letS (Γ ab) (b k : Nat) (e : RExpr) : (∀ p ∈ Γ, p.1 ≠ b ∧ p.2 ≠ k) → XE ((b, k) :: Γ) ab e →
      XS Γ ab (.letS ⟨b, .global k⟩ e) ((b, k) :: Γ)
  | block (Γ ab) (b : RBlock) (Γ1 : Gam) : XB Γ ab b Γ1 → XS Γ ab (.block b) Γ
  | brk (Γ) : XS Γ true .brk Γ
  | cont (Γ) : XS Γ true .cont Γ
inductive XB : Gam → Bool → RBlock → Gam → Prop where
  | nil (Γ ab) : XB Γ ab .nil Γ
  | cons (Γ ab) (Γ1 Γ2 : Gam) (s : RStmt) (b : RBlock) : XS Γ ab s Γ1 → XB Γ1 ab b Γ2 → XB Γ ab (.cons s b) Γ2
end

theorem xe_not_fused {Γ Γ' : Gam} {ab ab' : Bool} (l r : RExpr) (op : BinOp) (hl : XE Γ ab l) (hr : XE Γ' ab' r) :
    fusedCandidate l op r = none := by
  cases hl <;> cases hr <;> rfl

theorem xs_scope {Γ Γ1 : Gam} {ab : Bool} {s : RStmt} (h : XS Γ ab s Γ1) (hok : GamOK Γ) :
    GamOK Γ1 ∧ ∃ d, Γ1 = d ++ Γ := by
  cases h with
  | expr => exact ⟨hok, [], rfl⟩
  | letS _ _ b k e hf _ => exact ⟨gamOK_cons hok b k hf, [(b, k)], rfl⟩
  | block => exact ⟨hok, [], rfl⟩
  | brk => exact ⟨hok, [], rfl⟩
  | cont => exact ⟨hok, [], rfl⟩

theorem xb_scope : ∀ (b : RBlock) {Γ Γ1 : Gam} {ab : Bool}, XB Γ ab b Γ1 → GamOK Γ → GamOK Γ1 ∧ ∃ d, Γ1 = d ++ Γ
  | .nil, _, _, _, h, hok => by cases h; exact ⟨hok, [], rfl⟩
  | .cons s rest, _, _, _, h, hok => by
    cases h with
    | cons _ _ Γ1 _ _ _ hs hb =>
      obtain ⟨hok1, d1, e1⟩ := xs_scope hs hok
      obtain ⟨hok2, d2, e2⟩ := xb_scope rest hb hok1
      exact ⟨hok2, d2 ++ d1, by rw [e2, e1, List.append_assoc]⟩

theorem rel_weaken {Γ : Gam} (d : Gam) {st : SState} {g : Array Value} (h : Rel (d ++ Γ) st g) : Rel Γ st g :=
  fun b k hm v hv => h b k (List.mem_append_right _ hm) v hv

/-! ### goals -/

def brkT (lp : LoopCtx) : Nat := match lp with | some (_, e) => e | none => 0
def contT (lp : LoopCtx) : Nat := match lp with | some (s, _) => s | none => 0

/-- from configuration `(ip, stk, g, l)` the machine reaches `(ip', stk', g', l')` with `g'`, `l'`
    related to the semantics' final state -/
def Reach (Γ : Gam) (C : Code) (s0 : VM) (ip : Nat) (stk g : Array Value) (l : Value)
    (ip' : Nat) (stk' : Array Value) (st st' : SState) : Prop :=
  ∃ g' l' n, execN C n (setv s0 ip stk g l) = some (setv s0 ip' stk' g' l') ∧
    Rel Γ st' g' ∧ LastRel st' l' ∧ st'.out = st.out ∧ st'.lenv = st.lenv

def Fails (C : Code) (s : VM) (er : Err) : Prop := ∃ n s1 s2, execN C n s = some s1 ∧ step C s1 = .error er s2

/-- goal for something that leaves a value: from `(pos, stk)` to `(endIp, base.push v)` -/
def GoalV (Γ : Gam) (ab : Bool) (lp : LoopCtx) (C : Code) (s0 : VM) (pos : Nat) (stk g : Array Value) (l : Value)
    (endIp : Nat) (base : Array Value) (st : SState) (r : Res SVal) : Prop :=
  match r with
  | .val v st' => ∃ mv, toVal v = some mv ∧ Reach Γ C s0 pos stk g l endIp (base.push mv) st st'
  | .brk st' => ab = true ∧ Reach Γ C s0 pos stk g l (brkT lp) (base.push .null) st st'
  | .cont st' => ab = true ∧ Reach Γ C s0 pos stk g l (contT lp) (base.push .null) st st'
  | .err er _ => Fails C (setv s0 pos stk g l) er
  | .ret _ _ => False
  | .fuel => True
  | .unspec _ => True

/-- goal for a statement / block in statement position: the stack is back where it was -/
def GoalU (Γ Γ' : Gam) (ab : Bool) (lp : LoopCtx) (C : Code) (s0 : VM) (pos : Nat) (stk g : Array Value) (l : Value)
    (endIp : Nat) (st : SState) (r : Res Unit) : Prop :=
  match r with
  | .val () st' => Reach Γ' C s0 pos stk g l endIp stk st st'
  | .brk st' => ab = true ∧ Reach Γ C s0 pos stk g l (brkT lp) (stk.push .null) st st'
  | .cont st' => ab = true ∧ Reach Γ C s0 pos stk g l (contT lp) (stk.push .null) st st'
  | .err er _ => Fails C (setv s0 pos stk g l) er
  | .ret _ _ => False
  | .fuel => True
  | .unspec _ => True

theorem Reach.refl (Γ : Gam) (C : Code) (s0 : VM) (ip : Nat) (stk g : Array Value) (l : Value) (st : SState)
    (hr : Rel Γ st g) (hl : LastRel st l) : Reach Γ C s0 ip stk g l ip stk st st :=
  ⟨g, l, 0, rfl, hr, hl, rfl, rfl⟩

theorem Fails.after {C : Code} {s s1 : VM} {er : Err} (n : Nat) (h1 : execN C n s = some s1) (h2 : Fails C s1 er) :
    Fails C s er := by
  obtain ⟨m, a, b, ha, hb⟩ := h2
  exact ⟨n + m, a, b, execN_add C n m s s1 a h1 ha, hb⟩

end Sim
end Nl
