"""C17 — a retained session behaves like one growing program."""
import itertools

from .. import core, diff
from ..core import hx

PROOF_MODULE = "Nlmodel.Proofs.C17"
PROOF_FILES = ["Nlmodel/Proofs/C17.lean", "Nlmodel/Model/Session.lean", "Nlmodel/Model/Resolve.lean", "Nlmodel/Model/VM.lean"]
THEOREM_FILE = PROOF_FILES[0]
LEVEL_TEXT = ("Lean theorems on the explicit-state session model (compiler symbol table + machine globals carried from line to line): a line that fails to parse or to compile leaves the session exactly as it was; every run starts from an empty stack and no frames and sees exactly the globals the earlier lines left; a line failing at run time leaves the symbol table of that line and the globals with the assignments it completed; compiling lines one after the other on the retained symbol table resolves every name (binder and slot) exactly as compiling their concatenation as one program. The statement 'the result of line n equals the result of the single program l1..ln' is decided by the correspondence (partial as a theorem: it needs the C01 simulation generalised over the carried state). Tied to the code by successive real VM::run calls on one (Compiler, VM) pair vs the session model, and by the direct oracle: session result vs real eval of the concatenation of the successful lines. A SESSION REFINES THE DEFINITIONAL SEMANTICS LINE BY LINE (C17_line_refines_semantics, C17_session_refines_semantics; Lemmas/SimCtlSession.lean): in the control-flow fragment (global scalar variables, stel, assignment, operators, als/zolang as statements and values, stop/volgende, nested blocks) a session of ANY length answers every line with the value the definitional semantics gives when run line by line on the carried state - earlier lines' names resolved on the retained symbol table to the slots they got, their values found in the retained machine's globals; invariant Sim.SInv (symbol table / globals / definitional state), true of the empty session and re-established by every successful line. THE SESSION IS ONE GROWING PROGRAM (C17_session_is_one_growing_program): in that fragment the real session's answer to its last line equals the definitional value of the single program made of all the lines, when the last line ends in an expression statement (resolver concatenation lemma; a block followed by a block evaluates as one after the other; the last register is write-only for the whole definitional evaluator, SL.all; the resolver leaves its nesting counters as found, RD.dSs).")
LEVEL_NOTE = ("Trusted: Lean kernel. Within U8 of DESIGN 4.3: sessions whose globals hold only scalars and whose functions are called on the line that defines them (heap values and function values across lines are finding K2; declared-but-never-assigned names after a run-time failure are finding K1).")
TECHNIQUE = "Lean 4 proof (explicit-state session model) + session-vs-model and session-vs-concatenation differential with failure injection"
RULE = ("sessions of up to 12 lines from an alphabet of declarations, assignments, expressions over earlier globals, loops, self-contained "
        "function definitions with calls, and lines failing at parse time, compile time (every statement position) and run time after "
        "k instructions; complete enumeration of all sessions of up to 3 lines over a 14-line alphabet; non-trivial = distinct session "
        "compared with the model and with the concatenated program")
EXHAUSTIVE = True

ALPHABET = [
    "stel a = 1", "stel b = a + 1", "a = a + 10", "a", "b", "a * 2 + 1", "stel a = 5", "stel i = 0; zolang i < 3 { i += 1; a = a + i; }; a",
    "functie f(x) { x + a } f(2)", "print(a)", "a +", "zz", "a / 0", "stel c = 7; c = c / 0", "{ stel t = a; t + 1 }", "als a > 3 { a = 0 } anders { a = 9 }; a",
]


def ok_prefix_program(lines, results):
    """the single program made of all successful earlier lines plus the current one"""
    return None


def run(res, tier, rng, table_diffs=()):
    sessions = []
    small = ALPHABET[:14] + ["stel e = a / 0", "e"]
    for n in (1, 2, 3):
        for t in itertools.product(small, repeat=n):
            if n == 3 and tier == "quick" and rng.below(4) != 0:
                continue
            sessions.append(list(t))
    for _ in range(400 if tier == "quick" else 6000):
        n = rng.range(4, 12)
        s = []
        for _ in range(n):
            c = rng.below(12)
            if c < 7:
                s.append(rng.pick(ALPHABET))
            elif c == 7:
                v = rng.pick(["a", "b", "c", "d"])
                s.append("stel %s = %d" % (v, rng.below(50)))
            elif c == 8:
                # compile-time failure at a chosen statement position
                k = rng.below(3)
                stmts = ["stel p%d = %d" % (j, j) for j in range(3)]
                stmts.insert(k, rng.pick(["undeclared_name", "stop", "antwoord 1", "volgende"]))
                s.append("; ".join(stmts))
            elif c == 9:
                # run-time failure after k completed assignments
                k = rng.below(4)
                s.append("; ".join(["a = a + 1"] * k + ["a / 0", "a = 1000"]))
            elif c == 10:
                s.append("functie g%d(n) { als n < 1 { antwoord 0 }; n + g%d(n - 1) } g%d(%d)" % ((rng.below(3),) * 3 + (rng.below(6),)))
            else:
                s.append("stel d = 0; zolang d < %d { d += 1; }; d" % rng.below(6))
        if rng.chance(1, 3):
            # declarations whose initialiser fails (the slot is never written), fresh declarations after them, reads of both
            for _ in range(rng.range(2, 6)):
                v = rng.pick(["m1", "m2", "m3"])
                s.insert(rng.below(len(s) + 1), rng.pick(["stel %s = a / 0" % v, "stel %s = %d" % (v, rng.below(90)), v, "stel n%d = a + %d" % (rng.below(4), rng.below(90)),
                                                          "%s" % v, "stel %s = zz" % v]))
        sessions.append(["stel a = 0"] + s)
    reqs = ["session 100000 " + " ".join(hx(l) for l in s) for s in sessions]
    # a line that failed deep inside calls (or at the frame limit) leaves nothing behind that a later line could notice:
    # later lines may again recurse almost to the limit
    runaway = "functie r(n) { r(n + 1) } r(0)"
    fail_deep = "functie f(n) { als n < 1 { 1 / 0 }; f(n - 1) } f(5000)"
    ok_deep = "functie d(n) { als n < 1 { antwoord 0 }; d(n - 1) + 1 } d(50000)"
    small_call = "functie q(a) { a + 1 } q(41)"
    deep = [[runaway, small_call], [runaway, runaway, small_call, ok_deep], [fail_deep] * 4 + [ok_deep, small_call],
            [ok_deep, fail_deep, ok_deep], ["stel a = 1", fail_deep, "a", runaway, "a + 1", small_call],
            [fail_deep, "functie g() { [1.5, \"s\"] } g()", runaway, "functie g() { [2.5] } g()[0]"]]
    # a line that fails with operands PENDING at top level (a half-built list, a left operand, arguments) leaves nothing on the
    # retained machine's stack: afterwards the deepest recursion that fits in a fresh session still fits
    big_fail = "[" + ", ".join(["1"] * 60000) + ", 1 / 0]"
    pend = ["a + 1 / 0", "[a, a, a / 0]", "q(a, a / 0)", "a + h(3)"]
    deep += [["stel a = 1", big_fail, ok_deep, "a"], ["stel a = 1", small_call, "functie h(n) { 1 / 0 }; 0"] + pend * 3 + [ok_deep, small_call, "a"],
             ["stel a = 1", big_fail, big_fail, runaway, ok_deep]]
    never_written = [["stel x = 1 / 0", "stel y = 5", "x", "y"], ["stel a = 2", "stel q = a / 0", "stel r = a / 0", "stel z = a + 40", "q", "r", "z"],
                     ["stel x = 1 / 0", "x", "stel x = 3", "x"], ["stel x = 1 / 0", "stel y = 2 / 0", "stel z = 9", "x", "y", "z", "stel w = 8", "x"]]
    inside = ["!ja; zolang a < 5 { a = a + 1; zz }", "zolang ja { stel q = 1; functie f() { zz } }", "functie f() { zolang ja { zz } }", "zolang zz { 1 }",
              "zolang ja { als ja { zolang ja { zz } } }", "{ stel t = 1; zolang t < 3 { t = t + 1; stop; zz } }", "functie g(x) { antwoord zz }"]
    after = ["stop", "volgende", "volgende; a = 100", "antwoord 1", "a", "zolang a < 3 { a = a + 1; stop }; a", "functie h() { antwoord 2 }; h()", "als ja { stop }"]
    compile_fail = []
    for i, bad in enumerate(inside):
        for j, aft in enumerate(after):
            compile_fail.append(["stel a = 1", bad, aft, "a", after[(i + j) % len(after)], "a + 1"])
    sessions += compile_fail
    reqs += ["session 100000 " + " ".join(hx(l) for l in s) for s in compile_fail]
    from .. import gen2
    ftd = gen2.failure_then_declaration_sessions() + gen2.declare_then_fail_sessions()
    sessions += ftd
    reqs += ["session 100000 " + " ".join(hx(l) for l in s) for s in ftd]
    leak = gen2.failed_scope_leak_sessions()
    leak_at = len(sessions)
    sessions += [x[0] for x in leak]
    reqs += ["session 100000 " + " ".join(hx(l) for l in x[0]) for x in leak]
    sessions += never_written
    reqs += ["session 100000 " + " ".join(hx(l) for l in s) for s in never_written]
    sessions += deep
    reqs += ["session 3000000 " + " ".join(hx(l) for l in s) for s in deep]
    ia = core.impl(reqs)
    ma = core.model(reqs)
    reported = 0
    concat_reqs, concat_idx = [], []
    for si, (s, i, m) in enumerate(zip(sessions, ia, ma)):
        res.seen("\n".join(s))
        res.count("lines-%d" % min(len(s), 4))
        io = i.split(" # ")[0]
        st = diff.stats(i)
        bad_heap = st and (st.get("dfree", "0") != "0" or st.get("uaf", "0") != "0" or st.get("live", "0") != "0")
        if io.startswith(("PANIC", "CRASH", "TIMEOUT")) or bad_heap:
            if reported < 4:
                reported += 1
                res.violation("a session crashed or corrupted the heap", dict(kind="crash", input=s, impl=i, model=m))
            continue
        if leak_at <= si < leak_at + len(leak):
            res.count("scope-leak-session")
            exp = leak[si - leak_at][1]
            got = [o.split(" | ")[0] for o in io.split(" ;; ")]
            wrong = [k for k, (e, g) in enumerate(zip(exp, got)) if e is not None and e != g]
            if wrong and reported < 6:
                reported += 1
                res.violation("a line rejected by the compiler changed the meaning of later lines (a name only it declared is visible, or a global it shadowed lost its value)",
                              dict(kind="scope-leak", input=s, line=s[wrong[0]], expected=exp[wrong[0]], impl=got[wrong[0]], all=got))
                continue
        if io != m:
            if reported < 4:
                reported += 1
                res.violation("session model and the real Compiler+VM pair disagree",
                              dict(kind="model", input=s, impl=io, model=m, unchecked="correspondence Model/Session vs compiler.rs/vm.rs (theorems of Proofs/C17)"),
                              no_input=True)
            continue
        # direct oracle: the last line's result equals eval of the concatenation of the successful earlier lines + that line.
        outs = io.split(" ;; ")
        good = [l for l, o in zip(s[:-1], outs[:-1]) if o.startswith("ok")]
        partial_fail = any(o.startswith("err Type") or o.startswith("err Index") or o.startswith("err Argument") for o in outs[:-1])
        if partial_fail:
            res.count("has-runtime-failure")
            continue      # completed assignments of a failed line are part of the state: not expressible as a concatenation
        # the value of a line is the value of its own last expression statement; a line without one has the
        # value null in a session, while `eval` of a whole program reports the last expression statement of
        # ANY earlier line: only lines that end in an expression statement are comparable
        depth, cur, parts = 0, "", []
        for ch in s[-1]:
            if ch in "{([":
                depth += 1
            elif ch in "})]":
                depth -= 1
            if ch == ";" and depth == 0:
                parts.append(cur)
                cur = ""
            else:
                cur += ch
        parts.append(cur)
        parts = [q.strip() for q in parts if q.strip()]
        if not parts or parts[-1].startswith("stel ") or outs[-1].startswith("err Syntax"):
            res.count("last-line-not-an-expression")
            continue
        prog = ";\n".join(good + [s[-1]])
        concat_reqs.append("eval 100000 " + hx(prog))
        concat_idx.append((si, outs[-1], prog))
    ca = core.impl(concat_reqs)
    for (si, last, prog), c in zip(concat_idx, ca):
        res.count("concat-compared")
        # output of the single program includes the earlier lines' output; compare value/error kind of the last line
        lv = last.split(" | ")[0]
        cv = c.split(" | ")[0]
        if lv != cv and reported < 6:
            reported += 1
            res.violation("the last line of a session does not behave like the last line of the single program made of the successful earlier lines",
                          dict(kind="concat", input=sessions[si], program=prog, session_last=last, single_program=c))
    # K1 probe (known finding): a name declared by a line that failed at run time stays declared
    k1 = ["stel q = 1 / 0", "q"]
    r = core.impl(["session 1000 " + " ".join(hx(l) for l in k1)])[0].split(" # ")[0].split(" ;; ")
    res.seen("K1")
    if len(r) == 2 and not r[1].startswith("err Reference"):
        res.violation("a name declared by a line that failed at run time stays declared (reads as null) instead of being undeclared",
                      dict(kind="declared-after-failed-run", input=k1, impl=r))
    # K2 probe (known finding): heap values held by globals across lines are released at the end of the run that made them
    k2 = ['stel s = "abc"', "lengte(s)"]
    r2 = core.impl(["session 1000 " + " ".join(hx(l) for l in k2)])[0]
    res.seen("K2")
    if not r2.split(" # ")[0].endswith("ok i:3 | x") or "uaf=0" not in r2:
        res.violation("a global holding a heap value (string/array/float) dangles on the next line of a session",
                      dict(kind="heap-global-across-lines", input=k2, impl=r2))


def replay(res, rp):
    s = rp["input"]
    q = "session 100000 " + " ".join(hx(l) for l in s)
    i = core.impl([q])[0]
    m = core.model([q])[0]
    print("impl :", i[:500])
    print("model:", m[:500])
    if rp.get("kind") == "scope-leak":
        got = [o.split(" | ")[0] for o in i.split(" # ")[0].split(" ;; ")]
        k = s.index(rp["line"]) if rp["line"] in s else -1
        if k < 0 or got[k] != rp["expected"] or i.split(" # ")[0] != m:
            print("VIOLATION property=C17 replay=replay")
            return 1
        return 0
    if rp.get("kind") == "concat":
        c = core.impl(["eval 100000 " + hx(rp["program"])])[0]
        print("single:", c[:300])
        if i.split(" # ")[0].split(" ;; ")[-1].split(" | ")[0] != c.split(" | ")[0]:
            print("VIOLATION property=C17 replay=replay")
            return 1
        return 0
    if i.split(" # ")[0] != m:
        print("VIOLATION property=C17 replay=replay")
        return 1
    return 0
